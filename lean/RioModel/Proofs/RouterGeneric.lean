/-
Router proofs, part 2: the shared shape of the six outer matchers (`LState`, `lInsert`, `lRemove`,
`lBatchRemove`): representation relation and its preservation, membership in the bucket union.
-/
import RioModel.Proofs.RouterMap

set_option linter.unusedSimpArgs false
set_option linter.unusedVariables false
set_option linter.unusedSectionVars false

namespace Rio.Router

section
variable {K : Type} [DecidableEq K] {I : MOps} (IL : MLaws I) (keysOf : Route → Option (List K))

/-- the route lives in the always-present bucket -/
def isAnyR (r : Route) : Bool := (keysOf r).isNone
/-- the keys of the buckets the route lives in -/
def keysL (r : Route) : List K := (keysOf r).getD []
/-- the route lives in bucket `k` -/
def inKey (k : K) (r : Route) : Bool := decide (k ∈ keysL keysOf r)

/-- State `s` of an outer matcher represents `L`: the always-present bucket represents the
key-less routes, bucket `k` represents the routes having key `k`, a missing bucket means no route
has that key; `count` is at least the number of represented routes (it is larger after a
`batch_remove`, which does not update it). -/
structure LRepr (s : LState I K) (L : List Route) : Prop where
  len : L.length ≤ s.count
  any : IL.Repr s.any (L.filter (isAnyR keysOf))
  nodup : (akeys s.map).Nodup
  some : ∀ k b, alookup k s.map = some b → IL.Repr b (L.filter (inKey keysOf k))
  none : ∀ k, alookup k s.map = none → ∀ r ∈ L, inKey keysOf k r = false

theorem lrepr_empty : LRepr IL keysOf (lEmpty I) [] where
  len := by simp [lEmpty]
  any := by simpa [lEmpty] using IL.repr_empty
  nodup := by simp [lEmpty]
  some := by intro k b h; simp [lEmpty] at h
  none := by intro k h r hr; simp at hr

theorem lrepr_congr (s : LState I K) (L L' : List Route) (h : LRepr IL keysOf s L)
    (hsub : L'.Sublist L) (hmem : ∀ r ∈ L, r ∈ L') : LRepr IL keysOf s L' where
  len := Nat.le_trans hsub.length_le h.len
  any := IL.repr_congr _ _ _ h.any (hsub.filter _) (by
    intro r hr; rw [List.mem_filter] at hr ⊢; exact ⟨hmem r hr.1, hr.2⟩)
  nodup := h.nodup
  some := by
    intro k b hk
    exact IL.repr_congr _ _ _ (h.some k b hk) (hsub.filter _) (by
      intro r hr; rw [List.mem_filter] at hr ⊢; exact ⟨hmem r hr.1, hr.2⟩)
  none := by
    intro k hk r hr
    exact h.none k hk r (hsub.subset hr)

theorem lrepr_len_zero (s : LState I K) (L : List Route) (h : LRepr IL keysOf s L)
    (h0 : s.count = 0) : L = [] := by
  have := h.len
  rw [h0] at this
  exact List.eq_nil_of_length_eq_zero (Nat.le_zero.mp this)

/-! ### insert -/

/-- The fold of `lInsert` over the keys of the inserted route: buckets of the keys already
processed (`done`) contain the new route. -/
theorem upsert_fold (r : Route) (L : List Route) (hU : UIds (r :: L)) (hok : IL.okIns r) (ks : List K) :
    ∀ (m : List (K × I.M)) (done : List K),
      (akeys m).Nodup →
      (∀ k b, alookup k m = some b →
        IL.Repr b (if k ∈ done then r :: L.filter (inKey keysOf k) else L.filter (inKey keysOf k))) →
      (∀ k, alookup k m = none → k ∉ done ∧ ∀ x ∈ L, inKey keysOf k x = false) →
      let m' := ks.foldl (fun m k => aupsert (I.insert r) I.empty k m) m
      (akeys m').Nodup ∧
      (∀ k b, alookup k m' = some b →
        IL.Repr b (if k ∈ done ++ ks then r :: L.filter (inKey keysOf k) else L.filter (inKey keysOf k))) ∧
      (∀ k, alookup k m' = none → k ∉ done ++ ks ∧ ∀ x ∈ L, inKey keysOf k x = false) := by
  induction ks with
  | nil => intro m done hn hs hno; simpa using ⟨hn, hs, hno⟩
  | cons k0 ks ih =>
    intro m done hn hs hno
    simp only [List.foldl_cons]
    have hUk : ∀ k, UIds (r :: L.filter (inKey keysOf k)) := fun k =>
      hU.mono (by
        intro x hx
        rcases List.mem_cons.mp hx with hx | hx
        · exact hx ▸ List.mem_cons_self ..
        · exact List.mem_cons_of_mem _ (List.mem_filter.mp hx).1)
    have step := ih (aupsert (I.insert r) I.empty k0 m) (done ++ [k0])
      (akeys_aupsert_nodup _ _ _ _ hn) ?_ ?_
    · simpa [List.append_assoc] using step
    · intro k b hk
      rw [alookup_aupsert] at hk
      by_cases e : k = k0
      · subst e
        simp only [if_true, Option.some.injEq] at hk
        subst hk
        have hin : k ∈ done ++ [k] := by simp
        simp only [hin, if_true]
        cases hl : alookup k m with
        | none =>
          have := (hno k hl).2
          have hnil : L.filter (inKey keysOf k) = [] := by
            rw [List.filter_eq_nil_iff]; intro x hx; simp [this x hx]
          simp only [Option.getD_none, hnil]
          exact IL.repr_insert _ _ r IL.repr_empty (fun a ha b hb _ => by
            simp at ha hb; rw [ha, hb]) hok
        | some b0 =>
          simp only [Option.getD_some]
          have hb0 := hs k b0 hl
          by_cases hd : k ∈ done
          · simp only [hd, if_true] at hb0
            -- the key occurs twice among the route's keys: the route is inserted again
            have h2 := IL.repr_insert _ _ r hb0 (by
              intro a ha b hb e
              have ha' : a ∈ r :: L.filter (inKey keysOf k) := by
                rcases List.mem_cons.mp ha with ha | ha
                · exact ha ▸ List.mem_cons_self ..
                · exact ha
              have hb' : b ∈ r :: L.filter (inKey keysOf k) := by
                rcases List.mem_cons.mp hb with hb | hb
                · exact hb ▸ List.mem_cons_self ..
                · exact hb
              exact hUk k a ha' b hb' e) hok
            exact IL.repr_congr _ _ _ h2 (List.sublist_cons_self _ _) (by
              intro x hx
              rcases List.mem_cons.mp hx with hx | hx
              · exact hx ▸ List.mem_cons_self ..
              · exact hx)
          · simp only [hd, if_false] at hb0
            exact IL.repr_insert _ _ r hb0 (hUk k) hok
      · simp only [e, if_false] at hk
        have := hs k b hk
        have hmem : (k ∈ done ++ [k0]) ↔ k ∈ done := by simp [e]
        by_cases hd : k ∈ done
        · simp only [hd, if_true, hmem.2 hd] at this ⊢; exact this
        · have hd' : ¬ k ∈ done ++ [k0] := fun h => hd (hmem.1 h)
          simp only [hd, if_false, hd'] at this ⊢; exact this
    · intro k hk
      rw [alookup_aupsert] at hk
      by_cases e : k = k0
      · subst e; simp at hk
      · simp only [e, if_false] at hk
        have := hno k hk
        refine ⟨?_, this.2⟩
        simp [this.1, e]

theorem filter_inKey_cons (r : Route) (L : List Route) (k : K) :
    (r :: L).filter (inKey keysOf k) =
      if k ∈ keysL keysOf r then r :: L.filter (inKey keysOf k) else L.filter (inKey keysOf k) := by
  simp only [List.filter_cons, inKey]
  by_cases h : k ∈ keysL keysOf r <;> simp [h]

theorem lrepr_insert (s : LState I K) (L : List Route) (r : Route) (h : LRepr IL keysOf s L)
    (hU : UIds (r :: L)) (hok : IL.okIns r) : LRepr IL keysOf (lInsert I keysOf r s) (r :: L) := by
  unfold lInsert
  cases hk : keysOf r with
  | none =>
    have hany : isAnyR keysOf r = true := by simp [isAnyR, hk]
    have hkl : keysL keysOf r = [] := by simp [keysL, hk]
    refine ⟨?_, ?_, h.nodup, ?_, ?_⟩
    · simp; exact h.len
    · simp only [List.filter_cons, hany, if_true]
      exact IL.repr_insert _ _ r h.any (hU.mono (by
        intro x hx
        rcases List.mem_cons.mp hx with hx | hx
        · exact hx ▸ List.mem_cons_self ..
        · exact List.mem_cons_of_mem _ (List.mem_filter.mp hx).1)) hok
    · intro k b hkb
      rw [filter_inKey_cons]; simp only [hkl, List.not_mem_nil, if_false]
      exact h.some k b hkb
    · intro k hkn x hx
      rcases List.mem_cons.mp hx with hx | hx
      · subst hx; simp [inKey, hkl]
      · exact h.none k hkn x hx
  | some ks =>
    have hany : isAnyR keysOf r = false := by simp [isAnyR, hk]
    have hkl : keysL keysOf r = ks := by simp [keysL, hk]
    have fold := upsert_fold IL keysOf r L hU hok ks s.map [] h.nodup
      (by intro k b hkb; simpa using h.some k b hkb)
      (by intro k hkn; exact ⟨by simp, h.none k hkn⟩)
    simp only [List.nil_append] at fold
    obtain ⟨f1, f2, f3⟩ := fold
    refine ⟨?_, ?_, f1, ?_, ?_⟩
    · simp; exact h.len
    · simp only [List.filter_cons, hany]; exact h.any
    · intro k b hkb
      rw [filter_inKey_cons, hkl]
      exact f2 k b hkb
    · intro k hkn x hx
      have := f3 k hkn
      rcases List.mem_cons.mp hx with hx | hx
      · subst hx; simp [inKey, hkl, this.1]
      · exact this.2 x hx

/-! ### pruning maps: the `retain` closures of `remove` and `batch_remove` -/

/-- `map.retain(|_, b| { g(b); !b.is_empty() })`. -/
def pruneMap (I : MOps) (g : I.M → I.M) (m : List (K × I.M)) : List (K × I.M) :=
  m.filterMap (fun e => if I.isEmpty (g e.2) then none else some (e.1, g e.2))

theorem removeAll_fst (id : String) (m : List (K × I.M)) :
    (removeAll I id m).1 = pruneMap I (fun b => (I.remove id b).1) m := by
  induction m with
  | nil => simp [removeAll, pruneMap]
  | cons a m ih =>
    obtain ⟨k, b⟩ := a
    simp only [removeAll, pruneMap, List.filterMap_cons] at ih ⊢
    cases hc : I.isEmpty (I.remove id b).1 <;> simp [hc, ih]

theorem batchAll_eq (ids : List String) (m : List (K × I.M)) :
    batchAll I ids m = pruneMap I (I.batchRemove ids) m := rfl

theorem akeys_pruneMap_sublist (g : I.M → I.M) (m : List (K × I.M)) :
    (akeys (pruneMap I g m)).Sublist (akeys m) := by
  induction m with
  | nil => simp [pruneMap]
  | cons a m ih =>
    obtain ⟨k, b⟩ := a
    simp only [pruneMap, List.filterMap_cons] at ih ⊢
    cases hc : I.isEmpty (g b)
    · simp only [hc, akeys_cons]; exact ih.cons_cons _
    · simp only [hc, if_true, akeys_cons]; exact ih.cons _

theorem alookup_pruneMap (g : I.M → I.M) (m : List (K × I.M)) (hn : (akeys m).Nodup) (k : K) :
    alookup k (pruneMap I g m) =
      (alookup k m).bind (fun b => if I.isEmpty (g b) then none else some (g b)) := by
  induction m with
  | nil => simp [pruneMap]
  | cons a m ih =>
    obtain ⟨ka, b⟩ := a
    simp only [akeys_cons, List.nodup_cons] at hn
    have ih := ih hn.2
    simp only [pruneMap, List.filterMap_cons] at ih ⊢
    simp only [alookup_cons]
    by_cases e : ka = k
    · subst e
      have hnone : alookup ka m = none := (alookup_eq_none_iff _ _).2 hn.1
      cases hc : I.isEmpty (g b)
      · simp [hc, alookup_cons]
      · simp [hc, ih, hnone]
    · cases hc : I.isEmpty (g b)
      · simp [hc, alookup_cons, e, ih]
      · simp [hc, e, ih]

/-- Pruning preserves the bucket-wise representation when `g` maps a bucket representing `T k`
to one representing `T' k`. -/
theorem prune_repr (g : I.M → I.M) (T T' : K → List Route) (m : List (K × I.M))
    (hn : (akeys m).Nodup)
    (hs : ∀ k b, alookup k m = some b → IL.Repr b (T k))
    (hno : ∀ k, alookup k m = none → T k = [])
    (hg : ∀ k b, IL.Repr b (T k) → IL.Repr (g b) (T' k))
    (hnil : ∀ k, T k = [] → T' k = []) :
    (akeys (pruneMap I g m)).Nodup ∧
    (∀ k b, alookup k (pruneMap I g m) = some b → IL.Repr b (T' k)) ∧
    (∀ k, alookup k (pruneMap I g m) = none → T' k = []) := by
  refine ⟨(akeys_pruneMap_sublist g m).nodup hn, ?_, ?_⟩
  · intro k b hk
    rw [alookup_pruneMap g m hn] at hk
    cases hl : alookup k m with
    | none => simp [hl] at hk
    | some b0 =>
      simp only [hl, Option.bind_some] at hk
      cases hc : I.isEmpty (g b0)
      · simp only [hc, Bool.false_eq_true, if_false, Option.some.injEq] at hk
        subst hk; exact hg k b0 (hs k b0 hl)
      · simp [hc] at hk
  · intro k hk
    rw [alookup_pruneMap g m hn] at hk
    cases hl : alookup k m with
    | none => exact hnil k (hno k hl)
    | some b0 =>
      simp only [hl, Option.bind_some] at hk
      cases hc : I.isEmpty (g b0)
      · simp [hc] at hk
      · have h0 : I.len (g b0) = 0 := by simpa [MOps.isEmpty] using hc
        exact IL.len_zero _ _ (hg k b0 (hs k b0 hl)) h0

theorem removeAll_snd_none (id : String) (m : List (K × I.M))
    (h : ∀ e ∈ m, (I.remove id e.2).2 = none) : (removeAll I id m).2 = none := by
  induction m with
  | nil => simp [removeAll]
  | cons a m ih =>
    obtain ⟨k, b⟩ := a
    simp only [removeAll]
    rw [ih (fun e he => h e (List.mem_cons_of_mem _ he))]
    simpa using h (k, b) (List.mem_cons_self ..)

theorem removeAll_snd_some (id : String) (r : Route) (m : List (K × I.M))
    (h : ∀ e ∈ m, (I.remove id e.2).2 = none ∨ (I.remove id e.2).2 = some r)
    (hex : ∃ e ∈ m, (I.remove id e.2).2 = some r) : (removeAll I id m).2 = some r := by
  induction m with
  | nil => simp at hex
  | cons a m ih =>
    obtain ⟨k, b⟩ := a
    simp only [removeAll]
    have hrest := fun e he => h e (List.mem_cons_of_mem _ he)
    by_cases hex2 : ∃ e ∈ m, (I.remove id e.2).2 = some r
    · rw [ih hrest hex2]; simp
    · have hnone : ∀ e ∈ m, (I.remove id e.2).2 = none := by
        intro e he
        rcases hrest e he with h1 | h1
        · exact h1
        · exact absurd ⟨e, he, h1⟩ hex2
      rw [removeAll_snd_none id m hnone]
      obtain ⟨e, he, hr⟩ := hex
      rcases List.mem_cons.mp he with he | he
      · subst he; simpa using hr
      · exact absurd ⟨e, he, hr⟩ hex2

theorem removeAll_snd_isSome (id : String) (m : List (K × I.M))
    (h : (removeAll I id m).2.isSome = true) : ∃ e ∈ m, (I.remove id e.2).2.isSome = true := by
  induction m with
  | nil => simp [removeAll] at h
  | cons a m ih =>
    obtain ⟨k, b⟩ := a
    simp only [removeAll] at h
    cases hr : (removeAll I id m).2 with
    | none =>
      rw [hr] at h
      exact ⟨(k, b), List.mem_cons_self .., by simpa using h⟩
    | some v =>
      obtain ⟨e, he, h2⟩ := ih (by simp [hr])
      exact ⟨e, List.mem_cons_of_mem _ he, h2⟩

/-! ### remove -/

theorem filter_ne_length_lt (L : List Route) (id : String) (r : Route) (hr : r ∈ L) (hid : r.id = id) :
    (L.filter (fun x => x.id != id)).length < L.length := by
  rw [List.length_filter_lt_length_iff_exists]
  exact ⟨r, hr, by simp [hid]⟩

theorem filter_comm' (L : List Route) (p q : Route → Bool) :
    (L.filter p).filter q = (L.filter q).filter p := by
  simp only [List.filter_filter]
  congr 1; funext x; exact Bool.and_comm ..

/-- layer well-formedness: the route is in some bucket -/
def lWf (r : Route) : Prop := IL.wf r ∧ keysOf r ≠ some []

theorem lRemove_of_some (id : String) (s : LState I K) (r0 : Route)
    (h : (I.remove id s.any).2 = some r0) :
    lRemove I id s = ({ s with any := (I.remove id s.any).1, count := s.count - 1 }, some r0) := by
  simp [lRemove, h]

theorem lRemove_of_none (id : String) (s : LState I K) (h : (I.remove id s.any).2 = none) :
    lRemove I id s =
      ({ any := (I.remove id s.any).1, map := (removeAll I id s.map).1,
         count := if (removeAll I id s.map).2.isSome then s.count - 1 else s.count },
       (removeAll I id s.map).2) := by
  simp [lRemove, h]

theorem lrepr_remove (s : LState I K) (L : List Route) (id : String) (h : LRepr IL keysOf s L)
    (hU : UIds L) : LRepr IL keysOf (lRemove I id s).1 (L.filter (fun r => r.id != id)) := by
  have hanyR := IL.repr_remove _ _ id h.any (hU.filter _)
  rw [filter_comm'] at hanyR
  cases hra : (I.remove id s.any).2 with
  | some r0 =>
    rw [lRemove_of_some id s r0 hra]
    -- some key-less route has this id: no keyed route has it
    have hex : ∃ x ∈ L.filter (isAnyR keysOf), x.id = id := by
      apply Classical.byContradiction; intro hne
      have := IL.remove_none _ _ id h.any (by
        intro x hx e; exact hne ⟨x, hx, e⟩)
      rw [this] at hra; cases hra
    obtain ⟨x0, hx0, hid0⟩ := hex
    rw [List.mem_filter] at hx0
    have hkeyed : ∀ k, (L.filter (inKey keysOf k)).filter (fun r => r.id != id) = L.filter (inKey keysOf k) := by
      intro k
      rw [List.filter_eq_self]
      intro x hx
      rw [List.mem_filter] at hx
      have : x.id ≠ id := by
        intro e
        have hxx : x = x0 := hU x hx.1 x0 hx0.1 (e.trans hid0.symm)
        have h1 := hx.2
        have h2 := hx0.2
        rw [hxx] at h1
        simp only [isAnyR, Option.isNone_iff_eq_none] at h2
        simp [inKey, keysL, h2] at h1
      simpa using this
    refine ⟨?_, hanyR, h.nodup, ?_, ?_⟩
    · have := filter_ne_length_lt L id x0 hx0.1 hid0
      have := h.len
      simp only; omega
    · intro k b hk
      have := h.some k b hk
      rw [← hkeyed k, filter_comm'] at this
      exact this
    · intro k hk x hx
      exact h.none k hk x (List.mem_filter.mp hx).1
  | none =>
    rw [lRemove_of_none id s hra]
    have pr := prune_repr IL (fun b => (I.remove id b).1)
      (fun k => L.filter (inKey keysOf k))
      (fun k => (L.filter (fun r => r.id != id)).filter (inKey keysOf k)) s.map h.nodup h.some
      (by
        intro k hk
        rw [List.filter_eq_nil_iff]
        intro x hx; simp [h.none k hk x hx])
      (by
        intro k b hb
        have := IL.repr_remove _ _ id hb (hU.filter _)
        rw [filter_comm'] at this; exact this)
      (by
        intro k hk
        rw [filter_comm', hk]; rfl)
    rw [← removeAll_fst] at pr
    obtain ⟨p1, p2, p3⟩ := pr
    refine ⟨?_, hanyR, p1, p2, ?_⟩
    · have hlen := h.len
      have hle : (L.filter (fun r => r.id != id)).length ≤ L.length := List.length_filter_le ..
      cases hrm : (removeAll I id s.map).2 with
      | none => simp only [Option.isSome_none, Bool.false_eq_true, if_false]; omega
      | some v =>
        simp only [Option.isSome_some, if_true]
        obtain ⟨e, he, hsome⟩ := removeAll_snd_isSome id s.map (by simp [hrm])
        have hl := alookup_of_mem h.nodup (show (e.1, e.2) ∈ s.map from he)
        have hb := h.some e.1 e.2 hl
        have hex : ∃ x ∈ L.filter (inKey keysOf e.1), x.id = id := by
          apply Classical.byContradiction; intro hne
          have := IL.remove_none _ _ id hb (by intro x hx e; exact hne ⟨x, hx, e⟩)
          rw [this] at hsome; simp at hsome
        obtain ⟨x0, hx0, hid0⟩ := hex
        have := filter_ne_length_lt L id x0 (List.mem_filter.mp hx0).1 hid0
        omega
    · intro k hk x hx
      have := p3 k hk
      rw [List.filter_eq_nil_iff] at this
      simpa using this x hx

theorem lremove_none (s : LState I K) (L : List Route) (id : String) (h : LRepr IL keysOf s L)
    (hno : ∀ r ∈ L, r.id ≠ id) : (lRemove I id s).2 = none := by
  have hany := IL.remove_none _ _ id h.any (fun r hr => hno r (List.mem_filter.mp hr).1)
  rw [lRemove_of_none id s hany]
  apply removeAll_snd_none
  intro e he
  have hl := alookup_of_mem h.nodup (show (e.1, e.2) ∈ s.map from he)
  exact IL.remove_none _ _ id (h.some e.1 e.2 hl) (fun r hr => hno r (List.mem_filter.mp hr).1)

theorem lremove_some (s : LState I K) (L : List Route) (id : String) (r : Route)
    (h : LRepr IL keysOf s L) (hU : UIds L) (hr : r ∈ L) (hwf : lWf IL keysOf r) (hid : r.id = id) :
    (lRemove I id s).2 = some r := by
  cases hk : keysOf r with
  | none =>
    have hmem : r ∈ L.filter (isAnyR keysOf) := by
      rw [List.mem_filter]; exact ⟨hr, by simp [isAnyR, hk]⟩
    have := IL.remove_some _ _ id r h.any (hU.filter _) hmem hwf.1 hid
    rw [lRemove_of_some id s r this]
  | some ks =>
    have hany : (I.remove id s.any).2 = none := by
      apply IL.remove_none _ _ id h.any
      intro x hx e
      rw [List.mem_filter] at hx
      have : x = r := hU x hx.1 r hr (e.trans hid.symm)
      rw [this] at hx
      simp [isAnyR, hk] at hx
    rw [lRemove_of_none id s hany]
    apply removeAll_snd_some
    · intro e he
      have hl := alookup_of_mem h.nodup (show (e.1, e.2) ∈ s.map from he)
      have hb := h.some e.1 e.2 hl
      by_cases hin : inKey keysOf e.1 r = true
      · right
        exact IL.remove_some _ _ id r hb (hU.filter _) (List.mem_filter.mpr ⟨hr, hin⟩) hwf.1 hid
      · left
        apply IL.remove_none _ _ id hb
        intro x hx e2
        rw [List.mem_filter] at hx
        have : x = r := hU x hx.1 r hr (e2.trans hid.symm)
        rw [this] at hx
        exact hin hx.2
    · -- the route has at least one key, and the bucket of that key exists
      have hne : ks ≠ [] := by
        intro e; apply hwf.2; rw [hk, e]
      obtain ⟨k0, hk0⟩ := List.exists_mem_of_ne_nil ks hne
      have hin : inKey keysOf k0 r = true := by simp [inKey, keysL, hk, hk0]
      cases hl : alookup k0 s.map with
      | none => have := h.none k0 hl r hr; rw [hin] at this; cases this
      | some b =>
        refine ⟨(k0, b), mem_of_alookup hl, ?_⟩
        exact IL.remove_some _ _ id r (h.some k0 b hl) (hU.filter _)
          (List.mem_filter.mpr ⟨hr, hin⟩) hwf.1 hid

theorem lremove_pos (s : LState I K) (L : List Route) (id : String) (h : LRepr IL keysOf s L)
    (hs : (lRemove I id s).2.isSome = true) : 0 < s.count := by
  have hex : ∃ r ∈ L, r.id = id := by
    apply Classical.byContradiction; intro hne
    have := lremove_none IL keysOf s L id h (fun r hr e => hne ⟨r, hr, e⟩)
    rw [this] at hs; simp at hs
  obtain ⟨r, hr, _⟩ := hex
  have := List.length_pos_of_mem hr
  have := h.len
  omega

/-! ### batch_remove -/

theorem lrepr_batch (s : LState I K) (L : List Route) (ids : List String) (h : LRepr IL keysOf s L) :
    LRepr IL keysOf (lBatchRemove I ids s) (L.filter (fun r => !ids.contains r.id)) := by
  unfold lBatchRemove
  have hany := IL.repr_batch _ _ ids h.any
  rw [filter_comm'] at hany
  have pr := prune_repr IL (I.batchRemove ids)
    (fun k => L.filter (inKey keysOf k))
    (fun k => (L.filter (fun r => !ids.contains r.id)).filter (inKey keysOf k)) s.map h.nodup h.some
    (by
      intro k hk
      rw [List.filter_eq_nil_iff]
      intro x hx; simp [h.none k hk x hx])
    (by
      intro k b hb
      have := IL.repr_batch _ _ ids hb
      rw [filter_comm'] at this; exact this)
    (by
      intro k hk
      rw [filter_comm', hk]; rfl)
  rw [← batchAll_eq] at pr
  obtain ⟨p1, p2, p3⟩ := pr
  refine ⟨?_, hany, p1, p2, ?_⟩
  · have := h.len
    have hle : (L.filter (fun r => !ids.contains r.id)).length ≤ L.length := List.length_filter_le ..
    simp only; omega
  · intro k hk x hx
    have := p3 k hk
    rw [List.filter_eq_nil_iff] at this
    simpa using this x hx

/-! ### cache -/

/-- `b'` is `b` after some `cache` calls: it represents whatever `b` represents -/
def CacheRel (b b' : I.M) : Prop := ∀ L, IL.Repr b L → IL.Repr b' L

/-- bucket lists with the same keys whose buckets are related by `CacheRel` -/
def CacheRelL : List (K × I.M) → List (K × I.M) → Prop
  | [], [] => True
  | e :: m, e' :: m' => (e'.1 = e.1 ∧ CacheRel IL e.2 e'.2) ∧ CacheRelL m m'
  | _, _ => False

theorem cacheAll_spec (level : Nat) : ∀ (m : List (K × I.M)) (limit : Nat),
    CacheRelL IL m (cacheAll I level m limit).1 ∧ (cacheAll I level m limit).2 ≤ limit := by
  intro m
  induction m with
  | nil => intro limit; exact ⟨trivial, Nat.le_refl _⟩
  | cons e m ih =>
    obtain ⟨k, b⟩ := e
    intro limit
    have h1 := ih (I.cache limit level b).2
    have h2 := IL.cache_le b limit level
    refine ⟨⟨⟨rfl, fun L hL => IL.repr_cache b L limit level hL⟩, h1.1⟩, ?_⟩
    exact Nat.le_trans h1.2 h2

theorem cacheRelL_lookup : ∀ {m m' : List (K × I.M)}, CacheRelL IL m m' → ∀ (k : K),
    (alookup k m' = none ↔ alookup k m = none) ∧
    (∀ b', alookup k m' = some b' → ∃ b, alookup k m = some b ∧ CacheRel IL b b')
  | [], [], _, k => by simp
  | [], _ :: _, h, _ => h.elim
  | _ :: _, [], h, _ => h.elim
  | (ka, va) :: l, (ka', va') :: l', h, k => by
    obtain ⟨⟨hk, hr⟩, hl⟩ := h
    simp only at hk hr
    subst hk
    have ih := cacheRelL_lookup hl k
    simp only [alookup_cons]
    by_cases e : ka' = k
    · simp only [e, if_true]
      refine ⟨by simp, ?_⟩
      intro b' hb'
      simp only [Option.some.injEq] at hb'
      subst hb'
      exact ⟨va, rfl, hr⟩
    · simp only [e, if_false]
      exact ih

theorem cacheRelL_keys : ∀ {m m' : List (K × I.M)}, CacheRelL IL m m' → akeys m' = akeys m
  | [], [], _ => rfl
  | [], _ :: _, h => h.elim
  | _ :: _, [], h => h.elim
  | e :: l, e' :: l', h => by
    have ih := cacheRelL_keys h.2
    simp only [akeys, List.map_cons] at ih ⊢
    rw [h.1.1, ih]

theorem cacheRelL_append : ∀ {a a' b b' : List (K × I.M)}, CacheRelL IL a a' → CacheRelL IL b b' →
    CacheRelL IL (a ++ b) (a' ++ b')
  | [], [], _, _, _, h2 => h2
  | [], _ :: _, _, _, h, _ => h.elim
  | _ :: _, [], _, _, h, _ => h.elim
  | _ :: _, _ :: _, _, _, h1, h2 => ⟨h1.1, cacheRelL_append h1.2 h2⟩

/-- A state whose buckets are the cached versions of another state's buckets represents the same
routes. -/
theorem lrepr_of_cacheRel (s s' : LState I K) (L : List Route) (h : LRepr IL keysOf s L)
    (hcount : s'.count = s.count) (hany : CacheRel IL s.any s'.any) (hmap : CacheRelL IL s.map s'.map) :
    LRepr IL keysOf s' L where
  len := by rw [hcount]; exact h.len
  any := hany _ h.any
  nodup := by rw [cacheRelL_keys IL hmap]; exact h.nodup
  some := by
    intro k b' hk
    obtain ⟨b, hb, hr⟩ := (cacheRelL_lookup IL hmap k).2 b' hk
    exact hr _ (h.some k b hb)
  none := by
    intro k hk
    exact h.none k ((cacheRelL_lookup IL hmap k).1.1 hk)

theorem lrepr_cache (s : LState I K) (L : List Route) (limit level : Nat) (h : LRepr IL keysOf s L) :
    LRepr IL keysOf (lCache I limit level s).1 L :=
  lrepr_of_cacheRel IL keysOf s _ L h rfl (fun L' hL' => IL.repr_cache _ L' limit level hL')
    (cacheAll_spec IL level s.map _).1

include IL in
theorem lcache_le (s : LState I K) (limit level : Nat) : (lCache I limit level s).2 ≤ limit :=
  Nat.le_trans (cacheAll_spec IL level s.map _).2 (IL.cache_le s.any limit level)

/-! ### matching: the bucket union -/

variable (accepts : K → Req → Bool)

theorem mem_lMatchMap (m : List (K × I.M)) (hn : (akeys m).Nodup) (q : Req) (r : Route) :
    r ∈ lMatchMap I accepts m q ↔
      ∃ k b, alookup k m = some b ∧ accepts k q = true ∧ r ∈ I.matchReq b q := by
  simp only [lMatchMap, List.mem_flatMap]
  constructor
  · rintro ⟨⟨k, b⟩, he, hr⟩
    by_cases ha : accepts k q = true
    · simp only [ha, if_true] at hr
      exact ⟨k, b, alookup_of_mem hn he, ha, hr⟩
    · simp [ha] at hr
  · rintro ⟨k, b, hl, ha, hr⟩
    exact ⟨(k, b), mem_of_alookup hl, by simp [ha, hr]⟩

/-- The layer's specification: the route's bucket is consulted and the layers below accept. -/
def lSat (L : List Route) (r : Route) (q : Req) : Bool :=
  match keysOf r with
  | none => IL.sat (L.filter (isAnyR keysOf)) r q
  | some ks => ks.any (fun k => accepts k q && IL.sat (L.filter (inKey keysOf k)) r q)

theorem mem_matchAny (s : LState I K) (L : List Route) (h : LRepr IL keysOf s L) (hU : UIds L)
    (q : Req) (r : Route) :
    r ∈ I.matchReq s.any q ↔
      r ∈ L ∧ keysOf r = none ∧ IL.sat (L.filter (isAnyR keysOf)) r q = true := by
  rw [IL.mem_match _ _ q r h.any (hU.filter _), List.mem_filter]
  simp only [isAnyR, Option.isNone_iff_eq_none]
  constructor
  · rintro ⟨⟨a, b⟩, c⟩; exact ⟨a, b, c⟩
  · rintro ⟨a, b, c⟩; exact ⟨⟨a, b⟩, c⟩

theorem mem_matchMap (s : LState I K) (L : List Route) (h : LRepr IL keysOf s L) (hU : UIds L)
    (q : Req) (r : Route) :
    r ∈ lMatchMap I accepts s.map q ↔
      r ∈ L ∧ ∃ k ∈ keysL keysOf r, accepts k q = true ∧
        IL.sat (L.filter (inKey keysOf k)) r q = true := by
  rw [mem_lMatchMap accepts s.map h.nodup]
  constructor
  · rintro ⟨k, b, hl, ha, hr⟩
    rw [IL.mem_match _ _ q r (h.some k b hl) (hU.filter _), List.mem_filter] at hr
    refine ⟨hr.1.1, k, ?_, ha, hr.2⟩
    simpa [inKey] using hr.1.2
  · rintro ⟨hr, k, hk, ha, hs⟩
    have hin : inKey keysOf k r = true := by simpa [inKey] using hk
    cases hl : alookup k s.map with
    | none => have := h.none k hl r hr; rw [hin] at this; cases this
    | some b =>
      refine ⟨k, b, hl, ha, ?_⟩
      rw [IL.mem_match _ _ q r (h.some k b hl) (hU.filter _), List.mem_filter]
      exact ⟨⟨hr, hin⟩, hs⟩

theorem mem_lMatch (s : LState I K) (L : List Route) (h : LRepr IL keysOf s L) (hU : UIds L)
    (q : Req) (r : Route) :
    (r ∈ I.matchReq s.any q ∨ r ∈ lMatchMap I accepts s.map q) ↔
      r ∈ L ∧ lSat IL keysOf accepts L r q = true := by
  rw [mem_matchAny IL keysOf s L h hU, mem_matchMap IL keysOf accepts s L h hU]
  unfold lSat
  cases hk : keysOf r with
  | none => simp [keysL, hk]
  | some ks => simp [keysL, hk]

/-- At most one of the route's keys accepts a given request. -/
def SingleAccept : Prop :=
  ∀ r q k1 k2, k1 ∈ keysL keysOf r → k2 ∈ keysL keysOf r →
    accepts k1 q = true → accepts k2 q = true → k1 = k2

theorem nodup_lMatchMap (hs : SingleAccept keysOf accepts) (s : LState I K) (L : List Route)
    (h : LRepr IL keysOf s L) (hU : UIds L) (q : Req) : (lMatchMap I accepts s.map q).Nodup := by
  have key : ∀ (m : List (K × I.M)), (akeys m).Nodup → (∀ e ∈ m, alookup e.1 s.map = some e.2) →
      (lMatchMap I accepts m q).Nodup := by
    intro m
    induction m with
    | nil => intro _ _; simp [lMatchMap]
    | cons a m ih =>
      obtain ⟨k, b⟩ := a
      intro hn hsub
      simp only [akeys_cons, List.nodup_cons] at hn
      have ih := ih hn.2 (fun e he => hsub e (List.mem_cons_of_mem _ he))
      simp only [lMatchMap, List.flatMap_cons] at ih ⊢
      rw [List.nodup_append]
      refine ⟨?_, ih, ?_⟩
      · by_cases ha : accepts k q = true
        · simp only [ha, if_true]
          exact IL.nodup_match _ _ q (h.some k b (hsub (k, b) (List.mem_cons_self ..))) (hU.filter _)
        · simp [ha]
      · intro x hx y hy hxy
        subst hxy
        by_cases ha : accepts k q = true
        · simp only [ha, if_true] at hx
          rw [IL.mem_match _ _ q x (h.some k b (hsub (k, b) (List.mem_cons_self ..))) (hU.filter _),
            List.mem_filter] at hx
          have hy' : x ∈ lMatchMap I accepts m q := hy
          rw [mem_lMatchMap accepts m hn.2] at hy'
          obtain ⟨k2, b2, hl2, ha2, hr2⟩ := hy'
          have hmem2 := mem_of_alookup hl2
          have hl2' := hsub (k2, b2) (List.mem_cons_of_mem _ hmem2)
          rw [IL.mem_match _ _ q x (h.some k2 b2 hl2') (hU.filter _), List.mem_filter] at hr2
          have e := hs x q k k2 (by simpa [inKey] using hx.1.2) (by simpa [inKey] using hr2.1.2) ha ha2
          subst e
          exact hn.1 (mem_akeys_of_mem hmem2)
        · simp [ha] at hx
  exact key s.map h.nodup (fun e he => alookup_of_mem h.nodup he)

theorem nodup_lMatch (hs : SingleAccept keysOf accepts) (s : LState I K) (L : List Route)
    (h : LRepr IL keysOf s L) (hU : UIds L) (q : Req) :
    (I.matchReq s.any q ++ lMatchMap I accepts s.map q).Nodup := by
  rw [List.nodup_append]
  refine ⟨IL.nodup_match _ _ q h.any (hU.filter _), nodup_lMatchMap IL keysOf accepts hs s L h hU q, ?_⟩
  intro x hx y hy hxy
  subst hxy
  rw [mem_matchAny IL keysOf s L h hU] at hx
  rw [mem_matchMap IL keysOf accepts s L h hU] at hy
  obtain ⟨_, k, hk, _⟩ := hy
  simp [keysL, hx.2.1] at hk

theorem lSat_congr (L L' : List Route) (r : Route) (q : Req) (h : ∀ x, x ∈ L ↔ x ∈ L') :
    lSat IL keysOf accepts L r q = lSat IL keysOf accepts L' r q := by
  unfold lSat
  have hf : ∀ p : Route → Bool, ∀ x, x ∈ L.filter p ↔ x ∈ L'.filter p := by
    intro p x; simp only [List.mem_filter, h x]
  cases hk : keysOf r with
  | none => simp only; exact IL.sat_congr _ _ r q (hf _)
  | some ks =>
    simp only
    congr 1; funext k
    rw [IL.sat_congr _ _ r q (hf (inKey keysOf k))]

/-! ### traces: the routes listed under the accepted buckets -/

theorem rawRoutesOfList_append (a b : List Trace) :
    rawRoutesOfList (a ++ b) = rawRoutesOfList a ++ rawRoutesOfList b := by
  induction a with
  | nil => simp [rawRoutesOfList]
  | cons t ts ih => simp [rawRoutesOfList, ih]

theorem rawRoutesOfList_cons (t : Trace) (ts : List Trace) :
    rawRoutesOfList (t :: ts) = t.rawRoutes ++ rawRoutesOfList ts := by simp [rawRoutesOfList]

theorem rawRoutesOfList_singleton (t : Trace) : rawRoutesOfList [t] = t.rawRoutes := by
  simp [rawRoutesOfList]

@[simp] theorem rawRoutesOfList_nil : rawRoutesOfList [] = [] := by simp [rawRoutesOfList]

theorem Trace.rawRoutes_mk (m e : Bool) (c : Nat) (info : TInfo) (ch : List Trace) :
    (Trace.mk m e c info ch).rawRoutes = info.routes ++ rawRoutesOfList ch := by simp [Trace.rawRoutes]

theorem mem_rawRoutesOfList_map {α : Type} (l : List α) (f : α → Trace) (r : Route) :
    r ∈ rawRoutesOfList (l.map f) ↔ ∃ a ∈ l, r ∈ (f a).rawRoutes := by
  induction l with
  | nil => simp
  | cons a l ih => simp [rawRoutesOfList_cons, ih]

theorem mem_rawRoutesOfList_filterMap {α : Type} (l : List α) (f : α → Option Trace) (r : Route) :
    r ∈ rawRoutesOfList (l.filterMap f) ↔ ∃ a ∈ l, ∃ t, f a = some t ∧ r ∈ t.rawRoutes := by
  induction l with
  | nil => simp
  | cons a l ih =>
    simp only [List.filterMap_cons]
    cases hf : f a with
    | none => simp [ih, hf]
    | some t => simp [rawRoutesOfList_cons, ih, hf]

/-- the traces of an accepted bucket list exactly the routes the bucket matches -/
theorem mem_bucket_trace (s : LState I K) (L : List Route) (h : LRepr IL keysOf s L) (hU : UIds L)
    (q : Req) (r : Route) (k : K) (b : I.M) (hl : alookup k s.map = some b) :
    r ∈ rawRoutesOfList (I.trace b q) ↔ r ∈ I.matchReq b q :=
  IL.mem_trace _ _ q r (h.some k b hl) (hU.filter _)

theorem mem_any_trace (s : LState I K) (L : List Route) (h : LRepr IL keysOf s L) (hU : UIds L)
    (q : Req) (r : Route) :
    r ∈ rawRoutesOfList (I.trace s.any q) ↔ r ∈ I.matchReq s.any q :=
  IL.mem_trace _ _ q r h.any (hU.filter _)

/-! ### `get_routes_from_traces` (reports every id once) versus all stored routes -/

theorem mem_dedupIds (L : List Route) (hU : UIds L) (l : List Route) (hl : ∀ y ∈ l, y ∈ L) (x : Route) :
    x ∈ dedupIds l ↔ x ∈ l := by
  unfold dedupIds
  rw [pushNew_mem L hU l x [] (by intro y hy; simp at hy) hl]
  simp

mutual
theorem Trace.mem_routes_iff (L : List Route) (hU : UIds L) :
    (t : Trace) → (∀ y ∈ t.rawRoutes, y ∈ L) → ∀ x, x ∈ t.routes ↔ x ∈ t.rawRoutes
  | .mk m e c info children, h, x => by
    have hch : ∀ y ∈ rawRoutesOfList children, y ∈ L := by
      intro y hy; apply h; rw [Trace.rawRoutes_mk]; exact List.mem_append_right _ hy
    have ih := mem_collectList_iff L hU children hch
    have hl : ∀ y ∈ collectList children, y ∈ L := fun y hy => hch y ((ih y).1 hy)
    simp only [Trace.routes, Trace.rawRoutes_mk, List.mem_append, mem_dedupIds L hU _ hl, ih x]
theorem mem_collectList_iff (L : List Route) (hU : UIds L) :
    (ts : List Trace) → (∀ y ∈ rawRoutesOfList ts, y ∈ L) → ∀ x, x ∈ collectList ts ↔ x ∈ rawRoutesOfList ts
  | [], _, x => by simp [collectList]
  | t :: ts, h, x => by
    have h1 : ∀ y ∈ t.rawRoutes, y ∈ L := by
      intro y hy; apply h; rw [rawRoutesOfList_cons]; exact List.mem_append_left _ hy
    have h2 : ∀ y ∈ rawRoutesOfList ts, y ∈ L := by
      intro y hy; apply h; rw [rawRoutesOfList_cons]; exact List.mem_append_right _ hy
    simp only [collectList, rawRoutesOfList_cons, List.mem_append,
      Trace.mem_routes_iff L hU t h1 x, mem_collectList_iff L hU ts h2 x]
end

/-- With unique ids, `get_routes_from_traces` lists exactly the routes stored in the traces. -/
theorem mem_routesOfList_iff (L : List Route) (hU : UIds L) (ts : List Trace)
    (h : ∀ y ∈ rawRoutesOfList ts, y ∈ L) (x : Route) :
    x ∈ routesOfList ts ↔ x ∈ rawRoutesOfList ts := by
  have ih := mem_collectList_iff L hU ts h
  unfold routesOfList
  rw [mem_dedupIds L hU _ (fun y hy => h y ((ih y).1 hy)), ih x]

/-- ... and lists every id at most once, unconditionally. -/
theorem routesOfList_nodupIds (ts : List Trace) : ((routesOfList ts).map (·.id)).Nodup := by
  unfold routesOfList dedupIds
  exact pushNew_nodupIds _ [] (by simp)

end
end Rio.Router
