/-
Router proofs, part 4: the six outer layers satisfy `MLaws`.

`outerLaws` assembles the laws of an outer layer from the shared lemmas of RouterGeneric.lean and
the three layer-specific facts (membership / duplicate-freedom of `match_request`, routes of
`trace`).  Then, layer by layer, the transcription of `match_request` is related to the bucket
union `I.matchReq s.any q ++ lMatchMap I accepts s.map q` (equal, or a permutation of it), and
`trace` to the same union.
-/
import RioModel.Proofs.RouterPath

set_option linter.unusedSimpArgs false
set_option linter.unusedVariables false
set_option linter.unusedSectionVars false

namespace Rio.Router

section
variable {K : Type} [DecidableEq K] {I : MOps}

/-- Laws of an outer layer from its three specific facts. -/
def outerLaws (IL : MLaws I) (keysOf : Route → Option (List K))
    (matchReq : LState I K → Req → List Route) (trace : LState I K → Req → List Trace)
    (sat : List Route → Route → Req → Bool)
    (sat_congr : ∀ L L' r q, (∀ x, x ∈ L ↔ x ∈ L') → sat L r q = sat L' r q)
    (mem_match : ∀ s L q r, LRepr IL keysOf s L → UIds L →
      (r ∈ matchReq s q ↔ r ∈ L ∧ sat L r q = true))
    (nodup_match : ∀ s L q, LRepr IL keysOf s L → UIds L → (matchReq s q).Nodup)
    (mem_trace : ∀ s L q r, LRepr IL keysOf s L → UIds L →
      (r ∈ rawRoutesOfList (trace s q) ↔ r ∈ matchReq s q)) :
    MLaws (outerOps I keysOf matchReq trace) where
  Repr := LRepr IL keysOf
  sat := sat
  wf := lWf IL keysOf
  okIns := IL.okIns
  sat_congr := sat_congr
  repr_empty := lrepr_empty IL keysOf
  repr_congr := fun s L L' h hs hm => lrepr_congr IL keysOf s L L' h hs hm
  len_zero := fun s L h h0 => lrepr_len_zero IL keysOf s L h h0
  repr_insert := fun s L r h hU hok => lrepr_insert IL keysOf s L r h hU hok
  repr_remove := fun s L id h hU => lrepr_remove IL keysOf s L id h hU
  remove_some := fun s L id r h hU hr hwf hid => lremove_some IL keysOf s L id r h hU hr hwf hid
  remove_none := fun s L id h hno => lremove_none IL keysOf s L id h hno
  remove_pos := fun s L id h hs => lremove_pos IL keysOf s L id h hs
  repr_batch := fun s L ids h => lrepr_batch IL keysOf s L ids h
  repr_cache := fun s L limit level h => lrepr_cache IL keysOf s L limit level h
  cache_le := fun s limit level => lcache_le IL s limit level
  mem_match := mem_match
  nodup_match := nodup_match
  mem_trace := mem_trace

/-- The routes listed by the traces of the accepted buckets. -/
theorem mem_trace_buckets (IL : MLaws I) (keysOf : Route → Option (List K)) (accepts : K → Req → Bool)
    (s : LState I K) (L : List Route) (h : LRepr IL keysOf s L) (hU : UIds L) (q : Req) (r : Route) :
    (∃ e ∈ s.map, accepts e.1 q = true ∧ r ∈ rawRoutesOfList (I.trace e.2 q)) ↔
      r ∈ lMatchMap I accepts s.map q := by
  rw [mem_lMatchMap accepts s.map h.nodup]
  constructor
  · rintro ⟨⟨k, b⟩, he, ha, hr⟩
    have hl := alookup_of_mem h.nodup he
    exact ⟨k, b, hl, ha, (mem_bucket_trace IL keysOf s L h hU q r k b hl).1 hr⟩
  · rintro ⟨k, b, hl, ha, hr⟩
    exact ⟨(k, b), mem_of_alookup hl, ha, (mem_bucket_trace IL keysOf s L h hU q r k b hl).2 hr⟩

end

/-! ## condition-group layers (DateTimeMatcher, HeaderMatcher): memo soundness -/

section
variable {C : Type} [DecidableEq C] {I : MOps} (eval : C → Bool)

/-- every memoised result is the result of evaluating the condition -/
def MemoSound (memo : List (C × Bool)) : Prop := ∀ c b, alookup c memo = some b → b = eval c

theorem memoSound_nil : MemoSound eval [] := by intro c b h; simp at h

theorem memoSound_cons (memo : List (C × Bool)) (c : C) (h : MemoSound eval memo) :
    MemoSound eval ((c, eval c) :: memo) := by
  intro c' b hl
  rw [alookup_cons] at hl
  by_cases e : c = c'
  · simp only [e, if_true, Option.some.injEq] at hl; rw [← hl]
  · simp only [e, if_false] at hl; exact h c' b hl

/-- `execute_conditions` is exact: the group is accepted iff all its conditions hold. -/
theorem evalGroup_spec (cs : List C) : ∀ memo, MemoSound eval memo →
    (evalGroup eval cs memo).1 = cs.all eval ∧ MemoSound eval (evalGroup eval cs memo).2 := by
  induction cs with
  | nil => intro memo h; simp [evalGroup, h]
  | cons c cs ih =>
    intro memo h
    simp only [evalGroup, List.all_cons]
    cases hl : alookup c memo with
    | none =>
      simp only
      cases hc : eval c
      · simp only [Bool.not_false, if_true, Bool.false_and, true_and]
        have := memoSound_cons eval memo c h
        rw [hc] at this; exact this
      · simp only [Bool.not_true, Bool.false_eq_true, if_false, Bool.true_and]
        have := memoSound_cons eval memo c h
        rw [hc] at this; exact ih _ this
    | some b =>
      have hb := h c b hl
      simp only
      cases hc : eval c
      · rw [hc] at hb; subst hb
        simp [h]
      · rw [hc] at hb; subst hb
        simp only [Bool.not_true, Bool.false_eq_true, if_false, Bool.true_and]
        exact ih _ h

theorem matchGroups_eq (q : Req) (m : List (List C × I.M)) :
    ∀ memo rules, MemoSound eval memo →
      matchGroups I eval q m memo rules =
        rules ++ m.flatMap (fun e => if e.1.all eval then I.matchReq e.2 q else []) := by
  induction m with
  | nil => intro memo rules _; simp [matchGroups]
  | cons a m ih =>
    obtain ⟨cs, b⟩ := a
    intro memo rules h
    have sp := evalGroup_spec eval cs memo h
    simp only [matchGroups, List.flatMap_cons]
    rw [ih _ _ sp.2, sp.1]
    cases hc : cs.all eval <;> simp

/-- The "mimic cache" loop of `trace`: `matched` ends as the conjunction of the conditions. -/
theorem traceGroup_spec (cs : List C) : ∀ memo (m : Bool), MemoSound eval memo →
    (traceGroup eval cs m m memo).1 = (m && cs.all eval) ∧
      MemoSound eval (traceGroup eval cs m m memo).2 := by
  induction cs with
  | nil => intro memo m h; simp [traceGroup, h]
  | cons c cs ih =>
    intro memo m h
    simp only [traceGroup, List.all_cons]
    cases hl : alookup c memo with
    | none =>
      simp only
      cases m
      · simp only [Bool.false_and, Bool.false_eq_true, if_false]
        have := ih memo false h
        simpa using this
      · simp only [Bool.true_and, if_true]
        have hs : MemoSound eval ((c, eval c) :: memo) := memoSound_cons eval memo c h
        have := ih _ (eval c) hs
        exact this
    | some b =>
      have hb := h c b hl
      subst hb
      simp only
      have := ih memo (m && eval c) h
      rw [Bool.and_assoc] at this
      exact this

theorem traceGroups_routes (q : Req) (kind : String) (m : List (List C × I.M)) (r : Route) :
    ∀ memo traces, MemoSound eval memo →
      (r ∈ rawRoutesOfList (traceGroups I eval q kind m memo traces) ↔
        r ∈ rawRoutesOfList traces ∨
          ∃ e ∈ m, e.1.all eval = true ∧ r ∈ rawRoutesOfList (I.trace e.2 q)) := by
  induction m with
  | nil => intro memo traces _; simp [traceGroups]
  | cons a m ih =>
    obtain ⟨cs, b⟩ := a
    intro memo traces h
    have sp := traceGroup_spec eval cs memo true h
    simp only [traceGroups]
    rw [ih _ _ sp.2, sp.1, rawRoutesOfList_append, rawRoutesOfList_singleton, Trace.rawRoutes_mk]
    simp only [Bool.true_and, TInfo.routes, List.nil_append, List.mem_append, List.mem_cons,
      exists_eq_or_imp]
    cases hc : cs.all eval
    · simp
    · simp [or_assoc]

end

/-! Generic group layer: shared by DateTime and Header. -/
section
variable {C : Type} [DecidableEq C] {I : MOps} (IL : MLaws I)
  (keysOf : Route → Option (List (List C))) (ev : C → Req → Bool)

def groupAccepts (k : List C) (q : Req) : Bool := k.all (fun c => ev c q)

def groupMatch (s : LState I (List C)) (q : Req) : List Route :=
  matchGroups I (fun c => ev c q) q s.map [] (I.matchReq s.any q)

def groupTrace (kind : String) (s : LState I (List C)) (q : Req) : List Trace :=
  traceGroups I (fun c => ev c q) q kind s.map [] (I.trace s.any q)

theorem groupMatch_eq (s : LState I (List C)) (q : Req) :
    groupMatch ev s q = I.matchReq s.any q ++ lMatchMap I (groupAccepts ev) s.map q := by
  unfold groupMatch
  rw [matchGroups_eq (fun c => ev c q) q s.map [] _ (memoSound_nil _)]
  rfl

/-- a route of a group layer has at most one key -/
def SingleKey : Prop := ∀ r, (keysL keysOf r).length ≤ 1

theorem singleAccept_of_singleKey {K : Type} (keysOf : Route → Option (List K))
    (accepts : K → Req → Bool) (h : ∀ r, (keysL keysOf r).length ≤ 1) :
    SingleAccept keysOf accepts := by
  intro r q k1 k2 h1 h2 _ _
  have := h r
  match hk : keysL keysOf r, this with
  | [], _ => rw [hk] at h1; simp at h1
  | [k], _ =>
    rw [hk] at h1 h2
    simp at h1 h2
    rw [h1, h2]

def groupLaws (kind : String) (hsk : ∀ r, (keysL keysOf r).length ≤ 1) :
    MLaws (outerOps I keysOf (groupMatch ev) (groupTrace ev kind)) :=
  outerLaws IL keysOf (groupMatch ev) (groupTrace ev kind)
    (lSat IL keysOf (groupAccepts ev))
    (fun L L' r q h => lSat_congr IL keysOf (groupAccepts ev) L L' r q h)
    (by
      intro s L q r h hU
      rw [groupMatch_eq, List.mem_append]
      exact mem_lMatch IL keysOf (groupAccepts ev) s L h hU q r)
    (by
      intro s L q h hU
      rw [groupMatch_eq]
      exact nodup_lMatch IL keysOf (groupAccepts ev)
        (singleAccept_of_singleKey keysOf _ hsk) s L h hU q)
    (by
      intro s L q r h hU
      rw [groupMatch_eq, List.mem_append]
      unfold groupTrace
      rw [traceGroups_routes (fun c => ev c q) q kind s.map r [] _ (memoSound_nil _),
        mem_any_trace IL keysOf s L h hU q r]
      have := mem_trace_buckets IL keysOf (groupAccepts ev) s L h hU q r
      rw [← this]
      rfl)

end
end Rio.Router
