/-
Lemmas about the prefix scanner (Model/Scan.lean): `commonPrefixCharSize l r` is the largest `k` such
that `l` and `r` agree on their first `k` chars and the scanner is in its boundary state after them.
-/
import RioModel.Model.Scan
set_option linter.unusedSimpArgs false
set_option linter.unusedVariables false

namespace Rio.Scan

@[simp] theorem scan_nil (s : St) : scan s [] = s := rfl
@[simp] theorem scan_cons (s : St) (c : Char) (cs : List Char) : scan s (c :: cs) = scan (s.step c) cs := rfl
theorem scan_append (s : St) (a b : List Char) : scan s (a ++ b) = scan (scan s a) b := by
  simp [scan, List.foldl_append]

@[simp] theorem b0_atBoundary : b0.atBoundary = true := by decide

/-- `l` and `r` agree on their first `k` chars (and both have that many). -/
def Common (k : Nat) (l r : List Char) : Prop :=
  k ≤ l.length ∧ k ≤ r.length ∧ l.take k = r.take k

/-- From state `s`, the scanner is at a boundary after the first `k` chars of `l`. -/
def Bd (s : St) (l : List Char) (k : Nat) : Prop := (scan s (l.take k)).atBoundary = true

theorem common_zero (l r : List Char) : Common 0 l r := by simp [Common]

theorem common_cons_succ {c d : Char} {l r : List Char} {k : Nat} :
    Common (k + 1) (c :: l) (d :: r) ↔ c = d ∧ Common k l r := by
  simp only [Common, List.length_cons, List.take_succ_cons, List.cons.injEq]
  constructor
  · rintro ⟨h1, h2, h3, h4⟩; exact ⟨h3, by omega, by omega, h4⟩
  · rintro ⟨h3, h1, h2, h4⟩; exact ⟨by omega, by omega, h3, h4⟩

theorem bd_cons_succ {s : St} {c : Char} {l : List Char} {k : Nat} :
    Bd s (c :: l) (k + 1) ↔ Bd (s.step c) l k := by
  simp [Bd]

theorem not_common_succ_nil_left {k : Nat} {r : List Char} : ¬ Common (k + 1) [] r := by
  simp [Common]

theorem not_common_succ_nil_right {k : Nat} {l : List Char} : ¬ Common (k + 1) l [] := by
  simp [Common]

/-- The loop invariant of `common_prefix_char_size`. -/
theorem cpLoop_spec (l r : List Char) (s : St) (i best : Nat) (h : best ≤ i) :
    (cpLoop l r s i best = best ∨
      ∃ k, 0 < k ∧ cpLoop l r s i best = i + k ∧ Common k l r ∧ Bd s l k) ∧
    (∀ k, 0 < k → Common k l r → Bd s l k → i + k ≤ cpLoop l r s i best) ∧
    best ≤ cpLoop l r s i best := by
  induction l generalizing r s i best with
  | nil =>
    refine ⟨Or.inl (by simp [cpLoop]), ?_, by simp [cpLoop]⟩
    intro k hk hc; cases k with
    | zero => omega
    | succ k => exact absurd hc not_common_succ_nil_left
  | cons a l ih =>
    cases r with
    | nil =>
      refine ⟨Or.inl (by simp [cpLoop]), ?_, by simp [cpLoop]⟩
      intro k hk hc; cases k with
      | zero => omega
      | succ k => exact absurd hc not_common_succ_nil_right
    | cons b r =>
      by_cases hab : a = b
      · subst hab
        have hstep : cpLoop (a :: l) (a :: r) s i best =
            cpLoop l r (s.step a) (i + 1) (if (s.step a).atBoundary then i + 1 else best) := by
          simp [cpLoop]
        rw [hstep]
        have hb' : (if (s.step a).atBoundary then i + 1 else best) ≤ i + 1 := by split <;> omega
        obtain ⟨h1, h2, h3⟩ := ih r (s.step a) (i + 1) _ hb'
        refine ⟨?_, ?_, ?_⟩
        · rcases h1 with h1 | ⟨k, hk, he, hc, hbd⟩
          · by_cases hbd : (s.step a).atBoundary = true
            · right
              refine ⟨1, by omega, by rw [h1]; simp [hbd], ?_, ?_⟩
              · exact common_cons_succ.2 ⟨rfl, common_zero _ _⟩
              · simpa [Bd] using hbd
            · left; rw [h1]; simp [hbd]
          · right
            exact ⟨k + 1, by omega, by rw [he]; omega, common_cons_succ.2 ⟨rfl, hc⟩, bd_cons_succ.2 hbd⟩
        · intro k hk hc hbd
          cases k with
          | zero => omega
          | succ k =>
            have hc' := (common_cons_succ.1 hc).2
            have hbd' := bd_cons_succ.1 hbd
            cases k with
            | zero =>
              have : (s.step a).atBoundary = true := by simpa [Bd] using hbd'
              simp only [this, if_true] at h3 ⊢
              omega
            | succ k =>
              have := h2 (k + 1) (by omega) hc' hbd'
              omega
        · have : best ≤ (if (s.step a).atBoundary then i + 1 else best) := by split <;> omega
          omega
      · have hstep : cpLoop (a :: l) (b :: r) s i best = best := by simp [cpLoop, hab]
        rw [hstep]
        refine ⟨Or.inl rfl, ?_, Nat.le_refl _⟩
        intro k hk hc; cases k with
        | zero => omega
        | succ k => exact absurd (common_cons_succ.1 hc).1 hab

/-- `cpcs l r` is a common boundary position … -/
theorem cpcs_common (l r : List Char) : Common (commonPrefixCharSize l r) l r := by
  unfold commonPrefixCharSize
  rcases (cpLoop_spec l r b0 0 0 (Nat.le_refl _)).1 with h | ⟨k, _, he, hc, _⟩
  · rw [h]; exact common_zero _ _
  · rw [he]; simpa using hc

theorem cpcs_bd (l r : List Char) : Bd b0 l (commonPrefixCharSize l r) := by
  unfold commonPrefixCharSize
  rcases (cpLoop_spec l r b0 0 0 (Nat.le_refl _)).1 with h | ⟨k, _, he, _, hb⟩
  · rw [h]; simp [Bd]
  · rw [he]; simpa using hb

/-- … and the largest one. -/
theorem cpcs_max (l r : List Char) (k : Nat) (hc : Common k l r) (hb : Bd b0 l k) :
    k ≤ commonPrefixCharSize l r := by
  unfold commonPrefixCharSize
  cases k with
  | zero => omega
  | succ k =>
    have := (cpLoop_spec l r b0 0 0 (Nat.le_refl _)).2.1 (k + 1) (by omega) hc hb
    omega

theorem cpcs_le_left (l r : List Char) : commonPrefixCharSize l r ≤ l.length := (cpcs_common l r).1
theorem cpcs_le_right (l r : List Char) : commonPrefixCharSize l r ≤ r.length := (cpcs_common l r).2.1
theorem cpcs_take (l r : List Char) :
    l.take (commonPrefixCharSize l r) = r.take (commonPrefixCharSize l r) := (cpcs_common l r).2.2

theorem common_symm {k : Nat} {l r : List Char} (h : Common k l r) : Common k r l :=
  ⟨h.2.1, h.1, h.2.2.symm⟩

theorem bd_of_common {k : Nat} {l r : List Char} {s : St} (h : Common k l r) (hb : Bd s l k) : Bd s r k := by
  unfold Bd at *; rw [← h.2.2]; exact hb

theorem cpcs_comm (l r : List Char) : commonPrefixCharSize l r = commonPrefixCharSize r l := by
  apply Nat.le_antisymm
  · exact cpcs_max r l _ (common_symm (cpcs_common l r)) (bd_of_common (cpcs_common l r) (cpcs_bd l r))
  · exact cpcs_max l r _ (common_symm (cpcs_common r l)) (bd_of_common (cpcs_common r l) (cpcs_bd r l))

/-! ### Boundary prefixes -/

/-- `q` is a prefix of `p` and the scanner is at a boundary after `q`. -/
def BPre (q p : List Char) : Prop := q <+: p ∧ (scan b0 q).atBoundary = true

theorem bpre_iff {q p : List Char} : bpre q p = true ↔ BPre q p := by
  simp [bpre, BPre, List.isPrefixOf_iff_prefix]

theorem prefix_common {q p : List Char} (h : q <+: p) : Common q.length q p := by
  obtain ⟨t, rfl⟩ := h
  simp [Common]

theorem common_prefix_of {k : Nat} {l r : List Char} (h : Common k l r) : l.take k <+: r := by
  rw [h.2.2]; exact List.take_prefix _ _

/-- `get_prefix_with_char_size` is `take`. -/
theorem getPrefix_eq_take (s : List Char) (n : Nat) : getPrefixWithCharSize s n = s.take n := by
  unfold getPrefixWithCharSize; split
  · next h => subst h; simp
  · rfl

theorem commonPrefix_eq (l r : List Char) : commonPrefix l r = l.take (commonPrefixCharSize l r) := by
  simp [commonPrefix, getPrefix_eq_take]

theorem commonPrefix_length (l r : List Char) : (commonPrefix l r).length = commonPrefixCharSize l r := by
  rw [commonPrefix_eq, List.length_take]; have := cpcs_le_left l r; omega

theorem commonPrefix_bpre_left (l r : List Char) : BPre (commonPrefix l r) l := by
  rw [commonPrefix_eq]; exact ⟨List.take_prefix _ _, cpcs_bd l r⟩

theorem commonPrefix_bpre_right (l r : List Char) : BPre (commonPrefix l r) r := by
  rw [commonPrefix_eq]; exact ⟨common_prefix_of (cpcs_common l r), cpcs_bd l r⟩

theorem BPre.trans {a b c : List Char} (h1 : BPre a b) (h2 : BPre b c) : BPre a c :=
  ⟨h1.1.trans h2.1, h1.2⟩

theorem BPre.length_le {q p : List Char} (h : BPre q p) : q.length ≤ p.length := h.1.length_le

/-- A boundary prefix of both is found by the scanner. -/
theorem le_cpcs_of_bpre {q a b : List Char} (ha : BPre q a) (hb : BPre q b) :
    q.length ≤ commonPrefixCharSize a b := by
  apply cpcs_max
  · obtain ⟨t, rfl⟩ := ha.1
    obtain ⟨u, rfl⟩ := hb.1
    simp [Common]
  · obtain ⟨t, rfl⟩ := ha.1
    simpa [Bd] using ha.2

/-- `q` boundary prefix of `p` ⇒ `cpcs p q = |q|` (the test `prefix_size < max_prefix_size` of
`Node::insert` fails exactly then). -/
theorem cpcs_eq_of_bpre {q p : List Char} (h : BPre q p) : commonPrefixCharSize p q = q.length := by
  apply Nat.le_antisymm (cpcs_le_right p q)
  exact le_cpcs_of_bpre h ⟨List.prefix_refl _, h.2⟩

/-- Conversely, if the scanner consumes all of `q` then `q` is a prefix of `p`. -/
theorem prefix_of_cpcs_eq {q p : List Char} (h : commonPrefixCharSize p q = q.length) : q <+: p := by
  have := common_prefix_of (common_symm (cpcs_common p q))
  rwa [h, List.take_length] at this

/-- Taking a prefix of one argument cannot increase the result. -/
theorem cpcs_mono_left {a' a b : List Char} (h : a' <+: a) :
    commonPrefixCharSize a' b ≤ commonPrefixCharSize a b := by
  have hc := cpcs_common a' b
  obtain ⟨t, rfl⟩ := h
  apply cpcs_max
  · refine ⟨by have := hc.1; simp; omega, hc.2.1, ?_⟩
    rw [List.take_append_of_le_length hc.1]; exact hc.2.2
  · have := cpcs_bd a' b
    unfold Bd at *
    rwa [List.take_append_of_le_length hc.1]

theorem cpcs_mono_right {a b' b : List Char} (h : b' <+: b) :
    commonPrefixCharSize a b' ≤ commonPrefixCharSize a b := by
  rw [cpcs_comm a b', cpcs_comm a b]; exact cpcs_mono_left h

/-- The common prefix of `p` with a prefix of `p` cut at a scanner boundary. -/
theorem take_cpcs_bpre (p r : List Char) : BPre (r.take (commonPrefixCharSize p r)) r := by
  refine ⟨List.take_prefix _ _, ?_⟩
  have := cpcs_bd p r
  unfold Bd at this
  rwa [cpcs_take] at this

theorem take_cpcs_bpre' (p r : List Char) : BPre (r.take (commonPrefixCharSize p r)) p := by
  refine ⟨?_, (take_cpcs_bpre p r).2⟩
  rw [← cpcs_take]; exact List.take_prefix _ _

/-- If `a` is a boundary prefix of `a'` and the scanner stops inside `a` when comparing with `b`, it stops
at the same place when comparing `a'` with `b`. -/
theorem cpcs_extend {a a' b : List Char} (h : BPre a a') (hlt : commonPrefixCharSize a b < a.length) :
    commonPrefixCharSize a' b = commonPrefixCharSize a b := by
  apply Nat.le_antisymm _ (cpcs_mono_left h.1)
  -- suppose the result for a' were larger
  refine Nat.le_of_not_lt fun hgt => ?_
  have hc := cpcs_common a' b
  have hb := cpcs_bd a' b
  obtain ⟨t, rfl⟩ := h.1
  by_cases hk : commonPrefixCharSize (a ++ t) b ≤ a.length
  · -- then it is a common boundary position of a and b
    have : commonPrefixCharSize (a ++ t) b ≤ commonPrefixCharSize a b := by
      apply cpcs_max
      · refine ⟨hk, hc.2.1, ?_⟩
        rw [← hc.2.2, List.take_append_of_le_length hk]
      · unfold Bd at *; rwa [List.take_append_of_le_length hk] at hb
    omega
  · -- then all of `a` is a common boundary prefix
    have hk' : a.length ≤ commonPrefixCharSize (a ++ t) b := by omega
    have : a.length ≤ commonPrefixCharSize a b := by
      apply cpcs_max
      · refine ⟨Nat.le_refl _, by have := hc.2.1; omega, ?_⟩
        have h1 : ((a ++ t).take (commonPrefixCharSize (a ++ t) b)).take a.length
            = (b.take (commonPrefixCharSize (a ++ t) b)).take a.length := by rw [hc.2.2]
        rw [List.take_take, List.take_take, Nat.min_eq_left hk', List.take_left'] at h1
        · simpa using h1
        · rfl
      · simpa [Bd] using h.2
    omega

end Rio.Scan
