/-
Frame lemmas for the router model with sharing (Model/RouterShare.lean; property theorems: Props/C02iso.lean).

`Frame lib st st'`: the heap `st'` is consistent, at least as long as `st`, and every handle that is valid in `st`
captures in `st'` what it captured in `st`.  Every operation of every router is a frame step of the heap:
* allocation appends fresh `new_leaf` cells (`Grow`): old cells are untouched;
* the second phase of `Router::cache` overwrites cells with their compiled copies: invisible — this is exactly
  `Rio.C12.capture_cache_indep_ops` (Props/C12marker.lean), used here as is;
* everything else does not touch the heap.
-/
import RioModel.Model.RouterShare
import RioModel.Props.C12marker
set_option linter.unusedSimpArgs false

namespace Rio.RouterShare
open Rio.Router
open Rio.Marker (Str)
open Rio.MarkerCache (RegexLib LazyRegex Store MString StoreOK compileRoutes)

variable {R : Type} (lib : RegexLib R) {O : MOps}

/-! ### Frames of the heap -/

def Frame (st st' : Store R) : Prop :=
  StoreOK lib st' ∧ st.length ≤ st'.length ∧
    ∀ m : MString, m.cell < st.length → ∀ s, m.captureOn lib st' s = m.captureOn lib st s

theorem Frame.refl (st : Store R) (h : StoreOK lib st) : Frame lib st st := ⟨h, Nat.le_refl _, fun _ _ _ => rfl⟩

theorem Frame.trans {a b c : Store R} (h1 : Frame lib a b) (h2 : Frame lib b c) : Frame lib a c :=
  ⟨h2.1, Nat.le_trans h1.2.1 h2.2.1,
   fun m hm s => (h2.2.2 m (Nat.lt_of_lt_of_le hm h1.2.1) s).trans (h1.2.2 m hm s)⟩

/-- `st'` is `st` followed by fresh, not yet compiled cells -/
def Grow (st st' : Store R) : Prop := ∃ ext : Store R, st' = st ++ ext ∧ ∀ r ∈ ext, r.compiled = none

theorem Grow.refl (st : Store R) : Grow st st := ⟨[], by simp, by simp⟩

theorem Grow.trans {a b c : Store R} (h1 : Grow a b) (h2 : Grow b c) : Grow a c := by
  obtain ⟨e1, rfl, h1⟩ := h1
  obtain ⟨e2, rfl, h2⟩ := h2
  refine ⟨e1 ++ e2, by simp, ?_⟩
  intro r hr
  rcases List.mem_append.mp hr with h | h
  · exact h1 r h
  · exact h2 r h

theorem Grow.le {a b : Store R} (h : Grow a b) : a.length ≤ b.length := by
  obtain ⟨e, rfl, _⟩ := h
  simp

theorem Grow.frame {st st' : Store R} (hg : Grow st st') (h : StoreOK lib st) : Frame lib st st' := by
  obtain ⟨ext, rfl, hext⟩ := hg
  refine ⟨?_, by simp, ?_⟩
  · intro r hr
    rcases List.mem_append.mp hr with h1 | h1
    · exact h r h1
    · exact Or.inl (hext r h1)
  · intro m hm s
    unfold MString.captureOn
    rw [List.getElem?_append_left hm]

/-- the heap after the second phase of `Router::cache` (any routes, any budget): same length -/
theorem length_compileString (st : Store R) (m : MString) : (m.compile lib st).1.length = st.length := by
  unfold MString.compile
  split <;> simp

theorem length_compileSoD (st : Store R) (x : MSoD) : (x.compile lib st).1.length = st.length := by
  cases x with
  | static s => rfl
  | dynamic m => exact length_compileString lib st m

theorem length_compileRoute (st : Store R) (rt : MRoute) : (rt.compile lib st).1.length = st.length := by
  unfold Rio.MarkerCache.Route.compile
  cases hh : rt.host with
  | none => simpa using length_compileSoD lib st rt.pathAndQuery
  | some x =>
    simp only
    rw [length_compileSoD, length_compileSoD]

theorem length_compileRoutes (st : Store R) (rts : List MRoute) (left : Int) :
    (compileRoutes lib st rts left).length = st.length := by
  induction rts generalizing st left with
  | nil => rfl
  | cons rt rest ih =>
    simp only [compileRoutes]
    split
    · exact length_compileRoute lib st rt
    · rw [ih, length_compileRoute]

/-- **the shared write is invisible**: `Rio.C12.capture_cache_indep_ops` on the one-element history
`[cacheRoutes rts left]`. -/
theorem frame_compileRoutes (st : Store R) (h : StoreOK lib st) (rts : List MRoute) (left : Int) :
    Frame lib st (compileRoutes lib st rts left) := by
  have key := fun m' s => Rio.C12.capture_cache_indep_ops lib st h [.cacheRoutes rts left] m' s
  have hrun : Rio.MarkerCache.runOps lib st [.cacheRoutes rts left] = compileRoutes lib st rts left := rfl
  rw [hrun] at key
  exact ⟨(key ⟨[], [], false, 0⟩ []).2, Nat.le_of_eq (length_compileRoutes lib st rts left).symm,
    fun m _ s => (key m s).1⟩

/-! ### Allocation -/

theorem MSoD.Below.mono {n n' : Nat} {x : MSoD} (h : MSoD.Below n x) (hn : n ≤ n') : MSoD.Below n' x := by
  cases x with
  | static s => trivial
  | dynamic m => exact Nat.lt_of_lt_of_le h hn

theorem MRoute.Below.mono {n n' : Nat} {rt : MRoute} (h : MRoute.Below n rt) (hn : n ≤ n') : MRoute.Below n' rt :=
  ⟨h.1.mono hn, fun x hx => (h.2.1 x hx).mono hn, fun e he => Nat.lt_of_lt_of_le (h.2.2 e he) hn⟩

theorem SRouter.HandlesOK.mono {n n' : Nat} {S : SRouter O} (h : S.HandlesOK n) (hn : n ≤ n') : S.HandlesOK n' :=
  fun e he => (h e he).mono hn

theorem grow_allocM (st : Store R) (t : MTpl) :
    Grow st (allocM st t).1 ∧ (allocM st t).2.cell < (allocM st t).1.length :=
  ⟨⟨[LazyRegex.newLeaf t.capture t.ignoreCase], rfl, by simp [LazyRegex.newLeaf]⟩, by simp [allocM]⟩

theorem grow_allocSoD (st : Store R) (x : SoDTpl) :
    Grow st (allocSoD st x).1 ∧ MSoD.Below (allocSoD st x).1.length (allocSoD st x).2 := by
  cases x with
  | static s => exact ⟨Grow.refl st, trivial⟩
  | dynamic t => exact grow_allocM st t

theorem grow_allocHost (st : Store R) (x : Option SoDTpl) :
    Grow st (allocHost st x).1 ∧ ∀ h, (allocHost st x).2 = some h → MSoD.Below (allocHost st x).1.length h := by
  cases x with
  | none => exact ⟨Grow.refl st, by simp [allocHost]⟩
  | some y =>
    refine ⟨(grow_allocSoD st y).1, ?_⟩
    intro h hh
    simp only [allocHost, Option.some.injEq] at hh
    subst hh
    exact (grow_allocSoD st y).2

theorem grow_allocHeaders (st : Store R) (l : List (Str × MTpl)) :
    Grow st (allocHeaders st l).1 ∧ ∀ e ∈ (allocHeaders st l).2, e.2.cell < (allocHeaders st l).1.length := by
  induction l generalizing st with
  | nil => exact ⟨Grow.refl st, by simp [allocHeaders]⟩
  | cons a rest ih =>
    obtain ⟨n, t⟩ := a
    have h1 := grow_allocM st t
    have h2 := ih (allocM st t).1
    refine ⟨h1.1.trans h2.1, ?_⟩
    intro e he
    simp only [allocHeaders, List.mem_cons] at he
    rcases he with rfl | he
    · exact Nat.lt_of_lt_of_le h1.2 h2.1.le
    · exact h2.2 e he

theorem grow_allocRoute (st : Store R) (t : RouteTpl) :
    Grow st (allocRoute st t).1 ∧ MRoute.Below (allocRoute st t).1.length (allocRoute st t).2 := by
  have h1 := grow_allocHost st t.host
  have h2 := grow_allocSoD (allocHost st t.host).1 t.pathAndQuery
  have h3 := grow_allocHeaders (allocSoD (allocHost st t.host).1 t.pathAndQuery).1 t.headers
  refine ⟨(h1.1.trans h2.1).trans h3.1, h2.2.mono h3.1.le, ?_, h3.2⟩
  intro h hh
  exact (h1.2 h hh).mono (Nat.le_trans h2.1.le h3.1.le)

theorem grow_allocAll (st : Store R) (l : List (Route × RouteTpl)) :
    Grow st (allocAll st l).1 ∧ ∀ e ∈ (allocAll st l).2, MRoute.Below (allocAll st l).1.length e.2 := by
  induction l generalizing st with
  | nil => exact ⟨Grow.refl st, by simp [allocAll]⟩
  | cons a rest ih =>
    obtain ⟨r, t⟩ := a
    have h1 := grow_allocRoute st t
    have h2 := ih (allocRoute st t).1
    refine ⟨h1.1.trans h2.1, ?_⟩
    intro e he
    simp only [allocAll, List.mem_cons] at he
    rcases he with rfl | he
    · exact h1.2.mono h2.1.le
    · exact h2.2 e he

/-! ### Handles of one router under its own operations -/

theorem mem_aupsert_const {K V : Type} [DecidableEq K] (v : V) (k : K) (l : List (K × V)) (e : K × V)
    (h : e ∈ aupsert (fun _ => v) v k l) : e ∈ l ∨ e = (k, v) := by
  induction l with
  | nil => simp [aupsert] at h; exact Or.inr h
  | cons a rest ih =>
    obtain ⟨k', v'⟩ := a
    simp only [aupsert] at h
    split at h
    · rename_i hk
      rcases List.mem_cons.mp h with h | h
      · exact Or.inr (by rw [h, hk])
      · exact Or.inl (List.mem_cons_of_mem _ h)
    · rcases List.mem_cons.mp h with h | h
      · exact Or.inl (by rw [h]; exact List.mem_cons_self)
      · rcases ih h with h | h
        · exact Or.inl (List.mem_cons_of_mem _ h)
        · exact Or.inr h

theorem handles_insertRoute {n : Nat} (S : SRouter O) (r : Route) (mk : MRoute) (hS : S.HandlesOK n)
    (hmk : MRoute.Below n mk) : (S.insertRoute r mk).HandlesOK n := by
  intro e he
  rcases mem_aupsert_const mk r.id S.marks e he with h | h
  · exact hS e h
  · rw [h]; exact hmk

theorem handles_remove {n : Nat} (S : SRouter O) (id : String) (hS : S.HandlesOK n) : (S.remove id).1.HandlesOK n := by
  intro e he
  simp only [SRouter.remove] at he
  split at he
  · exact hS e (List.mem_filter.mp he).1
  · exact hS e he

theorem handles_batchRemove {n : Nat} (S : SRouter O) (ids : List String) (hS : S.HandlesOK n) :
    (S.batchRemove ids).HandlesOK n :=
  fun e he => hS e (List.mem_filter.mp he).1

theorem handles_foldl_insertRoute {n : Nat} (us : List (Route × MRoute)) (S : SRouter O) (hS : S.HandlesOK n)
    (hus : ∀ e ∈ us, MRoute.Below n e.2) : (us.foldl (fun S e => S.insertRoute e.1 e.2) S).HandlesOK n := by
  induction us generalizing S with
  | nil => exact hS
  | cons a rest ih =>
    exact ih _ (handles_insertRoute S a.1 a.2 hS (hus a List.mem_cons_self))
      (fun e he => hus e (List.mem_cons_of_mem _ he))

/-- the invariant of one router's run, relative to the heap `st0` it started from -/
def Good (st0 : Store R) (p : Store R × SRouter O) : Prop := Frame lib st0 p.1 ∧ p.2.HandlesOK p.1.length

theorem good_insert (st0 : Store R) (p : Store R × SRouter O) (r : Route) (t : RouteTpl) (h : Good lib st0 p) :
    Good lib st0 (p.2.insert p.1 r t) := by
  have hg := grow_allocRoute p.1 t
  exact ⟨h.1.trans lib (hg.1.frame lib h.1.1), handles_insertRoute p.2 r _ (h.2.mono hg.1.le) hg.2⟩

theorem good_foldl_insert (st0 : Store R) (l : List (Route × RouteTpl)) (p : Store R × SRouter O)
    (h : Good lib st0 p) : Good lib st0 (l.foldl (fun p e => p.2.insert p.1 e.1 e.2) p) := by
  induction l generalizing p with
  | nil => exact h
  | cons a rest ih => exact ih _ (good_insert lib st0 p a.1 a.2 h)

theorem good_applyChangeSet (st : Store R) (S : SRouter O) (a u : List (Route × RouteTpl)) (d : List String)
    (hst : StoreOK lib st) (hS : S.HandlesOK st.length) : Good lib st (S.applyChangeSet st a u d) := by
  have hg := grow_allocAll st u
  unfold SRouter.applyChangeSet
  apply good_foldl_insert
  exact ⟨hg.1.frame lib hst,
    handles_foldl_insertRoute _ _ (handles_batchRemove S _ (hS.mono hg.1.le)) hg.2⟩

/-- **every operation of a router is a frame step of the heap and keeps the router's handles valid** -/
theorem good_op (st : Store R) (S : SRouter O) (op : Op) (hst : StoreOK lib st) (hS : S.HandlesOK st.length) :
    Good lib st (op.run lib st S) := by
  cases op with
  | insert r t => exact good_insert lib st (st, S) r t ⟨Frame.refl lib st hst, hS⟩
  | remove id => exact ⟨Frame.refl lib st hst, handles_remove S id hS⟩
  | batchRemove ids => exact ⟨Frame.refl lib st hst, handles_batchRemove S ids hS⟩
  | changeSet a u d => exact good_applyChangeSet lib st S a u d hst hS
  | cache limit =>
    simp only [Op.run, SRouter.cache, Good]
    split
    · exact ⟨frame_compileRoutes lib st hst _ _, by rw [length_compileRoutes]; exact hS⟩
    · exact ⟨Frame.refl lib st hst, hS⟩
  | cacheIn limit order =>
    simp only [Op.run, SRouter.cacheIn, Good]
    split
    · exact ⟨frame_compileRoutes lib st hst _ _, by rw [length_compileRoutes]; exact hS⟩
    · exact ⟨Frame.refl lib st hst, hS⟩
  | matcherCache limit level => exact ⟨Frame.refl lib st hst, hS⟩

/-! ### Observations are framed -/

theorem alookup_mem {K V : Type} [DecidableEq K] (k : K) (l : List (K × V)) (v : V) (h : alookup k l = some v) :
    ∃ e ∈ l, e.2 = v := by
  induction l with
  | nil => simp [alookup] at h
  | cons a rest ih =>
    obtain ⟨k', v'⟩ := a
    simp only [alookup] at h
    split at h
    · exact ⟨(k', v'), List.mem_cons_self, by simpa using h⟩
    · obtain ⟨e, he, hv⟩ := ih h
      exact ⟨e, List.mem_cons_of_mem _ he, hv⟩

theorem sod_capture_frame {st st' : Store R} (hf : Frame lib st st') (x : MSoD) (hx : MSoD.Below st.length x) (s : Str) :
    x.captureOn lib st' s = x.captureOn lib st s := by
  cases x with
  | static _ => rfl
  | dynamic m => exact hf.2.2 m hx s

theorem flatMap_congr' {α β : Type} {l : List α} {f g : α → List β} (h : ∀ a ∈ l, f a = g a) :
    l.flatMap f = l.flatMap g := by
  induction l with
  | nil => rfl
  | cons a rest ih =>
    rw [List.flatMap_cons, List.flatMap_cons, h a List.mem_cons_self,
      ih (fun x hx => h x (List.mem_cons_of_mem _ hx))]

theorem captureRoute_frame {st st' : Store R} (hf : Frame lib st st') (nameEq : Str → Str → Bool) (rt : MRoute)
    (hrt : MRoute.Below st.length rt) :
    captureRoute lib st' nameEq rt = captureRoute lib st nameEq rt := by
  funext path host hdrs
  unfold captureRoute
  congr 1
  · congr 1
    · exact sod_capture_frame lib hf _ hrt.1 path
    · cases hh : rt.host with
      | none => rfl
      | some h =>
        cases host with
        | none => rfl
        | some rh => exact sod_capture_frame lib hf h (hrt.2.1 h hh) rh
  · apply flatMap_congr'
    intro h hh
    apply flatMap_congr'
    intro q _
    rw [hf.2.2 h.2 (hrt.2.2 h hh) q.2]

theorem obs_frame {st st' : Store R} (hf : Frame lib st st') (nameEq : Str → Str → Bool) (S : SRouter O)
    (hS : S.HandlesOK st.length) : S.obs lib nameEq st' = S.obs lib nameEq st := by
  unfold SRouter.obs
  congr 1
  funext id
  cases h : alookup id S.marks with
  | none => rfl
  | some rt =>
    obtain ⟨e, he, hv⟩ := alookup_mem id S.marks rt h
    simp only [Option.map_some]
    rw [captureRoute_frame lib hf nameEq rt (hv ▸ hS e he)]

/-! ### The world -/

theorem step_frame (w : World R O) (hw : w.WF lib) (s : Step) :
    Frame lib w.store (w.step lib s).store ∧ (w.step lib s).WF lib ∧
      w.routers.length ≤ (w.step lib s).routers.length := by
  cases s with
  | clone i =>
    simp only [World.step]
    cases hi : w.routers[i]? with
    | none => exact ⟨Frame.refl lib _ hw.1, hw, Nat.le_refl _⟩
    | some S =>
      refine ⟨Frame.refl lib _ hw.1, ⟨hw.1, ?_⟩, by simp⟩
      intro S' hS'
      rcases List.mem_append.mp hS' with h | h
      · exact hw.2 S' h
      · simp only [List.mem_singleton] at h
        rw [h]
        exact hw.2 S (List.mem_of_getElem? hi)
  | op i op =>
    simp only [World.step]
    cases hi : w.routers[i]? with
    | none => exact ⟨Frame.refl lib _ hw.1, hw, Nat.le_refl _⟩
    | some S =>
      have hg := good_op lib w.store S op hw.1 (hw.2 S (List.mem_of_getElem? hi))
      refine ⟨hg.1, ⟨hg.1.1, ?_⟩, by simp⟩
      intro S' hS'
      rcases List.mem_or_eq_of_mem_set hS' with h | h
      · exact (hw.2 S' h).mono hg.1.2.1
      · rw [h]; exact hg.2

theorem step_spares (w : World R O) (s : Step) (j : Nat) (hj : j < w.routers.length) (hs : s.Spares j) :
    (w.step lib s).routers[j]? = w.routers[j]? := by
  cases s with
  | clone i =>
    simp only [World.step]
    cases hi : w.routers[i]? with
    | none => rfl
    | some S => exact List.getElem?_append_left hj
  | op i op =>
    simp only [World.step]
    cases hi : w.routers[i]? with
    | none => rfl
    | some S => exact List.getElem?_set_ne hs

/-- one step that spares router `j` leaves every observation of router `j` as it was -/
theorem step_obs (w : World R O) (hw : w.WF lib) (nameEq : Str → Str → Bool) (s : Step) (j : Nat)
    (hj : j < w.routers.length) (hs : s.Spares j) :
    (w.step lib s).obs lib nameEq j = w.obs lib nameEq j := by
  unfold World.obs
  rw [step_spares lib w s j hj hs]
  cases h : w.routers[j]? with
  | none => rfl
  | some S =>
    simp only [Option.map_some]
    rw [obs_frame lib (step_frame lib w hw s).1 nameEq S (hw.2 S (List.mem_of_getElem? h))]

theorem run_obs (w : World R O) (hw : w.WF lib) (nameEq : Str → Str → Bool) (steps : List Step) (j : Nat)
    (hj : j < w.routers.length) (hs : ∀ s ∈ steps, s.Spares j) :
    (w.run lib steps).obs lib nameEq j = w.obs lib nameEq j ∧ (w.run lib steps).WF lib ∧
      w.routers.length ≤ (w.run lib steps).routers.length := by
  induction steps generalizing w with
  | nil => exact ⟨rfl, hw, Nat.le_refl _⟩
  | cons s rest ih =>
    have h1 := step_frame lib w hw s
    have h2 := ih (w.step lib s) h1.2.1 (Nat.lt_of_lt_of_le hj h1.2.2) (fun x hx => hs x (List.mem_cons_of_mem _ hx))
    refine ⟨?_, h2.2.1, Nat.le_trans h1.2.2 h2.2.2⟩
    show ((w.step lib s).run lib rest).obs lib nameEq j = _
    rw [h2.1]
    exact step_obs lib w hw nameEq s j hj (hs s List.mem_cons_self)

/-! ### The value model is the projection of the shared model -/

theorem core_foldl_insertRoute (us : List (Route × MRoute)) (S : SRouter O) :
    (us.foldl (fun S e => S.insertRoute e.1 e.2) S).core =
      (us.map (·.1)).foldl (fun C r => RouterG.insert O r C) S.core := by
  induction us generalizing S with
  | nil => rfl
  | cons a rest ih => simp only [List.foldl_cons, List.map_cons]; rw [ih]; rfl

theorem allocAll_map_fst (st : Store R) (l : List (Route × RouteTpl)) :
    (allocAll st l).2.map (·.1) = l.map (·.1) := by
  induction l generalizing st with
  | nil => rfl
  | cons a rest ih =>
    obtain ⟨r, t⟩ := a
    simp only [allocAll, List.map_cons]
    rw [ih]

theorem core_foldl_insert (l : List (Route × RouteTpl)) (p : Store R × SRouter O) :
    (l.foldl (fun p e => p.2.insert p.1 e.1 e.2) p).2.core =
      (l.map (·.1)).foldl (fun C r => RouterG.insert O r C) p.2.core := by
  induction l generalizing p with
  | nil => rfl
  | cons a rest ih => simp only [List.foldl_cons, List.map_cons]; rw [ih]; rfl

theorem core_applyChangeSet (st : Store R) (S : SRouter O) (a u : List (Route × RouteTpl)) (d : List String) :
    (S.applyChangeSet st a u d).2.core = RouterG.applyChangeSet O (a.map (·.1)) (u.map (·.1)) d S.core := by
  unfold SRouter.applyChangeSet RouterG.applyChangeSet
  simp only [core_foldl_insert, core_foldl_insertRoute, allocAll_map_fst, List.map_map]
  rfl

/-- every operation acts on `core` exactly as the operation of Model/RouterOps.lean it refines: all theorems of
Props/C02.lean about `Op.runG` hold of every router of every world -/
theorem core_op (st : Store R) (S : SRouter O) (op : Op) (p : Rio.Router.Op) (h : op.plain = some p) :
    (op.run lib st S).2.core = p.runG O S.core := by
  cases op with
  | insert r t => simp only [Op.plain, Option.some.injEq] at h; subst h; rfl
  | remove id => simp only [Op.plain, Option.some.injEq] at h; subst h; rfl
  | batchRemove ids => simp only [Op.plain, Option.some.injEq] at h; subst h; rfl
  | changeSet a u d =>
    simp only [Op.plain, Option.some.injEq] at h; subst h
    exact core_applyChangeSet st S a u d
  | cache limit => simp only [Op.plain, Option.some.injEq] at h; subst h; rfl
  | cacheIn limit order => simp only [Op.plain, Option.some.injEq] at h; subst h; rfl
  | matcherCache limit level => simp [Op.plain] at h

/-! ### `marks` and `core.routes` are two views of ONE id map: their keys stay equal -/

def SRouter.Sync (S : SRouter O) : Prop := S.marks.map (·.1) = S.core.routes.map (·.1)

theorem keys_aupsert_const {K V : Type} [DecidableEq K] (v : V) (k : K) (l : List (K × V)) :
    (aupsert (fun _ => v) v k l).map (·.1) = if k ∈ l.map (·.1) then l.map (·.1) else l.map (·.1) ++ [k] := by
  induction l with
  | nil => simp [aupsert]
  | cons a rest ih =>
    obtain ⟨k', v'⟩ := a
    simp only [aupsert]
    by_cases hk : k' = k
    · simp [hk]
    · have hk' : ¬ k = k' := fun h => hk h.symm
      simp only [hk, if_false, List.map_cons, List.mem_cons, hk', false_or, ih]
      split <;> simp

theorem keys_filter {K V : Type} (p : K → Bool) (l : List (K × V)) :
    (l.filter (fun e => p e.1)).map (·.1) = (l.map (·.1)).filter p := by
  induction l with
  | nil => rfl
  | cons a rest ih =>
    simp only [List.filter_cons, List.map_cons]
    split <;> simp [ih]

theorem sync_insertRoute (S : SRouter O) (r : Route) (mk : MRoute) (h : S.Sync) : (S.insertRoute r mk).Sync := by
  unfold SRouter.Sync SRouter.insertRoute RouterG.insert
  simp only [keys_aupsert_const]
  rw [h]

theorem sync_batchRemove (S : SRouter O) (ids : List String) (h : S.Sync) : (S.batchRemove ids).Sync := by
  unfold SRouter.Sync SRouter.batchRemove RouterG.batchRemove
  simp only
  rw [keys_filter (fun k => !ids.contains k) S.marks, keys_filter (fun k => !ids.contains k) S.core.routes, h]

theorem sync_remove (S : SRouter O) (id : String) (h : S.Sync) : (S.remove id).1.Sync := by
  unfold SRouter.Sync SRouter.remove RouterG.remove
  by_cases hc : (alookup id S.core.routes).isSome
  · simp only [hc, if_true]
    rw [keys_filter (fun k => k != id) S.marks, keys_filter (fun k => k != id) S.core.routes, h]
  · simp only [hc]
    exact h

theorem sync_foldl_insertRoute (us : List (Route × MRoute)) (S : SRouter O) (h : S.Sync) :
    (us.foldl (fun S e => S.insertRoute e.1 e.2) S).Sync := by
  induction us generalizing S with
  | nil => exact h
  | cons a rest ih => exact ih _ (sync_insertRoute S a.1 a.2 h)

theorem sync_foldl_insert (l : List (Route × RouteTpl)) (p : Store R × SRouter O) (h : p.2.Sync) :
    (l.foldl (fun p e => p.2.insert p.1 e.1 e.2) p).2.Sync := by
  induction l generalizing p with
  | nil => exact h
  | cons a rest ih => exact ih _ (sync_insertRoute p.2 a.1 _ h)

theorem sync_op (st : Store R) (S : SRouter O) (op : Op) (h : S.Sync) : (op.run lib st S).2.Sync := by
  cases op with
  | insert r t => exact sync_insertRoute S r _ h
  | remove id => exact sync_remove S id h
  | batchRemove ids => exact sync_batchRemove S ids h
  | changeSet a u d =>
    exact sync_foldl_insert _ _ (sync_foldl_insertRoute _ _ (sync_batchRemove S _ h))
  | cache limit => exact h
  | cacheIn limit order => exact h
  | matcherCache limit level => exact h

/-! ### Whole runs -/

theorem run_frame (w : World R O) (hw : w.WF lib) (steps : List Step) :
    Frame lib w.store (w.run lib steps).store ∧ (w.run lib steps).WF lib ∧
      w.routers.length ≤ (w.run lib steps).routers.length := by
  induction steps generalizing w with
  | nil => exact ⟨Frame.refl lib _ hw.1, hw, Nat.le_refl _⟩
  | cons s rest ih =>
    have h1 := step_frame lib w hw s
    have h2 := ih (w.step lib s) h1.2.1
    exact ⟨h1.1.trans lib h2.1, h2.2.1, Nat.le_trans h1.2.2 h2.2.2⟩

theorem run_spares (w : World R O) (hw : w.WF lib) (steps : List Step) (j : Nat) (hj : j < w.routers.length)
    (hs : ∀ s ∈ steps, s.Spares j) : (w.run lib steps).routers[j]? = w.routers[j]? := by
  induction steps generalizing w with
  | nil => rfl
  | cons s rest ih =>
    have h1 := step_frame lib w hw s
    have h2 := ih (w.step lib s) h1.2.1 (Nat.lt_of_lt_of_le hj h1.2.2) (fun x hx => hs x (List.mem_cons_of_mem _ hx))
    show ((w.step lib s).run lib rest).routers[j]? = _
    rw [h2]
    exact step_spares lib w s j hj (hs s List.mem_cons_self)

/-- along ANY run (operations on router `j` included), the observations of router `j` can change only at router
`j`'s own steps: a step that spares `j`, wherever it occurs, leaves them as they were just before it -/
theorem run_step_obs (w : World R O) (hw : w.WF lib) (nameEq : Str → Str → Bool) (pre : List Step) (s : Step) (j : Nat)
    (hj : j < w.routers.length) (hs : s.Spares j) :
    (w.run lib (pre ++ [s])).obs lib nameEq j = (w.run lib pre).obs lib nameEq j := by
  have h1 := run_frame lib w hw pre
  have : w.run lib (pre ++ [s]) = (w.run lib pre).step lib s := by simp [World.run, List.foldl_append]
  rw [this]
  exact step_obs lib _ h1.2.1 nameEq s j (Nat.lt_of_lt_of_le hj h1.2.2) hs

/-- what an operation does to `core` does not depend on the heap -/
theorem core_run_op (st : Store R) (S : SRouter O) (op : Op) : (op.run lib st S).2.core = op.runCore S.core := by
  cases op with
  | changeSet a u d => exact core_applyChangeSet st S a u d
  | _ => rfl

/-- **non-interference for `core`, any interleaving**: after ANY run (operations on every router, clones in between)
the `core` of router `i` is what its OWN operations make of it. -/
theorem core_noninterference (w : World R O) (steps : List Step) (i : Nat) (S : SRouter O)
    (hS : w.routers[i]? = some S) :
    ∃ S', (w.run lib steps).routers[i]? = some S' ∧
      S'.core = (opsOf i steps).foldl (fun C op => op.runCore C) S.core := by
  induction steps generalizing w S with
  | nil => exact ⟨S, hS, rfl⟩
  | cons s rest ih =>
    have hi : i < w.routers.length := (List.getElem?_eq_some_iff.mp hS).1
    cases s with
    | clone k =>
      simp only [World.run, List.foldl_cons, opsOf]
      have : (w.step lib (.clone k)).routers[i]? = some S := by
        simp only [World.step]
        cases hk : w.routers[k]? with
        | none => exact hS
        | some Sk => simp only; rw [List.getElem?_append_left hi]; exact hS
      exact ih _ S this
    | op k op =>
      simp only [World.run, List.foldl_cons, opsOf]
      by_cases hk : k = i
      · subst hk
        have : (w.step lib (.op k op)).routers[k]? = some (op.run lib w.store S).2 := by
          simp only [World.step, hS]
          exact List.getElem?_set_self hi
        obtain ⟨S', h1, h2⟩ := ih _ _ this
        refine ⟨S', h1, ?_⟩
        rw [h2, core_run_op]
        simp
      · have : (w.step lib (.op k op)).routers[i]? = some S := by
          simp only [World.step]
          cases hk' : w.routers[k]? with
          | none => exact hS
          | some Sk => simp only; rw [List.getElem?_set_ne hk]; exact hS
        obtain ⟨S', h1, h2⟩ := ih _ S this
        exact ⟨S', h1, by rw [h2]; simp [hk]⟩

end Rio.RouterShare
