/-
Helper lemmas for C09, part 1: percent-encoding and percent-decoding.
-/
import RioModel.Model.Url
set_option linter.unusedSimpArgs false
set_option linter.unusedVariables false

namespace Rio.Url

/-- every element is a byte. -/
def IsBytes (s : Bytes) : Prop := ∀ b ∈ s, b < 256

instance (s : Bytes) : Decidable (IsBytes s) := by unfold IsBytes; infer_instance

theorem isBytes_nil : IsBytes [] := fun _ h => nomatch h

theorem IsBytes.tail {b : Nat} {s : Bytes} (h : IsBytes (b :: s)) : IsBytes s :=
  fun x hx => h x (List.mem_cons_of_mem _ hx)

theorem IsBytes.head {b : Nat} {s : Bytes} (h : IsBytes (b :: s)) : b < 256 :=
  h b (List.mem_cons_self ..)

theorem IsBytes.append_left {s t : Bytes} (h : IsBytes (s ++ t)) : IsBytes s :=
  fun x hx => h x (List.mem_append_left _ hx)

theorem IsBytes.append_right {s t : Bytes} (h : IsBytes (s ++ t)) : IsBytes t :=
  fun x hx => h x (List.mem_append_right _ hx)

/-! ### hex digits -/

theorem hexVal_hexDigitUpper {n : Nat} (h : n < 16) : hexVal (hexDigitUpper n) = some n := by
  unfold hexVal hexDigitUpper
  split <;> (repeat' split) <;> first | (congr 1; omega) | omega

theorem hexDigitUpper_range {n : Nat} (h : n < 16) :
    (48 ≤ hexDigitUpper n ∧ hexDigitUpper n ≤ 57) ∨ (65 ≤ hexDigitUpper n ∧ hexDigitUpper n ≤ 70) := by
  unfold hexDigitUpper; split <;> omega

theorem hexVal_some_range {b v : Nat} (h : hexVal b = some v) :
    (48 ≤ b ∧ b ≤ 57) ∨ (65 ≤ b ∧ b ≤ 70) ∨ (97 ≤ b ∧ b ≤ 102) := by
  unfold hexVal at h
  split at h
  · omega
  · split at h
    · omega
    · split at h
      · omega
      · cases h

theorem hexVal_lt {b v : Nat} (h : hexVal b = some v) : v < 16 := by
  unfold hexVal at h
  split at h
  · cases h; omega
  · split at h
    · cases h; omega
    · split at h
      · cases h; omega
      · cases h

/-! ### encode sets -/

/-- What the proofs need of an encode set: the added bytes are ASCII, are no hex digit and none of
`%`, `&`, `=`, `?`. -/
def SafeSet (S : List Nat) : Bool :=
  S.all (fun b => (hexVal b).isNone && b != 37 && b != 38 && b != 61 && b != 63)

theorem shouldEncode_props {S : List Nat} (hS : SafeSet S = true) {b : Nat}
    (h : shouldEncode S b = true) :
    hexVal b = none ∧ b ≠ 37 ∧ b ≠ 38 ∧ b ≠ 61 ∧ b ≠ 63 := by
  unfold shouldEncode isControl at h
  simp only [Bool.or_eq_true, decide_eq_true_eq, beq_iff_eq, List.contains_iff_mem] at h
  rcases h with (h | h | h) | h
  · refine ⟨?_, by omega, by omega, by omega, by omega⟩
    unfold hexVal; rw [if_neg (by omega), if_neg (by omega), if_neg (by omega)]
  · refine ⟨?_, by omega, by omega, by omega, by omega⟩
    unfold hexVal; rw [if_neg (by omega), if_neg (by omega), if_neg (by omega)]
  · refine ⟨?_, by omega, by omega, by omega, by omega⟩
    unfold hexVal; rw [if_neg (by omega), if_neg (by omega), if_neg (by omega)]
  · unfold SafeSet at hS
    rw [List.all_eq_true] at hS
    have := hS b h
    simp only [Bool.and_eq_true, Option.isNone_iff_eq_none, bne_iff_ne, ne_eq] at this
    exact ⟨this.1.1.1.1, this.1.1.1.2, this.1.1.2, this.1.2, this.2⟩

theorem safe_urlSet : SafeSet urlSet = true := by decide
theorem safe_querySet : SafeSet querySet = true := by decide
theorem safe_sortedQuerySet : SafeSet sortedQuerySet = true := by decide
theorem safe_ruleUrlSet : SafeSet ruleUrlSet = true := by decide
theorem safe_ruleQuerySet : SafeSet ruleQuerySet = true := by decide

/-- a hex digit or one of the delimiters is never encoded. -/
theorem not_shouldEncode_of_hex {S : List Nat} (hS : SafeSet S = true) {b v : Nat}
    (h : hexVal b = some v) : shouldEncode S b = false := by
  cases hc : shouldEncode S b with
  | false => rfl
  | true => have := (shouldEncode_props hS hc).1; rw [h] at this; cases this

theorem not_shouldEncode_37 {S : List Nat} (hS : SafeSet S = true) : shouldEncode S 37 = false := by
  cases hc : shouldEncode S 37 with
  | false => rfl
  | true => exact absurd rfl (shouldEncode_props hS hc).2.1

theorem not_shouldEncode_hexDigitUpper {S : List Nat} (hS : SafeSet S = true) {n : Nat} (h : n < 16) :
    shouldEncode S (hexDigitUpper n) = false :=
  not_shouldEncode_of_hex hS (hexVal_hexDigitUpper h)

/-! ### pctEncode: structural lemmas -/

@[simp] theorem pctEncode_nil (S : List Nat) : pctEncode S [] = [] := rfl

theorem pctEncode_cons (S : List Nat) (b : Nat) (s : Bytes) :
    pctEncode S (b :: s) = encOne S b ++ pctEncode S s := by
  simp [pctEncode]

theorem pctEncode_append (S : List Nat) (s t : Bytes) :
    pctEncode S (s ++ t) = pctEncode S s ++ pctEncode S t := by
  simp [pctEncode]

theorem encOne_ne_nil (S : List Nat) (b : Nat) : encOne S b ≠ [] := by
  unfold encOne encByte; split <;> simp

theorem pctEncode_eq_nil {S : List Nat} {s : Bytes} : pctEncode S s = [] ↔ s = [] := by
  cases s with
  | nil => simp
  | cons b r =>
    simp only [pctEncode_cons, List.append_eq_nil_iff, reduceCtorEq, iff_false, not_and]
    intro h; exact absurd h (encOne_ne_nil S b)

theorem pctEncode_isEmpty (S : List Nat) (s : Bytes) : (pctEncode S s).isEmpty = s.isEmpty := by
  cases s with
  | nil => rfl
  | cons b r =>
    have : pctEncode S (b :: r) ≠ [] := fun h => by simpa using pctEncode_eq_nil.mp h
    cases hh : pctEncode S (b :: r) with
    | nil => exact absurd hh this
    | cons _ _ => rfl

/-- bytes of an encoded byte. -/
theorem mem_encByte {b x : Nat} (h : x ∈ encByte b) :
    x = 37 ∨ (48 ≤ x ∧ x ≤ 57) ∨ (65 ≤ x ∧ x ≤ 70) := by
  unfold encByte at h
  simp only [List.mem_cons, List.not_mem_nil, or_false] at h
  rcases h with h | h | h
  · exact Or.inl h
  · have := hexDigitUpper_range (n := b / 16 % 16) (by omega); omega
  · have := hexDigitUpper_range (n := b % 16) (by omega); omega

/-- A byte `c` that is neither `%` nor an upper-case hex digit occurs in the encoding only where it
occurs unencoded in the input. -/
theorem mem_pctEncode {S : List Nat} {s : Bytes} {c : Nat}
    (hc : c ≠ 37 ∧ ¬(48 ≤ c ∧ c ≤ 57) ∧ ¬(65 ≤ c ∧ c ≤ 70)) :
    c ∈ pctEncode S s ↔ c ∈ s ∧ shouldEncode S c = false := by
  induction s with
  | nil => simp
  | cons b r ih =>
    rw [pctEncode_cons, List.mem_append, ih]
    unfold encOne
    cases hb : shouldEncode S b with
    | true =>
      simp only [if_true, List.mem_cons]
      constructor
      · rintro (h | h)
        · have := mem_encByte h; omega
        · exact ⟨Or.inr h.1, h.2⟩
      · rintro ⟨h | h, h2⟩
        · subst h; rw [hb] at h2; cases h2
        · exact Or.inr ⟨h, h2⟩
    | false =>
      simp only [Bool.false_eq_true, if_false, List.mem_cons, List.not_mem_nil, or_false]
      constructor
      · rintro (h | h)
        · subst h; exact ⟨Or.inl rfl, hb⟩
        · exact ⟨Or.inr h.1, h.2⟩
      · rintro ⟨h | h, h2⟩
        · exact Or.inl h
        · exact Or.inr ⟨h, h2⟩

/-! ### pctDecode: unfolding lemmas -/

@[simp] theorem pctDecodeGo_nil (k : Nat) : pctDecodeGo k [] = [] := by
  cases k <;> rfl

@[simp] theorem pctDecodeGo_succ (k b : Nat) (r : Bytes) :
    pctDecodeGo (k + 1) (b :: r) = pctDecodeGo k r := rfl

theorem pctDecodeGo_zero_ne {b : Nat} (r : Bytes) (h : b ≠ 37) :
    pctDecodeGo 0 (b :: r) = b :: pctDecodeGo 0 r := by
  simp [pctDecodeGo, h]

theorem pctDecodeGo_zero_pct_some {r : Bytes} {v : Nat} (h : hexPair r = some v) :
    pctDecodeGo 0 (37 :: r) = v :: pctDecodeGo 2 r := by
  simp [pctDecodeGo, h]

theorem pctDecodeGo_zero_pct_none {r : Bytes} (h : hexPair r = none) :
    pctDecodeGo 0 (37 :: r) = 37 :: pctDecodeGo 0 r := by
  simp [pctDecodeGo, h]

theorem hexPair_cons2 {h l x y : Nat} (r : Bytes) (hx : hexVal h = some x) (hy : hexVal l = some y) :
    hexPair (h :: l :: r) = some (x * 16 + y) := by
  simp [hexPair, hx, hy]

theorem hexPair_eq_some {r : Bytes} {v : Nat} (h : hexPair r = some v) :
    ∃ a b r' x y, r = a :: b :: r' ∧ hexVal a = some x ∧ hexVal b = some y ∧ v = x * 16 + y := by
  match r, h with
  | a :: b :: r', h =>
    unfold hexPair at h
    cases hx : hexVal a with
    | none => simp [hx] at h
    | some x =>
      cases hy : hexVal b with
      | none => simp [hx, hy] at h
      | some y =>
        simp [hx, hy] at h
        exact ⟨a, b, r', x, y, rfl, hx, hy, h.symm⟩

theorem hexPair_none_of_head {a : Nat} (r : Bytes) (h : hexVal a = none) : hexPair (a :: r) = none := by
  cases r with
  | nil => rfl
  | cons b r' => simp [hexPair, h]

theorem hexPair_none_of_second {a b : Nat} (r : Bytes) (h : hexVal b = none) :
    hexPair (a :: b :: r) = none := by
  unfold hexPair; cases hexVal a <;> simp [h]

theorem hexVal_37 : hexVal 37 = none := by decide

/-- decoding an encoded byte gives the byte back. -/
theorem pctDecodeGo_encByte {b : Nat} (hb : b < 256) (r : Bytes) :
    pctDecodeGo 0 (encByte b ++ r) = b :: pctDecodeGo 0 r := by
  unfold encByte
  simp only [List.cons_append, List.nil_append]
  rw [pctDecodeGo_zero_pct_some
    (hexPair_cons2 r (hexVal_hexDigitUpper (n := b / 16 % 16) (by omega)) (hexVal_hexDigitUpper (n := b % 16) (by omega)))]
  simp only [pctDecodeGo_succ]
  congr 1; omega

/-! ### decode ∘ encode -/

/-- A byte map applied between encoding and decoding (`id`, or `+` ↦ space) that does not disturb
`%`, hex digits, or the bytes the set encodes. -/
structure DecMap (S : List Nat) (g : Nat → Nat) : Prop where
  g37 : ∀ b, g b = 37 ↔ b = 37
  ghex : ∀ b, hexVal (g b) = hexVal b
  genc : ∀ b, shouldEncode S b = true → g b = b
  gdig : ∀ n, n < 16 → g (hexDigitUpper n) = hexDigitUpper n

theorem DecMap.map_encByte {S g} (hg : DecMap S g) (b : Nat) : (encByte b).map g = encByte b := by
  unfold encByte
  simp only [List.map_cons, List.map_nil]
  rw [(hg.g37 37).mpr rfl, hg.gdig _ (by omega), hg.gdig _ (by omega)]

theorem hexPair_congr (a b : Nat) (r r' : Bytes) : hexPair (a :: b :: r) = hexPair (a :: b :: r') := by
  simp [hexPair]

theorem encOne_of_true {S : List Nat} {b : Nat} (h : shouldEncode S b = true) : encOne S b = encByte b := by
  simp [encOne, h]

theorem encOne_of_false {S : List Nat} {b : Nat} (h : shouldEncode S b = false) : encOne S b = [b] := by
  simp [encOne, h]

theorem encByte_eq (b : Nat) : encByte b = [37, hexDigitUpper (b / 16 % 16), hexDigitUpper (b % 16)] := rfl

/-- the two bytes that follow a `%` look the same (as a hex pair) before and after encoding. -/
theorem hexPair_enc_map {S g} (hS : SafeSet S = true) (hg : DecMap S g) (r : Bytes) :
    hexPair ((pctEncode S r).map g) = hexPair (r.map g) := by
  match r with
  | [] => rfl
  | [a] =>
    cases ha : shouldEncode S a with
    | true =>
      rw [pctEncode_cons, encOne_of_true ha, pctEncode_nil, List.append_nil, hg.map_encByte, encByte_eq]
      rw [hexPair_none_of_head _ hexVal_37]
      rfl
    | false =>
      rw [pctEncode_cons, encOne_of_false ha]; rfl
  | a :: c :: r' =>
    cases ha : shouldEncode S a with
    | true =>
      rw [pctEncode_cons, encOne_of_true ha, List.map_append, hg.map_encByte, encByte_eq]
      simp only [List.cons_append, List.nil_append, List.map_cons]
      rw [hexPair_none_of_head _ hexVal_37, hexPair_none_of_head]
      rw [hg.ghex]; exact (shouldEncode_props hS ha).1
    | false =>
      rw [pctEncode_cons, encOne_of_false ha]
      cases hc : shouldEncode S c with
      | true =>
        rw [pctEncode_cons, encOne_of_true hc]
        simp only [List.cons_append, List.nil_append, List.map_cons, List.map_append, encByte_eq]
        rw [(hg.g37 37).mpr rfl, hexPair_none_of_second _ hexVal_37, hexPair_none_of_second]
        rw [hg.ghex]; exact (shouldEncode_props hS hc).1
      | false =>
        rw [pctEncode_cons, encOne_of_false hc]
        simp only [List.cons_append, List.nil_append, List.map_cons]
        exact hexPair_congr _ _ _ _

theorem pctDecode_enc_map_aux {S g} (hS : SafeSet S = true) (hg : DecMap S g) :
    ∀ n (x : Bytes), x.length ≤ n → IsBytes x →
      pctDecodeGo 0 ((pctEncode S x).map g) = pctDecodeGo 0 (x.map g) := by
  intro n
  induction n with
  | zero =>
    intro x hx _
    have : x = [] := List.eq_nil_of_length_eq_zero (by omega)
    subst this; rfl
  | succ n ih =>
    intro x hx hb
    match x, hx, hb with
    | [], _, _ => rfl
    | b :: r, hx, hb =>
      have hlen : r.length ≤ n := by simp at hx; omega
      cases hbe : shouldEncode S b with
      | true =>
        rw [pctEncode_cons, encOne_of_true hbe, List.map_append, hg.map_encByte,
          pctDecodeGo_encByte hb.head, ih r hlen hb.tail, List.map_cons, hg.genc b hbe,
          pctDecodeGo_zero_ne _ (shouldEncode_props hS hbe).2.1]
      | false =>
        rw [pctEncode_cons, encOne_of_false hbe]
        simp only [List.cons_append, List.nil_append, List.map_cons]
        by_cases h37 : b = 37
        · subst h37
          rw [(hg.g37 37).mpr rfl]
          have hp := hexPair_enc_map hS hg r
          cases hpr : hexPair (r.map g) with
          | none =>
            rw [pctDecodeGo_zero_pct_none (hp.trans hpr), pctDecodeGo_zero_pct_none hpr, ih r hlen hb.tail]
          | some v =>
            rw [pctDecodeGo_zero_pct_some (hp.trans hpr), pctDecodeGo_zero_pct_some hpr]
            obtain ⟨a', c', r'', x', y', hr, hx', hy', _⟩ := hexPair_eq_some hpr
            match r, hr, hlen, hb with
            | a :: c :: r', hr, hlen, hb =>
              simp only [List.map_cons, List.cons.injEq] at hr
              obtain ⟨ha, hc, _⟩ := hr
              have hae : shouldEncode S a = false :=
                not_shouldEncode_of_hex hS (v := x') (by rw [← hg.ghex, ha]; exact hx')
              have hce : shouldEncode S c = false :=
                not_shouldEncode_of_hex hS (v := y') (by rw [← hg.ghex, hc]; exact hy')
              rw [pctEncode_cons, encOne_of_false hae, pctEncode_cons, encOne_of_false hce]
              simp only [List.cons_append, List.nil_append, List.map_cons, pctDecodeGo_succ]
              congr 1
              exact ih r' (by simp at hlen; omega) hb.tail.tail.tail
        · have : g b ≠ 37 := fun h => h37 ((hg.g37 b).mp h)
          rw [pctDecodeGo_zero_ne _ this, pctDecodeGo_zero_ne _ this, ih r hlen hb.tail]

theorem decMap_id (S : List Nat) : DecMap S id :=
  ⟨fun _ => Iff.rfl, fun _ => rfl, fun _ _ => rfl, fun _ _ => rfl⟩

/-- **decode ∘ encode = decode**, for every byte string: `utf8_percent_encode` leaves `%` alone, so
what was already an escape stays one, and every byte it does escape decodes back to itself. -/
theorem pctDecode_pctEncode {S : List Nat} (hS : SafeSet S = true) (x : Bytes) (hx : IsBytes x) :
    pctDecode (pctEncode S x) = pctDecode x := by
  have := pctDecode_enc_map_aux hS (decMap_id S) x.length x (Nat.le_refl _) hx
  simpa [pctDecode] using this

/-- a string without `%` decodes to itself. -/
theorem pctDecode_of_no_pct (x : Bytes) (h : 37 ∉ x) : pctDecode x = x := by
  unfold pctDecode
  induction x with
  | nil => rfl
  | cons b r ih =>
    have hb : b ≠ 37 := fun e => h (by simp [e])
    rw [pctDecodeGo_zero_ne _ hb, ih (fun e => h (List.mem_cons_of_mem _ e))]

/-- **decode ∘ encode = id** on strings without `%` (the exact condition: `%` is the one byte the
encoder passes through that the decoder interprets). -/
theorem pctDecode_pctEncode_id {S : List Nat} (hS : SafeSet S = true) (x : Bytes) (hx : IsBytes x)
    (h : 37 ∉ x) : pctDecode (pctEncode S x) = x := by
  rw [pctDecode_pctEncode hS x hx, pctDecode_of_no_pct x h]

/-! ### two encoding passes compose -/

theorem pctEncode_encByte {S : List Nat} (hS : SafeSet S = true) (b : Nat) :
    pctEncode S (encByte b) = encByte b := by
  unfold encByte
  simp only [pctEncode_cons, pctEncode_nil, List.append_nil]
  rw [encOne_of_false (not_shouldEncode_37 hS),
    encOne_of_false (not_shouldEncode_hexDigitUpper hS (n := b / 16 % 16) (by omega)),
    encOne_of_false (not_shouldEncode_hexDigitUpper hS (n := b % 16) (by omega))]
  rfl

/-- encoding with a smaller set and then with a larger one = encoding once with the larger one
(`%` and hex digits are in no set, so the escapes of the first pass survive the second). -/
theorem pctEncode_pctEncode {S0 S1 : List Nat} (hS1 : SafeSet S1 = true)
    (hsub : ∀ b, shouldEncode S0 b = true → shouldEncode S1 b = true) (x : Bytes) :
    pctEncode S1 (pctEncode S0 x) = pctEncode S1 x := by
  induction x with
  | nil => rfl
  | cons b r ih =>
    rw [pctEncode_cons, pctEncode_append, ih, pctEncode_cons]
    congr 1
    cases h0 : shouldEncode S0 b with
    | true => rw [encOne_of_true h0, pctEncode_encByte hS1, encOne_of_true (hsub b h0)]
    | false => rw [encOne_of_false h0, pctEncode_cons, pctEncode_nil, List.append_nil]

/-! ### splitting commutes with encoding -/

/-- a delimiter: not `%`, not an upper-case hex digit (so it never occurs inside an escape). -/
def IsDelim (c : Nat) : Prop := c ≠ 37 ∧ ¬(48 ≤ c ∧ c ≤ 57) ∧ ¬(65 ≤ c ∧ c ≤ 70)

theorem not_mem_encByte {c : Nat} (hc : IsDelim c) (b : Nat) : c ∉ encByte b := by
  intro h; have := mem_encByte h; unfold IsDelim at hc; omega

theorem splitFirst_append_of_not_mem (c : Nat) (p rest : Bytes) (h : c ∉ p) :
    splitFirst c (p ++ rest) = (p ++ (splitFirst c rest).1, (splitFirst c rest).2) := by
  induction p with
  | nil => rfl
  | cons a p ih =>
    have ha : a ≠ c := fun e => h (by simp [e])
    have := ih (fun e => h (List.mem_cons_of_mem _ e))
    simp only [List.cons_append, splitFirst, beq_iff_eq, ha, if_false, this]

theorem splitAll_append_of_not_mem (c : Nat) (p rest : Bytes) (h : c ∉ p) :
    splitAll c (p ++ rest) = (p ++ (splitAll c rest).1, (splitAll c rest).2) := by
  induction p with
  | nil => rfl
  | cons a p ih =>
    have ha : a ≠ c := fun e => h (by simp [e])
    have := ih (fun e => h (List.mem_cons_of_mem _ e))
    simp only [List.cons_append, splitAll, beq_iff_eq, ha, if_false, this]

theorem not_mem_encOne {S : List Nat} {c : Nat} (hc : IsDelim c) {b : Nat} (hbc : b ≠ c) :
    c ∉ encOne S b := by
  unfold encOne; split
  · exact not_mem_encByte hc b
  · simp; exact fun e => hbc e.symm

theorem splitFirst_pctEncode {S : List Nat} {c : Nat} (hc : IsDelim c) (hce : shouldEncode S c = false)
    (x : Bytes) :
    splitFirst c (pctEncode S x) =
      (pctEncode S (splitFirst c x).1, (splitFirst c x).2.map (pctEncode S)) := by
  induction x with
  | nil => rfl
  | cons b r ih =>
    rw [pctEncode_cons]
    by_cases hb : b = c
    · subst hb
      rw [encOne_of_false hce]
      simp [splitFirst]
    · rw [splitFirst_append_of_not_mem _ _ _ (not_mem_encOne hc hb), ih]
      simp [splitFirst, hb, pctEncode_cons]

theorem splitAll_pctEncode {S : List Nat} {c : Nat} (hc : IsDelim c) (hce : shouldEncode S c = false)
    (x : Bytes) :
    splitAll c (pctEncode S x) =
      (pctEncode S (splitAll c x).1, (splitAll c x).2.map (pctEncode S)) := by
  induction x with
  | nil => rfl
  | cons b r ih =>
    rw [pctEncode_cons]
    by_cases hb : b = c
    · subst hb
      rw [encOne_of_false hce]
      simp [splitAll, ih]
    · rw [splitAll_append_of_not_mem _ _ _ (not_mem_encOne hc hb), ih]
      simp [splitAll, hb, pctEncode_cons]

theorem pieces_pctEncode {S : List Nat} {c : Nat} (hc : IsDelim c) (hce : shouldEncode S c = false)
    (x : Bytes) : pieces c (pctEncode S x) = (pieces c x).map (pctEncode S) := by
  simp [pieces, splitAll_pctEncode hc hce]

theorem isDelim_38 : IsDelim 38 := by unfold IsDelim; omega
theorem isDelim_61 : IsDelim 61 := by unfold IsDelim; omega
theorem isDelim_63 : IsDelim 63 := by unfold IsDelim; omega
theorem isDelim_35 : IsDelim 35 := by unfold IsDelim; omega
theorem isDelim_43 : IsDelim 43 := by unfold IsDelim; omega

theorem not_shouldEncode_delim {S : List Nat} (hS : SafeSet S = true) {c : Nat}
    (hc : c = 38 ∨ c = 61 ∨ c = 63) : shouldEncode S c = false := by
  cases h : shouldEncode S c with
  | false => rfl
  | true => have := shouldEncode_props hS h; omega

/-! ### form decoding of a sanitised piece -/

theorem decMap_plus {S : List Nat} (h43 : shouldEncode S 43 = false) : DecMap S plusToSpace := by
  refine ⟨?_, ?_, ?_, ?_⟩
  · intro b; unfold plusToSpace; split
    · rename_i h; simp at h; omega
    · exact Iff.rfl
  · intro b; unfold plusToSpace; split
    · rename_i h; simp at h; subst h; decide
    · rfl
  · intro b hb; unfold plusToSpace; split
    · rename_i h; simp at h; subst h; rw [h43] at hb; cases hb
    · rfl
  · intro n hn; unfold plusToSpace; split
    · rename_i h; simp at h; have := hexDigitUpper_range hn; omega
    · rfl

/-- `form_urlencoded::decode` does not see the sanitising pass (any set without `+`). -/
theorem decodeForm_pctEncode {S : List Nat} (hS : SafeSet S = true) (h43 : shouldEncode S 43 = false)
    (x : Bytes) (hx : IsBytes x) : decodeForm (pctEncode S x) = decodeForm x := by
  unfold decodeForm pctDecode
  rw [pctDecode_enc_map_aux hS (decMap_plus h43) x.length x (Nat.le_refl _) hx]

theorem IsBytes_splitFirst {c : Nat} {x : Bytes} (hx : IsBytes x) :
    IsBytes (splitFirst c x).1 ∧ ∀ r, (splitFirst c x).2 = some r → IsBytes r := by
  induction x with
  | nil => exact ⟨isBytes_nil, fun r h => nomatch h⟩
  | cons b r ih =>
    have := ih hx.tail
    by_cases hb : b = c
    · simp only [splitFirst, hb, beq_self_eq_true, if_true]
      exact ⟨isBytes_nil, fun r' h => by cases h; exact hx.tail⟩
    · simp only [splitFirst, beq_iff_eq, hb, if_false]
      refine ⟨?_, this.2⟩
      intro y hy
      rcases List.mem_cons.mp hy with h | h
      · subst h; exact hx.head
      · exact this.1 y h

theorem parsePair_pctEncode {S : List Nat} (hS : SafeSet S = true) (h43 : shouldEncode S 43 = false)
    (seg : Bytes) (hx : IsBytes seg) : parsePair (pctEncode S seg) = parsePair seg := by
  unfold parsePair
  rw [splitFirst_pctEncode isDelim_61 (not_shouldEncode_delim hS (by omega))]
  have hb := IsBytes_splitFirst (c := 61) hx
  simp only
  rw [decodeForm_pctEncode hS h43 _ hb.1]
  cases h2 : (splitFirst 61 seg).2 with
  | none => rfl
  | some r =>
    simp only [Option.map_some, Option.getD_some]
    rw [decodeForm_pctEncode hS h43 _ (hb.2 r h2)]

theorem IsBytes_splitAll {c : Nat} {x : Bytes} (hx : IsBytes x) :
    IsBytes (splitAll c x).1 ∧ ∀ r ∈ (splitAll c x).2, IsBytes r := by
  induction x with
  | nil => exact ⟨isBytes_nil, fun r h => nomatch h⟩
  | cons b r ih =>
    have := ih hx.tail
    by_cases hb : b = c
    · simp only [splitAll, hb, beq_self_eq_true, if_true]
      refine ⟨isBytes_nil, ?_⟩
      intro r' h
      rcases List.mem_cons.mp h with h | h
      · subst h; exact this.1
      · exact this.2 r' h
    · simp only [splitAll, beq_iff_eq, hb, if_false]
      refine ⟨?_, this.2⟩
      intro y hy
      rcases List.mem_cons.mp hy with h | h
      · subst h; exact hx.head
      · exact this.1 y h

theorem IsBytes_pieces {c : Nat} {x : Bytes} (hx : IsBytes x) : ∀ r ∈ pieces c x, IsBytes r := by
  intro r hr
  unfold pieces at hr
  rcases List.mem_cons.mp hr with h | h
  · subst h; exact (IsBytes_splitAll hx).1
  · exact (IsBytes_splitAll hx).2 r h

/-- **the request side parses the sanitised query to the same parameters as the rule side parses
the raw query.** -/
theorem parseQuery_pctEncode {S : List Nat} (hS : SafeSet S = true) (h43 : shouldEncode S 43 = false)
    (q : Bytes) (hq : IsBytes q) : parseQuery (pctEncode S q) = parseQuery q := by
  unfold parseQuery
  rw [pieces_pctEncode isDelim_38 (not_shouldEncode_delim hS (by omega)), List.filter_map, List.map_map]
  have : ((fun s : Bytes => !s.isEmpty) ∘ pctEncode S) = (fun s : Bytes => !s.isEmpty) := by
    funext s; simp [pctEncode_isEmpty]
  rw [this]
  apply List.map_congr_left
  intro seg hseg
  exact parsePair_pctEncode hS h43 seg (IsBytes_pieces hq seg (List.mem_filter.mp hseg).1)

end Rio.Url
