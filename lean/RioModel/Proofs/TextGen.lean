/-
The text body filter TRANSLATED FROM THE SOURCE on every run (`Rio.Consts.genTextFilterReplace / Append /
Prepend`, `genTextEnd`; tools/consts.d/w4_translate.py) against W6's model (Model/Filter.lean):
`genFilterText = filterText`, `genEndText = endText`, and the whole chain run with the generated stage
functions (`Chain.runG`, a copy of W6's chain with only the text stage replaced) equals `Chain.run`.
-/
import RioModel.Model.Filter
set_option linter.unusedSimpArgs false
set_option linter.unusedVariables false

namespace Rio.Filter
open Rio.Consts

/-- `TextFilterBodyAction::filter` assembled from the three translated arms of `match self.action` -/
def genFilterText (s : TextSt) (data : Bytes) : TextSt × Bytes :=
  let r :=
    match s.action with
    | .replace => genTextFilterReplace s.content s.executed data
    | .append => genTextFilterAppend s.content s.executed data
    | .prepend => genTextFilterPrepend s.content s.executed data
  ({ s with executed := r.1 }, r.2)

/-- `TextFilterBodyAction::end` from the translated body -/
def genEndText (s : TextSt) : TextSt × Bytes :=
  let r := genTextEnd s.content s.executed
  ({ s with executed := r.1 }, r.2)

theorem genFilterText_eq (s : TextSt) (data : Bytes) : genFilterText s data = filterText s data := by
  obtain ⟨a, c, e⟩ := s
  cases a <;> cases e <;>
    simp [genFilterText, filterText, genTextFilterReplace, genTextFilterAppend, genTextFilterPrepend]

theorem genEndText_eq (s : TextSt) : genEndText s = endText s := by
  obtain ⟨a, c, e⟩ := s
  cases e <;> simp [genEndText, endText, genTextEnd]

/-! ### the chain with the generated text stage -/

section
variable (tk : Tokenize) (evaluate : Bytes → Bytes → Bool)
variable {D E : Type} (codec : Codec D E)

/-- `FilterBodyActionItem::filter`, text stage from the generated code -/
def Stage.filterG (st : Stage D E) (data : Bytes) : Option (Stage D E × Bytes) :=
  match st with
  | .text s => let (s', o) := genFilterText s data; some (.text s', o)
  | st => st.filter tk evaluate codec data

/-- `FilterBodyActionItem::end`, text stage from the generated code -/
def Stage.endG (st : Stage D E) : Option (Stage D E × Bytes) :=
  match st with
  | .text s => let (s', o) := genEndText s; some (.text s', o)
  | st => st.end codec

theorem Stage.filterG_eq (st : Stage D E) (data : Bytes) :
    st.filterG tk evaluate codec data = st.filter tk evaluate codec data := by
  cases st <;> simp [Stage.filterG, Stage.filter, genFilterText_eq]

theorem Stage.endG_eq (st : Stage D E) : st.endG codec = st.end codec := by
  cases st <;> simp [Stage.endG, Stage.end, genEndText_eq]

/-- `do_filter` over the generated stage function -/
def doFilterG : List (Stage D E) → Bytes → List (Stage D E) × Option Bytes
  | [], data => ([], some data)
  | st :: rest, data =>
    match st.filterG tk evaluate codec data with
    | none => (st :: rest, none)
    | some (st', out) =>
      if out.isEmpty then (st' :: rest, some out)
      else
        let (rest', r) := doFilterG rest out
        (st' :: rest', r)

theorem doFilterG_eq (items : List (Stage D E)) (data : Bytes) :
    doFilterG tk evaluate codec items data = doFilter tk evaluate codec items data := by
  induction items generalizing data with
  | nil => rfl
  | cons st rest ih =>
    simp only [doFilterG, doFilter, Stage.filterG_eq]
    cases st.filter tk evaluate codec data with
    | none => rfl
    | some p =>
      obtain ⟨st', out⟩ := p
      simp only [ih]

/-- one stage of `do_end` over the generated stage functions -/
def Stage.endWithG (st : Stage D E) (data : Option Bytes) : Stage D E × Option Bytes :=
  match data with
  | none =>
    match st.endG codec with
    | none => (st, none)
    | some (st', o) => (st', some o)
  | some str =>
    match st.filterG tk evaluate codec str with
    | none => (st, none)
    | some (st1, o1) =>
      match st1.endG codec with
      | none => (st1, none)
      | some (st2, o2) => (st2, some (o1 ++ o2))

theorem Stage.endWithG_eq (st : Stage D E) (data : Option Bytes) :
    st.endWithG tk evaluate codec data = st.endWith tk evaluate codec data := by
  cases data with
  | none =>
    simp only [Stage.endWithG, Stage.endWith, Stage.endG_eq]
    cases st.end codec with
    | none => rfl
    | some p => obtain ⟨a, b⟩ := p; rfl
  | some str =>
    simp only [Stage.endWithG, Stage.endWith, Stage.filterG_eq]
    cases st.filter tk evaluate codec str with
    | none => rfl
    | some p =>
      obtain ⟨st1, o1⟩ := p
      simp only [Stage.endG_eq]
      cases st1.end codec with
      | none => rfl
      | some q => obtain ⟨a, b⟩ := q; rfl

/-- `do_end` over the generated stage functions -/
def doEndG : List (Stage D E) → Option Bytes → List (Stage D E) × Except Bytes (Option Bytes)
  | [], data => ([], .ok data)
  | st :: rest, data =>
    match st.endWithG tk evaluate codec data with
    | (st', none) => (st' :: rest, .error (flushHtml (st' :: rest) ++ data.getD []))
    | (st', some newData) =>
      let (rest', r) := doEndG rest (if newData.isEmpty then none else some newData)
      (st' :: rest', r)

theorem doEndG_eq (items : List (Stage D E)) (data : Option Bytes) :
    doEndG tk evaluate codec items data = doEnd tk evaluate codec items data := by
  induction items generalizing data with
  | nil => rfl
  | cons st rest ih =>
    simp only [doEndG, doEnd, Stage.endWithG_eq]
    cases h : st.endWith tk evaluate codec data with
    | mk st' o =>
      cases o with
      | none => rfl
      | some nd => simp only [ih]

/-- `FilterBodyAction::filter` over the generated stage functions -/
def Chain.filterG (c : Chain D E) (data : Bytes) : Chain D E × Bytes :=
  if c.inError then (c, data)
  else
    match doFilterG tk evaluate codec c.items data with
    | (items', some out) => ({ c with items := items' }, out)
    | (items', none) => ({ items := items', inError := true }, flushHtml items' ++ data)

/-- `FilterBodyAction::end` over the generated stage functions -/
def Chain.endG (c : Chain D E) : Chain D E × Bytes :=
  if c.inError then (c, [])
  else
    match doEndG tk evaluate codec c.items none with
    | (items', .ok out) => ({ c with items := items' }, out.getD [])
    | (items', .error passthrough) => ({ items := items', inError := true }, passthrough)

theorem Chain.filterG_eq (c : Chain D E) (data : Bytes) :
    c.filterG tk evaluate codec data = c.filter tk evaluate codec data := by
  simp only [Chain.filterG, Chain.filter, doFilterG_eq]
  split
  · rfl
  · cases doFilter tk evaluate codec c.items data with
    | mk items' o => cases o <;> rfl

theorem Chain.endG_eq (c : Chain D E) : c.endG tk evaluate codec = c.end tk evaluate codec := by
  simp only [Chain.endG, Chain.end, doEndG_eq]
  split
  · rfl
  · cases doEnd tk evaluate codec c.items none with
    | mk items' o => cases o <;> rfl

def Chain.feedG (c : Chain D E) : List Bytes → Chain D E × List Bytes
  | [] => (c, [])
  | x :: xs =>
    let (c1, o) := c.filterG tk evaluate codec x
    let (c2, os) := c1.feedG xs
    (c2, o :: os)

theorem Chain.feedG_eq (c : Chain D E) (chunks : List Bytes) :
    c.feedG tk evaluate codec chunks = c.feed tk evaluate codec chunks := by
  induction chunks generalizing c with
  | nil => rfl
  | cons x xs ih => simp only [Chain.feedG, Chain.feed, Chain.filterG_eq, ih]

/-- what a client observes when every text stage runs the code translated from the source -/
def Chain.runG (c : Chain D E) (chunks : List Bytes) : Bytes :=
  let (c1, os) := c.feedG tk evaluate codec chunks
  os.flatten ++ (c1.endG tk evaluate codec).2

theorem Chain.runG_eq (c : Chain D E) (chunks : List Bytes) :
    c.runG tk evaluate codec chunks = c.run tk evaluate codec chunks := by
  simp only [Chain.runG, Chain.run, Chain.runOuts, Chain.feedG_eq, Chain.endG_eq]

end
end Rio.Filter
