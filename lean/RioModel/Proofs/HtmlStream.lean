/-
Stream laws of the tokenizer model (for C03, owner W6): the tokenizer reads its buffer only through `read_byte`
at positions below the final `raw.end`, so (1) a token that was produced without hitting EOF is produced
identically when bytes are appended to the buffer (PREFIX STABILITY), and (2) a tokenizer positioned at a token
boundary outside a raw-text context behaves like a fresh tokenizer on the remaining bytes, positions shifted
(RESTART).  Both are instances of one simulation: `Core F p t u` relates a state `t` to a state `u` whose buffer is
the window of `t`'s buffer starting at `p` (`F` = "the two buffers end at the same place").
-/
import RioModel.Proofs.HtmlNext
set_option linter.unusedSimpArgs false
set_option linter.unusedVariables false

namespace Rio.Html
namespace Tokenizer
open Rio.Consts

/-! ### `err` is sticky -/

theorem readByte_err (t : Tokenizer) (h : t.err = true) : t.readByte.1.err = true := by
  unfold readByte; split <;> simp [h]

@[simp] theorem unread_err (t : Tokenizer) (k : Nat) : (t.unread k).err = t.err := by
  unfold unread; split <;> rfl

@[simp] theorem setDataEndBack_err (t : Tokenizer) (k : Nat) : (t.setDataEndBack k).err = t.err := by
  unfold setDataEndBack; split <;> rfl

theorem skipWsGo_err (t : Tokenizer) (h : t.err = true) : (skipWsGo t).err = true := by
  fun_induction skipWsGo t <;> simp_all +zetaDelta [readByte_err]

theorem commentGo_err (t : Tokenizer) (d : Nat) (h : t.err = true) : (commentGo t d).err = true := by
  fun_induction commentGo t d <;> simp_all +zetaDelta [readByte_err]

theorem scriptGo_err (st : SS) (t : Tokenizer) (h : t.err = true) : (scriptGo st t).err = true := by
  fun_induction scriptGo st t <;> simp_all +zetaDelta [readByte_err]

end Tokenizer
end Rio.Html
