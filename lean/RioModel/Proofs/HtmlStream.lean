/-
Stream laws of the tokenizer model (for C03, owner W6): the tokenizer reads its buffer only through `read_byte`
at positions below the final `raw.end`, so (1) a token that was produced without hitting EOF is produced
identically when bytes are appended to the buffer (PREFIX STABILITY), and (2) a tokenizer positioned at a token
boundary outside a raw-text context behaves like a fresh tokenizer on the remaining bytes, positions shifted
(RESTART).  Both are instances of one simulation: `Core F p t u` relates a state `t` to a state `u` whose buffer is
the window of `t`'s buffer starting at `p` (`F` = "the two buffers end at the same place").

This file: the relation, stickiness of `err`, and the simulation for every helper below `next`.
-/
import RioModel.Proofs.HtmlNext
set_option linter.unusedSimpArgs false
set_option linter.unusedVariables false

namespace Rio.Html
namespace Tokenizer
open Rio.Consts

/-- `u`'s buffer is the window of `t`'s buffer that starts at `p`; all live span fields are shifted by `p`; the
control fields agree.  `F` ("full") = the window reaches the end of `t`'s buffer, so EOF is hit simultaneously.
Not related (stale between tokens, or rebuilt by `read_tag`): `token`, the attribute fields, `text_is_raw`,
`convert_null`. -/
structure Core (F : Prop) (p : Nat) (t u : Tokenizer) : Prop where
  size : p + u.buf.size ≤ t.buf.size
  agree : ∀ i, i < u.buf.size → t.buf[p + i]? = u.buf[i]?
  full : F → p + u.buf.size = t.buf.size
  rawS : t.rawS = p + u.rawS
  rawE : t.rawE = p + u.rawE
  dataS : t.dataS = p + u.dataS
  dataE : t.dataE = p + u.dataE
  err : t.err = u.err
  rawTag : t.rawTag = u.rawTag
  cdata : t.allowCdata = u.allowCdata
  panic : t.panic = u.panic
  hang : t.hang = u.hang
  utf8 : t.utf8Err = u.utf8Err

/-- the fields `Core` talks about -/
def live (t : Tokenizer) : Array Nat × Nat × Nat × Nat × Nat × Bool × List Nat × Bool × Bool × Bool × Bool :=
  (t.buf, t.rawS, t.rawE, t.dataS, t.dataE, t.err, t.rawTag, t.allowCdata, t.panic, t.hang, t.utf8Err)

theorem Core.congr {F : Prop} {p : Nat} {t u t' u' : Tokenizer} (c : Core F p t u)
    (ht : live t' = live t) (hu : live u' = live u) : Core F p t' u' := by
  simp only [live, Prod.mk.injEq] at ht hu
  obtain ⟨a1, a2, a3, a4, a5, a6, a7, a8, a9, a10, a11⟩ := ht
  obtain ⟨b1, b2, b3, b4, b5, b6, b7, b8, b9, b10, b11⟩ := hu
  exact ⟨by rw [a1, b1]; exact c.size, by rw [a1, b1]; exact c.agree, by rw [a1, b1]; exact c.full,
    by rw [a2, b2]; exact c.rawS, by rw [a3, b3]; exact c.rawE, by rw [a4, b4]; exact c.dataS,
    by rw [a5, b5]; exact c.dataE, by rw [a6, b6]; exact c.err, by rw [a7, b7]; exact c.rawTag,
    by rw [a8, b8]; exact c.cdata, by rw [a9, b9]; exact c.panic, by rw [a10, b10]; exact c.hang,
    by rw [a11, b11]; exact c.utf8⟩

open Lean Parser Tactic in
syntax "sif" " [" (simpStar <|> simpErase <|> simpLemma),* "]" (location)? : tactic
macro_rules
  | `(tactic| sif [$ts,*] $[$loc]?) =>
    `(tactic| simp only [$ts,*, Bool.false_eq_true, if_false, if_true, dite_false, dite_true, ↓reduceIte, ↓reduceDIte,
        Bool.not_true, Bool.not_false, Bool.true_eq_false] $[$loc]?)

-- close a `Core` goal with `x`, up to rewriting of field values by hypotheses
set_option hygiene false in
local macro "fin " x:term : tactic =>
  `(tactic| first
    | exact $x
    | (refine Core.congr $x ?_ ?_ <;> (simp [live, *]; done))
    | (refine Core.congr $x ?_ ?_ <;> (simp [live, rb.1.err, *]; done))
    | (refine Core.congr $x ?_ ?_ <;> (simp [live, rb.1.err, rb2.1.err, *]; done)))

local macro "tr" : tactic => `(tactic| first | trivial | rfl)
local macro "lrfl" : tactic => `(tactic| first | (simp [live, pushPending]; done) | rfl)

/-- "the window reaches the end, or `x` has not hit EOF" -/
abbrev EO (F : Prop) (x : Tokenizer) : Prop := F ∨ x.err = false

theorem EO.back {F : Prop} {x y : Tokenizer} (e : EO F y) (sticky : x.err = true → y.err = true) : EO F x := by
  rcases e with f | e
  · exact Or.inl f
  · refine Or.inr ?_
    cases hx : x.err with
    | false => rfl
    | true => rw [sticky hx] at e; cases e

/-! ### primitives -/

theorem readByte_sim {F : Prop} {p : Nat} {t u : Tokenizer} (c : Core F p t u) (e : EO F u.readByte.1) :
    Core F p t.readByte.1 u.readByte.1 ∧ t.readByte.2 = u.readByte.2 := by
  unfold readByte at e ⊢
  by_cases hu : u.rawE < u.buf.size
  · have ht : t.rawE < t.buf.size := by have := c.size; have := c.rawE; omega
    simp only [hu, ht, dite_true]
    have hb : t.buf[t.rawE] = u.buf[u.rawE] := by
      have := c.agree u.rawE hu
      rw [← c.rawE] at this
      simp only [Array.getElem?_eq_getElem ht, Array.getElem?_eq_getElem hu, Option.some.injEq] at this
      exact this
    exact ⟨⟨c.size, c.agree, c.full, c.rawS, by simp only; have := c.rawE; omega, c.dataS, c.dataE, c.err, c.rawTag,
      c.cdata, c.panic, c.hang, c.utf8⟩, hb⟩
  · simp only [hu, dite_false] at e ⊢
    have f : F := by
      rcases e with f | e
      · exact f
      · simp at e
    have ht : ¬ t.rawE < t.buf.size := by have := c.full f; have := c.rawE; omega
    simp only [ht, dite_false]
    exact ⟨⟨c.size, c.agree, c.full, c.rawS, c.rawE, c.dataS, c.dataE, by first | trivial | rfl, c.rawTag, c.cdata, c.panic, c.hang, c.utf8⟩, by first | trivial | rfl⟩

theorem unread_sim {F : Prop} {p : Nat} {t u : Tokenizer} (k : Nat) (c : Core F p t u) (hk : k ≤ u.rawE) :
    Core F p (t.unread k) (u.unread k) := by
  unfold unread
  have hk' : k ≤ t.rawE := by have := c.rawE; omega
  simp only [hk, hk', if_true]
  exact ⟨c.size, c.agree, c.full, c.rawS, by simp only; have := c.rawE; omega, c.dataS, c.dataE, c.err, c.rawTag,
    c.cdata, c.panic, c.hang, c.utf8⟩

theorem setDataEndBack_sim {F : Prop} {p : Nat} {t u : Tokenizer} (k : Nat) (c : Core F p t u) (hk : k ≤ u.rawE) :
    Core F p (t.setDataEndBack k) (u.setDataEndBack k) := by
  unfold setDataEndBack
  have hk' : k ≤ t.rawE := by have := c.rawE; omega
  simp only [hk, hk', if_true]
  exact ⟨c.size, c.agree, c.full, c.rawS, c.rawE, c.dataS, by simp only; have := c.rawE; omega, c.err, c.rawTag,
    c.cdata, c.panic, c.hang, c.utf8⟩

/-! ### `err` is sticky -/

theorem readByte_err (t : Tokenizer) (h : t.err = true) : t.readByte.1.err = true := by
  unfold readByte; split <;> simp [h]

@[simp] theorem unread_err (t : Tokenizer) (k : Nat) : (t.unread k).err = t.err := by
  unfold unread; split <;> rfl

@[simp] theorem setDataEndBack_err (t : Tokenizer) (k : Nat) : (t.setDataEndBack k).err = t.err := by
  unfold setDataEndBack; split <;> rfl

theorem skipWsGo_err (t : Tokenizer) (h : t.err = true) : (skipWsGo t).err = true := by
  fun_induction skipWsGo t <;> simp_all +zetaDelta [readByte_err]

theorem skipWhiteSpace_err (t : Tokenizer) (h : t.err = true) : (skipWhiteSpace t).err = true := by
  unfold skipWhiteSpace; simp [h]

theorem rawEndTagLoop_err (t : Tokenizer) (cs : List Nat) (h : t.err = true) : (rawEndTagLoop t cs).1.err = true := by
  induction cs generalizing t with
  | nil => simpa [rawEndTagLoop] using h
  | cons c cs ih =>
    simp only [rawEndTagLoop]
    have := readByte_err t h
    (repeat' split) <;> simp_all

theorem readRawEndTag_err (t : Tokenizer) (h : t.err = true) : (readRawEndTag t).1.err = true := by
  unfold readRawEndTag
  simp only
  have h1 := rawEndTagLoop_err t t.rawTag h
  have h2 := readByte_err _ h1
  (repeat' split) <;> simp_all

theorem dblEscLoop_err (t : Tokenizer) (cs : List (Nat × Nat)) (h : t.err = true) : (dblEscLoop t cs).1.err = true := by
  induction cs generalizing t with
  | nil => simpa [dblEscLoop] using h
  | cons c cs ih =>
    obtain ⟨lo, up⟩ := c
    simp only [dblEscLoop]
    have := readByte_err t h
    (repeat' split) <;> simp_all

@[simp] theorem addRawE_err (t : Tokenizer) (k : Nat) : (t.addRawE k).err = t.err := rfl

theorem scriptGo_err (st : SS) (t : Tokenizer) (h : t.err = true) : (scriptGo st t).err = true := by
  fun_induction scriptGo st t <;> simp_all +zetaDelta [readByte_err, readRawEndTag_err, dblEscLoop_err]

theorem rawTextGo_err (t : Tokenizer) (h : t.err = true) : (rawTextGo t).err = true := by
  fun_induction rawTextGo t <;> simp_all +zetaDelta [readByte_err, readRawEndTag_err]

theorem readToEnd_err' (t : Tokenizer) (h : t.err = true) : (readToEnd t).err = true := readToEnd_err t

theorem commentGo_err (t : Tokenizer) (d : Nat) (h : t.err = true) : (commentGo t d).err = true := by
  fun_induction commentGo t d <;> simp_all +zetaDelta [readByte_err]

theorem readComment_err (t : Tokenizer) (h : t.err = true) : (readComment t).err = true := by
  unfold readComment
  have := commentGo_err { t with dataS := t.rawE } 2 h
  simp only
  split <;> simp_all

theorem untilCloseAngleGo_err (t : Tokenizer) (h : t.err = true) : (untilCloseAngleGo t).err = true := by
  fun_induction untilCloseAngleGo t <;> simp_all +zetaDelta [readByte_err]

theorem readUntilCloseAngle_err (t : Tokenizer) (h : t.err = true) : (readUntilCloseAngle t).err = true :=
  untilCloseAngleGo_err _ h

theorem declLoop_err (t : Tokenizer) (cs : List (Nat × Nat)) (h : t.err = true) : (declLoop t cs).1.err = true := by
  induction cs generalizing t with
  | nil => simpa [declLoop] using h
  | cons c cs ih =>
    obtain ⟨c, c'⟩ := c
    simp only [declLoop]
    have := readByte_err t h
    (repeat' split) <;> simp_all

theorem readDocType_err (t : Tokenizer) (h : t.err = true) : (readDocType t).1.err = true := by
  unfold readDocType
  simp only
  have h1 := declLoop_err t htmlDoctypePat h
  have h2 := skipWhiteSpace_err _ h1
  have h3 := readUntilCloseAngle_err _ h2
  (repeat' split) <;> simp_all

theorem cdataGo_err (t : Tokenizer) (b : Nat) (h : t.err = true) : (cdataGo t b).err = true := by
  fun_induction cdataGo t b <;> simp_all +zetaDelta [readByte_err]

theorem readCdata_err (t : Tokenizer) (h : t.err = true) : (readCdata t).1.err = true := by
  unfold readCdata
  simp only
  have h1 := declLoop_err t htmlCdataPat h
  have h2 := cdataGo_err { (declLoop t htmlCdataPat).1 with dataS := (declLoop t htmlCdataPat).1.rawE } 0 h1
  split <;> simp_all

theorem markupRest_err (t : Tokenizer) (h : t.err = true) : (markupRest t).1.err = true := by
  unfold markupRest
  simp only
  have h1 := readDocType_err t h
  have h2 := readCdata_err _ h1
  have h3 := readUntilCloseAngle_err _ h2
  have h4 := readUntilCloseAngle_err _ h1
  (repeat' split) <;> simp_all

theorem markupGo_err (t : Tokenizer) (h : t.err = true) : (markupGo t).1.err = true := by
  unfold markupGo
  simp only
  have h1 := readByte_err t h
  have h2 := readByte_err _ h1
  have h3 := readComment_err _ h2
  have h4 := markupRest_err (t.readByte.1.readByte.1.unread 2) (by simpa using h2)
  (repeat' split) <;> simp_all

theorem readMarkupDeclaration_err (t : Tokenizer) (h : t.err = true) : (readMarkupDeclaration t).1.err = true :=
  markupGo_err _ h

theorem tagNameGo_err (t : Tokenizer) (h : t.err = true) : (tagNameGo t).err = true := by
  fun_induction tagNameGo t <;> simp_all +zetaDelta [readByte_err]

theorem readTagName_err (t : Tokenizer) (h : t.err = true) : (readTagName t).err = true := by
  unfold readTagName
  split
  · exact h
  · exact tagNameGo_err _ h

theorem attrKeyGo_err (t : Tokenizer) (h : t.err = true) : (attrKeyGo t).err = true := by
  fun_induction attrKeyGo t <;> simp_all +zetaDelta [readByte_err]

theorem readTagAttrKey_err (t : Tokenizer) (h : t.err = true) : (readTagAttrKey t).err = true :=
  attrKeyGo_err _ h

theorem attrValQuotedGo_err (t : Tokenizer) (q : Nat) (h : t.err = true) : (attrValQuotedGo t q).err = true := by
  fun_induction attrValQuotedGo t q <;> simp_all +zetaDelta [readByte_err]

theorem attrValUnquotedGo_err (t : Tokenizer) (h : t.err = true) : (attrValUnquotedGo t).err = true := by
  fun_induction attrValUnquotedGo t <;> simp_all +zetaDelta [readByte_err]

theorem attrValRest_err (t : Tokenizer) (h : t.err = true) : (attrValRest t).err = true := by
  unfold attrValRest
  simp only
  have h1 := skipWhiteSpace_err t h
  simp [h1]

theorem attrValRest_err' (t : Tokenizer) (h : t.skipWhiteSpace.err = true) : (attrValRest t).err = true := by
  unfold attrValRest; simp [h]

theorem attrValGo_err' (t : Tokenizer) (h : t.skipWhiteSpace.err = true) : (attrValGo t).err = true := by
  unfold attrValGo; simp [h]

theorem attrValGo_err (t : Tokenizer) (h : t.err = true) : (attrValGo t).err = true := by
  unfold attrValGo
  simp only
  have h1 := skipWhiteSpace_err t h
  simp [h1]

theorem readTagAttrVal_err (t : Tokenizer) (h : t.err = true) : (readTagAttrVal t).err = true :=
  attrValGo_err _ h

theorem readAttr_err (t : Tokenizer) (s : Bool) (h : t.err = true) : (readAttr t s).err = true := by
  unfold readAttr
  simp only
  have h1 := readTagAttrVal_err _ (readTagAttrKey_err t h)
  split
  · exact skipWhiteSpace_err _ h1
  · exact skipWhiteSpace_err _ h1

theorem tagAttrsGo_err (t : Tokenizer) (s : Bool) (h : t.err = true) : (tagAttrsGo t s).err = true := by
  fun_induction tagAttrsGo t s <;> simp_all +zetaDelta [readByte_err, readAttr_err]

theorem readTag_err (t : Tokenizer) (s : Bool) (h : t.err = true) : (readTag t s).err = true := by
  unfold readTag
  simp only
  have h1 := skipWhiteSpace_err _ (readTagName_err { t with attrs := #[], nAttrRet := 0 } h)
  simp [h1]

/-! ### `skip_white_space` -/

theorem skipWsGo_sim {F : Prop} {p : Nat} (t u : Tokenizer) (c : Core F p t u) (ok : Ok u) (e : EO F (skipWsGo u)) :
    Core F p (skipWsGo t) (skipWsGo u) := by
  fun_induction skipWsGo u generalizing t
  all_goals (try simp +zetaDelta only at *)
  case case1 u _ herr =>
    have rb := readByte_sim c e
    rw [skipWsGo]
    simp only [rb.1.err, herr, dite_true]
    exact rb.1
  case case2 u _ herr hws ih =>
    have rb := readByte_sim c (e.back (skipWsGo_err _))
    rw [skipWsGo]
    simp only [rb.1.err, herr, rb.2, hws, dite_false, if_true]
    exact ih _ rb.1 (readByte_adv ok).ok e
  case case3 u _ herr hws =>
    have rb := readByte_sim c (by have := e; simp only [EO, unread_err] at this; exact this)
    rw [skipWsGo]
    simp only [rb.1.err, herr, rb.2, hws, dite_false, if_false]
    exact unread_sim 1 rb.1 (readByte_pos herr)

theorem skipWhiteSpace_sim {F : Prop} {p : Nat} (t u : Tokenizer) (c : Core F p t u) (ok : Ok u)
    (e : EO F (skipWhiteSpace u)) : Core F p (skipWhiteSpace t) (skipWhiteSpace u) := by
  unfold skipWhiteSpace at e ⊢
  rw [c.err]
  split
  · exact c
  · rename_i h
    simp only [h] at e
    exact skipWsGo_sim t u c ok e

/-! ### raw text -/

theorem rawEndTagLoop_sim {F : Prop} {p : Nat} (cs : List Nat) (t u : Tokenizer) (c : Core F p t u) (ok : Ok u)
    (hcs : ∀ x ∈ cs, 32 ≤ x) (e : EO F (rawEndTagLoop u cs).1) :
    Core F p (rawEndTagLoop t cs).1 (rawEndTagLoop u cs).1 ∧ (rawEndTagLoop t cs).2 = (rawEndTagLoop u cs).2 := by
  induction cs generalizing t u with
  | nil => exact ⟨c, rfl⟩
  | cons x cs ih =>
    have hx : 32 ≤ x := hcs x (by simp)
    have hx' : ¬ x < 32 := by omega
    have rb := readByte_sim c (e.back (fun h => by simp [rawEndTagLoop, h]))
    sif [rawEndTagLoop, rb.1.err, rb.2, hx'] at e ⊢
    by_cases h1 : u.readByte.1.err = true
    · sif [h1]; exact ⟨rb.1, by tr⟩
    · sif [h1] at e ⊢
      have hrec := fun e' => ih t.readByte.1 u.readByte.1 rb.1 (readByte_adv ok).ok (fun y hy => hcs y (by simp [hy])) e'
      by_cases h2 : (u.readByte.2 != x) = true
      · sif [h2] at e ⊢
        by_cases h3 : (u.readByte.2 != x - 32) = true
        · sif [h3]
          exact ⟨unread_sim 1 rb.1 (readByte_pos h1), by tr⟩
        · sif [h3] at e ⊢
          exact hrec e
      · sif [h2] at e ⊢
        exact hrec e

theorem readRawEndTag_sim {F : Prop} {p : Nat} (t u : Tokenizer) (c : Core F p t u) (ok : Ok u)
    (h2 : 2 ≤ u.rawE) (htag : ∀ x ∈ u.rawTag, 32 ≤ x) (e : EO F (readRawEndTag u).1) :
    Core F p (readRawEndTag t).1 (readRawEndTag u).1 ∧ (readRawEndTag t).2 = (readRawEndTag u).2 := by
  have el : EO F (rawEndTagLoop u u.rawTag).1 := e.back (fun h => by
    have h1 := readByte_err _ h
    unfold readRawEndTag; simp only; (repeat' split) <;> simp_all)
  have l := rawEndTagLoop_sim u.rawTag t u c ok htag el
  have la := rawEndTagLoop_adv u u.rawTag ok htag
  have lr := rawEndTagLoop_rawE u u.rawTag
  unfold readRawEndTag at e ⊢
  rw [c.rawTag]
  simp only [l.2] at e ⊢
  generalize rawEndTagLoop t u.rawTag = lt at *
  generalize rawEndTagLoop u u.rawTag = lu at *
  by_cases hl : lu.2 = true
  · sif [hl, Bool.not_true, Bool.false_eq_true] at e ⊢
    have rb := readByte_sim l.1 (e.back (fun h => by (repeat' split) <;> simp_all))
    simp only [rb.1.err, rb.2]
    by_cases h1 : lu.1.readByte.1.err = true
    · sif [h1]; exact ⟨rb.1, by tr⟩
    · sif [h1]
      have e1 := readByte_succ h1
      have := lr.2.2 hl
      split
      · exact ⟨unread_sim _ rb.1 (by omega), by tr⟩
      · exact ⟨unread_sim 1 rb.1 (by omega), by tr⟩
  · have hl' : lu.2 = false := by simpa using hl
    sif [hl', Bool.not_false]
    exact ⟨l.1, by tr⟩

theorem dblEscLoop_sim {F : Prop} {p : Nat} (cs : List (Nat × Nat)) (t u : Tokenizer) (c : Core F p t u) (ok : Ok u)
    (e : EO F (dblEscLoop u cs).1) :
    Core F p (dblEscLoop t cs).1 (dblEscLoop u cs).1 ∧ (dblEscLoop t cs).2 = (dblEscLoop u cs).2 := by
  induction cs generalizing t u with
  | nil => exact ⟨c, rfl⟩
  | cons x cs ih =>
    obtain ⟨lo, up⟩ := x
    have rb := readByte_sim c (e.back (fun h => by simp [dblEscLoop, h]))
    simp only [dblEscLoop, rb.1.err, rb.2] at e ⊢
    by_cases h1 : u.readByte.1.err = true
    · sif [h1]; exact ⟨rb.1, by tr⟩
    · sif [h1] at e ⊢
      split
      · exact ⟨unread_sim 1 rb.1 (readByte_pos h1), by tr⟩
      · rename_i h2
        sif [h2] at e
        exact ih t.readByte.1 u.readByte.1 rb.1 (readByte_adv ok).ok e

theorem readRawEndTag_ok (u : Tokenizer) (ok : Ok u) (h2 : 2 ≤ u.rawE) (htag : ∀ x ∈ u.rawTag, 32 ≤ x) :
    Ok (readRawEndTag u).1 ∧ (readRawEndTag u).1.rawTag = u.rawTag ∧ (readRawEndTag u).1.buf = u.buf ∧
    ((readRawEndTag u).2 = true →
      (readRawEndTag u).1.rawE + 2 = u.rawE ∧ u.rawE + u.rawTag.length + 1 ≤ u.buf.size) := by
  have hb : Adv { u with rawE := u.rawE - 2 } u :=
    ⟨rfl, rfl, by simp, ok, rfl, rfl⟩
  have := readRawEndTag_adv { u with rawE := u.rawE - 2 } u hb (by simp only; omega) htag
  exact ⟨this.1.ok, this.1.rawTag, this.1.buf, this.2.2⟩

theorem addRawE_sim {F : Prop} {p : Nat} {t u : Tokenizer} (k : Nat) (c : Core F p t u) :
    Core F p (t.addRawE k) (u.addRawE k) :=
  ⟨c.size, c.agree, c.full, c.rawS, by simp only [addRawE]; have := c.rawE; omega, c.dataS, c.dataE, c.err, c.rawTag,
    c.cdata, c.panic, c.hang, c.utf8⟩

theorem scriptGo_sim {F : Prop} {p : Nat} (st : SS) (t u : Tokenizer) (c : Core F p t u) (ok : Ok u)
    (hk : st.need ≤ u.rawE) (hs : u.rawTag = htmlScript) (e : EO F (scriptGo st u)) :
    Core F p (scriptGo st t) (scriptGo st u) := by
  fun_induction scriptGo st u generalizing t
  all_goals (try simp +zetaDelta only at *)
  -- edges that start with `read_byte`
  all_goals try (
    first
      | have rb := readByte_sim c e
      | have rb := readByte_sim c (e.back (scriptGo_err _ _))
      | have rb := readByte_sim c (e.back (fun h => scriptGo_err _ _ (by simp only [unread_err]; exact h)))
    conv => arg 3; rw [scriptGo]
    sif [rb.1.err, rb.2, *]
    first
      | done
      | exact rb.1
      | (apply_assumption
         · first | exact rb.1 | exact unread_sim 1 rb.1 (readByte_pos (by assumption))
         · first | exact (readByte_adv ok).ok | exact (read_unread_adv ok (by assumption)).ok
         · simp only [SS.need] at *
           first
           | (have := readByte_succ (t := _) (by assumption); omega)
           | omega
         · first | (rw [(readByte_adv ok).rawTag]; exact hs) | (rw [(read_unread_adv ok (by assumption)).rawTag]; exact hs)
         · exact e))
  -- read_script_data_end_tag_open / read_script_data_escaped_end_tag_open
  case case8 | case33 =>
    have rr := readRawEndTag_sim t _ c ok (by simpa [SS.need] using hk) (by rw [hs]; exact script_letters) e
    conv => arg 3; rw [scriptGo]
    sif [rr.2, rr.1.err, *]
    first | done | exact rr.1
  case case9 | case34 =>
    have rr := readRawEndTag_sim t _ c ok (by simpa [SS.need] using hk) (by rw [hs]; exact script_letters)
      (e.back (scriptGo_err _ _))
    have ro := readRawEndTag_ok _ ok (by simpa [SS.need] using hk) (by rw [hs]; exact script_letters)
    conv => arg 3; rw [scriptGo]
    sif [rr.2, rr.1.err, *]
    apply_assumption
    · exact rr.1
    · exact ro.1
    · simp [SS.need]
    · rw [ro.2.1]; exact hs
    · exact e
  -- read_script_data_double_escape_start
  case case35 =>
    have l := dblEscLoop_sim htmlDoubleEscapePat t _ c ok e
    conv => arg 3; rw [scriptGo]
    sif [l.2, l.1.err, *]
    first | done | exact l.1
  case case36 =>
    have l := dblEscLoop_sim htmlDoubleEscapePat t _ c ok (e.back (scriptGo_err _ _))
    have la := dblEscLoop_adv _ htmlDoubleEscapePat ok
    conv => arg 3; rw [scriptGo]
    sif [l.2, l.1.err, *]
    apply_assumption
    · exact l.1
    · exact la.ok
    · simp [SS.need]
    · rw [la.rawTag]; exact hs
    · exact e
  case case37 =>
    have la := dblEscLoop_adv _ htmlDoubleEscapePat ok
    have l := dblEscLoop_sim htmlDoubleEscapePat t _ c ok (e.back (readByte_err _))
    have rb := readByte_sim l.1 e
    conv => arg 3; rw [scriptGo]
    sif [l.2, l.1.err, rb.2, rb.1.err, *]
    first | done | exact rb.1
  case case38 =>
    have la := dblEscLoop_adv _ htmlDoubleEscapePat ok
    have l := dblEscLoop_sim htmlDoubleEscapePat t _ c ok (e.back (fun h => scriptGo_err _ _ (readByte_err _ h)))
    have rb := readByte_sim l.1 (e.back (scriptGo_err _ _))
    conv => arg 3; rw [scriptGo]
    sif [l.2, l.1.err, rb.2, rb.1.err, *]
    apply_assumption
    · exact rb.1
    · exact (readByte_adv la.ok).ok
    · simp [SS.need]
    · rw [(readByte_adv la.ok).rawTag, la.rawTag]; exact hs
    · exact e
  case case39 =>
    have la := dblEscLoop_adv _ htmlDoubleEscapePat ok
    have l := dblEscLoop_sim htmlDoubleEscapePat t _ c ok
      (e.back (fun h => scriptGo_err _ _ (by simp only [unread_err]; exact readByte_err _ h)))
    have rb := readByte_sim l.1 (e.back (fun h => scriptGo_err _ _ (by simp only [unread_err]; exact h)))
    conv => arg 3; rw [scriptGo]
    sif [l.2, l.1.err, rb.2, rb.1.err, *]
    apply_assumption
    · exact unread_sim 1 rb.1 (readByte_pos (by assumption))
    · exact (read_unread_adv la.ok (by assumption)).ok
    · simp [SS.need]
    · rw [(read_unread_adv la.ok (by assumption)).rawTag, la.rawTag]; exact hs
    · exact e
  -- read_script_data_double_escaped_end
  case case57 =>
    have rr := readRawEndTag_sim t _ c ok (by simpa [SS.need] using hk) (by rw [hs]; exact script_letters) e
    conv => arg 3; rw [scriptGo]
    sif [rr.2, rr.1.err, *]
    first | done | exact rr.1
  case case58 =>
    have rr := readRawEndTag_sim t _ c ok (by simpa [SS.need] using hk) (by rw [hs]; exact script_letters)
      (e.back (scriptGo_err _ _))
    have ro := readRawEndTag_ok _ ok (by simpa [SS.need] using hk) (by rw [hs]; exact script_letters)
    conv => arg 3; rw [scriptGo]
    sif [rr.2, rr.1.err, *]
    apply_assumption
    · exact rr.1
    · exact ro.1
    · simp [SS.need]
    · rw [ro.2.1]; exact hs
    · exact e
  case case56 =>
    rename_i u _ htrue ih
    have rr := readRawEndTag_sim t u c ok (by simpa [SS.need] using hk) (by rw [hs]; exact script_letters)
      (e.back (fun h => scriptGo_err _ _ (by simpa using h)))
    have ro := readRawEndTag_ok u ok (by simpa [SS.need] using hk) (by rw [hs]; exact script_letters)
    conv => arg 3; rw [scriptGo]
    sif [rr.2, rr.1.err, htrue]
    have hlen : u.rawTag.length = 6 := by rw [hs]; rfl
    have h3 := ro.2.2.2 htrue
    refine ih _ (addRawE_sim _ rr.1) ⟨?_, ro.1.panic, ro.1.hang, ro.1.utf8⟩ (by simp [SS.need]) (by
      show u.readRawEndTag.1.rawTag = htmlScript; rw [ro.2.1]; exact hs) e
    show u.readRawEndTag.1.rawE + htmlScriptEndTagLen ≤ u.readRawEndTag.1.buf.size
    rw [ro.2.2.1]
    simp only [htmlScriptEndTagLen]
    omega

theorem rawTextGo_sim {F : Prop} {p : Nat} (t u : Tokenizer) (c : Core F p t u) (ok : Ok u)
    (htag : ∀ x ∈ u.rawTag, 32 ≤ x) (e : EO F (rawTextGo u)) : Core F p (rawTextGo t) (rawTextGo u) := by
  fun_induction rawTextGo u generalizing t
  all_goals (try simp +zetaDelta only at *)
  case case1 =>
    have rb := readByte_sim c e
    conv => arg 3; rw [rawTextGo]
    sif [rb.1.err, rb.2, *]
    first | done | exact rb.1
  case case2 ih =>
    have rb := readByte_sim c (e.back (rawTextGo_err _))
    have a1 := readByte_adv ok
    conv => arg 3; rw [rawTextGo]
    sif [rb.1.err, rb.2, *]
    exact ih _ rb.1 a1.ok (by rw [a1.rawTag]; exact htag) e
  case case3 =>
    have rb := readByte_sim c (e.back (readByte_err _))
    have rb2 := readByte_sim rb.1 e
    conv => arg 3; rw [rawTextGo]
    sif [rb.1.err, rb.2, rb2.1.err, rb2.2, *]
    first | done | exact rb2.1
  case case4 ih =>
    have a1 := readByte_adv ok
    have a2 := readByte_adv a1.ok
    have rb := readByte_sim c (e.back (fun h => rawTextGo_err _ (readByte_err _ h)))
    have rb2 := readByte_sim rb.1 (e.back (rawTextGo_err _))
    conv => arg 3; rw [rawTextGo]
    sif [rb.1.err, rb.2, rb2.1.err, rb2.2, *]
    exact ih _ rb2.1 a2.ok (by rw [a2.rawTag, a1.rawTag]; exact htag) e
  case case5 u _ herr _ _ herr2 _ _ _ =>
    have a1 := readByte_adv ok
    have a2 := readByte_adv a1.ok
    have e1 := readByte_succ herr
    have e2 := readByte_succ herr2
    have rb := readByte_sim c (e.back (fun h => readRawEndTag_err _ (readByte_err _ h)))
    have rb2 := readByte_sim rb.1 (e.back (readRawEndTag_err _))
    have rr := readRawEndTag_sim _ _ rb2.1 a2.ok (by omega) (by rw [a2.rawTag, a1.rawTag]; exact htag) e
    conv => arg 3; rw [rawTextGo]
    sif [rb.1.err, rb.2, rb2.1.err, rb2.2, rr.2, rr.1.err, *]
    first | done | exact rr.1
  case case6 u _ herr _ _ herr2 _ _ _ ih =>
    have a1 := readByte_adv ok
    have a2 := readByte_adv a1.ok
    have e1 := readByte_succ herr
    have e2 := readByte_succ herr2
    have htag2 : ∀ x ∈ u.readByte.1.readByte.1.rawTag, 32 ≤ x := by rw [a2.rawTag, a1.rawTag]; exact htag
    have rb := readByte_sim c (e.back (fun h => rawTextGo_err _ (readRawEndTag_err _ (readByte_err _ h))))
    have rb2 := readByte_sim rb.1 (e.back (fun h => rawTextGo_err _ (readRawEndTag_err _ h)))
    have rr := readRawEndTag_sim _ _ rb2.1 a2.ok (by omega) htag2 (e.back (rawTextGo_err _))
    have ro := readRawEndTag_ok _ a2.ok (by omega) htag2
    conv => arg 3; rw [rawTextGo]
    sif [rb.1.err, rb.2, rb2.1.err, rb2.2, rr.2, rr.1.err, *]
    exact ih _ rr.1 ro.1 (by rw [ro.2.1]; exact htag2) e

theorem readToEnd_sim {F : Prop} {p : Nat} (t u : Tokenizer) (c : Core F p t u) (e : EO F (readToEnd u)) :
    Core F p (readToEnd t) (readToEnd u) := by
  fun_induction readToEnd u generalizing t
  all_goals (try simp +zetaDelta only at *)
  case case1 herr =>
    conv => arg 3; rw [readToEnd]
    sif [c.err, herr]
    exact c
  case case2 herr _ herr2 =>
    have rb := readByte_sim c e
    conv => arg 3; rw [readToEnd]
    sif [c.err, herr, rb.1.err, herr2]
    exact rb.1
  case case3 herr _ herr2 ih =>
    have rb := readByte_sim c (e.back (readToEnd_err' _))
    conv => arg 3; rw [readToEnd]
    sif [c.err, herr, rb.1.err, herr2]
    exact ih _ rb.1 e

/-! ### comments and declarations -/

theorem Core.dataS_rawE {F : Prop} {p : Nat} {t u : Tokenizer} (c : Core F p t u) :
    Core F p { t with dataS := t.rawE } { u with dataS := u.rawE } :=
  ⟨c.size, c.agree, c.full, c.rawS, c.rawE, c.rawE, c.dataE, c.err, c.rawTag, c.cdata, c.panic, c.hang, c.utf8⟩

theorem Core.dataE_rawE {F : Prop} {p : Nat} {t u : Tokenizer} (c : Core F p t u) :
    Core F p { t with dataE := t.rawE } { u with dataE := u.rawE } :=
  ⟨c.size, c.agree, c.full, c.rawS, c.rawE, c.dataS, c.rawE, c.err, c.rawTag, c.cdata, c.panic, c.hang, c.utf8⟩

theorem untilCloseAngleGo_sim {F : Prop} {p : Nat} (t u : Tokenizer) (c : Core F p t u) (ok : Ok u)
    (e : EO F (untilCloseAngleGo u)) : Core F p (untilCloseAngleGo t) (untilCloseAngleGo u) := by
  fun_induction untilCloseAngleGo u generalizing t
  all_goals (try simp +zetaDelta only at *)
  case case1 =>
    have rb := readByte_sim c e
    conv => arg 3; rw [untilCloseAngleGo]
    sif [rb.1.err, rb.2, *]
    fin rb.1.dataE_rawE
  case case2 herr _ =>
    have rb := readByte_sim c (by have := e; simp only [EO, setDataEndBack_err] at this; exact this)
    conv => arg 3; rw [untilCloseAngleGo]
    sif [rb.1.err, rb.2, *]
    exact setDataEndBack_sim 1 rb.1 (readByte_pos herr)
  case case3 ih =>
    have rb := readByte_sim c (e.back (untilCloseAngleGo_err _))
    conv => arg 3; rw [untilCloseAngleGo]
    sif [rb.1.err, rb.2, *]
    exact ih _ rb.1 (readByte_adv ok).ok e

theorem readUntilCloseAngle_sim {F : Prop} {p : Nat} (t u : Tokenizer) (c : Core F p t u) (ok : Ok u)
    (e : EO F (readUntilCloseAngle u)) : Core F p (readUntilCloseAngle t) (readUntilCloseAngle u) := by
  unfold readUntilCloseAngle at e ⊢
  exact untilCloseAngleGo_sim _ _ c.dataS_rawE ⟨ok.le, ok.panic, ok.hang, ok.utf8⟩ e

theorem commentGo_sim {F : Prop} {p : Nat} (t u : Tokenizer) (d : Nat) (c : Core F p t u) (ok : Ok u)
    (h3 : 3 ≤ u.rawE) (e : EO F (commentGo u d)) : Core F p (commentGo t d) (commentGo u d) := by
  fun_induction commentGo u d generalizing t
  all_goals (try simp +zetaDelta only at *)
  case case1 =>
    have rb := readByte_sim c (by have := e; simp only [EO, setDataEndBack_err] at this; exact this)
    have := (readByte_adv ok).mono
    conv => arg 3; rw [commentGo]
    sif [rb.1.err, rb.2, *]
    exact setDataEndBack_sim _ rb.1 (by split <;> omega)
  case case2 ih =>
    have rb := readByte_sim c (e.back (commentGo_err _ _))
    have := (readByte_adv ok).mono
    conv => arg 3; rw [commentGo]
    sif [rb.1.err, rb.2, *]
    exact ih _ rb.1 (readByte_adv ok).ok (by omega) e
  case case3 =>
    have rb := readByte_sim c (by have := e; simp only [EO, setDataEndBack_err] at this; exact this)
    have := (readByte_adv ok).mono
    conv => arg 3; rw [commentGo]
    sif [rb.1.err, rb.2, *]
    exact setDataEndBack_sim _ rb.1 (by simp only [htmlCommentEndLen]; omega)
  case case4 ih =>
    have rb := readByte_sim c (e.back (commentGo_err _ _))
    have := (readByte_adv ok).mono
    conv => arg 3; rw [commentGo]
    sif [rb.1.err, rb.2, *]
    exact ih _ rb.1 (readByte_adv ok).ok (by omega) e
  case case5 =>
    have rb := readByte_sim c (e.back (readByte_err _))
    have rb2 := readByte_sim rb.1 e
    conv => arg 3; rw [commentGo]
    sif [rb.1.err, rb.2, rb2.1.err, rb2.2, *]
    fin rb2.1.dataE_rawE
  case case6 =>
    have rb := readByte_sim c (e.back (fun h => by simp only [setDataEndBack_err]; exact readByte_err _ h))
    have rb2 := readByte_sim rb.1 (by have := e; simp only [EO, setDataEndBack_err] at this; exact this)
    have := (readByte_adv ok).mono
    have := (readByte_adv (readByte_adv ok).ok).mono
    have := readByte_succ (t := _) (by assumption : ¬ (readByte (readByte _).1).1.err = true)
    conv => arg 3; rw [commentGo]
    sif [rb.1.err, rb.2, rb2.1.err, rb2.2, *]
    exact setDataEndBack_sim _ rb2.1 (by simp only [htmlCommentBangEndLen]; omega)
  case case7 ih =>
    have a1 := readByte_adv ok
    have a2 := readByte_adv a1.ok
    have rb := readByte_sim c (e.back (fun h => commentGo_err _ _ (readByte_err _ h)))
    have rb2 := readByte_sim rb.1 (e.back (commentGo_err _ _))
    conv => arg 3; rw [commentGo]
    sif [rb.1.err, rb.2, rb2.1.err, rb2.2, *]
    exact ih _ rb2.1 a2.ok (by have := a1.mono; have := a2.mono; omega) e
  case case8 ih =>
    have rb := readByte_sim c (e.back (commentGo_err _ _))
    have := (readByte_adv ok).mono
    conv => arg 3; rw [commentGo]
    sif [rb.1.err, rb.2, *]
    exact ih _ rb.1 (readByte_adv ok).ok (by omega) e
  case case9 ih =>
    have rb := readByte_sim c (e.back (commentGo_err _ _))
    have := (readByte_adv ok).mono
    conv => arg 3; rw [commentGo]
    sif [rb.1.err, rb.2, *]
    exact ih _ rb.1 (readByte_adv ok).ok (by omega) e

theorem readComment_sim {F : Prop} {p : Nat} (t u : Tokenizer) (c : Core F p t u) (ok : Ok u) (h3 : 3 ≤ u.rawE)
    (e : EO F (readComment u)) : Core F p (readComment t) (readComment u) := by
  have e' : EO F (commentGo { u with dataS := u.rawE } 2) := e.back (fun h => by
    unfold readComment; simp only; split <;> simpa using h)
  have g := commentGo_sim _ _ 2 c.dataS_rawE ⟨ok.le, ok.panic, ok.hang, ok.utf8⟩ h3 e'
  unfold readComment
  simp only
  generalize commentGo { t with dataS := t.rawE } 2 = t1 at *
  generalize commentGo { u with dataS := u.rawE } 2 = u1 at *
  have hc : (t1.dataE < t1.dataS) ↔ (u1.dataE < u1.dataS) := by rw [g.dataE, g.dataS]; omega
  by_cases h : u1.dataE < u1.dataS
  · sif [h, hc.mpr h]
    exact ⟨g.size, g.agree, g.full, g.rawS, g.rawE, g.dataS, g.dataS, g.err, g.rawTag, g.cdata, g.panic, g.hang, g.utf8⟩
  · have h' : ¬ t1.dataE < t1.dataS := fun x => h (hc.mp x)
    sif [h, h']
    exact g

theorem declLoop_sim {F : Prop} {p : Nat} (cs : List (Nat × Nat)) (t u : Tokenizer) (c : Core F p t u)
    (e : EO F (declLoop u cs).1) :
    Core F p (declLoop t cs).1 (declLoop u cs).1 ∧ (declLoop t cs).2 = (declLoop u cs).2 := by
  induction cs generalizing t u with
  | nil => exact ⟨c, rfl⟩
  | cons x cs ih =>
    obtain ⟨x, x'⟩ := x
    have rb := readByte_sim c (e.back (fun h => by simp [declLoop, h]))
    simp only [declLoop, rb.1.err, rb.2] at e ⊢
    by_cases h1 : u.readByte.1.err = true
    · sif [h1]
      refine ⟨?_, by tr⟩
      fin rb.1.dataE_rawE
    · sif [h1] at e ⊢
      split
      · refine ⟨?_, by tr⟩
        have rc : Core F p { t.readByte.1 with rawE := t.readByte.1.dataS } { u.readByte.1 with rawE := u.readByte.1.dataS } :=
          ⟨rb.1.size, rb.1.agree, rb.1.full, rb.1.rawS, rb.1.dataS, rb.1.dataS, rb.1.dataE, rb.1.err, rb.1.rawTag,
            rb.1.cdata, rb.1.panic, rb.1.hang, rb.1.utf8⟩
        fin rc
      · rename_i h2
        sif [h2] at e
        exact ih t.readByte.1 u.readByte.1 rb.1 e

theorem declLoop_ok (b u : Tokenizer) (cs : List (Nat × Nat)) (hb : Adv b u) (hd : u.dataS = b.rawE) :
    Ok (declLoop u cs).1 ∧ b.rawE ≤ (declLoop u cs).1.rawE ∧ (declLoop u cs).1.dataS = b.rawE :=
  let h := declLoop_adv b u cs hb hd
  ⟨h.1.ok, h.1.mono, h.2.1.trans hd⟩

theorem readDocType_sim {F : Prop} {p : Nat} (b t u : Tokenizer) (c : Core F p t u) (hb : Adv b u)
    (hd : u.dataS = b.rawE) (e : EO F (readDocType u).1) :
    Core F p (readDocType t).1 (readDocType u).1 ∧ (readDocType t).2 = (readDocType u).2 := by
  have el : EO F (declLoop u htmlDoctypePat).1 := e.back (fun h => by
    have h2 := skipWhiteSpace_err _ h
    have h3 := readUntilCloseAngle_err _ h2
    unfold readDocType; simp only; (repeat' split) <;> simp_all)
  have l := declLoop_sim htmlDoctypePat t u c el
  have lo := declLoop_ok b u htmlDoctypePat hb hd
  unfold readDocType at e ⊢
  simp only [l.2] at e ⊢
  generalize declLoop t htmlDoctypePat = lt at *
  generalize declLoop u htmlDoctypePat = lu at *
  by_cases hl : lu.2 = true
  · sif [hl] at e ⊢
    have es : EO F lu.1.skipWhiteSpace := e.back (fun h => by
      have h3 := readUntilCloseAngle_err _ h
      split <;> simp_all)
    have sk := skipWhiteSpace_sim _ _ l.1 lo.1 es
    have ska := skipWhiteSpace_adv _ lo.1
    rw [sk.err]
    by_cases h2 : lu.1.skipWhiteSpace.err = true
    · sif [h2]
      refine ⟨?_, by tr⟩
      have rc : Core F p { lt.1.skipWhiteSpace with dataS := lt.1.skipWhiteSpace.rawE, dataE := lt.1.skipWhiteSpace.rawE }
          { lu.1.skipWhiteSpace with dataS := lu.1.skipWhiteSpace.rawE, dataE := lu.1.skipWhiteSpace.rawE } :=
        ⟨sk.size, sk.agree, sk.full, sk.rawS, sk.rawE, sk.rawE, sk.rawE, sk.err, sk.rawTag, sk.cdata, sk.panic,
          sk.hang, sk.utf8⟩
      have hske := sk.err
      fin rc
    · sif [h2] at e ⊢
      exact ⟨readUntilCloseAngle_sim _ _ sk ska.ok e, by tr⟩
  · have hl' : lu.2 = false := by simpa using hl
    sif [hl']
    exact ⟨l.1, by tr⟩

theorem cdataGo_sim {F : Prop} {p : Nat} (t u : Tokenizer) (br : Nat) (c : Core F p t u) (ok : Ok u)
    (h2 : 2 ≤ u.rawE) (e : EO F (cdataGo u br)) : Core F p (cdataGo t br) (cdataGo u br) := by
  fun_induction cdataGo u br generalizing t
  all_goals (try simp +zetaDelta only at *)
  case case1 =>
    have rb := readByte_sim c e
    conv => arg 3; rw [cdataGo]
    sif [rb.1.err, rb.2, *]
    fin rb.1.dataE_rawE
  case case2 ih =>
    have rb := readByte_sim c (e.back (cdataGo_err _ _))
    have := (readByte_adv ok).mono
    conv => arg 3; rw [cdataGo]
    sif [rb.1.err, rb.2, *]
    exact ih _ rb.1 (readByte_adv ok).ok (by omega) e
  case case3 herr _ _ _ =>
    have rb := readByte_sim c (by have := e; simp only [EO, setDataEndBack_err] at this; exact this)
    have := readByte_succ herr
    conv => arg 3; rw [cdataGo]
    sif [rb.1.err, rb.2, *]
    exact setDataEndBack_sim _ rb.1 (by simp only [htmlCdataEndLen]; omega)
  case case4 ih =>
    have rb := readByte_sim c (e.back (cdataGo_err _ _))
    have := (readByte_adv ok).mono
    conv => arg 3; rw [cdataGo]
    sif [rb.1.err, rb.2, *]
    exact ih _ rb.1 (readByte_adv ok).ok (by omega) e
  case case5 ih =>
    have rb := readByte_sim c (e.back (cdataGo_err _ _))
    have := (readByte_adv ok).mono
    conv => arg 3; rw [cdataGo]
    sif [rb.1.err, rb.2, *]
    exact ih _ rb.1 (readByte_adv ok).ok (by omega) e

theorem readCdata_sim {F : Prop} {p : Nat} (b t u : Tokenizer) (c : Core F p t u) (hb : Adv b u)
    (hd : u.dataS = b.rawE) (h2 : 2 ≤ b.rawE) (e : EO F (readCdata u).1) :
    Core F p (readCdata t).1 (readCdata u).1 ∧ (readCdata t).2 = (readCdata u).2 := by
  have el : EO F (declLoop u htmlCdataPat).1 := e.back (fun h => by
    have h2 := cdataGo_err { (declLoop u htmlCdataPat).1 with dataS := (declLoop u htmlCdataPat).1.rawE } 0 h
    unfold readCdata; simp only; split <;> simp_all)
  have l := declLoop_sim htmlCdataPat t u c el
  have lo := declLoop_ok b u htmlCdataPat hb hd
  unfold readCdata at e ⊢
  simp only [l.2] at e ⊢
  generalize declLoop t htmlCdataPat = lt at *
  generalize declLoop u htmlCdataPat = lu at *
  by_cases hl : lu.2 = true
  · sif [hl] at e ⊢
    exact ⟨cdataGo_sim _ _ 0 l.1.dataS_rawE ⟨lo.1.le, lo.1.panic, lo.1.hang, lo.1.utf8⟩ (by simp only; omega) e, by tr⟩
  · have hl' : lu.2 = false := by simpa using hl
    sif [hl']
    exact ⟨l.1, by tr⟩

theorem markupRest_sim {F : Prop} {p : Nat} (b t u : Tokenizer) (c : Core F p t u) (hb : Adv b u)
    (hd : u.dataS = b.rawE) (h2 : 2 ≤ b.rawE) (e : EO F (markupRest u).1) :
    Core F p (markupRest t).1 (markupRest u).1 ∧ (markupRest t).2 = (markupRest u).2 := by
  have ed : EO F (readDocType u).1 := e.back (fun h => by
    have h2 := readCdata_err _ h
    have h3 := readUntilCloseAngle_err _ h2
    have h4 := readUntilCloseAngle_err _ h
    unfold markupRest; simp only; (repeat' split) <;> simp_all)
  have d := readDocType_sim b t u c hb hd ed
  have da := readDocType_adv b u hb hd
  unfold markupRest at e ⊢
  simp only [d.2, d.1.cdata] at e ⊢
  generalize readDocType t = dt at *
  generalize readDocType u = du at *
  by_cases h1 : du.2 = true
  · sif [h1]; exact ⟨d.1, by tr⟩
  · sif [h1] at e ⊢
    have hdf := da.2 (by simpa using h1)
    by_cases h3 : du.1.allowCdata = true
    · sif [h3] at e ⊢
      have ec : EO F (readCdata du.1).1 := e.back (fun h => by
        have h4 := readUntilCloseAngle_err _ h
        split <;> simp_all)
      have cc := readCdata_sim b _ _ d.1 da.1 hdf h2 ec
      have ca := readCdata_adv b _ da.1 hdf h2
      simp only [cc.2] at e ⊢
      generalize readCdata dt.1 = ct at *
      generalize readCdata du.1 = cu at *
      by_cases h4 : cu.2 = true
      · sif [h4]
        exact ⟨cc.1.congr (by lrfl) (by lrfl), by tr⟩
      · sif [h4] at e ⊢
        exact ⟨readUntilCloseAngle_sim _ _ cc.1 ca.ok e, by tr⟩
    · sif [h3] at e ⊢
      exact ⟨readUntilCloseAngle_sim _ _ d.1 da.1.ok e, by tr⟩

theorem markupGo_sim {F : Prop} {p : Nat} (t u : Tokenizer) (c : Core F p t u) (ok : Ok u) (h2 : 2 ≤ u.rawE)
    (hd : u.dataS = u.rawE) (e : EO F (markupGo u).1) :
    Core F p (markupGo t).1 (markupGo u).1 ∧ (markupGo t).2 = (markupGo u).2 := by
  have a1 := readByte_adv ok
  have a2 := readByte_adv a1.ok
  have e1 : EO F u.readByte.1 := e.back (fun h => by
    have h2 := readByte_err _ h
    have h3 := readComment_err _ h2
    have h4 := markupRest_err (u.readByte.1.readByte.1.unread 2) (by simpa using h2)
    unfold markupGo; simp only; (repeat' split) <;> simp_all)
  have rb := readByte_sim c e1
  unfold markupGo at e ⊢
  simp only [rb.1.err, rb.2] at e ⊢
  by_cases h1 : u.readByte.1.err = true
  · sif [h1]
    refine ⟨?_, by tr⟩
    fin rb.1.dataE_rawE
  · sif [h1] at e ⊢
    have e2 : EO F u.readByte.1.readByte.1 := e.back (fun h => by
      have h3 := readComment_err _ h
      have h4 := markupRest_err (u.readByte.1.readByte.1.unread 2) (by simpa using h)
      (repeat' split) <;> simp_all)
    have rb2 := readByte_sim rb.1 e2
    simp only [rb2.1.err, rb2.2] at e ⊢
    by_cases h3 : u.readByte.1.readByte.1.err = true
    · sif [h3]
      refine ⟨?_, by tr⟩
      fin rb2.1.dataE_rawE
    · sif [h3] at e ⊢
      have s1 := readByte_succ h1
      have s2 := readByte_succ h3
      split
      · rename_i h4
        sif [h4] at e
        exact ⟨readComment_sim _ _ rb2.1 a2.ok (by omega) e, by tr⟩
      · rename_i h4
        sif [h4] at e
        exact markupRest_sim u _ _ (unread_sim 2 rb2.1 (by omega)) (unread_adv 2 (a1.trans a2) (by omega))
          (by simp [hd]) h2 e

theorem readMarkupDeclaration_sim {F : Prop} {p : Nat} (t u : Tokenizer) (c : Core F p t u) (ok : Ok u)
    (h2 : 2 ≤ u.rawE) (e : EO F (readMarkupDeclaration u).1) :
    Core F p (readMarkupDeclaration t).1 (readMarkupDeclaration u).1 ∧
    (readMarkupDeclaration t).2 = (readMarkupDeclaration u).2 := by
  unfold readMarkupDeclaration at e ⊢
  exact markupGo_sim _ _ c.dataS_rawE ⟨ok.le, ok.panic, ok.hang, ok.utf8⟩ h2 rfl e

/-! ### tags (the attribute spans themselves are not part of `Core`) -/

theorem tagNameGo_sim {F : Prop} {p : Nat} (t u : Tokenizer) (c : Core F p t u) (ok : Ok u)
    (e : EO F (tagNameGo u)) : Core F p (tagNameGo t) (tagNameGo u) := by
  fun_induction tagNameGo u generalizing t
  all_goals (try simp +zetaDelta only at *)
  case case1 =>
    have rb := readByte_sim c e
    conv => arg 3; rw [tagNameGo]
    sif [rb.1.err, rb.2, *]
    fin rb.1.dataE_rawE
  case case2 =>
    have rb := readByte_sim c (by have := e; simp only [EO, setDataEndBack_err] at this; exact this)
    conv => arg 3; rw [tagNameGo]
    sif [rb.1.err, rb.2, *]
    exact setDataEndBack_sim 1 rb.1 (readByte_pos (t := _) (by assumption))
  case case3 =>
    have rb := readByte_sim c (by have := e; simp only [EO, unread_err] at this; exact this)
    conv => arg 3; rw [tagNameGo]
    sif [rb.1.err, rb.2, *]
    fin (unread_sim 1 rb.1 (readByte_pos (t := _) (by assumption))).dataE_rawE
  case case4 ih =>
    have rb := readByte_sim c (e.back (tagNameGo_err _))
    conv => arg 3; rw [tagNameGo]
    sif [rb.1.err, rb.2, *]
    exact ih _ rb.1 (readByte_adv ok).ok e

theorem readTagName_sim {F : Prop} {p : Nat} (t u : Tokenizer) (c : Core F p t u) (ok : Ok u) (h1 : 1 ≤ u.rawE)
    (e : EO F (readTagName u)) : Core F p (readTagName t) (readTagName u) := by
  unfold readTagName at e ⊢
  have hu : ¬ u.rawE = 0 := by omega
  have ht : ¬ t.rawE = 0 := by have := c.rawE; omega
  sif [hu, ht] at e ⊢
  have c0 : Core F p { t with dataS := t.rawE - 1 } { u with dataS := u.rawE - 1 } :=
    ⟨c.size, c.agree, c.full, c.rawS, c.rawE, by simp only; have := c.rawE; omega, c.dataE, c.err, c.rawTag, c.cdata,
      c.panic, c.hang, c.utf8⟩
  exact tagNameGo_sim _ _ c0 ⟨ok.le, ok.panic, ok.hang, ok.utf8⟩ e

theorem attrKeyGo_sim {F : Prop} {p : Nat} (t u : Tokenizer) (c : Core F p t u) (ok : Ok u)
    (e : EO F (attrKeyGo u)) : Core F p (attrKeyGo t) (attrKeyGo u) := by
  fun_induction attrKeyGo u generalizing t
  all_goals (try simp +zetaDelta only at *)
  case case1 =>
    have rb := readByte_sim c e
    conv => arg 3; rw [attrKeyGo]
    sif [rb.1.err, rb.2, *]
    fin (rb.1.congr (t' := { t.readByte.1 with pkE := t.readByte.1.rawE }) (by lrfl) (by lrfl))
  case case2 herr _ h0 => have := readByte_pos (t := _) (by assumption); omega
  case case3 =>
    have rb := readByte_sim c e
    have ht0 : ¬ t.readByte.1.rawE = 0 := by have := rb.1.rawE; omega
    conv => arg 3; rw [attrKeyGo]
    sif [rb.1.err, rb.2, ht0, *]
    fin (rb.1.congr (t' := { t.readByte.1 with pkE := t.readByte.1.rawE - 1 }) (by lrfl) (by lrfl))
  case case4 =>
    have rb := readByte_sim c (by have := e; simp only [EO, unread_err] at this; exact this)
    conv => arg 3; rw [attrKeyGo]
    sif [rb.1.err, rb.2, *]
    fin ((unread_sim 1 rb.1 (readByte_pos (t := _) (by assumption))).congr
      (t' := { t.readByte.1.unread 1 with pkE := (t.readByte.1.unread 1).rawE }) (by lrfl) (by lrfl))
  case case5 ih =>
    have rb := readByte_sim c (e.back (attrKeyGo_err _))
    conv => arg 3; rw [attrKeyGo]
    sif [rb.1.err, rb.2, *]
    exact ih _ rb.1 (readByte_adv ok).ok e

theorem readTagAttrKey_sim {F : Prop} {p : Nat} (t u : Tokenizer) (c : Core F p t u) (ok : Ok u)
    (e : EO F (readTagAttrKey u)) : Core F p (readTagAttrKey t) (readTagAttrKey u) := by
  unfold readTagAttrKey at e ⊢
  exact attrKeyGo_sim _ _ (c.congr (by lrfl) (by lrfl)) ⟨ok.le, ok.panic, ok.hang, ok.utf8⟩ e

theorem attrValQuotedGo_sim {F : Prop} {p : Nat} (t u : Tokenizer) (q : Nat) (c : Core F p t u) (ok : Ok u)
    (e : EO F (attrValQuotedGo u q)) : Core F p (attrValQuotedGo t q) (attrValQuotedGo u q) := by
  fun_induction attrValQuotedGo u q generalizing t
  all_goals (try simp +zetaDelta only at *)
  case case1 =>
    have rb := readByte_sim c e
    conv => arg 3; rw [attrValQuotedGo]
    sif [rb.1.err, rb.2, *]
    fin (rb.1.congr (t' := { t.readByte.1 with pvE := t.readByte.1.rawE }) (by lrfl) (by lrfl))
  case case2 => have := readByte_pos (t := _) (by assumption); omega
  case case3 =>
    have rb := readByte_sim c e
    have ht0 : ¬ t.readByte.1.rawE = 0 := by have := rb.1.rawE; omega
    conv => arg 3; rw [attrValQuotedGo]
    sif [rb.1.err, rb.2, ht0, *]
    fin (rb.1.congr (t' := { t.readByte.1 with pvE := t.readByte.1.rawE - 1 }) (by lrfl) (by lrfl))
  case case4 ih =>
    have rb := readByte_sim c (e.back (attrValQuotedGo_err _ _))
    conv => arg 3; rw [attrValQuotedGo]
    sif [rb.1.err, rb.2, *]
    exact ih _ rb.1 (readByte_adv ok).ok e

theorem attrValUnquotedGo_sim {F : Prop} {p : Nat} (t u : Tokenizer) (c : Core F p t u) (ok : Ok u)
    (e : EO F (attrValUnquotedGo u)) : Core F p (attrValUnquotedGo t) (attrValUnquotedGo u) := by
  fun_induction attrValUnquotedGo u generalizing t
  all_goals (try simp +zetaDelta only at *)
  case case1 =>
    have rb := readByte_sim c e
    conv => arg 3; rw [attrValUnquotedGo]
    sif [rb.1.err, rb.2, *]
    fin (rb.1.congr (t' := { t.readByte.1 with pvE := t.readByte.1.rawE }) (by lrfl) (by lrfl))
  case case2 => have := readByte_pos (t := _) (by assumption); omega
  case case3 =>
    have rb := readByte_sim c e
    have ht0 : ¬ t.readByte.1.rawE = 0 := by have := rb.1.rawE; omega
    conv => arg 3; rw [attrValUnquotedGo]
    sif [rb.1.err, rb.2, ht0, *]
    fin (rb.1.congr (t' := { t.readByte.1 with pvE := t.readByte.1.rawE - 1 }) (by lrfl) (by lrfl))
  case case4 =>
    have rb := readByte_sim c (by have := e; simp only [EO, unread_err] at this; exact this)
    conv => arg 3; rw [attrValUnquotedGo]
    sif [rb.1.err, rb.2, *]
    fin ((unread_sim 1 rb.1 (readByte_pos (t := _) (by assumption))).congr
      (t' := { t.readByte.1.unread 1 with pvE := (t.readByte.1.unread 1).rawE }) (by lrfl) (by lrfl))
  case case5 ih =>
    have rb := readByte_sim c (e.back (attrValUnquotedGo_err _))
    conv => arg 3; rw [attrValUnquotedGo]
    sif [rb.1.err, rb.2, *]
    exact ih _ rb.1 (readByte_adv ok).ok e

theorem attrValRest_sim {F : Prop} {p : Nat} (t u : Tokenizer) (c : Core F p t u) (ok : Ok u)
    (e : EO F (attrValRest u)) : Core F p (attrValRest t) (attrValRest u) := by
  have es : EO F u.skipWhiteSpace := e.back (attrValRest_err' u)
  have sk := skipWhiteSpace_sim _ _ c ok es
  have ska := skipWhiteSpace_adv _ ok
  unfold attrValRest at e ⊢
  simp only [sk.err] at e ⊢
  generalize t.skipWhiteSpace = t2 at *
  generalize u.skipWhiteSpace = u2 at *
  by_cases h1 : u2.err = true
  · sif [h1]; exact sk
  · sif [h1] at e ⊢
    have a4 := readByte_adv ska.ok
    have eq : EO F u2.readByte.1 := e.back (fun h => by
      have h2 := attrValQuotedGo_err { u2.readByte.1 with pvS := u2.readByte.1.rawE } u2.readByte.2 h
      have h3 := attrValUnquotedGo_err { u2.readByte.1 with pvS := u2.readByte.1.rawE - 1 } h
      (repeat' split) <;> simp_all)
    have rb := readByte_sim sk eq
    simp only [rb.1.err, rb.2] at e ⊢
    by_cases h2 : u2.readByte.1.err = true
    · sif [h2]; exact rb.1
    · sif [h2] at e ⊢
      have hp := readByte_pos h2
      by_cases h3 : (u2.readByte.2 == 62) = true
      · sif [h3]; exact unread_sim 1 rb.1 hp
      · sif [h3] at e ⊢
        by_cases h4 : (u2.readByte.2 == 39 || u2.readByte.2 == 34) = true
        · sif [h4] at e ⊢
          have het := rb.1.err
          refine attrValQuotedGo_sim _ _ _ (Core.congr rb.1 ?_ ?_) ⟨a4.ok.le, a4.ok.panic, a4.ok.hang, a4.ok.utf8⟩ e <;>
            simp [live, *]
        · sif [h4] at e ⊢
          have hu0 : ¬ u2.readByte.1.rawE = 0 := by omega
          have ht0 : ¬ t2.readByte.1.rawE = 0 := by have := rb.1.rawE; omega
          sif [hu0, ht0] at e ⊢
          have het := rb.1.err
          refine attrValUnquotedGo_sim _ _ (Core.congr rb.1 ?_ ?_) ⟨a4.ok.le, a4.ok.panic, a4.ok.hang, a4.ok.utf8⟩ e <;>
            simp [live, *]

theorem attrValGo_sim {F : Prop} {p : Nat} (t u : Tokenizer) (c : Core F p t u) (ok : Ok u)
    (e : EO F (attrValGo u)) : Core F p (attrValGo t) (attrValGo u) := by
  have es : EO F u.skipWhiteSpace := e.back (attrValGo_err' u)
  have sk := skipWhiteSpace_sim _ _ c ok es
  have ska := skipWhiteSpace_adv _ ok
  unfold attrValGo at e ⊢
  simp only [sk.err] at e ⊢
  generalize t.skipWhiteSpace = t1 at *
  generalize u.skipWhiteSpace = u1 at *
  by_cases h1 : u1.err = true
  · sif [h1]; exact sk
  · sif [h1] at e ⊢
    have a2 := readByte_adv ska.ok
    have eq : EO F u1.readByte.1 := e.back (fun h => by
      have h2 := attrValRest_err _ h
      (repeat' split) <;> simp_all)
    have rb := readByte_sim sk eq
    simp only [rb.1.err, rb.2] at e ⊢
    by_cases h2 : u1.readByte.1.err = true
    · sif [h2]; exact rb.1
    · sif [h2] at e ⊢
      by_cases h3 : (u1.readByte.2 != 61) = true
      · sif [h3]; exact unread_sim 1 rb.1 (readByte_pos h2)
      · sif [h3] at e ⊢
        exact attrValRest_sim _ _ rb.1 a2.ok e

theorem readTagAttrVal_sim {F : Prop} {p : Nat} (t u : Tokenizer) (c : Core F p t u) (ok : Ok u)
    (e : EO F (readTagAttrVal u)) : Core F p (readTagAttrVal t) (readTagAttrVal u) := by
  unfold readTagAttrVal at e ⊢
  exact attrValGo_sim _ _ (c.congr (by lrfl) (by lrfl)) ⟨ok.le, ok.panic, ok.hang, ok.utf8⟩ e

theorem readAttr_sim {F : Prop} {p : Nat} (t u : Tokenizer) (save : Bool) (c : Core F p t u) (ok : Ok u)
    (e : EO F (readAttr u save)) : Core F p (readAttr t save) (readAttr u save) := by
  have a1 := readTagAttrKey_adv u ok
  have a2 := readTagAttrVal_adv _ a1.ok
  have ev : EO F u.readTagAttrKey.readTagAttrVal := e.back (fun h => by
    unfold readAttr; simp only; split <;> exact skipWhiteSpace_err _ h)
  have k := readTagAttrKey_sim _ _ c ok (ev.back (readTagAttrVal_err _))
  have v := readTagAttrVal_sim _ _ k a1.ok ev
  unfold readAttr at e ⊢
  simp only at e ⊢
  generalize t.readTagAttrKey.readTagAttrVal = t2 at *
  generalize u.readTagAttrKey.readTagAttrVal = u2 at *
  have key : ∀ (t3 u3 : Tokenizer), live t3 = live t2 → live u3 = live u2 → EO F u3.skipWhiteSpace →
      Core F p t3.skipWhiteSpace u3.skipWhiteSpace := by
    intro t3 u3 h1 h2 e3
    have ok3 : Ok u3 := by
      simp only [live, Prod.mk.injEq] at h2
      obtain ⟨b1, b2, b3, b4, b5, b6, b7, b8, b9, b10, b11⟩ := h2
      exact ⟨by rw [b1, b3]; exact a2.ok.le, by rw [b9]; exact a2.ok.panic, by rw [b10]; exact a2.ok.hang,
        by rw [b11]; exact a2.ok.utf8⟩
    exact skipWhiteSpace_sim _ _ (v.congr h1 h2) ok3 e3
  by_cases hu : (save && u2.pkS != u2.pkE) = true <;> by_cases ht : (save && t2.pkS != t2.pkE) = true <;>
    sif [hu, ht] at e ⊢ <;> exact key _ _ (by lrfl) (by lrfl) e

theorem Core.okT {F : Prop} {p : Nat} {t u : Tokenizer} (c : Core F p t u) (ok : Ok u) : Ok t :=
  ⟨by have := c.size; have := c.rawE; have := ok.le; omega, c.panic.trans ok.panic, c.hang.trans ok.hang,
    c.utf8.trans ok.utf8⟩

theorem tagAttrsGo_sim {F : Prop} {p : Nat} (t u : Tokenizer) (save : Bool) (c : Core F p t u) (ok : Ok u)
    (e : EO F (tagAttrsGo u save)) : Core F p (tagAttrsGo t save) (tagAttrsGo u save) := by
  fun_induction tagAttrsGo u save generalizing t
  all_goals (try simp +zetaDelta only at *)
  case case1 =>
    have rb := readByte_sim c e
    conv => arg 3; rw [tagAttrsGo]
    sif [rb.1.err, rb.2, *]
    first | done | exact rb.1
  case case2 u _ hne _ herr1 =>
    have herr : ¬ u.readByte.1.err = true := by intro h; simp [h] at hne
    have a0 := read_unread_adv ok herr
    have rb := readByte_sim c (e.back (fun h => readAttr_err _ _ (by simpa using h)))
    have ra := readAttr_sim _ _ save (unread_sim 1 rb.1 (readByte_pos herr)) a0.ok e
    conv => arg 3; rw [tagAttrsGo]
    sif [rb.1.err, rb.2, hne, ra.err, herr1]
    exact ra
  case case3 u _ hne _ herr1 hprog ih =>
    have herr : ¬ u.readByte.1.err = true := by intro h; simp [h] at hne
    have a0 := read_unread_adv ok herr
    have a1 := readAttr_adv _ save a0.ok
    have rb := readByte_sim c (e.back (fun h => tagAttrsGo_err _ _ (readAttr_err _ _ (by simpa using h))))
    have ra := readAttr_sim _ _ save (unread_sim 1 rb.1 (readByte_pos herr)) a0.ok (e.back (tagAttrsGo_err _ _))
    have okT := c.okT ok
    have herrT : ¬ t.readByte.1.err = true := by rw [rb.1.err]; exact herr
    have b0 := read_unread_adv okT herrT
    have b1 := readAttr_adv _ save b0.ok
    have hbufT := (b0.trans b1).buf
    have hbufU := (a0.trans a1).buf
    have hleT := b1.ok.le
    have hleU := a1.ok.le
    have hprogT : ((t.readByte.1.unread 1).readAttr save).buf.size - ((t.readByte.1.unread 1).readAttr save).rawE <
        t.buf.size - t.rawE := by
      rw [hbufT] at hleT ⊢
      rw [hbufU] at hleU hprog
      have := ra.rawE
      have := c.rawE
      omega
    conv => arg 3; rw [tagAttrsGo]
    sif [rb.1.err, rb.2, hne, ra.err, herr1, hprogT]
    exact ih _ ra a1.ok e
  case case4 u _ hne _ herr1 hnp =>
    exfalso
    have herr : ¬ u.readByte.1.err = true := by intro h; simp [h] at hne
    have h62 : u.readByte.2 ≠ 62 := by intro h; simp [h] at hne
    obtain ⟨g1, g2⟩ := get_of_readByte herr
    obtain ⟨e1, e2, e3, e4⟩ := readByte_get_spec g1
    have hu := unread1_spec u.readByte.1 (by omega)
    have a0 := read_unread_adv ok herr
    have hp := readAttr_progress (u.readByte.1.unread 1) u.readByte.2 save a0.ok (by rw [hu.2.1, e3, g2])
      (by rw [hu.2.2, e4, hu.1, e2]; simpa using g1) h62
    have a1 := readAttr_adv (u.readByte.1.unread 1) save a0.ok
    have hbuf := (a0.trans a1).buf
    have hle := a1.ok.le
    rw [hbuf] at hnp hle
    omega

theorem readTag_sim {F : Prop} {p : Nat} (t u : Tokenizer) (save : Bool) (c : Core F p t u) (ok : Ok u)
    (h1 : 1 ≤ u.rawE) (e : EO F (readTag u save)) : Core F p (readTag t save) (readTag u save) := by
  have ok0 : Ok ({ u with attrs := #[], nAttrRet := 0 } : Tokenizer) := ⟨ok.le, ok.panic, ok.hang, ok.utf8⟩
  have a1 := readTagName_adv _ ok0 h1
  have a2 := skipWhiteSpace_adv _ a1.ok
  have es : EO F ({ u with attrs := #[], nAttrRet := 0 } : Tokenizer).readTagName.skipWhiteSpace := e.back (fun h => by
    unfold readTag; simp only; split <;> first | exact h | exact tagAttrsGo_err _ _ h)
  have n := readTagName_sim { t with attrs := #[], nAttrRet := 0 } { u with attrs := #[], nAttrRet := 0 }
    (c.congr (by lrfl) (by lrfl)) ok0 h1 (es.back (skipWhiteSpace_err _))
  have sk := skipWhiteSpace_sim _ _ n a1.ok es
  unfold readTag at e ⊢
  simp only [sk.err] at e ⊢
  generalize ({ t with attrs := #[], nAttrRet := 0 } : Tokenizer).readTagName.skipWhiteSpace = t2 at *
  generalize ({ u with attrs := #[], nAttrRet := 0 } : Tokenizer).readTagName.skipWhiteSpace = u2 at *
  by_cases h2 : u2.err = true
  · sif [h2]; exact sk
  · sif [h2] at e ⊢
    exact tagAttrsGo_sim _ _ save sk a2.ok e

/-! ### `read_start_tag` -/

theorem Core.getElem {F : Prop} {p : Nat} {t u : Tokenizer} (c : Core F p t u) (i : Nat) (hi : i < u.buf.size) :
    ∃ h : p + i < t.buf.size, t.buf[p + i] = u.buf[i] := by
  have h : p + i < t.buf.size := by have := c.size; omega
  refine ⟨h, ?_⟩
  have := c.agree i hi
  simp only [Array.getElem?_eq_getElem h, Array.getElem?_eq_getElem hi, Option.some.injEq] at this
  exact this

theorem Core.extract {F : Prop} {p : Nat} {t u : Tokenizer} (c : Core F p t u) (n a : Nat) (h : a + n ≤ u.buf.size) :
    (t.buf.extract (p + a) (p + a + n)).toList = (u.buf.extract a (a + n)).toList := by
  induction n generalizing a with
  | zero => simp
  | succ n ih =>
    obtain ⟨h1, h2⟩ := c.getElem a (by omega)
    rw [extract_toList_cons _ _ _ h1, extract_toList_cons _ _ _ (by omega : a < u.buf.size), h2]
    have := ih (a + 1) (by omega)
    rw [show p + (a + 1) = p + a + 1 by omega] at this
    rw [this]

theorem matchLower_sim {F : Prop} {p : Nat} {t u : Tokenizer} (c : Core F p t u) (s : List Nat) (q : Nat)
    (h : q + s.length ≤ u.buf.size) : matchLower t (p + q) s = matchLower u q s := by
  induction s generalizing q with
  | nil => simp [matchLower]
  | cons x xs ih =>
    simp only [List.length_cons] at h
    obtain ⟨h1, h2⟩ := c.getElem q (by omega)
    have hq : q < u.buf.size := by omega
    simp only [matchLower, h1, hq, dite_true, h2]
    have := ih (q + 1) (by omega)
    rw [show p + (q + 1) = p + q + 1 by omega] at this
    rw [this]

theorem startTagIn_sim {F : Prop} {p : Nat} {t u : Tokenizer} (c : Core F p t u) (ss : List (List Nat))
    (hd : u.dataS ≤ u.dataE) (hs : u.dataE ≤ u.buf.size) : startTagIn t ss = startTagIn u ss := by
  induction ss with
  | nil => rfl
  | cons s ss ih =>
    have e1 : t.dataE - t.dataS = u.dataE - u.dataS := by rw [c.dataE, c.dataS]; omega
    have hu : ¬ u.dataE < u.dataS := by omega
    have ht : ¬ t.dataE < t.dataS := by rw [c.dataE, c.dataS]; omega
    simp only [startTagIn, hu, ht, if_false, e1, ih]
    split
    · rfl
    · rename_i hlen
      have hlen' : u.dataE - u.dataS = s.length := by simpa using hlen
      rw [c.dataS, matchLower_sim c s u.dataS (by omega)]

theorem rawLookup_sim {F : Prop} {p : Nat} {t u : Tokenizer} (c : Core F p t u) (first : Nat)
    (tbl : List (Nat × List (List Nat))) (hd : u.dataS ≤ u.dataE) (hs : u.dataE ≤ u.buf.size) :
    rawLookup t first tbl = rawLookup u first tbl := by
  induction tbl with
  | nil => rfl
  | cons x tbl ih =>
    obtain ⟨l, names⟩ := x
    simp only [rawLookup, ih, startTagIn_sim c names hd hs]

theorem startTagRaw_sim {F : Prop} {p : Nat} (t u : Tokenizer) (c : Core F p t u) (hd : u.dataS < u.dataE)
    (hs : u.dataE ≤ u.buf.size) : Core F p (startTagRaw t) (startTagRaw u) := by
  unfold startTagRaw
  have hu : u.dataS < u.buf.size := by omega
  obtain ⟨ht, hb⟩ := c.getElem u.dataS hu
  have ht' : t.dataS < t.buf.size := by rw [c.dataS]; exact ht
  have hb' : t.buf[t.dataS] = u.buf[u.dataS] := by
    have : t.buf[t.dataS]? = t.buf[p + u.dataS]? := by rw [c.dataS]
    simp only [Array.getElem?_eq_getElem ht', Array.getElem?_eq_getElem ht, Option.some.injEq] at this
    rw [this, hb]
  simp only [hu, ht', dite_true, hb', rawLookup_sim c _ _ (by omega) hs]
  have hsl : t.slice? t.dataS t.dataE = u.slice? u.dataS u.dataE := by
    unfold slice?
    have h1 : t.dataS ≤ t.dataE ∧ t.dataE ≤ t.buf.size := by
      rw [c.dataS, c.dataE]; have := c.size; omega
    have h2 : u.dataS ≤ u.dataE ∧ u.dataE ≤ u.buf.size := ⟨by omega, hs⟩
    simp only [h1, h2, and_self, if_true, Option.some.injEq]
    have := c.extract (u.dataE - u.dataS) u.dataS (by omega)
    rw [c.dataS, c.dataE]
    rw [show p + u.dataS + (u.dataE - u.dataS) = p + u.dataE by omega,
      show u.dataS + (u.dataE - u.dataS) = u.dataE by omega] at this
    exact this
  rw [hsl]
  generalize u.rawLookup (lowerByte u.buf[u.dataS]) htmlRawDispatch = r
  generalize u.slice? u.dataS u.dataE = sl
  rcases r with _ | _ | _
  · exact ⟨c.size, c.agree, c.full, c.rawS, c.rawE, c.dataS, c.dataE, c.err, c.rawTag, c.cdata, rfl, c.hang, c.utf8⟩
  · exact c
  · rcases sl with _ | bs
    · exact ⟨c.size, c.agree, c.full, c.rawS, c.rawE, c.dataS, c.dataE, c.err, c.rawTag, c.cdata, rfl, c.hang, c.utf8⟩
    · simp only
      by_cases hv : validUtf8 bs = true
      · sif [hv]
        exact ⟨c.size, c.agree, c.full, c.rawS, c.rawE, c.dataS, c.dataE, c.err, rfl, c.cdata, c.panic, c.hang, c.utf8⟩
      · sif [hv]
        exact ⟨c.size, c.agree, c.full, c.rawS, c.rawE, c.dataS, c.dataE, c.err, c.rawTag, c.cdata, c.panic, c.hang, rfl⟩

theorem startTagKind_sim {F : Prop} {p : Nat} (t u : Tokenizer) (c : Core F p t u) (h2 : 2 ≤ u.rawE)
    (hs : u.rawE ≤ u.buf.size) : startTagKind t = startTagKind u := by
  unfold startTagKind
  have hu : u.rawE - 2 < u.buf.size := by omega
  obtain ⟨ht, hb⟩ := c.getElem (u.rawE - 2) hu
  have e : t.rawE - 2 = p + (u.rawE - 2) := by rw [c.rawE]; omega
  have ht' : t.rawE - 2 < t.buf.size := by rw [e]; exact ht
  have hb' : t.buf[t.rawE - 2] = u.buf[u.rawE - 2] := by
    have : t.buf[t.rawE - 2]? = t.buf[p + (u.rawE - 2)]? := by rw [e]
    simp only [Array.getElem?_eq_getElem ht', Array.getElem?_eq_getElem ht, Option.some.injEq] at this
    rw [this, hb]
  simp only [hu, ht', dite_true, hb', c.err]

theorem readStartTag_sim {F : Prop} {p : Nat} (t u : Tokenizer) (c : Core F p t u) (ok : Ok u) (h2 : 2 ≤ u.rawE)
    (htag : TagOk u.rawTag) (e : EO F (readStartTag u).1) :
    Core F p (readStartTag t).1 (readStartTag u).1 ∧ (readStartTag t).2 = (readStartTag u).2 := by
  have a1 := readTag_adv u true ok (by omega)
  have s1 := readTag_spec u true ok (by omega)
  have er : EO F (readTag u true) := e.back (fun h => by
    unfold readStartTag; simp only; simp [h])
  have r := readTag_sim t u true c ok (by omega) er
  unfold readStartTag
  simp only [r.err]
  generalize t.readTag true = t1 at *
  generalize u.readTag true = u1 at *
  have hle := a1.ok.le
  have hm := a1.mono
  by_cases h1 : u1.err = true
  · sif [h1]; exact ⟨r, by tr⟩
  · sif [h1]
    have sr := startTagRaw_sim t1 u1 r (by omega) (by omega)
    have hr := startTagRaw_spec u1 (by omega) (by omega)
    have hflags : (startTagRaw u1).panic = false ∧ (startTagRaw u1).utf8Err = false ∧
        (startTagRaw u1).rawE = u1.rawE ∧ (startTagRaw u1).buf = u1.buf := by
      rcases hr with h | ⟨bs, h, _⟩
      · rw [h]; exact ⟨a1.ok.panic, a1.ok.utf8, rfl, rfl⟩
      · rw [h]; exact ⟨a1.ok.panic, a1.ok.utf8, rfl, rfl⟩
    obtain ⟨f1, f2, f3, f4⟩ := hflags
    have k := startTagKind_sim _ _ sr (by omega) (by rw [f3, f4]; exact hle)
    have g1 : (startTagRaw t1).panic = false := by rw [sr.panic, f1]
    have g2 : (startTagRaw t1).utf8Err = false := by rw [sr.utf8, f2]
    have hnoU : ¬ ((startTagRaw u1).rawE < 2 || (startTagRaw u1).buf.size ≤ (startTagRaw u1).rawE - 2) = true := by
      simp only [Bool.or_eq_true, decide_eq_true_eq, not_or]; rw [f3, f4]; omega
    have hnoT : ¬ ((startTagRaw t1).rawE < 2 || (startTagRaw t1).buf.size ≤ (startTagRaw t1).rawE - 2) = true := by
      simp only [Bool.or_eq_true, decide_eq_true_eq, not_or]
      have h5 := sr.rawE
      have h6 := sr.size
      rw [f3] at h5
      rw [f4] at h6
      omega
    sif [f1, f2, g1, g2, Bool.or_self, hnoU, hnoT, k]
    exact ⟨sr, by tr⟩

end Tokenizer
end Rio.Html
