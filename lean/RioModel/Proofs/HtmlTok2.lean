/-
Stream laws of the tokenizer model, part 5: closed form of `htmlTokenize` on complete valid input
(`htmlTokenize_eq_toks`, `htmlTokenize?_isSome_of_valid`): none of the failure exits of the token loop is taken, and the
token list is the list `toks` of the tokens of `next` up to the first `ErrorToken`.
-/
import RioModel.Proofs.HtmlTok1
set_option linter.unusedSimpArgs false
set_option linter.unusedVariables false

namespace Rio.Filter
open Rio.Html Rio.Html.Tokenizer

/-! ### the two UTF-8 validators agree -/

/-- W6's validator state and the tokenizer model's validator state have the same fields -/
def SameSt (s : U8St) (s' : Tokenizer.U8St) : Prop := s'.need = s.need ∧ s'.lo = s.lo ∧ s'.hi = s.hi

/-- the two step functions agree on related states -/
def SameOpt : Option U8St → Option Tokenizer.U8St → Prop
  | some x, some y => SameSt x y
  | none, none => True
  | _, _ => False

theorem step_same (s : U8St) (s' : Tokenizer.U8St) (b : Nat) (r : SameSt s s') :
    SameOpt (u8Step s b) (utf8Step (some s') b) := by
  obtain ⟨r1, r2, r3⟩ := r
  unfold utf8Step u8Step
  simp only
  rw [r1, r2, r3]
  by_cases h0 : s.need = 0
  · rw [if_pos h0, if_pos h0]
    by_cases h1 : b < 128
    · rw [if_pos h1, if_pos h1]; exact ⟨rfl, rfl, rfl⟩
    · rw [if_neg h1, if_neg h1]
      by_cases h2 : (194 ≤ b && b ≤ 223) = true
      · rw [if_pos h2, if_pos h2]; exact ⟨rfl, rfl, rfl⟩
      · rw [if_neg h2, if_neg h2]
        by_cases h3 : (b == 224) = true
        · rw [if_pos h3, if_pos h3]; exact ⟨rfl, rfl, rfl⟩
        · rw [if_neg h3, if_neg h3]
          by_cases h4 : ((225 ≤ b && b ≤ 236) || b == 238 || b == 239) = true
          · rw [if_pos h4, if_pos h4]; exact ⟨rfl, rfl, rfl⟩
          · rw [if_neg h4, if_neg h4]
            by_cases h5 : (b == 237) = true
            · rw [if_pos h5, if_pos h5]; exact ⟨rfl, rfl, rfl⟩
            · rw [if_neg h5, if_neg h5]
              by_cases h6 : (b == 240) = true
              · rw [if_pos h6, if_pos h6]; exact ⟨rfl, rfl, rfl⟩
              · rw [if_neg h6, if_neg h6]
                by_cases h7 : (241 ≤ b && b ≤ 243) = true
                · rw [if_pos h7, if_pos h7]; exact ⟨rfl, rfl, rfl⟩
                · rw [if_neg h7, if_neg h7]
                  by_cases h8 : (b == 244) = true
                  · rw [if_pos h8, if_pos h8]; exact ⟨rfl, rfl, rfl⟩
                  · rw [if_neg h8, if_neg h8]
                    trivial
  · rw [if_neg h0, if_neg h0]
    by_cases h1 : (s.lo ≤ b && b ≤ s.hi) = true
    · rw [if_pos h1, if_pos h1]; exact ⟨rfl, rfl, rfl⟩
    · rw [if_neg h1, if_neg h1]; trivial

theorem foldl_none : ∀ l : Bytes, l.foldl utf8Step .none = .none
  | [] => rfl
  | x :: xs => by simp only [List.foldl_cons, utf8Step]; exact foldl_none xs

theorem run_same : ∀ (bs : Bytes) (s : U8St) (s' : Tokenizer.U8St), SameSt s s' →
    SameOpt (u8Run s bs) (bs.foldl utf8Step (some s'))
  | [], s, s', r => r
  | b :: bs, s, s', r => by
    simp only [List.foldl_cons, u8Run]
    have h := step_same s s' b r
    cases h1 : u8Step s b with
    | none =>
      cases h2 : utf8Step (some s') b with
      | none => simp only [foldl_none]; trivial
      | some y => rw [h1, h2] at h; exact h.elim
    | some x =>
      cases h2 : utf8Step (some s') b with
      | none => rw [h1, h2] at h; exact h.elim
      | some y =>
        rw [h1, h2] at h
        exact run_same bs x y h

theorem validUtf8_of_V {bs : Bytes} (h : V bs) : validUtf8 bs = true := by
  unfold validUtf8
  have r := run_same bs {} {} ⟨rfl, rfl, rfl⟩
  unfold V at h
  rw [h] at r
  cases hf : bs.foldl utf8Step (some {}) with
  | none => rw [hf] at r; exact r.elim
  | some y =>
    rw [hf] at r
    simp only
    have : y.need = 0 := r.1
    simp [this]

/-! ### the name of a tag token of a valid buffer is valid -/

theorem dataL_valid (t : Tokenizer) (hv : V t.buf.toList) (sp : Spans t) (f : TagFacts t) : V (dataL t) := by
  unfold dataL
  rw [extract_toList_eq]
  obtain ⟨c1, h1, l1⟩ := f.nameS.2
  obtain ⟨c2, h2, l2⟩ := f.nameE
  exact V_span _ _ sp.dataLo
    (vp_before hv _ c1 f.nameS.1 (by rw [Array.getElem?_toList]; exact h1) l1)
    (vp_at hv _ c2 (by rw [Array.getElem?_toList]; exact h2) l2)

/-! ### closed form of the token loop -/

/-- the token `tokenizeGo` records for the state after `next()` -/
def tokOf (t1 : Tokenizer) : Tok :=
  { kind := kindOf t1.token, raw := rawL t1, name := if isTagLike t1.token then (dataL t1).map lowerByte else [] }

/-- the tokens of `next` up to the first `ErrorToken`, and `raw() ++ buffered()` there (fuel `n`) -/
def toksGo : Nat → Tokenizer → List Tok × Bytes
  | 0, t => ([], restL t)
  | n + 1, t =>
    let t1 := t.next
    if t1.token == .error then ([], rawL t1 ++ restL t1)
    else (tokOf t1 :: (toksGo n t1).1, (toksGo n t1).2)

theorem next_tagName' (t : Tokenizer) (x : Option (List Nat) × Bool) (h : (tagName t).1 = .ok x) :
    Tokenizer.next (tagName t).2 = Tokenizer.next t := by
  rcases tagName_cases3 t with hc | hc | hc
  · rw [hc] at h; cases h
  · rw [hc]
  · rw [hc]; rfl

theorem toksGo_tagName (n : Nat) (t : Tokenizer) (x : Option (List Nat) × Bool) (h : (tagName t).1 = .ok x) :
    toksGo n (tagName t).2 = toksGo n t := by
  cases n with
  | zero =>
    simp only [toksGo]
    have s := tagName_same t x h
    unfold restL; rw [s.1, s.2.1]
  | succ n => simp only [toksGo, next_tagName' t x h]

theorem next_rawE_gt (t : Tokenizer) (inv : Tokenizer.Inv t) (hne : (Tokenizer.next t).token ≠ .error) :
    t.rawE < (Tokenizer.next t).rawE := by
  have := (next_post t inv).progress hne
  rw [next_rawS' t inv] at this
  exact this

theorem tokenizeGo_eq : ∀ (n : Nat) (t : Tokenizer) (acc : List Tok), LoopInv t → t.buf.size - t.rawE + 1 ≤ n →
    tokenizeGo n t acc = some (acc.reverse ++ (toksGo n t).1, (toksGo n t).2)
  | 0, _, _, _, hf => by omega
  | n + 1, t, acc, hi, hf => by
    have hi1 := hi.next
    have i1 := hi1.inv
    have hb := next_buf' t hi.inv
    rw [tokenizeGo]
    simp only [i1.ok.panic, i1.ok.hang, i1.ok.utf8, Bool.or_self, Bool.false_eq_true, if_false, toksGo]
    by_cases he : ((Tokenizer.next t).token == TokenType.error) = true
    · simp only [he, if_true, raw_eq _ i1, buffered_eq _ i1]
      simp
    · simp only [he, if_false, raw_eq _ i1]
      have hne : (Tokenizer.next t).token ≠ .error := by simpa using he
      have hgt := next_rawE_gt t hi.inv hne
      have hle := i1.ok.le
      have hf1 : (Tokenizer.next t).buf.size - (Tokenizer.next t).rawE + 1 ≤ n := by rw [hb] at hle ⊢; omega
      by_cases hk : isTagLike (Tokenizer.next t).token = true
      · simp only [hk, if_true]
        have sp := (next_post t hi.inv).spans
        have tf := next_tag t hi.inv hk
        have hv := validUtf8_of_V (dataL_valid _ hi1.hv sp tf)
        have ts := tagName_spec _ i1 sp hk
        rw [hv] at ts
        simp only [if_true] at ts
        have hx : (tagName (Tokenizer.next t)).1 = .ok (some ((dataL (Tokenizer.next t)).map lowerByte),
            decide ((Tokenizer.next t).nAttrRet < (Tokenizer.next t).attrs.size)) := ts.1
        have hl := hi1.tagName _ hx
        have hs := tagName_same _ _ hx
        have ih := tokenizeGo_eq n (tagName (Tokenizer.next t)).2
          ({ kind := kindOf (Tokenizer.next t).token, raw := rawL (Tokenizer.next t),
             name := (dataL (Tokenizer.next t)).map lowerByte } :: acc) hl (by rw [hs.1, hs.2.1]; exact hf1)
        rw [toksGo_tagName n _ _ hx] at ih
        generalize htn : tagName (Tokenizer.next t) = tn at *
        obtain ⟨res, t2⟩ := tn
        simp only at hx ih
        subst hx
        simp only
        rw [ih]
        simp [tokOf, hk]
      · simp only [hk, Bool.false_eq_true, if_false]
        rw [tokenizeGo_eq n _ _ hi1 hf1]
        simp [tokOf, hk]

/-- the tokens of `next` from `t` up to the first `ErrorToken` (the canonical amount of fuel) -/
def toks (t : Tokenizer) : List Tok × Bytes := toksGo (t.buf.size - t.rawE + 1) t

theorem toksGo_fuel : ∀ (n : Nat) (t : Tokenizer), Tokenizer.Inv t → t.buf.size - t.rawE + 1 ≤ n → toksGo n t = toks t
  | 0, _, _, hf => by omega
  | n + 1, t, inv, hf => by
    unfold toks
    have i1 := next_inv' t inv
    have hb := next_buf' t inv
    have hle := i1.ok.le
    have e : t.buf.size - t.rawE + 1 = (t.buf.size - t.rawE) + 1 := rfl
    rw [e]
    simp only [toksGo]
    by_cases he : ((Tokenizer.next t).token == TokenType.error) = true
    · simp only [he, if_true]
    · simp only [he, if_false]
      have hne : (Tokenizer.next t).token ≠ .error := by simpa using he
      have hgt := next_rawE_gt t inv hne
      have h1 : (Tokenizer.next t).buf.size - (Tokenizer.next t).rawE + 1 ≤ n := by rw [hb] at hle ⊢; omega
      have h2 : (Tokenizer.next t).buf.size - (Tokenizer.next t).rawE + 1 ≤ t.buf.size - t.rawE := by
        rw [hb] at hle ⊢; omega
      rw [toksGo_fuel n _ i1 h1, toksGo_fuel _ _ i1 h2]

/-- unfolding `toks` by one token -/
theorem toks_unfold (t : Tokenizer) (inv : Tokenizer.Inv t) :
    toks t = if (Tokenizer.next t).token == .error then ([], rawL (Tokenizer.next t) ++ restL (Tokenizer.next t))
      else (tokOf (Tokenizer.next t) :: (toks (Tokenizer.next t)).1, (toks (Tokenizer.next t)).2) := by
  have i1 := next_inv' t inv
  have hb := next_buf' t inv
  have hle := i1.ok.le
  unfold toks
  have e : t.buf.size - t.rawE + 1 = (t.buf.size - t.rawE) + 1 := rfl
  rw [e]
  simp only [toksGo]
  by_cases he : ((Tokenizer.next t).token == TokenType.error) = true
  · simp only [he, if_true]
  · simp only [he, if_false]
    have hne : (Tokenizer.next t).token ≠ .error := by simpa using he
    have hgt := next_rawE_gt t inv hne
    have h2 : (Tokenizer.next t).buf.size - (Tokenizer.next t).rawE + 1 ≤ t.buf.size - t.rawE := by
      rw [hb] at hle ⊢; omega
    rw [toksGo_fuel _ _ i1 h2]
    rfl

/-- **on complete valid input the token loop takes none of its failure exits**, and its result is `toks` -/
theorem htmlTokenize?_eq_toks (d : Bytes) (hv : V d) : htmlTokenize? d = some (toks (Tokenizer.new d.toArray)) := by
  unfold htmlTokenize?
  have hl := loopInv_new d hv
  have hf : (Tokenizer.new d.toArray).buf.size - (Tokenizer.new d.toArray).rawE + 1 ≤ d.length + 2 := by
    simp [Tokenizer.new]
  rw [tokenizeGo_eq _ _ [] hl hf, toksGo_fuel _ _ hl.inv hf]
  simp

theorem htmlTokenize?_isSome_of_valid (d : Bytes) (hv : V d) : (htmlTokenize? d).isSome = true := by
  rw [htmlTokenize?_eq_toks d hv]; rfl

theorem htmlTokenize_eq_toks (d : Bytes) (hv : V d) : htmlTokenize d = toks (Tokenizer.new d.toArray) := by
  rw [htmlTokenize_apply, htmlTokenize?_eq_toks d hv]; rfl

end Rio.Filter
