/-
Router proofs (W16, property C02): the TRANSLATED `insert` / `remove` / `batch_remove` / `len` / `is_empty` of
`HostMatcher` and `PathAndQueryMatcher` (`Rio.Consts.genHost*` / `genPath*`, regenerated from the Rust source by
tools/consts_dev/w16_count.py) are the hand-written model's (`HostT.*`, `PathT.*` of Model/RouterTreeLayers.lean).

The translation abstracts every method of the static map, of the inner matcher and of the regex tree.  This file gives
the instantiations (`CountGen.map*` = `HashMap` as the list of its entries, `CountGen.tree*` = the tree model of
Model/Tree.lean) and proves, function by function, the closed form

    translated f (fields of s) args = if <a `count -= 1` is reached with `count = 0`> then none
                                      else some (result of the model, fields of the model's new state)

with NO hypothesis on the state; Props/C02gen.lean discharges the panic condition under the representation relation.

The path layer's `static_rules` is a map of maps in the code and ONE association list keyed `(path, id)` in the model:
`PathN` is the nested form (what the translated code is literally equal to), `flatN` the abstraction function, and
`SEquiv` (same entries per path, in the same order) the relation under which the flat model's operations are the
nested ones (`remove` / `batch_remove`: equal lists, no hypothesis; `insert`: per path, because a new rule of an
existing path is appended to ITS inner map by the code and to the end of the one list by the model).
-/
import RioModel.Proofs.RouterUnderflow
import RioModel.Generated.Consts

set_option linter.unusedSimpArgs false
set_option linter.unusedVariables false
set_option linter.unusedSectionVars false

namespace Rio.Router
open Rio.Consts Rio.Tree

namespace CountGen

/-! ## `HashMap` as the list of its entries -/

section
variable {K V : Type} [DecidableEq K]

/-- `map.contains_key(k)` -/
def mapContainsKey (k : K) (m : List (K × V)) : Bool := (alookup k m).isSome
/-- `map.insert(k, v)` (the value of an existing key is replaced, a new key goes to the end of the iteration order) -/
def mapInsert (k : K) (v : V) (m : List (K × V)) : List (K × V) := aupsert (fun _ => v) v k m
/-- `*map.get_mut(k).unwrap() = f(..)` -/
def mapModify (k : K) (f : V → V) : List (K × V) → List (K × V)
  | [] => []
  | (k', v) :: rest => if k' = k then (k', f v) :: rest else (k', v) :: mapModify k f rest
/-- `map.retain(closure)`: every entry is visited once, in iteration order; the closure gets the key, `&mut` value
and the local it assigns. -/
def mapRetain {χ : Type} (f : K → V → χ → Bool × V × χ) : List (K × V) → χ → List (K × V) × χ
  | [], s => ([], s)
  | (k, v) :: rest, s =>
    ((if (f k v s).1 then (k, (f k v s).2.1) :: (mapRetain f rest (f k v s).2.2).1
      else (mapRetain f rest (f k v s).2.2).1), (mapRetain f rest (f k v s).2.2).2)

theorem modify_of_contains (f : V → V) (emp : V) (k : K) (m : List (K × V))
    (h : mapContainsKey k m = true) : mapModify k f m = aupsert f emp k m := by
  induction m with
  | nil => simp [mapContainsKey, alookup] at h
  | cons a m ih =>
    obtain ⟨k', v⟩ := a
    by_cases e : k' = k
    · simp [mapModify, aupsert, e]
    · have : mapContainsKey k m = true := by simpa [mapContainsKey, alookup, e] using h
      simp [mapModify, aupsert, e, ih this]

theorem modify_insert_of_not_contains (f : V → V) (emp : V) (k : K) (m : List (K × V))
    (h : mapContainsKey k m = false) :
    mapContainsKey k (mapInsert k emp m) = true ∧ mapModify k f (mapInsert k emp m) = aupsert f emp k m := by
  induction m with
  | nil => simp [mapContainsKey, mapInsert, aupsert, alookup, mapModify]
  | cons a m ih =>
    obtain ⟨k', v⟩ := a
    by_cases e : k' = k
    · simp [mapContainsKey, alookup, e] at h
    · have hm : mapContainsKey k m = false := by simpa [mapContainsKey, alookup, e] using h
      have := ih hm
      constructor
      · simpa [mapContainsKey, mapInsert, aupsert, alookup, e] using this.1
      · simpa [mapInsert, aupsert, mapModify, e] using this.2

end

/-! ## The regex tree -/

section
variable {ι V : Type} [DecidableEq ι]

/-- `tree.retain(&closure)`: the closure decides / updates every stored value (`Item.retain`) and is called once per
stored value, in tree order (`Item.contents`, C08 `iter_enumerates`); whether a value is kept and its new value do
not depend on the captured local (proved for the translated closures: `*_state_independent` in Props/C02gen.lean). -/
def treeRetain {χ : Type} (f : ι → V → χ → Bool × V × χ) (t : Item ι V) (s : χ) : Item ι V × χ :=
  (t.retain (fun k v => if (f k v s).1 then some (f k v s).2.1 else none),
   t.contents.foldl (fun s e => (f e.id e.val s).2.2) s)

end

/-- `regex_tree_rule.get_mut(k).is_some()` (UniqueRegexTreeMap) -/
def treeContains {V : Type} (k : List Char) (t : Item (List Char) V) : Bool := (uGet t k).isSome
/-- `regex_tree_rule.get_mut(k)` followed by an in-place update -/
def treeModify {V : Type} (k : List Char) (f : V → V) (t : Item (List Char) V) : Item (List Char) V :=
  t.modifyAt k (fun _ m => f m)

/-- `marker::StaticOrDynamic` of the model as the translated one. -/
def sod : SoD → GenSoD String Pat
  | .static s => .static s
  | .dyn p => .dynamic p

end CountGen

open CountGen

/-! ## HostMatcher -/

section
variable (T : TEnv) (I : MOps)

/-- the mutable fields of `HostMatcher`, in the order of the translation -/
def HostTState.fields (s : HostTState I) : List (String × I.M) × Item (List Char) I.M × I.M × Nat :=
  (s.statics, s.tree, s.any, s.count)

theorem genHostInsert_eq (r : Route) (s : HostTState I) :
    genHostInsert (fun r => r.host.map sod) T.render (fun h => decide (h = "")) I.empty I.insert
      mapContainsKey mapInsert mapModify treeContains treeModify (fun k v t => uInsert t k v)
      s.statics s.tree s.any s.count r
    = some ((), (HostT.insert T I r s).fields) := by
  unfold genHostInsert HostT.insert HostTState.fields
  cases hh : r.host with
  | none => simp [hh]
  | some x =>
    cases x with
    | static h =>
      by_cases e : h = ""
      · simp [hh, sod, e]
      · cases hc : mapContainsKey h s.statics
        · have := modify_insert_of_not_contains (I.insert r) I.empty h s.statics hc
          simp [hh, sod, e, hc, this.1, this.2]
        · have := modify_of_contains (I.insert r) I.empty h s.statics hc
          simp [hh, sod, e, hc, this]
    | dyn p =>
      cases hg : uGet s.tree (T.render p) <;> simp [hh, sod, treeContains, treeModify, hg]

/-- the closure of the two `retain`s of `HostMatcher::remove`, as a specification of a translated closure -/
def IsHitClosure {κ : Type} (id : String) (f : κ → I.M → Option Route → Bool × I.M × Option Route) : Prop :=
  ∀ k v s, f k v s = (!I.isEmpty (I.remove id v).1, (I.remove id v).1, ((I.remove id v).2).orElse (fun _ => s))

theorem mapRetain_removeAll {κ : Type} [DecidableEq κ] (id : String)
    (f : κ → I.M → Option Route → Bool × I.M × Option Route) (hf : IsHitClosure I id f)
    (m : List (κ × I.M)) (init : Option Route) :
    mapRetain f m init = ((removeAll I id m).1, ((removeAll I id m).2).orElse (fun _ => init)) := by
  induction m generalizing init with
  | nil => simp [mapRetain, removeAll]
  | cons a m ih =>
    obtain ⟨k, v⟩ := a
    simp only [mapRetain, removeAll, hf k v init, ih]
    cases he : I.isEmpty (I.remove id v).1 <;> cases hr : (removeAll I id m).2 <;> simp

theorem treeRetain_remove (id : String)
    (f : List Char → I.M → Option Route → Bool × I.M × Option Route) (hf : IsHitClosure I id f)
    (t : Item (List Char) I.M) :
    treeRetain f t none =
      (t.retain (fun _ m => pruneVal I (fun m => (I.remove id m).1) m), lastHit I id (t.contents.map (·.val))) := by
  unfold treeRetain
  congr 1
  · congr 1
    funext k v
    rw [hf k v none]
    simp only [pruneVal]
    cases I.isEmpty (I.remove id v).1 <;> simp
  · unfold lastHit
    rw [List.foldl_map]
    congr 1
    funext s e
    rw [hf e.id e.val s]
    rfl

theorem genHostRemove_eq (id : String) (s : HostTState I) :
    genHostRemove I.remove I.isEmpty mapRetain treeRetain s.statics s.tree s.any s.count id
    = if (HostT.remove I id s).2.isSome && s.count == 0 then none
      else some ((HostT.remove I id s).2, (HostT.remove I id s).1.fields) := by
  unfold genHostRemove HostT.remove HostTState.fields
  cases ha : (I.remove id s.any).2 with
  | some r0 =>
    have : I.remove id s.any = ((I.remove id s.any).1, some r0) := by rw [← ha]
    rw [this]
    by_cases hc : s.count = 0 <;> simp [hc]
  | none =>
    have : I.remove id s.any = ((I.remove id s.any).1, none) := by rw [← ha]
    rw [this]
    simp only [Option.isSome_none, Bool.false_eq_true, if_false]
    rw [mapRetain_removeAll I id _ ?h1, treeRetain_remove I id _ ?h2]
    case h1 => intro k v st; dsimp only; split <;> rename_i heq <;> simp [heq]
    case h2 => intro k v st; dsimp only; split <;> rename_i heq <;> simp [heq]
    cases hs : (removeAll I id s.statics).2 <;>
      cases hl : lastHit I id (s.tree.contents.map (·.val)) <;>
      by_cases hc : s.count = 0 <;> simp [hs, hl, hc]

/-- the closure of the two `retain`s of `HostMatcher::batch_remove` -/
def IsPruneClosure {κ : Type} (g : I.M → I.M) (f : κ → I.M → Unit → Bool × I.M × Unit) : Prop :=
  ∀ k v s, f k v s = (!I.isEmpty (g v), g v, ())

theorem mapRetain_batch {κ : Type} [DecidableEq κ] (ids : List String)
    (f : κ → I.M → Unit → Bool × I.M × Unit) (hf : IsPruneClosure I (I.batchRemove ids) f)
    (m : List (κ × I.M)) : mapRetain f m () = (batchAll I ids m, ()) := by
  induction m with
  | nil => simp [mapRetain, batchAll]
  | cons a m ih =>
    obtain ⟨k, v⟩ := a
    have ih' : mapRetain f m () = (batchAll I ids m, ()) := ih
    simp only [mapRetain, hf k v (), ih']
    cases he : I.isEmpty (I.batchRemove ids v) <;> simp [batchAll, he]

theorem treeRetain_batch (g : I.M → I.M)
    (f : List Char → I.M → Unit → Bool × I.M × Unit) (hf : IsPruneClosure I g f)
    (t : Item (List Char) I.M) :
    treeRetain f t () = (t.retain (fun _ m => pruneVal I g m), ()) := by
  unfold treeRetain
  congr 1
  congr 1
  funext k v
  rw [hf k v ()]
  simp only [pruneVal]
  cases I.isEmpty (g v) <;> simp

theorem genHostBatchRemove_eq (ids : List String) (s : HostTState I) :
    genHostBatchRemove I.batchRemove I.isEmpty mapRetain List.isEmpty treeRetain Item.isEmpty
      s.statics s.tree s.any s.count ids
    = some ((I.isEmpty (HostT.batchRemove I ids s).any && (HostT.batchRemove I ids s).statics.isEmpty
              && (HostT.batchRemove I ids s).tree.isEmpty),
            (HostT.batchRemove I ids s).fields) := by
  unfold genHostBatchRemove HostT.batchRemove HostTState.fields
  dsimp only
  rw [mapRetain_batch I ids _ ?h1, treeRetain_batch I (I.batchRemove ids) _ ?h2]
  case h1 => intro k v st; rfl
  case h2 => intro k v st; rfl

end

/-! ## PathAndQueryMatcher -/

namespace CountGen

/-- `HashMap<String, Arc<Route>>::remove(id)` of an inner map of `static_rules` -/
def imapRemove (id : String) : List (String × Route) → List (String × Route) × Option Route
  | [] => ([], none)
  | (k, r) :: rest =>
    if k = id then (rest, some r) else ((k, r) :: (imapRemove id rest).1, (imapRemove id rest).2)

/-- `static_rules` (a map of maps) as the model's one association list keyed `(path, id)` -/
def flatN (m : List (String × List (String × Route))) : List ((String × String) × Route) :=
  m.flatMap (fun b => b.2.map (fun e => ((b.1, e.1), e.2)))

/-- the closure of `static_rules.retain` in `PathAndQueryMatcher::remove`, hand-written -/
def pathRemoveClos (id : String) :
    String → List (String × Route) → Option Route → Bool × List (String × Route) × Option Route :=
  fun _ m st => if st.isSome then (true, m, st) else (!(imapRemove id m).1.isEmpty, (imapRemove id m).1, (imapRemove id m).2)

/-- the closure of `static_rules.retain` in `PathAndQueryMatcher::batch_remove`, hand-written -/
def pathBatchClos (ids : List String) :
    String → List (String × Route) → Unit → Bool × List (String × Route) × Unit :=
  fun _ m _ => (!(m.filter (fun e => !ids.contains e.1)).isEmpty, m.filter (fun e => !ids.contains e.1), ())

theorem mapRetain_congr {K V χ : Type} (f g : K → V → χ → Bool × V × χ) (h : ∀ k v s, f k v s = g k v s)
    (m : List (K × V)) (s : χ) : mapRetain f m s = mapRetain g m s := by
  have : f = g := by funext k v s; exact h k v s
  rw [this]

theorem mapRetain_filter {K V : Type} (pr : K → V → Bool) (f : K → V → Unit → Bool × V × Unit)
    (hf : ∀ k v s, f k v s = (pr k v, v, ())) (m : List (K × V)) :
    mapRetain f m () = (m.filter (fun e => pr e.1 e.2), ()) := by
  induction m with
  | nil => simp [mapRetain]
  | cons a m ih =>
    obtain ⟨k, v⟩ := a
    have ih' : mapRetain f m () = (m.filter (fun e => pr e.1 e.2), ()) := ih
    simp only [mapRetain, hf k v (), ih', List.filter_cons]
    try (cases pr k v <;> simp)

theorem entryRemove_map (id p : String) (m : List (String × Route)) :
    entryRemove id (m.map (fun e => ((p, e.1), e.2))) =
      ((imapRemove id m).1.map (fun e => ((p, e.1), e.2)), (imapRemove id m).2) := by
  induction m with
  | nil => simp [entryRemove, imapRemove]
  | cons a m ih =>
    obtain ⟨k, r⟩ := a
    by_cases e : k = id
    · simp [entryRemove, imapRemove, e]
    · simp [entryRemove, imapRemove, e, ih]

theorem entryRemove_append {P : Type} (id : String) (a b : List ((P × String) × Route)) :
    entryRemove id (a ++ b) =
      (match (entryRemove id a).2 with
       | some r => ((entryRemove id a).1 ++ b, some r)
       | none => ((entryRemove id a).1 ++ (entryRemove id b).1, (entryRemove id b).2)) := by
  induction a with
  | nil => simp [entryRemove]
  | cons e a ih =>
    by_cases he : e.1.2 = id
    · simp [entryRemove, he]
    · simp only [List.cons_append, entryRemove, he, if_false, ih]
      cases (entryRemove id a).2 <;> simp

theorem mapRetain_found (id : String) (m : List (String × List (String × Route))) (r : Route) :
    mapRetain (pathRemoveClos id) m (some r) = (m, some r) := by
  induction m with
  | nil => simp [mapRetain]
  | cons a m ih =>
    obtain ⟨k, v⟩ := a
    simp [mapRetain, pathRemoveClos, ih]

/-- the nested `retain` of `remove` is the model's `entryRemove` on the flattened list -/
theorem nestedRemove_flat (id : String) (m : List (String × List (String × Route))) :
    flatN (mapRetain (pathRemoveClos id) m none).1 = (entryRemove id (flatN m)).1 ∧
    (mapRetain (pathRemoveClos id) m none).2 = (entryRemove id (flatN m)).2 := by
  induction m with
  | nil => simp [mapRetain, flatN, entryRemove]
  | cons a m ih =>
    obtain ⟨p, b⟩ := a
    have hfl : flatN ((p, b) :: m) = b.map (fun e => ((p, e.1), e.2)) ++ flatN m := by simp [flatN]
    rw [hfl, entryRemove_append, entryRemove_map]
    cases hr : (imapRemove id b).2 with
    | some r =>
      simp only [mapRetain, pathRemoveClos, hr, mapRetain_found]
      cases he : (imapRemove id b).1.isEmpty
      · simp_all [flatN, mapRetain_found]
      · have : (imapRemove id b).1 = [] := by simpa using he
        simp_all [flatN, mapRetain_found]
    | none =>
      simp only [mapRetain, pathRemoveClos, hr]
      cases he : (imapRemove id b).1.isEmpty
      · simp_all [flatN]
      · have : (imapRemove id b).1 = [] := by simpa using he
        simp_all [flatN]

/-- the nested `retain`s of `batch_remove` are the model's `filter` on the flattened list -/
theorem nestedBatch_flat (ids : List String) (m : List (String × List (String × Route))) :
    flatN (mapRetain (pathBatchClos ids) m ()).1 = (flatN m).filter (fun e => !ids.contains e.1.2) := by
  induction m with
  | nil => simp [mapRetain, flatN]
  | cons a m ih =>
    obtain ⟨p, b⟩ := a
    have ih' : flatN (mapRetain (pathBatchClos ids) m ()).1 = (flatN m).filter (fun e => !ids.contains e.1.2) := ih
    have hfl : ∀ (b : List (String × Route)) m, flatN ((p, b) :: m) = b.map (fun e => ((p, e.1), e.2)) ++ flatN m := by
      intro b m; simp [flatN]
    simp only [mapRetain, pathBatchClos]
    rw [hfl b, List.filter_append, ← ih']
    have hm : List.filter (fun e => !ids.contains e.1.2) (b.map (fun e => ((p, e.1), e.2)))
        = (List.filter (fun e => !ids.contains e.1) b).map (fun e => ((p, e.1), e.2)) := by
      rw [List.filter_map]; rfl
    rw [hm]
    by_cases h0 : List.filter (fun e => !ids.contains e.1) b = []
    · simp only [h0, List.isEmpty_nil, Bool.not_true, Bool.false_eq_true, if_false, List.map_nil, List.nil_append]
    · have : (List.filter (fun e => !ids.contains e.1) b).isEmpty = false := by simpa using h0
      simp only [this, Bool.not_false, if_true, hfl]

end CountGen

section
variable (T : TEnv)

/-- the mutable fields of `PathAndQueryMatcher` in the translation's order; `static_rules` NESTED as in the code -/
abbrev PathFields := Item String Route × List (String × List (String × Route)) × Nat

/-- the model state a nested state stands for -/
def PathFields.abs (n : PathFields) : PathTState := ⟨n.1, flatN n.2.1, n.2.2⟩

theorem genPathInsert_eq (r : Route) (n : PathFields) :
    genPathInsert (fun r => sod r.path) T.render (fun r => r.id) ([] : List (String × Route))
      (fun id r m => mapInsert id r m) mapContainsKey mapInsert mapModify (fun p id r t => Item.insert t p id r)
      n.1 n.2.1 n.2.2 r
    = some ((), match r.path with
        | .static p => (n.1, aupsert (fun m => mapInsert r.id r m) [] p n.2.1, n.2.2 + 1)
        | .dyn p => (n.1.insert (T.render p) r.id r, n.2.1, n.2.2 + 1)) := by
  unfold genPathInsert
  cases hp : r.path with
  | static p =>
    cases hc : mapContainsKey p n.2.1
    · have := modify_insert_of_not_contains (fun m => mapInsert r.id r m) [] p n.2.1 hc
      simp [hp, sod, hc, this.1, this.2]
    · have := modify_of_contains (fun m => mapInsert r.id r m) [] p n.2.1 hc
      simp [hp, sod, hc, this]
  | dyn p => simp [hp, sod]

theorem genPathRemove_eq (id : String) (n : PathFields) :
    genPathRemove imapRemove List.isEmpty mapRetain (fun id t => Item.remove t id) n.1 n.2.1 n.2.2 id
    = if (PathT.remove id n.abs).2.isSome && n.2.2 == 0 then none
      else some ((PathT.remove id n.abs).2, (n.1.remove id).1,
        (match (n.1.remove id).2 with
         | some _ => n.2.1
         | none => (mapRetain (pathRemoveClos id) n.2.1 none).1),
        (PathT.remove id n.abs).1.count) := by
  unfold genPathRemove PathT.remove PathFields.abs
  cases ht : (n.1.remove id).2 with
  | some r0 =>
    have : n.1.remove id = ((n.1.remove id).1, some r0) := by rw [← ht]
    dsimp only
    rw [this]
    by_cases hc : n.2.2 = 0 <;> simp [hc]
  | none =>
    have : n.1.remove id = ((n.1.remove id).1, none) := by rw [← ht]
    dsimp only
    rw [this]
    dsimp only
    rw [mapRetain_congr _ (pathRemoveClos id) ?h1]
    case h1 =>
      intro k v st
      cases st <;> simp [pathRemoveClos]
    have hf := nestedRemove_flat id n.2.1
    rw [← hf.2]
    cases hs : (mapRetain (pathRemoveClos id) n.2.1 none).2 <;> by_cases hc : n.2.2 = 0 <;> simp [hs, hc]

/-- the new `static_rules` of the translated `remove`, flattened, is the model's -/
theorem genPathRemove_statics (id : String) (n : PathFields) :
    flatN (match (n.1.remove id).2 with
         | some _ => n.2.1
         | none => (mapRetain (pathRemoveClos id) n.2.1 none).1) = (PathT.remove id n.abs).1.statics := by
  unfold PathT.remove PathFields.abs
  cases ht : (n.1.remove id).2 with
  | some r0 => simp [ht]
  | none => simp [ht, (nestedRemove_flat id n.2.1).1]

/-- the new tree of the translated `remove` is the model's when the tree invariant holds (the model keeps the OLD tree
when `regex_tree_rule.remove(id)` found nothing; the code keeps what `remove` left: the same, `Tree.remove_none`) -/
theorem genPathRemove_tree (id : String) (n : PathFields) (ic : Bool) (hinv : n.1.inv ic = true) :
    (n.1.remove id).1 = (PathT.remove id n.abs).1.tree := by
  unfold PathT.remove PathFields.abs
  cases ht : (n.1.remove id).2 with
  | some r0 => simp [ht]
  | none => simp [ht, Tree.remove_none n.1 id hinv ht]

theorem genPathBatchRemove_eq (ids : List String) (n : PathFields) :
    genPathBatchRemove (fun (ids : List String) id => ids.contains id) mapRetain List.isEmpty mapRetain List.isEmpty
      treeRetain Item.isEmpty n.1 n.2.1 n.2.2 ids
    = some (((mapRetain (pathBatchClos ids) n.2.1 ()).1.isEmpty && (PathT.batchRemove ids n.abs).tree.isEmpty),
        (PathT.batchRemove ids n.abs).tree, (mapRetain (pathBatchClos ids) n.2.1 ()).1, (PathT.batchRemove ids n.abs).count) := by
  unfold genPathBatchRemove PathT.batchRemove PathFields.abs
  dsimp only
  rw [mapRetain_congr _ (pathBatchClos ids) ?h1]
  case h1 =>
    intro k v st
    rw [mapRetain_filter (fun id _ => !ids.contains id) _ (fun _ _ _ => rfl)]
    rfl
  have ht : treeRetain (fun x4 x5 (_ : Unit) => ((!ids.contains x4), x5, ())) n.1 ()
      = (n.1.retain (keepIf fun id _ => !ids.contains id), ()) := by
    unfold treeRetain keepIf
    rfl
  rw [ht]

end

/-! ## `static_rules`: the nested map of the code and the flat list of the model, per path -/

namespace CountGen

/-- same entries per path, in the same order (all that `match_request` / `trace` read of `static_rules`) -/
def SEquiv (a b : List ((String × String) × Route)) : Prop :=
  ∀ p : String, a.filter (fun e => e.1.1 == p) = b.filter (fun e => e.1.1 == p)

theorem SEquiv.refl (a : List ((String × String) × Route)) : SEquiv a a := fun _ => rfl

theorem SEquiv.mem {a b : List ((String × String) × Route)} (h : SEquiv a b) (e : (String × String) × Route) :
    e ∈ a ↔ e ∈ b := by
  have := h e.1.1
  constructor
  · intro he
    have : e ∈ a.filter (fun x => x.1.1 == e.1.1) := by simp [he]
    rw [h e.1.1] at this
    exact (List.mem_filter.1 this).1
  · intro he
    have : e ∈ b.filter (fun x => x.1.1 == e.1.1) := by simp [he]
    rw [← h e.1.1] at this
    exact (List.mem_filter.1 this).1

/-- `batch_remove` on the flat list respects `SEquiv` -/
theorem SEquiv.filter {a b : List ((String × String) × Route)} (h : SEquiv a b) (g : (String × String) × Route → Bool) :
    SEquiv (a.filter g) (b.filter g) := by
  intro p
  rw [List.filter_filter, List.filter_filter]
  have : ∀ l : List ((String × String) × Route),
      l.filter (fun e => (e.1.1 == p) && g e) = (l.filter (fun e => e.1.1 == p)).filter g := by
    intro l; rw [List.filter_filter]; congr 1; funext e; rw [Bool.and_comm]
  rw [this, this, h p]

theorem filter_aupsert_path (f : Route → Route) (emp : Route) (p id p' : String) (l : List ((String × String) × Route)) :
    (aupsert f emp (p, id) l).filter (fun e => e.1.1 == p') =
      if p = p' then aupsert f emp (p, id) (l.filter (fun e => e.1.1 == p')) else l.filter (fun e => e.1.1 == p') := by
  induction l with
  | nil =>
    by_cases e : p = p' <;> simp [aupsert, e]
  | cons a l ih =>
    obtain ⟨⟨pa, ia⟩, ra⟩ := a
    by_cases hk : (pa, ia) = (p, id)
    · obtain ⟨h1, h2⟩ := Prod.mk.inj hk
      subst h1; subst h2
      by_cases e : pa = p' <;> simp [aupsert, e, List.filter_cons]
    · by_cases e : p = p'
      · subst e
        rw [if_pos rfl] at ih ⊢
        by_cases e2 : pa = p
        · subst e2
          have hi : ¬ ia = id := fun h => hk (by rw [h])
          simp [aupsert, hi, List.filter_cons, ih]
        · have e3 : ¬ (pa = p ∧ ia = id) := fun h => e2 h.1
          simp [aupsert, e3, List.filter_cons, e2, ih]
      · simp only [e, if_false] at ih ⊢
        have e' : ¬ p' = p := fun h => e h.symm
        by_cases e2 : pa = p'
        · subst e2
          simp [aupsert, e', List.filter_cons, ih]
        · have e3 : ¬ (pa = p ∧ ia = id) := fun h => hk (by rw [h.1, h.2])
          simp [aupsert, e3, List.filter_cons, e2, ih]

/-- `insert` on the flat list respects `SEquiv` -/
theorem SEquiv.aupsert {a b : List ((String × String) × Route)} (h : SEquiv a b) (f : Route → Route) (emp : Route)
    (p id : String) : SEquiv (aupsert f emp (p, id) a) (aupsert f emp (p, id) b) := by
  intro p'
  rw [filter_aupsert_path, filter_aupsert_path, h p']

theorem aupsert_map_inner (p id : String) (r : Route) (b : List (String × Route)) :
    aupsert (fun _ => r) r (p, id) (b.map (fun e => ((p, e.1), e.2))) =
      (mapInsert id r b).map (fun e => ((p, e.1), e.2)) := by
  induction b with
  | nil => simp [aupsert, mapInsert]
  | cons a b ih =>
    obtain ⟨k, v⟩ := a
    by_cases e : k = id
    · simp [aupsert, mapInsert, e]
    · have : ¬ (p, k) = (p, id) := fun h => e (Prod.mk.inj h).2
      simp only [mapInsert] at ih
      simp [aupsert, mapInsert, e, ih]

theorem alookup_none_of_not_mem {K V : Type} [DecidableEq K] (k : K) (m : List (K × V)) (h : k ∉ akeys m) :
    alookup k m = none := by
  induction m with
  | nil => rfl
  | cons a m ih =>
    obtain ⟨k', v⟩ := a
    simp only [akeys, List.map_cons, List.mem_cons, not_or] at h
    have : ¬ k' = k := fun e => h.1 e.symm
    simp only [alookup, this, if_false]
    exact ih h.2

theorem filter_flatN (p' : String) (m : List (String × List (String × Route))) (hn : (akeys m).Nodup) :
    (flatN m).filter (fun e => e.1.1 == p') = ((alookup p' m).getD []).map (fun e => ((p', e.1), e.2)) := by
  induction m with
  | nil => simp [flatN, alookup]
  | cons a m ih =>
    obtain ⟨pa, b⟩ := a
    have hfl : flatN ((pa, b) :: m) = b.map (fun e => ((pa, e.1), e.2)) ++ flatN m := by simp [flatN]
    have hn' : pa ∉ akeys m ∧ (akeys m).Nodup := by
      have : akeys ((pa, b) :: m) = pa :: akeys m := rfl
      rw [this, List.nodup_cons] at hn; exact hn
    rw [hfl, List.filter_append, ih hn'.2]
    by_cases e : pa = p'
    · subst e
      rw [alookup_none_of_not_mem pa m hn'.1]
      have ht : ∀ l : List (String × Route), l.filter (fun _ => true) = l := fun l => List.filter_eq_self.2 (by simp)
      simp [alookup, List.filter_map, Function.comp_def, ht]
    · have hb : (pa == p') = false := by simpa using e
      simp [alookup, e, List.filter_map, Function.comp_def, hb]

/-- `insert` of a static path: the code's nested upsert is the model's flat upsert, per path -/
theorem nestedInsert_flat (p id : String) (r : Route) (m : List (String × List (String × Route)))
    (hn : (akeys m).Nodup) :
    SEquiv (flatN (aupsert (fun b => mapInsert id r b) [] p m)) (aupsert (fun _ => r) r (p, id) (flatN m)) := by
  intro p'
  rw [filter_flatN p' _ (akeys_aupsert_nodup _ _ _ _ hn), alookup_aupsert, filter_aupsert_path, filter_flatN p' m hn]
  by_cases e : p' = p
  · subst e
    simp [aupsert_map_inner]
  · have e' : ¬ p = p' := fun h => e h.symm
    simp [e, e']

/-- every entry stored under `id` has the path `p0` -/
def AllAt (id p0 : String) (t : List ((String × String) × Route)) : Prop := ∀ e ∈ t, e.1.2 = id → e.1.1 = p0

theorem entryRemove_filter (id p0 : String) (t : List ((String × String) × Route)) (h : AllAt id p0 t) (p : String) :
    (entryRemove id t).1.filter (fun e => e.1.1 == p) =
      (if p = p0 then (entryRemove id (t.filter (fun e => e.1.1 == p0))).1 else t.filter (fun e => e.1.1 == p)) ∧
    (entryRemove id t).2 = (entryRemove id (t.filter (fun e => e.1.1 == p0))).2 := by
  induction t with
  | nil => simp [entryRemove]
  | cons e t ih =>
    have ih' := ih (fun x hx => h x (List.mem_cons_of_mem _ hx))
    by_cases he : e.1.2 = id
    · have hp : e.1.1 = p0 := h e (List.mem_cons_self ..) he
      have hb : (e.1.1 == p0) = true := by simpa using hp
      by_cases e2 : p = p0
      · subst e2
        simp [entryRemove, he, List.filter_cons, hb]
      · have hb2 : (e.1.1 == p) = false := by
          simp only [beq_eq_false_iff_ne, ne_eq]; rw [hp]; exact fun h => e2 h.symm
        simp [entryRemove, he, List.filter_cons, hb, hb2, e2]
    · simp only [entryRemove, he, if_false, List.filter_cons]
      by_cases e2 : p = p0
      · subst e2
        simp only [if_true] at ih' ⊢
        cases hb : (e.1.1 == p)
        · simp only [Bool.false_eq_true, if_false]
          exact ih'
        · simp only [if_true, entryRemove, he, if_false]
          exact ⟨by rw [ih'.1], ih'.2⟩
      · simp only [e2, if_false] at ih' ⊢
        cases hb0 : (e.1.1 == p0) <;> cases hb : (e.1.1 == p) <;>
          simp [entryRemove, he, ih'.1, ih'.2]

/-- `remove` on the flat list respects `SEquiv` when at most one path holds the id -/
theorem SEquiv.entryRemove {a b : List ((String × String) × Route)} (h : SEquiv a b) (id p0 : String)
    (hb : AllAt id p0 b) :
    SEquiv (Rio.Router.entryRemove id a).1 (Rio.Router.entryRemove id b).1 ∧
    (Rio.Router.entryRemove id a).2 = (Rio.Router.entryRemove id b).2 := by
  have ha : AllAt id p0 a := fun e he => hb e ((h.mem e).1 he)
  constructor
  · intro p
    rw [(entryRemove_filter id p0 a ha p).1, (entryRemove_filter id p0 b hb p).1, h p0, h p]
  · rw [(entryRemove_filter id p0 a ha p0).2, (entryRemove_filter id p0 b hb p0).2, h p0]

theorem allAt_of_unique (id : String) (t : List ((String × String) × Route))
    (hu : ∀ e1 ∈ t, ∀ e2 ∈ t, e1.1.2 = id → e2.1.2 = id → e1 = e2) : ∃ p0, AllAt id p0 t := by
  by_cases hex : ∃ e ∈ t, e.1.2 = id
  · obtain ⟨e0, h0, i0⟩ := hex
    exact ⟨e0.1.1, fun e he hi => by rw [hu e he e0 h0 hi i0]⟩
  · exact ⟨"", fun e he hi => absurd ⟨e, he, hi⟩ hex⟩

theorem akeys_mapRetain_sublist {K V χ : Type} (f : K → V → χ → Bool × V × χ) (m : List (K × V)) (s : χ) :
    (akeys (mapRetain f m s).1).Sublist (akeys m) := by
  induction m generalizing s with
  | nil => simp [mapRetain, akeys]
  | cons a m ih =>
    obtain ⟨k, v⟩ := a
    simp only [mapRetain]
    cases (f k v s).1
    · simp only [Bool.false_eq_true, if_false]
      exact (ih _).trans (List.sublist_cons_self _ _)
    · simp only [if_true]
      exact (ih _).cons_cons _

end CountGen

/-- The representation relation between the translated side's fields (nested `static_rules`) and a model state. -/
structure PathRel (n : PathFields) (s : PathTState) : Prop where
  tree : n.1 = s.tree
  count : n.2.2 = s.count
  statics : SEquiv (flatN n.2.1) s.statics
  /-- a `HashMap` has one entry per key -/
  keys : (akeys n.2.1).Nodup

theorem pathT_remove_rel (id : String) (n : PathFields) (s : PathTState) (h : PathRel n s)
    (hu : ∀ e1 ∈ s.statics, ∀ e2 ∈ s.statics, e1.1.2 = id → e2.1.2 = id → e1 = e2) :
    (PathT.remove id n.abs).2 = (PathT.remove id s).2 ∧
    (PathT.remove id n.abs).1.count = (PathT.remove id s).1.count ∧
    (PathT.remove id n.abs).1.tree = (PathT.remove id s).1.tree ∧
    SEquiv (PathT.remove id n.abs).1.statics (PathT.remove id s).1.statics := by
  obtain ⟨p0, hp0⟩ := allAt_of_unique id s.statics hu
  have hr := SEquiv.entryRemove h.statics id p0 hp0
  unfold PathT.remove PathFields.abs
  simp only [h.tree, h.count]
  cases ht : (s.tree.remove id).2 with
  | some r0 => exact ⟨rfl, rfl, rfl, h.statics⟩
  | none =>
    simp only [hr.2]
    exact ⟨trivial, trivial, trivial, hr.1⟩

end Rio.Router
