/-
W25: the TRANSLATED `HtmlFilterBodyAction::filter` (`Rio.Consts.genHtmlFilter` / `genHtmlFilterLoop` / `genHtmlIsCut`,
tools/consts_dev/w25_htmlstep.py) equals the hand-written `Rio.Filter.filterHtml`.

The translated loop walks the token cursor exactly like the Rust (`context`, the inner `while` over held text, the three
exits storing `last_buffer` / `last_context`); the hand model is a closed form (`cutSplit`, `splitHeld`, `foldl stepTok`,
`heldCtx`).  `closed` is that closed form started from any (state, output); the loop is shown equal to it by induction over
the tokens not yet read.
-/
import RioModel.Model.Filter
import RioModel.Generated.Consts
set_option linter.unusedSimpArgs false
set_option linter.unusedVariables false

namespace Rio.HtmlStepGen
open Rio.Consts Rio.Filter

section
variable (tk : Tokenize) (evaluate : Bytes → Bytes → Bool)

/-- the instantiation of the abstract parameters of the translation at the hand model -/
def gRaw (x : TokX) : Bytes := x.tok.raw
def gTag (x : TokX) : Bytes := x.ctx
def gCut (x : TokX) : Bool := x.cut
def gIsText (x : TokX) : Bool := x.tok.kind == .text
def gPush (so : HtmlSt × Bytes) (d : Bytes) : HtmlSt × Bytes := push so.1 so.2 d
def gDispatch (so : HtmlSt × Bytes) (x : TokX) : HtmlSt × Bytes := stepTok tk evaluate so x.tok
def gGetLast (s : HtmlSt) : Bytes := s.last
def gGetCtx (s : HtmlSt) : Bytes := s.ctx
def gSetLast (s : HtmlSt) (l : Bytes) : HtmlSt := { s with last := l }
def gSetCtx (s : HtmlSt) (c : Bytes) : HtmlSt := { s with ctx := c }
/-- `std::str::from_utf8` as the translation reads it: `none` = Ok, `some (error_len().is_some(), valid_up_to())` -/
def gFromUtf8 (d : Bytes) : Option (Bool × Nat) :=
  match utf8Scan d with
  | .ok => none
  | .incomplete n => some (false, n)
  | .invalid => some (true, 0)
/-- `new_fragment` + the cursor; `sp` = how the remainder is divided between `raw()` and `buffered()` at the ErrorToken -/
def gNewFragment (sp : Bytes → Bytes × Bytes) (d c : Bytes) : List TokX × Bytes × Bytes × Bytes :=
  ((tk.stream c d).1, (sp (tk.stream c d).2.1).1, (sp (tk.stream c d).2.1).2, (tk.stream c d).2.2)

/-- the closed form of the hand model from any (state, output) -/
def closed (rest ctxE pending : Bytes) (L : List TokX) (so : HtmlSt × Bytes) : HtmlSt × Bytes :=
  let cs := cutSplit L
  let th := if cs.2.isEmpty then splitHeld (toksOf cs.1) else (toksOf cs.1, [])
  let r := th.1.foldl (stepTok tk evaluate) so
  ({ r.1 with last := th.2 ++ rawsOf (toksOf cs.2) ++ rest ++ pending, ctx := heldCtx cs.1 cs.2 th.2 ctxE }, r.2)

theorem filterHtml_closed (s : HtmlSt) (input : Bytes) :
    filterHtml tk evaluate s input =
      match utf8Split (s.last ++ input) with
      | none => none
      | some dp => some (closed tk evaluate (tk.stream s.ctx dp.1).2.1 (tk.stream s.ctx dp.1).2.2 dp.2
                          (tk.stream s.ctx dp.1).1 (s, [])) := by
  unfold filterHtml closed
  cases utf8Split (s.last ++ input) with
  | none => rfl
  | some dp => rfl

theorem genIsCut_eq (x : TokX) : genHtmlIsCut (gCut x) (gIsText x) x.ctx = isCut x := by
  unfold genHtmlIsCut isCut gCut gIsText htmlPlaintext
  cases x.cut <;> cases h : (x.tok.kind == TokKind.text) <;> simp [h, bne, List.isEmpty_iff] <;>
    (cases hc : x.ctx <;> simp)

theorem genBytesContains_lt (d : Bytes) : genBytesContains [60, 47] d = true → d.contains 60 = true := by
  induction d with
  | nil => simp [genBytesContains]
  | cons b t ih =>
    intro h
    simp only [genBytesContains, Bool.or_eq_true] at h
    rcases h with h | h
    · simp [List.isPrefixOf] at h
      simp [h.1]
    · have := ih h
      simp only [List.contains_cons, Bool.or_eq_true]
      exact Or.inr this

theorem genHas_eq (d : Bytes) : (d.contains 60 || genBytesContains [60, 47] d) = hasLt d := by
  unfold hasLt
  cases h : genBytesContains [60, 47] d
  · simp
  · have := genBytesContains_lt d h
    simpa using this

theorem cutSplit_cons_cut (x : TokX) (xs : List TokX) (h : isCut x = true) : cutSplit (x :: xs) = ([], x :: xs) := by
  simp [cutSplit, List.takeWhile, List.dropWhile, h]

theorem cutSplit_cons_ok (x : TokX) (xs : List TokX) (h : isCut x = false) :
    cutSplit (x :: xs) = (x :: (cutSplit xs).1, (cutSplit xs).2) := by
  simp [cutSplit, List.takeWhile, List.dropWhile, h]

theorem cutSplit_append (xs : List TokX) : (cutSplit xs).1 ++ (cutSplit xs).2 = xs := by
  simp [cutSplit, List.takeWhile_append_dropWhile]

theorem splitHeld_cons (t u : Tok) (ts : List Tok) :
    splitHeld (t :: u :: ts) = (t :: (splitHeld (u :: ts)).1, (splitHeld (u :: ts)).2) := by
  unfold splitHeld
  rw [List.getLast?_cons_cons]
  cases h : (u :: ts).getLast? with
  | none => simp at h
  | some l =>
    simp only
    split <;> simp [List.dropLast]

theorem stepTok_text (so : HtmlSt × Bytes) (t : Tok) (h : t.kind = .text) :
    stepTok tk evaluate so t = push so.1 so.2 t.raw := by
  obtain ⟨s, o⟩ := so
  simp [stepTok, h]

theorem hasLt_ne_nil (d : Bytes) (h : hasLt d = true) : d.isEmpty = false := by
  cases d with
  | nil => simp [hasLt] at h
  | cons => rfl

theorem closed_cut (rest ctxE pending : Bytes) (x : TokX) (xs : List TokX) (so : HtmlSt × Bytes)
    (h : isCut x = true) :
    closed tk evaluate rest ctxE pending (x :: xs) so =
      ({ so.1 with last := x.tok.raw ++ (xs.flatMap gRaw ++ rest) ++ pending, ctx := x.ctx }, so.2) := by
  unfold closed
  rw [cutSplit_cons_cut x xs h]
  simp [toksOf, rawsOf, heldCtx, gRaw, List.flatMap_map]
  rfl

theorem closed_single (rest ctxE pending : Bytes) (x : TokX) (so : HtmlSt × Bytes) (h : isCut x = false) :
    closed tk evaluate rest ctxE pending [x] so =
      if x.tok.kind = .text ∧ hasLt x.tok.raw = true then
        ({ so.1 with last := x.tok.raw ++ rest ++ pending, ctx := x.ctx }, so.2)
      else
        ({ (stepTok tk evaluate so x.tok).1 with last := rest ++ pending, ctx := ctxE },
          (stepTok tk evaluate so x.tok).2) := by
  unfold closed
  rw [cutSplit_cons_ok x [] h]
  by_cases hc : x.tok.kind = .text ∧ hasLt x.tok.raw = true
  · have hne := hasLt_ne_nil _ hc.2
    simp [cutSplit, toksOf, splitHeld, hc, rawsOf, heldCtx, hne]
  · simp [cutSplit, toksOf, splitHeld, hc, rawsOf, heldCtx]

theorem closed_cons (rest ctxE pending : Bytes) (x y : TokX) (ys : List TokX) (so : HtmlSt × Bytes)
    (h : isCut x = false) :
    closed tk evaluate rest ctxE pending (x :: y :: ys) so =
      closed tk evaluate rest ctxE pending (y :: ys) (stepTok tk evaluate so x.tok) := by
  unfold closed
  rw [cutSplit_cons_ok x (y :: ys) h]
  have happ := cutSplit_append (y :: ys)
  generalize cutSplit (y :: ys) = cs at happ
  obtain ⟨p, q⟩ := cs
  cases q with
  | nil =>
    simp only [List.append_nil] at happ
    subst happ
    simp only [List.isEmpty_nil, if_true, toksOf, List.map_cons]
    rw [splitHeld_cons]
    simp [heldCtx, List.getLast?_cons_cons]
  | cons z q => simp [toksOf, heldCtx]

/-- the translated loop is the closed form -/
theorem genLoop_eq (rest errRaw errBuf ctxE pending : Bytes) (hsp : errRaw ++ errBuf = rest) :
    ∀ (xs : List TokX) (x : TokX) (so : HtmlSt × Bytes),
      genHtmlFilterLoop gRaw gTag gCut gIsText gPush (gDispatch tk evaluate) gGetLast gSetLast gSetCtx
          errRaw errBuf ctxE pending x x.ctx xs so =
        closed tk evaluate rest ctxE pending (x :: xs) so := by
  intro xs
  induction xs with
  | nil =>
    intro x so
    unfold genHtmlFilterLoop
    rw [genIsCut_eq]
    cases hcut : isCut x
    · rw [closed_single tk evaluate rest ctxE pending x so hcut]
      simp only [gRaw, genHas_eq, gIsText]
      by_cases hc : x.tok.kind = .text ∧ hasLt x.tok.raw = true
      · simp [hc, gSetLast, gSetCtx, gGetLast, ← hsp]
      · have : ((x.tok.kind == TokKind.text) && hasLt x.tok.raw) = false := by
          cases hk : (x.tok.kind == TokKind.text) <;> cases hl : hasLt x.tok.raw <;> simp_all
        simp [hc, this, gSetLast, gSetCtx, gGetLast, gDispatch, ← hsp]
    · rw [closed_cut tk evaluate rest ctxE pending x [] so hcut]
      simp [gSetLast, gSetCtx, gGetLast, gRaw, ← hsp]
  | cons y ys ih =>
    intro x so
    unfold genHtmlFilterLoop
    rw [genIsCut_eq]
    cases hcut : isCut x
    · rw [closed_cons tk evaluate rest ctxE pending x y ys so hcut]
      simp only [gRaw, genHas_eq, gIsText]
      by_cases hc : x.tok.kind = .text ∧ hasLt x.tok.raw = true
      · simp only [hc, beq_self_eq_true, Bool.and_self, Bool.not_false, if_true, gTag]
        rw [ih y, gPush, stepTok_text tk evaluate so x.tok hc.1]
      · have : ((x.tok.kind == TokKind.text) && hasLt x.tok.raw) = false := by
          cases hk : (x.tok.kind == TokKind.text) <;> cases hl : hasLt x.tok.raw <;> simp_all
        simp only [this, Bool.false_and, if_false, Bool.false_eq_true, gTag]
        rw [ih y]
        rfl
    · rw [closed_cut tk evaluate rest ctxE pending x (y :: ys) so hcut]
      simp [gSetLast, gSetCtx, gGetLast, gRaw, ← hsp]

theorem closed_nil (rest ctxE pending : Bytes) (so : HtmlSt × Bytes) :
    closed tk evaluate rest ctxE pending [] so = ({ so.1 with last := rest ++ pending, ctx := ctxE }, so.2) := by
  simp [closed, cutSplit, toksOf, splitHeld, rawsOf, heldCtx]

/-- the translated `filter`, in the shape of the hand model (`none` = `Err`); the state after an `Err` is kept separately
(`genFilterHtmlErrState`) -/
def genFilterHtml (sp : Bytes → Bytes × Bytes) (s : HtmlSt) (input : Bytes) : Option (HtmlSt × Bytes) :=
  let r := genHtmlFilter gRaw gTag gCut gIsText gPush (gDispatch tk evaluate) gGetLast gGetCtx gSetLast gSetCtx
    gFromUtf8 (gNewFragment tk sp) s input
  r.2.map fun o => (r.1, o)

/-- the translated `filter` is the hand model, for every state, input, tokenizer, selector oracle and every division of
the ErrorToken remainder between `raw()` and `buffered()` -/
theorem genHtmlFilter_eq (sp : Bytes → Bytes × Bytes) (hsp : ∀ r, (sp r).1 ++ (sp r).2 = r) (s : HtmlSt) (input : Bytes) :
    genHtmlFilter gRaw gTag gCut gIsText gPush (gDispatch tk evaluate) gGetLast gGetCtx gSetLast gSetCtx
        gFromUtf8 (gNewFragment tk sp) s input =
      match filterHtml tk evaluate s input with
      | none => (s, none)
      | some r => (r.1, some r.2) := by
  rw [filterHtml_closed]
  unfold genHtmlFilter utf8Split gFromUtf8 gGetLast
  cases hu : utf8Scan (s.last ++ input) with
  | invalid => simp [hu]
  | ok =>
    simp only [hu, gNewFragment, gGetCtx, gTag]
    cases hx : (tk.stream s.ctx (s.last ++ input)).1 with
    | nil => simp [closed_nil, gSetLast, gSetCtx, gGetLast, hsp]
    | cons x xs =>
      simp only []
      rw [show (fun s : HtmlSt => s.last) = gGetLast from rfl, genLoop_eq tk evaluate _ _ _ _ _ (hsp _)]
  | incomplete n =>
    simp only [hu, gNewFragment, gGetCtx, gTag]
    cases hx : (tk.stream s.ctx ((s.last ++ input).take n)).1 with
    | nil => simp [closed_nil, gSetLast, gSetCtx, gGetLast, hsp]
    | cons x xs =>
      simp only []
      rw [show (fun s : HtmlSt => s.last) = gGetLast from rfl, genLoop_eq tk evaluate _ _ _ _ _ (hsp _)]

theorem genFilterHtml_eq (sp : Bytes → Bytes × Bytes) (hsp : ∀ r, (sp r).1 ++ (sp r).2 = r) (s : HtmlSt) (input : Bytes) :
    genFilterHtml tk evaluate sp s input = filterHtml tk evaluate s input := by
  unfold genFilterHtml
  rw [genHtmlFilter_eq tk evaluate sp hsp]
  cases filterHtml tk evaluate s input <;> rfl

end
end Rio.HtmlStepGen

namespace Rio.HtmlStepGen
open Rio.Consts Rio.Filter

section
variable (tk : Tokenize) (evaluate : Bytes → Bytes → Bool)

/-- `token_type == html::TokenType::<variant>` on the model's token kinds (comments and doctypes are `other`) -/
def gTokIs (variant : String) (x : TokX) : Bool :=
  if variant = "StartTagToken" then x.tok.kind == .startTag
  else if variant = "EndTagToken" then x.tok.kind == .endTag
  else if variant = "SelfClosingTagToken" then x.tok.kind == .selfClosing
  else if variant = "TextToken" then x.tok.kind == .text
  else false
def gName (x : TokX) : Bytes := x.tok.name
def gOnStart (s : HtmlSt) (n d : Bytes) : HtmlSt × Bytes := onStart s n d
def gOnEnd (s : HtmlSt) (n d : Bytes) : HtmlSt × Bytes := onEnd tk evaluate s n d

/-- the translated dispatch (with the translated loop's push) -/
def gDispatchT (so : HtmlSt × Bytes) (x : TokX) : HtmlSt × Bytes :=
  genHtmlDispatch gTokIs gRaw gName isVoid gOnStart (gOnEnd tk evaluate) gPush so x

/-- the translated `match token_type {..}` + push is one `stepTok` of the model -/
theorem genDispatch_eq (so : HtmlSt × Bytes) (x : TokX) :
    gDispatchT tk evaluate so x = stepTok tk evaluate so x.tok := by
  obtain ⟨s, o⟩ := so
  unfold gDispatchT genHtmlDispatch stepTok gTokIs gRaw gName gOnStart gOnEnd gPush
  cases hk : x.tok.kind <;> simp <;> (try split) <;> simp_all

theorem gDispatchT_eq : gDispatchT tk evaluate = gDispatch tk evaluate := by
  funext so x
  exact genDispatch_eq tk evaluate so x

end
end Rio.HtmlStepGen
