/-
Router proofs, part 3: the innermost layer (`PathAndQueryMatcher`) satisfies `MLaws`.
-/
import RioModel.Proofs.RouterGeneric

set_option linter.unusedSimpArgs false
set_option linter.unusedVariables false
set_option linter.unusedSectionVars false

namespace Rio.Router

/-! ### `(path-or-pattern, id) ↦ route` entry lists -/

section
variable {P : Type} [DecidableEq P] (pathOf : Route → Option P)

/-- The entry list holds exactly the routes of `L` that have a key under `pathOf`. -/
structure ERepr (t : List ((P × String) × Route)) (L : List Route) : Prop where
  nodup : (akeys t).Nodup
  iff : ∀ p id r, alookup (p, id) t = some r ↔ (r ∈ L ∧ pathOf r = some p ∧ r.id = id)

theorem erepr_empty : ERepr pathOf ([] : List ((P × String) × Route)) [] :=
  ⟨by simp, by intro p id r; simp⟩

theorem erepr_congr (t : List ((P × String) × Route)) (L L' : List Route) (h : ERepr pathOf t L)
    (hm : ∀ x, x ∈ L ↔ x ∈ L') : ERepr pathOf t L' :=
  ⟨h.nodup, by intro p id r; rw [h.iff, hm]⟩

theorem erepr_insert_none (t : List ((P × String) × Route)) (L : List Route) (r : Route)
    (h : ERepr pathOf t L) (hp : pathOf r = none) : ERepr pathOf t (r :: L) := by
  refine ⟨h.nodup, ?_⟩
  intro p id x
  rw [h.iff, List.mem_cons]
  constructor
  · rintro ⟨a, b, c⟩; exact ⟨Or.inr a, b, c⟩
  · rintro ⟨a | a, b, c⟩
    · rw [a, hp] at b; cases b
    · exact ⟨a, b, c⟩

theorem erepr_insert_some (t : List ((P × String) × Route)) (L : List Route) (r : Route) (p : P)
    (h : ERepr pathOf t L) (hU : UIds (r :: L)) (hp : pathOf r = some p) :
    ERepr pathOf (aupsert (fun _ => r) r (p, r.id) t) (r :: L) := by
  refine ⟨akeys_aupsert_nodup _ _ _ _ h.nodup, ?_⟩
  intro p' id x
  rw [alookup_aupsert, List.mem_cons]
  by_cases e : (p', id) = (p, r.id)
  · simp only [e, if_true, Option.some.injEq]
    simp only [Prod.mk.injEq] at e
    constructor
    · intro hx; subst hx; exact ⟨Or.inl rfl, e.1 ▸ hp, e.2.symm⟩
    · rintro ⟨a | a, b, c⟩
      · exact a.symm
      · exact (hU x (List.mem_cons_of_mem _ a) r (List.mem_cons_self ..) (c.trans e.2)).symm
  · simp only [e, if_false, h.iff]
    constructor
    · rintro ⟨a, b, c⟩; exact ⟨Or.inr a, b, c⟩
    · rintro ⟨a | a, b, c⟩
      · exfalso; apply e
        rw [a, hp] at b
        simp only [Option.some.injEq] at b
        rw [← b, ← c, a]
      · exact ⟨a, b, c⟩

theorem alookup_filter_key {K V : Type} [DecidableEq K] (f : K → Bool) (l : List (K × V)) (k : K) :
    alookup k (l.filter (fun e => f e.1)) = if f k then alookup k l else none := by
  induction l with
  | nil => simp
  | cons a l ih =>
    obtain ⟨ka, va⟩ := a
    simp only [List.filter_cons]
    by_cases e : ka = k
    · subst e
      cases hf : f ka <;> simp [hf, alookup_cons, ih]
    · cases hf : f ka
      · simp only [hf, Bool.false_eq_true, if_false, ih, alookup_cons, e]
      · simp only [hf, if_true, alookup_cons, e, if_false, ih]

theorem akeys_filter_nodup {K V : Type} [DecidableEq K] (f : K × V → Bool) (l : List (K × V))
    (h : (akeys l).Nodup) : (akeys (l.filter f)).Nodup := by
  have : (akeys (l.filter f)).Sublist (akeys l) := (List.filter_sublist (l := l)).map _
  exact this.nodup h

theorem entryRemove_snd (id : String) (t : List ((P × String) × Route)) :
    (entryRemove id t).2 = (t.find? (fun e => e.1.2 == id)).map Prod.snd := by
  induction t with
  | nil => simp [entryRemove]
  | cons e t ih =>
    simp only [entryRemove, List.find?_cons]
    by_cases h : e.1.2 = id
    · simp [h]
    · have hb : (e.1.2 == id) = false := by simpa using h
      simp [h, hb, ih]

theorem entryRemove_fst (id : String) (t : List ((P × String) × Route)) (hn : (akeys t).Nodup)
    (hu : ∀ e1 ∈ t, ∀ e2 ∈ t, e1.1.2 = id → e2.1.2 = id → e1 = e2) :
    (entryRemove id t).1 = t.filter (fun e => e.1.2 != id) := by
  induction t with
  | nil => simp [entryRemove]
  | cons e t ih =>
    have hn' : e.1 ∉ akeys t ∧ (akeys t).Nodup := by
      have : akeys (e :: t) = e.1 :: akeys t := rfl
      rw [this, List.nodup_cons] at hn; exact hn
    simp only [entryRemove, List.filter_cons]
    by_cases h : e.1.2 = id
    · simp only [h, if_true, bne_self_eq_false, Bool.false_eq_true, if_false]
      symm
      rw [List.filter_eq_self]
      intro x hx
      have : x.1.2 ≠ id := by
        intro hx2
        have := hu e (List.mem_cons_self ..) x (List.mem_cons_of_mem _ hx) h hx2
        apply hn'.1; rw [this]; exact List.mem_map.mpr ⟨x, hx, rfl⟩
      simpa using this
    · have hne : (e.1.2 != id) = true := by simpa using h
      simp only [h, if_false, hne, if_true]
      rw [ih hn'.2 (fun e1 h1 e2 h2 => hu e1 (List.mem_cons_of_mem _ h1) e2 (List.mem_cons_of_mem _ h2))]

/-- at most one entry is stored under an id when ids are unique -/
theorem erepr_unique_id (t : List ((P × String) × Route)) (L : List Route) (h : ERepr pathOf t L)
    (hU : UIds L) (id : String) :
    ∀ e1 ∈ t, ∀ e2 ∈ t, e1.1.2 = id → e2.1.2 = id → e1 = e2 := by
  intro e1 h1 e2 h2 i1 i2
  obtain ⟨⟨p1, id1⟩, r1⟩ := e1
  obtain ⟨⟨p2, id2⟩, r2⟩ := e2
  simp only at i1 i2
  have l1 := (h.iff p1 id1 r1).1 (alookup_of_mem h.nodup h1)
  have l2 := (h.iff p2 id2 r2).1 (alookup_of_mem h.nodup h2)
  have : r1 = r2 := hU r1 l1.1 r2 l2.1 (by rw [l1.2.2, l2.2.2, i1, i2])
  subst this
  have hp : p1 = p2 := by
    have := l1.2.1.symm.trans l2.2.1
    simpa using this
  rw [hp, i1, i2]

theorem erepr_remove (t : List ((P × String) × Route)) (L : List Route) (id : String)
    (h : ERepr pathOf t L) (hU : UIds L) :
    ERepr pathOf (entryRemove id t).1 (L.filter (fun r => r.id != id)) := by
  rw [entryRemove_fst id t h.nodup (erepr_unique_id pathOf t L h hU id)]
  refine ⟨akeys_filter_nodup _ _ h.nodup, ?_⟩
  intro p i r
  have := alookup_filter_key (fun k : P × String => k.2 != id) t (p, i)
  simp only at this
  rw [this, List.mem_filter]
  by_cases e : i = id
  · subst e
    simp only [bne_self_eq_false, Bool.false_eq_true, if_false]
    constructor
    · intro h; cases h
    · rintro ⟨⟨_, a⟩, _, c⟩; simp [c] at a
  · have hne : (i != id) = true := by simpa using e
    simp only [hne, if_true, h.iff]
    constructor
    · rintro ⟨a, b, c⟩; exact ⟨⟨a, by simpa [c] using e⟩, b, c⟩
    · rintro ⟨⟨a, _⟩, b, c⟩; exact ⟨a, b, c⟩

theorem eremove_some (t : List ((P × String) × Route)) (L : List Route) (id : String) (r : Route)
    (p : P) (h : ERepr pathOf t L) (hU : UIds L) (hr : r ∈ L) (hp : pathOf r = some p)
    (hid : r.id = id) : (entryRemove id t).2 = some r := by
  rw [entryRemove_snd]
  have hl := (h.iff p id r).2 ⟨hr, hp, hid⟩
  have hmem := mem_of_alookup hl
  cases hf : t.find? (fun e => e.1.2 == id) with
  | none =>
    rw [List.find?_eq_none] at hf
    have := hf _ hmem
    simp at this
  | some e =>
    have h1 := List.mem_of_find?_eq_some hf
    have h2 := List.find?_some hf
    have := erepr_unique_id pathOf t L h hU id e h1 _ hmem (by simpa using h2) rfl
    simp [this]

theorem eremove_none (t : List ((P × String) × Route)) (L : List Route) (id : String)
    (h : ERepr pathOf t L) (hno : ∀ r ∈ L, pathOf r ≠ none → r.id ≠ id) :
    (entryRemove id t).2 = none := by
  rw [entryRemove_snd]
  cases hf : t.find? (fun e => e.1.2 == id) with
  | none => rfl
  | some e =>
    exfalso
    have h1 := List.mem_of_find?_eq_some hf
    have h2 := List.find?_some hf
    obtain ⟨⟨p, i⟩, r⟩ := e
    have l1 := (h.iff p i r).1 (alookup_of_mem h.nodup h1)
    apply hno r l1.1 (by rw [l1.2.1]; simp)
    rw [l1.2.2]; simpa using h2

theorem erepr_batch (t : List ((P × String) × Route)) (L : List Route) (ids : List String)
    (h : ERepr pathOf t L) :
    ERepr pathOf (t.filter (fun e => !ids.contains e.1.2)) (L.filter (fun r => !ids.contains r.id)) := by
  refine ⟨akeys_filter_nodup _ _ h.nodup, ?_⟩
  intro p i r
  have := alookup_filter_key (fun k : P × String => !ids.contains k.2) t (p, i)
  simp only at this
  rw [this, List.mem_filter]
  by_cases hc : i ∈ ids
  · have hc' : ids.contains i = true := by simpa using hc
    simp only [hc', Bool.not_true, Bool.false_eq_true, if_false]
    constructor
    · intro h; cases h
    · rintro ⟨⟨_, a⟩, _, c⟩; simp [c, hc] at a
  · have hc' : ids.contains i = false := by simpa using hc
    simp only [hc', Bool.not_false, if_true, h.iff]
    constructor
    · rintro ⟨a, b, c⟩; exact ⟨⟨a, by simp [c, hc]⟩, b, c⟩
    · rintro ⟨⟨a, _⟩, b, c⟩; exact ⟨a, b, c⟩

theorem mem_entries_match (t : List ((P × String) × Route)) (L : List Route) (h : ERepr pathOf t L)
    (test : P → Bool) (r : Route) :
    r ∈ (t.filter (fun e => test e.1.1)).map Prod.snd ↔
      r ∈ L ∧ ∃ p, pathOf r = some p ∧ test p = true := by
  simp only [List.mem_map, List.mem_filter]
  constructor
  · rintro ⟨⟨⟨p, i⟩, x⟩, ⟨hm, ht⟩, hx⟩
    simp only at hx ht; subst hx
    have l1 := (h.iff p i x).1 (alookup_of_mem h.nodup hm)
    exact ⟨l1.1, p, l1.2.1, ht⟩
  · rintro ⟨hr, p, hp, ht⟩
    exact ⟨((p, r.id), r), ⟨mem_of_alookup ((h.iff p r.id r).2 ⟨hr, hp, rfl⟩), ht⟩, rfl⟩

theorem nodup_entries_match (t : List ((P × String) × Route)) (L : List Route) (h : ERepr pathOf t L)
    (f : (P × String) × Route → Bool) : ((t.filter f).map Prod.snd).Nodup := by
  have hsub : (t.filter f).Sublist t := List.filter_sublist
  have key : ∀ (l : List ((P × String) × Route)), l.Sublist t → (akeys l).Nodup →
      (l.map Prod.snd).Nodup := by
    intro l
    induction l with
    | nil => intro _ _; simp
    | cons e l ih =>
      intro hs hn
      have hn' : e.1 ∉ akeys l ∧ (akeys l).Nodup := by
        have : akeys (e :: l) = e.1 :: akeys l := rfl
        rw [this, List.nodup_cons] at hn; exact hn
      simp only [List.map_cons, List.nodup_cons, List.mem_map, not_exists, not_and]
      refine ⟨?_, ih ((List.sublist_cons_self e l).trans hs) hn'.2⟩
      intro e2 he2 heq
      obtain ⟨⟨p1, i1⟩, r1⟩ := e
      obtain ⟨⟨p2, i2⟩, r2⟩ := e2
      simp only at heq
      subst heq
      have m1 : ((p1, i1), r2) ∈ t := hs.subset (List.mem_cons_self ..)
      have m2 : ((p2, i2), r2) ∈ t := hs.subset (List.mem_cons_of_mem _ he2)
      have l1 := (h.iff p1 i1 r2).1 (alookup_of_mem h.nodup m1)
      have l2 := (h.iff p2 i2 r2).1 (alookup_of_mem h.nodup m2)
      have hp : p1 = p2 := by
        have := l1.2.1.symm.trans l2.2.1
        simpa using this
      apply hn'.1
      rw [hp, ← l1.2.2, l2.2.2]
      exact mem_akeys_of_mem he2
  exact key _ hsub ((hsub.map _).nodup h.nodup)

end

/-! ### the path layer -/

def dynOf (r : Route) : Option Pat :=
  match r.path with
  | .dyn p => some p
  | .static _ => none

def staticOf (r : Route) : Option String :=
  match r.path with
  | .static p => some p
  | .dyn _ => none

structure PRepr (s : PathState) (L : List Route) : Prop where
  len : L.length ≤ s.count
  tree : ERepr dynOf s.tree L
  statics : ERepr staticOf s.statics L

section
variable (E : Env)

theorem pathOk_eq (r : Route) (q : Req) :
    pathOk E r q =
      ((match dynOf r with | some p => E.pathFind p q.path | none => false) ||
       (match staticOf r with | some p => p == q.path | none => false)) := by
  unfold pathOk dynOf staticOf
  cases r.path <;> simp

theorem path_mem_match (s : PathState) (L : List Route) (h : PRepr s L) (q : Req) (r : Route) :
    r ∈ Path.matchReq E s q ↔ r ∈ L ∧ pathOk E r q = true := by
  unfold Path.matchReq
  rw [List.mem_append,
    mem_entries_match dynOf s.tree L h.tree (fun p => E.pathFind p q.path),
    mem_entries_match staticOf s.statics L h.statics (fun p => p == q.path), pathOk_eq]
  unfold dynOf staticOf
  cases r.path <;> simp

theorem path_nodup_match (s : PathState) (L : List Route) (h : PRepr s L) (q : Req) :
    (Path.matchReq E s q).Nodup := by
  unfold Path.matchReq
  rw [List.nodup_append]
  refine ⟨nodup_entries_match dynOf s.tree L h.tree _, nodup_entries_match staticOf s.statics L h.statics _, ?_⟩
  intro x hx y hy hxy
  subst hxy
  rw [mem_entries_match dynOf s.tree L h.tree (fun p => E.pathFind p q.path)] at hx
  rw [mem_entries_match staticOf s.statics L h.statics (fun p => p == q.path)] at hy
  obtain ⟨_, p1, hp1, _⟩ := hx
  obtain ⟨_, p2, hp2, _⟩ := hy
  unfold dynOf at hp1; unfold staticOf at hp2
  cases hp : x.path <;> simp [hp] at hp1 hp2

theorem path_mem_trace (s : PathState) (q : Req) (r : Route) :
    r ∈ rawRoutesOfList (Path.trace E s q) ↔ r ∈ Path.matchReq E s q := by
  unfold Path.trace Path.matchReq
  simp only [rawRoutesOfList_cons, rawRoutesOfList_nil, Trace.rawRoutes_mk, TInfo.routes, List.append_nil,
    List.nil_append, List.mem_append, mem_rawRoutesOfList_map]
  constructor
  · rintro (⟨e, he, hr⟩ | hr)
    · left
      cases hm : E.pathFind e.1.1 q.path
      · simp [hm] at hr
      · simp only [hm, if_true, List.mem_singleton] at hr
        exact List.mem_map.mpr ⟨e, List.mem_filter.mpr ⟨he, hm⟩, hr.symm⟩
    · right
      cases hem : ((s.statics.filter (fun e => e.1.1 == q.path)).map Prod.snd).isEmpty
      · simp only [hem, Bool.false_eq_true, if_false, rawRoutesOfList_cons, rawRoutesOfList_nil,
          Trace.rawRoutes_mk, TInfo.routes, List.append_nil] at hr
        exact hr
      · simp [hem] at hr
  · rintro (hr | hr)
    · left
      obtain ⟨e, he, hre⟩ := List.mem_map.mp hr
      rw [List.mem_filter] at he
      exact ⟨e, he.1, by simp [he.2, hre]⟩
    · right
      have hne : ((s.statics.filter (fun e => e.1.1 == q.path)).map Prod.snd).isEmpty = false := by
        cases hl : (s.statics.filter (fun e => e.1.1 == q.path)).map Prod.snd with
        | nil => rw [hl] at hr; simp at hr
        | cons _ _ => rfl
      simp only [hne, Bool.false_eq_true, if_false, rawRoutesOfList_cons, rawRoutesOfList_nil,
        Trace.rawRoutes_mk, TInfo.routes, List.append_nil]
      exact hr

theorem prepr_insert (s : PathState) (L : List Route) (r : Route) (h : PRepr s L)
    (hU : UIds (r :: L)) : PRepr (Path.insert r s) (r :: L) := by
  unfold Path.insert
  cases hp : r.path with
  | static p =>
    refine ⟨by simp; exact h.len, ?_, ?_⟩
    · exact erepr_insert_none dynOf _ _ r h.tree (by simp [dynOf, hp])
    · exact erepr_insert_some staticOf _ _ r p h.statics hU (by simp [staticOf, hp])
  | dyn p =>
    refine ⟨by simp; exact h.len, ?_, ?_⟩
    · exact erepr_insert_some dynOf _ _ r p h.tree hU (by simp [dynOf, hp])
    · exact erepr_insert_none staticOf _ _ r h.statics (by simp [staticOf, hp])

theorem Path.remove_of_some (id : String) (s : PathState) (r : Route)
    (h : (entryRemove id s.tree).2 = some r) :
    Path.remove id s = ({ s with tree := (entryRemove id s.tree).1, count := s.count - 1 }, some r) := by
  simp [Path.remove, h]

theorem Path.remove_of_none (id : String) (s : PathState) (h : (entryRemove id s.tree).2 = none) :
    Path.remove id s =
      ({ s with statics := (entryRemove id s.statics).1,
                count := if (entryRemove id s.statics).2.isSome then s.count - 1 else s.count },
       (entryRemove id s.statics).2) := by
  simp [Path.remove, h]

theorem entryRemove_fst_of_none {P : Type} (id : String) (t : List ((P × String) × Route))
    (h : (entryRemove id t).2 = none) : (entryRemove id t).1 = t := by
  induction t with
  | nil => simp [entryRemove]
  | cons e t ih =>
    simp only [entryRemove] at h ⊢
    by_cases he : e.1.2 = id
    · simp [he] at h
    · simp only [he, if_false] at h ⊢
      rw [ih h]

theorem prepr_remove (s : PathState) (L : List Route) (id : String) (h : PRepr s L) (hU : UIds L) :
    PRepr (Path.remove id s).1 (L.filter (fun r => r.id != id)) := by
  have ht := erepr_remove dynOf s.tree L id h.tree hU
  have hs := erepr_remove staticOf s.statics L id h.statics hU
  have hle : (L.filter (fun r => r.id != id)).length ≤ L.length := List.length_filter_le ..
  have hlen := h.len
  cases hr : (entryRemove id s.tree).2 with
  | some r =>
    rw [Path.remove_of_some id s r hr]
    have hex : ∃ x ∈ L, x.id = id := by
      apply Classical.byContradiction; intro hne
      have := eremove_none dynOf s.tree L id h.tree (fun x hx _ e => hne ⟨x, hx, e⟩)
      rw [this] at hr; cases hr
    obtain ⟨x, hx, hxid⟩ := hex
    have := filter_ne_length_lt L id x hx hxid
    refine ⟨by simp only; omega, ht, ?_⟩
    -- the statics are untouched: they hold no route with this id
    have hs2 : (entryRemove id s.statics).2 = none := by
      apply eremove_none staticOf s.statics L id h.statics
      intro y hy hsy e
      -- the removed tree route has this id and is dynamic
      have hfind := hr
      rw [entryRemove_snd] at hfind
      cases hf : s.tree.find? (fun e => e.1.2 == id) with
      | none => simp [hf] at hfind
      | some e0 =>
        obtain ⟨⟨p0, i0⟩, r0⟩ := e0
        have m0 := List.mem_of_find?_eq_some hf
        have l0 := (h.tree.iff p0 i0 r0).1 (alookup_of_mem h.tree.nodup m0)
        have i0id : i0 = id := by simpa using List.find?_some hf
        have : y = r0 := hU y hy r0 l0.1 (by rw [e, l0.2.2, i0id])
        rw [this] at hsy
        have := l0.2.1
        unfold dynOf at this; unfold staticOf at hsy
        cases hp : r0.path <;> simp [hp] at this hsy
    rw [← entryRemove_fst_of_none id s.statics hs2]
    exact hs
  | none =>
    rw [Path.remove_of_none id s hr]
    rw [entryRemove_fst_of_none id s.tree hr] at ht
    refine ⟨?_, ht, hs⟩
    cases hr2 : (entryRemove id s.statics).2 with
    | none => simp only [Option.isSome_none, Bool.false_eq_true, if_false]; omega
    | some r =>
      simp only [Option.isSome_some, if_true]
      have hex : ∃ x ∈ L, x.id = id := by
        apply Classical.byContradiction; intro hne
        have := eremove_none staticOf s.statics L id h.statics (fun x hx _ e => hne ⟨x, hx, e⟩)
        rw [this] at hr2; cases hr2
      obtain ⟨x, hx, hxid⟩ := hex
      have := filter_ne_length_lt L id x hx hxid
      omega

theorem premove_some (s : PathState) (L : List Route) (id : String) (r : Route) (h : PRepr s L)
    (hU : UIds L) (hr : r ∈ L) (hid : r.id = id) : (Path.remove id s).2 = some r := by
  cases hp : r.path with
  | dyn p =>
    have := eremove_some dynOf s.tree L id r p h.tree hU hr (by simp [dynOf, hp]) hid
    rw [Path.remove_of_some id s r this]
  | static p =>
    have hnone : (entryRemove id s.tree).2 = none := by
      apply eremove_none dynOf s.tree L id h.tree
      intro y hy hdy e
      have : y = r := hU y hy r hr (e.trans hid.symm)
      rw [this] at hdy; simp [dynOf, hp] at hdy
    rw [Path.remove_of_none id s hnone]
    exact eremove_some staticOf s.statics L id r p h.statics hU hr (by simp [staticOf, hp]) hid

theorem premove_none (s : PathState) (L : List Route) (id : String) (h : PRepr s L)
    (hno : ∀ r ∈ L, r.id ≠ id) : (Path.remove id s).2 = none := by
  have hnone := eremove_none dynOf s.tree L id h.tree (fun x hx _ => hno x hx)
  rw [Path.remove_of_none id s hnone]
  exact eremove_none staticOf s.statics L id h.statics (fun x hx _ => hno x hx)

theorem prepr_batch (s : PathState) (L : List Route) (ids : List String) (h : PRepr s L) :
    PRepr (Path.batchRemove ids s) (L.filter (fun r => !ids.contains r.id)) := by
  unfold Path.batchRemove
  refine ⟨?_, erepr_batch dynOf _ _ ids h.tree, erepr_batch staticOf _ _ ids h.statics⟩
  have hle : (L.filter (fun r => !ids.contains r.id)).length ≤ L.length := List.length_filter_le ..
  have := h.len
  simp only; omega

/-- The innermost layer satisfies the layer laws; its `sat` is the path trigger. -/
def pathLaws : MLaws (pathOps E) where
  Repr := PRepr
  sat := fun _ r q => pathOk E r q
  wf := fun _ => True
  okIns := fun _ => True
  sat_congr := by intros; rfl
  repr_empty := ⟨by simp [pathOps, Path.empty], erepr_empty _, erepr_empty _⟩
  repr_congr := by
    intro m L L' h hsub hmem
    have hm : ∀ x, x ∈ L ↔ x ∈ L' := fun x => ⟨hmem x, fun hx => hsub.subset hx⟩
    exact ⟨Nat.le_trans hsub.length_le h.len, erepr_congr _ _ _ _ h.tree hm, erepr_congr _ _ _ _ h.statics hm⟩
  len_zero := by
    intro m L h h0
    have := h.len
    have h0' : m.count = 0 := h0
    rw [h0'] at this
    exact List.eq_nil_of_length_eq_zero (Nat.le_zero.mp this)
  repr_insert := fun m L r h hU _ => prepr_insert m L r h hU
  repr_remove := fun m L id h hU => prepr_remove m L id h hU
  remove_some := fun m L id r h hU hr _ hid => premove_some m L id r h hU hr hid
  remove_none := fun m L id h hno => premove_none m L id h hno
  remove_pos := by
    intro m L id h hs
    have hex : ∃ r ∈ L, r.id = id := by
      apply Classical.byContradiction; intro hne
      have := premove_none m L id h (fun r hr e => hne ⟨r, hr, e⟩)
      have hs' : (Path.remove id m).2.isSome = true := hs
      rw [this] at hs'; simp at hs'
    obtain ⟨r, hr, _⟩ := hex
    have := List.length_pos_of_mem hr
    have := h.len
    show 0 < m.count
    omega
  repr_batch := fun m L ids h => prepr_batch m L ids h
  repr_cache := fun _ _ _ _ h => h
  cache_le := fun _ limit _ => Nat.le_refl limit
  mem_match := fun m L q r h _ => path_mem_match E m L h q r
  nodup_match := fun m L q h _ => path_nodup_match E m L h q
  mem_trace := fun m L q r _ _ => path_mem_trace E m q r

end
end Rio.Router
