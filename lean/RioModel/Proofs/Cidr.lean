/-
Lemmas about the client-IP primitives (Model/Cidr.lean).
-/
import RioModel.Model.Cidr
set_option linter.unusedSimpArgs false
set_option linter.unusedVariables false

namespace Rio.Cidr

theorem two_pow_pos' (k : Nat) : 0 < 2 ^ k := Nat.two_pow_pos k

/-- The arithmetic reading of the crate's mask computation: `a & host_mask` with
`host_mask = 2^(w-len) - 1`. -/
theorem hostPart_eq_land (w a len : Nat) : hostPart w a len = a &&& (2 ^ (w - len) - 1) := by
  rw [hostPart, Nat.and_two_pow_sub_one_eq_mod]

theorem prefixMatch_iff (w base a len : Nat) :
    prefixMatch w base a len = true ↔ a / 2 ^ (w - len) = base / 2 ^ (w - len) := by
  unfold prefixMatch netPart
  rw [beq_iff_eq]
  exact eq_comm

/-- The network part is "the top `len` bits": two numbers have the same network part iff they agree on every bit
from position `w - len` upwards. -/
theorem netPart_eq_iff_bits (w a b len : Nat) :
    netPart w a len = netPart w b len ↔ ∀ i, w - len ≤ i → a.testBit i = b.testBit i := by
  unfold netPart
  constructor
  · intro h i hi
    have := congrArg (fun x => x.testBit (i - (w - len))) h
    simp only [Nat.testBit_div_two_pow] at this
    rwa [Nat.sub_add_cancel hi] at this
  · intro h
    apply Nat.eq_of_testBit_eq
    intro i
    rw [Nat.testBit_div_two_pow, Nat.testBit_div_two_pow]
    exact h _ (Nat.le_add_left _ _)

/-- Taking fewer prefix bits can only make more addresses match. -/
theorem prefixMatch_mono {w base a len len' : Nat} (hl : len' ≤ len)
    (h : prefixMatch w base a len = true) : prefixMatch w base a len' = true := by
  rw [prefixMatch_iff] at *
  have hk : w - len' = (w - len) + ((w - len') - (w - len)) := by omega
  rw [hk, Nat.pow_add, ← Nat.div_div_eq_div_mul, ← Nat.div_div_eq_div_mul, h]

/-- The base address of the `/len'` network around `base` (host bits cleared). -/
def netBase (w base len' : Nat) : Nat := base / 2 ^ (w - len') * 2 ^ (w - len')

theorem netPart_netBase (w base len : Nat) : netPart w (netBase w base len) len = netPart w base len := by
  unfold netPart netBase
  rw [Nat.mul_div_cancel _ (two_pow_pos' _)]

theorem hostPart_netBase (w base len : Nat) : hostPart w (netBase w base len) len = 0 := by
  unfold hostPart netBase
  exact Nat.mul_mod_left _ _

/-- With a zero host part, "same network part" is the interval `[base, base + 2^(w-len))`. -/
theorem prefixMatch_iff_range {w base a len : Nat} (h0 : hostPart w base len = 0) :
    prefixMatch w base a len = true ↔ base ≤ a ∧ a < base + 2 ^ (w - len) := by
  rw [prefixMatch_iff]
  have hp := two_pow_pos' (w - len)
  have hb : base = base / 2 ^ (w - len) * 2 ^ (w - len) := by
    have := Nat.div_add_mod base (2 ^ (w - len))
    unfold hostPart at h0
    rw [h0, Nat.add_zero, Nat.mul_comm] at this
    exact this.symm
  rw [Nat.div_eq_iff hp, ← hb]
  constructor
  · rintro ⟨h1, h2⟩; exact ⟨h1, by omega⟩
  · rintro ⟨h1, h2⟩; exact ⟨h1, by omega⟩

theorem new?_wf {addr : IpAddr} {len : Nat} {c : AnyIpCidr} (ha : addr.WF)
    (h : AnyIpCidr.new? addr len = some c) : c.WF := by
  unfold AnyIpCidr.new? at h
  cases addr with
  | v4 n =>
    simp only [IpAddr.isV6, width, IpAddr.val, Bool.false_eq_true, if_false] at h ha
    split at h
    · simp at h
    · split at h
      · simp at h
      · next h1 h2 =>
        simp only [Option.some.injEq] at h
        subst h
        simp only [hasZeroHostPart, Bool.not_eq_true', beq_eq_false_iff_ne, ne_eq, Decidable.not_not] at h2
        exact ⟨by omega, ha, h2⟩
  | v6 n =>
    simp only [IpAddr.isV6, width, IpAddr.val, if_true] at h ha
    split at h
    · simp at h
    · split at h
      · simp at h
      · next h1 h2 =>
        simp only [Option.some.injEq] at h
        subst h
        simp only [hasZeroHostPart, Bool.not_eq_true', beq_eq_false_iff_ne, ne_eq, Decidable.not_not] at h2
        exact ⟨by omega, ha, h2⟩

end Rio.Cidr
