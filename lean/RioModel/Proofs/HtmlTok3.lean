/-
Stream laws of the tokenizer model, part 6: `ErrorToken` means EOF was hit; `next` keeps `allow_cdata`; the token
lists of two related tokenizers (`toks_sim_full`); the restart law on the level of `htmlTokenize`
(`htmlTokenize_restart`).
-/
import RioModel.Proofs.HtmlTok2
import RioModel.Proofs.FilterStreamLaws
set_option linter.unusedSimpArgs false
set_option linter.unusedVariables false

namespace Rio.Html
namespace Tokenizer
open Rio.Consts

/-- `allow_cdata` is kept, and an `ErrorToken` is returned only after a failed read -/
def Extra (t t' : Tokenizer) : Prop := t'.allowCdata = t.allowCdata ∧ (t'.token = .error → t'.err = true)

theorem readStartTag_kind (t : Tokenizer) (ok : Ok t) (h2 : 2 ≤ t.rawE) (htag : TagOk t.rawTag)
    (hk : (readStartTag t).2 = .error) : (readStartTag t).1.err = true := by
  have a1 := readTag_adv t true ok (by omega)
  have s1 := readTag_spec t true ok (by omega)
  unfold readStartTag at hk ⊢
  simp only at hk ⊢
  generalize t.readTag true = t1 at *
  have hle := a1.ok.le
  have hm := a1.mono
  by_cases he : t1.err = true
  · rw [if_pos he]; exact he
  · rw [if_neg he] at hk ⊢
    exfalso
    have hr := startTagRaw_spec t1 (by omega) (by omega)
    have hflags : (startTagRaw t1).panic = false ∧ (startTagRaw t1).utf8Err = false ∧
        (startTagRaw t1).rawE = t1.rawE ∧ (startTagRaw t1).buf = t1.buf := by
      rcases hr with h | ⟨bs, h, _⟩
      · rw [h]; exact ⟨a1.ok.panic, a1.ok.utf8, rfl, rfl⟩
      · rw [h]; exact ⟨a1.ok.panic, a1.ok.utf8, rfl, rfl⟩
    obtain ⟨f1, f2, f3, f4⟩ := hflags
    have hno : ¬ ((startTagRaw t1).rawE < 2 || (startTagRaw t1).buf.size ≤ (startTagRaw t1).rawE - 2) = true := by
      simp only [Bool.or_eq_true, decide_eq_true_eq, not_or]; rw [f3, f4]; omega
    have hpf : ¬ ((startTagRaw t1).panic || (startTagRaw t1).utf8Err) = true := by simp [f1, f2]
    rw [if_neg hpf, if_neg hno] at hk
    simp only at hk
    unfold startTagKind at hk
    have hlt : (startTagRaw t1).rawE - 2 < (startTagRaw t1).buf.size := by rw [f3, f4]; omega
    simp only [hlt, dite_true] at hk
    split at hk <;> cases hk

theorem dispatchTag_extra (t : Tokenizer) (b : Nat) (ok : Ok t) (h2 : 2 ≤ t.rawE) (htag : TagOk t.rawTag) :
    Extra t (dispatchTag t b) := by
  unfold dispatchTag
  simp only [htmlTagOpenLen]
  have hn : ¬ t.rawE < 2 := by omega
  rw [if_neg hn]
  split
  · exact ⟨rfl, fun h => by cases h⟩
  · split
    · have sp := readStartTag_spec t ok h2 htag
      have hk := readStartTag_kind t ok h2 htag
      exact ⟨sp.1.cdata, fun h => hk h⟩
    · split
      · have a3 := readByte_adv ok
        split
        · rename_i he
          unfold finishText
          split
          · exact ⟨a3.cdata, fun h => by cases h⟩
          · exact ⟨a3.cdata, fun _ => he⟩
        · rename_i he
          split
          · exact ⟨a3.cdata, fun h => by cases h⟩
          · split
            · have a4 := readTag_adv t.readByte.1 false a3.ok (readByte_pos he)
              split
              · rename_i he4; exact ⟨(a3.trans a4).cdata, fun _ => he4⟩
              · exact ⟨(a3.trans a4).cdata, fun h => by cases h⟩
            · have a4 := (read_unread_adv ok he)
              exact ⟨(a4.trans (readUntilCloseAngle_adv _ a4.ok)).cdata, fun h => by cases h⟩
      · split
        · exact ⟨(readMarkupDeclaration_adv t ok h2).cdata, fun h => absurd h (markup_kind t).2⟩
        · have hb : Adv { t with rawE := t.rawE - 1 } t := ⟨rfl, rfl, by simp, ok, rfl, rfl⟩
          have a4 := unread_adv 1 hb (by simp only; omega)
          have a5 := readUntilCloseAngle_adv _ a4.ok
          exact ⟨a5.cdata.trans a4.cdata, fun h => by cases h⟩

theorem mainLoop_extra (t : Tokenizer) (ok : Ok t) (htag : TagOk t.rawTag) : Extra t (mainLoop t) := by
  fun_induction mainLoop t
  all_goals (try simp +zetaDelta only at *)
  case case1 t _ he =>
    have a1 := readByte_adv ok
    unfold finishText
    split
    · exact ⟨a1.cdata, fun h => by cases h⟩
    · exact ⟨a1.cdata, fun _ => he⟩
  case case2 ih =>
    have a1 := readByte_adv ok
    have := ih a1.ok (by rw [a1.rawTag]; exact htag)
    exact ⟨this.1.trans a1.cdata, this.2⟩
  case case3 t _ _ _ _ he =>
    have a1 := readByte_adv ok
    have a2 := a1.trans (readByte_adv a1.ok)
    unfold finishText
    split
    · exact ⟨a2.cdata, fun h => by cases h⟩
    · exact ⟨a2.cdata, fun _ => he⟩
  case case4 t _ herr1 _ _ herr2 _ ih =>
    have a1 := readByte_adv ok
    have a2 := a1.trans (read_unread_adv a1.ok herr2)
    have := ih a2.ok (by rw [a2.rawTag]; exact htag)
    exact ⟨this.1.trans a2.cdata, this.2⟩
  case case5 t _ herr1 _ _ herr2 _ =>
    have a1 := readByte_adv ok
    have a2 := readByte_adv a1.ok
    have a12 := a1.trans a2
    have e1 := readByte_succ herr1
    have e2 := readByte_succ herr2
    have := dispatchTag_extra _ t.readByte.1.readByte.2 a2.ok (by omega) (by rw [a12.rawTag]; exact htag)
    exact ⟨this.1.trans a12.cdata, this.2⟩

theorem nextGo_extra (t : Tokenizer) (ok : Ok t) (htag : TagOk t.rawTag) : Extra t (nextGo t) := by
  unfold nextGo
  simp only
  by_cases h0 : t.err = true
  · rw [if_pos h0]; exact ⟨rfl, fun _ => h0⟩
  · rw [if_neg h0]
    have cont : ∀ t1 : Tokenizer, Ok t1 → TagOk t1.rawTag → t1.allowCdata = t.allowCdata →
        Extra t (mainLoop { t1 with textIsRaw := false, convertNull := false }) := by
      intro t1 ok1 tg1 hc
      have := mainLoop_extra { t1 with textIsRaw := false, convertNull := false }
        ⟨ok1.le, ok1.panic, ok1.hang, ok1.utf8⟩ tg1
      exact ⟨this.1.trans hc, this.2⟩
    by_cases h1 : (t.rawTag != []) = true
    · rw [if_pos h1]
      have key : ∀ t1 : Tokenizer, Ok t1 → TagOk t1.rawTag → t1.allowCdata = t.allowCdata →
          Extra t (if t1.dataE > t1.dataS then { t1 with token := .text, convertNull := true }
            else mainLoop { t1 with textIsRaw := false, convertNull := false }) := by
        intro t1 ok1 tg1 hc
        split
        · exact ⟨hc, fun h => by cases h⟩
        · exact cont t1 ok1 tg1 hc
      by_cases h2 : (t.rawTag == htmlPlaintext) = true
      · rw [if_pos h2]
        have a := readToEnd_adv t ok
        exact key _ ⟨a.ok.le, a.ok.panic, a.ok.hang, a.ok.utf8⟩ (by
          show TagOk t.readToEnd.rawTag; rw [a.rawTag]; exact htag) a.cdata
      · rw [if_neg h2]
        have s := readRawOrCdata_spec t ok htag
        have hc : (readRawOrCdata t).allowCdata = t.allowCdata := by
          unfold readRawOrCdata readScript
          split
          · rename_i hs
            have hs' : t.rawTag = htmlScript := by simpa using hs
            exact (scriptGo_adv .data t t (Adv.refl ok) (by simp [SS.need]) hs').cdata
          · exact (rawTextGo_adv t ok htag).cdata
        exact key _ s.1.ok (by rw [s.2.1]; exact TagOk_nil) hc
    · rw [if_neg h1]
      exact cont t ok htag rfl

theorem next_extra (t : Tokenizer) (inv : Inv t) : Extra t (next t) :=
  nextGo_extra _ ⟨inv.ok.le, inv.ok.panic, inv.ok.hang, inv.ok.utf8⟩ inv.tag

theorem nexts_cdata (n : Nat) (t : Tokenizer) (inv : Inv t) : (nexts n t).allowCdata = t.allowCdata := by
  induction n with
  | zero => rfl
  | succ n ih => exact (next_extra _ (nexts_inv n t inv)).1.trans ih

/-- an `ErrorToken` is returned only when EOF has been hit -/
theorem next_error_err (t : Tokenizer) (inv : Inv t) (h : (next t).token = .error) : (next t).err = true :=
  (next_extra t inv).2 h

end Tokenizer
end Rio.Html

namespace Rio.Html
namespace Tokenizer

/-! ### a text cut by EOF merges with what follows (the main loop with pending text) -/

@[simp] theorem readByte_rawTag' (t : Tokenizer) : t.readByte.1.rawTag = t.rawTag := by
  unfold readByte; split <;> rfl
@[simp] theorem readByte_cdata' (t : Tokenizer) : t.readByte.1.allowCdata = t.allowCdata := by
  unfold readByte; split <;> rfl
@[simp] theorem unread_rawTag' (t : Tokenizer) (k : Nat) : (t.unread k).rawTag = t.rawTag := by
  unfold unread; split <;> rfl
@[simp] theorem unread_cdata' (t : Tokenizer) (k : Nat) : (t.unread k).allowCdata = t.allowCdata := by
  unfold unread; split <;> rfl

local macro "tr" : tactic => `(tactic| first | trivial | rfl)

theorem dispatchTag_flush (t : Tokenizer) (b : Nat) (h2 : 2 ≤ t.rawE) (hf : t.rawS < t.rawE - 2) :
    dispatchTag t b = { t with rawE := t.rawE - 2, dataE := t.rawE - 2, token := .text } := by
  unfold dispatchTag
  simp only [Rio.Consts.htmlTagOpenLen]
  rw [if_neg (by omega), if_pos hf]

theorem readByte_pre {F : Prop} {p : Nat} {t u : Tokenizer} (c : Pre F p t u) (e : EO F u.readByte.1) :
    Pre F p t.readByte.1 u.readByte.1 ∧ t.readByte.2 = u.readByte.2 ∧ t.readByte.1.rawS = t.rawS ∧
    t.readByte.1.buf = t.buf := by
  have c' : Core F p { t with rawS := p + u.rawS, dataS := p + u.dataS, dataE := p + u.dataE } u :=
    ⟨c.size, c.agree, c.full, rfl, c.rawE, rfl, rfl, c.err, c.rawTag, c.cdata, c.panic, c.hang, c.utf8⟩
  have r := readByte_sim c' e
  have h1 : ({ t with rawS := p + u.rawS, dataS := p + u.dataS, dataE := p + u.dataE } : Tokenizer).readByte.2 =
      t.readByte.2 := by unfold readByte; split <;> rfl
  have h2 : live ({ t with rawS := p + u.rawS, dataS := p + u.dataS, dataE := p + u.dataE } : Tokenizer).readByte.1 =
      (t.readByte.1.buf, p + u.rawS, t.readByte.1.rawE, p + u.dataS, p + u.dataE, t.readByte.1.err, t.readByte.1.rawTag,
        t.readByte.1.allowCdata, t.readByte.1.panic, t.readByte.1.hang, t.readByte.1.utf8Err) := by
    unfold readByte live; split <;> rfl
  have p1 := r.1.toPre
  simp only [live, Prod.mk.injEq] at h2
  obtain ⟨b1, b2, b3, b4, b5, b6, b7, b8, b9, b10, b11⟩ := h2
  refine ⟨⟨by rw [← b1]; exact p1.size, by rw [← b1]; exact p1.agree, by rw [← b1]; exact p1.full,
    by rw [← b3]; exact p1.rawE, by rw [← b6]; exact p1.err, by rw [← b7]; exact p1.rawTag, by rw [← b8]; exact p1.cdata,
    by rw [← b9]; exact p1.panic, by rw [← b10]; exact p1.hang, by rw [← b11]; exact p1.utf8⟩, by rw [← h1]; exact r.2, ?_, ?_⟩
  · unfold readByte; split <;> rfl
  · exact readByte_buf t

theorem unread_pre {F : Prop} {p : Nat} {t u : Tokenizer} (k : Nat) (c : Pre F p t u) (hk : k ≤ u.rawE) :
    Pre F p (t.unread k) (u.unread k) ∧ (t.unread k).rawS = t.rawS ∧ (t.unread k).buf = t.buf := by
  unfold unread
  have hk' : k ≤ t.rawE := by have := c.rawE; omega
  simp only [hk, hk', if_true]
  exact ⟨⟨c.size, c.agree, c.full, by simp only; have := c.rawE; omega, c.err, c.rawTag, c.cdata, c.panic, c.hang,
    c.utf8⟩, by tr, by tr⟩

/-- outcome of the main loop on `t`, which has strictly more pending text than the related `v` -/
def PendingOut (p : Nat) (t v t' v' : Tokenizer) : Prop :=
  t'.token = .text ∧ t'.rawS = t.rawS ∧ t'.buf = t.buf ∧
  ((Pre True p t' v' ∧ v'.rawS = v.rawS ∧ (v'.token = .text ∨ (v'.token = .error ∧ v'.rawE = v.rawS))) ∨
   (t'.rawE = p + v.rawS ∧ t'.err = false ∧ t'.rawTag = t.rawTag ∧ t'.allowCdata = t.allowCdata))

theorem PendingOut.rebase {p : Nat} {t t1 v v1 t' v' : Tokenizer} (h : PendingOut p t1 v1 t' v')
    (e1 : t1.rawS = t.rawS) (e2 : t1.buf = t.buf) (e3 : v1.rawS = v.rawS) (e4 : t1.rawTag = t.rawTag)
    (e5 : t1.allowCdata = t.allowCdata) : PendingOut p t v t' v' := by
  obtain ⟨h1, h2, h3, h4⟩ := h
  refine ⟨h1, h2.trans e1, h3.trans e2, ?_⟩
  rcases h4 with ⟨a, b, c⟩ | ⟨a, b, c, d⟩
  · exact Or.inl ⟨a, b.trans e3, by rw [← e3]; exact c⟩
  · exact Or.inr ⟨by rw [← e3]; exact a, b, c.trans e4, d.trans e5⟩

theorem mainLoop_pending {p : Nat} (t v : Tokenizer) (c : Pre True p t v) (okv : Ok v)
    (hrs : t.rawS < p + v.rawS) (hv : v.rawS ≤ v.rawE) : PendingOut p t v (mainLoop t) (mainLoop v) := by
  fun_induction mainLoop v generalizing t
  all_goals (try simp +zetaDelta only at *)
  case case1 v _ he =>
    have rb := readByte_pre c (Or.inl trivial)
    rw [mainLoop]
    sif' [rb.1.err, he]
    have hrE := rb.1.rawE
    have hm := (readByte_adv okv).mono
    have hlt : t.readByte.1.rawS < t.readByte.1.rawE := by rw [rb.2.2.1, hrE]; omega
    unfold finishText
    rw [if_pos hlt]
    refine ⟨by tr, rb.2.2.1, rb.2.2.2, Or.inl ?_⟩
    have hvs : v.readByte.1.rawS = v.rawS := (readByte_adv okv).rawS
    split
    · exact ⟨⟨rb.1.size, rb.1.agree, rb.1.full, rb.1.rawE, rb.1.err, rb.1.rawTag, rb.1.cdata, rb.1.panic, rb.1.hang,
        rb.1.utf8⟩, hvs, Or.inl rfl⟩
    · rename_i hn
      refine ⟨⟨rb.1.size, rb.1.agree, rb.1.full, rb.1.rawE, rb.1.err, rb.1.rawTag, rb.1.cdata, rb.1.panic, rb.1.hang,
        rb.1.utf8⟩, hvs, Or.inr ⟨rfl, ?_⟩⟩
      show v.readByte.1.rawE = v.rawS
      rw [hvs] at hn; omega
  case case2 v _ he hne ih =>
    have rb := readByte_pre c (Or.inl trivial)
    have a1 := readByte_adv okv
    rw [mainLoop]
    sif' [rb.1.err, he, rb.2.1, hne]
    have := ih _ rb.1 a1.ok (by rw [rb.2.2.1, a1.rawS]; exact hrs) (by rw [a1.rawS]; have := a1.mono; omega)
    exact this.rebase rb.2.2.1 rb.2.2.2 a1.rawS (by simp) (by simp)
  case case3 v _ he1 hlt _ he2 =>
    have rb := readByte_pre c (Or.inl trivial)
    have rb2 := readByte_pre rb.1 (Or.inl trivial)
    have a1 := readByte_adv okv
    have a2 := readByte_adv a1.ok
    have e1 := readByte_succ he1
    rw [mainLoop]
    sif' [rb.1.err, he1, rb.2.1, hlt, rb2.1.err, he2]
    have hrE := rb2.1.rawE
    have hlt' : t.readByte.1.readByte.1.rawS < t.readByte.1.readByte.1.rawE := by
      rw [rb2.2.2.1, rb.2.2.1, hrE]; have := a2.mono; omega
    have hvs : v.readByte.1.readByte.1.rawS = v.rawS := (a1.trans a2).rawS
    have hlv : v.readByte.1.readByte.1.rawS < v.readByte.1.readByte.1.rawE := by
      rw [hvs]; have := a2.mono; omega
    unfold finishText
    rw [if_pos hlt', if_pos hlv]
    exact ⟨by tr, rb2.2.2.1.trans rb.2.2.1, rb2.2.2.2.trans rb.2.2.2, Or.inl
      ⟨⟨rb2.1.size, rb2.1.agree, rb2.1.full, rb2.1.rawE, rb2.1.err, rb2.1.rawTag, rb2.1.cdata, rb2.1.panic, rb2.1.hang,
        rb2.1.utf8⟩, hvs, Or.inl (by tr)⟩⟩
  case case4 v _ he1 hlt _ he2 hnt ih =>
    have rb := readByte_pre c (Or.inl trivial)
    have rb2 := readByte_pre rb.1 (Or.inl trivial)
    have a1 := readByte_adv okv
    have a2 := a1.trans (read_unread_adv a1.ok he2)
    have e1 := readByte_succ he1
    have ur := unread_pre 1 rb2.1 (readByte_pos he2)
    rw [mainLoop]
    sif' [rb.1.err, he1, rb.2.1, hlt, rb2.1.err, he2, rb2.2.1, hnt]
    have := ih _ ur.1 a2.ok (by rw [ur.2.1, rb2.2.2.1, rb.2.2.1, a2.rawS]; exact hrs)
      (by rw [a2.rawS]; have := a2.mono; omega)
    exact this.rebase (ur.2.1.trans (rb2.2.2.1.trans rb.2.2.1)) (ur.2.2.trans (rb2.2.2.2.trans rb.2.2.2)) a2.rawS
      (by simp) (by simp)
  case case5 v _ he1 hlt _ he2 hnt =>
    have rb := readByte_pre c (Or.inl trivial)
    have rb2 := readByte_pre rb.1 (Or.inl trivial)
    have a1 := readByte_adv okv
    have a2 := readByte_adv a1.ok
    have a12 := a1.trans a2
    have e1 := readByte_succ he1
    have e2 := readByte_succ he2
    rw [mainLoop]
    sif' [rb.1.err, he1, rb.2.1, hlt, rb2.1.err, he2, rb2.2.1, hnt]
    have hrE := rb2.1.rawE
    have hTs : t.readByte.1.readByte.1.rawS = t.rawS := rb2.2.2.1.trans rb.2.2.1
    have hVs : v.readByte.1.readByte.1.rawS = v.rawS := a12.rawS
    have hTerr : t.readByte.1.readByte.1.err = false := by rw [rb2.1.err]; simpa using he2
    have hfl : t.readByte.1.readByte.1.rawS < t.readByte.1.readByte.1.rawE - 2 := by rw [hTs]; omega
    rw [dispatchTag_flush _ _ (by omega) hfl]
    refine ⟨by tr, hTs, rb2.2.2.2.trans rb.2.2.2, ?_⟩
    by_cases hx : v.readByte.1.readByte.1.rawS < v.readByte.1.readByte.1.rawE - 2
    · rw [dispatchTag_flush _ _ (by omega) hx]
      exact Or.inl ⟨⟨rb2.1.size, rb2.1.agree, rb2.1.full, by simp only; omega, rb2.1.err, rb2.1.rawTag, rb2.1.cdata,
        rb2.1.panic, rb2.1.hang, rb2.1.utf8⟩, hVs, Or.inl (by tr)⟩
    · refine Or.inr ⟨?_, hTerr, by simp, by simp⟩
      show t.readByte.1.readByte.1.rawE - 2 = p + v.rawS
      rw [hVs] at hx; omega

theorem readByte_state {t : Tokenizer} (h : t.rawE < t.buf.size) :
    t.readByte = ({ t with rawE := t.rawE + 1 }, t.buf[t.rawE]) := by
  unfold readByte; simp only [h, dite_true]

/-- the main loop runs over bytes that are not `<` -/
theorem mainLoop_skip (k : Nat) (t : Tokenizer) (herr : t.err = false) (hin : t.rawE + k ≤ t.buf.size)
    (hno : ∀ i, i < k → t.buf[t.rawE + i]? ≠ some 60) : mainLoop t = mainLoop { t with rawE := t.rawE + k } := by
  induction k generalizing t with
  | zero => rfl
  | succ k ih =>
    have hlt : t.rawE < t.buf.size := by omega
    have hb : t.buf[t.rawE] ≠ 60 := by
      have := hno 0 (by omega)
      simp only [Nat.add_zero, Array.getElem?_eq_getElem hlt] at this
      intro h; exact this (by rw [h])
    rw [mainLoop, readByte_state hlt]
    have he' : ¬ ({ t with rawE := t.rawE + 1 } : Tokenizer).err = true := by
      show ¬ t.err = true; rw [herr]; exact Bool.false_ne_true
    have hne : (t.buf[t.rawE] != 60) = true := by simpa using hb
    simp only []
    rw [dif_neg he', if_pos hne]
    have := ih { t with rawE := t.rawE + 1 } herr (by simp only; omega) (by
      intro i hi
      have := hno (i + 1) (by omega)
      simp only at this ⊢
      rw [show t.rawE + 1 + i = t.rawE + (i + 1) by omega]; exact this)
    rw [this]
    simp only
    rw [show t.rawE + 1 + k = t.rawE + (k + 1) by omega]

end Tokenizer
end Rio.Html

namespace Rio.Filter
open Rio.Html Rio.Html.Tokenizer

/-! ### related tokenizers produce the same token lists -/

theorem restL_sim {F : Prop} {p : Nat} {t u : Tokenizer} (c : Pre F p t u) (f : F) (hu : u.rawE ≤ u.buf.size) :
    restL t = restL u := by
  unfold restL
  have := c.extract u.rawE u.buf.size hu (Nat.le_refl _)
  rw [c.rawE, ← c.full f]
  exact this

theorem tokOf_sim {F : Prop} {p : Nat} {t u : Tokenizer} (c : CoreT F p t u) (inv : Tokenizer.Inv u) (sp : Spans u) :
    tokOf t = tokOf u := by
  unfold tokOf
  rw [c.2, c.rawL inv, c.dataL inv sp]

theorem toksGo_sim_full {p : Nat} : ∀ (n : Nat) (t u : Tokenizer), Pre True p t u → Tokenizer.Inv t → Tokenizer.Inv u →
    toksGo n t = toksGo n u
  | 0, t, u, c, _, iu => by simp only [toksGo]; rw [restL_sim c trivial iu.ok.le]
  | n + 1, t, u, c, it, iu => by
    have s := next_sim t u c iu (Or.inl trivial)
    have iu1 := next_inv' u iu
    have it1 := next_inv' t it
    have sp := (next_post u iu).spans
    simp only [toksGo, s.2]
    rw [tokOf_sim s iu1 sp, s.rawL iu1, restL_sim s.1.toPre trivial iu1.ok.le,
      toksGo_sim_full n _ _ s.1.toPre it1 iu1]

/-- two tokenizers whose remaining inputs coincide (window reaching the end), at corresponding positions with equal
control state, produce the same tokens and the same remainder -/
theorem toks_sim_full {p : Nat} (t u : Tokenizer) (c : Pre True p t u) (it : Tokenizer.Inv t) (iu : Tokenizer.Inv u) :
    toks t = toks u := by
  unfold toks
  have hsz : t.buf.size - t.rawE = u.buf.size - u.rawE := by
    have := c.full trivial; have := c.rawE; omega
  rw [hsz]
  exact toksGo_sim_full _ t u c it iu

/-- **RESTART on the level of token lists**: at a token boundary with `raw_tag = ""`, EOF not reached, the remaining
tokens are those of a fresh tokenizer on the unread bytes -/
theorem toks_restart (t : Tokenizer) (inv : Tokenizer.Inv t) (herr : t.err = false) (htag : t.rawTag = [])
    (hcd : t.allowCdata = true) : toks t = toks (restartOf t) :=
  toks_sim_full t (restartOf t) (pre_restart t inv herr htag hcd) inv
    ⟨Nat.le_refl _, ⟨Nat.zero_le _, rfl, rfl, rfl⟩, TagOk_nil⟩

/-! ### prefix stability on the level of token lists -/

/-- `k` calls of `next` (unfolding at the front) -/
def nextsF : Nat → Tokenizer → Tokenizer
  | 0, t => t
  | k + 1, t => nextsF k (Tokenizer.next t)

/-- the first `k` tokens -/
def firstToks : Nat → Tokenizer → List Tok
  | 0, _ => []
  | k + 1, t => tokOf (Tokenizer.next t) :: firstToks k (Tokenizer.next t)

theorem nextsF_inv (k : Nat) (t : Tokenizer) (inv : Tokenizer.Inv t) : Tokenizer.Inv (nextsF k t) := by
  induction k generalizing t with
  | zero => exact inv
  | succ k ih => exact ih _ (next_inv' t inv)

theorem nextsF_err_sticky (k : Nat) (t : Tokenizer) (h : t.err = true) : (nextsF k t).err = true := by
  induction k generalizing t with
  | zero => exact h
  | succ k ih => exact ih _ (next_err_sticky t h)

theorem nextsF_cdata (k : Nat) (t : Tokenizer) (inv : Tokenizer.Inv t) : (nextsF k t).allowCdata = t.allowCdata := by
  induction k generalizing t with
  | zero => rfl
  | succ k ih => exact (ih _ (next_inv' t inv)).trans (next_extra t inv).1

theorem nextsF_buf (k : Nat) (t : Tokenizer) (inv : Tokenizer.Inv t) : (nextsF k t).buf = t.buf := by
  induction k generalizing t with
  | zero => rfl
  | succ k ih => exact (ih _ (next_inv' t inv)).trans (next_buf' t inv)

/-- if EOF has not been hit after `k` calls, the first `k` tokens are proper tokens and `toks` splits there -/
theorem toks_split (k : Nat) (t : Tokenizer) (inv : Tokenizer.Inv t) (hk : (nextsF k t).err = false) :
    toks t = (firstToks k t ++ (toks (nextsF k t)).1, (toks (nextsF k t)).2) := by
  induction k generalizing t with
  | zero => simp [firstToks, nextsF]
  | succ k ih =>
    have i1 := next_inv' t inv
    have hne : ¬ ((Tokenizer.next t).token == TokenType.error) = true := by
      intro he
      have he' : (Tokenizer.next t).token = .error := by simpa using he
      have := nextsF_err_sticky k _ (next_error_err t inv he')
      simp only [nextsF] at hk
      rw [this] at hk; cases hk
    rw [toks_unfold t inv, if_neg hne, ih _ i1 hk]
    simp [firstToks, nextsF]

/-- **PREFIX STABILITY on the level of token lists**: if EOF has not been hit after `k` calls on the window `u`, then
the big buffer yields the same first `k` tokens and continues from a related state -/
theorem toks_prefix (k : Nat) (T u : Tokenizer) (c : Pre False 0 T u) (iT : Tokenizer.Inv T) (iu : Tokenizer.Inv u)
    (hk : (nextsF k u).err = false) :
    toks T = (firstToks k u ++ (toks (nextsF k T)).1, (toks (nextsF k T)).2) ∧ Pre False 0 (nextsF k T) (nextsF k u) := by
  induction k generalizing T u with
  | zero => exact ⟨by simp [firstToks, nextsF], c⟩
  | succ k ih =>
    have herr1 : (Tokenizer.next u).err = false := by
      cases h : (Tokenizer.next u).err with
      | false => rfl
      | true => have := nextsF_err_sticky k _ h; simp only [nextsF] at hk; rw [this] at hk; cases hk
    have s := next_sim T u c iu (Or.inr herr1)
    have iu1 := next_inv' u iu
    have iT1 := next_inv' T iT
    have sp := (next_post u iu).spans
    have hne : ¬ ((Tokenizer.next T).token == TokenType.error) = true := by
      rw [s.2]
      intro he
      have he' : (Tokenizer.next u).token = .error := by simpa using he
      rw [next_error_err u iu he'] at herr1; cases herr1
    have r := ih _ _ s.1.toPre iT1 iu1 hk
    refine ⟨?_, r.2⟩
    rw [toks_unfold T iT, if_neg hne, r.1, tokOf_sim s iu1 sp]
    simp [firstToks, nextsF]

theorem toks_error (t : Tokenizer) (inv : Tokenizer.Inv t) (h : (Tokenizer.next t).token = .error) :
    toks t = ([], restL t) := by
  have hi1 := next_inv' t inv
  have hb := next_buf' t inv
  have hs := next_rawS' t inv
  rw [toks_unfold t inv, if_pos (by simpa using h)]
  unfold restL rawL
  rw [hb, hs]
  rw [← extract_split t.buf t.rawE (Tokenizer.next t).rawE t.buf.size (by rw [← hs]; exact hi1.raw)
    (by rw [← hb]; exact hi1.ok.le)]

/-! ### merging of adjacent text tokens -/

def textTok (c : Bytes) : Tok := { kind := .text, raw := c, name := [] }

theorem normText_merge (c y : Bytes) (R : List Tok) :
    normText (textTok (c ++ y) :: R) = normText (textTok c :: textTok y :: R) := by
  simp only [normText]
  cases hN : normText R with
  | nil => simp [textTok]
  | cons t' r =>
    by_cases hk : t'.kind = .text
    · simp [textTok, hk, List.append_assoc]
    · simp [textTok, hk]

theorem normText_prefix_congr (pre x y : List Tok) (h : normText x = normText y) :
    normText (pre ++ x) = normText (pre ++ y) := by
  induction pre with
  | nil => exact h
  | cons t ts ih => simp only [List.cons_append, normText, ih]

theorem next_new_eq (d : Array Nat) : Tokenizer.next (Tokenizer.new d) = mainLoop (Tokenizer.new d) := by
  unfold Tokenizer.next nextGo
  rfl

theorem next_of_err (t : Tokenizer) (h : t.err = true) : (Tokenizer.next t).token = .error := by
  unfold Tokenizer.next nextGo
  simp [h]

theorem rawL_eq_take (t : Tokenizer) (h : t.rawS = 0) : rawL t = t.buf.toList.take t.rawE := by
  unfold rawL; rw [extract_toList_eq, h]; simp

/-- **a plain text cut by EOF merges with what follows**: for `c ≠ []` without `<`, the tokens of `c ++ a'` are, up to
merging of adjacent text tokens, the text token `c` followed by the tokens of `a'`; same remainder. -/
theorem toks_text_merge (c a' : Bytes) (hc : c ≠ []) (hno : ∀ b ∈ c, b ≠ 60) :
    normText (toks (Tokenizer.new (c ++ a').toArray)).1 =
      normText (textTok c :: (toks (Tokenizer.new a'.toArray)).1) ∧
    (toks (Tokenizer.new (c ++ a').toArray)).2 = (toks (Tokenizer.new a'.toArray)).2 := by
  have hU : Tokenizer.Inv (Tokenizer.new (c ++ a').toArray) := ⟨Nat.le_refl _, ⟨Nat.zero_le _, rfl, rfl, rfl⟩, TagOk_nil⟩
  have hW : Tokenizer.Inv (Tokenizer.new a'.toArray) := ⟨Nat.le_refl _, ⟨Nat.zero_le _, rfl, rfl, rfl⟩, TagOk_nil⟩
  generalize hUdef : Tokenizer.new (c ++ a').toArray = U at *
  generalize hWdef : Tokenizer.new a'.toArray = W at *
  have hUbuf : U.buf = (c ++ a').toArray := by rw [← hUdef]; rfl
  have hWbuf : W.buf = a'.toArray := by rw [← hWdef]; rfl
  have hU0 : U.rawS = 0 ∧ U.rawE = 0 ∧ U.err = false ∧ U.rawTag = [] ∧ U.allowCdata = true ∧ U.panic = false ∧
      U.hang = false ∧ U.utf8Err = false := by rw [← hUdef]; exact ⟨rfl, rfl, rfl, rfl, rfl, rfl, rfl, rfl⟩
  have hW0 : W.rawS = 0 ∧ W.rawE = 0 ∧ W.err = false ∧ W.rawTag = [] ∧ W.allowCdata = true ∧ W.panic = false ∧
      W.hang = false ∧ W.utf8Err = false := by rw [← hWdef]; exact ⟨rfl, rfl, rfl, rfl, rfl, rfl, rfl, rfl⟩
  have hclen : 0 < c.length := by cases c with | nil => exact absurd rfl hc | cons x xs => simp
  -- the first call on `c ++ a'` = the main loop after skipping `c`
  have hnU : Tokenizer.next U = mainLoop { U with rawE := c.length } := by
    rw [← hUdef, next_new_eq, mainLoop_skip c.length _ rfl (by simp [Tokenizer.new]) (by
      intro i hi
      simp only [Tokenizer.new, Nat.zero_add]
      rw [← Array.getElem?_toList]
      simp only [List.toList_toArray]
      rw [List.getElem?_append_left hi, List.getElem?_eq_getElem hi]
      intro h; injection h with h
      exact hno _ (List.getElem_mem hi) h)]
    simp [Tokenizer.new]
  have hnW : Tokenizer.next W = mainLoop W := by rw [← hWdef, next_new_eq]
  -- the relation between the two main loops
  have pre : Pre True c.length { U with rawE := c.length } W := by
    refine ⟨by simp [hUbuf, hWbuf], ?_, fun _ => by simp [hUbuf, hWbuf], by simp [hW0.2.1], hU0.2.2.1.trans hW0.2.2.1.symm,
      hU0.2.2.2.1.trans hW0.2.2.2.1.symm, hU0.2.2.2.2.1.trans hW0.2.2.2.2.1.symm,
      hU0.2.2.2.2.2.1.trans hW0.2.2.2.2.2.1.symm, hU0.2.2.2.2.2.2.1.trans hW0.2.2.2.2.2.2.1.symm,
      hU0.2.2.2.2.2.2.2.trans hW0.2.2.2.2.2.2.2.symm⟩
    intro i hi
    simp only [hUbuf, hWbuf] at hi ⊢
    rw [← Array.getElem?_toList, ← Array.getElem?_toList]
    simp only [List.toList_toArray]
    rw [List.getElem?_append_right (by omega)]
    simp
  have po := mainLoop_pending { U with rawE := c.length } W pre ⟨by rw [hW0.2.1]; exact Nat.zero_le _, hW0.2.2.2.2.2.1,
    hW0.2.2.2.2.2.2.1, hW0.2.2.2.2.2.2.2⟩ (by simp only [hU0.1, hW0.1]; omega) (by rw [hW0.1, hW0.2.1]; exact Nat.le_refl _)
  rw [← hnU, ← hnW] at po
  obtain ⟨p1, p2, p3, p4⟩ := po
  have iU1 := next_inv' U hU
  have iW1 := next_inv' W hW
  have hneU : ¬ ((Tokenizer.next U).token == TokenType.error) = true := by rw [p1]; decide
  have hrs0 : (Tokenizer.next U).rawS = 0 := by rw [p2]; exact hU0.1
  have hbufU : (Tokenizer.next U).buf = (c ++ a').toArray := by rw [p3]; exact hUbuf
  have htokU : tokOf (Tokenizer.next U) = textTok (rawL (Tokenizer.next U)) := by
    unfold tokOf textTok; rw [p1]; rfl
  rw [toks_unfold U hU, if_neg hneU, htokU]
  simp only
  rcases p4 with ⟨q1, q2, q3⟩ | ⟨q1, q2, q3, q4⟩
  · -- the two main loops stopped together
    have hsim := toks_sim_full _ _ q1 iU1 iW1
    have hrawE := q1.rawE
    have hbufW : (Tokenizer.next W).buf = a'.toArray := (next_buf' W hW).trans hWbuf
    have hrawU : rawL (Tokenizer.next U) = c ++ a'.take (Tokenizer.next W).rawE := by
      rw [rawL_eq_take _ hrs0, hbufU, hrawE]
      simp only [List.toList_toArray]
      rw [List.take_append]
      simp only [Nat.add_sub_cancel_left]
      rw [List.take_of_length_le (by omega)]
    rcases q3 with q3 | ⟨q3, q4⟩
    · have hneW : ¬ ((Tokenizer.next W).token == TokenType.error) = true := by rw [q3]; decide
      have htokW : tokOf (Tokenizer.next W) = textTok (rawL (Tokenizer.next W)) := by
        unfold tokOf textTok; rw [q3]; rfl
      have hrawW : rawL (Tokenizer.next W) = a'.take (Tokenizer.next W).rawE := by
        rw [rawL_eq_take _ (q2.trans hW0.1), hbufW]
      rw [toks_unfold W hW, if_neg hneW, htokW, hsim, hrawU, hrawW]
      exact ⟨normText_merge _ _ _, rfl⟩
    · -- `a'` is empty: nothing follows
      have herrW := next_error_err W hW q3
      have hW2 := toks_error _ iW1 (next_of_err _ herrW)
      have hq : (Tokenizer.next W).rawE = 0 := q4.trans hW0.1
      rw [toks_error W hW q3, hsim, hW2, hrawU, hq]
      simp only [List.take_zero, List.append_nil]
      refine ⟨by first | trivial | rfl, ?_⟩
      unfold restL
      rw [hq, hW0.2.1, next_buf' W hW]
  · -- the text `c` was flushed right before a tag of `a'`: restart
    have hcd : (Tokenizer.next U).allowCdata = true := q4.trans hU0.2.2.2.2.1
    have htag : (Tokenizer.next U).rawTag = [] := q3.trans hU0.2.2.2.1
    have hre : (Tokenizer.next U).rawE = c.length := by rw [q1, hW0.1]; rfl
    have hrs := toks_restart _ iU1 q2 htag hcd
    have hres : restartOf (Tokenizer.next U) = W := by
      unfold restartOf
      rw [hbufU, hre, ← hWdef]
      congr 1
      apply Array.ext'
      simp
    have hrawU : rawL (Tokenizer.next U) = c := by
      rw [rawL_eq_take _ hrs0, hbufU, hre]; simp
    rw [hrs, hres, hrawU]
    exact ⟨rfl, rfl⟩

/-! ### the restart law on the level of `htmlTokenize` -/

theorem nextsF_succ_back (k : Nat) (t : Tokenizer) : nextsF (k + 1) t = Tokenizer.next (nextsF k t) := by
  induction k generalizing t with
  | zero => rfl
  | succ k ih => simp only [nextsF]; exact ih (Tokenizer.next t)

theorem firstToks_succ_back (k : Nat) (t : Tokenizer) :
    firstToks (k + 1) t = firstToks k t ++ [tokOf (Tokenizer.next (nextsF k t))] := by
  induction k generalizing t with
  | zero => rfl
  | succ k ih => simp only [firstToks, nextsF, List.cons_append]; rw [← ih (Tokenizer.next t)]; rfl

theorem loopInv_nextsF (k : Nat) (t : Tokenizer) (h : LoopInv t) : LoopInv (nextsF k t) := by
  induction k generalizing t with
  | zero => exact h
  | succ k ih => exact ih _ h.next

/-- shape of `toks`: `m` proper tokens, then the `ErrorToken` -/
theorem toks_shape : ∀ (n : Nat) (t : Tokenizer), Tokenizer.Inv t → t.buf.size - t.rawE + 1 ≤ n →
    (toks t).1 = firstToks (toks t).1.length t ∧
    (Tokenizer.next (nextsF (toks t).1.length t)).token = .error ∧
    (toks t).2 = restL (nextsF (toks t).1.length t)
  | 0, _, _, hf => by omega
  | n + 1, t, inv, hf => by
    have i1 := next_inv' t inv
    by_cases he : ((Tokenizer.next t).token == TokenType.error) = true
    · have he' : (Tokenizer.next t).token = .error := by simpa using he
      rw [toks_error t inv he']
      exact ⟨rfl, he', rfl⟩
    · have hne : (Tokenizer.next t).token ≠ .error := by simpa using he
      have hgt := next_rawE_gt t inv hne
      have hb := next_buf' t inv
      have hle := i1.ok.le
      have ih := toks_shape n _ i1 (by rw [hb] at hle ⊢; omega)
      rw [toks_unfold t inv, if_neg he]
      simp only [List.length_cons, firstToks, nextsF]
      exact ⟨by rw [← ih.1], ih.2.1, ih.2.2⟩

theorem new_append (a1 a' : Bytes) :
    Tokenizer.new (a1 ++ a').toArray = extend (Tokenizer.new a1.toArray) a'.toArray := by
  unfold extend Tokenizer.new
  simp

theorem restL_of_buf (s : Tokenizer) (a1 : Bytes) (h : s.buf = a1.toArray) : restL s = a1.drop s.rawE := by
  unfold restL
  rw [extract_toList_eq, h]
  simp

/-- **restart at the `k`-th token boundary** (list level): if after `k` tokens of `a1` EOF has not been hit and no
raw-text context is pending, then `a1 ++ a'` tokenizes as those `k` tokens followed by the tokens of
`(unread rest of a1) ++ a'` from a fresh tokenizer -/
theorem restart_at (a1 a' : Bytes) (hv : V a1) (k : Nat)
    (herr : (nextsF k (Tokenizer.new a1.toArray)).err = false)
    (htag : (nextsF k (Tokenizer.new a1.toArray)).rawTag = []) :
    toks (Tokenizer.new (a1 ++ a').toArray) =
      (firstToks k (Tokenizer.new a1.toArray) ++
        (toks (Tokenizer.new (a1.drop (nextsF k (Tokenizer.new a1.toArray)).rawE ++ a').toArray)).1,
       (toks (Tokenizer.new (a1.drop (nextsF k (Tokenizer.new a1.toArray)).rawE ++ a').toArray)).2) ∧
    V (a1.drop (nextsF k (Tokenizer.new a1.toArray)).rawE) := by
  have iu : Tokenizer.Inv (Tokenizer.new a1.toArray) := ⟨Nat.le_refl _, ⟨Nat.zero_le _, rfl, rfl, rfl⟩, TagOk_nil⟩
  have iT : Tokenizer.Inv (Tokenizer.new (a1 ++ a').toArray) := ⟨Nat.le_refl _, ⟨Nat.zero_le _, rfl, rfl, rfl⟩, TagOk_nil⟩
  have li := loopInv_nextsF k _ (loopInv_new a1 hv)
  have hbu : (nextsF k (Tokenizer.new a1.toArray)).buf = a1.toArray := nextsF_buf k _ iu
  generalize hs : nextsF k (Tokenizer.new a1.toArray) = s at *
  have hle : s.rawE ≤ a1.length := by have := li.inv.ok.le; rw [hbu] at this; simpa using this
  have hvp : V (a1.take s.rawE) := by have := li.vp; unfold Vp at this; rw [hbu] at this; simpa using this
  refine ⟨?_, V_drop hv _ hvp⟩
  have pr := toks_prefix k (Tokenizer.new (a1 ++ a').toArray) (Tokenizer.new a1.toArray)
    (by rw [new_append]; exact pre_extend _ _) iT iu (by rw [hs]; exact herr)
  rw [hs] at pr
  generalize hS : nextsF k (Tokenizer.new (a1 ++ a').toArray) = S at *
  have iS : Tokenizer.Inv S := by rw [← hS]; exact nextsF_inv k _ iT
  have hSbuf : S.buf = (a1 ++ a').toArray := by rw [← hS]; exact nextsF_buf k _ iT
  have hScd : S.allowCdata = true := by rw [← hS]; exact nextsF_cdata k _ iT
  have hSe : S.rawE = s.rawE := by have := pr.2.rawE; omega
  have hrs := toks_restart S iS (pr.2.err.trans herr) (pr.2.rawTag.trans htag) hScd
  have hres : restartOf S = Tokenizer.new (a1.drop s.rawE ++ a').toArray := by
    unfold restartOf
    rw [hSbuf, hSe]
    congr 1
    apply Array.ext'
    simp only [Array.toList_extract, List.toList_toArray, List.extract_eq_take_drop, List.size_toArray]
    rw [List.drop_append_of_le_length hle, List.take_of_length_le (by simp; omega)]
  rw [pr.1, hrs, hres]

theorem kindOf_text {k : TokenType} (h : kindOf k = .text) : k = .text := by
  cases k <;> simp [kindOf] at h ⊢

/-- the decidable syntactic condition "the end of `a1` is a safe cut": no token, or the last token is a (held) text
containing `<` and the restart point before it is outside every raw-text context and not at EOF, or all tokens are
complete and no raw-text context is pending, or the last token is a plain text cut by EOF (again with a clean restart
point before it).  Not allowed: a comment / doctype / `<!…>` / `<?…>` / CDATA cut by EOF, a raw-text zone. -/
def synSafeEnd (a1 : Bytes) : Bool :=
  let u0 := Tokenizer.new a1.toArray
  let m := (toks u0).1.length
  if m = 0 then true
  else
    let sp := nextsF (m - 1) u0
    let sm := nextsF m u0
    let tl := tokOf (Tokenizer.next sp)
    if tl.kind == .text && hasLt tl.raw then !sp.err && sp.rawTag == []
    else if !sm.err then sm.rawTag == []
    else tl.kind == .text && (!sp.err && sp.rawTag == [])

theorem splitHeld_snoc_held (pre : List Tok) (tl : Tok) (h : tl.kind = .text ∧ hasLt tl.raw = true) :
    splitHeld (pre ++ [tl]) = (pre, tl.raw) := by
  unfold splitHeld
  simp [h.1, h.2]

theorem splitHeld_snoc_not (pre : List Tok) (tl : Tok) (h : ¬ (tl.kind = .text ∧ hasLt tl.raw = true)) :
    splitHeld (pre ++ [tl]) = (pre ++ [tl], []) := by
  unfold splitHeld
  simp only [List.getLast?_append, List.getLast?_singleton, Option.some_or]
  rw [if_neg h]

/-- **RESTART LAW for the filter model** (W6's `htmlTokenize_restart`): for complete valid `a1`, `a'` and a
syntactically safe end of `a1`, tokenising `a1 ++ a'` gives — up to merging of adjacent text tokens — the tokens
already processed for `a1` (all but a held text containing `<`) followed by the tokens of `held tail ++ a'` obtained
from a fresh tokenizer, with the same remainder; and the held tail starts at a character boundary. -/
theorem htmlTokenize_restart (a1 a' : Bytes) (hv : V a1) (hv' : V a') (hsafe : synSafeEnd a1 = true) :
    normText (htmlTokenize (a1 ++ a')).1 =
      normText ((splitHeld (htmlTokenize a1).1).1 ++
        (htmlTokenize ((splitHeld (htmlTokenize a1).1).2 ++ (htmlTokenize a1).2 ++ a')).1) ∧
    (htmlTokenize (a1 ++ a')).2 =
      (htmlTokenize ((splitHeld (htmlTokenize a1).1).2 ++ (htmlTokenize a1).2 ++ a')).2 ∧
    V ((splitHeld (htmlTokenize a1).1).2 ++ (htmlTokenize a1).2) := by
  have iu : Tokenizer.Inv (Tokenizer.new a1.toArray) := ⟨Nat.le_refl _, ⟨Nat.zero_le _, rfl, rfl, rfl⟩, TagOk_nil⟩
  have hbuf0 : (Tokenizer.new a1.toArray).buf = a1.toArray := rfl
  rw [htmlTokenize_eq_toks a1 hv, htmlTokenize_eq_toks (a1 ++ a') (V_append hv hv')]
  have sh := toks_shape _ _ iu (Nat.le_refl _)
  unfold synSafeEnd at hsafe
  simp only at hsafe
  generalize hm : (toks (Tokenizer.new a1.toArray)).1.length = m at *
  -- the final step shared by the exact cases: `tail = a1.drop e`
  have finish : ∀ (k : Nat) (todo : List Tok) (tail : Bytes),
      (nextsF k (Tokenizer.new a1.toArray)).err = false → (nextsF k (Tokenizer.new a1.toArray)).rawTag = [] →
      todo = firstToks k (Tokenizer.new a1.toArray) → tail = a1.drop (nextsF k (Tokenizer.new a1.toArray)).rawE →
      normText (toks (Tokenizer.new (a1 ++ a').toArray)).1 = normText (todo ++ (htmlTokenize (tail ++ a')).1) ∧
      (toks (Tokenizer.new (a1 ++ a').toArray)).2 = (htmlTokenize (tail ++ a')).2 ∧ V tail := by
    intro k todo tail herr htag htodo htail
    have r := restart_at a1 a' hv k herr htag
    rw [htail, htodo, htmlTokenize_eq_toks _ (V_append r.2 hv'), r.1]
    exact ⟨rfl, rfl, r.2⟩
  by_cases hm0 : m = 0
  · -- no token at all: everything is the remainder
    have hts : (toks (Tokenizer.new a1.toArray)).1 = [] := List.length_eq_zero_iff.mp (hm0 ▸ hm)
    rw [hts]
    have hrem : (toks (Tokenizer.new a1.toArray)).2 = a1 := by
      rw [sh.2.2, hm0]
      simp only [nextsF]
      rw [restL_of_buf _ a1 hbuf0]; rfl
    have hsp : splitHeld ([] : List Tok) = ([], []) := rfl
    rw [hsp, hrem]
    simp only [List.nil_append]
    rw [htmlTokenize_eq_toks (a1 ++ a') (V_append hv hv')]
    exact ⟨rfl, rfl, hv⟩
  · rw [if_neg hm0] at hsafe
    obtain ⟨m', rfl⟩ : ∃ m', m = m' + 1 := ⟨m - 1, by omega⟩
    simp only [Nat.add_sub_cancel] at hsafe
    -- the state before the last token, the last token, the state after it
    generalize hsp : nextsF m' (Tokenizer.new a1.toArray) = sp at *
    have hsm : nextsF (m' + 1) (Tokenizer.new a1.toArray) = Tokenizer.next sp := by rw [nextsF_succ_back, hsp]
    have isp : Tokenizer.Inv sp := by rw [← hsp]; exact nextsF_inv m' _ iu
    have hspbuf : sp.buf = a1.toArray := by rw [← hsp]; exact nextsF_buf m' _ iu
    have ism := next_inv' sp isp
    have hsmbuf : (Tokenizer.next sp).buf = a1.toArray := (next_buf' sp isp).trans hspbuf
    have hts : (toks (Tokenizer.new a1.toArray)).1 =
        firstToks m' (Tokenizer.new a1.toArray) ++ [tokOf (Tokenizer.next sp)] := by
      rw [sh.1, firstToks_succ_back, hsp]
    have hrem : (toks (Tokenizer.new a1.toArray)).2 = a1.drop (Tokenizer.next sp).rawE := by
      rw [sh.2.2, hsm, restL_of_buf _ a1 hsmbuf]
    -- `a1.drop sp.rawE` = raw of the last token ++ remainder
    have hdrop : a1.drop sp.rawE = (tokOf (Tokenizer.next sp)).raw ++ a1.drop (Tokenizer.next sp).rawE := by
      have h1 := restL_of_buf sp a1 hspbuf
      have h2 := restL_of_buf _ a1 hsmbuf
      rw [← h1, ← h2]
      show restL sp = rawL (Tokenizer.next sp) ++ restL (Tokenizer.next sp)
      unfold restL rawL
      rw [next_buf' sp isp, next_rawS' sp isp]
      exact extract_split sp.buf sp.rawE (Tokenizer.next sp).rawE sp.buf.size
        (by rw [← next_rawS' sp isp]; exact ism.raw) (by rw [← next_buf' sp isp]; exact ism.ok.le)
    rw [hts, hrem]
    generalize htl : tokOf (Tokenizer.next sp) = tl at *
    by_cases hheld : (tl.kind == TokKind.text && hasLt tl.raw) = true
    · -- the last token is a held text: restart before it
      rw [if_pos hheld] at hsafe
      have hh : tl.kind = .text ∧ hasLt tl.raw = true := by simpa using hheld
      have hs2 : sp.err = false ∧ sp.rawTag = [] := by simpa using hsafe
      rw [splitHeld_snoc_held _ _ hh]
      exact finish m' _ _ (by rw [hsp]; exact hs2.1) (by rw [hsp]; exact hs2.2) rfl (by rw [hsp, hdrop])
    · rw [if_neg hheld] at hsafe
      have hnh : ¬ (tl.kind = .text ∧ hasLt tl.raw = true) := by simpa using hheld
      rw [splitHeld_snoc_not _ _ hnh]
      simp only [List.nil_append]
      by_cases hcomp : (!(Tokenizer.next sp).err) = true
      · -- every token is complete: restart after the last one
        rw [hsm, if_pos hcomp] at hsafe
        have he : (Tokenizer.next sp).err = false := by simpa using hcomp
        have ht : (Tokenizer.next sp).rawTag = [] := by simpa using hsafe
        exact finish (m' + 1) _ _ (by rw [hsm]; exact he) (by rw [hsm]; exact ht)
          (by rw [firstToks_succ_back, hsp, htl]) (by rw [hsm])
      · -- the last token is a plain text cut by EOF: it merges with what follows
        rw [hsm, if_neg hcomp] at hsafe
        have he : (Tokenizer.next sp).err = true := by simpa using hcomp
        have hs3 : tl.kind = .text ∧ sp.err = false ∧ sp.rawTag = [] := by simpa using hsafe
        have hnolt : hasLt tl.raw = false := by
          cases h : hasLt tl.raw with
          | false => rfl
          | true => exact absurd ⟨hs3.1, h⟩ hnh
        -- the remainder is empty
        have hE : (Tokenizer.next sp).rawE = a1.length := by
          have li := loopInv_nextsF (m' + 1) _ (loopInv_new a1 hv)
          rw [hsm] at li
          have := err_rawE_eq _ li.inv li.eg he
          rw [hsmbuf] at this; simpa using this
        have hremnil : a1.drop (Tokenizer.next sp).rawE = [] := by rw [hE]; simp
        rw [hremnil] at hdrop ⊢
        simp only [List.append_nil] at hdrop
        simp only [List.nil_append]
        -- the last token is the text token `c`
        have htok : (Tokenizer.next sp).token = .text := by
          have : kindOf (Tokenizer.next sp).token = .text := by rw [← htl] at hs3; exact hs3.1
          exact kindOf_text this
        have htleq : tl = textTok tl.raw := by
          rw [← htl]; unfold tokOf textTok; rw [htok]; rfl
        have hcne : tl.raw ≠ [] := by
          have hp := (next_post sp isp).progress (by rw [htok]; decide)
          have hlen : (rawL (Tokenizer.next sp)).length = (Tokenizer.next sp).rawE - (Tokenizer.next sp).rawS := by
            unfold rawL; simp; have := ism.ok.le; omega
          intro hnil
          have : tl.raw = rawL (Tokenizer.next sp) := by rw [← htl]; rfl
          rw [this] at hnil; rw [hnil] at hlen; simp at hlen; omega
        have hno60 : ∀ b ∈ tl.raw, b ≠ 60 := by
          intro b hb h60
          have : tl.raw.contains 60 = true := by rw [← h60]; simpa using hb
          unfold hasLt at hnolt; rw [this] at hnolt; cases hnolt
        -- restart before the last token, then merge
        have r := restart_at a1 a' hv m' (by rw [hsp]; exact hs3.2.1) (by rw [hsp]; exact hs3.2.2)
        rw [hsp, hdrop] at r
        have mg := toks_text_merge tl.raw a' hcne hno60
        rw [htmlTokenize_eq_toks a' hv', r.1]
        simp only
        refine ⟨?_, mg.2, V_nil⟩
        rw [List.append_assoc]
        apply normText_prefix_congr
        rw [mg.1, ← htleq]
        rfl

/-! Non-vacuity of `synSafeEnd` (kernel evaluation of the model): safe — a cut inside a start tag (`<di`), inside plain
text (`<p>ab`), after a held text (`<p>a<`); not safe — inside a raw-text element (`<textarea><p>`), a comment (`<!-`),
a CDATA section (`<![C`), a processing instruction (`<?x`). -/
example : synSafeEnd [60, 100, 105] = true ∧ synSafeEnd [60, 112, 62, 97, 98] = true ∧
    synSafeEnd [60, 112, 62, 97, 60] = true := by decide +kernel

example : synSafeEnd [60, 116, 101, 120, 116, 97, 114, 101, 97, 62, 60, 112, 62] = false ∧
    synSafeEnd [60, 33, 45] = false ∧ synSafeEnd [60, 33, 91, 67] = false ∧ synSafeEnd [60, 63, 120] = false := by
  decide +kernel

end Rio.Filter

