/-
Bridge between W7's URL model (bytes; `ruleKey` / `reqKey`, C09) and W2's router model (strings; the
path layer compares the route's static path with the request's `path`, C01), through the model of
`IntoRoute` (Model/IntoRoute.lean).

Conversions and what they assume
* bytes → `String`: `asciiStr b = String.ofList (b.map Char.ofNat)`.  Both keys are pure ASCII for
  EVERY input (`ascii_ruleKey`, `ascii_reqKey`: percent-encoding escapes every byte ≥ 0x80), and on
  ASCII byte strings `asciiStr` is injective (`asciiStr_inj`) — so string equality in the router is
  byte equality of the keys, with no assumption.
* configurations: W7's `Url.Cfg` and W2's `Router.Cfg` are different records; the theorems quantify
  over both and ask `cfg.ignorePathCase = ucfg.ignoreCase` (the one flag both read for the path).
* the request: any `Router.Req` whose `path` is `asciiStr (reqKey ucfg u')` — host, scheme, method,
  headers, ip, date are arbitrary (`Request::path_and_query()` is `path_and_query_matching`, which is
  what `reqKey` models).
-/
import RioModel.Proofs.Url
import RioModel.Model.IntoRoute
import RioModel.Props.C01
set_option linter.unusedSimpArgs false

namespace Rio.Url

/-- every byte is below 128 -/
def Ascii (s : Bytes) : Prop := ∀ b ∈ s, b < 128

theorem ascii_nil : Ascii [] := fun _ h => nomatch h

theorem Ascii.append {s t : Bytes} (hs : Ascii s) (ht : Ascii t) : Ascii (s ++ t) := by
  intro b hb
  rcases List.mem_append.mp hb with h | h
  · exact hs b h
  · exact ht b h

theorem Ascii.cons {b : Nat} {s : Bytes} (hb : b < 128) (hs : Ascii s) : Ascii (b :: s) := by
  intro x hx
  rcases List.mem_cons.mp hx with rfl | h
  · exact hb
  · exact hs x h

theorem hexDigitUpper_lt (n : Nat) (h : n < 16) : hexDigitUpper n < 128 := by
  unfold hexDigitUpper; split <;> omega

theorem ascii_encOne (extra : List Nat) (b : Nat) : Ascii (encOne extra b) := by
  unfold encOne
  split
  · unfold encByte
    intro x hx
    simp only [List.mem_cons, List.mem_nil_iff, or_false] at hx
    rcases hx with rfl | rfl | rfl
    · omega
    · exact hexDigitUpper_lt _ (Nat.mod_lt _ (by omega))
    · exact hexDigitUpper_lt _ (Nat.mod_lt _ (by omega))
  · rename_i h
    intro x hx
    simp only [List.mem_singleton] at hx
    subst hx
    unfold shouldEncode at h
    simp only [Bool.or_eq_true, decide_eq_true_eq, not_or] at h
    omega

/-- `utf8_percent_encode` only emits ASCII, whatever the input. -/
theorem ascii_pctEncode (extra : List Nat) (s : Bytes) : Ascii (pctEncode extra s) := by
  unfold pctEncode
  intro b hb
  obtain ⟨x, _, hx⟩ := List.mem_flatMap.mp hb
  exact ascii_encOne extra x b hx

theorem lowerByte_lt (b : Nat) (h : b < 128) : lowerByte b < 128 := by
  unfold lowerByte; split <;> omega

theorem Ascii.lowerIf {s : Bytes} (flag : Bool) (h : Ascii s) : Ascii (lowerIf flag s) := by
  unfold Rio.Url.lowerIf lowerAscii
  split
  · intro b hb
    obtain ⟨x, hx, rfl⟩ := List.mem_map.mp hb
    exact lowerByte_lt x (h x hx)
  · exact h

theorem ascii_dropLast {s : Bytes} (h : Ascii s) : Ascii s.dropLast :=
  fun b hb => h b (List.dropLast_subset s hb)

/-- The rule-side key is ASCII for every source. -/
theorem ascii_ruleKeyOf (cfg : Cfg) (src : Source) : Ascii (ruleKeyOf cfg src) := by
  unfold ruleKeyOf
  apply Ascii.lowerIf
  split
  · exact (ascii_pctEncode _ _).append (Ascii.cons (by omega) (ascii_pctEncode _ _))
  · exact ascii_pctEncode _ _

theorem ascii_ruleKey (cfg : Cfg) (u : Bytes) : Ascii (ruleKey cfg u) := ascii_ruleKeyOf cfg _

/-! request side -/

theorem scanPath_sub : ∀ (s p : Bytes) (q : Option Bytes), scanPath s = some (p, q) →
    (∀ b ∈ p, b ∈ s) ∧ (∀ r, q = some r → ∀ b ∈ r, b ∈ s) := by
  intro s
  induction s with
  | nil =>
    intro p q h
    simp only [scanPath, Option.some.injEq, Prod.mk.injEq] at h
    obtain ⟨rfl, rfl⟩ := h
    exact ⟨by simp, by simp⟩
  | cons b r ih =>
    intro p q h
    unfold scanPath at h
    split at h
    · simp only [Option.some.injEq, Prod.mk.injEq] at h
      obtain ⟨rfl, rfl⟩ := h
      refine ⟨by simp, ?_⟩
      intro r' hr' x hx
      cases hr'
      exact List.mem_cons_of_mem _ hx
    · simp only [Option.some.injEq, Prod.mk.injEq] at h
      obtain ⟨rfl, rfl⟩ := h
      exact ⟨by simp, by simp⟩
    · cases h
    · cases hs : scanPath r with
      | none => simp [hs] at h
      | some pq =>
        obtain ⟨p', q'⟩ := pq
        simp only [hs, Option.some.injEq, Prod.mk.injEq] at h
        obtain ⟨rfl, rfl⟩ := h
        obtain ⟨h1, h2⟩ := ih p' q' hs
        refine ⟨?_, ?_⟩
        · intro x hx
          rcases List.mem_cons.mp hx with rfl | hx
          · simp
          · exact List.mem_cons_of_mem _ (h1 x hx)
        · intro r' hr' x hx
          exact List.mem_cons_of_mem _ (h2 r' hr' x hx)

theorem pqParse_path_sub (s p : Bytes) (q : Option Bytes) (h : pqParse s = some (p, q)) :
    ∀ b ∈ p, b ∈ s := by
  unfold pqParse at h
  split at h
  · cases h
  · split at h
    · cases h
    · split at h
      · rename_i hs
        simp only [Option.some.injEq, Prod.mk.injEq] at h
        obtain ⟨rfl, _⟩ := h
        have : s = [42] := by simpa using hs
        subst this
        exact fun b hb => hb
      · split at h
        · cases h
        · split at h
          · cases h
          · rename_i p' hsp
            simp only [Option.some.injEq, Prod.mk.injEq] at h
            obtain ⟨rfl, _⟩ := h
            exact (scanPath_sub s _ _ hsp).1
          · rename_i p' r hsp
            split at h
            · cases h
            · simp only [Option.some.injEq, Prod.mk.injEq] at h
              obtain ⟨rfl, _⟩ := h
              exact (scanPath_sub s _ _ hsp).1

theorem ascii_pqPath {p : Bytes} (h : Ascii p) : Ascii (pqPath p) := by
  unfold pqPath
  split
  · exact Ascii.cons (by omega) ascii_nil
  · exact h

theorem ascii_reqParam (kv : Bytes × Bytes) : Ascii (reqParam kv) := by
  unfold reqParam
  apply (ascii_pctEncode _ _).append
  split
  · exact Ascii.cons (by omega) (ascii_pctEncode _ _)
  · exact ascii_nil

theorem ascii_pushParam {acc param : Bytes} (ha : Ascii acc) (hp : Ascii param) :
    Ascii (pushParam acc param) := by
  unfold pushParam
  apply Ascii.append _ hp
  split
  · exact ha.append (Ascii.cons (by omega) ascii_nil)
  · exact ha

theorem ascii_splitParams (cfg : Cfg) (m : List (Bytes × Bytes)) :
    Ascii (splitParams cfg m).1 ∧ Ascii (splitParams cfg m).2 := by
  unfold splitParams
  have key : ∀ (m : List (Bytes × Bytes)) (acc : Bytes × Bytes), Ascii acc.1 → Ascii acc.2 →
      Ascii (m.foldl (fun (acc : Bytes × Bytes) kv =>
        if isMarketing cfg kv.1 then (acc.1, pushParam acc.2 (reqParam kv))
        else (pushParam acc.1 (reqParam kv), acc.2)) acc).1 ∧
      Ascii (m.foldl (fun (acc : Bytes × Bytes) kv =>
        if isMarketing cfg kv.1 then (acc.1, pushParam acc.2 (reqParam kv))
        else (pushParam acc.1 (reqParam kv), acc.2)) acc).2 := by
    intro m
    induction m with
    | nil => intro acc h1 h2; exact ⟨h1, h2⟩
    | cons kv rest ih =>
      intro acc h1 h2
      simp only [List.foldl_cons]
      apply ih
      · split
        · exact h1
        · exact ascii_pushParam h1 (ascii_reqParam kv)
      · split
        · exact ascii_pushParam h2 (ascii_reqParam kv)
        · exact h2
  exact key m ([], []) ascii_nil ascii_nil

/-- The request-side key (`Request::path_and_query()`) is ASCII for every URL. -/
theorem ascii_reqKey (cfg : Cfg) (u : Bytes) : Ascii (reqKey cfg u) := by
  unfold reqKey fromConfig
  have hs : Ascii (sanitize u) := ascii_pctEncode _ _
  cases hp : pqParse (sanitize u) with
  | none =>
    simp only [hp, PQS.key]
    exact hs.lowerIf _
  | some pq =>
    obtain ⟨p, q⟩ := pq
    have hpath : Ascii (pqPath p) :=
      ascii_pqPath (fun b hb => hs b (pqParse_path_sub _ _ _ hp b hb))
    simp only [hp, PQS.key]
    apply Ascii.lowerIf
    cases q with
    | none => simpa using hpath
    | some query =>
      have := (ascii_splitParams cfg (btCollect (parseQuery query))).1
      simp only []
      split
      · exact hpath.append (Ascii.cons (by omega) this)
      · exact hpath

end Rio.Url

namespace Rio.IntoRoute
open Rio.Router Rio.Url

/-! ### `asciiStr` is injective on ASCII -/

theorem toNat_ofNat_ascii (n : Nat) (h : n < 128) : (Char.ofNat n).toNat = n := by
  have : n.isValidChar := by unfold Nat.isValidChar; omega
  simp [Char.ofNat, this, Char.toNat, Char.ofNatAux]

theorem map_ofNat_inj : ∀ (a b : Bytes), Ascii a → Ascii b → a.map Char.ofNat = b.map Char.ofNat → a = b := by
  intro a
  induction a with
  | nil => intro b _ _ h; cases b <;> simp_all
  | cons x xs ih =>
    intro b ha hb h
    cases b with
    | nil => simp at h
    | cons y ys =>
      simp only [List.map_cons, List.cons.injEq] at h
      have hx : x < 128 := ha x (by simp)
      have hy : y < 128 := hb y (by simp)
      have : x = y := by
        have := congrArg Char.toNat h.1
        rwa [toNat_ofNat_ascii x hx, toNat_ofNat_ascii y hy] at this
      rw [this, ih ys (fun b hb' => ha b (List.mem_cons_of_mem _ hb'))
        (fun b hb' => hb b (List.mem_cons_of_mem _ hb')) h.2]

theorem asciiStr_inj (a b : Bytes) (ha : Ascii a) (hb : Ascii b) (h : asciiStr a = asciiStr b) : a = b :=
  map_ofNat_inj a b ha hb (String.ofList_injective h)

/-! ### the route of a marker-free rule -/

theorem tokenize_nil_all_lit (cs : List Char) : (tokenize [] cs).all Tok.isLit = true := by
  fun_induction tokenize [] cs <;> simp_all [Tok.isLit]

/-- `Rule::path_and_query` of a rule without markers is the static key of W7's model. -/
theorem routePath_marker_free (ic : Bool) (src : RuleSource) (hm : src.markers = [])
    (ucfg : Url.Cfg) (hic : ucfg.ignoreCase = ic) :
    routePath ic src = .static (asciiStr (ruleKeyOf ucfg ⟨src.path, src.query⟩)) := by
  unfold routePath sodOfBytes
  rw [hm]
  simp only [tokenize_nil_all_lit, if_true]
  congr 2
  unfold rulePathBytes ruleKeyOf
  rw [hic]
  cases src.query <;> rfl

end Rio.IntoRoute
