/-
Stream laws of the tokenizer model, part 6: the content moved to HtmlTok3 (independent of the filter proofs); this module
keeps the old import path alive.
-/
import RioModel.Proofs.HtmlTok3
import RioModel.Proofs.HtmlStream5
