/-
Stream laws of the tokenizer model, part 6: `ErrorToken` means EOF was hit; `next` keeps `allow_cdata`; the token
lists of two related tokenizers (`toks_sim_full`); the restart law on the level of `htmlTokenize`
(`htmlTokenize_restart`).
-/
import RioModel.Proofs.HtmlStream5
set_option linter.unusedSimpArgs false
set_option linter.unusedVariables false

namespace Rio.Html
namespace Tokenizer
open Rio.Consts

/-- `allow_cdata` is kept, and an `ErrorToken` is returned only after a failed read -/
def Extra (t t' : Tokenizer) : Prop := t'.allowCdata = t.allowCdata ∧ (t'.token = .error → t'.err = true)

theorem readStartTag_kind (t : Tokenizer) (ok : Ok t) (h2 : 2 ≤ t.rawE) (htag : TagOk t.rawTag)
    (hk : (readStartTag t).2 = .error) : (readStartTag t).1.err = true := by
  have a1 := readTag_adv t true ok (by omega)
  have s1 := readTag_spec t true ok (by omega)
  unfold readStartTag at hk ⊢
  simp only at hk ⊢
  generalize t.readTag true = t1 at *
  have hle := a1.ok.le
  have hm := a1.mono
  by_cases he : t1.err = true
  · rw [if_pos he]; exact he
  · rw [if_neg he] at hk ⊢
    exfalso
    have hr := startTagRaw_spec t1 (by omega) (by omega)
    have hflags : (startTagRaw t1).panic = false ∧ (startTagRaw t1).utf8Err = false ∧
        (startTagRaw t1).rawE = t1.rawE ∧ (startTagRaw t1).buf = t1.buf := by
      rcases hr with h | ⟨bs, h, _⟩
      · rw [h]; exact ⟨a1.ok.panic, a1.ok.utf8, rfl, rfl⟩
      · rw [h]; exact ⟨a1.ok.panic, a1.ok.utf8, rfl, rfl⟩
    obtain ⟨f1, f2, f3, f4⟩ := hflags
    have hno : ¬ ((startTagRaw t1).rawE < 2 || (startTagRaw t1).buf.size ≤ (startTagRaw t1).rawE - 2) = true := by
      simp only [Bool.or_eq_true, decide_eq_true_eq, not_or]; rw [f3, f4]; omega
    have hpf : ¬ ((startTagRaw t1).panic || (startTagRaw t1).utf8Err) = true := by simp [f1, f2]
    rw [if_neg hpf, if_neg hno] at hk
    simp only at hk
    unfold startTagKind at hk
    have hlt : (startTagRaw t1).rawE - 2 < (startTagRaw t1).buf.size := by rw [f3, f4]; omega
    simp only [hlt, dite_true] at hk
    split at hk <;> cases hk

theorem dispatchTag_extra (t : Tokenizer) (b : Nat) (ok : Ok t) (h2 : 2 ≤ t.rawE) (htag : TagOk t.rawTag) :
    Extra t (dispatchTag t b) := by
  unfold dispatchTag
  simp only [htmlTagOpenLen]
  have hn : ¬ t.rawE < 2 := by omega
  rw [if_neg hn]
  split
  · exact ⟨rfl, fun h => by cases h⟩
  · split
    · have sp := readStartTag_spec t ok h2 htag
      have hk := readStartTag_kind t ok h2 htag
      exact ⟨sp.1.cdata, fun h => hk h⟩
    · split
      · have a3 := readByte_adv ok
        split
        · rename_i he
          unfold finishText
          split
          · exact ⟨a3.cdata, fun h => by cases h⟩
          · exact ⟨a3.cdata, fun _ => he⟩
        · rename_i he
          split
          · exact ⟨a3.cdata, fun h => by cases h⟩
          · split
            · have a4 := readTag_adv t.readByte.1 false a3.ok (readByte_pos he)
              split
              · rename_i he4; exact ⟨(a3.trans a4).cdata, fun _ => he4⟩
              · exact ⟨(a3.trans a4).cdata, fun h => by cases h⟩
            · have a4 := (read_unread_adv ok he)
              exact ⟨(a4.trans (readUntilCloseAngle_adv _ a4.ok)).cdata, fun h => by cases h⟩
      · split
        · exact ⟨(readMarkupDeclaration_adv t ok h2).cdata, fun h => absurd h (markup_kind t).2⟩
        · have hb : Adv { t with rawE := t.rawE - 1 } t := ⟨rfl, rfl, by simp, ok, rfl, rfl⟩
          have a4 := unread_adv 1 hb (by simp only; omega)
          have a5 := readUntilCloseAngle_adv _ a4.ok
          exact ⟨a5.cdata.trans a4.cdata, fun h => by cases h⟩

theorem mainLoop_extra (t : Tokenizer) (ok : Ok t) (htag : TagOk t.rawTag) : Extra t (mainLoop t) := by
  fun_induction mainLoop t
  all_goals (try simp +zetaDelta only at *)
  case case1 t _ he =>
    have a1 := readByte_adv ok
    unfold finishText
    split
    · exact ⟨a1.cdata, fun h => by cases h⟩
    · exact ⟨a1.cdata, fun _ => he⟩
  case case2 ih =>
    have a1 := readByte_adv ok
    have := ih a1.ok (by rw [a1.rawTag]; exact htag)
    exact ⟨this.1.trans a1.cdata, this.2⟩
  case case3 t _ _ _ _ he =>
    have a1 := readByte_adv ok
    have a2 := a1.trans (readByte_adv a1.ok)
    unfold finishText
    split
    · exact ⟨a2.cdata, fun h => by cases h⟩
    · exact ⟨a2.cdata, fun _ => he⟩
  case case4 t _ herr1 _ _ herr2 _ ih =>
    have a1 := readByte_adv ok
    have a2 := a1.trans (read_unread_adv a1.ok herr2)
    have := ih a2.ok (by rw [a2.rawTag]; exact htag)
    exact ⟨this.1.trans a2.cdata, this.2⟩
  case case5 t _ herr1 _ _ herr2 _ =>
    have a1 := readByte_adv ok
    have a2 := readByte_adv a1.ok
    have a12 := a1.trans a2
    have e1 := readByte_succ herr1
    have e2 := readByte_succ herr2
    have := dispatchTag_extra _ t.readByte.1.readByte.2 a2.ok (by omega) (by rw [a12.rawTag]; exact htag)
    exact ⟨this.1.trans a12.cdata, this.2⟩

theorem nextGo_extra (t : Tokenizer) (ok : Ok t) (htag : TagOk t.rawTag) : Extra t (nextGo t) := by
  unfold nextGo
  simp only
  by_cases h0 : t.err = true
  · rw [if_pos h0]; exact ⟨rfl, fun _ => h0⟩
  · rw [if_neg h0]
    have cont : ∀ t1 : Tokenizer, Ok t1 → TagOk t1.rawTag → t1.allowCdata = t.allowCdata →
        Extra t (mainLoop { t1 with textIsRaw := false, convertNull := false }) := by
      intro t1 ok1 tg1 hc
      have := mainLoop_extra { t1 with textIsRaw := false, convertNull := false }
        ⟨ok1.le, ok1.panic, ok1.hang, ok1.utf8⟩ tg1
      exact ⟨this.1.trans hc, this.2⟩
    by_cases h1 : (t.rawTag != []) = true
    · rw [if_pos h1]
      have key : ∀ t1 : Tokenizer, Ok t1 → TagOk t1.rawTag → t1.allowCdata = t.allowCdata →
          Extra t (if t1.dataE > t1.dataS then { t1 with token := .text, convertNull := true }
            else mainLoop { t1 with textIsRaw := false, convertNull := false }) := by
        intro t1 ok1 tg1 hc
        split
        · exact ⟨hc, fun h => by cases h⟩
        · exact cont t1 ok1 tg1 hc
      by_cases h2 : (t.rawTag == htmlPlaintext) = true
      · rw [if_pos h2]
        have a := readToEnd_adv t ok
        exact key _ ⟨a.ok.le, a.ok.panic, a.ok.hang, a.ok.utf8⟩ (by
          show TagOk t.readToEnd.rawTag; rw [a.rawTag]; exact htag) a.cdata
      · rw [if_neg h2]
        have s := readRawOrCdata_spec t ok htag
        have hc : (readRawOrCdata t).allowCdata = t.allowCdata := by
          unfold readRawOrCdata readScript
          split
          · rename_i hs
            have hs' : t.rawTag = htmlScript := by simpa using hs
            exact (scriptGo_adv .data t t (Adv.refl ok) (by simp [SS.need]) hs').cdata
          · exact (rawTextGo_adv t ok htag).cdata
        exact key _ s.1.ok (by rw [s.2.1]; exact TagOk_nil) hc
    · rw [if_neg h1]
      exact cont t ok htag rfl

theorem next_extra (t : Tokenizer) (inv : Inv t) : Extra t (next t) :=
  nextGo_extra _ ⟨inv.ok.le, inv.ok.panic, inv.ok.hang, inv.ok.utf8⟩ inv.tag

theorem nexts_cdata (n : Nat) (t : Tokenizer) (inv : Inv t) : (nexts n t).allowCdata = t.allowCdata := by
  induction n with
  | zero => rfl
  | succ n ih => exact (next_extra _ (nexts_inv n t inv)).1.trans ih

/-- an `ErrorToken` is returned only when EOF has been hit -/
theorem next_error_err (t : Tokenizer) (inv : Inv t) (h : (next t).token = .error) : (next t).err = true :=
  (next_extra t inv).2 h

end Tokenizer
end Rio.Html
