/-
C14: the glue of a compressed chain `decode :: inner ++ [encode]` over an abstract streaming codec.

`writes` runs a coder over a list of writes; `CodecLaws` are the two streaming laws (decoder: any partition of a valid
stream decodes to the body; encoder: any sequence of writes + finish is a valid stream decoding to what was written).
`innerOut` is what the inner chain produces when it is fed the decoder's non-empty outputs and `do_end` is started
with the decoder's final output.  `full_run_spec`: the output of the full chain decodes to `innerOut`.
-/
import RioModel.Proofs.FilterText
set_option linter.unusedSimpArgs false
set_option linter.unusedVariables false

namespace Rio.Filter

variable {D E : Type}

/-- a coder over a list of writes: final state and the output of each write; `none` = some write failed -/
def writes {S : Type} (w : S → Bytes → Option (S × Bytes)) : S → List Bytes → Option (S × List Bytes)
  | s, [] => some (s, [])
  | s, x :: xs =>
    match w s x with
    | none => none
    | some (s', o) =>
      match writes w s' xs with
      | none => none
      | some (s'', os) => some (s'', o :: os)

theorem writes_append {S : Type} (w : S → Bytes → Option (S × Bytes)) :
    ∀ (s : S) (xs ys : List Bytes),
      writes w s (xs ++ ys) =
        match writes w s xs with
        | none => none
        | some (s', os) =>
          match writes w s' ys with
          | none => none
          | some (s'', os') => some (s'', os ++ os')
  | s, [], ys => by
    simp only [List.nil_append, writes]
    cases writes w s ys with
    | none => rfl
    | some r => rfl
  | s, x :: xs, ys => by
    simp only [List.cons_append, writes]
    cases hw : w s x with
    | none => rfl
    | some r =>
      obtain ⟨s', o⟩ := r
      simp only
      rw [writes_append w s' xs ys]
      cases writes w s' xs with
      | none => rfl
      | some r2 =>
        obtain ⟨s2, os⟩ := r2
        simp only
        cases writes w s2 ys with
        | none => rfl
        | some r3 => rfl

/-- the decoder over the chunks of the compressed stream: outputs of the writes, output of finish -/
def decRun (codec : Codec D E) (d : D) (zs : List Bytes) : Option (List Bytes × Bytes) :=
  match writes codec.decWrite d zs with
  | none => none
  | some (d', ps) => (codec.decFinish d').map fun pe => (ps, pe)

/-- the encoder over a list of writes -/
def encRun (codec : Codec D E) (e : E) (ws : List Bytes) : Option (List Bytes × Bytes) :=
  match writes codec.encWrite e ws with
  | none => none
  | some (e', os) => (codec.encFinish e').map fun oe => (os, oe)

/-- The two streaming laws of a codec (`decode` = the decoding function of the format, uninterpreted). -/
structure CodecLaws (codec : Codec D E) (d0 : D) (e0 : E) (decode : Bytes → Option Bytes) : Prop where
  /-- decoder streaming: for every partition of a valid stream the drained outputs followed by the output of finish
  concatenate to the decoded body, and no call fails -/
  dec : ∀ (z b : Bytes), decode z = some b → ∀ zs : List Bytes, zs.flatten = z →
    ∃ ps pe, decRun codec d0 zs = some (ps, pe) ∧ ps.flatten ++ pe = b
  /-- encoder streaming: for every sequence of writes, no call fails and the drained outputs followed by the output of
  finish form a complete valid stream that decodes to the concatenation of what was written -/
  enc : ∀ ws : List Bytes, ∃ os oe, encRun codec e0 ws = some (os, oe) ∧ decode (os.flatten ++ oe) = some ws.flatten

variable (tk : Tokenize) (ev : Bytes → Bytes → Bool) (codec : Codec D E)

/-! ### the encoder at the end of the chain -/

/-- `do_filter` on `inner ++ [encode e]` with non-empty data: the inner stages run as they would alone; the encoder is
written iff they produced something -/
theorem doFilter_snoc_enc (e : E) : ∀ (inner : List (Stage D E)) (p : Bytes), p ≠ [] →
    doFilter tk ev codec (inner ++ [.encode e]) p =
      match doFilter tk ev codec inner p with
      | (inner', none) => (inner' ++ [.encode e], none)
      | (inner', some q) =>
        if q.isEmpty then (inner' ++ [.encode e], some q)
        else
          match codec.encWrite e q with
          | none => (inner' ++ [.encode e], none)
          | some (e', w) => (inner' ++ [.encode e'], some w)
  | [], p, hp => by
    have hne : p.isEmpty = false := by cases p <;> simp_all
    simp only [List.nil_append, doFilter, Stage.filter, hne]
    cases codec.encWrite e p with
    | none => simp
    | some r =>
      obtain ⟨e', w⟩ := r
      simp only [Option.map_some]
      split <;> simp_all [doFilter]
  | st :: inner, p, hp => by
    simp only [List.cons_append, doFilter]
    cases hf : st.filter tk ev codec p with
    | none => simp
    | some r =>
      obtain ⟨st', o⟩ := r
      simp only
      by_cases hemp : o.isEmpty = true
      · simp [hemp]
      · have hne : o ≠ [] := by intro h; simp [h] at hemp
        simp only [hemp, Bool.false_eq_true, if_false]
        rw [doFilter_snoc_enc e inner o hne]
        cases hd : doFilter tk ev codec inner o with
        | mk inner' r =>
          cases r with
          | none => simp
          | some q =>
            simp only
            by_cases hq : q.isEmpty = true
            · simp [hq]
            · simp only [hq, Bool.false_eq_true, if_false]
              cases codec.encWrite e q with
              | none => simp
              | some r => simp

theorem endWith_encode_stage (e : E) (r : Option Bytes) :
    ∃ e', ((Stage.encode e : Stage D E).endWith tk ev codec r).1 = .encode e' := by
  cases r with
  | none =>
    simp only [Stage.endWith, Stage.end]
    cases codec.encFinish e with
    | none => exact ⟨e, rfl⟩
    | some o => exact ⟨e, rfl⟩
  | some str =>
    simp only [Stage.endWith, Stage.filter]
    cases codec.encWrite e str with
    | none => exact ⟨e, rfl⟩
    | some r1 =>
      obtain ⟨e1, o1⟩ := r1
      simp only [Option.map_some, Stage.end]
      cases codec.encFinish e1 with
      | none => exact ⟨e1, rfl⟩
      | some o => exact ⟨e1, rfl⟩

/-- `do_end` on `inner ++ [encode e]` when the inner stages succeed -/
theorem doEnd_snoc_enc (e : E) : ∀ (inner inner' : List (Stage D E)) (dd r : Option Bytes),
    doEnd tk ev codec inner dd = (inner', .ok r) →
    doEnd tk ev codec (inner ++ [.encode e]) dd =
      match (Stage.encode e : Stage D E).endWith tk ev codec r with
      | (st', none) => (inner' ++ [st'], .error (r.getD []))
      | (st', some nd) => (inner' ++ [st'], .ok (if nd.isEmpty then none else some nd))
  | [], inner', dd, r, h => by
    simp only [doEnd] at h
    injection h with h1 h2
    injection h2 with h2
    subst h1 h2
    simp only [List.nil_append, doEnd]
    obtain ⟨e', he'⟩ := endWith_encode_stage tk ev codec e dd
    cases hw : (Stage.encode e : Stage D E).endWith tk ev codec dd with
    | mk st' x =>
      rw [hw] at he'
      simp only at he'
      subst he'
      cases x with
      | none => simp [flushHtml]
      | some nd => simp [doEnd]
  | st :: inner, inner', dd, r, h => by
    simp only [List.cons_append]
    rw [doEnd] at h ⊢
    cases hw : st.endWith tk ev codec dd with
    | mk st' x =>
      rw [hw] at h
      cases x with
      | none => simp at h
      | some nd =>
        simp only at h ⊢
        cases hr : doEnd tk ev codec inner (if nd.isEmpty = true then none else some nd) with
        | mk rest' res =>
          rw [hr] at h
          simp only at h
          injection h with h1 h2
          subst h1 h2
          rw [doEnd_snoc_enc e inner rest' _ r hr]
          cases (Stage.encode e : Stage D E).endWith tk ev codec r with
          | mk st2 x2 =>
            cases x2 with
            | none => simp
            | some nd2 => simp

/-! ### the inner chain on the decoder's outputs -/

/-- the inner stages fed the non-empty decoder outputs (an empty one makes `do_filter` stop right after the decoder);
`none` = some stage failed -/
def innerFeed : List (Stage D E) → List Bytes → Option (List (Stage D E) × Bytes)
  | items, [] => some (items, [])
  | items, p :: ps =>
    if p.isEmpty then innerFeed items ps
    else
      match doFilter tk ev codec items p with
      | (_, none) => none
      | (items', some q) => (innerFeed items' ps).map fun (it, qs) => (it, q ++ qs)

/-- everything the inner stages hand to the encoder: their outputs for the decoder's chunks, then `do_end` started
with the decoder's final output -/
def innerOut (inner : List (Stage D E)) (ps : List Bytes) (pe : Bytes) : Option Bytes :=
  match innerFeed tk ev codec inner ps with
  | none => none
  | some (inner', qs) =>
    match doEnd tk ev codec inner' (if pe.isEmpty then none else some pe) with
    | (_, .ok r) => some (qs ++ r.getD [])
    | (_, .error _) => none

section
variable {d0 : D} {e0 : E} {decode : Bytes → Option Bytes} (laws : CodecLaws codec d0 e0 decode)
include laws

theorem enc_step (ws os : List Bytes) (e : E) (h : writes codec.encWrite e0 ws = some (e, os)) (q : Bytes) :
    ∃ e' w, codec.encWrite e q = some (e', w) ∧ writes codec.encWrite e0 (ws ++ [q]) = some (e', os ++ [w]) := by
  obtain ⟨os', oe, h1, _⟩ := laws.enc (ws ++ [q])
  unfold encRun at h1
  rw [writes_append, h] at h1
  simp only [writes] at h1
  cases hq : codec.encWrite e q with
  | none => simp [hq] at h1
  | some r =>
    obtain ⟨e', w⟩ := r
    refine ⟨e', w, rfl, ?_⟩
    rw [writes_append, h]
    simp [writes, hq]

theorem enc_finish (ws os : List Bytes) (e : E) (h : writes codec.encWrite e0 ws = some (e, os)) :
    ∃ oe, codec.encFinish e = some oe ∧ decode (os.flatten ++ oe) = some ws.flatten := by
  obtain ⟨os', oe, h1, h2⟩ := laws.enc ws
  unfold encRun at h1
  rw [h] at h1
  simp only [Option.map_eq_some_iff] at h1
  obtain ⟨oe', h3, h4⟩ := h1
  injection h4 with h4 h5
  subst h4 h5
  exact ⟨oe', h3, h2⟩

omit laws in
/-- one `filter` call of the full chain, the decoder produced nothing -/
theorem full_filter_empty (d d1 : D) (inner : List (Stage D E)) (e : E) (z : Bytes)
    (hw : codec.decWrite d z = some (d1, [])) :
    ({ items := .decode d :: inner ++ [.encode e] } : Chain D E).filter tk ev codec z =
      ({ items := .decode d1 :: inner ++ [.encode e] }, []) := by
  simp [Chain.filter, doFilter, Stage.filter, hw]

omit laws in
/-- one `filter` call of the full chain, the decoder produced `p ≠ []`, the inner stages produced nothing -/
theorem full_filter_quiet (d d1 : D) (inner inner1 : List (Stage D E)) (e : E) (z p : Bytes) (hp : p ≠ [])
    (hw : codec.decWrite d z = some (d1, p)) (hdf : doFilter tk ev codec inner p = (inner1, some [])) :
    ({ items := .decode d :: inner ++ [.encode e] } : Chain D E).filter tk ev codec z =
      ({ items := .decode d1 :: inner1 ++ [.encode e] }, []) := by
  have hne : p.isEmpty = false := by cases p <;> simp_all
  simp [Chain.filter, doFilter, Stage.filter, hw, hne, doFilter_snoc_enc tk ev codec e inner p hp, hdf]

omit laws in
/-- one `filter` call of the full chain, the inner stages produced `q ≠ []` which is written to the encoder -/
theorem full_filter_write (d d1 : D) (inner inner1 : List (Stage D E)) (e e1 : E) (z p q w : Bytes) (hp : p ≠ []) (hq : q ≠ [])
    (hw : codec.decWrite d z = some (d1, p)) (hdf : doFilter tk ev codec inner p = (inner1, some q))
    (he : codec.encWrite e q = some (e1, w)) :
    ({ items := .decode d :: inner ++ [.encode e] } : Chain D E).filter tk ev codec z =
      ({ items := .decode d1 :: inner1 ++ [.encode e1] }, w) := by
  have hne : p.isEmpty = false := by cases p <;> simp_all
  have hqe : q.isEmpty = false := by cases q <;> simp_all
  simp [Chain.filter, doFilter, Stage.filter, hw, hne, doFilter_snoc_enc tk ev codec e inner p hp, hdf, hqe, he]

/-- feeding the chunks of the compressed stream to the full chain: the chain does not fail, the inner stages end in
the state `innerFeed` computes, and the outputs are the encoder's outputs for the writes `ws'` = the non-empty
outputs of the inner stages -/
theorem full_feed_spec : ∀ (zs : List Bytes) (d dF : D) (ps : List Bytes) (inner innerF : List (Stage D E)) (qs : Bytes)
    (e : E) (ws os : List Bytes),
    writes codec.decWrite d zs = some (dF, ps) →
    innerFeed tk ev codec inner ps = some (innerF, qs) →
    writes codec.encWrite e0 ws = some (e, os) →
    ∃ eF ws' eos outs,
      ({ items := .decode d :: inner ++ [.encode e] } : Chain D E).feed tk ev codec zs =
        ({ items := .decode dF :: innerF ++ [.encode eF] }, outs) ∧
      writes codec.encWrite e0 (ws ++ ws') = some (eF, os ++ eos) ∧ outs.flatten = eos.flatten ∧ ws'.flatten = qs
  | [], d, dF, ps, inner, innerF, qs, e, ws, os, hd, hi, he => by
    simp only [writes] at hd
    injection hd with hd
    injection hd with hd1 hd2
    subst hd1 hd2
    simp only [innerFeed] at hi
    injection hi with hi
    injection hi with hi1 hi2
    subst hi1 hi2
    exact ⟨e, [], [], [], rfl, by simpa using he, rfl, rfl⟩
  | z :: zs, d, dF, ps, inner, innerF, qs, e, ws, os, hd, hi, he => by
    simp only [writes] at hd
    cases hw : codec.decWrite d z with
    | none => simp [hw] at hd
    | some r =>
      obtain ⟨d1, p⟩ := r
      simp only [hw] at hd
      cases hrest : writes codec.decWrite d1 zs with
      | none => simp [hrest] at hd
      | some r2 =>
        obtain ⟨d2, ps'⟩ := r2
        simp only [hrest] at hd
        injection hd with hd
        injection hd with hd1 hd2
        subst hd1 hd2
        simp only [innerFeed] at hi
        by_cases hemp : p.isEmpty = true
        · -- the decoder produced nothing: `break` right after it
          have hp : p = [] := by simpa using hemp
          subst hp
          simp only [List.isEmpty_nil, if_true] at hi
          obtain ⟨eF, ws', eos, outs, f1, f2, f3, f4⟩ := full_feed_spec zs d1 d2 ps' inner innerF qs e ws os hrest hi he
          refine ⟨eF, ws', eos, [] :: outs, ?_, f2, by simpa using f3, f4⟩
          simp only [Chain.feed, full_filter_empty tk ev codec d d1 inner e z hw, f1]
        · simp only [hemp, Bool.false_eq_true, if_false] at hi
          have hne : p ≠ [] := by intro h; simp [h] at hemp
          cases hdf : doFilter tk ev codec inner p with
          | mk inner1 r =>
            rw [hdf] at hi
            cases r with
            | none => simp at hi
            | some q =>
              simp only [Option.map_eq_some_iff] at hi
              obtain ⟨⟨it, qs'⟩, hi1, hi2⟩ := hi
              injection hi2 with hi2 hi3
              subst hi2 hi3
              by_cases hq : q = []
              · subst hq
                obtain ⟨eF, ws', eos, outs, f1, f2, f3, f4⟩ := full_feed_spec zs d1 d2 ps' inner1 it qs' e ws os hrest hi1 he
                refine ⟨eF, ws', eos, [] :: outs, ?_, f2, by simpa using f3, by simpa using f4⟩
                simp only [Chain.feed, full_filter_quiet tk ev codec d d1 inner inner1 e z p hne hw hdf, f1]
              · obtain ⟨e1, w, g1, g2⟩ := enc_step codec laws ws os e he q
                obtain ⟨eF, ws', eos, outs, f1, f2, f3, f4⟩ :=
                  full_feed_spec zs d1 d2 ps' inner1 it qs' e1 (ws ++ [q]) (os ++ [w]) hrest hi1 g2
                refine ⟨eF, q :: ws', w :: eos, w :: outs, ?_, by simpa [List.append_assoc] using f2, by simp [f3], by simp [f4]⟩
                simp only [Chain.feed, full_filter_write tk ev codec d d1 inner inner1 e e1 z p q w hne hq hw hdf g1, f1]

omit laws in
theorem doEnd_decode_cons (d : D) (rest : List (Stage D E)) (pe : Bytes) (hfin : codec.decFinish d = some pe) :
    doEnd tk ev codec (.decode d :: rest) none =
      ((Stage.decode d : Stage D E) :: (doEnd tk ev codec rest (if pe.isEmpty then none else some pe)).1,
        (doEnd tk ev codec rest (if pe.isEmpty then none else some pe)).2) := by
  rw [doEnd]
  simp [Stage.endWith, Stage.end, hfin]

omit laws in
theorem optGetD (nd : Bytes) : ((if nd.isEmpty = true then none else some nd : Option Bytes)).getD [] = nd := by
  by_cases h : nd.isEmpty = true
  · have : nd = [] := by simpa using h
    simp [this]
  · simp [h]

/-- `end` of the full chain: decoder finish, `do_end` of the inner stages started with its output, encoder
write (if they produced something) and finish -/
theorem full_end_spec (dF : D) (innerF inner' : List (Stage D E)) (eF : E) (ws os : List Bytes) (pe : Bytes) (r : Option Bytes)
    (hfin : codec.decFinish dF = some pe)
    (hend : doEnd tk ev codec innerF (if pe.isEmpty then none else some pe) = (inner', .ok r))
    (he : writes codec.encWrite e0 ws = some (eF, os)) :
    decode (os.flatten ++ (({ items := .decode dF :: innerF ++ [.encode eF] } : Chain D E).end tk ev codec).2) =
      some (ws.flatten ++ r.getD []) := by
  have hsnoc := doEnd_snoc_enc tk ev codec eF innerF inner' _ r hend
  cases r with
  | none =>
    obtain ⟨oe, h1, h2⟩ := enc_finish codec laws ws os eF he
    have hw : (Stage.encode eF : Stage D E).endWith tk ev codec none = (.encode eF, some oe) := by
      simp [Stage.endWith, Stage.end, h1]
    rw [hw] at hsnoc
    simp only at hsnoc
    have hd := doEnd_decode_cons tk ev codec dF (innerF ++ [.encode eF]) pe hfin
    rw [hsnoc] at hd
    simp only [Chain.end, Bool.false_eq_true, if_false, List.cons_append]
    rw [hd]
    simp only [Option.getD_none, List.append_nil]
    rw [optGetD]
    exact h2
  | some q =>
    obtain ⟨e1, w, g1, g2⟩ := enc_step codec laws ws os eF he q
    obtain ⟨oe, h1, h2⟩ := enc_finish codec laws (ws ++ [q]) (os ++ [w]) e1 g2
    have hw : (Stage.encode eF : Stage D E).endWith tk ev codec (some q) = (.encode e1, some (w ++ oe)) := by
      simp [Stage.endWith, Stage.filter, Stage.end, g1, h1]
    rw [hw] at hsnoc
    simp only at hsnoc
    have hd := doEnd_decode_cons tk ev codec dF (innerF ++ [.encode eF]) pe hfin
    rw [hsnoc] at hd
    simp only [Chain.end, Bool.false_eq_true, if_false, List.cons_append]
    rw [hd]
    simp only
    rw [optGetD]
    simpa [List.append_assoc] using h2

/-- **The glue of a compressed chain.**  If the decoder turns the chunks `zs` into the outputs `ps` and the final
output `pe`, and the inner stages do not fail on them, then the concatenated output of the full chain
`decode :: inner ++ [encode]` is a complete valid stream that decodes to what the inner stages produce
(`innerOut`). -/
theorem full_run_spec (inner : List (Stage D E)) (zs ps : List Bytes) (pe out : Bytes)
    (hdec : decRun codec d0 zs = some (ps, pe))
    (hin : innerOut tk ev codec inner ps pe = some out) :
    decode (({ items := .decode d0 :: inner ++ [.encode e0] } : Chain D E).run tk ev codec zs) = some out := by
  unfold decRun at hdec
  cases hw : writes codec.decWrite d0 zs with
  | none => simp [hw] at hdec
  | some r =>
    obtain ⟨dF, ps'⟩ := r
    simp only [hw, Option.map_eq_some_iff] at hdec
    obtain ⟨pe', hfin, heq⟩ := hdec
    injection heq with h1 h2
    subst h1 h2
    unfold innerOut at hin
    cases hif : innerFeed tk ev codec inner ps' with
    | none => simp [hif] at hin
    | some r2 =>
      obtain ⟨innerF, qs⟩ := r2
      simp only [hif] at hin
      cases hend : doEnd tk ev codec innerF (if pe'.isEmpty = true then none else some pe') with
      | mk inner' res =>
        rw [hend] at hin
        cases res with
        | error p => simp at hin
        | ok r =>
          simp only at hin
          injection hin with hin
          subst hin
          obtain ⟨eF, ws', eos, outs, f1, f2, f3, f4⟩ :=
            full_feed_spec tk ev codec laws zs d0 dF ps' inner innerF qs e0 [] [] hw hif rfl
          simp only [List.nil_append] at f2
          have := full_end_spec tk ev codec laws dF innerF inner' eF ws' eos pe' r hfin hend f2
          simp only [Chain.run, Chain.runOuts, f1]
          rw [f3, this, f4]

end

end Rio.Filter
