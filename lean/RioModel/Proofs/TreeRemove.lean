/-
`Item.remove` and `Item.retain` preserve the structural invariant (dropping emptied children and
collapsing single-child nodes keeps every node prefix a boundary prefix of what is below it, keeps
siblings apart, and never leaves an empty child inside a node).
-/
import RioModel.Proofs.TreeBasic
set_option linter.unusedSimpArgs false
set_option linter.unusedVariables false
set_option linter.unusedSectionVars false

namespace Rio.Tree
open Rio.Scan Rio.Regex

variable {ι V : Type} [DecidableEq ι]

/-! ### Emptiness -/

theorem isEmpty_empty (ic : Bool) : (Item.empty ic : Item ι V).isEmpty = true := by simp [Item.isEmpty]
theorem isEmpty_leaf (rx) (vs : List (ι × V)) : (Item.leaf rx vs).isEmpty = vs.isEmpty := by simp [Item.isEmpty]
theorem isEmpty_node (rx) (cs : List (Item ι V)) : (Item.node rx cs).isEmpty = cs.all Item.isEmpty := by
  simp [Item.isEmpty, isEmptyL_eq]

theorem not_isEmpty_notEmptyCtor {t : Item ι V} (h : t.isEmpty = false) : t.isEmptyCtor = false := by
  cases t with
  | empty ic => simp [isEmpty_empty] at h
  | _ => rfl

/-- Under the invariant, only `Empty` is empty. -/
theorem inv_not_isEmpty {ic : Bool} (t : Item ι V) (h : t.inv ic = true) (hne : t.isEmptyCtor = false) :
    t.isEmpty = false := by
  induction t using Item.ind with
  | hE ic' => simp [Item.isEmptyCtor] at hne
  | hL rx vs =>
    obtain ⟨_, _, h3, _⟩ := inv_leaf_iff.1 h
    rw [isEmpty_leaf]; cases vs <;> simp_all
  | hN rx cs ih =>
    obtain ⟨_, _, _, h4, h5, _, h7⟩ := inv_node_iff.1 h
    rw [isEmpty_node]
    cases cs with
    | nil => simp at h4
    | cons c cs =>
      have := ih c (by simp) (h7 c (by simp)) (childOk_notEmpty (h5 c (by simp)))
      simp [this]

theorem keepNonEmpty_of_not_isEmpty {c : Item ι V} (h : c.isEmpty = false) : keepNonEmpty c = [c] := by
  simp [keepNonEmpty, h]

theorem keepNonEmpty_of_isEmpty {c : Item ι V} (h : c.isEmpty = true) : keepNonEmpty c = [] := by
  simp [keepNonEmpty, h]

/-! ### `collapse1` -/

theorem collapse1_single (rx : LazyRegex) (c : Item ι V) : collapse1 rx [c] = c := rfl

theorem collapse1_of_two_le (rx : LazyRegex) {cs : List (Item ι V)} (h : 2 ≤ cs.length) :
    collapse1 rx cs = .node rx cs := by
  match cs, h with
  | _ :: _ :: _, _ => rfl

theorem collapse1_nil (rx : LazyRegex) : collapse1 rx ([] : List (Item ι V)) = .node rx [] := rfl

/-! ### How a child may change: `Ext` -/

/-- `c'` takes the place of `c` among the children of a node: it keeps `regex()`, or `c` was a node and
`c'` lies below it (its `regex()` extends the node prefix at a scanner boundary). -/
def Ext (c c' : Item ι V) : Prop :=
  (c'.isNode = true → c.isNode = true) ∧
  (c'.regex = c.regex ∨ (c.isNode = true ∧ BPre c.regex c'.regex))

theorem Ext.refl (c : Item ι V) : Ext c c := ⟨id, Or.inl rfl⟩

theorem sib_ext {n : Nat} {r : List Char} {c c' : Item ι V} (h : Sib n r c.regex) (he : Ext c c')
    (hlt : c.isNode = true → n < c.regex.length) : Sib n r c'.regex := by
  rcases he.2 with e | ⟨hn, hb⟩
  · rw [e]; exact h
  · have hlt' := hlt hn
    have h1 : commonPrefixCharSize c.regex r < c.regex.length := by
      have := h.1; rw [cpcs_comm] at this; omega
    have h2 := cpcs_extend hb h1
    refine ⟨by rw [cpcs_comm, h2, cpcs_comm]; exact h.1, ?_⟩
    intro e
    have : commonPrefixCharSize r c.regex = c.regex.length := cpcs_eq_of_bpre (by rw [e]; exact hb)
    have := h.1
    omega

/-- Order-preserving "some children dropped, the others replaced by related items". -/
inductive Img (P : Item ι V → Item ι V → Prop) : List (Item ι V) → List (Item ι V) → Prop where
  | nil : Img P [] []
  | keep {c c' cs cs'} : P c c' → Img P cs cs' → Img P (c :: cs) (c' :: cs')
  | drop {c cs cs'} : Img P cs cs' → Img P (c :: cs) cs'

theorem Img.mem {P : Item ι V → Item ι V → Prop} {cs cs' : List (Item ι V)} (h : Img P cs cs') :
    ∀ c' ∈ cs', ∃ c ∈ cs, P c c' := by
  induction h with
  | nil => simp
  | keep hp _ ih =>
    intro d hd
    rcases List.mem_cons.1 hd with rfl | hd
    · exact ⟨_, List.mem_cons_self, hp⟩
    · obtain ⟨c, hc, hpc⟩ := ih d hd
      exact ⟨c, List.mem_cons_of_mem _ hc, hpc⟩
  | drop _ ih =>
    intro d hd
    obtain ⟨c, hc, hpc⟩ := ih d hd
    exact ⟨c, List.mem_cons_of_mem _ hc, hpc⟩

theorem Img.of_refl {P : Item ι V → Item ι V → Prop} {cs : List (Item ι V)} (h : ∀ c ∈ cs, P c c) :
    Img P cs cs := by
  induction cs with
  | nil => exact .nil
  | cons c cs ih => exact .keep (h c (by simp)) (ih fun d hd => h d (by simp [hd]))

theorem Img.append {P : Item ι V → Item ι V → Prop} {a a' b b' : List (Item ι V)}
    (h1 : Img P a a') (h2 : Img P b b') : Img P (a ++ b) (a' ++ b') := by
  induction h1 with
  | nil => simpa using h2
  | keep hp _ ih => exact .keep hp ih
  | drop _ ih => exact .drop ih

theorem Img.pairwise {P : Item ι V → Item ι V → Prop} {R R' : Item ι V → Item ι V → Prop}
    {cs cs' : List (Item ι V)} (h : Img P cs cs')
    (hR : ∀ a ∈ cs, ∀ b ∈ cs, ∀ a' b', R a b → P a a' → P b b' → R' a' b')
    (hpw : cs.Pairwise R) : cs'.Pairwise R' := by
  induction h with
  | nil => exact .nil
  | @keep c c' cs cs' hp himg ih =>
    rw [List.pairwise_cons] at hpw ⊢
    refine ⟨?_, ih (fun a ha b hb => hR a (by simp [ha]) b (by simp [hb])) hpw.2⟩
    intro d' hd'
    obtain ⟨d, hd, hpd⟩ := himg.mem d' hd'
    exact hR c (by simp) d (by simp [hd]) c' d' (hpw.1 d hd) hp hpd
  | drop _ ih =>
    rw [List.pairwise_cons] at hpw
    exact ih (fun a ha b hb => hR a (by simp [ha]) b (by simp [hb])) hpw.2

/-- What the loops of `remove` / `retain` guarantee about a kept child. -/
def Kept (ic : Bool) (c c' : Item ι V) : Prop :=
  Ext c c' ∧ c'.inv ic = true ∧ c'.isEmptyCtor = false

/-- Rebuilding a node from kept children. -/
theorem node_rebuild {ic : Bool} {rx : LazyRegex} {cs cs' : List (Item ι V)}
    (h : (Item.node rx cs).inv ic = true) (himg : Img (Kept ic) cs cs') (hne : cs' ≠ []) :
    (collapse1 rx cs').inv ic = true ∧ Ext (.node rx cs) (collapse1 rx cs') := by
  obtain ⟨h1, h2, h3, h4, h5, h6, h7⟩ := inv_node_iff.1 h
  -- every new child is a good child of this node
  have hchild : ∀ c' ∈ cs', childOk rx.original c' = true ∧ c'.inv ic = true := by
    intro c' hc'
    obtain ⟨c, hc, hext, hinv, hnec⟩ := himg.mem c' hc'
    have hok := h5 c hc
    have hb := childOk_bpre hok
    refine ⟨childOk_of hnec ?_ ?_, hinv⟩
    · rcases hext.2 with e | ⟨_, hb'⟩
      · rw [e]; exact hb
      · exact hb.trans hb'
    · intro hn'
      have hn := hext.1 hn'
      have := childOk_lt hok hn
      rcases hext.2 with e | ⟨_, hb'⟩
      · rw [e]; exact this
      · have := hb'.length_le; omega
  have hpw : (cs'.map Item.regex).Pairwise (Sib rx.original.length) := by
    rw [List.pairwise_map] at h6 ⊢
    refine himg.pairwise ?_ h6
    intro a ha b hb a' b' hab hpa hpb
    have s1 : Sib rx.original.length a.regex b'.regex :=
      sib_ext hab hpb.1 (fun hn => childOk_lt (h5 b hb) hn)
    exact (sib_ext s1.symm hpa.1 (fun hn => childOk_lt (h5 a ha) hn)).symm
  match cs', hne, hchild, hpw with
  | [d], _, hchild, _ =>
    rw [collapse1_single]
    refine ⟨(hchild d (by simp)).2, fun _ => rfl, Or.inr ⟨rfl, childOk_bpre (hchild d (by simp)).1⟩⟩
  | d :: e :: rest, _, hchild, hpw =>
    rw [collapse1_of_two_le rx (by simp)]
    refine ⟨inv_node_iff.2 ⟨h1, h2, h3, by simp, fun c hc => (hchild c hc).1, hpw,
      fun c hc => (hchild c hc).2⟩, Ext.refl _ |>.1, Or.inl rfl⟩

/-! ### remove -/

theorem remove_empty (ic : Bool) (id : ι) : (Item.empty ic : Item ι V).remove id = (.empty ic, none) := by
  rw [Item.remove]
theorem remove_leaf (rx) (vs : List (ι × V)) (id : ι) : (Item.leaf rx vs).remove id = leafRemove rx vs id := by
  rw [Item.remove]
theorem remove_node (rx) (cs : List (Item ι V)) (id : ι) :
    (Item.node rx cs).remove id = (collapse1 rx (removeL cs id).1, (removeL cs id).2) := by
  rw [Item.remove]

theorem removeL_nil (id : ι) : removeL ([] : List (Item ι V)) id = ([], none) := by rw [removeL]

theorem removeL_cons_some {c : Item ι V} {cs : List (Item ι V)} {id : ι} {v : V}
    (h : (c.remove id).2 = some v) :
    removeL (c :: cs) id = (keepNonEmpty (c.remove id).1 ++ cs, some v) := by
  rw [removeL]; simp [h]

theorem removeL_cons_none {c : Item ι V} {cs : List (Item ι V)} {id : ι}
    (h : (c.remove id).2 = none) :
    removeL (c :: cs) id = (keepNonEmpty (c.remove id).1 ++ (removeL cs id).1, (removeL cs id).2) := by
  rw [removeL]; simp [h]

theorem nodupKeys_eraseKey {vs : List (ι × V)} (h : nodupKeys vs = true) (id : ι) :
    nodupKeys (eraseKey vs id) = true := by
  rw [nodupKeys_iff] at *
  induction vs with
  | nil => simp [eraseKey]
  | cons a rest ih =>
    obtain ⟨k, w⟩ := a
    rw [List.pairwise_cons] at h
    simp only [eraseKey]
    split
    · exact h.2
    · rw [List.pairwise_cons]
      refine ⟨?_, ih h.2⟩
      intro b hb
      apply h.1
      clear ih h
      induction rest with
      | nil => simp [eraseKey] at hb
      | cons a' rest' ih' =>
        obtain ⟨k', w'⟩ := a'
        simp only [eraseKey] at hb
        split at hb
        · exact List.mem_cons_of_mem _ hb
        · rcases List.mem_cons.1 hb with rfl | hb
          · exact List.mem_cons_self
          · exact List.mem_cons_of_mem _ (ih' hb)

theorem leafRemove_none {rx : LazyRegex} {vs : List (ι × V)} {id : ι} (h : lookupKey vs id = none) :
    leafRemove rx vs id = (.leaf rx vs, none) := by
  simp [leafRemove, h]

theorem leafRemove_some {rx : LazyRegex} {vs : List (ι × V)} {id : ι} {v : V} (h : lookupKey vs id = some v) :
    leafRemove rx vs id =
      (if (eraseKey vs id).isEmpty then .empty rx.ic else .leaf rx (eraseKey vs id), some v) := by
  simp only [leafRemove, h]
  split <;> rfl

/-- Nothing removed ⇒ nothing changed. -/
theorem remove_none {ic : Bool} (t : Item ι V) (id : ι) (h : t.inv ic = true)
    (hr : (t.remove id).2 = none) : (t.remove id).1 = t := by
  induction t using Item.ind with
  | hE ic' => rw [remove_empty]
  | hL rx vs =>
    rw [remove_leaf] at hr ⊢
    cases hl : lookupKey vs id with
    | none => rw [leafRemove_none hl]
    | some v => rw [leafRemove_some hl] at hr; simp at hr
  | hN rx cs ih =>
    obtain ⟨_, _, _, h4, h5, _, h7⟩ := inv_node_iff.1 h
    rw [remove_node] at hr ⊢
    simp only at hr ⊢
    have key : ∀ l : List (Item ι V), (∀ c ∈ l, c ∈ cs) → (removeL l id).2 = none → (removeL l id).1 = l := by
      intro l
      induction l with
      | nil => intro _ _; rw [removeL_nil]
      | cons c l ihl =>
        intro hsub hnone
        have hc := hsub c (by simp)
        cases hrc : (c.remove id).2 with
        | some v => rw [removeL_cons_some hrc] at hnone; simp at hnone
        | none =>
          rw [removeL_cons_none hrc] at hnone ⊢
          simp only at hnone ⊢
          rw [ih c hc (h7 c hc) hrc, ihl (fun d hd => hsub d (by simp [hd])) hnone,
            keepNonEmpty_of_not_isEmpty (inv_not_isEmpty c (h7 c hc) (childOk_notEmpty (h5 c hc)))]
          rfl
    rw [key cs (fun _ h => h) hr, collapse1_of_two_le rx h4]

theorem leafRemove_inv {ic : Bool} {rx : LazyRegex} {vs : List (ι × V)} (id : ι)
    (h : (Item.leaf rx vs : Item ι V).inv ic = true) :
    (leafRemove rx vs id).1.inv ic = true ∧
      ((leafRemove rx vs id).1.isEmptyCtor = false → Ext (Item.leaf rx vs) (leafRemove rx vs id).1) := by
  obtain ⟨h1, h2, h3, h4⟩ := inv_leaf_iff.1 h
  cases hl : lookupKey vs id with
  | none => rw [leafRemove_none hl]; exact ⟨h, fun _ => Ext.refl _⟩
  | some v =>
    rw [leafRemove_some hl]
    simp only
    split
    · exact ⟨inv_empty_iff.2 h2, fun hh => by simp [Item.isEmptyCtor] at hh⟩
    · next hne =>
      refine ⟨inv_leaf_iff.2 ⟨h1, h2, ?_, nodupKeys_eraseKey h4 id⟩, fun _ => ⟨by simp [Item.isNode], Or.inl rfl⟩⟩
      intro e; rw [e] at hne; simp at hne

/-- The loop of `Node::remove` on a list of good children. -/
theorem removeL_img {ic : Bool} {id : ι} (cs : List (Item ι V))
    (hinv : ∀ c ∈ cs, c.inv ic = true ∧ c.isEmptyCtor = false)
    (ih : ∀ c ∈ cs, c.inv ic = true → (c.remove id).1.inv ic = true ∧
      ((c.remove id).1.isEmptyCtor = false → Ext c (c.remove id).1)) :
    Img (Kept ic) cs (removeL cs id).1 ∧ cs.length ≤ (removeL cs id).1.length + 1 := by
  induction cs with
  | nil => rw [removeL_nil]; exact ⟨.nil, by simp⟩
  | cons c cs ihl =>
    have hc := hinv c (by simp)
    have hrest : ∀ d ∈ cs, d.inv ic = true ∧ d.isEmptyCtor = false := fun d hd => hinv d (by simp [hd])
    have hself : Img (Kept ic) cs cs :=
      Img.of_refl fun d hd => ⟨Ext.refl d, (hrest d hd).1, (hrest d hd).2⟩
    obtain ⟨hc'inv, hc'ext⟩ := ih c (by simp) hc.1
    have hhead : Img (Kept ic) [c] (keepNonEmpty (c.remove id).1) ∧
        ((c.remove id).1.isEmpty = false → (keepNonEmpty (c.remove id).1).length = 1) := by
      cases he : (c.remove id).1.isEmpty with
      | true => rw [keepNonEmpty_of_isEmpty he]; exact ⟨.drop .nil, by simp⟩
      | false =>
        rw [keepNonEmpty_of_not_isEmpty he]
        have hne := not_isEmpty_notEmptyCtor he
        exact ⟨.keep ⟨hc'ext hne, hc'inv, hne⟩ .nil, by simp⟩
    cases hrc : (c.remove id).2 with
    | some v =>
      rw [removeL_cons_some hrc]
      exact ⟨Img.append hhead.1 hself, by simp⟩
    | none =>
      rw [removeL_cons_none hrc]
      obtain ⟨himg, hlen⟩ := ihl hrest (fun d hd => ih d (by simp [hd]))
      refine ⟨Img.append hhead.1 himg, ?_⟩
      have hsame := remove_none c id hc.1 hrc
      have : (c.remove id).1.isEmpty = false := by rw [hsame]; exact inv_not_isEmpty c hc.1 hc.2
      have := hhead.2 this
      simp at hlen ⊢; omega

theorem inv_remove_aux {ic : Bool} (t : Item ι V) (id : ι) (h : t.inv ic = true) :
    (t.remove id).1.inv ic = true ∧ ((t.remove id).1.isEmptyCtor = false → Ext t (t.remove id).1) := by
  induction t using Item.ind with
  | hE ic' => rw [remove_empty]; exact ⟨h, fun hh => by simp [Item.isEmptyCtor] at hh⟩
  | hL rx vs => rw [remove_leaf]; exact leafRemove_inv id h
  | hN rx cs ih =>
    obtain ⟨_, _, _, h4, h5, _, h7⟩ := inv_node_iff.1 h
    rw [remove_node]
    simp only
    obtain ⟨himg, hlen⟩ := removeL_img (id := id) cs
      (fun c hc => ⟨h7 c hc, childOk_notEmpty (h5 c hc)⟩) (fun c hc hci => ih c hc hci)
    have hne : (removeL cs id).1 ≠ [] := by
      intro e; rw [e] at hlen; simp at hlen; omega
    have := node_rebuild h himg hne
    exact ⟨this.1, fun _ => this.2⟩

/-- `remove` preserves the invariant. -/
theorem inv_remove {ic : Bool} (t : Item ι V) (id : ι) (h : t.inv ic = true) :
    (t.remove id).1.inv ic = true := (inv_remove_aux t id h).1

/-! ### retain -/

theorem retain_empty (ic : Bool) (f : ι → V → Option V) : (Item.empty ic : Item ι V).retain f = .empty ic := by
  rw [Item.retain]
theorem retain_leaf (rx) (vs : List (ι × V)) (f : ι → V → Option V) :
    (Item.leaf rx vs).retain f =
      if (retainVals f vs).isEmpty then .empty rx.ic
      else .leaf rx (retainVals f vs) := by
  rw [Item.retain]
theorem retain_node (rx) (cs : List (Item ι V)) (f : ι → V → Option V) :
    (Item.node rx cs).retain f =
      if (retainL cs f).isEmpty then .empty rx.ic else collapse1 rx (retainL cs f) := by
  rw [Item.retain]

theorem inv_retain_aux {ic : Bool} (t : Item ι V) (f : ι → V → Option V) (h : t.inv ic = true) :
    (t.retain f).inv ic = true ∧ ((t.retain f).isEmptyCtor = false → Ext t (t.retain f)) := by
  induction t using Item.ind with
  | hE ic' => rw [retain_empty]; exact ⟨h, fun hh => by simp [Item.isEmptyCtor] at hh⟩
  | hL rx vs =>
    obtain ⟨h1, h2, h3, h4⟩ := inv_leaf_iff.1 h
    rw [retain_leaf]
    split
    · exact ⟨inv_empty_iff.2 h2, fun hh => by simp [Item.isEmptyCtor] at hh⟩
    · next hne =>
      refine ⟨inv_leaf_iff.2 ⟨h1, h2, ?_, ?_⟩, fun _ => ⟨by simp [Item.isNode], Or.inl rfl⟩⟩
      · intro e; rw [e] at hne; simp at hne
      · rw [nodupKeys_iff] at *
        unfold retainVals
        rw [List.pairwise_filterMap]
        refine h4.imp ?_
        intro a b hab a' ha' b' hb'
        simp only [Option.mem_def, Option.map_eq_some_iff] at ha' hb'
        obtain ⟨_, _, rfl⟩ := ha'
        obtain ⟨_, _, rfl⟩ := hb'
        exact hab
  | hN rx cs ih =>
    obtain ⟨_, h2, _, h4, h5, _, h7⟩ := inv_node_iff.1 h
    rw [retain_node]
    have himg : Img (Kept ic) cs (retainL cs f) := by
      rw [retainL_eq]
      have : ∀ l : List (Item ι V), (∀ c ∈ l, c ∈ cs) →
          Img (Kept ic) l (l.flatMap fun c => keepNonEmpty (c.retain f)) := by
        intro l
        induction l with
        | nil => intro _; exact .nil
        | cons c l ihl =>
          intro hsub
          have hc := hsub c (by simp)
          obtain ⟨hc'inv, hc'ext⟩ := ih c hc (h7 c hc)
          rw [List.flatMap_cons]
          have hhead : Img (Kept ic) [c] (keepNonEmpty (c.retain f)) := by
            cases he : (c.retain f).isEmpty with
            | true => rw [keepNonEmpty_of_isEmpty he]; exact .drop .nil
            | false =>
              rw [keepNonEmpty_of_not_isEmpty he]
              have hne := not_isEmpty_notEmptyCtor he
              exact .keep ⟨hc'ext hne, hc'inv, hne⟩ .nil
          exact Img.append hhead (ihl fun d hd => hsub d (by simp [hd]))
      exact this cs fun _ h => h
    split
    · exact ⟨inv_empty_iff.2 h2, fun hh => by simp [Item.isEmptyCtor] at hh⟩
    · next hne =>
      have hne' : retainL cs f ≠ [] := by intro e; rw [e] at hne; simp at hne
      have := node_rebuild h himg hne'
      exact ⟨this.1, fun _ => this.2⟩

/-- `retain` preserves the invariant. -/
theorem inv_retain {ic : Bool} (t : Item ι V) (f : ι → V → Option V) (h : t.inv ic = true) :
    (t.retain f).inv ic = true := (inv_retain_aux t f h).1

end Rio.Tree
