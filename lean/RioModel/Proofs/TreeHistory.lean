/-
Lifting the single-operation lemmas over arbitrary operation sequences: after any history over
{insert, remove, retain, cache} in the property's domain, the tree represents the flat reference list
(up to order), satisfies the invariant, and every `cache` call returned normally.
-/
import RioModel.Proofs.TreeCache
import RioModel.Proofs.TreeModify
set_option linter.unusedSimpArgs false
set_option linter.unusedVariables false
set_option linter.unusedSectionVars false

namespace Rio.Tree
open Rio.Scan Rio.Regex

variable {ι V : Type} [DecidableEq ι]

/-- Ids of the live entries are pairwise distinct (consequence of "an id determines its pattern" and of
replace-on-same-(pattern,id)). -/
def IdNodup (L : List (Entry ι V)) : Prop := L.Pairwise fun a b => a.id ≠ b.id

theorem IdNodup.perm {L L' : List (Entry ι V)} (h : IdNodup L) (hp : L.Perm L') : IdNodup L' := by
  unfold IdNodup at *
  have hsymm : ∀ {a b : Entry ι V}, a.id ≠ b.id → b.id ≠ a.id := fun hab e => hab e.symm
  exact (hp.pairwise_iff hsymm).1 h

/-! ### Reference operations under `IdNodup` -/

theorem mem_refInsert {L : List (Entry ι V)} {p : List Char} {id : ι} {v : V} {e : Entry ι V}
    (h : e ∈ refInsert L p id v) : e = ⟨p, id, v⟩ ∨ e ∈ L := by
  induction L with
  | nil => simp [refInsert] at h; exact Or.inl h
  | cons a L ih =>
    simp only [refInsert] at h
    split at h
    · rcases List.mem_cons.1 h with h | h
      · exact Or.inl h
      · exact Or.inr (List.mem_cons_of_mem _ h)
    · rcases List.mem_cons.1 h with h | h
      · exact Or.inr (by rw [h]; exact List.mem_cons_self)
      · rcases ih h with h | h
        · exact Or.inl h
        · exact Or.inr (List.mem_cons_of_mem _ h)

/-- Under `IdNodup`, `refInsert` is: drop whatever is stored under `id` with pattern `p`, add the entry. -/
theorem refInsert_perm_filter {L : List (Entry ι V)} (h : IdNodup L) (p : List Char) (id : ι) (v : V) :
    (refInsert L p id v).Perm (⟨p, id, v⟩ :: L.filter fun e => !decide (e.pat = p ∧ e.id = id)) := by
  induction L with
  | nil => simp [refInsert]
  | cons a L ih =>
    rw [IdNodup, List.pairwise_cons] at h
    simp only [refInsert]
    split
    · next hk =>
      have hrest : (L.filter fun e => !decide (e.pat = p ∧ e.id = id)) = L := by
        rw [List.filter_eq_self]
        intro e he
        have := h.1 e he
        simp only [Bool.not_eq_true', decide_eq_false_iff_not, not_and]
        intro _ hid; exact this (by rw [hk.2, hid])
      rw [List.filter_cons, hrest]
      simp [hk]
    · next hk =>
      rw [List.filter_cons]
      simp only [hk, decide_false, Bool.not_false, if_true]
      exact (List.Perm.cons a (ih h.2)).trans (List.Perm.swap _ _ _)

theorem refInsert_perm {L L' : List (Entry ι V)} (h : IdNodup L) (hp : L.Perm L') (p : List Char) (id : ι) (v : V) :
    (refInsert L p id v).Perm (refInsert L' p id v) :=
  (refInsert_perm_filter h p id v).trans
    ((List.Perm.cons _ (hp.filter _)).trans (refInsert_perm_filter (h.perm hp) p id v).symm)

theorem refRemove_eq_filter {L : List (Entry ι V)} (h : IdNodup L) (id : ι) :
    refRemove L id = L.filter fun e => !decide (e.id = id) := by
  induction L with
  | nil => simp [refRemove]
  | cons a L ih =>
    rw [IdNodup, List.pairwise_cons] at h
    simp only [refRemove, List.filter_cons]
    split
    · next hk =>
      simp only [hk, decide_true, Bool.not_true, Bool.false_eq_true, if_false]
      symm
      rw [List.filter_eq_self]
      intro e he
      have := h.1 e he
      simp only [Bool.not_eq_true', decide_eq_false_iff_not]
      intro hid; exact this (by rw [hk, hid])
    · next hk => simp [hk, ih h.2]

theorem refRemove_perm {L L' : List (Entry ι V)} (h : IdNodup L) (hp : L.Perm L') (id : ι) :
    (refRemove L id).Perm (refRemove L' id) := by
  rw [refRemove_eq_filter h, refRemove_eq_filter (h.perm hp)]
  exact hp.filter _

theorem IdNodup.refRemove {L : List (Entry ι V)} (h : IdNodup L) (id : ι) : IdNodup (refRemove L id) := by
  rw [refRemove_eq_filter h]; exact List.Pairwise.sublist List.filter_sublist h

/-- `retain` keeps pattern and id of the entries it keeps. -/
theorem mem_refRetain {L : List (Entry ι V)} {f : ι → V → Option V} {e : Entry ι V} (h : e ∈ refRetain L f) :
    ∃ e0 ∈ L, e.pat = e0.pat ∧ e.id = e0.id ∧ f e0.id e0.val = some e.val := by
  simp only [refRetain, List.mem_filterMap, Option.map_eq_some_iff] at h
  obtain ⟨e0, he0, v', hf, rfl⟩ := h
  exact ⟨e0, he0, rfl, rfl, hf⟩

theorem IdNodup.refRetain {L : List (Entry ι V)} (h : IdNodup L) (f : ι → V → Option V) :
    IdNodup (refRetain L f) := by
  unfold IdNodup Tree.refRetain at *
  rw [List.pairwise_filterMap]
  refine h.imp ?_
  intro a b hab a' ha' b' hb'
  simp only [Option.mem_def, Option.map_eq_some_iff] at ha' hb'
  obtain ⟨_, _, rfl⟩ := ha'
  obtain ⟨_, _, rfl⟩ := hb'
  exact hab

/-- `insert` keeps ids distinct when the id, if in use, is in use for the same pattern. -/
theorem IdNodup.refInsert {L : List (Entry ι V)} (h : IdNodup L) {p : List Char} {id : ι}
    (hid : ∀ e ∈ L, e.id = id → e.pat = p) (v : V) : IdNodup (refInsert L p id v) := by
  induction L with
  | nil => simp [Tree.refInsert, IdNodup]
  | cons a L ih =>
    rw [IdNodup, List.pairwise_cons] at h
    simp only [Tree.refInsert]
    split
    · next hk =>
      rw [IdNodup, List.pairwise_cons]
      refine ⟨?_, h.2⟩
      intro e he; have := h.1 e he; rw [hk.2] at this; exact this
    · next hk =>
      rw [IdNodup, List.pairwise_cons]
      refine ⟨?_, ih h.2 fun e he => hid e (by simp [he])⟩
      intro e he
      rcases mem_refInsert he with rfl | he
      · simp only
        intro e'
        exact hk ⟨hid a (by simp) e', e'⟩
      · exact h.1 e he

theorem refModify_id (p : List Char) (g : ι → V → V) (e : Entry ι V) :
    (if e.pat = p then (⟨e.pat, e.id, g e.id e.val⟩ : Entry ι V) else e).id = e.id ∧
    (if e.pat = p then (⟨e.pat, e.id, g e.id e.val⟩ : Entry ι V) else e).pat = e.pat := by
  split <;> simp

theorem mem_refModify {L : List (Entry ι V)} {p : List Char} {g : ι → V → V} {e : Entry ι V}
    (h : e ∈ refModify L p g) : ∃ e0 ∈ L, e.pat = e0.pat ∧ e.id = e0.id := by
  simp only [refModify, List.mem_map] at h
  obtain ⟨e0, he0, rfl⟩ := h
  exact ⟨e0, he0, (refModify_id p g e0).2, (refModify_id p g e0).1⟩

theorem IdNodup.refModify {L : List (Entry ι V)} (h : IdNodup L) (p : List Char) (g : ι → V → V) :
    IdNodup (refModify L p g) := by
  unfold IdNodup Tree.refModify at *
  rw [List.pairwise_map]
  refine h.imp ?_
  intro a b hab
  rw [(refModify_id p g a).1, (refModify_id p g b).1]; exact hab

theorem mem_refRemove {L : List (Entry ι V)} {id : ι} {e : Entry ι V} (h : e ∈ refRemove L id) : e ∈ L := by
  induction L with
  | nil => simp [refRemove] at h
  | cons a L ih =>
    simp only [refRemove] at h
    split at h
    · exact List.mem_cons_of_mem _ h
    · rcases List.mem_cons.1 h with h | h
      · rw [h]; exact List.mem_cons_self
      · exact List.mem_cons_of_mem _ (ih h)

/-! ### One operation -/

/-- The tree `t` represents the flat list `L`. -/
def Rep (ic : Bool) (t : Item ι V) (L : List (Entry ι V)) : Prop := t.inv ic = true ∧ t.contents.Perm L

/-- Patterns of `L` are in the domain. -/
def Dom (Good : List Char → Prop) (L : List (Entry ι V)) : Prop := ∀ e ∈ L, Good e.pat ∧ e.pat ≠ []

/-- The side condition `histOk` checks for one operation. -/
def opOk (good : List Char → Bool) (L : List (Entry ι V)) : Op ι V → Bool
  | .insert p id _ => good p && L.all (fun e => decide (e.id = id → e.pat = p))
  | _ => true

theorem histOk_cons (good : List Char → Bool) (L : List (Entry ι V)) (op : Op ι V) (ops : List (Op ι V)) :
    histOk good L (op :: ops) = (opOk good L op && histOk good (refStep L op) ops) := by
  cases op <;> simp [histOk, opOk]

theorem step_spec (E : Engine) {Good : List Char → Prop} {good : List Char → Bool}
    (hgood : ∀ p, good p = true → Good p ∧ p ≠ []) {ic : Bool} {t : Item ι V} {L : List (Entry ι V)}
    (hrep : Rep ic t L) (hnd : IdNodup L) (hdom : Dom Good L) (op : Op ι V) (hok : opOk good L op = true) :
    ∃ t', treeStep E t op = some t' ∧ Rep ic t' (refStep L op) ∧ IdNodup (refStep L op) ∧
      Dom Good (refStep L op) := by
  obtain ⟨hinv, hperm⟩ := hrep
  cases op with
  | insert p id v =>
    simp only [opOk, Bool.and_eq_true, List.all_eq_true, decide_eq_true_eq] at hok
    refine ⟨t.insert p id v, rfl, ⟨inv_insert t p id v hinv, ?_⟩, hnd.refInsert hok.2 v, ?_⟩
    · exact (contents_insert t p id v hinv).trans (refInsert_perm (hnd.perm hperm.symm) hperm p id v)
    · intro e he
      rcases mem_refInsert he with rfl | he
      · exact hgood p hok.1
      · exact hdom e he
  | remove id =>
    refine ⟨(t.remove id).1, rfl, ⟨inv_remove t id hinv, ?_⟩, hnd.refRemove id,
      fun e he => hdom e (mem_refRemove he)⟩
    rw [(contents_remove t id).1]
    exact refRemove_perm (hnd.perm hperm.symm) hperm id
  | retain f =>
    refine ⟨t.retain f, rfl, ⟨inv_retain t f hinv, ?_⟩, hnd.refRetain f,
      fun e he => by
        obtain ⟨e0, he0, hp, _, _⟩ := mem_refRetain he
        rw [hp]; exact hdom e0 he0⟩
    rw [contents_retain]
    exact hperm.filterMap _
  | modify p g =>
    refine ⟨t.modifyAt p g, rfl, ⟨inv_modifyAt t p g hinv, ?_⟩, hnd.refModify p g, ?_⟩
    · rw [contents_modifyAt t p g hinv]; exact hperm.map _
    · intro e he
      obtain ⟨e0, he0, hp, _⟩ := mem_refModify he
      rw [hp]; exact hdom e0 he0
  | cache limit level =>
    obtain ⟨t', n, h1, hs, _⟩ := treeCache_spec E t limit level
    refine ⟨t', by simp [treeStep, h1], ⟨?_, ?_⟩, hnd, hdom⟩
    · rw [inv_of_treeCache h1]; exact hinv
    · rw [← contents_strip, hs, contents_strip]; exact hperm

/-! ### Histories -/

theorem run_spec (E : Engine) {Good : List Char → Prop} {good : List Char → Bool}
    (hgood : ∀ p, good p = true → Good p ∧ p ≠ []) {ic : Bool} (ops : List (Op ι V)) :
    ∀ (t : Item ι V) (L : List (Entry ι V)), Rep ic t L → IdNodup L → Dom Good L →
      histOk good L ops = true →
      ∃ t', treeRun E t ops = some t' ∧ Rep ic t' (refRun L ops) ∧ Dom Good (refRun L ops) := by
  induction ops with
  | nil => intro t L hrep _ hdom _; exact ⟨t, rfl, hrep, hdom⟩
  | cons op ops ih =>
    intro t L hrep hnd hdom hok
    rw [histOk_cons, Bool.and_eq_true] at hok
    obtain ⟨t1, h1, hrep1, hnd1, hdom1⟩ := step_spec E hgood hrep hnd hdom op hok.1
    obtain ⟨t2, h2, hrep2, hdom2⟩ := ih t1 _ hrep1 hnd1 hdom1 hok.2
    exact ⟨t2, by simp [treeRun, h1, h2], hrep2, hdom2⟩

end Rio.Tree
