/-
C03 for chains of several stages: the chain as a pipeline of stages.

`runG items ps fin` = feed the pieces `ps` through `do_filter`, then `do_end` started with `fin`.
`runG_cons` (transposition): the run of `st :: rest` is the run of `rest` on the NON-EMPTY outputs of `st` (the `break` of
`do_filter`), `do_end` started with what `st` emits at end (its `filter(fin) ++ end()` as ONE piece).
Each stage is chunk-invariant on the pieces it actually receives when they are safe for it (`SafeRun` for an html
stage, nothing for a text stage), hence two runs of the same chain on the same stream agree when every stage is safe on
its pieces in both runs (`SafeG`).
-/
import RioModel.Proofs.FilterTotal
import RioModel.Proofs.FilterText
set_option linter.unusedSimpArgs false
set_option linter.unusedVariables false

namespace Rio.Filter

variable {D E : Type} (tk : Tokenize) (ev : Bytes → Bytes → Bool) (codec : Codec D E)

/-- `if b.is_empty() { None } else { Some(b) }` -/
def optB (b : Bytes) : Option Bytes := if b.isEmpty then none else some b

theorem optB_getD (b : Bytes) : (optB b).getD [] = b := by
  unfold optB
  by_cases h : b.isEmpty = true
  · have : b = [] := by simpa using h
    simp [this]
  · simp [h]

/-- the pieces that reach the next stage -/
def nonEmpty (ps : List Bytes) : List Bytes := ps.filter fun p => !p.isEmpty

theorem nonEmpty_flatten (ps : List Bytes) : (nonEmpty ps).flatten = ps.flatten := by
  induction ps with
  | nil => rfl
  | cons p ps ih =>
    simp only [nonEmpty, List.filter] at ih ⊢
    by_cases h : p.isEmpty = true
    · have : p = [] := by simpa using h
      simp [this, ih]
    · simp [h, ih]

/-- feed pieces through `do_filter`: stages afterwards, concatenated outputs; `none` = a call failed -/
def feedG : List (Stage D E) → List Bytes → Option (List (Stage D E) × Bytes)
  | items, [] => some (items, [])
  | items, p :: ps =>
    match doFilter tk ev codec items p with
    | (_, none) => none
    | (items1, some o) => (feedG items1 ps).map fun r => (r.1, o ++ r.2)

/-- feed the pieces, then `do_end` started with `fin` -/
def runG (items : List (Stage D E)) (ps : List Bytes) (fin : Option Bytes) : Option Bytes :=
  match feedG tk ev codec items ps with
  | none => none
  | some (items1, os) =>
    match doEnd tk ev codec items1 fin with
    | (_, .ok r) => some (os ++ r.getD [])
    | (_, .error _) => none

/-- one stage over pieces delivered through `filter` -/
def stFeed : Stage D E → List Bytes → Option (Stage D E × List Bytes)
  | st, [] => some (st, [])
  | st, p :: ps =>
    match st.filter tk ev codec p with
    | none => none
    | some (st1, o) => (stFeed st1 ps).map fun r => (r.1, o :: r.2)

/-- `feedG` transposed: the first stage over all pieces, then the other stages over its non-empty outputs -/
theorem feedG_cons : ∀ (ps : List Bytes) (st : Stage D E) (rest : List (Stage D E)),
    feedG tk ev codec (st :: rest) ps =
      match stFeed tk ev codec st ps with
      | none => none
      | some (st1, os) => (feedG tk ev codec rest (nonEmpty os)).map fun r => (st1 :: r.1, r.2)
  | [], st, rest => by simp [feedG, stFeed, nonEmpty]
  | p :: ps, st, rest => by
    simp only [feedG, stFeed, doFilter]
    cases hf : st.filter tk ev codec p with
    | none => simp
    | some r =>
      obtain ⟨st1, o⟩ := r
      simp only
      by_cases hemp : o.isEmpty = true
      · have ho : o = [] := by simpa using hemp
        subst ho
        simp only [List.isEmpty_nil, if_true]
        rw [feedG_cons ps st1 rest]
        cases stFeed tk ev codec st1 ps with
        | none => simp
        | some r2 =>
          obtain ⟨st2, os⟩ := r2
          simp only [Option.map_some, nonEmpty, List.filter, List.isEmpty_nil, Bool.not_true]
          cases feedG tk ev codec rest (List.filter (fun p => !p.isEmpty) os) with
          | none => simp
          | some r3 => simp
      · simp only [hemp, Bool.false_eq_true, if_false]
        cases hd : doFilter tk ev codec rest o with
        | mk rest1 q =>
          cases q with
          | none =>
            simp only
            cases stFeed tk ev codec st1 ps with
            | none => simp
            | some r2 =>
              obtain ⟨st2, os⟩ := r2
              simp [nonEmpty, List.filter, hemp, feedG, hd]
          | some q =>
            simp only
            rw [feedG_cons ps st1 rest1]
            cases stFeed tk ev codec st1 ps with
            | none => simp
            | some r2 =>
              obtain ⟨st2, os⟩ := r2
              simp only [Option.map_some, nonEmpty, List.filter, hemp, Bool.not_false, feedG, hd]
              cases feedG tk ev codec rest1 (List.filter (fun p => !p.isEmpty) os) with
              | none => simp
              | some r3 => simp [List.append_assoc]

/-- **Transposition**: the run of `st :: rest` is the run of `rest` on the non-empty outputs of `st`, `do_end` started
with what `st` emits at end. -/
theorem runG_cons (st : Stage D E) (rest : List (Stage D E)) (ps : List Bytes) (fin : Option Bytes) :
    runG tk ev codec (st :: rest) ps fin =
      match stFeed tk ev codec st ps with
      | none => none
      | some (st1, os) =>
        match st1.endWith tk ev codec fin with
        | (_, none) => none
        | (_, some nd) => runG tk ev codec rest (nonEmpty os) (optB nd) := by
  unfold runG
  rw [feedG_cons]
  cases stFeed tk ev codec st ps with
  | none => rfl
  | some r =>
    obtain ⟨st1, os⟩ := r
    simp only
    cases hfe : feedG tk ev codec rest (nonEmpty os) with
    | none =>
      simp only [Option.map_none]
      cases st1.endWith tk ev codec fin with
      | mk st2 x => cases x <;> simp
    | some r2 =>
      obtain ⟨rest1, out⟩ := r2
      simp only [Option.map_some]
      rw [doEnd]
      cases st1.endWith tk ev codec fin with
      | mk st2 x =>
        cases x with
        | none => simp
        | some nd =>
          simp only [optB]
          cases doEnd tk ev codec rest1 (if nd.isEmpty = true then none else some nd) with
          | mk r3 res => cases res <;> simp

theorem runG_nil (ps : List Bytes) (fin : Option Bytes) :
    runG tk ev codec ([] : List (Stage D E)) ps fin = some (ps.flatten ++ fin.getD []) := by
  have : ∀ ps : List Bytes, feedG tk ev codec ([] : List (Stage D E)) ps = some ([], ps.flatten) := by
    intro ps
    induction ps with
    | nil => rfl
    | cons p ps ih => simp [feedG, doFilter, ih]
  simp [runG, this, doEnd]

/-- the chain's run is `runG` (when no call fails) -/
theorem run_of_runG : ∀ (cs : List Bytes) (items : List (Stage D E)) (out : Bytes),
    runG tk ev codec items cs none = some out → ({ items := items } : Chain D E).run tk ev codec cs = out := by
  have key : ∀ (cs : List Bytes) (items items1 : List (Stage D E)) (os : Bytes),
      feedG tk ev codec items cs = some (items1, os) →
      ∃ outs, ({ items := items } : Chain D E).feed tk ev codec cs = ({ items := items1 }, outs) ∧ outs.flatten = os := by
    intro cs
    induction cs with
    | nil =>
      intro items items1 os h
      simp only [feedG] at h
      injection h with h; injection h with h1 h2; subst h1 h2
      exact ⟨[], rfl, rfl⟩
    | cons c cs ih =>
      intro items items1 os h
      simp only [feedG] at h
      cases hd : doFilter tk ev codec items c with
      | mk it1 r =>
        rw [hd] at h
        cases r with
        | none => simp at h
        | some o =>
          simp only [Option.map_eq_some_iff] at h
          obtain ⟨⟨it2, os2⟩, h1, h2⟩ := h
          injection h2 with h2 h3
          subst h2 h3
          obtain ⟨outs, f1, f2⟩ := ih it1 it2 os2 h1
          refine ⟨o :: outs, ?_, by simp [f2]⟩
          simp only [Chain.feed, Chain.filter, Bool.false_eq_true, if_false, hd, f1]
  intro cs items out h
  unfold runG at h
  cases hf : feedG tk ev codec items cs with
  | none => simp [hf] at h
  | some r =>
    obtain ⟨items1, os⟩ := r
    simp only [hf] at h
    obtain ⟨outs, f1, f2⟩ := key cs items items1 os hf
    cases hd : doEnd tk ev codec items1 none with
    | mk it2 res =>
      rw [hd] at h
      cases res with
      | error p => simp at h
      | ok r =>
        simp only at h
        injection h with h
        subst h
        simp [Chain.run, Chain.runOuts, f1, Chain.end, hd, f2]

end Rio.Filter
