/-
C03 for chains of several stages: the chain as a pipeline of stages.

`runG items ps fin` = feed the pieces `ps` through `do_filter`, then `do_end` started with `fin`.
`runG_cons` (transposition): the run of `st :: rest` is the run of `rest` on the NON-EMPTY outputs of `st` (the `break` of
`do_filter`), `do_end` started with what `st` emits at end (its `filter(fin) ++ end()` as ONE piece).
Each stage is chunk-invariant on whatever pieces it receives (html stage: `seqRun_total`, from the restart law with a
context; text stage: closed form), hence two runs of the same chain of fresh stages on the same stream agree.
-/
import RioModel.Proofs.FilterTotal
import RioModel.Proofs.FilterText
import RioModel.Proofs.FilterChain
set_option linter.unusedSimpArgs false
set_option linter.unusedVariables false

namespace Rio.Filter

variable {D E : Type} (tk : Tokenize) (ev : Bytes → Bytes → Bool) (codec : Codec D E)

/-- `if b.is_empty() { None } else { Some(b) }` -/
def optB (b : Bytes) : Option Bytes := if b.isEmpty then none else some b

theorem optB_getD (b : Bytes) : (optB b).getD [] = b := by
  unfold optB
  by_cases h : b.isEmpty = true
  · have : b = [] := by simpa using h
    simp [this]
  · simp [h]

/-- the pieces that reach the next stage -/
def nonEmpty (ps : List Bytes) : List Bytes := ps.filter fun p => !p.isEmpty

theorem nonEmpty_flatten (ps : List Bytes) : (nonEmpty ps).flatten = ps.flatten := by
  induction ps with
  | nil => rfl
  | cons p ps ih =>
    simp only [nonEmpty, List.filter] at ih ⊢
    by_cases h : p.isEmpty = true
    · have : p = [] := by simpa using h
      simp [this, ih]
    · simp [h, ih]

/-- feed pieces through `do_filter`: stages afterwards, concatenated outputs; `none` = a call failed -/
def feedG : List (Stage D E) → List Bytes → Option (List (Stage D E) × Bytes)
  | items, [] => some (items, [])
  | items, p :: ps =>
    match doFilter tk ev codec items p with
    | (_, none) => none
    | (items1, some o) => (feedG items1 ps).map fun r => (r.1, o ++ r.2)

/-- feed the pieces, then `do_end` started with `fin` -/
def runG (items : List (Stage D E)) (ps : List Bytes) (fin : Option Bytes) : Option Bytes :=
  match feedG tk ev codec items ps with
  | none => none
  | some (items1, os) =>
    match doEnd tk ev codec items1 fin with
    | (_, .ok r) => some (os ++ r.getD [])
    | (_, .error _) => none

/-- one stage over pieces delivered through `filter` -/
def stFeed : Stage D E → List Bytes → Option (Stage D E × List Bytes)
  | st, [] => some (st, [])
  | st, p :: ps =>
    match st.filter tk ev codec p with
    | none => none
    | some (st1, o) => (stFeed st1 ps).map fun r => (r.1, o :: r.2)

/-- `feedG` transposed: the first stage over all pieces, then the other stages over its non-empty outputs -/
theorem feedG_cons : ∀ (ps : List Bytes) (st : Stage D E) (rest : List (Stage D E)),
    feedG tk ev codec (st :: rest) ps =
      match stFeed tk ev codec st ps with
      | none => none
      | some (st1, os) => (feedG tk ev codec rest (nonEmpty os)).map fun r => (st1 :: r.1, r.2)
  | [], st, rest => by simp [feedG, stFeed, nonEmpty]
  | p :: ps, st, rest => by
    simp only [feedG, stFeed, doFilter]
    cases hf : st.filter tk ev codec p with
    | none => simp
    | some r =>
      obtain ⟨st1, o⟩ := r
      simp only
      by_cases hemp : o.isEmpty = true
      · have ho : o = [] := by simpa using hemp
        subst ho
        simp only [List.isEmpty_nil, if_true]
        rw [feedG_cons ps st1 rest]
        cases stFeed tk ev codec st1 ps with
        | none => simp
        | some r2 =>
          obtain ⟨st2, os⟩ := r2
          simp only [Option.map_some, nonEmpty, List.filter, List.isEmpty_nil, Bool.not_true]
          cases feedG tk ev codec rest (List.filter (fun p => !p.isEmpty) os) with
          | none => simp
          | some r3 => simp
      · simp only [hemp, Bool.false_eq_true, if_false]
        cases hd : doFilter tk ev codec rest o with
        | mk rest1 q =>
          cases q with
          | none =>
            simp only
            cases stFeed tk ev codec st1 ps with
            | none => simp
            | some r2 =>
              obtain ⟨st2, os⟩ := r2
              simp [nonEmpty, List.filter, hemp, feedG, hd]
          | some q =>
            simp only
            rw [feedG_cons ps st1 rest1]
            cases stFeed tk ev codec st1 ps with
            | none => simp
            | some r2 =>
              obtain ⟨st2, os⟩ := r2
              simp only [Option.map_some, nonEmpty, List.filter, hemp, Bool.not_false, feedG, hd]
              cases feedG tk ev codec rest1 (List.filter (fun p => !p.isEmpty) os) with
              | none => simp
              | some r3 => simp [List.append_assoc]

/-- **Transposition**: the run of `st :: rest` is the run of `rest` on the non-empty outputs of `st`, `do_end` started
with what `st` emits at end. -/
theorem runG_cons (st : Stage D E) (rest : List (Stage D E)) (ps : List Bytes) (fin : Option Bytes) :
    runG tk ev codec (st :: rest) ps fin =
      match stFeed tk ev codec st ps with
      | none => none
      | some (st1, os) =>
        match st1.endWith tk ev codec fin with
        | (_, none) => none
        | (_, some nd) => runG tk ev codec rest (nonEmpty os) (optB nd) := by
  unfold runG
  rw [feedG_cons]
  cases stFeed tk ev codec st ps with
  | none => rfl
  | some r =>
    obtain ⟨st1, os⟩ := r
    simp only
    cases hfe : feedG tk ev codec rest (nonEmpty os) with
    | none =>
      simp only [Option.map_none]
      cases st1.endWith tk ev codec fin with
      | mk st2 x => cases x <;> simp
    | some r2 =>
      obtain ⟨rest1, out⟩ := r2
      simp only [Option.map_some]
      rw [doEnd]
      cases st1.endWith tk ev codec fin with
      | mk st2 x =>
        cases x with
        | none => simp
        | some nd =>
          simp only [optB]
          cases doEnd tk ev codec rest1 (if nd.isEmpty = true then none else some nd) with
          | mk r3 res => cases res <;> simp

theorem runG_nil (ps : List Bytes) (fin : Option Bytes) :
    runG tk ev codec ([] : List (Stage D E)) ps fin = some (ps.flatten ++ fin.getD []) := by
  have : ∀ ps : List Bytes, feedG tk ev codec ([] : List (Stage D E)) ps = some ([], ps.flatten) := by
    intro ps
    induction ps with
    | nil => rfl
    | cons p ps ih => simp [feedG, doFilter, ih]
  simp [runG, this, doEnd]

/-- the chain's run is `runG` (when no call fails) -/
theorem run_of_runG : ∀ (cs : List Bytes) (items : List (Stage D E)) (out : Bytes),
    runG tk ev codec items cs none = some out → ({ items := items } : Chain D E).run tk ev codec cs = out := by
  have key : ∀ (cs : List Bytes) (items items1 : List (Stage D E)) (os : Bytes),
      feedG tk ev codec items cs = some (items1, os) →
      ∃ outs, ({ items := items } : Chain D E).feed tk ev codec cs = ({ items := items1 }, outs) ∧ outs.flatten = os := by
    intro cs
    induction cs with
    | nil =>
      intro items items1 os h
      simp only [feedG] at h
      injection h with h; injection h with h1 h2; subst h1 h2
      exact ⟨[], rfl, rfl⟩
    | cons c cs ih =>
      intro items items1 os h
      simp only [feedG] at h
      cases hd : doFilter tk ev codec items c with
      | mk it1 r =>
        rw [hd] at h
        cases r with
        | none => simp at h
        | some o =>
          simp only [Option.map_eq_some_iff] at h
          obtain ⟨⟨it2, os2⟩, h1, h2⟩ := h
          injection h2 with h2 h3
          subst h2 h3
          obtain ⟨outs, f1, f2⟩ := ih it1 it2 os2 h1
          refine ⟨o :: outs, ?_, by simp [f2]⟩
          simp only [Chain.feed, Chain.filter, Bool.false_eq_true, if_false, hd, f1]
  intro cs items out h
  unfold runG at h
  cases hf : feedG tk ev codec items cs with
  | none => simp [hf] at h
  | some r =>
    obtain ⟨items1, os⟩ := r
    simp only [hf] at h
    obtain ⟨outs, f1, f2⟩ := key cs items items1 os hf
    cases hd : doEnd tk ev codec items1 none with
    | mk it2 res =>
      rw [hd] at h
      cases res with
      | error p => simp at h
      | ok r =>
        simp only at h
        injection h with h
        subst h
        simp [Chain.run, Chain.runOuts, f1, Chain.end, hd, f2]

/-! ### each stage is chunk-invariant on safe pieces -/

/-- `seqRun` keeping the outputs apart -/
def seqRunL (s : HtmlSt) : List Bytes → Option (HtmlSt × List Bytes)
  | [] => some (s, [])
  | x :: xs =>
    match filterHtml tk ev s x with
    | none => none
    | some (s1, o1) => (seqRunL s1 xs).map fun r => (r.1, o1 :: r.2)

theorem seqRunL_flat : ∀ (xs : List Bytes) (s : HtmlSt),
    seqRun tk ev s xs = (seqRunL tk ev s xs).map fun r => (r.1, r.2.flatten)
  | [], s => rfl
  | x :: xs, s => by
    simp only [seqRun, seqRunL]
    cases filterHtml tk ev s x with
    | none => rfl
    | some r =>
      obtain ⟨s1, o1⟩ := r
      simp only
      rw [seqRunL_flat xs s1]
      cases seqRunL tk ev s1 xs with
      | none => rfl
      | some r2 => simp

theorem seqRun_append : ∀ (xs ys : List Bytes) (s : HtmlSt),
    seqRun tk ev s (xs ++ ys) =
      match seqRun tk ev s xs with
      | none => none
      | some (s1, o1) => (seqRun tk ev s1 ys).map fun r => (r.1, o1 ++ r.2)
  | [], ys, s => by
    simp only [List.nil_append, seqRun]
    cases seqRun tk ev s ys with
    | none => rfl
    | some r => simp
  | x :: xs, ys, s => by
    simp only [List.cons_append, seqRun]
    cases filterHtml tk ev s x with
    | none => rfl
    | some r =>
      obtain ⟨s1, o1⟩ := r
      simp only
      rw [seqRun_append xs ys s1]
      cases seqRun tk ev s1 xs with
      | none => rfl
      | some r2 =>
        obtain ⟨s2, o2⟩ := r2
        simp only [Option.map_some]
        cases seqRun tk ev s2 ys with
        | none => rfl
        | some r3 => simp [List.append_assoc]


/-- a stage as `FilterBodyAction::new` builds it: nothing held, an accepted context, and the stream tokenizer makes no
token out of nothing -/
def StageInit : Stage D E → Prop
  | .html s => Ctx s.ctx ∧ s.last = [] ∧ (tk.stream s.ctx []).1 = []
  | _ => True

/-- what a plain stage makes of the whole stream `b` delivered as one piece followed by `end()` -/
def stOne : Stage D E → Bytes → Option Bytes
  | .html s, b => htmlTotal tk ev s b
  | .text s, b => some (stageTotal s b)
  | _, _ => none

theorem stFeed_html : ∀ (ps : List Bytes) (s : HtmlSt),
    stFeed tk ev codec (.html s : Stage D E) ps =
      (seqRunL tk ev s ps).map fun r => (.html r.1, r.2)
  | [], s => rfl
  | p :: ps, s => by
    simp only [stFeed, seqRunL, Stage.filter]
    cases filterHtml tk ev s p with
    | none => rfl
    | some r =>
      obtain ⟨s1, o⟩ := r
      simp only [Option.map_some]
      rw [stFeed_html ps s1]
      cases seqRunL tk ev s1 ps with
      | none => rfl
      | some r2 => rfl

/-- what a stage emits in total: its outputs for the pieces, then `filter(fin) ++ end()` -/
def stTotal (st : Stage D E) (ps : List Bytes) (fin : Option Bytes) : Option Bytes :=
  match stFeed tk ev codec st ps with
  | none => none
  | some (st1, os) =>
    match st1.endWith tk ev codec fin with
    | (_, none) => none
    | (_, some nd) => some (os.flatten ++ nd)

theorem toList_flatten (fin : Option Bytes) : fin.toList.flatten = fin.getD [] := by
  cases fin <;> simp

theorem stTotal_html (s : HtmlSt) (ps : List Bytes) (fin : Option Bytes) (out : Bytes)
    (h : stTotal tk ev codec (.html s : Stage D E) ps fin = some out) :
    ∃ s' o, seqRun tk ev s (ps ++ fin.toList) = some (s', o) ∧ out = o ++ endHtml s' := by
  unfold stTotal at h
  rw [stFeed_html] at h
  cases hl : seqRunL tk ev s ps with
  | none => simp [hl] at h
  | some r =>
    obtain ⟨s1, os⟩ := r
    simp only [hl, Option.map_some] at h
    have hs : seqRun tk ev s ps = some (s1, os.flatten) := by rw [seqRunL_flat, hl]; rfl
    cases fin with
    | none =>
      simp only [Stage.endWith, Stage.end] at h
      injection h with h
      subst h
      exact ⟨s1, os.flatten, by simpa using hs, rfl⟩
    | some d =>
      simp only [Stage.endWith, Stage.filter] at h
      cases hf : filterHtml tk ev s1 d with
      | none => simp [hf] at h
      | some r2 =>
        obtain ⟨s2, o2⟩ := r2
        simp only [hf, Option.map_some, Stage.end] at h
        injection h with h
        subst h
        refine ⟨s2, os.flatten ++ o2, ?_, by simp [List.append_assoc]⟩
        rw [seqRun_append, hs]
        simp [seqRun, hf]

theorem stFeed_text : ∀ (ps : List Bytes) (s : TextSt),
    ∃ s1 os, stFeed tk ev codec (.text s : Stage D E) ps = some (.text s1, os) ∧
      ∀ b, stageTotal s (ps.flatten ++ b) = os.flatten ++ stageTotal s1 b
  | [], s => ⟨s, [], rfl, fun b => rfl⟩
  | p :: ps, s => by
    obtain ⟨s1, os, h1, h2⟩ := stFeed_text ps (filterText s p).1
    refine ⟨s1, (filterText s p).2 :: os, ?_, ?_⟩
    · simp only [stFeed, Stage.filter]
      rw [h1]
      rfl
    · intro b
      simp only [List.flatten_cons, List.append_assoc]
      rw [stageTotal_filter, h2]

theorem stTotal_text (s : TextSt) (ps : List Bytes) (fin : Option Bytes) :
    stTotal tk ev codec (.text s : Stage D E) ps fin = some (stageTotal s (ps.flatten ++ fin.getD [])) := by
  obtain ⟨s1, os, h1, h2⟩ := stFeed_text tk ev codec ps s
  unfold stTotal
  rw [h1]
  simp only
  cases fin with
  | none =>
    rw [endWith_text_none]
    simp only [Option.getD_none]
    rw [h2, stageTotal_end]
  | some d =>
    rw [endWith_text_some]
    simp only [Option.getD_some]
    rw [h2]
    have := stageTotal_filter s1 d []
    simp only [List.append_nil] at this
    rw [this, stageTotal_end]

/-- **A stage is chunk-invariant**: whatever the pieces (none at all included), the total output of a fresh stage is
what it emits for the concatenated stream delivered as one piece. -/
theorem stage_sci (hl : LosslessS tk) (hr : RestartLaw tk) (st : Stage D E) (hp : isPlain st = true)
    (hinit : StageInit tk st) (ps : List Bytes) (fin : Option Bytes) (out : Bytes)
    (h : stTotal tk ev codec st ps fin = some out) :
    stOne tk ev st (ps.flatten ++ fin.getD []) = some out := by
  cases st with
  | html s =>
    obtain ⟨hc, hlast, hnil⟩ := hinit
    by_cases hne : ps ++ fin.toList = []
    · simp only [List.append_eq_nil_iff] at hne
      obtain ⟨rfl, hfin⟩ := hne
      cases fin with
      | some d => simp at hfin
      | none =>
        simp only [stTotal, stFeed, Stage.endWith, Stage.end] at h
        injection h with h
        subst h
        simpa [stOne] using htmlTotal_nil tk ev hl s hlast hnil
    · obtain ⟨s', o, h1, h2⟩ := stTotal_html tk ev codec s ps fin out h
      have := seqRun_total tk ev hr (ps ++ fin.toList) s s' o hne hc h1
      simp only [List.flatten_append, toList_flatten] at this
      simp only [stOne]
      rw [this, h2]
  | text s =>
    rw [stTotal_text] at h
    simpa [stOne] using h
  | decode d => simp [isPlain] at hp
  | encode e => simp [isPlain] at hp

/-! ### two runs of the same chain on the same stream -/

theorem optB_toList_flatten (b : Bytes) : (optB b).toList.flatten = b := by
  rw [toList_flatten, optB_getD]

/-- **Two runs of a plain chain of fresh stages on the same stream agree** when no call fails. -/
theorem runG_stream (hl : LosslessS tk) (hr : RestartLaw tk) : ∀ (items : List (Stage D E)) (ps : List Bytes)
    (fin : Option Bytes) (ps' : List Bytes) (fin' : Option Bytes) (out out' : Bytes), AllPlain items →
    (∀ st ∈ items, StageInit tk st) →
    ps.flatten ++ fin.getD [] = ps'.flatten ++ fin'.getD [] →
    runG tk ev codec items ps fin = some out → runG tk ev codec items ps' fin' = some out' → out = out'
  | [], ps, fin, ps', fin', out, out', _, _, hs, h, h' => by
    rw [runG_nil] at h h'
    injection h with h; injection h' with h'
    rw [← h, ← h', hs]
  | st :: rest, ps, fin, ps', fin', out, out', hp, hinit, hs, h, h' => by
    rw [runG_cons] at h h'
    cases hfe : stFeed tk ev codec st ps with
    | none => simp [hfe] at h
    | some r =>
      obtain ⟨st1, os⟩ := r
      cases hfe' : stFeed tk ev codec st ps' with
      | none => simp [hfe'] at h'
      | some r' =>
        obtain ⟨st1', os'⟩ := r'
        simp only [hfe] at h
        simp only [hfe'] at h'
        cases hw : st1.endWith tk ev codec fin with
        | mk st2 x =>
          cases x with
          | none => simp [hw] at h
          | some nd =>
            cases hw' : st1'.endWith tk ev codec fin' with
            | mk st2' x' =>
              cases x' with
              | none => simp [hw'] at h'
              | some nd' =>
                simp only [hw] at h
                simp only [hw'] at h'
                -- the stage's total output is the same in both runs
                have t1 : stTotal tk ev codec st ps fin = some (os.flatten ++ nd) := by
                  simp [stTotal, hfe, hw]
                have t2 : stTotal tk ev codec st ps' fin' = some (os'.flatten ++ nd') := by
                  simp [stTotal, hfe', hw']
                have c1 := stage_sci tk ev codec hl hr st (hp st (by simp)) (hinit st (by simp)) ps fin _ t1
                have c2 := stage_sci tk ev codec hl hr st (hp st (by simp)) (hinit st (by simp)) ps' fin' _ t2
                rw [hs] at c1
                rw [c1] at c2
                injection c2 with c2
                exact runG_stream hl hr rest (nonEmpty os) (optB nd) (nonEmpty os') (optB nd') out out'
                  (fun s hs' => hp s (by simp [hs'])) (fun s hs' => hinit s (by simp [hs']))
                  (by rw [nonEmpty_flatten, nonEmpty_flatten, optB_getD, optB_getD]; exact c2) h h'

end Rio.Filter
