/-
Stream laws of the tokenizer model, part 4: the laws on the level of the filter model (`Rio.Filter.htmlTokenize`):
token boundaries are UTF-8 character boundaries (`htmlTokenize_tokValid`), tag tokens are `<`…`>` spans
(`htmlTokenize_tagSpan`).  The machinery is in HtmlTok1.
-/
import RioModel.Proofs.HtmlTok1
import RioModel.Proofs.FilterTok
import RioModel.Proofs.FilterValid
set_option linter.unusedSimpArgs false
set_option linter.unusedVariables false

namespace Rio.Filter
open Rio.Html Rio.Html.Tokenizer

/-- **token boundaries are UTF-8 character boundaries**: the raw bytes of every token of a complete valid buffer are
complete valid UTF-8 (every token ends at EOF, right after a `>` or right before a `<`). -/
theorem htmlTokenize_tokValid : TokValid htmlTokenize := by
  intro d hv t ht
  simp only [htmlTokenize_apply] at ht
  cases h : htmlTokenize? d with
  | none => simp [h] at ht
  | some r =>
    obtain ⟨ts, rest⟩ := r
    simp only [h, Option.getD_some] at ht
    unfold htmlTokenize? at h
    exact tokenizeGo_valid _ _ [] ts rest (loopInv_new d hv) h (by simp) t ht

theorem isTagKind_kindOf (k : TokenType) (h : isTagKind (kindOf k) = true) : isTagLike k = true := by
  cases k <;> simp [kindOf, isTagKind, isTagLike] at h ⊢

theorem next_isSpan (t : Tokenizer) (inv : Tokenizer.Inv t) (hk : isTagKind (kindOf (Tokenizer.next t).token) = true) :
    IsSpan (rawL (Tokenizer.next t)) := by
  have hl := isTagKind_kindOf _ hk
  have hne : (Tokenizer.next t).token ≠ .error := by
    intro he; rw [he] at hl; simp [isTagLike] at hl
  exact rawL_isSpan _ (next_inv' t inv) (next_tag t inv hl) ((next_post t inv).progress hne)

theorem tokenizeGo_tagSpan : ∀ (n : Nat) (t : Tokenizer) (acc ts : List Tok) (r : Bytes), Tokenizer.Inv t →
    tokenizeGo n t acc = some (ts, r) → (∀ x ∈ acc, isTagKind x.kind = true → IsSpan x.raw) →
    ∀ x ∈ ts, isTagKind x.kind = true → IsSpan x.raw
  | 0, _, _, _, _, _, h, _ => by simp [tokenizeGo] at h
  | n + 1, t, acc, ts, r, hi, h, hacc => by
    have hi1 := next_inv' t hi
    have hsp := next_isSpan t hi
    rw [tokenizeGo] at h
    split at h
    · simp at h
    · split at h
      · rw [raw_eq _ hi1, buffered_eq _ hi1] at h
        simp only at h
        injection h with h
        injection h with h1 h2
        subst h1
        intro x hx
        exact hacc x (by simpa using hx)
      · rw [raw_eq _ hi1] at h
        simp only at h
        have step : ∀ (tk : Tok), tk.kind = kindOf (Tokenizer.next t).token → tk.raw = rawL (Tokenizer.next t) →
            ∀ x ∈ tk :: acc, isTagKind x.kind = true → IsSpan x.raw := by
          intro tk h1 h2 x hx hk
          simp only [List.mem_cons] at hx
          rcases hx with rfl | hx
          · rw [h2]; exact hsp (by rw [← h1]; exact hk)
          · exact hacc x hx hk
        split at h
        · split at h
          · rename_i nm b t2 htn
            have hfr := tagName_frame (Tokenizer.next t) (some nm, b) (by rw [htn]) hi1
            rw [htn] at hfr
            exact tokenizeGo_tagSpan n t2 _ ts r hfr.1 h (step _ rfl rfl)
          · rename_i b t2 htn
            have hfr := tagName_frame (Tokenizer.next t) (none, b) (by rw [htn]) hi1
            rw [htn] at hfr
            exact tokenizeGo_tagSpan n t2 _ ts r hfr.1 h (step _ rfl rfl)
          · simp at h
        · exact tokenizeGo_tagSpan n _ _ ts r hi1 h (step _ rfl rfl)

/-- **tag tokens are `<`…`>` spans** -/
theorem htmlTokenize_tagSpan : TagSpan htmlTokenize := by
  intro d t ht hk
  simp only [htmlTokenize_apply] at ht
  cases h : htmlTokenize? d with
  | none => simp [h] at ht
  | some r =>
    obtain ⟨ts, rest⟩ := r
    simp only [h, Option.getD_some] at ht
    unfold htmlTokenize? at h
    exact tokenizeGo_tagSpan _ _ [] ts rest ⟨Nat.le_refl _, ⟨Nat.zero_le _, rfl, rfl, rfl⟩, TagOk_nil⟩ h (by simp) t ht hk

end Rio.Filter
