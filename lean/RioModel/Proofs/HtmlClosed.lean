/-
Closed forms of the tokenizer's readers (for C15, owner W7b): what `next` returns when the unread part of the buffer
starts with the serialisation of a `Simple` piece (start / self-closing / end tag with arbitrary names and attributes,
text, raw-text content, comment, doctype), followed by anything.

This file: the predicate `Has` (the buffer contains given bytes at a position), the `Simple` attribute grammar, and the
"run" lemmas of the tag readers: where they stop (`raw.end`) and that they do not hit EOF.  Everything else about the
result (buffer, `raw.start`, `raw_tag`, flags, data span) comes from the frame lemmas of `Proofs/Html.lean`.
-/
import RioModel.Proofs.HtmlStream3
set_option linter.unusedSimpArgs false
set_option linter.unusedVariables false

namespace Rio.Html
namespace Tokenizer
open Rio.Consts

abbrev Bytes := List Nat

/-- the buffer contains the bytes `l` at position `p` -/
def Has (t : Tokenizer) (p : Nat) (l : Bytes) : Prop := ∀ i (h : i < l.length), t.buf[p + i]? = some l[i]

theorem Has.nil (t : Tokenizer) (p : Nat) : Has t p [] := fun i h => absurd h (Nat.not_lt_zero _)

theorem Has.head {t : Tokenizer} {p a : Nat} {l : Bytes} (h : Has t p (a :: l)) : t.buf[p]? = some a := by
  have := h 0 (by simp); simpa using this

theorem Has.tail {t : Tokenizer} {p a : Nat} {l : Bytes} (h : Has t p (a :: l)) : Has t (p + 1) l := by
  intro i hi
  have := h (i + 1) (by simp; omega)
  simp only [List.getElem_cons_succ] at this
  rw [← this]; congr 1; omega

theorem Has.left {t : Tokenizer} {p : Nat} {a b : Bytes} (h : Has t p (a ++ b)) : Has t p a := by
  intro i hi
  have := h i (by simp; omega)
  rw [this, List.getElem_append_left hi]

theorem Has.right {t : Tokenizer} {p : Nat} {a b : Bytes} (h : Has t p (a ++ b)) : Has t (p + a.length) b := by
  intro i hi
  have := h (a.length + i) (by simp; omega)
  rw [show p + a.length + i = p + (a.length + i) by omega, this, List.getElem_append_right (by omega)]
  simp

theorem Has.congr {t t' : Tokenizer} {p : Nat} {l : Bytes} (h : Has t p l) (e : t'.buf = t.buf) : Has t' p l := by
  intro i hi; rw [e]; exact h i hi

theorem Has.at {t : Tokenizer} {p q : Nat} {l : Bytes} (h : Has t p l) (e : q = p) : Has t q l := e ▸ h

/-- one successful read of a known byte -/
theorem read_known {t : Tokenizer} {a : Nat} (h : t.buf[t.rawE]? = some a) (he : t.err = false) :
    t.readByte.2 = a ∧ t.readByte.1.rawE = t.rawE + 1 ∧ t.readByte.1.err = false ∧ t.readByte.1.buf = t.buf := by
  have := readByte_get_spec h
  exact ⟨this.1, this.2.1, by rw [this.2.2.1, he], this.2.2.2⟩

/-- what a "run" lemma says: where the reader stops, and that it did not hit EOF -/
def Stops (t t' : Tokenizer) (n : Nat) : Prop := t'.rawE = t.rawE + n ∧ t'.err = false

/-! ### white space -/

theorem isWs_false_of {b : Nat} (h : isWs b = false) : ¬ isWs b = true := by rw [h]; exact Bool.false_ne_true

/-- `skip_white_space` over a run of white space followed by a non-white-space byte -/
theorem skipWsGo_run : ∀ (ws : Bytes) (d : Nat) (t : Tokenizer), Has t t.rawE (ws ++ [d]) → (∀ b ∈ ws, isWs b = true) →
    isWs d = false → t.err = false → Stops t (skipWsGo t) ws.length
  | [], d, t, h, _, hd, he => by
    obtain ⟨e1, e2, e3, e4⟩ := read_known h.head he
    rw [skipWsGo]
    simp only [e3, e1, hd, Bool.false_eq_true, dite_false, if_false]
    have := unread_rawE_eq (t := t.readByte.1) 1 (by omega)
    exact ⟨by rw [this, e2]; simp, by rw [unread_err, e3]⟩
  | b :: ws, d, t, h, hw, hd, he => by
    obtain ⟨e1, e2, e3, e4⟩ := read_known h.head he
    have hb : isWs b = true := hw b (by simp)
    rw [skipWsGo]
    simp only [e3, e1, hb, Bool.false_eq_true, dite_false, if_true]
    have ih := skipWsGo_run ws d t.readByte.1 ((h.tail.congr e4).at e2) (fun x hx => hw x (by simp [hx])) hd e3
    exact ⟨by rw [ih.1, e2]; simp; omega, ih.2⟩

theorem skipWhiteSpace_run (ws : Bytes) (d : Nat) (t : Tokenizer) (h : Has t t.rawE (ws ++ [d]))
    (hw : ∀ b ∈ ws, isWs b = true) (hd : isWs d = false) (he : t.err = false) :
    Stops t (skipWhiteSpace t) ws.length := by
  unfold skipWhiteSpace; simp only [he, Bool.false_eq_true, if_false]
  exact skipWsGo_run ws d t h hw hd he

/-! ### the tag name -/

/-- a byte at which `read_tag_name` continues -/
def nameByte (b : Nat) : Bool := !isWs b && b != 47 && b != 62

/-- `read_tag_name`'s loop over name bytes followed by white space: the white space byte is consumed -/
theorem tagNameGo_run_ws : ∀ (nm : Bytes) (d : Nat) (t : Tokenizer), Has t t.rawE (nm ++ [d]) →
    (∀ b ∈ nm, nameByte b = true) → isWs d = true → t.err = false →
    Stops t (tagNameGo t) (nm.length + 1) ∧ (tagNameGo t).dataE = t.rawE + nm.length
  | [], d, t, h, _, hd, he => by
    obtain ⟨e1, e2, e3, e4⟩ := read_known h.head he
    rw [tagNameGo]
    simp only [e3, e1, hd, Bool.false_eq_true, dite_false, if_true]
    have s := setDataEndBack_spec t.readByte.1 1 (by omega)
    exact ⟨⟨by rw [s.2, e2]; simp, by rw [setDataEndBack_err, e3]⟩, by rw [s.1, e2]; simp⟩
  | b :: nm, d, t, h, hn, hd, he => by
    obtain ⟨e1, e2, e3, e4⟩ := read_known h.head he
    have hb := hn b (by simp)
    simp only [nameByte, Bool.and_eq_true, Bool.not_eq_true', bne_iff_ne, ne_eq] at hb
    have h1 : isWs b = false := hb.1.1
    have h2 : (b == 47 || b == 62) = false := by simp [hb.1.2, hb.2]
    rw [tagNameGo]
    simp only [e3, e1, h1, h2, Bool.false_eq_true, dite_false, if_false]
    have ih := tagNameGo_run_ws nm d t.readByte.1 ((h.tail.congr e4).at e2) (fun x hx => hn x (by simp [hx])) hd e3
    exact ⟨⟨by rw [ih.1.1, e2]; simp; omega, ih.1.2⟩, by rw [ih.2, e2]; simp; omega⟩

/-- … followed by `/` or `>`: the delimiter is not consumed -/
theorem tagNameGo_run_end : ∀ (nm : Bytes) (d : Nat) (t : Tokenizer), Has t t.rawE (nm ++ [d]) →
    (∀ b ∈ nm, nameByte b = true) → (d = 47 ∨ d = 62) → t.err = false →
    Stops t (tagNameGo t) nm.length ∧ (tagNameGo t).dataE = t.rawE + nm.length
  | [], d, t, h, _, hd, he => by
    obtain ⟨e1, e2, e3, e4⟩ := read_known h.head he
    have h1 : isWs d = false := by rcases hd with rfl | rfl <;> decide
    have h2 : (d == 47 || d == 62) = true := by rcases hd with rfl | rfl <;> decide
    rw [tagNameGo]
    simp only [e3, e1, h1, h2, Bool.false_eq_true, dite_false, if_false, if_true]
    have u := unread_rawE_eq (t := t.readByte.1) 1 (by omega)
    refine ⟨⟨?_, ?_⟩, ?_⟩
    · show (t.readByte.1.unread 1).rawE = t.rawE + 0; rw [u, e2]; simp
    · show (t.readByte.1.unread 1).err = false; rw [unread_err, e3]
    · show (t.readByte.1.unread 1).rawE = t.rawE + 0; rw [u, e2]; simp
  | b :: nm, d, t, h, hn, hd, he => by
    obtain ⟨e1, e2, e3, e4⟩ := read_known h.head he
    have hb := hn b (by simp)
    simp only [nameByte, Bool.and_eq_true, Bool.not_eq_true', bne_iff_ne, ne_eq] at hb
    have h1 : isWs b = false := hb.1.1
    have h2 : (b == 47 || b == 62) = false := by simp [hb.1.2, hb.2]
    rw [tagNameGo]
    simp only [e3, e1, h1, h2, Bool.false_eq_true, dite_false, if_false]
    have ih := tagNameGo_run_end nm d t.readByte.1 ((h.tail.congr e4).at e2) (fun x hx => hn x (by simp [hx])) hd e3
    exact ⟨⟨by rw [ih.1.1, e2]; simp; omega, ih.1.2⟩, by rw [ih.2, e2]; simp; omega⟩

/-! ### the `Simple` attribute grammar -/

/-- attribute value of the `Simple` grammar: none (bare key), unquoted, double-quoted, single-quoted -/
inductive SVal where
  | none
  | unq (v : Bytes)
  | dq (v : Bytes)
  | sq (v : Bytes)
  deriving Repr, DecidableEq, Inhabited

/-- one attribute: leading white space, key, value; `ws1` / `ws2` = white space before / after the `=` (only with a value) -/
structure SAttr where
  ws : Bytes
  key : Bytes
  val : SVal
  ws1 : Bytes := []
  ws2 : Bytes := []
  deriving Repr, DecidableEq, Inhabited

/-- a byte at which `read_tag_name_attr_key` continues -/
def keyByte (b : Nat) : Bool := !isWs b && b != 47 && b != 61 && b != 62
/-- a byte at which the unquoted-value loop continues -/
def unqByte (b : Nat) : Bool := !isWs b && b != 62

def SVal.text : SVal → Bytes
  | .none => []
  | .unq v => 61 :: v
  | .dq v => [61, 34] ++ v ++ [34]
  | .sq v => [61, 39] ++ v ++ [39]

def SVal.ok : SVal → Bool
  | .none => true
  | .unq v =>
    match v with
    | [] => false
    | c :: _ => v.all unqByte && c != 34 && c != 39 && v.getLast? != some 47
  | .dq v => !v.contains 34
  | .sq v => !v.contains 39

/-- the value as it stands after the `=` (with its quotes) -/
def SVal.body : SVal → Bytes
  | .none => []
  | .unq v => v
  | .dq v => [34] ++ v ++ [34]
  | .sq v => [39] ++ v ++ [39]

/-- the value as `tag_attr()` returns it -/
def SVal.value : SVal → Bytes
  | .none => []
  | .unq v => v
  | .dq v => v
  | .sq v => v

theorem SVal.text_eq (v : SVal) (h : v ≠ .none) : v.text = 61 :: v.body := by
  cases v <;> first | exact absurd rfl h | rfl

/-- white space around the `=` is white space, and there is none without a value -/
def SAttr.wsOK (a : SAttr) : Bool :=
  a.ws1.all isWs && a.ws2.all isWs && (a.val != .none || (a.ws1.isEmpty && a.ws2.isEmpty))

def SAttr.ok (a : SAttr) : Bool :=
  !a.ws.isEmpty && a.ws.all isWs && !a.key.isEmpty && a.key.all keyByte && a.val.ok && a.wsOK

/-- the text of the value part: nothing for a bare key, else `ws1 = ws2 value` -/
def SAttr.vtext (a : SAttr) : Bytes :=
  match a.val with
  | .none => []
  | v => a.ws1 ++ [61] ++ a.ws2 ++ v.body

def SAttr.text (a : SAttr) : Bytes := a.ws ++ a.key ++ a.vtext

theorem SAttr.vtext_none {a : SAttr} (h : a.val = .none) : a.vtext = [] := by
  unfold SAttr.vtext; rw [h]

theorem SAttr.vtext_some {a : SAttr} (h : a.val ≠ .none) : a.vtext = a.ws1 ++ [61] ++ a.ws2 ++ a.val.body := by
  unfold SAttr.vtext
  cases hv : a.val with
  | none => exact absurd hv h
  | unq v => rfl
  | dq v => rfl
  | sq v => rfl

/-- without white space around the `=` the value text is `SVal.text` -/
theorem SAttr.vtext_plain {a : SAttr} (h1 : a.ws1 = []) (h2 : a.ws2 = []) : a.vtext = a.val.text := by
  unfold SAttr.vtext
  cases hv : a.val <;> simp [h1, h2, SVal.text, SVal.body]

/-- the raw attribute text of a tag -/
def attrsOf : List SAttr → Bytes
  | [] => []
  | a :: as => a.text ++ attrsOf as

/-- the value needs white space (or `>`) after it: bare key or unquoted value -/
def SVal.open : SVal → Bool
  | .none | .unq _ => true
  | _ => false

/-! ### attribute key -/

theorem keyByte_spec {b : Nat} (h : keyByte b = true) :
    (isWs b || b == 47) = false ∧ (b == 61 || b == 62) = false := by
  simp only [keyByte, Bool.and_eq_true, Bool.not_eq_true', bne_iff_ne, ne_eq] at h
  simp [h.1.1.1, h.1.1.2, h.1.2, h.2]

/-- the key loop over key bytes followed by `=` or `>`: the delimiter is not consumed -/
theorem attrKeyGo_run_stop : ∀ (key : Bytes) (d : Nat) (t : Tokenizer), Has t t.rawE (key ++ [d]) →
    (∀ b ∈ key, keyByte b = true) → (d = 61 ∨ d = 62) → t.err = false → Stops t (attrKeyGo t) key.length
  | [], d, t, h, _, hd, he => by
    obtain ⟨e1, e2, e3, e4⟩ := read_known h.head he
    have h1 : (isWs d || d == 47) = false := by rcases hd with rfl | rfl <;> decide
    have h2 : (d == 61 || d == 62) = true := by rcases hd with rfl | rfl <;> decide
    rw [attrKeyGo]
    simp only [e3, e1, h1, h2, Bool.false_eq_true, dite_false, if_false, if_true]
    have u := unread_rawE_eq (t := t.readByte.1) 1 (by omega)
    refine ⟨?_, ?_⟩
    · show (t.readByte.1.unread 1).rawE = t.rawE + 0; rw [u, e2]; simp
    · show (t.readByte.1.unread 1).err = false; rw [unread_err, e3]
  | b :: key, d, t, h, hk, hd, he => by
    obtain ⟨e1, e2, e3, e4⟩ := read_known h.head he
    obtain ⟨h1, h2⟩ := keyByte_spec (hk b (by simp))
    rw [attrKeyGo]
    simp only [e3, e1, h1, h2, Bool.false_eq_true, dite_false, if_false]
    have ih := attrKeyGo_run_stop key d t.readByte.1 ((h.tail.congr e4).at e2) (fun x hx => hk x (by simp [hx])) hd e3
    exact ⟨by rw [ih.1, e2]; simp; omega, ih.2⟩

/-- … followed by white space or `/`: the delimiter is consumed -/
theorem attrKeyGo_run_eat : ∀ (key : Bytes) (d : Nat) (t : Tokenizer), Has t t.rawE (key ++ [d]) →
    (∀ b ∈ key, keyByte b = true) → (isWs d = true ∨ d = 47) → t.err = false → Stops t (attrKeyGo t) (key.length + 1)
  | [], d, t, h, _, hd, he => by
    obtain ⟨e1, e2, e3, e4⟩ := read_known h.head he
    have h1 : (isWs d || d == 47) = true := by rcases hd with h | rfl <;> simp [*]
    have h0 : ¬ t.readByte.1.rawE = 0 := by omega
    rw [attrKeyGo]
    simp only [e3, e1, h1, h0, Bool.false_eq_true, dite_false, if_false, if_true]
    exact ⟨by show t.readByte.1.rawE = _; rw [e2]; simp, by first | exact e3 | rfl⟩
  | b :: key, d, t, h, hk, hd, he => by
    obtain ⟨e1, e2, e3, e4⟩ := read_known h.head he
    obtain ⟨h1, h2⟩ := keyByte_spec (hk b (by simp))
    rw [attrKeyGo]
    simp only [e3, e1, h1, h2, Bool.false_eq_true, dite_false, if_false]
    have ih := attrKeyGo_run_eat key d t.readByte.1 ((h.tail.congr e4).at e2) (fun x hx => hk x (by simp [hx])) hd e3
    exact ⟨by rw [ih.1, e2]; simp; omega, ih.2⟩

/-! ### attribute values -/

/-- the quoted loop up to the closing quote (consumed) -/
theorem attrValQuotedGo_run : ∀ (v : Bytes) (q : Nat) (t : Tokenizer), Has t t.rawE (v ++ [q]) →
    (∀ b ∈ v, b ≠ q) → t.err = false → Stops t (attrValQuotedGo t q) (v.length + 1)
  | [], q, t, h, _, he => by
    obtain ⟨e1, e2, e3, e4⟩ := read_known h.head he
    have h0 : ¬ t.readByte.1.rawE = 0 := by omega
    rw [attrValQuotedGo]
    simp only [e3, e1, beq_self_eq_true, h0, Bool.false_eq_true, dite_false, if_false, if_true]
    exact ⟨by show t.readByte.1.rawE = _; rw [e2]; simp, by first | exact e3 | rfl⟩
  | b :: v, q, t, h, hv, he => by
    obtain ⟨e1, e2, e3, e4⟩ := read_known h.head he
    have hb : (b == q) = false := by simpa using hv b (by simp)
    rw [attrValQuotedGo]
    simp only [e3, e1, hb, Bool.false_eq_true, dite_false, if_false]
    have ih := attrValQuotedGo_run v q t.readByte.1 ((h.tail.congr e4).at e2) (fun x hx => hv x (by simp [hx])) e3
    exact ⟨by rw [ih.1, e2]; simp; omega, ih.2⟩

theorem unqByte_spec {b : Nat} (h : unqByte b = true) : isWs b = false ∧ (b == 62) = false := by
  simp only [unqByte, Bool.and_eq_true, Bool.not_eq_true', bne_iff_ne, ne_eq] at h
  simp [h.1, h.2]

/-- the unquoted loop, stopped by white space (consumed) -/
theorem attrValUnquotedGo_run_ws : ∀ (v : Bytes) (d : Nat) (t : Tokenizer), Has t t.rawE (v ++ [d]) →
    (∀ b ∈ v, unqByte b = true) → isWs d = true → t.err = false → Stops t (attrValUnquotedGo t) (v.length + 1)
  | [], d, t, h, _, hd, he => by
    obtain ⟨e1, e2, e3, e4⟩ := read_known h.head he
    have h0 : ¬ t.readByte.1.rawE = 0 := by omega
    rw [attrValUnquotedGo]
    simp only [e3, e1, hd, h0, Bool.false_eq_true, dite_false, if_false, if_true]
    exact ⟨by show t.readByte.1.rawE = _; rw [e2]; simp, by first | exact e3 | rfl⟩
  | b :: v, d, t, h, hv, hd, he => by
    obtain ⟨e1, e2, e3, e4⟩ := read_known h.head he
    obtain ⟨h1, h2⟩ := unqByte_spec (hv b (by simp))
    rw [attrValUnquotedGo]
    simp only [e3, e1, h1, h2, Bool.false_eq_true, dite_false, if_false]
    have ih := attrValUnquotedGo_run_ws v d t.readByte.1 ((h.tail.congr e4).at e2) (fun x hx => hv x (by simp [hx])) hd e3
    exact ⟨by rw [ih.1, e2]; simp; omega, ih.2⟩

/-- the unquoted loop, stopped by `>` (not consumed) -/
theorem attrValUnquotedGo_run_gt : ∀ (v : Bytes) (t : Tokenizer), Has t t.rawE (v ++ [62]) →
    (∀ b ∈ v, unqByte b = true) → t.err = false → Stops t (attrValUnquotedGo t) v.length
  | [], t, h, _, he => by
    obtain ⟨e1, e2, e3, e4⟩ := read_known h.head he
    rw [attrValUnquotedGo]
    have hw : isWs 62 = false := by decide
    simp only [e3, e1, hw, beq_self_eq_true, Bool.false_eq_true, dite_false, if_false, if_true]
    have u := unread_rawE_eq (t := t.readByte.1) 1 (by omega)
    refine ⟨?_, ?_⟩
    · show (t.readByte.1.unread 1).rawE = t.rawE + 0; rw [u, e2]; simp
    · show (t.readByte.1.unread 1).err = false; rw [unread_err, e3]
  | b :: v, t, h, hv, he => by
    obtain ⟨e1, e2, e3, e4⟩ := read_known h.head he
    obtain ⟨h1, h2⟩ := unqByte_spec (hv b (by simp))
    rw [attrValUnquotedGo]
    simp only [e3, e1, h1, h2, Bool.false_eq_true, dite_false, if_false]
    have ih := attrValUnquotedGo_run_gt v t.readByte.1 ((h.tail.congr e4).at e2) (fun x hx => hv x (by simp [hx])) e3
    exact ⟨by rw [ih.1, e2]; simp; omega, ih.2⟩

theorem Stops.trans {a b c : Tokenizer} {m n : Nat} (h1 : Stops a b m) (h2 : Stops b c n) : Stops a c (m + n) :=
  ⟨by rw [h2.1, h1.1]; omega, h2.2⟩

/-- a read followed by `raw.end -= 1` -/
theorem peek_run {t : Tokenizer} {a : Nat} (h : t.buf[t.rawE]? = some a) (he : t.err = false) :
    Stops t (t.readByte.1.unread 1) 0 ∧ t.readByte.2 = a := by
  obtain ⟨e1, e2, e3, e4⟩ := read_known h he
  have u := unread_rawE_eq (t := t.readByte.1) 1 (by omega)
  exact ⟨⟨by rw [u, e2]; simp, by rw [unread_err, e3]⟩, e1⟩

/-- the part of `read_tag_name_attr_value` after the `=`, for a double- or single-quoted value -/
theorem attrValRest_run_quoted (v : Bytes) (q : Nat) (t : Tokenizer) (ok : Ok t) (hq : q = 34 ∨ q = 39)
    (h : Has t t.rawE ([q] ++ v ++ [q])) (hv : ∀ b ∈ v, b ≠ q) (he : t.err = false) :
    Stops t (attrValRest t) (v.length + 2) := by
  have hqws : isWs q = false := by rcases hq with rfl | rfl <;> decide
  have hs := skipWhiteSpace_run [] q t (by simpa using h.left.left) (by simp) hqws he
  have a1 := skipWhiteSpace_adv t ok
  unfold attrValRest
  simp only
  generalize t.skipWhiteSpace = t2 at *
  have hr2 : t2.rawE = t.rawE := by rw [hs.1]; simp
  have hh : Has t2 t2.rawE ([q] ++ v ++ [q]) := (h.congr a1.buf).at hr2
  obtain ⟨e1, e2, e3, e4⟩ := read_known (by simpa using hh.left.left.head) hs.2
  have hq62 : (q == 62) = false := by rcases hq with rfl | rfl <;> decide
  have hqq : (q == 39 || q == 34) = true := by rcases hq with rfl | rfl <;> decide
  have hne1 : ¬ t2.err = true := by rw [hs.2]; exact Bool.false_ne_true
  have hne2 : ¬ t2.readByte.1.err = true := by rw [e3]; exact Bool.false_ne_true
  rw [if_neg hne1, if_neg hne2]
  simp only [e1, hq62, hqq, Bool.false_eq_true, if_false, if_true]
  have hh2 : Has t2.readByte.1 t2.readByte.1.rawE (v ++ [q]) := by
    have := hh.right
    simp only [List.append_assoc, List.singleton_append] at hh
    exact ((hh.tail).congr e4).at e2
  have run := attrValQuotedGo_run v q { t2.readByte.1 with pvS := t2.readByte.1.rawE } hh2 hv e3
  exact ⟨by rw [run.1]; show t2.readByte.1.rawE + _ = _; rw [e2, hr2]; omega, run.2⟩

/-- … for an unquoted value `c :: v` stopped by white space (consumed) -/
theorem attrValRest_run_unq_ws (c : Nat) (v : Bytes) (d : Nat) (t : Tokenizer) (ok : Ok t)
    (h : Has t t.rawE (c :: v ++ [d])) (hc : unqByte c = true) (hc1 : c ≠ 34) (hc2 : c ≠ 39)
    (hv : ∀ b ∈ v, unqByte b = true) (hd : isWs d = true) (he : t.err = false) :
    Stops t (attrValRest t) (v.length + 2) := by
  obtain ⟨hcw, hc62⟩ := unqByte_spec hc
  have hs := skipWhiteSpace_run [] c t (by simpa using Has.left (b := v ++ [d]) (by simpa using h)) (by simp) hcw he
  have a1 := skipWhiteSpace_adv t ok
  unfold attrValRest
  simp only
  generalize t.skipWhiteSpace = t2 at *
  have hr2 : t2.rawE = t.rawE := by rw [hs.1]; simp
  have hh : Has t2 t2.rawE (c :: v ++ [d]) := (h.congr a1.buf).at hr2
  obtain ⟨e1, e2, e3, e4⟩ := read_known hh.head hs.2
  have hqq : (c == 39 || c == 34) = false := by simp [hc1, hc2]
  have h0 : ¬ t2.readByte.1.rawE = 0 := by omega
  have hne1 : ¬ t2.err = true := by rw [hs.2]; exact Bool.false_ne_true
  have hne2 : ¬ t2.readByte.1.err = true := by rw [e3]; exact Bool.false_ne_true
  rw [if_neg hne1, if_neg hne2]
  simp only [e1, hc62, hqq, h0, Bool.false_eq_true, if_false]
  have hh2 : Has t2.readByte.1 t2.readByte.1.rawE (v ++ [d]) := ((hh.tail).congr e4).at e2
  have run := attrValUnquotedGo_run_ws v d { t2.readByte.1 with pvS := t2.readByte.1.rawE - 1 } hh2 hv hd e3
  exact ⟨by rw [run.1]; show t2.readByte.1.rawE + _ = _; rw [e2, hr2]; omega, run.2⟩

/-- … for an unquoted value stopped by `>` (not consumed) -/
theorem attrValRest_run_unq_gt (c : Nat) (v : Bytes) (t : Tokenizer) (ok : Ok t)
    (h : Has t t.rawE (c :: v ++ [62])) (hc : unqByte c = true) (hc1 : c ≠ 34) (hc2 : c ≠ 39)
    (hv : ∀ b ∈ v, unqByte b = true) (he : t.err = false) :
    Stops t (attrValRest t) (v.length + 1) := by
  obtain ⟨hcw, hc62⟩ := unqByte_spec hc
  have hs := skipWhiteSpace_run [] c t (by simpa using Has.left (b := v ++ [62]) (by simpa using h)) (by simp) hcw he
  have a1 := skipWhiteSpace_adv t ok
  unfold attrValRest
  simp only
  generalize t.skipWhiteSpace = t2 at *
  have hr2 : t2.rawE = t.rawE := by rw [hs.1]; simp
  have hh : Has t2 t2.rawE (c :: v ++ [62]) := (h.congr a1.buf).at hr2
  obtain ⟨e1, e2, e3, e4⟩ := read_known hh.head hs.2
  have hqq : (c == 39 || c == 34) = false := by simp [hc1, hc2]
  have h0 : ¬ t2.readByte.1.rawE = 0 := by omega
  have hne1 : ¬ t2.err = true := by rw [hs.2]; exact Bool.false_ne_true
  have hne2 : ¬ t2.readByte.1.err = true := by rw [e3]; exact Bool.false_ne_true
  rw [if_neg hne1, if_neg hne2]
  simp only [e1, hc62, hqq, h0, Bool.false_eq_true, if_false]
  have hh2 : Has t2.readByte.1 t2.readByte.1.rawE (v ++ [62]) := ((hh.tail).congr e4).at e2
  have run := attrValUnquotedGo_run_gt v { t2.readByte.1 with pvS := t2.readByte.1.rawE - 1 } hh2 hv e3
  exact ⟨by rw [run.1]; show t2.readByte.1.rawE + _ = _; rw [e2, hr2]; omega, run.2⟩

/-- `read_tag_name_attr_value` when no `=` follows: only white space is consumed -/
theorem attrValGo_run_none (W : Bytes) (d : Nat) (t : Tokenizer) (ok : Ok t) (h : Has t t.rawE (W ++ [d]))
    (hW : ∀ b ∈ W, isWs b = true) (hd : isWs d = false) (hd61 : d ≠ 61) (he : t.err = false) :
    Stops t (attrValGo t) W.length := by
  have hs := skipWhiteSpace_run W d t h hW hd he
  have a1 := skipWhiteSpace_adv t ok
  unfold attrValGo
  simp only
  generalize t.skipWhiteSpace = t1 at *
  have hh : t1.buf[t1.rawE]? = some d := by
    have := (h.right.congr a1.buf).head
    rw [hs.1]; exact this
  obtain ⟨e1, e2, e3, e4⟩ := read_known hh hs.2
  have hne1 : ¬ t1.err = true := by rw [hs.2]; exact Bool.false_ne_true
  have hne2 : ¬ t1.readByte.1.err = true := by rw [e3]; exact Bool.false_ne_true
  rw [if_neg hne1, if_neg hne2]
  have hb : (t1.readByte.2 != 61) = true := by rw [e1]; simpa using hd61
  rw [if_pos hb]
  have p := (peek_run hh hs.2).1
  exact ⟨by rw [p.1, hs.1]; simp, p.2⟩

/-- … when `=` follows immediately: the rest is `attrValRest` after the `=` -/
theorem attrValGo_run_val (t : Tokenizer) (ok : Ok t) (he : t.err = false) (h : t.buf[t.rawE]? = some 61) (n : Nat)
    (hr : ∀ u : Tokenizer, u.buf = t.buf → u.rawE = t.rawE + 1 → u.err = false → Ok u → Stops u (attrValRest u) n) :
    Stops t (attrValGo t) (n + 1) := by
  have hs := skipWhiteSpace_run [] 61 t (by intro i hi; simp at hi; subst hi; simpa using h) (by simp) (by decide) he
  have a1 := skipWhiteSpace_adv t ok
  unfold attrValGo
  simp only
  generalize t.skipWhiteSpace = t1 at *
  have hr1 : t1.rawE = t.rawE := by rw [hs.1]; simp
  have hh : t1.buf[t1.rawE]? = some 61 := by rw [a1.buf, hr1]; exact h
  obtain ⟨e1, e2, e3, e4⟩ := read_known hh hs.2
  have hne1 : ¬ t1.err = true := by rw [hs.2]; exact Bool.false_ne_true
  have hne2 : ¬ t1.readByte.1.err = true := by rw [e3]; exact Bool.false_ne_true
  rw [if_neg hne1, if_neg hne2]
  have hb : ¬ (t1.readByte.2 != 61) = true := by rw [e1]; simp
  rw [if_neg hb]
  have := hr t1.readByte.1 (e4.trans a1.buf) (by rw [e2, hr1]) e3 (readByte_adv a1.ok).ok
  exact ⟨by rw [this.1, e2, hr1]; omega, this.2⟩

/-- at a non-white-space byte `skip_white_space` does nothing -/
theorem skipWhiteSpace_fix {t : Tokenizer} {d : Nat} (h : t.buf[t.rawE]? = some d) (hd : isWs d = false)
    (he : t.err = false) : skipWhiteSpace t = t := by
  have hlt : t.rawE < t.buf.size := by
    rcases Nat.lt_or_ge t.rawE t.buf.size with h' | h'
    · exact h'
    · rw [Array.getElem?_eq_none h'] at h; cases h
  have hb : t.buf[t.rawE] = d := by rw [Array.getElem?_eq_getElem hlt] at h; injection h
  unfold skipWhiteSpace
  rw [if_neg (by rw [he]; exact Bool.false_ne_true), skipWsGo]
  unfold readByte
  simp only [hlt, dite_true, he, Bool.false_eq_true, dite_false, hb, hd, if_false]
  unfold unread
  simp only [show 1 ≤ t.rawE + 1 by omega, if_true, Nat.add_sub_cancel]
  cases t
  simp_all

/-- leading white space before the value is skipped by `attrValRest`'s own `skip_white_space` -/
theorem attrValRest_run_ws (w2 : Bytes) (c n : Nat) (t : Tokenizer) (ok : Ok t) (he : t.err = false)
    (h : Has t t.rawE (w2 ++ [c])) (hw : ∀ b ∈ w2, isWs b = true) (hc : isWs c = false)
    (hr : ∀ u : Tokenizer, u.buf = t.buf → u.rawE = t.rawE + w2.length → u.err = false → Ok u →
      Stops u (attrValRest u) n) : Stops t (attrValRest t) (w2.length + n) := by
  have hs := skipWhiteSpace_run w2 c t h hw hc he
  have a1 := skipWhiteSpace_adv t ok
  have hfix : skipWhiteSpace (skipWhiteSpace t) = skipWhiteSpace t :=
    skipWhiteSpace_fix (d := c) (by rw [a1.buf, hs.1]; exact h.right.head) hc hs.2
  have heq : attrValRest t = attrValRest (skipWhiteSpace t) := by
    conv => rhs; unfold attrValRest
    rw [hfix]
    unfold attrValRest
    rfl
  have := hr (skipWhiteSpace t) a1.buf hs.1 hs.2 a1.ok
  rw [heq]
  exact ⟨by rw [this.1, hs.1]; omega, this.2⟩

/-- `read_tag_name_attr_value` on `ws1 = ws2 value…`: the white space around the `=` is skipped -/
theorem attrValGo_run_val2 (w1 w2 : Bytes) (c n : Nat) (t : Tokenizer) (ok : Ok t) (he : t.err = false)
    (h : Has t t.rawE (w1 ++ [61] ++ w2 ++ [c])) (hw1 : ∀ b ∈ w1, isWs b = true) (hw2 : ∀ b ∈ w2, isWs b = true)
    (hc : isWs c = false)
    (hr : ∀ u : Tokenizer, u.buf = t.buf → u.rawE = t.rawE + (w1.length + 1 + w2.length) → u.err = false → Ok u →
      Stops u (attrValRest u) n) : Stops t (attrValGo t) (w1.length + 1 + w2.length + n) := by
  have h1 : Has t t.rawE (w1 ++ [61]) := h.left.left
  have hs := skipWhiteSpace_run w1 61 t h1 hw1 (by decide) he
  have a1 := skipWhiteSpace_adv t ok
  have hfix : skipWhiteSpace (skipWhiteSpace t) = skipWhiteSpace t :=
    skipWhiteSpace_fix (d := 61) (by rw [a1.buf, hs.1]; exact h1.right.head) (by decide) hs.2
  have heq : attrValGo t = attrValGo (skipWhiteSpace t) := by
    conv => rhs; unfold attrValGo
    rw [hfix]
    unfold attrValGo
    rfl
  rw [heq]
  have h61 : (skipWhiteSpace t).buf[(skipWhiteSpace t).rawE]? = some 61 := by rw [a1.buf, hs.1]; exact h1.right.head
  have hrest : Has t (t.rawE + (w1.length + 1)) (w2 ++ [c]) := by
    have : Has t t.rawE ((w1 ++ [61]) ++ (w2 ++ [c])) := by simpa [List.append_assoc] using h
    simpa using this.right
  have := attrValGo_run_val (skipWhiteSpace t) a1.ok hs.2 h61 (w2.length + n) (by
    intro u hb hru hu oku
    refine attrValRest_run_ws w2 c n u oku hu ((hrest.congr (hb.trans a1.buf)).at (by rw [hru, hs.1]; omega)) hw2 hc ?_
    intro u' hb' hr' hu' oku'
    exact hr u' (hb'.trans (hb.trans a1.buf)) (by rw [hr', hru, hs.1]; omega) hu' oku')
  exact ⟨by rw [this.1, hs.1]; omega, this.2⟩

/-- what follows an attribute: white space `W`, then a non-white-space byte `d` that is not `=` -/
structure Follow (W : Bytes) (d : Nat) : Prop where
  ws : ∀ b ∈ W, isWs b = true
  nws : isWs d = false
  n61 : d ≠ 61

theorem readTagAttrKey_run_stop (key : Bytes) (d : Nat) (t : Tokenizer) (h : Has t t.rawE (key ++ [d]))
    (hk : ∀ b ∈ key, keyByte b = true) (hd : d = 61 ∨ d = 62) (he : t.err = false) :
    Stops t (readTagAttrKey t) key.length :=
  attrKeyGo_run_stop key d { t with pkS := t.rawE } (h.congr rfl) hk hd he

theorem readTagAttrKey_run_eat (key : Bytes) (d : Nat) (t : Tokenizer) (h : Has t t.rawE (key ++ [d]))
    (hk : ∀ b ∈ key, keyByte b = true) (hd : isWs d = true ∨ d = 47) (he : t.err = false) :
    Stops t (readTagAttrKey t) (key.length + 1) :=
  attrKeyGo_run_eat key d { t with pkS := t.rawE } (h.congr rfl) hk hd he

theorem readTagAttrVal_run_none (W : Bytes) (d : Nat) (t : Tokenizer) (ok : Ok t) (h : Has t t.rawE (W ++ [d]))
    (f : Follow W d) (he : t.err = false) : Stops t (readTagAttrVal t) W.length :=
  attrValGo_run_none W d { t with pvS := t.rawE, pvE := t.rawE } ⟨ok.le, ok.panic, ok.hang, ok.utf8⟩ (h.congr rfl)
    f.ws f.nws f.n61 he

theorem readTagAttrVal_run_val (t : Tokenizer) (ok : Ok t) (he : t.err = false) (h : t.buf[t.rawE]? = some 61) (n : Nat)
    (hr : ∀ u : Tokenizer, u.buf = t.buf → u.rawE = t.rawE + 1 → u.err = false → Ok u → Stops u (attrValRest u) n) :
    Stops t (readTagAttrVal t) (n + 1) :=
  attrValGo_run_val { t with pvS := t.rawE, pvE := t.rawE } ⟨ok.le, ok.panic, ok.hang, ok.utf8⟩ he h n hr

theorem readTagAttrVal_run_val2 (w1 w2 : Bytes) (c n : Nat) (t : Tokenizer) (ok : Ok t) (he : t.err = false)
    (h : Has t t.rawE (w1 ++ [61] ++ w2 ++ [c])) (hw1 : ∀ b ∈ w1, isWs b = true) (hw2 : ∀ b ∈ w2, isWs b = true)
    (hc : isWs c = false)
    (hr : ∀ u : Tokenizer, u.buf = t.buf → u.rawE = t.rawE + (w1.length + 1 + w2.length) → u.err = false → Ok u →
      Stops u (attrValRest u) n) : Stops t (readTagAttrVal t) (w1.length + 1 + w2.length + n) :=
  attrValGo_run_val2 w1 w2 c n { t with pvS := t.rawE, pvE := t.rawE } ⟨ok.le, ok.panic, ok.hang, ok.utf8⟩ he
    (h.congr rfl) hw1 hw2 hc hr

/-- the value part (`readTagAttrVal`) on `ws1 = ws2 value ++ W ++ [d]`: consumes the value and, for an unquoted value, the
white space byte that stops it -/
theorem readTagAttrVal_run (val : SVal) (w1 w2 W : Bytes) (d : Nat) (t : Tokenizer) (ok : Ok t) (he : t.err = false)
    (hval : val.ok = true) (hne : val ≠ .none) (f : Follow W d) (hopen : val.open = true → W = [] → d = 62)
    (hw1 : ∀ b ∈ w1, isWs b = true) (hw2 : ∀ b ∈ w2, isWs b = true)
    (h : Has t t.rawE (w1 ++ [61] ++ w2 ++ val.body ++ W ++ [d])) :
    ∃ k, k ≤ W.length ∧ Stops t (readTagAttrVal t) (w1.length + 1 + w2.length + val.body.length + k) ∧
      ∀ b ∈ W.drop k, isWs b = true := by
  -- the text after the white space and the `=`
  have hbody : Has t (t.rawE + (w1.length + 1 + w2.length)) (val.body ++ W ++ [d]) := by
    have : Has t t.rawE ((w1 ++ [61] ++ w2) ++ (val.body ++ W ++ [d])) := by simpa [List.append_assoc] using h
    exact this.right.at (by simp only [List.length_append, List.length_cons, List.length_nil])
  have hpre : ∀ c r, val.body ++ W ++ [d] = c :: r → Has t t.rawE (w1 ++ [61] ++ w2 ++ [c]) := by
    intro c r hcr
    have : Has t t.rawE ((w1 ++ [61] ++ w2 ++ [c]) ++ r) := by
      have e : w1 ++ [61] ++ w2 ++ val.body ++ W ++ [d] = (w1 ++ [61] ++ w2 ++ [c]) ++ r := by
        have : w1 ++ [61] ++ w2 ++ val.body ++ W ++ [d] = (w1 ++ [61] ++ w2) ++ (val.body ++ W ++ [d]) := by
          simp [List.append_assoc]
        rw [this, hcr]; simp [List.append_assoc]
      rw [← e]; exact h
    exact this.left
  have at' : ∀ (u : Tokenizer) (l r : Bytes), val.body ++ W ++ [d] = l ++ r → u.buf = t.buf →
      u.rawE = t.rawE + (w1.length + 1 + w2.length) → Has u u.rawE l := by
    intro u l r hlr hb hru
    rw [hlr] at hbody
    exact (hbody.left.congr hb).at hru
  cases val with
  | none => exact absurd rfl hne
  | dq v =>
    refine ⟨0, Nat.zero_le _, ?_, fun b hb => f.ws b (by simpa using hb)⟩
    simp only [SVal.body, SVal.ok, Bool.not_eq_true'] at hval hpre at' ⊢
    have hv : ∀ b ∈ v, b ≠ 34 := by
      intro b hb e; subst e
      have : v.contains 34 = true := by simpa using hb
      rw [this] at hval; cases hval
    have := readTagAttrVal_run_val2 w1 w2 34 (v.length + 2) t ok he (hpre 34 (v ++ [34] ++ W ++ [d]) (by simp)) hw1 hw2 (by decide) (by
      intro u hb hr hu oku
      exact attrValRest_run_quoted v 34 u oku (Or.inl rfl) (at' u ([34] ++ v ++ [34]) (W ++ [d]) (by simp) hb hr) hv hu)
    exact ⟨by rw [this.1]; simp only [List.length_append, List.length_cons, List.length_nil]; omega, this.2⟩
  | sq v =>
    refine ⟨0, Nat.zero_le _, ?_, fun b hb => f.ws b (by simpa using hb)⟩
    simp only [SVal.body, SVal.ok, Bool.not_eq_true'] at hval hpre at' ⊢
    have hv : ∀ b ∈ v, b ≠ 39 := by
      intro b hb e; subst e
      have : v.contains 39 = true := by simpa using hb
      rw [this] at hval; cases hval
    have := readTagAttrVal_run_val2 w1 w2 39 (v.length + 2) t ok he (hpre 39 (v ++ [39] ++ W ++ [d]) (by simp)) hw1 hw2 (by decide) (by
      intro u hb hr hu oku
      exact attrValRest_run_quoted v 39 u oku (Or.inr rfl) (at' u ([39] ++ v ++ [39]) (W ++ [d]) (by simp) hb hr) hv hu)
    exact ⟨by rw [this.1]; simp only [List.length_append, List.length_cons, List.length_nil]; omega, this.2⟩
  | unq v =>
    cases v with
    | nil => simp [SVal.ok] at hval
    | cons c v =>
      simp only [SVal.ok, Bool.and_eq_true, bne_iff_ne, ne_eq, List.all_eq_true] at hval
      obtain ⟨⟨⟨hall, hc1⟩, hc2⟩, _⟩ := hval
      have hc : unqByte c = true := hall c (by simp)
      have hv : ∀ b ∈ v, unqByte b = true := fun b hb => hall b (by simp [hb])
      have hcws : isWs c = false := (unqByte_spec hc).1
      simp only [SVal.body] at hpre at' ⊢
      cases W with
      | nil =>
        have hd62 := hopen rfl rfl
        subst hd62
        refine ⟨0, Nat.zero_le _, ?_, by simp⟩
        have := readTagAttrVal_run_val2 w1 w2 c (v.length + 1) t ok he (hpre c (v ++ [] ++ [62]) (by simp)) hw1 hw2 hcws (by
          intro u hb hr hu oku
          exact attrValRest_run_unq_gt c v u oku (at' u (c :: v ++ [62]) [] (by simp) hb hr) hc hc1 hc2 hv hu)
        exact ⟨by rw [this.1]; simp only [List.length_append, List.length_cons, List.length_nil]; omega, this.2⟩
      | cons w W' =>
        have hw : isWs w = true := f.ws w (by simp)
        refine ⟨1, by simp, ?_, fun b hb => f.ws b (by simp at hb; simp [hb])⟩
        have := readTagAttrVal_run_val2 w1 w2 c (v.length + 2) t ok he (hpre c (v ++ (w :: W') ++ [d]) (by simp)) hw1 hw2 hcws (by
          intro u hb hr hu oku
          exact attrValRest_run_unq_ws c v w u oku (at' u (c :: v ++ [w]) (W' ++ [d]) (by simp) hb hr) hc hc1 hc2 hv hw hu)
        exact ⟨by rw [this.1]; simp only [List.length_append, List.length_cons, List.length_nil]; omega, this.2⟩

theorem SVal.text_head {val : SVal} (h : val ≠ .none) : ∃ r, val.text = 61 :: r := by
  cases val with
  | none => exact absurd rfl h
  | unq v => exact ⟨v, rfl⟩
  | dq v => exact ⟨34 :: (v ++ [34]), rfl⟩
  | sq v => exact ⟨39 :: (v ++ [39]), rfl⟩

/-- what `SAttr.ok` says -/
theorem SAttr.ok_spec {a : SAttr} (h : a.ok = true) :
    a.ws ≠ [] ∧ (∀ b ∈ a.ws, isWs b = true) ∧ a.key ≠ [] ∧ (∀ b ∈ a.key, keyByte b = true) ∧ a.val.ok = true ∧
    (∀ b ∈ a.ws1, isWs b = true) ∧ (∀ b ∈ a.ws2, isWs b = true) ∧ (a.val = .none → a.ws1 = [] ∧ a.ws2 = []) := by
  simp only [SAttr.ok, SAttr.wsOK, Bool.and_eq_true, Bool.not_eq_true', List.all_eq_true, Bool.or_eq_true, bne_iff_ne,
    ne_eq, List.isEmpty_iff] at h
  obtain ⟨⟨⟨⟨⟨h1, h2⟩, h3⟩, h4⟩, h5⟩, ⟨h6, h7⟩, h8⟩ := h
  refine ⟨by intro e; rw [e] at h1; simp at h1, h2, by intro e; rw [e] at h3; simp at h3, h4, h5, h6, h7, ?_⟩
  intro hn
  rcases h8 with h8 | h8
  · exact absurd hn h8
  · exact h8

/-- one iteration body of the attribute loop on `key ++ value part ++ W ++ [d]` -/
theorem readAttr_run (a : SAttr) (W : Bytes) (d : Nat) (t : Tokenizer) (save : Bool) (ok : Ok t)
    (he : t.err = false) (hok : a.ok = true) (f : Follow W d)
    (hopen : a.val.open = true → W = [] → d = 62)
    (h : Has t t.rawE (a.key ++ a.vtext ++ W ++ [d])) :
    Stops t (readAttr t save) (a.key.length + a.vtext.length + W.length) := by
  obtain ⟨_, _, _, hk, hval, hw1, hw2, hnone⟩ := SAttr.ok_spec hok
  -- the final `skip_white_space` (the push does not matter)
  have fin : ∀ (t2 : Tokenizer) (W' : Bytes) (m : Nat), Ok t2 → t2.buf = t.buf → t2.err = false → t2.rawE = t.rawE + m →
      (∀ b ∈ W', isWs b = true) → Has t (t.rawE + m) (W' ++ [d]) →
      Stops t ((if save && t2.pkS != t2.pkE then t2.pushPending else t2).skipWhiteSpace) (m + W'.length) := by
    intro t2 W' m ok2 hb2 he2 hr2 hW' hh
    have key : ∀ t3 : Tokenizer, t3.buf = t2.buf → t3.err = t2.err → t3.rawE = t2.rawE →
        Stops t t3.skipWhiteSpace (m + W'.length) := by
      intro t3 b3 e3 r3
      have := skipWhiteSpace_run W' d t3 ((hh.congr (b3.trans hb2)).at (by rw [r3, hr2])) hW' f.nws (by rw [e3, he2])
      exact ⟨by rw [this.1, r3, hr2]; omega, this.2⟩
    split
    · exact key _ rfl rfl rfl
    · exact key _ rfl rfl rfl
  unfold readAttr
  simp only
  have ak := readTagAttrKey_adv t ok
  by_cases hn : a.val = .none
  · rw [SAttr.vtext_none hn] at h ⊢
    simp only [List.append_nil, List.length_nil, Nat.add_zero] at h ⊢
    cases W with
    | nil =>
      have hd62 := hopen (by rw [hn]; rfl) rfl
      subst hd62
      have k := readTagAttrKey_run_stop a.key 62 t (by simpa using h) hk (Or.inr rfl) he
      generalize t.readTagAttrKey = t1 at *
      have hrest : Has t (t.rawE + a.key.length) ([] ++ [62]) := by
        simpa using Has.right (a := a.key) (b := [62]) (by simpa using h)
      have v := readTagAttrVal_run_none [] 62 t1 ak.ok ((hrest.congr ak.buf).at k.1) ⟨by simp, by decide, by decide⟩ k.2
      have av := readTagAttrVal_adv t1 ak.ok
      have := fin _ [] a.key.length av.ok (av.buf.trans ak.buf) v.2 (by rw [v.1, k.1]; simp) (by simp) hrest
      simpa using this
    | cons w W' =>
      have hw : isWs w = true := f.ws w (by simp)
      have h' : Has t t.rawE ((a.key ++ [w]) ++ (W' ++ [d])) := by simpa [List.append_assoc] using h
      have k := readTagAttrKey_run_eat a.key w t h'.left hk (Or.inl hw) he
      generalize t.readTagAttrKey = t1 at *
      have hrest : Has t (t.rawE + (a.key.length + 1)) (W' ++ [d]) := by simpa using h'.right
      have v := readTagAttrVal_run_none W' d t1 ak.ok ((hrest.congr ak.buf).at k.1)
        ⟨fun b hb => f.ws b (by simp [hb]), f.nws, f.n61⟩ k.2
      have av := readTagAttrVal_adv t1 ak.ok
      have := fin _ [] (a.key.length + 1 + W'.length) av.ok (av.buf.trans ak.buf) v.2 (by rw [v.1, k.1]; omega) (by simp)
        (by have := hrest.right; simpa [Nat.add_assoc] using this)
      exact ⟨by rw [this.1]; simp; omega, this.2⟩
  · rw [SAttr.vtext_some hn] at h ⊢
    -- the key loop stops at the `=`, or eats the first white space byte before it
    have common : ∀ (t1 : Tokenizer) (w1' : Bytes) (m : Nat), Ok t1 → t1.buf = t.buf → t1.err = false →
        t1.rawE = t.rawE + m → m + w1'.length = a.key.length + a.ws1.length → (∀ b ∈ w1', isWs b = true) →
        Has t (t.rawE + m) (w1' ++ [61] ++ a.ws2 ++ a.val.body ++ W ++ [d]) →
        Stops t ((if save && t1.readTagAttrVal.pkS != t1.readTagAttrVal.pkE then t1.readTagAttrVal.pushPending
          else t1.readTagAttrVal).skipWhiteSpace)
          (a.key.length + (a.ws1 ++ [61] ++ a.ws2 ++ a.val.body).length + W.length) := by
      intro t1 w1' m ok1 hb1 he1 hr1 hm hw1' hh
      obtain ⟨kk, hkk, v, hdrop⟩ := readTagAttrVal_run a.val w1' a.ws2 W d t1 ok1 he1 hval hn f hopen hw1' hw2
        ((hh.congr hb1).at hr1)
      have av := readTagAttrVal_adv t1 ok1
      have hrest2 : Has t (t.rawE + (m + (w1'.length + 1 + a.ws2.length + a.val.body.length + kk))) (W.drop kk ++ [d]) := by
        have e : w1' ++ [61] ++ a.ws2 ++ a.val.body ++ W ++ [d] =
            (w1' ++ [61] ++ a.ws2 ++ a.val.body ++ W.take kk) ++ (W.drop kk ++ [d]) := by
          simp only [List.append_assoc]
          rw [← List.append_assoc (W.take kk), List.take_append_drop]
        rw [e] at hh
        have := hh.right
        simp only [List.length_append, List.length_take, Nat.min_eq_left hkk, List.length_cons, List.length_nil] at this
        exact this.at (by omega)
      have := fin _ (W.drop kk) (m + (w1'.length + 1 + a.ws2.length + a.val.body.length + kk)) av.ok (av.buf.trans hb1) v.2
        (by rw [v.1, hr1]; omega) hdrop hrest2
      exact ⟨by rw [this.1]; simp only [List.length_append, List.length_cons, List.length_nil, List.length_drop]; omega, this.2⟩
    cases hws1 : a.ws1 with
    | nil =>
      rw [hws1] at h
      have h' : Has t t.rawE ((a.key ++ [61]) ++ (a.ws2 ++ a.val.body ++ W ++ [d])) := by
        simpa [List.append_assoc] using h
      have k := readTagAttrKey_run_stop a.key 61 t h'.left hk (Or.inl rfl) he
      have hrest : Has t (t.rawE + a.key.length) ([] ++ [61] ++ a.ws2 ++ a.val.body ++ W ++ [d]) := by
        have := Has.right (a := a.key) (b := [61] ++ a.ws2 ++ a.val.body ++ W ++ [d]) (by simpa [List.append_assoc] using h)
        simpa [List.append_assoc] using this
      have := common t.readTagAttrKey [] a.key.length ak.ok ak.buf k.2 k.1 (by rw [hws1]) (by simp) hrest
      rw [hws1] at this
      exact this
    | cons w w1' =>
      rw [hws1] at h
      have hw : isWs w = true := hw1 w (by rw [hws1]; simp)
      have h' : Has t t.rawE ((a.key ++ [w]) ++ (w1' ++ [61] ++ a.ws2 ++ a.val.body ++ W ++ [d])) := by
        simpa [List.append_assoc] using h
      have k := readTagAttrKey_run_eat a.key w t h'.left hk (Or.inl hw) he
      have hrest : Has t (t.rawE + (a.key.length + 1)) (w1' ++ [61] ++ a.ws2 ++ a.val.body ++ W ++ [d]) := by
        simpa using h'.right
      have := common t.readTagAttrKey w1' (a.key.length + 1) ak.ok ak.buf k.2 k.1 (by rw [hws1]; simp; omega)
        (fun b hb => hw1 b (by rw [hws1]; simp [hb])) hrest
      rw [hws1] at this
      exact this

/-! ### the attribute loop -/

/-- the end of a tag: `>` or `/>` -/
inductive TagEnd where
  | gt
  | slashGt
  deriving DecidableEq, Repr

def TagEnd.text : TagEnd → Bytes
  | .gt => [62]
  | .slashGt => [47, 62]

/-- the text the attribute loop sees at its entry (the white space before the first key already skipped) -/
def loopText : List SAttr → Bytes → TagEnd → Bytes
  | [], _, e => e.text
  | a :: rest, trail, e =>
    a.key ++ a.vtext ++
      (match rest with
       | [] => trail ++ e.text
       | b :: _ => b.ws ++ loopText rest trail e)

/-- a bare key or an unquoted value directly before `/>` would swallow the `/` -/
def endOK : List SAttr → Bytes → TagEnd → Bool
  | _, _, .gt => true
  | as, trail, .slashGt =>
    match as.getLast? with
    | some a => !a.val.open || !trail.isEmpty
    | none => true

theorem endOK_tail {a b : SAttr} {rest : List SAttr} {trail : Bytes} {e : TagEnd} (h : endOK (a :: b :: rest) trail e = true) :
    endOK (b :: rest) trail e = true := by
  cases e with
  | gt => rfl
  | slashGt => simpa [endOK, List.getLast?_cons_cons] using h

theorem loopText_head_nws (as : List SAttr) (trail : Bytes) (e : TagEnd) (hok : ∀ a ∈ as, a.ok = true) :
    ∃ c r, loopText as trail e = c :: r ∧ isWs c = false ∧ c ≠ 61 := by
  cases as with
  | nil => cases e <;> exact ⟨_, _, rfl, by decide, by decide⟩
  | cons a rest =>
    obtain ⟨_, _, hne, hk, _⟩ := SAttr.ok_spec (hok a (by simp))
    cases hkey : a.key with
    | nil => exact absurd hkey hne
    | cons c r =>
      have hc := hk c (by rw [hkey]; simp)
      simp only [keyByte, Bool.and_eq_true, Bool.not_eq_true', bne_iff_ne, ne_eq] at hc
      refine ⟨c, r ++ (a.vtext ++ (match rest with | [] => trail ++ e.text | b :: _ => b.ws ++ loopText rest trail e)), ?_,
        hc.1.1.1, hc.1.2⟩
      cases rest <;> simp [loopText, hkey, List.append_assoc]

/-- **closed form of the attribute loop of `read_tag`**: it consumes exactly the attributes and the `>` -/
theorem tagAttrsGo_run : ∀ (as : List SAttr) (trail : Bytes) (e : TagEnd) (t : Tokenizer) (save : Bool), Ok t →
    t.err = false → (∀ a ∈ as, a.ok = true) → (∀ b ∈ trail, isWs b = true) → endOK as trail e = true →
    Has t t.rawE (loopText as trail e) → Stops t (tagAttrsGo t save) (loopText as trail e).length
  | [], trail, .gt, t, save, ok, he, _, _, _, h => by
    obtain ⟨e1, e2, e3, e4⟩ := read_known (h.head) he
    rw [tagAttrsGo]
    simp only [e3, e1, beq_self_eq_true, Bool.or_true, if_true]
    exact ⟨by rw [e2]; rfl, e3⟩
  | [], trail, .slashGt, t, save, ok, he, _, _, _, h => by
    -- the `/` is read as an (empty) attribute key, then the `>` ends the loop
    obtain ⟨e1, e2, e3, e4⟩ := read_known (h.head) he
    have hne : ¬ t.readByte.1.err = true := by rw [e3]; exact Bool.false_ne_true
    have a0 := read_unread_adv ok hne
    have p := peek_run h.head he
    have hh : Has (t.readByte.1.unread 1) (t.readByte.1.unread 1).rawE ([] ++ [] ++ [47] ++ [62]) := by
      have : Has t t.rawE ([47, 62]) := h
      exact (this.congr a0.buf).at (by rw [p.1.1]; simp)
    -- the key loop eats the `/`
    have hkey := readTagAttrKey_run_eat [] 47 (t.readByte.1.unread 1) (by simpa using hh.left) (by simp) (Or.inr rfl) p.1.2
    have ak := readTagAttrKey_adv _ a0.ok
    have hv := readTagAttrVal_run_none [] 62 (t.readByte.1.unread 1).readTagAttrKey ak.ok
      (by have := (hh.right).congr ak.buf; exact this.at (by rw [hkey.1]; simp)) ⟨by simp, by decide, by decide⟩ hkey.2
    have av := readTagAttrVal_adv _ ak.ok
    have hra : Stops (t.readByte.1.unread 1) ((t.readByte.1.unread 1).readAttr save) 1 := by
      unfold readAttr
      simp only
      have key : ∀ t3 : Tokenizer, t3.buf = (t.readByte.1.unread 1).readTagAttrKey.readTagAttrVal.buf →
          t3.err = (t.readByte.1.unread 1).readTagAttrKey.readTagAttrVal.err →
          t3.rawE = (t.readByte.1.unread 1).readTagAttrKey.readTagAttrVal.rawE →
          Stops (t.readByte.1.unread 1) t3.skipWhiteSpace 1 := by
        intro t3 b3 e3' r3
        have := skipWhiteSpace_run [] 62 t3 (by
          have := (hh.right).congr (b3.trans (av.buf.trans ak.buf))
          exact this.at (by rw [r3, hv.1, hkey.1]; simp)) (by simp) (by decide) (by rw [e3', hv.2])
        exact ⟨by rw [this.1, r3, hv.1, hkey.1]; simp, this.2⟩
      split
      · exact key _ rfl rfl rfl
      · exact key _ rfl rfl rfl
    have a1 := readAttr_adv (t.readByte.1.unread 1) save a0.ok
    rw [tagAttrsGo]
    have hc : ¬ (t.readByte.1.err || t.readByte.2 == 62) = true := by rw [e3, e1]; decide
    rw [if_neg hc]
    simp only
    have hne1 : ¬ ((t.readByte.1.unread 1).readAttr save).err = true := by rw [hra.2]; exact Bool.false_ne_true
    rw [if_neg hne1]
    have hprog : ((t.readByte.1.unread 1).readAttr save).buf.size - ((t.readByte.1.unread 1).readAttr save).rawE <
        t.buf.size - t.rawE := by
      have := a1.ok.le
      rw [(a0.trans a1).buf] at this ⊢
      rw [hra.1, p.1.1] at this ⊢
      omega
    rw [dif_pos hprog]
    -- the next iteration reads the `>`
    have h2 : ((t.readByte.1.unread 1).readAttr save).buf[((t.readByte.1.unread 1).readAttr save).rawE]? = some 62 := by
      rw [(a0.trans a1).buf, hra.1, p.1.1]
      have := (Has.tail (a := 47) (l := [62]) h).head
      simpa using this
    obtain ⟨f1, f2, f3, f4⟩ := read_known h2 hra.2
    rw [tagAttrsGo]
    simp only [f3, f1, beq_self_eq_true, Bool.or_true, if_true]
    exact ⟨by rw [f2, hra.1, p.1.1]; rfl, f3⟩
  | a :: rest, trail, e, t, save, ok, he, hok, htr, hend, h => by
    have ha := hok a (by simp)
    obtain ⟨_, _, hkne, hk, hval, _, _, _⟩ := SAttr.ok_spec ha
    -- the separator W and the following byte d
    obtain ⟨W, L, hW, hLT, hlen, hcont⟩ : ∃ (W L : Bytes), (∀ b ∈ W, isWs b = true) ∧
        loopText (a :: rest) trail e = a.key ++ a.vtext ++ W ++ L ∧
        (loopText (a :: rest) trail e).length = a.key.length + a.vtext.length + W.length + L.length ∧
        ((rest = [] ∧ W = trail ∧ L = e.text) ∨
         (∃ b rest', rest = b :: rest' ∧ W = b.ws ∧ L = loopText rest trail e)) := by
      cases rest with
      | nil => exact ⟨trail, e.text, htr, by simp [loopText, List.append_assoc], by simp [loopText]; omega, Or.inl ⟨rfl, rfl, rfl⟩⟩
      | cons b rest' =>
        have hb := SAttr.ok_spec (hok b (by simp))
        exact ⟨b.ws, loopText (b :: rest') trail e, hb.2.1, by simp [loopText, List.append_assoc],
          by simp [loopText]; omega, Or.inr ⟨b, rest', rfl, rfl, rfl⟩⟩
    -- L starts with a non-white-space byte that is not `=`
    obtain ⟨d, L', hL, hdws, hd61⟩ : ∃ d L', L = d :: L' ∧ isWs d = false ∧ d ≠ 61 := by
      rcases hcont with ⟨_, _, rfl⟩ | ⟨b, rest', hr, _, rfl⟩
      · cases e <;> exact ⟨_, _, rfl, by decide, by decide⟩
      · exact loopText_head_nws rest trail e (fun x hx => hok x (by simp [hx]))
    have hopen : a.val.open = true → W = [] → d = 62 := by
      intro ho hw
      rcases hcont with ⟨hr, hWt, hLe⟩ | ⟨b, rest', hr, hWb, _⟩
      · subst hr
        cases e with
        | gt => simp only [TagEnd.text] at hLe; rw [hLe] at hL; injection hL with h1 _; exact h1.symm
        | slashGt =>
          exfalso
          simp only [endOK, List.getLast?_singleton, Bool.or_eq_true, Bool.not_eq_true'] at hend
          rcases hend with h1 | h1
          · rw [ho] at h1; cases h1
          · rw [← hWt, hw] at h1; simp at h1
      · exfalso
        have hb := SAttr.ok_spec (hok b (by rw [hr]; simp))
        exact hb.1 (by rw [← hWb, hw])
    -- first byte of the key: the loop's look-ahead
    cases hkey : a.key with
    | nil => exact absurd hkey hkne
    | cons c kr =>
      have hc := hk c (by rw [hkey]; simp)
      have hc62 : c ≠ 62 := by
        simp only [keyByte, Bool.and_eq_true, Bool.not_eq_true', bne_iff_ne, ne_eq] at hc; exact hc.2
      have hhead : t.buf[t.rawE]? = some c := by
        have : Has t t.rawE (c :: (kr ++ a.vtext ++ W ++ L)) := by
          rw [hLT, hkey] at h; simpa [List.append_assoc] using h
        exact this.head
      obtain ⟨e1, e2, e3, e4⟩ := read_known hhead he
      have hne : ¬ t.readByte.1.err = true := by rw [e3]; exact Bool.false_ne_true
      have a0 := read_unread_adv ok hne
      have p := peek_run hhead he
      have hit : Has (t.readByte.1.unread 1) (t.readByte.1.unread 1).rawE (a.key ++ a.vtext ++ W ++ [d]) := by
        have h1 : Has t t.rawE ((a.key ++ a.vtext ++ W ++ [d]) ++ L') := by
          rw [hLT, hL] at h; simpa [List.append_assoc] using h
        exact (h1.left.congr a0.buf).at (by rw [p.1.1]; simp)
      have hra := readAttr_run a W d (t.readByte.1.unread 1) save a0.ok p.1.2 ha ⟨hW, hdws, hd61⟩ hopen hit
      have a1 := readAttr_adv (t.readByte.1.unread 1) save a0.ok
      rw [tagAttrsGo]
      have hcnd : ¬ (t.readByte.1.err || t.readByte.2 == 62) = true := by
        rw [e3, e1]; simpa using hc62
      rw [if_neg hcnd]
      simp only
      have hne1 : ¬ ((t.readByte.1.unread 1).readAttr save).err = true := by rw [hra.2]; exact Bool.false_ne_true
      rw [if_neg hne1]
      have hklen : 0 < a.key.length := by rw [hkey]; simp
      have hprog : ((t.readByte.1.unread 1).readAttr save).buf.size - ((t.readByte.1.unread 1).readAttr save).rawE <
          t.buf.size - t.rawE := by
        have := a1.ok.le
        rw [(a0.trans a1).buf] at this ⊢
        rw [hra.1, p.1.1] at this ⊢
        omega
      rw [dif_pos hprog]
      -- the rest of the loop
      have hrawE : ((t.readByte.1.unread 1).readAttr save).rawE =
          t.rawE + (a.key.length + a.vtext.length + W.length) := by rw [hra.1, p.1.1]; omega
      have hLhas : Has ((t.readByte.1.unread 1).readAttr save) ((t.readByte.1.unread 1).readAttr save).rawE L := by
        have h1 : Has t t.rawE ((a.key ++ a.vtext ++ W) ++ L) := by rw [hLT] at h; exact h
        have := h1.right
        simp only [List.length_append] at this
        exact (this.congr (a0.trans a1).buf).at hrawE
      have hLrest : L = loopText rest trail e := by
        rcases hcont with ⟨hr, _, hLe⟩ | ⟨b, rest', hr, _, hLl⟩
        · rw [hr, hLe]; rfl
        · exact hLl
      have hendr : endOK rest trail e = true := by
        rcases hcont with ⟨hr, _, _⟩ | ⟨b, rest', hr, _, _⟩
        · rw [hr]; cases e <;> rfl
        · rw [hr] at hend ⊢; exact endOK_tail hend
      have ih := tagAttrsGo_run rest trail e ((t.readByte.1.unread 1).readAttr save) save a1.ok hra.2
        (fun x hx => hok x (by simp [hx])) htr hendr (by rw [← hLrest]; exact hLhas)
      exact ⟨by rw [ih.1, hrawE, hlen, hLrest]; omega, ih.2⟩

/-! ### `read_tag` -/

theorem attrsOf_loopText (a : SAttr) (rest : List SAttr) (trail : Bytes) (e : TagEnd) :
    attrsOf (a :: rest) ++ trail ++ e.text = a.ws ++ loopText (a :: rest) trail e := by
  induction rest generalizing a with
  | nil => simp [attrsOf, SAttr.text, loopText, List.append_assoc]
  | cons b rest ih =>
    have := ih b
    simp only [attrsOf, SAttr.text, loopText, List.append_assoc] at this ⊢
    rw [this]

/-- a byte of a tag name of the `Simple` grammar -/
def isAlnum (b : Nat) : Bool := isAlpha b || (48 ≤ b && b ≤ 57)

theorem nameByte_of_alnum {b : Nat} (h : isAlnum b = true) : nameByte b = true := by
  simp only [isAlnum, isAlpha, Bool.or_eq_true, Bool.and_eq_true, decide_eq_true_eq] at h
  simp only [nameByte, isWs, Bool.and_eq_true, Bool.not_eq_true', Bool.or_eq_false_iff, beq_eq_false_iff_ne, bne_iff_ne, ne_eq]
  omega

/-- **closed form of `read_tag`**: called right after the first letter of the name, on
`rest of the name ++ attributes ++ trailing white space ++ (">" | "/>")`, it stops right after the `>`; the data span is
the name -/
theorem readTag_run (nm : Bytes) (as : List SAttr) (trail : Bytes) (e : TagEnd) (t : Tokenizer) (save : Bool)
    (ok : Ok t) (h1 : 1 ≤ t.rawE) (he : t.err = false) (hnm : ∀ b ∈ nm, nameByte b = true)
    (hok : ∀ a ∈ as, a.ok = true) (htr : ∀ b ∈ trail, isWs b = true) (hend : endOK as trail e = true)
    (h : Has t t.rawE (nm ++ (attrsOf as ++ trail ++ e.text))) :
    Stops t (readTag t save) (nm.length + (attrsOf as ++ trail ++ e.text).length) ∧
    (readTag t save).dataS = t.rawE - 1 ∧ (readTag t save).dataE = t.rawE + nm.length := by
  have sp := readTag_spec t save ok h1
  refine ⟨?_, sp.1, ?_⟩ <;>
  · unfold readTag
    simp only
    have h0 : Adv t { t with attrs := #[], nAttrRet := 0 } := (Adv.refl ok).congr (by simp [core])
    have a1 := readTagName_adv _ h0.ok h1
    unfold readTagName at a1 ⊢
    have hne : ¬ t.rawE = 0 := by omega
    simp only [hne, if_false] at a1 ⊢
    have h00 : Adv t { t with attrs := #[], nAttrRet := 0, dataS := t.rawE - 1 } := (Adv.refl ok).congr (by simp [core])
    have d := tagNameGo_data { t with attrs := #[], nAttrRet := 0, dataS := t.rawE - 1 } h00.ok
    -- the three shapes of what follows the name
    have key : ∃ (k : Nat) (as' : List SAttr) (W : Bytes) (c : Nat),
        Stops t (tagNameGo { t with attrs := #[], nAttrRet := 0, dataS := t.rawE - 1 }) (nm.length + k) ∧
        (tagNameGo { t with attrs := #[], nAttrRet := 0, dataS := t.rawE - 1 }).dataE = t.rawE + nm.length ∧
        (∀ b ∈ W, isWs b = true) ∧ isWs c = false ∧
        (∃ r, loopText as' trail e = c :: r) ∧ (∀ a ∈ as', a.ok = true) ∧ endOK as' trail e = true ∧
        (attrsOf as ++ trail ++ e.text).length = k + W.length + (loopText as' trail e).length ∧
        Has t (t.rawE + nm.length + k) (W ++ loopText as' trail e) := by
      cases as with
      | nil =>
        cases trail with
        | nil =>
          have hd : (e.text.head?.getD 0 = 47 ∨ e.text.head?.getD 0 = 62) := by cases e <;> simp [TagEnd.text]
          obtain ⟨dd, rr, hdd⟩ : ∃ dd rr, e.text = dd :: rr := by cases e <;> exact ⟨_, _, rfl⟩
          have hdd' : dd = 47 ∨ dd = 62 := by rw [hdd] at hd; simpa using hd
          have hh : Has t t.rawE ((nm ++ [dd]) ++ rr) := by
            simp only [attrsOf, List.nil_append, List.append_nil, hdd] at h; simpa [List.append_assoc] using h
          have r := tagNameGo_run_end nm dd { t with attrs := #[], nAttrRet := 0, dataS := t.rawE - 1 }
            (hh.left.congr rfl) hnm hdd' he
          refine ⟨0, [], [], dd, r.1, r.2, by simp, by rcases hdd' with rfl | rfl <;> decide, ⟨rr, by simp [loopText, hdd]⟩,
            by simp, by cases e <;> rfl, by simp [attrsOf, loopText], ?_⟩
          have := Has.right (a := nm) (b := e.text) (by simpa [attrsOf] using h)
          simpa [loopText] using this
        | cons w tr =>
          have hw : isWs w = true := htr w (by simp)
          have hh : Has t t.rawE ((nm ++ [w]) ++ (tr ++ e.text)) := by
            simp only [attrsOf, List.nil_append] at h; simpa [List.append_assoc] using h
          have r := tagNameGo_run_ws nm w { t with attrs := #[], nAttrRet := 0, dataS := t.rawE - 1 }
            (hh.left.congr rfl) hnm hw he
          obtain ⟨dd, rr, hdd⟩ : ∃ dd rr, e.text = dd :: rr := by cases e <;> exact ⟨_, _, rfl⟩
          refine ⟨1, [], tr, dd, r.1, r.2, fun b hb => htr b (by simp [hb]), by cases e <;> simp [TagEnd.text] at hdd <;>
            (obtain ⟨rfl, _⟩ := hdd; decide), ⟨rr, by simp [loopText, hdd]⟩, by simp, by cases e <;> rfl,
            by simp [attrsOf, loopText]; omega, ?_⟩
          have := hh.right
          simp only [List.length_append, List.length_singleton] at this
          simpa [loopText, Nat.add_assoc] using this
      | cons a rest =>
        obtain ⟨hwne, hws, _⟩ := SAttr.ok_spec (hok a (by simp))
        cases hwse : a.ws with
        | nil => exact absurd hwse hwne
        | cons w wr =>
          have hw : isWs w = true := hws w (by rw [hwse]; simp)
          have e1 : attrsOf (a :: rest) ++ trail ++ e.text = (w :: wr) ++ loopText (a :: rest) trail e := by
            rw [attrsOf_loopText, hwse]
          have hh : Has t t.rawE ((nm ++ [w]) ++ (wr ++ loopText (a :: rest) trail e)) := by
            rw [e1] at h; simpa [List.append_assoc] using h
          have r := tagNameGo_run_ws nm w { t with attrs := #[], nAttrRet := 0, dataS := t.rawE - 1 }
            (hh.left.congr rfl) hnm hw he
          obtain ⟨c, rr, hc, hcws, _⟩ := loopText_head_nws (a :: rest) trail e hok
          refine ⟨1, a :: rest, wr, c, r.1, r.2, fun b hb => hws b (by rw [hwse]; simp [hb]), hcws, ⟨rr, hc⟩, hok, hend,
            by rw [e1]; simp; omega, ?_⟩
          have := hh.right
          simp only [List.length_append, List.length_singleton] at this
          simpa [Nat.add_assoc] using this
    obtain ⟨k, as', W, c, k1, k2, kW, kc, ⟨rr, kl⟩, kok, kend, klen, khas⟩ := key
    generalize ({ t with attrs := #[], nAttrRet := 0, dataS := t.rawE - 1 } : Tokenizer).tagNameGo = t1 at *
    have hsw : Has t1 t1.rawE (W ++ [c]) := by
      have h2 : Has t (t.rawE + nm.length + k) ((W ++ [c]) ++ rr) := by rw [kl] at khas; simpa [List.append_assoc] using khas
      exact (h2.left.congr a1.buf).at (by rw [k1.1]; omega)
    have s2 := skipWhiteSpace_run W c t1 hsw kW kc k1.2
    have a2 := skipWhiteSpace_adv _ a1.ok
    have f2 := skipWhiteSpace_frame t1
    generalize t1.skipWhiteSpace = t2 at *
    have hne2 : ¬ t2.err = true := by rw [s2.2]; exact Bool.false_ne_true
    rw [if_neg hne2]
    have hl : Has t2 t2.rawE (loopText as' trail e) := by
      have := khas.right
      exact (this.congr (a1.trans a2).buf).at (by rw [s2.1, k1.1]; omega)
    have run := tagAttrsGo_run as' trail e t2 save a2.ok s2.2 kok htr kend hl
    have hao : AttrsOk t2 := by
      intro a hmem; rw [f2.2.2.1, d.2.2.2.1] at hmem; simp at hmem
    have s3 := tagAttrsGo_spec t2 save a2.ok hao
    first
      | exact ⟨by rw [run.1, s2.1, k1.1, klen]; omega, run.2⟩
      | (rw [s3.2.2.1, f2.2.1, k2])

end Tokenizer
end Rio.Html
