/-
Router proofs, part 9: the association-list representation of a regex tree used by the router
model satisfies `TreeSpec` (so the assumed laws are consistent), for every pattern matcher.
-/
import RioModel.Proofs.RouterPath

set_option linter.unusedSimpArgs false
set_option linter.unusedVariables false

namespace Rio.Router

theorem alookup_filterMap_val {K V : Type} [DecidableEq K] (g : K → V → Option V) (t : List (K × V))
    (hn : (akeys t).Nodup) (k : K) :
    alookup k (t.filterMap (fun e => (g e.1 e.2).map (fun v => (e.1, v)))) = (alookup k t).bind (g k) := by
  induction t with
  | nil => simp
  | cons a t ih =>
    obtain ⟨ka, va⟩ := a
    simp only [akeys_cons, List.nodup_cons] at hn
    have ih := ih hn.2
    simp only [List.filterMap_cons, alookup_cons]
    by_cases e : ka = k
    · subst e
      have hnone : alookup ka t = none := (alookup_eq_none_iff _ _).2 hn.1
      cases hg : g ka va with
      | none => simp [hg, ih, hnone]
      | some v => simp [hg, alookup_cons]
    · cases hg : g ka va with
      | none => simp [hg, ih, e]
      | some v => simp [hg, alookup_cons, e, ih]

theorem akeys_filterMap_val_sublist {K V : Type} (g : K → V → Option V) (t : List (K × V)) :
    (akeys (t.filterMap (fun e => (g e.1 e.2).map (fun v => (e.1, v))))).Sublist (akeys t) := by
  induction t with
  | nil => simp
  | cons a t ih =>
    obtain ⟨ka, va⟩ := a
    simp only [List.filterMap_cons]
    cases hg : g ka va with
    | none => simp only [hg, Option.map_none, akeys_cons]; exact ih.cons _
    | some v => simp only [hg, Option.map_some, akeys_cons]; exact ih.cons_cons _

/-- The specification-level tree of the router model: the list of its entries. -/
def listTree (V : Type) (pmatch : Pat → String → Bool) : TreeSpec (List ((Pat × String) × V)) V where
  entries := id
  pmatch := pmatch
  empty := []
  insert := fun p id v t => aupsert (fun _ => v) v (p, id) t
  find := fun t h => (t.filter (fun e => pmatch e.1.1 h)).map Prod.snd
  get := fun t p id => alookup (p, id) t
  retain := fun f t => t.filterMap (fun e => (f e.1.2 e.2).map (fun v => (e.1, v)))
  isEmpty := List.isEmpty
  entries_empty := rfl
  entries_insert := by
    intro t p i v hn
    refine ⟨akeys_aupsert_nodup _ _ _ _ hn, ?_⟩
    intro k
    show alookup k (aupsert (fun _ => v) v (p, i) t) = _
    rw [alookup_aupsert]
    rfl
  find_spec := by
    intro t h v
    simp only [id, List.mem_map, List.mem_filter]
    constructor
    · rintro ⟨e, ⟨he, hm⟩, hv⟩; exact ⟨e, he, hm, hv⟩
    · rintro ⟨e, he, hm, hv⟩; exact ⟨e, ⟨he, hm⟩, hv⟩
  get_spec := by intro t p i; rfl
  retain_spec := by
    intro t f k hn
    simp only [id] at hn ⊢
    exact ⟨(akeys_filterMap_val_sublist (fun k v => f k.2 v) t).nodup hn,
      alookup_filterMap_val (fun k v => f k.2 v) t hn k⟩
  isEmpty_spec := by intro t; rfl

end Rio.Router
