/-
W18 — helper lemmas for `translated chain driver = hand-written model` (Props/C04gen3.lean, Props/C14gen.lean).

The translated definitions (`Rio.Consts.genChain*`, generated from src/filter/filter_body.rs by tools/consts_dev/w18_chain.py) take
the stage calls as parameters; here they are instantiated with the model's stages (`Stage.filter`, `Stage.end`, the html held
bytes `endHtml`, `Stage.new`, the codec constructors) and each loop / function is shown equal to its model counterpart.
-/
import RioModel.Model.Filter
import RioModel.Generated.Consts
set_option linter.unusedSimpArgs false
set_option linter.unusedVariables false

namespace Rio.Filter
open Rio.Consts

section
variable (tk : Tokenize) (ev : Bytes → Bytes → Bool) {D E : Type} (codec : Codec D E)

/-- `item.filter(data, unit_trace)` of the model's stages as the translated code sees it: the stage afterwards and `Ok` / `Err`
(a failing stage keeps its state, as in `Stage.filter`) -/
def genItemFilter (st : Stage D E) (data : Bytes) : Stage D E × Except Unit Bytes :=
  match st.filter tk ev codec data with
  | none => (st, .error ())
  | some (st', o) => (st', .ok o)

/-- `item.end()` of the model's stages -/
def genItemEnd (st : Stage D E) : Stage D E × Except Unit Bytes :=
  match st.end codec with
  | none => (st, .error ())
  | some (st', o) => (st', .ok o)

/-- `if let FilterBodyActionItem::Html(h) = item { .. h.end() .. }` on the model's stages (`endHtml` only reads) -/
def genHeldHtml : Stage D E → Option (Stage D E × Bytes)
  | .html s => some (.html s, endHtml s)
  | _ => none

/-- what one stage gives back on the failure path -/
def heldOf : Stage D E → Bytes
  | .html s => endHtml s
  | _ => []

/-- `Option` result of the model ↦ `Result` of the translated code -/
def optRes : Option Bytes → Except Unit Bytes
  | none => .error ()
  | some o => .ok o

theorem flushHtml_eq (items : List (Stage D E)) : flushHtml items = items.reverse.flatMap heldOf := by
  unfold flushHtml
  congr 1

/-! ### `do_filter` -/

theorem doFilterLoop_eq : ∀ (items : List (Stage D E)) (data : Bytes),
    genChainDoFilterLoop1 (genItemFilter tk ev codec) items data =
      ((doFilter tk ev codec items data).1,
        match (doFilter tk ev codec items data).2 with
        | none => .error (.error ())
        | some o => .ok o)
  | [], data => by simp [genChainDoFilterLoop1, doFilter]
  | st :: rest, data => by
    rw [genChainDoFilterLoop1, doFilter]
    simp only [genItemFilter]
    cases hf : st.filter tk ev codec data with
    | none => simp
    | some p =>
      obtain ⟨st', out⟩ := p
      simp only
      by_cases he : out.isEmpty = true
      · simp [he]
      · simp only [he, Bool.false_eq_true, if_false]
        rw [doFilterLoop_eq rest out]

theorem doFilter_gen_eq (items : List (Stage D E)) (data : Bytes) :
    genChainDoFilter (genItemFilter tk ev codec) items data =
      ((doFilter tk ev codec items data).1, optRes (doFilter tk ev codec items data).2) := by
  unfold genChainDoFilter
  rw [doFilterLoop_eq]
  cases h : (doFilter tk ev codec items data).2 <;> simp [optRes]

/-! ### the give-back loops -/

theorem filterGiveBack_eq : ∀ (xs : List (Stage D E)) (p : Bytes),
    genChainFilterLoop1 genHeldHtml xs p = (xs, p ++ xs.flatMap heldOf)
  | [], p => by simp [genChainFilterLoop1]
  | st :: rest, p => by
    rw [genChainFilterLoop1]
    cases st <;> simp [genHeldHtml, heldOf, filterGiveBack_eq rest]

theorem doEndGiveBack_eq : ∀ (xs : List (Stage D E)) (p : Bytes),
    genChainDoEndLoop2 genHeldHtml xs p = (xs, p ++ xs.flatMap heldOf)
  | [], p => by simp [genChainDoEndLoop2]
  | st :: rest, p => by
    rw [genChainDoEndLoop2]
    cases st <;> simp [genHeldHtml, heldOf, doEndGiveBack_eq rest]

/-! ### `filter` -/

theorem filter_gen_eq (c : Chain D E) (data : Bytes) :
    genChainFilter (genItemFilter tk ev codec) genHeldHtml c.items c.inError data =
      (((c.filter tk ev codec data).1.items, (c.filter tk ev codec data).1.inError), (c.filter tk ev codec data).2) := by
  unfold genChainFilter Chain.filter
  cases hi : c.inError with
  | true => simp [hi]
  | false =>
    simp only [Bool.false_eq_true, if_false]
    rw [doFilter_gen_eq]
    cases hd : doFilter tk ev codec c.items data with
    | mk items' r =>
      cases r with
      | some out => simp [optRes, hi]
      | none => simp [optRes, filterGiveBack_eq, flushHtml_eq]

/-! ### `do_end` -/

theorem getElem?_mid {α : Type} (pre : List α) (a : α) (rest : List α) : (pre ++ a :: rest)[pre.length]? = some a := by
  simp

theorem set_mid {α : Type} (pre : List α) (a x : α) (rest : List α) : (pre ++ a :: rest).set pre.length x = pre ++ x :: rest := by
  induction pre with
  | nil => rfl
  | cons b pre ih => simp [ih]

theorem drop_mid {α : Type} (pre l : List α) : (pre ++ l).drop pre.length = l := by simp
theorem take_mid {α : Type} (pre l : List α) : (pre ++ l).take pre.length = pre := by simp

/-- the result of the model's `doEnd` on the stages from `index` on, as the translated loop returns it (`pre` = the stages before) -/
def doEndRes (pre : List (Stage D E)) (r : List (Stage D E) × Except Bytes (Option Bytes)) :
    Except (List (Stage D E) × Except (Unit × Bytes) Bytes) (Option Bytes × List (Stage D E)) :=
  match r with
  | (suf', .ok d) => .ok (d, pre ++ suf')
  | (suf', .error p) => .error (pre ++ suf', .error ((), p))

theorem doEndLoop_eq : ∀ (suf pre : List (Stage D E)) (data : Option Bytes),
    genChainDoEndLoop1 (genItemFilter tk ev codec) (genItemEnd codec) genHeldHtml
        (List.range' pre.length suf.length) data (pre ++ suf) =
      some (doEndRes pre (doEnd tk ev codec suf data))
  | [], pre, data => by simp [genChainDoEndLoop1, doEnd, doEndRes]
  | st :: rest, pre, data => by
    have ih := fun st' d => doEndLoop_eq rest (pre ++ [st']) d
    simp only [List.length_append, List.length_cons, List.length_nil, List.append_assoc, List.cons_append,
      List.nil_append, Nat.zero_add] at ih
    have unf : genChainDoEndLoop1 (genItemFilter tk ev codec) (genItemEnd codec) genHeldHtml
        (List.range' pre.length (st :: rest).length) data (pre ++ st :: rest) =
        genChainDoEndLoop1 (genItemFilter tk ev codec) (genItemEnd codec) genHeldHtml
        (pre.length :: List.range' (pre.length + 1) rest.length) data (pre ++ st :: rest) := by
      rw [List.length_cons, List.range'_succ]
    rw [unf]
    clear unf
    cases data with
    | none =>
      cases he : st.end codec with
      | none =>
        rw [genChainDoEndLoop1, doEnd]
        simp [getElem?_mid, Stage.endWith, genItemEnd, he, set_mid, drop_mid, take_mid, doEndGiveBack_eq, flushHtml_eq, doEndRes]
      | some p =>
        obtain ⟨st', o⟩ := p
        rw [genChainDoEndLoop1, doEnd]
        simp only [getElem?_mid, Stage.endWith, genItemEnd, he, set_mid]
        rw [ih]
        cases hr : doEnd tk ev codec rest (if o.isEmpty = true then none else some o) with
        | mk rest' r => cases r <;> simp [doEndRes]
    | some str =>
      cases hf : st.filter tk ev codec str with
      | none =>
        rw [genChainDoEndLoop1, doEnd]
        simp [getElem?_mid, Stage.endWith, genItemFilter, hf, set_mid, drop_mid, take_mid, doEndGiveBack_eq, flushHtml_eq, doEndRes]
      | some p =>
        obtain ⟨st1, o1⟩ := p
        cases he : st1.end codec with
        | none =>
          rw [genChainDoEndLoop1, doEnd]
          simp [getElem?_mid, Stage.endWith, genItemFilter, genItemEnd, hf, he, set_mid, drop_mid, take_mid, doEndGiveBack_eq, flushHtml_eq, doEndRes]
        | some q =>
          obtain ⟨st2, o2⟩ := q
          rw [genChainDoEndLoop1, doEnd]
          simp only [getElem?_mid, Stage.endWith, genItemFilter, genItemEnd, hf, he, set_mid]
          rw [ih]
          cases hr : doEnd tk ev codec rest (if (o1 ++ o2).isEmpty = true then none else some (o1 ++ o2)) with
          | mk rest' r => cases r <;> simp [doEndRes]

theorem doEnd_gen_eq (items : List (Stage D E)) :
    genChainDoEnd (genItemFilter tk ev codec) (genItemEnd codec) genHeldHtml items =
      some ((doEnd tk ev codec items none).1,
        match (doEnd tk ev codec items none).2 with
        | .ok d => .ok (d.getD [])
        | .error p => .error ((), p)) := by
  unfold genChainDoEnd
  have h := doEndLoop_eq tk ev codec items [] none
  simp only [List.length_nil, List.nil_append] at h
  simp only [List.range_eq_range', h]
  cases hr : doEnd tk ev codec items none with
  | mk items' r => cases r <;> simp [doEndRes]

/-! ### `end` -/

theorem end_gen_eq (c : Chain D E) :
    genChainEnd (genItemFilter tk ev codec) (genItemEnd codec) genHeldHtml c.items c.inError =
      some (((c.end tk ev codec).1.items, (c.end tk ev codec).1.inError), (c.end tk ev codec).2) := by
  unfold genChainEnd Chain.end
  cases hi : c.inError with
  | true => simp [hi]
  | false =>
    simp only [Bool.false_eq_true, if_false]
    rw [doEnd_gen_eq]
    cases hd : doEnd tk ev codec c.items none with
    | mk items' r => cases r <;> simp [hi]

end
/-! ### `new` -/

/-- `get_encoding_filters` as the model has it: the supported list (regenerated from the source) and the codec's constructor -/
def genEncFilters {D E : Type} (codec : Codec D E) (enc : String) : Option (D × E) :=
  if filterSupportedEncodings.contains enc then some (codec.create enc) else none

theorem newLoop1_eq (lower : String → String) : ∀ (headers : List (String × String)) (ct ce : Option String),
    genChainNewLoop1 lower headers ct ce =
      (headers.foldl (fun acc h => if lower h.1 = filterHeaderContentType then some (lower h.2) else acc) ct,
       headers.foldl (fun acc h => if lower h.1 = filterHeaderContentEncoding then some (lower h.2) else acc) ce)
  | [], ct, ce => by simp [genChainNewLoop1]
  | h :: hs, ct, ce => by
    rw [genChainNewLoop1]
    rw [newLoop1_eq lower hs]
    by_cases h1 : lower h.1 = "content-type" <;> by_cases h2 : lower h.1 = "content-encoding" <;>
      simp [h1, h2, List.foldl_cons, filterHeaderContentType, filterHeaderContentEncoding]

theorem newLoop2_eq {D E : Type} (ct : Option String) : ∀ (fs : List BodyFilter) (acc : List (Stage D E)),
    genChainNewLoop2 (fun f c => (Stage.new f c : Option (Stage D E))) fs acc ct = acc ++ fs.filterMap fun f => Stage.new f ct
  | [], acc => by simp [genChainNewLoop2]
  | f :: fs, acc => by
    rw [genChainNewLoop2]
    cases h : (Stage.new f ct : Option (Stage D E)) with
    | none => simp [h, newLoop2_eq ct fs]
    | some st => simp [h, newLoop2_eq ct fs]

theorem new_gen_eq {D E : Type} (codec : Codec D E) (lower : String → String) (fs : List BodyFilter)
    (headers : List (String × String)) :
    genChainNew lower (fun f c => (Stage.new f c : Option (Stage D E))) (genEncFilters codec) Stage.decode Stage.encode fs headers =
      ((Chain.new codec lower fs headers).items, (Chain.new codec lower fs headers).inError) := by
  unfold genChainNew Chain.new
  simp only [newLoop1_eq, newLoop2_eq, headerValue, List.nil_append]
  split
  · simp_all
  · rename_i hne
    simp only [hne]
    split
    · rename_i enc henc
      simp only [henc, genEncFilters]
      by_cases hs : enc ∈ filterSupportedEncodings
      · simp [hs]
      · simp [hs]
    · rename_i henc
      simp [henc]

end Rio.Filter
