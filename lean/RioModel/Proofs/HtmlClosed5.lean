/-
Closed forms, part 5: the ATTRIBUTE SPANS of a start tag of the `Simple` grammar (`attrs_closed_form`): the saved spans are
exactly the keys and the values (without quotes) of the attributes, in order, so `tag_attr()` returns the keys lower-cased
and the values verbatim.  Span-tracking versions of the run lemmas of HtmlClosed.lean.
-/
import RioModel.Proofs.HtmlClosed4
set_option linter.unusedSimpArgs false
set_option linter.unusedVariables false

namespace Rio.Html
namespace Tokenizer
open Rio.Consts

/-! ### the key span -/

theorem attrKeyGo_span_stop : ∀ (key : Bytes) (d : Nat) (t : Tokenizer), Has t t.rawE (key ++ [d]) →
    (∀ b ∈ key, keyByte b = true) → (d = 61 ∨ d = 62) → t.err = false → (attrKeyGo t).pkE = t.rawE + key.length
  | [], d, t, h, _, hd, he => by
    obtain ⟨e1, e2, e3, e4⟩ := read_known h.head he
    have h1 : (isWs d || d == 47) = false := by rcases hd with rfl | rfl <;> decide
    have h2 : (d == 61 || d == 62) = true := by rcases hd with rfl | rfl <;> decide
    rw [attrKeyGo]
    simp only [e3, e1, h1, h2, Bool.false_eq_true, dite_false, if_false, if_true]
    have u := unread_rawE_eq (t := t.readByte.1) 1 (by omega)
    show (t.readByte.1.unread 1).rawE = t.rawE + 0; rw [u, e2]; simp
  | b :: key, d, t, h, hk, hd, he => by
    obtain ⟨e1, e2, e3, e4⟩ := read_known h.head he
    obtain ⟨h1, h2⟩ := keyByte_spec (hk b (by simp))
    rw [attrKeyGo]
    simp only [e3, e1, h1, h2, Bool.false_eq_true, dite_false, if_false]
    have ih := attrKeyGo_span_stop key d t.readByte.1 ((h.tail.congr e4).at e2) (fun x hx => hk x (by simp [hx])) hd e3
    rw [ih, e2]; simp; omega

theorem attrKeyGo_span_eat : ∀ (key : Bytes) (d : Nat) (t : Tokenizer), Has t t.rawE (key ++ [d]) →
    (∀ b ∈ key, keyByte b = true) → (isWs d = true ∨ d = 47) → t.err = false → (attrKeyGo t).pkE = t.rawE + key.length
  | [], d, t, h, _, hd, he => by
    obtain ⟨e1, e2, e3, e4⟩ := read_known h.head he
    have h1 : (isWs d || d == 47) = true := by rcases hd with h | rfl <;> simp [*]
    have h0 : ¬ t.readByte.1.rawE = 0 := by omega
    rw [attrKeyGo]
    simp only [e3, e1, h1, h0, Bool.false_eq_true, dite_false, if_false, if_true]
    show t.readByte.1.rawE - 1 = _; rw [e2]; simp
  | b :: key, d, t, h, hk, hd, he => by
    obtain ⟨e1, e2, e3, e4⟩ := read_known h.head he
    obtain ⟨h1, h2⟩ := keyByte_spec (hk b (by simp))
    rw [attrKeyGo]
    simp only [e3, e1, h1, h2, Bool.false_eq_true, dite_false, if_false]
    have ih := attrKeyGo_span_eat key d t.readByte.1 ((h.tail.congr e4).at e2) (fun x hx => hk x (by simp [hx])) hd e3
    rw [ih, e2]; simp; omega

/-- `read_tag_name_attr_key`: the pending key span is exactly the key -/
theorem readTagAttrKey_span (key : Bytes) (d : Nat) (t : Tokenizer) (h : Has t t.rawE (key ++ [d]))
    (hk : ∀ b ∈ key, keyByte b = true) (hd : (d = 61 ∨ d = 62) ∨ (isWs d = true ∨ d = 47)) (he : t.err = false) :
    (readTagAttrKey t).pkS = t.rawE ∧ (readTagAttrKey t).pkE = t.rawE + key.length ∧
    (readTagAttrKey t).attrs = t.attrs := by
  unfold readTagAttrKey
  have f := attrKeyGo_frame { t with pkS := t.rawE }
  refine ⟨f.2.2.2.2.1, ?_, f.2.2.1⟩
  rcases hd with hd | hd
  · exact attrKeyGo_span_stop key d { t with pkS := t.rawE } (h.congr rfl) hk hd he
  · exact attrKeyGo_span_eat key d { t with pkS := t.rawE } (h.congr rfl) hk hd he

/-! ### the value span -/

theorem attrValQuotedGo_span : ∀ (v : Bytes) (q : Nat) (t : Tokenizer), Has t t.rawE (v ++ [q]) →
    (∀ b ∈ v, b ≠ q) → t.err = false → (attrValQuotedGo t q).pvE = t.rawE + v.length
  | [], q, t, h, _, he => by
    obtain ⟨e1, e2, e3, e4⟩ := read_known h.head he
    have h0 : ¬ t.readByte.1.rawE = 0 := by omega
    rw [attrValQuotedGo]
    simp only [e3, e1, beq_self_eq_true, h0, Bool.false_eq_true, dite_false, if_false, if_true]
    show t.readByte.1.rawE - 1 = _; rw [e2]; simp
  | b :: v, q, t, h, hv, he => by
    obtain ⟨e1, e2, e3, e4⟩ := read_known h.head he
    have hb : (b == q) = false := by simpa using hv b (by simp)
    rw [attrValQuotedGo]
    simp only [e3, e1, hb, Bool.false_eq_true, dite_false, if_false]
    have ih := attrValQuotedGo_span v q t.readByte.1 ((h.tail.congr e4).at e2) (fun x hx => hv x (by simp [hx])) e3
    rw [ih, e2]; simp; omega

theorem attrValUnquotedGo_span_ws : ∀ (v : Bytes) (d : Nat) (t : Tokenizer), Has t t.rawE (v ++ [d]) →
    (∀ b ∈ v, unqByte b = true) → isWs d = true → t.err = false → (attrValUnquotedGo t).pvE = t.rawE + v.length
  | [], d, t, h, _, hd, he => by
    obtain ⟨e1, e2, e3, e4⟩ := read_known h.head he
    have h0 : ¬ t.readByte.1.rawE = 0 := by omega
    rw [attrValUnquotedGo]
    simp only [e3, e1, hd, h0, Bool.false_eq_true, dite_false, if_false, if_true]
    show t.readByte.1.rawE - 1 = _; rw [e2]; simp
  | b :: v, d, t, h, hv, hd, he => by
    obtain ⟨e1, e2, e3, e4⟩ := read_known h.head he
    obtain ⟨h1, h2⟩ := unqByte_spec (hv b (by simp))
    rw [attrValUnquotedGo]
    simp only [e3, e1, h1, h2, Bool.false_eq_true, dite_false, if_false]
    have ih := attrValUnquotedGo_span_ws v d t.readByte.1 ((h.tail.congr e4).at e2) (fun x hx => hv x (by simp [hx])) hd e3
    rw [ih, e2]; simp; omega

theorem attrValUnquotedGo_span_gt : ∀ (v : Bytes) (t : Tokenizer), Has t t.rawE (v ++ [62]) →
    (∀ b ∈ v, unqByte b = true) → t.err = false → (attrValUnquotedGo t).pvE = t.rawE + v.length
  | [], t, h, _, he => by
    obtain ⟨e1, e2, e3, e4⟩ := read_known h.head he
    rw [attrValUnquotedGo]
    have hw : isWs 62 = false := by decide
    simp only [e3, e1, hw, beq_self_eq_true, Bool.false_eq_true, dite_false, if_false, if_true]
    have u := unread_rawE_eq (t := t.readByte.1) 1 (by omega)
    show (t.readByte.1.unread 1).rawE = t.rawE + 0; rw [u, e2]; simp
  | b :: v, t, h, hv, he => by
    obtain ⟨e1, e2, e3, e4⟩ := read_known h.head he
    obtain ⟨h1, h2⟩ := unqByte_spec (hv b (by simp))
    rw [attrValUnquotedGo]
    simp only [e3, e1, h1, h2, Bool.false_eq_true, dite_false, if_false]
    have ih := attrValUnquotedGo_span_gt v t.readByte.1 ((h.tail.congr e4).at e2) (fun x hx => hv x (by simp [hx])) e3
    rw [ih, e2]; simp; omega

/-- the part after the `=`, at the opening quote -/
theorem attrValRest_span_quoted (v : Bytes) (q : Nat) (t : Tokenizer) (ok : Ok t) (hq : q = 34 ∨ q = 39)
    (h : Has t t.rawE ([q] ++ v ++ [q])) (hv : ∀ b ∈ v, b ≠ q) (he : t.err = false) :
    (attrValRest t).pvS = t.rawE + 1 ∧ (attrValRest t).pvE = t.rawE + 1 + v.length := by
  have hqws : isWs q = false := by rcases hq with rfl | rfl <;> decide
  have hs := skipWhiteSpace_run [] q t (by simpa using h.left.left) (by simp) hqws he
  have a1 := skipWhiteSpace_adv t ok
  unfold attrValRest
  simp only
  generalize t.skipWhiteSpace = t2 at *
  have hr2 : t2.rawE = t.rawE := by rw [hs.1]; simp
  have hh : Has t2 t2.rawE ([q] ++ v ++ [q]) := (h.congr a1.buf).at hr2
  obtain ⟨e1, e2, e3, e4⟩ := read_known (by simpa using hh.left.left.head) hs.2
  have hq62 : (q == 62) = false := by rcases hq with rfl | rfl <;> decide
  have hqq : (q == 39 || q == 34) = true := by rcases hq with rfl | rfl <;> decide
  have hne1 : ¬ t2.err = true := by rw [hs.2]; exact Bool.false_ne_true
  have hne2 : ¬ t2.readByte.1.err = true := by rw [e3]; exact Bool.false_ne_true
  rw [if_neg hne1, if_neg hne2]
  simp only [e1, hq62, hqq, Bool.false_eq_true, if_false, if_true]
  have hh2 : Has t2.readByte.1 t2.readByte.1.rawE (v ++ [q]) := by
    simp only [List.append_assoc, List.singleton_append] at hh
    exact ((hh.tail).congr e4).at e2
  have sp := attrValQuotedGo_span v q { t2.readByte.1 with pvS := t2.readByte.1.rawE } hh2 hv e3
  have fr := (attrValQuotedGo_frame { t2.readByte.1 with pvS := t2.readByte.1.rawE } q).2.2.2.2.2.2
  refine ⟨by rw [fr]; show t2.readByte.1.rawE = _; rw [e2, hr2], ?_⟩
  rw [sp]; show t2.readByte.1.rawE + _ = _; rw [e2, hr2]

/-- … at the first byte of an unquoted value -/
theorem attrValRest_span_unq (c : Nat) (v : Bytes) (d : Nat) (t : Tokenizer) (ok : Ok t)
    (h : Has t t.rawE (c :: v ++ [d])) (hc : unqByte c = true) (hc1 : c ≠ 34) (hc2 : c ≠ 39)
    (hv : ∀ b ∈ v, unqByte b = true) (hd : isWs d = true ∨ d = 62) (he : t.err = false) :
    (attrValRest t).pvS = t.rawE ∧ (attrValRest t).pvE = t.rawE + 1 + v.length := by
  obtain ⟨hcw, hc62⟩ := unqByte_spec hc
  have hs := skipWhiteSpace_run [] c t (by simpa using Has.left (b := v ++ [d]) (by simpa using h)) (by simp) hcw he
  have a1 := skipWhiteSpace_adv t ok
  unfold attrValRest
  simp only
  generalize t.skipWhiteSpace = t2 at *
  have hr2 : t2.rawE = t.rawE := by rw [hs.1]; simp
  have hh : Has t2 t2.rawE (c :: v ++ [d]) := (h.congr a1.buf).at hr2
  obtain ⟨e1, e2, e3, e4⟩ := read_known hh.head hs.2
  have hqq : (c == 39 || c == 34) = false := by simp [hc1, hc2]
  have h0 : ¬ t2.readByte.1.rawE = 0 := by omega
  have hne1 : ¬ t2.err = true := by rw [hs.2]; exact Bool.false_ne_true
  have hne2 : ¬ t2.readByte.1.err = true := by rw [e3]; exact Bool.false_ne_true
  rw [if_neg hne1, if_neg hne2]
  simp only [e1, hc62, hqq, h0, Bool.false_eq_true, if_false]
  have hh2 : Has t2.readByte.1 t2.readByte.1.rawE (v ++ [d]) := ((hh.tail).congr e4).at e2
  have fr := (attrValUnquotedGo_frame { t2.readByte.1 with pvS := t2.readByte.1.rawE - 1 }).2.2.2.2.2.2
  refine ⟨by rw [fr]; show t2.readByte.1.rawE - 1 = _; rw [e2, hr2]; simp, ?_⟩
  rcases hd with hd | hd
  · rw [attrValUnquotedGo_span_ws v d { t2.readByte.1 with pvS := t2.readByte.1.rawE - 1 } hh2 hv hd e3]
    show t2.readByte.1.rawE + _ = _; rw [e2, hr2]
  · subst hd
    rw [attrValUnquotedGo_span_gt v { t2.readByte.1 with pvS := t2.readByte.1.rawE - 1 } hh2 hv e3]
    show t2.readByte.1.rawE + _ = _; rw [e2, hr2]

/-- `read_tag_name_attr_value` on `ws1 = ws2 value…` is `attrValRest` at the first byte of the value -/
theorem attrValGo_eq_rest (w1 w2 : Bytes) (c : Nat) (t : Tokenizer) (ok : Ok t) (he : t.err = false)
    (h : Has t t.rawE (w1 ++ [61] ++ w2 ++ [c])) (hw1 : ∀ b ∈ w1, isWs b = true) (hw2 : ∀ b ∈ w2, isWs b = true)
    (hc : isWs c = false) :
    ∃ u : Tokenizer, u.buf = t.buf ∧ u.rawE = t.rawE + (w1.length + 1 + w2.length) ∧ u.err = false ∧ Ok u ∧
      attrValGo t = attrValRest u := by
  have h1 : Has t t.rawE (w1 ++ [61]) := h.left.left
  have hs := skipWhiteSpace_run w1 61 t h1 hw1 (by decide) he
  have a1 := skipWhiteSpace_adv t ok
  have h61 : (skipWhiteSpace t).buf[(skipWhiteSpace t).rawE]? = some 61 := by rw [a1.buf, hs.1]; exact h1.right.head
  obtain ⟨e1, e2, e3, e4⟩ := read_known h61 hs.2
  have a2 := readByte_adv a1.ok
  -- the state after the `=`
  have hrest : Has (skipWhiteSpace t).readByte.1 (skipWhiteSpace t).readByte.1.rawE (w2 ++ [c]) := by
    have : Has t t.rawE ((w1 ++ [61]) ++ (w2 ++ [c])) := by simpa [List.append_assoc] using h
    exact (this.right.congr (e4.trans a1.buf)).at (by rw [e2, hs.1]; simp; omega)
  have hs2 := skipWhiteSpace_run w2 c _ hrest hw2 hc e3
  have a3 := skipWhiteSpace_adv _ a2.ok
  refine ⟨(skipWhiteSpace t).readByte.1.skipWhiteSpace, a3.buf.trans (e4.trans a1.buf),
    by rw [hs2.1, e2, hs.1]; omega, hs2.2, a3.ok, ?_⟩
  -- unfold both sides down to the common tail
  have hfix2 : skipWhiteSpace ((skipWhiteSpace t).readByte.1.skipWhiteSpace) = (skipWhiteSpace t).readByte.1.skipWhiteSpace :=
    skipWhiteSpace_fix (d := c) (by rw [a3.buf, hs2.1]; exact hrest.right.head) hc hs2.2
  have hR : attrValRest (skipWhiteSpace t).readByte.1 = attrValRest (skipWhiteSpace t).readByte.1.skipWhiteSpace := by
    conv => rhs; unfold attrValRest
    rw [hfix2]
    unfold attrValRest
    rfl
  rw [← hR]
  unfold attrValGo
  simp only
  rw [if_neg (by rw [hs.2]; exact Bool.false_ne_true), if_neg (by rw [e3]; exact Bool.false_ne_true),
    if_neg (by rw [e1]; decide)]

/-- no `=`: the pending value span stays the empty span set by `read_tag_name_attr_value` -/
theorem readTagAttrVal_span_none (W : Bytes) (d : Nat) (t : Tokenizer) (ok : Ok t) (h : Has t t.rawE (W ++ [d]))
    (f : Follow W d) (he : t.err = false) :
    (readTagAttrVal t).pvS = t.rawE ∧ (readTagAttrVal t).pvE = t.rawE := by
  unfold readTagAttrVal
  generalize hT : ({ t with pvS := t.rawE, pvE := t.rawE } : Tokenizer) = T
  have hTf : T.buf = t.buf ∧ T.rawE = t.rawE ∧ T.err = t.err ∧ T.pvS = t.rawE ∧ T.pvE = t.rawE := by
    rw [← hT]; exact ⟨rfl, rfl, rfl, rfl, rfl⟩
  have okT : Ok T := by rw [← hT]; exact ⟨ok.le, ok.panic, ok.hang, ok.utf8⟩
  have hh : Has T T.rawE (W ++ [d]) := (h.congr hTf.1).at hTf.2.1
  have hs := skipWhiteSpace_run W d T hh f.ws f.nws (by rw [hTf.2.2.1, he])
  have a1 := skipWhiteSpace_adv T okT
  have fr := skipWhiteSpace_frame T
  unfold attrValGo
  simp only
  generalize T.skipWhiteSpace = t1 at *
  have hd' : t1.buf[t1.rawE]? = some d := by
    have := (hh.right.congr a1.buf).head
    rw [hs.1]; exact this
  obtain ⟨e1, e2, e3, e4⟩ := read_known hd' hs.2
  rw [if_neg (by rw [hs.2]; exact Bool.false_ne_true), if_neg (by rw [e3]; exact Bool.false_ne_true),
    if_pos (by rw [e1]; simpa using f.n61)]
  exact ⟨by simp [fr.2.2.2.2.2.2.1, hTf.2.2.2.1], by simp [fr.2.2.2.2.2.2.2, hTf.2.2.2.2]⟩

/-- offset of the value inside its body: the opening quote -/
def SVal.qoff : SVal → Nat
  | .dq _ | .sq _ => 1
  | _ => 0

/-- **the pending value span after `read_tag_name_attr_value`** on `ws1 = ws2 value ++ W ++ [d]`: exactly the value (without
its quotes) -/
theorem readTagAttrVal_span (val : SVal) (w1 w2 W : Bytes) (d : Nat) (t : Tokenizer) (ok : Ok t) (he : t.err = false)
    (hval : val.ok = true) (hne : val ≠ .none) (f : Follow W d) (hopen : val.open = true → W = [] → d = 62)
    (hw1 : ∀ b ∈ w1, isWs b = true) (hw2 : ∀ b ∈ w2, isWs b = true)
    (h : Has t t.rawE (w1 ++ [61] ++ w2 ++ val.body ++ W ++ [d])) :
    (readTagAttrVal t).pvS = t.rawE + (w1.length + 1 + w2.length) + val.qoff ∧
    (readTagAttrVal t).pvE = t.rawE + (w1.length + 1 + w2.length) + val.qoff + val.value.length := by
  have hbody : Has t (t.rawE + (w1.length + 1 + w2.length)) (val.body ++ W ++ [d]) := by
    have : Has t t.rawE ((w1 ++ [61] ++ w2) ++ (val.body ++ W ++ [d])) := by simpa [List.append_assoc] using h
    exact this.right.at (by simp only [List.length_append, List.length_cons, List.length_nil])
  have hpre : ∀ c r, val.body ++ W ++ [d] = c :: r → Has t t.rawE (w1 ++ [61] ++ w2 ++ [c]) := by
    intro c r hcr
    have : Has t t.rawE ((w1 ++ [61] ++ w2 ++ [c]) ++ r) := by
      have e : w1 ++ [61] ++ w2 ++ val.body ++ W ++ [d] = (w1 ++ [61] ++ w2 ++ [c]) ++ r := by
        have : w1 ++ [61] ++ w2 ++ val.body ++ W ++ [d] = (w1 ++ [61] ++ w2) ++ (val.body ++ W ++ [d]) := by
          simp [List.append_assoc]
        rw [this, hcr]; simp [List.append_assoc]
      rw [← e]; exact h
    exact this.left
  have at' : ∀ (u : Tokenizer) (l r : Bytes), val.body ++ W ++ [d] = l ++ r → u.buf = t.buf →
      u.rawE = t.rawE + (w1.length + 1 + w2.length) → Has u u.rawE l := by
    intro u l r hlr hb hru
    rw [hlr] at hbody
    exact (hbody.left.congr hb).at hru
  -- `readTagAttrVal t = attrValRest u` for the state `u` at the first byte of the body
  have red : ∀ c r, val.body ++ W ++ [d] = c :: r → isWs c = false →
      ∃ u : Tokenizer, u.buf = t.buf ∧ u.rawE = t.rawE + (w1.length + 1 + w2.length) ∧ u.err = false ∧ Ok u ∧
        readTagAttrVal t = attrValRest u := by
    intro c r hcr hcw
    unfold readTagAttrVal
    exact attrValGo_eq_rest w1 w2 c { t with pvS := t.rawE, pvE := t.rawE } ⟨ok.le, ok.panic, ok.hang, ok.utf8⟩ he
      ((hpre c r hcr).congr rfl) hw1 hw2 hcw
  cases val with
  | none => exact absurd rfl hne
  | dq v =>
    simp only [SVal.body, SVal.ok, Bool.not_eq_true', SVal.qoff, SVal.value] at hval red at' ⊢
    have hv : ∀ b ∈ v, b ≠ 34 := by
      intro b hb e; subst e
      have : v.contains 34 = true := by simpa using hb
      rw [this] at hval; cases hval
    obtain ⟨u, hb, hr, hu, oku, heq⟩ := red 34 (v ++ [34] ++ W ++ [d]) (by simp) (by decide)
    have sp := attrValRest_span_quoted v 34 u oku (Or.inl rfl) (at' u ([34] ++ v ++ [34]) (W ++ [d]) (by simp) hb hr) hv hu
    rw [heq, sp.1, sp.2, hr]
    exact ⟨rfl, rfl⟩
  | sq v =>
    simp only [SVal.body, SVal.ok, Bool.not_eq_true', SVal.qoff, SVal.value] at hval red at' ⊢
    have hv : ∀ b ∈ v, b ≠ 39 := by
      intro b hb e; subst e
      have : v.contains 39 = true := by simpa using hb
      rw [this] at hval; cases hval
    obtain ⟨u, hb, hr, hu, oku, heq⟩ := red 39 (v ++ [39] ++ W ++ [d]) (by simp) (by decide)
    have sp := attrValRest_span_quoted v 39 u oku (Or.inr rfl) (at' u ([39] ++ v ++ [39]) (W ++ [d]) (by simp) hb hr) hv hu
    rw [heq, sp.1, sp.2, hr]
    exact ⟨rfl, rfl⟩
  | unq v =>
    cases v with
    | nil => simp [SVal.ok] at hval
    | cons c v =>
      simp only [SVal.ok, Bool.and_eq_true, bne_iff_ne, ne_eq, List.all_eq_true] at hval
      obtain ⟨⟨⟨hall, hc1⟩, hc2⟩, _⟩ := hval
      have hc : unqByte c = true := hall c (by simp)
      have hv : ∀ b ∈ v, unqByte b = true := fun b hb => hall b (by simp [hb])
      have hcws : isWs c = false := (unqByte_spec hc).1
      simp only [SVal.body, SVal.qoff, SVal.value] at red at' ⊢
      -- the byte that stops the value
      obtain ⟨d', r', hdr, hd'⟩ : ∃ d' r', W ++ [d] = d' :: r' ∧ (isWs d' = true ∨ d' = 62) := by
        cases W with
        | nil => exact ⟨d, [], rfl, Or.inr (hopen rfl rfl)⟩
        | cons w W' => exact ⟨w, W' ++ [d], rfl, Or.inl (f.ws w (by simp))⟩
      obtain ⟨u, hb, hr, hu, oku, heq⟩ := red c (v ++ W ++ [d]) (by simp) hcws
      have sp := attrValRest_span_unq c v d' u oku
        (at' u (c :: v ++ [d']) r' (by simp only [List.append_assoc, List.cons_append, List.nil_append]; rw [hdr]) hb hr)
        hc hc1 hc2 hv hd' hu
      rw [heq, sp.1, sp.2, hr]
      exact ⟨by simp, by simp; omega⟩

/-! ### one attribute -/

theorem SVal.value_le_body (v : SVal) : v.qoff + v.value.length ≤ v.body.length := by
  cases v <;> simp [SVal.qoff, SVal.value, SVal.body] <;> omega

/-- **the span saved by one iteration of the attribute loop**: key span = the key, value span = the value without quotes
(an empty span for a bare key) -/
theorem readAttr_span (a : SAttr) (W : Bytes) (d : Nat) (t : Tokenizer) (ok : Ok t)
    (he : t.err = false) (hok : a.ok = true) (f : Follow W d)
    (hopen : a.val.open = true → W = [] → d = 62)
    (h : Has t t.rawE (a.key ++ a.vtext ++ W ++ [d])) :
    ∃ vs, (readAttr t true).attrs = t.attrs.push ⟨t.rawE, t.rawE + a.key.length, vs, vs + a.val.value.length⟩ ∧
      (a.val ≠ .none → vs = t.rawE + a.key.length + (a.ws1.length + 1 + a.ws2.length) + a.val.qoff) ∧
      t.rawE + a.key.length ≤ vs ∧ vs + a.val.value.length ≤ t.rawE + (a.key.length + a.vtext.length + W.length) ∧
      (readAttr t true).nAttrRet = t.nAttrRet := by
  obtain ⟨_, _, hkne, hk, hval, hw1, hw2, hnone⟩ := SAttr.ok_spec hok
  have hklen : 0 < a.key.length := List.length_pos_iff.mpr hkne
  have ak := readTagAttrKey_adv t ok
  -- what remains after the key and value readers, in terms of the pending spans
  have fin : ∀ (vs : Nat), (readTagAttrKey t).pkS = t.rawE → (readTagAttrKey t).pkE = t.rawE + a.key.length →
      (readTagAttrKey t).attrs = t.attrs → (readTagAttrVal (readTagAttrKey t)).pvS = vs →
      (readTagAttrVal (readTagAttrKey t)).pvE = vs + a.val.value.length →
      (readAttr t true).attrs = t.attrs.push ⟨t.rawE, t.rawE + a.key.length, vs, vs + a.val.value.length⟩ ∧
      (readAttr t true).nAttrRet = t.nAttrRet := by
    intro vs p1 p2 p3 p4 p5
    have vf := (readTagAttrVal_spec (readTagAttrKey t) ak.ok).1
    have kf := readTagAttrKey_keep t
    simp only [valF, Prod.mk.injEq] at vf
    unfold readAttr
    simp only
    generalize t.readTagAttrKey.readTagAttrVal = t2 at *
    have hpk : (true && t2.pkS != t2.pkE) = true := by
      rw [vf.2.2.2.2.1, vf.2.2.2.2.2, p1, p2]; simp; omega
    rw [if_pos hpk]
    have fr := skipWhiteSpace_frame t2.pushPending
    refine ⟨?_, by rw [fr.2.2.2.1]; show t2.nAttrRet = _; rw [vf.2.2.2.1, kf.2]⟩
    rw [fr.2.2.1]
    show t2.attrs.push ⟨t2.pkS, t2.pkE, t2.pvS, t2.pvE⟩ = _
    rw [vf.2.2.1, p3, vf.2.2.2.2.1, vf.2.2.2.2.2, p1, p2, p4, p5]
  by_cases hn : a.val = .none
  · rw [SAttr.vtext_none hn] at h ⊢
    have hv0 : a.val.value.length = 0 := by rw [hn]; rfl
    simp only [List.append_nil, List.length_nil, Nat.add_zero] at h ⊢
    cases W with
    | nil =>
      have hd62 := hopen (by rw [hn]; rfl) rfl
      subst hd62
      have k := readTagAttrKey_run_stop a.key 62 t (by simpa using h) hk (Or.inr rfl) he
      have ks := readTagAttrKey_span a.key 62 t (by simpa using h) hk (Or.inl (Or.inr rfl)) he
      have hrest : Has t (t.rawE + a.key.length) ([] ++ [62]) := by
        simpa using Has.right (a := a.key) (b := [62]) (by simpa using h)
      have v := readTagAttrVal_span_none [] 62 (readTagAttrKey t) ak.ok ((hrest.congr ak.buf).at k.1)
        ⟨by simp, by decide, by decide⟩ k.2
      have := fin (t.rawE + a.key.length) ks.1 ks.2.1 ks.2.2 (by rw [v.1, k.1]) (by rw [v.2, k.1, hv0]; rfl)
      exact ⟨_, this.1, fun h' => absurd hn h', Nat.le_refl _, by rw [hv0]; simp, this.2⟩
    | cons w W' =>
      have hw : isWs w = true := f.ws w (by simp)
      have h' : Has t t.rawE ((a.key ++ [w]) ++ (W' ++ [d])) := by simpa [List.append_assoc] using h
      have k := readTagAttrKey_run_eat a.key w t h'.left hk (Or.inl hw) he
      have ks := readTagAttrKey_span a.key w t h'.left hk (Or.inr (Or.inl hw)) he
      have hrest : Has t (t.rawE + (a.key.length + 1)) (W' ++ [d]) := by simpa using h'.right
      have v := readTagAttrVal_span_none W' d (readTagAttrKey t) ak.ok ((hrest.congr ak.buf).at k.1)
        ⟨fun b hb => f.ws b (by simp [hb]), f.nws, f.n61⟩ k.2
      have := fin (t.rawE + (a.key.length + 1)) ks.1 ks.2.1 ks.2.2 (by rw [v.1, k.1]) (by rw [v.2, k.1, hv0]; rfl)
      exact ⟨_, this.1, fun h' => absurd hn h', by omega, by rw [hv0]; simp only [List.length_cons]; omega, this.2⟩
  · rw [SAttr.vtext_some hn] at h ⊢
    have hvb := a.val.value_le_body
    cases hws1 : a.ws1 with
    | nil =>
      rw [hws1] at h
      have h' : Has t t.rawE ((a.key ++ [61]) ++ (a.ws2 ++ a.val.body ++ W ++ [d])) := by
        simpa [List.append_assoc] using h
      have k := readTagAttrKey_run_stop a.key 61 t h'.left hk (Or.inl rfl) he
      have ks := readTagAttrKey_span a.key 61 t h'.left hk (Or.inl (Or.inl rfl)) he
      have hrest : Has t (t.rawE + a.key.length) ([] ++ [61] ++ a.ws2 ++ a.val.body ++ W ++ [d]) := by
        have := Has.right (a := a.key) (b := [61] ++ a.ws2 ++ a.val.body ++ W ++ [d]) (by simpa [List.append_assoc] using h)
        simpa [List.append_assoc] using this
      have v := readTagAttrVal_span a.val [] a.ws2 W d (readTagAttrKey t) ak.ok k.2 hval hn f hopen (by simp) hw2
        ((hrest.congr ak.buf).at k.1)
      have := fin _ ks.1 ks.2.1 ks.2.2 v.1 (by rw [v.2])
      refine ⟨_, this.1, fun _ => by rw [k.1], by rw [k.1]; omega, ?_, this.2⟩
      rw [k.1]; simp only [List.length_append, List.length_cons, List.length_nil]; omega
    | cons w w1' =>
      rw [hws1] at h
      have hw : isWs w = true := hw1 w (by rw [hws1]; simp)
      have h' : Has t t.rawE ((a.key ++ [w]) ++ (w1' ++ [61] ++ a.ws2 ++ a.val.body ++ W ++ [d])) := by
        simpa [List.append_assoc] using h
      have k := readTagAttrKey_run_eat a.key w t h'.left hk (Or.inl hw) he
      have ks := readTagAttrKey_span a.key w t h'.left hk (Or.inr (Or.inl hw)) he
      have hrest : Has t (t.rawE + (a.key.length + 1)) (w1' ++ [61] ++ a.ws2 ++ a.val.body ++ W ++ [d]) := by
        simpa using h'.right
      have v := readTagAttrVal_span a.val w1' a.ws2 W d (readTagAttrKey t) ak.ok k.2 hval hn f hopen
        (fun b hb => hw1 b (by rw [hws1]; simp [hb])) hw2 ((hrest.congr ak.buf).at k.1)
      have := fin _ ks.1 ks.2.1 ks.2.2 v.1 (by rw [v.2])
      refine ⟨_, this.1, fun _ => by rw [k.1]; simp only [List.length_cons]; omega, by rw [k.1]; omega, ?_, this.2⟩
      rw [k.1]; simp only [List.length_append, List.length_cons, List.length_nil]; omega

/-! ### the attribute loop -/

/-- two lists related elementwise (core Lean has no `Forall₂`) -/
inductive All2 {α β : Type} (R : α → β → Prop) : List α → List β → Prop
  | nil : All2 R [] []
  | cons {a b as bs} : R a b → All2 R as bs → All2 R (a :: as) (b :: bs)

theorem All2.imp {α β : Type} {R S : α → β → Prop} (h : ∀ a b, R a b → S a b) :
    ∀ {l1 : List α} {l2 : List β}, All2 R l1 l2 → All2 S l1 l2
  | _, _, .nil => .nil
  | _, _, .cons r rs => .cons (h _ _ r) (All2.imp h rs)

theorem All2.length {α β : Type} {R : α → β → Prop} : ∀ {l1 : List α} {l2 : List β}, All2 R l1 l2 → l1.length = l2.length
  | _, _, .nil => rfl
  | _, _, .cons _ rs => by simp [All2.length rs]

theorem All2.get {α β : Type} {R : α → β → Prop} : ∀ {l1 : List α} {l2 : List β}, All2 R l1 l2 →
    ∀ (i : Nat) (h1 : i < l1.length) (h2 : i < l2.length), R l1[i] l2[i]
  | _, _, .nil, i, h1, _ => absurd h1 (Nat.not_lt_zero _)
  | _, _, .cons r rs, 0, _, _ => r
  | _, _, .cons r rs, i + 1, h1, h2 => All2.get rs i (by simpa using h1) (by simpa using h2)

/-- a saved span is the attribute: key span = the key, value span = the value without quotes -/
def spanOK (t : Tokenizer) (s : AttrSpan) (a : SAttr) : Prop :=
  Has t s.ks a.key ∧ s.ke = s.ks + a.key.length ∧ Has t s.vs a.val.value ∧ s.ve = s.vs + a.val.value.length

theorem spanOK.congr {t t' : Tokenizer} {s : AttrSpan} {a : SAttr} (h : spanOK t s a) (e : t'.buf = t.buf) :
    spanOK t' s a := ⟨h.1.congr e, h.2.1, h.2.2.1.congr e, h.2.2.2⟩

theorem SVal.body_split (v : SVal) : ∃ pre post, v.body = pre ++ v.value ++ post ∧ pre.length = v.qoff := by
  cases v with
  | none => exact ⟨[], [], rfl, rfl⟩
  | unq v => exact ⟨[], [], by simp [SVal.body, SVal.value], rfl⟩
  | dq v => exact ⟨[34], [34], rfl, rfl⟩
  | sq v => exact ⟨[39], [39], rfl, rfl⟩

/-- the span returned by `readAttr_span` is the attribute -/
theorem spanOK_of (a : SAttr) (t : Tokenizer) (rest : Bytes) (vs : Nat) (h : Has t t.rawE (a.key ++ a.vtext ++ rest))
    (hvs : a.val ≠ .none → vs = t.rawE + a.key.length + (a.ws1.length + 1 + a.ws2.length) + a.val.qoff) :
    spanOK t ⟨t.rawE, t.rawE + a.key.length, vs, vs + a.val.value.length⟩ a := by
  refine ⟨h.left.left, rfl, ?_, rfl⟩
  by_cases hn : a.val = .none
  · rw [hn]; exact Has.nil _ _
  · obtain ⟨pre, post, hb, hp⟩ := a.val.body_split
    have h1 : Has t (t.rawE + a.key.length) a.vtext := h.left.right
    rw [SAttr.vtext_some hn, hb] at h1
    have h2 : Has t (t.rawE + a.key.length) ((a.ws1 ++ [61] ++ a.ws2 ++ pre) ++ (a.val.value ++ post)) := by
      simpa [List.append_assoc] using h1
    have h3 := h2.right.left
    exact h3.at (by rw [hvs hn]; simp only [List.length_append, List.length_cons, List.length_nil, hp]; omega)

theorem tagAttrsGo_span : ∀ (as : List SAttr) (trail : Bytes) (e : TagEnd) (t : Tokenizer), Ok t →
    t.err = false → (∀ a ∈ as, a.ok = true) → (∀ b ∈ trail, isWs b = true) → endOK as trail e = true →
    Has t t.rawE (loopText as trail e) →
    ∃ spans : List AttrSpan, (tagAttrsGo t true).attrs = t.attrs ++ spans.toArray ∧
      All2 (spanOK t) spans as ∧ (tagAttrsGo t true).nAttrRet = t.nAttrRet
  | [], trail, .gt, t, ok, he, _, _, _, h => by
    obtain ⟨e1, e2, e3, e4⟩ := read_known (h.head) he
    rw [tagAttrsGo]
    simp only [e3, e1, beq_self_eq_true, Bool.or_true, if_true]
    exact ⟨[], by simp, All2.nil, by simp⟩
  | [], trail, .slashGt, t, ok, he, _, _, _, h => by
    -- the `/` is read as an EMPTY attribute key (not saved), then the `>` ends the loop
    obtain ⟨e1, e2, e3, e4⟩ := read_known (h.head) he
    have hne : ¬ t.readByte.1.err = true := by rw [e3]; exact Bool.false_ne_true
    have a0 := read_unread_adv ok hne
    have p := peek_run h.head he
    have hh : Has (t.readByte.1.unread 1) (t.readByte.1.unread 1).rawE ([] ++ [] ++ [47] ++ [62]) := by
      have : Has t t.rawE ([47, 62]) := h
      exact (this.congr a0.buf).at (by rw [p.1.1]; simp)
    have hkey := readTagAttrKey_run_eat [] 47 (t.readByte.1.unread 1) (by simpa using hh.left) (by simp) (Or.inr rfl) p.1.2
    have hks := readTagAttrKey_span [] 47 (t.readByte.1.unread 1) (by simpa using hh.left) (by simp)
      (Or.inr (Or.inr rfl)) p.1.2
    have ak := readTagAttrKey_adv _ a0.ok
    have hv := readTagAttrVal_run_none [] 62 (t.readByte.1.unread 1).readTagAttrKey ak.ok
      (by have := (hh.right).congr ak.buf; exact this.at (by rw [hkey.1]; simp)) ⟨by simp, by decide, by decide⟩ hkey.2
    have av := readTagAttrVal_adv _ ak.ok
    have vf := (readTagAttrVal_spec (t.readByte.1.unread 1).readTagAttrKey ak.ok).1
    simp only [valF, Prod.mk.injEq] at vf
    have kf := readTagAttrKey_keep (t.readByte.1.unread 1)
    -- nothing is pushed
    have hra : Stops (t.readByte.1.unread 1) ((t.readByte.1.unread 1).readAttr true) 1 ∧
        ((t.readByte.1.unread 1).readAttr true).attrs = t.attrs ∧
        ((t.readByte.1.unread 1).readAttr true).nAttrRet = t.nAttrRet := by
      unfold readAttr
      simp only
      have hno : ¬ (true && (t.readByte.1.unread 1).readTagAttrKey.readTagAttrVal.pkS !=
          (t.readByte.1.unread 1).readTagAttrKey.readTagAttrVal.pkE) = true := by
        rw [vf.2.2.2.2.1, vf.2.2.2.2.2, hks.1, hks.2.1]; simp
      rw [if_neg hno]
      have sk := skipWhiteSpace_run [] 62 (t.readByte.1.unread 1).readTagAttrKey.readTagAttrVal (by
        have := (hh.right).congr (av.buf.trans ak.buf)
        exact this.at (by rw [hv.1, hkey.1]; simp)) (by simp) (by decide) hv.2
      have fr := skipWhiteSpace_frame (t.readByte.1.unread 1).readTagAttrKey.readTagAttrVal
      exact ⟨⟨by rw [sk.1, hv.1, hkey.1]; simp, sk.2⟩, by rw [fr.2.2.1, vf.2.2.1, kf.1]; simp,
        by rw [fr.2.2.2.1, vf.2.2.2.1, kf.2]; simp⟩
    have a1 := readAttr_adv (t.readByte.1.unread 1) true a0.ok
    rw [tagAttrsGo]
    have hc : ¬ (t.readByte.1.err || t.readByte.2 == 62) = true := by rw [e3, e1]; decide
    rw [if_neg hc]
    simp only
    have hne1 : ¬ ((t.readByte.1.unread 1).readAttr true).err = true := by rw [hra.1.2]; exact Bool.false_ne_true
    rw [if_neg hne1]
    have hprog : ((t.readByte.1.unread 1).readAttr true).buf.size - ((t.readByte.1.unread 1).readAttr true).rawE <
        t.buf.size - t.rawE := by
      have := a1.ok.le
      rw [(a0.trans a1).buf] at this ⊢
      rw [hra.1.1, p.1.1] at this ⊢
      omega
    rw [dif_pos hprog]
    have h2 : ((t.readByte.1.unread 1).readAttr true).buf[((t.readByte.1.unread 1).readAttr true).rawE]? = some 62 := by
      rw [(a0.trans a1).buf, hra.1.1, p.1.1]
      have := (Has.tail (a := 47) (l := [62]) h).head
      simpa using this
    obtain ⟨f1, f2, f3, f4⟩ := read_known h2 hra.1.2
    rw [tagAttrsGo]
    simp only [f3, f1, beq_self_eq_true, Bool.or_true, if_true]
    exact ⟨[], by simp [hra.2.1], All2.nil, by simp [hra.2.2]⟩
  | a :: rest, trail, e, t, ok, he, hok, htr, hend, h => by
    have ha := hok a (by simp)
    obtain ⟨_, _, hkne, hk, hval, _, _, _⟩ := SAttr.ok_spec ha
    obtain ⟨W, L, hW, hLT, hlen, hcont⟩ : ∃ (W L : Bytes), (∀ b ∈ W, isWs b = true) ∧
        loopText (a :: rest) trail e = a.key ++ a.vtext ++ W ++ L ∧
        (loopText (a :: rest) trail e).length = a.key.length + a.vtext.length + W.length + L.length ∧
        ((rest = [] ∧ W = trail ∧ L = e.text) ∨
         (∃ b rest', rest = b :: rest' ∧ W = b.ws ∧ L = loopText rest trail e)) := by
      cases rest with
      | nil => exact ⟨trail, e.text, htr, by simp [loopText, List.append_assoc], by simp [loopText]; omega, Or.inl ⟨rfl, rfl, rfl⟩⟩
      | cons b rest' =>
        have hb := SAttr.ok_spec (hok b (by simp))
        exact ⟨b.ws, loopText (b :: rest') trail e, hb.2.1, by simp [loopText, List.append_assoc],
          by simp [loopText]; omega, Or.inr ⟨b, rest', rfl, rfl, rfl⟩⟩
    obtain ⟨d, L', hL, hdws, hd61⟩ : ∃ d L', L = d :: L' ∧ isWs d = false ∧ d ≠ 61 := by
      rcases hcont with ⟨_, _, rfl⟩ | ⟨b, rest', hr, _, rfl⟩
      · cases e <;> exact ⟨_, _, rfl, by decide, by decide⟩
      · exact loopText_head_nws rest trail e (fun x hx => hok x (by simp [hx]))
    have hopen : a.val.open = true → W = [] → d = 62 := by
      intro ho hw
      rcases hcont with ⟨hr, hWt, hLe⟩ | ⟨b, rest', hr, hWb, _⟩
      · subst hr
        cases e with
        | gt => simp only [TagEnd.text] at hLe; rw [hLe] at hL; injection hL with h1 _; exact h1.symm
        | slashGt =>
          exfalso
          simp only [endOK, List.getLast?_singleton, Bool.or_eq_true, Bool.not_eq_true'] at hend
          rcases hend with h1 | h1
          · rw [ho] at h1; cases h1
          · rw [← hWt, hw] at h1; simp at h1
      · exfalso
        have hb := SAttr.ok_spec (hok b (by rw [hr]; simp))
        exact hb.1 (by rw [← hWb, hw])
    cases hkey : a.key with
    | nil => exact absurd hkey hkne
    | cons c kr =>
      have hc := hk c (by rw [hkey]; simp)
      have hc62 : c ≠ 62 := by
        simp only [keyByte, Bool.and_eq_true, Bool.not_eq_true', bne_iff_ne, ne_eq] at hc; exact hc.2
      have hhead : t.buf[t.rawE]? = some c := by
        have : Has t t.rawE (c :: (kr ++ a.vtext ++ W ++ L)) := by
          rw [hLT, hkey] at h; simpa [List.append_assoc] using h
        exact this.head
      obtain ⟨e1, e2, e3, e4⟩ := read_known hhead he
      have hne : ¬ t.readByte.1.err = true := by rw [e3]; exact Bool.false_ne_true
      have a0 := read_unread_adv ok hne
      have p := peek_run hhead he
      have hit : Has (t.readByte.1.unread 1) (t.readByte.1.unread 1).rawE (a.key ++ a.vtext ++ W ++ [d]) := by
        have h1 : Has t t.rawE ((a.key ++ a.vtext ++ W ++ [d]) ++ L') := by
          rw [hLT, hL] at h; simpa [List.append_assoc] using h
        exact (h1.left.congr a0.buf).at (by rw [p.1.1]; simp)
      have hra := readAttr_run a W d (t.readByte.1.unread 1) true a0.ok p.1.2 ha ⟨hW, hdws, hd61⟩ hopen hit
      obtain ⟨vs, sp1, sp2, _, _, sp5⟩ := readAttr_span a W d (t.readByte.1.unread 1) a0.ok p.1.2 ha ⟨hW, hdws, hd61⟩ hopen hit
      have a1 := readAttr_adv (t.readByte.1.unread 1) true a0.ok
      rw [tagAttrsGo]
      have hcnd : ¬ (t.readByte.1.err || t.readByte.2 == 62) = true := by
        rw [e3, e1]; simpa using hc62
      rw [if_neg hcnd]
      simp only
      have hne1 : ¬ ((t.readByte.1.unread 1).readAttr true).err = true := by rw [hra.2]; exact Bool.false_ne_true
      rw [if_neg hne1]
      have hklen : 0 < a.key.length := by rw [hkey]; simp
      have hprog : ((t.readByte.1.unread 1).readAttr true).buf.size - ((t.readByte.1.unread 1).readAttr true).rawE <
          t.buf.size - t.rawE := by
        have := a1.ok.le
        rw [(a0.trans a1).buf] at this ⊢
        rw [hra.1, p.1.1] at this ⊢
        omega
      rw [dif_pos hprog]
      have hrawE : ((t.readByte.1.unread 1).readAttr true).rawE =
          t.rawE + (a.key.length + a.vtext.length + W.length) := by rw [hra.1, p.1.1]; omega
      have hLhas : Has ((t.readByte.1.unread 1).readAttr true) ((t.readByte.1.unread 1).readAttr true).rawE L := by
        have h1 : Has t t.rawE ((a.key ++ a.vtext ++ W) ++ L) := by rw [hLT] at h; exact h
        have := h1.right
        simp only [List.length_append] at this
        exact (this.congr (a0.trans a1).buf).at hrawE
      have hLrest : L = loopText rest trail e := by
        rcases hcont with ⟨hr, _, hLe⟩ | ⟨b, rest', hr, _, hLl⟩
        · rw [hr, hLe]; rfl
        · exact hLl
      have hendr : endOK rest trail e = true := by
        rcases hcont with ⟨hr, _, _⟩ | ⟨b, rest', hr, _, _⟩
        · rw [hr]; cases e <;> rfl
        · rw [hr] at hend ⊢; exact endOK_tail hend
      obtain ⟨spans, i1, i2, i3⟩ := tagAttrsGo_span rest trail e ((t.readByte.1.unread 1).readAttr true) a1.ok hra.2
        (fun x hx => hok x (by simp [hx])) htr hendr (by rw [← hLrest]; exact hLhas)
      -- the span of this attribute
      have hso : spanOK t ⟨t.rawE, t.rawE + a.key.length, vs, vs + a.val.value.length⟩ a := by
        have hh : Has t t.rawE (a.key ++ a.vtext ++ (W ++ L)) := by rw [hLT] at h; simpa [List.append_assoc] using h
        refine spanOK_of a t (W ++ L) vs hh ?_
        intro hn
        have := sp2 hn
        rw [p.1.1] at this
        simpa using this
      refine ⟨⟨t.rawE, t.rawE + a.key.length, vs, vs + a.val.value.length⟩ :: spans, ?_, ?_, ?_⟩
      · rw [i1, sp1, p.1.1]
        apply Array.ext'
        simp
      · refine All2.cons hso ?_
        exact All2.imp (fun s a h => h.congr (a0.trans a1).buf.symm) i2
      · rw [i3, sp5]; simp

/-! ### `read_tag` and `next` -/

/-- **the attribute list built by `read_tag`** on a tag of the `Simple` grammar: one span per attribute, in order -/
theorem readTag_span (nm : Bytes) (as : List SAttr) (trail : Bytes) (e : TagEnd) (t : Tokenizer)
    (ok : Ok t) (h1 : 1 ≤ t.rawE) (he : t.err = false) (hnm : ∀ b ∈ nm, nameByte b = true)
    (hok : ∀ a ∈ as, a.ok = true) (htr : ∀ b ∈ trail, isWs b = true) (hend : endOK as trail e = true)
    (h : Has t t.rawE (nm ++ (attrsOf as ++ trail ++ e.text))) :
    ∃ spans : List AttrSpan, (readTag t true).attrs = spans.toArray ∧ All2 (spanOK t) spans as ∧
      (readTag t true).nAttrRet = 0 := by
  unfold readTag
  simp only
  have h0 : Adv t { t with attrs := #[], nAttrRet := 0 } := (Adv.refl ok).congr (by simp [core])
  have a1 := readTagName_adv _ h0.ok h1
  unfold readTagName at a1 ⊢
  have hne : ¬ t.rawE = 0 := by omega
  simp only [hne, if_false] at a1 ⊢
  have h00 : Adv t { t with attrs := #[], nAttrRet := 0, dataS := t.rawE - 1 } := (Adv.refl ok).congr (by simp [core])
  have d := tagNameGo_data { t with attrs := #[], nAttrRet := 0, dataS := t.rawE - 1 } h00.ok
  -- the three shapes of what follows the name
  have key : ∃ (k : Nat) (as' : List SAttr) (W : Bytes) (c : Nat),
      Stops t (tagNameGo { t with attrs := #[], nAttrRet := 0, dataS := t.rawE - 1 }) (nm.length + k) ∧
      (tagNameGo { t with attrs := #[], nAttrRet := 0, dataS := t.rawE - 1 }).dataE = t.rawE + nm.length ∧
      (∀ b ∈ W, isWs b = true) ∧ isWs c = false ∧
      (∃ r, loopText as' trail e = c :: r) ∧ (∀ a ∈ as', a.ok = true) ∧ endOK as' trail e = true ∧ as' = as ∧
      (attrsOf as ++ trail ++ e.text).length = k + W.length + (loopText as' trail e).length ∧
      Has t (t.rawE + nm.length + k) (W ++ loopText as' trail e) := by
    cases as with
    | nil =>
      cases trail with
      | nil =>
        have hd : (e.text.head?.getD 0 = 47 ∨ e.text.head?.getD 0 = 62) := by cases e <;> simp [TagEnd.text]
        obtain ⟨dd, rr, hdd⟩ : ∃ dd rr, e.text = dd :: rr := by cases e <;> exact ⟨_, _, rfl⟩
        have hdd' : dd = 47 ∨ dd = 62 := by rw [hdd] at hd; simpa using hd
        have hh : Has t t.rawE ((nm ++ [dd]) ++ rr) := by
          simp only [attrsOf, List.nil_append, List.append_nil, hdd] at h; simpa [List.append_assoc] using h
        have r := tagNameGo_run_end nm dd { t with attrs := #[], nAttrRet := 0, dataS := t.rawE - 1 }
          (hh.left.congr rfl) hnm hdd' he
        refine ⟨0, [], [], dd, r.1, r.2, by simp, by rcases hdd' with rfl | rfl <;> decide, ⟨rr, by simp [loopText, hdd]⟩,
          by simp, by cases e <;> rfl, rfl, by simp [attrsOf, loopText], ?_⟩
        have := Has.right (a := nm) (b := e.text) (by simpa [attrsOf] using h)
        simpa [loopText] using this
      | cons w tr =>
        have hw : isWs w = true := htr w (by simp)
        have hh : Has t t.rawE ((nm ++ [w]) ++ (tr ++ e.text)) := by
          simp only [attrsOf, List.nil_append] at h; simpa [List.append_assoc] using h
        have r := tagNameGo_run_ws nm w { t with attrs := #[], nAttrRet := 0, dataS := t.rawE - 1 }
          (hh.left.congr rfl) hnm hw he
        obtain ⟨dd, rr, hdd⟩ : ∃ dd rr, e.text = dd :: rr := by cases e <;> exact ⟨_, _, rfl⟩
        refine ⟨1, [], tr, dd, r.1, r.2, fun b hb => htr b (by simp [hb]), by cases e <;> simp [TagEnd.text] at hdd <;>
          (obtain ⟨rfl, _⟩ := hdd; decide), ⟨rr, by simp [loopText, hdd]⟩, by simp, by cases e <;> rfl, rfl,
          by simp [attrsOf, loopText]; omega, ?_⟩
        have := hh.right
        simp only [List.length_append, List.length_singleton] at this
        simpa [loopText, Nat.add_assoc] using this
    | cons a rest =>
      obtain ⟨hwne, hws, _⟩ := SAttr.ok_spec (hok a (by simp))
      cases hwse : a.ws with
      | nil => exact absurd hwse hwne
      | cons w wr =>
        have hw : isWs w = true := hws w (by rw [hwse]; simp)
        have e1 : attrsOf (a :: rest) ++ trail ++ e.text = (w :: wr) ++ loopText (a :: rest) trail e := by
          rw [attrsOf_loopText, hwse]
        have hh : Has t t.rawE ((nm ++ [w]) ++ (wr ++ loopText (a :: rest) trail e)) := by
          rw [e1] at h; simpa [List.append_assoc] using h
        have r := tagNameGo_run_ws nm w { t with attrs := #[], nAttrRet := 0, dataS := t.rawE - 1 }
          (hh.left.congr rfl) hnm hw he
        obtain ⟨c, rr, hc, hcws, _⟩ := loopText_head_nws (a :: rest) trail e hok
        refine ⟨1, a :: rest, wr, c, r.1, r.2, fun b hb => hws b (by rw [hwse]; simp [hb]), hcws, ⟨rr, hc⟩, hok, hend, rfl,
          by rw [e1]; simp; omega, ?_⟩
        have := hh.right
        simp only [List.length_append, List.length_singleton] at this
        simpa [Nat.add_assoc] using this
  obtain ⟨k, as', W, c, k1, k2, kW, kc, ⟨rr, kl⟩, kok, kend, kas, klen, khas⟩ := key
  generalize ({ t with attrs := #[], nAttrRet := 0, dataS := t.rawE - 1 } : Tokenizer).tagNameGo = t1 at *
  have hsw : Has t1 t1.rawE (W ++ [c]) := by
    have h2 : Has t (t.rawE + nm.length + k) ((W ++ [c]) ++ rr) := by rw [kl] at khas; simpa [List.append_assoc] using khas
    exact (h2.left.congr a1.buf).at (by rw [k1.1]; omega)
  have s2 := skipWhiteSpace_run W c t1 hsw kW kc k1.2
  have a2 := skipWhiteSpace_adv _ a1.ok
  have f2 := skipWhiteSpace_frame t1
  generalize t1.skipWhiteSpace = t2 at *
  have hne2 : ¬ t2.err = true := by rw [s2.2]; exact Bool.false_ne_true
  rw [if_neg hne2]
  have hl : Has t2 t2.rawE (loopText as' trail e) := by
    have := khas.right
    exact (this.congr (a1.trans a2).buf).at (by rw [s2.1, k1.1]; omega)
  obtain ⟨spans, r1, r2, r3⟩ := tagAttrsGo_span as' trail e t2 a2.ok s2.2 kok htr kend hl
  have hat : t2.attrs = #[] := by rw [f2.2.2.1, d.2.2.2.1]
  have hnr : t2.nAttrRet = 0 := by rw [f2.2.2.2.1, d.2.2.2.2]
  refine ⟨spans, by rw [r1, hat]; simp, ?_, by rw [r3, hnr]⟩
  rw [← kas]
  exact All2.imp (fun s a h => h.congr (a1.trans a2).buf.symm) r2

/-- **closed form of the attribute list of a start tag** (same hypotheses as `start_tag_closed_form2`): after `next`, the saved
attribute spans are — in order — exactly the keys and the values (without quotes, `[]` for a bare key) of the attributes, and
`number_attribute_returned = 0` -/
theorem attrs_closed_form (t : Tokenizer) (disp : Bytes) (as : List SAttr) (trail : Bytes) (e : TagEnd)
    (ok : Ok t) (he : t.err = false) (htag : t.rawTag = []) (hn : nameOK2 disp = true)
    (hok : ∀ a ∈ as, a.ok = true) (htr : ∀ b ∈ trail, isWs b = true) (hend : endOK as trail e = true)
    (h : Has t t.rawE ([60] ++ disp ++ attrsOf as ++ trail ++ e.text)) :
    ∃ spans : List AttrSpan, (next t).attrs = spans.toArray ∧ All2 (spanOK t) spans as ∧ (next t).nAttrRet = 0 := by
  cases disp with
  | nil => simp [nameOK2] at hn
  | cons c nm =>
    simp only [nameOK2, Bool.and_eq_true, List.all_eq_true] at hn
    obtain ⟨hc, hnm⟩ := hn
    have hx : [60] ++ (c :: nm) ++ attrsOf as ++ trail ++ e.text = 60 :: c :: (nm ++ (attrsOf as ++ trail ++ e.text)) := by
      simp [List.append_assoc]
    rw [hx] at h
    obtain ⟨hnx, o1, o2, o3, o4, o5, o6, o7, o8, o9⟩ := next_dispatch t c ok he htag
      (fun i hi => by have := h i (by simp at hi ⊢; omega); rw [this]; match i, hi with | 0, _ => rfl | 1, _ => rfl)
      (by simp [isOpener, hc])
    generalize opened t = S at *
    have hS : Has S S.rawE (nm ++ (attrsOf as ++ trail ++ e.text)) :=
      ((h.tail.tail).congr o4).at (by rw [o1])
    obtain ⟨spans, r1, r2, r3⟩ := readTag_span nm as trail e S o7 (by omega) o3 hnm hok htr hend hS
    have kp := readStartTag_keep S
    rw [hnx]
    unfold dispatchTag
    simp only [htmlTagOpenLen]
    rw [if_neg (by omega), if_neg (by rw [o2, o1]; omega), if_pos hc]
    refine ⟨spans, ?_, All2.imp (fun s a h => h.congr o4.symm) r2, ?_⟩
    · show (readStartTag S).1.attrs = _; rw [kp.1, r1]
    · show (readStartTag S).1.nAttrRet = _; rw [kp.2, r3]

/-- the bytes of a span that holds a known text -/
theorem extract_of_has {t : Tokenizer} {p : Nat} {l : Bytes} (h : Has t p l) : (t.buf.extract p (p + l.length)).toList = l := by
  rcases has_size h with hs | rfl
  · exact has_extract h hs
  · simp

theorem spans_texts (t : Tokenizer) : ∀ {spans : List AttrSpan} {as : List SAttr}, All2 (spanOK t) spans as →
    spans.map (fun s => ((t.buf.extract s.ks s.ke).toList, (t.buf.extract s.vs s.ve).toList)) =
      as.map (fun a => (a.key, a.val.value))
  | _, _, .nil => rfl
  | _, _, .cons hso rs => by
    simp only [List.map_cons, spans_texts t rs]
    obtain ⟨k1, k2, v1, v2⟩ := hso
    rw [k2, v2, extract_of_has k1, extract_of_has v1]

/-- … as texts: the keys and the values (what `tag_attr()` slices; it then lower-cases the key) -/
theorem attrs_texts (t : Tokenizer) (disp : Bytes) (as : List SAttr) (trail : Bytes) (e : TagEnd)
    (ok : Ok t) (he : t.err = false) (htag : t.rawTag = []) (hn : nameOK2 disp = true)
    (hok : ∀ a ∈ as, a.ok = true) (htr : ∀ b ∈ trail, isWs b = true) (hend : endOK as trail e = true)
    (h : Has t t.rawE ([60] ++ disp ++ attrsOf as ++ trail ++ e.text)) :
    (next t).attrs.toList.map (fun s => ((t.buf.extract s.ks s.ke).toList, (t.buf.extract s.vs s.ve).toList)) =
      as.map (fun a => (a.key, a.val.value)) ∧ (next t).nAttrRet = 0 := by
  obtain ⟨spans, r1, r2, r3⟩ := attrs_closed_form t disp as trail e ok he htag hn hok htr hend h
  rw [r1]
  exact ⟨spans_texts t r2, r3⟩

end Tokenizer
end Rio.Html
