/-
`get_mut(p)` + in-place update of the values found (`Item.modifyAt`): the shape of the tree, hence the
invariant, is untouched, and exactly the values stored under the pattern `p` are updated.
-/
import RioModel.Proofs.TreeSpec
set_option linter.unusedSimpArgs false
set_option linter.unusedVariables false
set_option linter.unusedSectionVars false

namespace Rio.Tree
open Rio.Scan Rio.Regex

variable {ι V : Type} [DecidableEq ι]

theorem modifyAtL_eq (cs : List (Item ι V)) (p : List Char) (g : ι → V → V) :
    modifyAtL cs p g = cs.map fun c => c.modifyAt p g := by
  induction cs with
  | nil => simp [modifyAtL]
  | cons c cs ih => simp [modifyAtL, ih]

theorem modifyAt_empty (ic : Bool) (p : List Char) (g : ι → V → V) :
    (Item.empty ic : Item ι V).modifyAt p g = .empty ic := by rw [Item.modifyAt]
theorem modifyAt_leaf (rx) (vs : List (ι × V)) (p : List Char) (g : ι → V → V) :
    (Item.leaf rx vs).modifyAt p g =
      if rx.original = p then .leaf rx (vs.map fun kv => (kv.1, g kv.1 kv.2)) else .leaf rx vs := by
  rw [Item.modifyAt]
theorem modifyAt_node (rx) (cs : List (Item ι V)) (p : List Char) (g : ι → V → V) :
    (Item.node rx cs).modifyAt p g =
      if rx.original.isPrefixOf p then .node rx (cs.map fun c => c.modifyAt p g) else .node rx cs := by
  rw [Item.modifyAt, modifyAtL_eq]

theorem regex_modifyAt (t : Item ι V) (p : List Char) (g : ι → V → V) : (t.modifyAt p g).regex = t.regex := by
  cases t with
  | empty ic => rw [modifyAt_empty]
  | leaf rx vs => rw [modifyAt_leaf]; split <;> rfl
  | node rx cs => rw [modifyAt_node]; split <;> rfl

theorem childOk_modifyAt (q : List Char) (t : Item ι V) (p : List Char) (g : ι → V → V) :
    childOk q (t.modifyAt p g) = childOk q t := by
  cases t with
  | empty ic => rw [modifyAt_empty]
  | leaf rx vs => rw [modifyAt_leaf]; split <;> rfl
  | node rx cs => rw [modifyAt_node]; split <;> rfl

/-- The update keeps the invariant (it does not touch patterns, ids or the shape). -/
theorem inv_modifyAt {ic : Bool} (t : Item ι V) (p : List Char) (g : ι → V → V) (h : t.inv ic = true) :
    (t.modifyAt p g).inv ic = true := by
  induction t using Item.ind with
  | hE ic' => rw [modifyAt_empty]; exact h
  | hL rx vs =>
    rw [modifyAt_leaf]
    split
    · obtain ⟨h1, h2, h3, h4⟩ := inv_leaf_iff.1 h
      refine inv_leaf_iff.2 ⟨h1, h2, by simpa using h3, ?_⟩
      rw [nodupKeys_iff'] at *
      simpa [List.map_map, Function.comp_def] using h4
    · exact h
  | hN rx cs ih =>
    rw [modifyAt_node]
    split
    · obtain ⟨h1, h2, h3, h4, h5, h6, h7⟩ := inv_node_iff.1 h
      refine inv_node_iff.2 ⟨h1, h2, h3, by simpa using h4, ?_, ?_, ?_⟩
      · intro c hc
        obtain ⟨d, hd, rfl⟩ := List.mem_map.1 hc
        rw [childOk_modifyAt]; exact h5 d hd
      · have : (cs.map fun c => c.modifyAt p g).map Item.regex = cs.map Item.regex := by
          rw [List.map_map]; exact List.map_congr_left fun c _ => regex_modifyAt c p g
        rw [this]; exact h6
      · intro c hc
        obtain ⟨d, hd, rfl⟩ := List.mem_map.1 hc
        exact ih d hd (h7 d hd)
    · exact h

/-- Exactly the values stored under the pattern `p` are updated, nothing else changes (order included). -/
theorem contents_modifyAt {ic : Bool} (t : Item ι V) (p : List Char) (g : ι → V → V) (h : t.inv ic = true) :
    (t.modifyAt p g).contents = refModify t.contents p g := by
  induction t using Item.ind with
  | hE ic' => rw [modifyAt_empty]; simp [refModify]
  | hL rx vs =>
    rw [modifyAt_leaf]
    split
    · next hp => simp [refModify, hp, Function.comp_def]
    · next hp => simp [refModify, hp, Function.comp_def]
  | hN rx cs ih =>
    obtain ⟨_, _, _, _, _, _, h7⟩ := inv_node_iff.1 h
    have hbelow := inv_below h
    rw [modifyAt_node]
    split
    · rw [contents_node, contents_node, contentsL_eq, contentsL_eq, List.flatMap_map, refModify, List.map_flatMap]
      exact flatMap_congr' fun c hc => ih c hc (h7 c hc)
    · next hpre =>
      rw [contents_node, refModify]
      symm
      conv => rhs; rw [← List.map_id (contentsL cs)]
      apply List.map_congr_left
      intro e he
      have : e.pat ≠ p := by
        intro hep
        have := (hbelow e he).1
        rw [hep] at this
        exact hpre (List.isPrefixOf_iff_prefix.2 this)
      simp [this]

theorem len_modifyAt {ic : Bool} (t : Item ι V) (p : List Char) (g : ι → V → V) (h : t.inv ic = true) :
    (t.modifyAt p g).len = t.len := by
  rw [len_spec, len_spec, contents_modifyAt t p g h, refModify, List.length_map]

end Rio.Tree
