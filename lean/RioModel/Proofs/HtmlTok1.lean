/-
Token-level laws of the tokenizer model, part 1 (was the bulk of HtmlStream4; split off so that it depends only on the
filter MODEL and `FilterUtf8`, not on the filter proofs): UTF-8 character boundaries, the loop invariant of the token
loop, tag tokens are spans.  The statements in W6's vocabulary (`TokValid`, `TagSpan`) are in HtmlStream4.
-/
import RioModel.Proofs.HtmlStream3
import RioModel.Proofs.FilterUtf8
import RioModel.Proofs.Filter
import RioModel.Model.FilterHtml
set_option linter.unusedSimpArgs false
set_option linter.unusedVariables false

namespace Rio.Filter
open Rio.Html Rio.Html.Tokenizer

/-! ### UTF-8: a cut next to an ASCII byte is a character boundary -/

/-- invariant of the reachable validator states -/
def GoodSt (s : U8St) : Prop := 128 ≤ s.lo ∧ (s.need = 0 → s = {})

theorem goodSt_init : GoodSt {} := ⟨by decide, fun _ => rfl⟩

theorem u8Step_good {s s' : U8St} {b : Nat} (h : u8Step s b = some s') : GoodSt s' := by
  refine ⟨?_, fun h0 => u8Step_need0 s s' b h h0⟩
  unfold u8Step at h
  split at h
  · repeat' split at h
    all_goals (first | (injection h with h; subst h; decide) | simp at h)
  · split at h
    · injection h with h; subst h; exact Nat.le_refl _
    · simp at h

theorem u8Run_good : ∀ (a : Bytes) (s s' : U8St), GoodSt s → u8Run s a = some s' → GoodSt s'
  | [], s, s', g, h => by simp only [u8Run] at h; injection h with h; subst h; exact g
  | b :: bs, s, s', g, h => by
    simp only [u8Run] at h
    cases hs : u8Step s b with
    | none => simp [hs] at h
    | some s1 =>
      simp only [hs] at h
      exact u8Run_good bs s1 s' (u8Step_good hs) h

/-- an ASCII byte is accepted only at a character boundary, and leaves the validator at one -/
theorem u8Step_ascii {s s' : U8St} {b : Nat} (g : GoodSt s) (hb : b < 128) (h : u8Step s b = some s') :
    s = {} ∧ s' = {} := by
  unfold u8Step at h
  by_cases h0 : s.need = 0
  · simp only [h0, if_true, hb] at h
    injection h with h
    exact ⟨g.2 h0, h.symm⟩
  · simp only [h0, if_false] at h
    split at h
    · rename_i hr
      simp only [Bool.and_eq_true, decide_eq_true_eq] at hr
      have := g.1
      omega
    · simp at h

/-- **cut lemma**: if `a ++ b` is complete valid UTF-8 and the cut is at an end of the string or next to an ASCII
byte, then `a` is complete valid (and so is `b`, by `V_of_append_left`) -/
theorem V_cut {a b : Bytes} (h : V (a ++ b))
    (hc : b = [] ∨ (∃ c r, b = c :: r ∧ c < 128) ∨ a = [] ∨ (∃ c r, a = r ++ [c] ∧ c < 128)) : V a := by
  unfold V at *
  rw [u8Run_append] at h
  cases ha : u8Run {} a with
  | none => simp [ha] at h
  | some s =>
    simp only [ha] at h
    have gs := u8Run_good a {} s goodSt_init ha
    rcases hc with rfl | ⟨c, r, rfl, hc⟩ | rfl | ⟨c, r, rfl, hc⟩
    · simp only [u8Run] at h; exact h
    · simp only [u8Run] at h
      cases hs : u8Step s c with
      | none => simp [hs] at h
      | some s1 => rw [(u8Step_ascii gs hc hs).1]
    · simp only [u8Run] at ha; exact ha.symm
    · rw [u8Run_append] at ha
      cases hr : u8Run {} r with
      | none => simp [hr] at ha
      | some s0 =>
        simp only [hr, u8Run] at ha
        have g0 := u8Run_good r {} s0 goodSt_init hr
        cases hs : u8Step s0 c with
        | none => simp [hs] at ha
        | some s1 =>
          simp only [hs] at ha
          injection ha with ha
          rw [← ha, (u8Step_ascii g0 hc hs).2]

/-! ### prefixes of the buffer that are complete valid -/

theorem vp_at {l : Bytes} (hv : V l) (i c : Nat) (h : l[i]? = some c) (hc : c < 128) : V (l.take i) := by
  have hi : i < l.length := by
    rcases Nat.lt_or_ge i l.length with h' | h'
    · exact h'
    · rw [List.getElem?_eq_none h'] at h; cases h
  have e : l = l.take i ++ l.drop i := (List.take_append_drop i l).symm
  rw [e] at hv
  refine V_cut hv (Or.inr (Or.inl ⟨c, l.drop (i + 1), ?_, hc⟩))
  rw [List.drop_eq_getElem_cons hi]
  rw [List.getElem?_eq_getElem hi] at h
  injection h with h
  rw [h]

theorem vp_before {l : Bytes} (hv : V l) (i c : Nat) (hi : 1 ≤ i) (h : l[i - 1]? = some c) (hc : c < 128) :
    V (l.take i) := by
  have hi' : i - 1 < l.length := by
    rcases Nat.lt_or_ge (i - 1) l.length with h' | h'
    · exact h'
    · rw [List.getElem?_eq_none h'] at h; cases h
  have e : l = l.take i ++ l.drop i := (List.take_append_drop i l).symm
  rw [e] at hv
  refine V_cut hv (Or.inr (Or.inr (Or.inr ⟨c, l.take (i - 1), ?_, hc⟩)))
  have : i = i - 1 + 1 := by omega
  rw [this, List.take_succ, h]
  simp

theorem vp_end {l : Bytes} (hv : V l) (i : Nat) (hi : l.length ≤ i) : V (l.take i) := by
  rw [List.take_of_length_le hi]; exact hv

/-- a span between two valid prefixes is complete valid -/
theorem V_span {l : Bytes} (i j : Nat) (hij : i ≤ j) (hi : V (l.take i)) (hj : V (l.take j)) :
    V ((l.take j).drop i) := by
  have e : l.take j = l.take i ++ (l.take j).drop i := by
    have := (List.take_append_drop i (l.take j)).symm
    rw [List.take_take, Nat.min_eq_left hij] at this
    exact this
  rw [e] at hj
  exact V_of_append_left hj hi

theorem V_drop {l : Bytes} (hv : V l) (i : Nat) (hi : V (l.take i)) : V (l.drop i) := by
  have e : l = l.take i ++ l.drop i := (List.take_append_drop i l).symm
  rw [e] at hv
  exact V_of_append_left hv hi

theorem extract_toList_eq (a : Array Nat) (i j : Nat) : (a.extract i j).toList = (a.toList.take j).drop i := by
  rw [Array.toList_extract, List.extract_eq_take_drop, List.drop_take]

/-- the prefix of the buffer up to `raw.end` is complete valid UTF-8 -/
def Vp (t : Tokenizer) : Prop := V (t.buf.toList.take t.rawE)

theorem vp_of_end (t : Tokenizer) (hv : V t.buf.toList) (hle : t.rawE ≤ t.buf.size) (eg : ErrGe t) (h : Tokenizer.End t) : Vp t := by
  unfold Vp
  rcases h with h | h | h
  · exact vp_end hv _ (by have := eg h; simpa using this)
  · exact vp_before hv _ 62 h.1 (by rw [Array.getElem?_toList]; exact h.2) (by decide)
  · exact vp_at hv _ 60 (by rw [Array.getElem?_toList]; exact h) (by decide)

theorem rawL_valid (t : Tokenizer) (inv : Tokenizer.Inv t) (h1 : V (t.buf.toList.take t.rawS)) (h2 : Vp t) : V (rawL t) := by
  unfold rawL
  rw [extract_toList_eq]
  exact V_span _ _ inv.raw h1 h2

/-! ### `TokValid` and `TagSpan` for the concrete tokenizer -/

/-- (copy of W6's `tagName_cases'`, so that this file does not depend on the filter proofs) -/
theorem tagName_cases3 (t : Tokenizer) :
    (tagName t).1 = .panic ∨ (tagName t).2 = t ∨ (tagName t).2 = { t with dataS := t.rawE, dataE := t.rawE } := by
  unfold tagName
  (repeat' split) <;> simp

/-- the accessor `tag_name()` does not touch what `next()` and the raw spans depend on (copy of W6's `tagName_frame`) -/
theorem tagName_frame3 (t : Tokenizer) (x : Option (List Nat) × Bool) (h : (tagName t).1 = .ok x) (hi : Tokenizer.Inv t) :
    Tokenizer.Inv (tagName t).2 ∧ restL (tagName t).2 = restL t := by
  rcases tagName_cases3 t with hc | hc | hc
  · rw [hc] at h; cases h
  · rw [hc]; exact ⟨hi, rfl⟩
  · rw [hc]
    exact ⟨⟨hi.raw, ⟨hi.ok.le, hi.ok.panic, hi.ok.hang, hi.ok.utf8⟩, hi.tag⟩, rfl⟩

theorem tagName_same (t : Tokenizer) (x : Option (List Nat) × Bool) (h : (tagName t).1 = .ok x) :
    (tagName t).2.buf = t.buf ∧ (tagName t).2.rawE = t.rawE ∧ (tagName t).2.err = t.err := by
  rcases tagName_cases3 t with hc | hc | hc
  · rw [hc] at h; cases h
  · rw [hc]; exact ⟨rfl, rfl, rfl⟩
  · rw [hc]; exact ⟨rfl, rfl, rfl⟩

/-- what the token loop of `htmlTokenize` maintains -/
structure LoopInv (t : Tokenizer) : Prop where
  inv : Tokenizer.Inv t
  eg : ErrGe t
  hv : V t.buf.toList
  vp : Vp t

theorem LoopInv.next {t : Tokenizer} (h : LoopInv t) : LoopInv (next t) := by
  have i1 := next_inv' t h.inv
  have e1 := next_errGe t h.eg
  have hb := next_buf' t h.inv
  have hv1 : V (Tokenizer.next t).buf.toList := by rw [hb]; exact h.hv
  exact ⟨i1, e1, hv1, vp_of_end _ hv1 i1.ok.le e1 (next_end t h.inv)⟩

theorem LoopInv.tagName {t : Tokenizer} (h : LoopInv t) (x : Option (List Nat) × Bool) (hx : (tagName t).1 = .ok x) :
    LoopInv (tagName t).2 := by
  have f := tagName_frame3 t x hx h.inv
  have s := tagName_same t x hx
  refine ⟨f.1, ?_, by rw [s.1]; exact h.hv, ?_⟩
  · intro he; rw [s.2.2] at he; have := h.eg he; rw [s.1, s.2.1]; exact this
  · unfold Vp; rw [s.1, s.2.1]; exact h.vp

theorem LoopInv.raw_valid {t : Tokenizer} (h : LoopInv t) : V (rawL (Tokenizer.next t)) := by
  have h1 := h.next
  refine rawL_valid _ h1.inv ?_ h1.vp
  rw [next_buf' t h.inv, next_rawS' t h.inv]
  exact h.vp

theorem tokenizeGo_valid : ∀ (n : Nat) (t : Tokenizer) (acc ts : List Tok) (r : Bytes), LoopInv t →
    tokenizeGo n t acc = some (ts, r) → (∀ x ∈ acc, V x.raw) → ∀ x ∈ ts, V x.raw
  | 0, _, _, _, _, _, h, _ => by simp [tokenizeGo] at h
  | n + 1, t, acc, ts, r, hi, h, hacc => by
    have hi1 := hi.next
    have hrv := hi.raw_valid
    rw [tokenizeGo] at h
    split at h
    · simp at h
    · split at h
      · rw [raw_eq _ hi1.inv, buffered_eq _ hi1.inv] at h
        simp only at h
        injection h with h
        injection h with h1 h2
        subst h1
        intro x hx
        exact hacc x (by simpa using hx)
      · rw [raw_eq _ hi1.inv] at h
        simp only at h
        split at h
        · split at h
          · rename_i nm b t2 htn
            have hl := hi1.tagName (some nm, b) (by rw [htn])
            rw [htn] at hl
            exact tokenizeGo_valid n t2 _ ts r hl h (by
              intro x hx
              simp only [List.mem_cons] at hx
              rcases hx with rfl | hx
              · exact hrv
              · exact hacc x hx)
          · rename_i b t2 htn
            have hl := hi1.tagName (none, b) (by rw [htn])
            rw [htn] at hl
            exact tokenizeGo_valid n t2 _ ts r hl h (by
              intro x hx
              simp only [List.mem_cons] at hx
              rcases hx with rfl | hx
              · exact hrv
              · exact hacc x hx)
          · simp at h
        · exact tokenizeGo_valid n _ _ ts r hi1 h (by
            intro x hx
            simp only [List.mem_cons] at hx
            rcases hx with rfl | hx
            · exact hrv
            · exact hacc x hx)

theorem loopInv_new (d : Bytes) (hv : V d) : LoopInv (Tokenizer.new d.toArray) := by
  refine ⟨⟨Nat.le_refl _, ⟨Nat.zero_le _, rfl, rfl, rfl⟩, TagOk_nil⟩, ?_, ?_, ?_⟩
  · intro h; cases h
  · simpa [Tokenizer.new] using hv
  · unfold Vp; simp only [Tokenizer.new, List.take_zero]; exact V_nil

/-! ### tag tokens are `<`…`>` spans -/

theorem rawL_isSpan (t : Tokenizer) (inv : Tokenizer.Inv t) (f : TagFacts t) (hlt : t.rawS < t.rawE) :
    IsSpan (rawL t) := by
  unfold rawL IsSpan
  rw [extract_toList_eq]
  constructor
  · rw [List.head?_drop, List.getElem?_take, if_pos hlt, Array.getElem?_toList]
    exact f.first
  · rw [List.getLast?_drop]
    have hlen : (t.buf.toList.take t.rawE).length = t.rawE := by
      simp; exact Nat.min_eq_left inv.ok.le
    rw [hlen, if_neg (by omega), List.getLast?_take, if_neg (by omega), Array.getElem?_toList, f.last.2]
    rfl

end Rio.Filter
