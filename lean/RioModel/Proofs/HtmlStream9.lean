/-
Stream laws, part 9: the RESTART LAW with a context (`RestartLaw htmlTokenize`, W6's FilterStreamLaws.lean) — every cut
is safe since fe7eac6: what the filter keeps (`tail`, from the first byte of the first held token) re-tokenised with
`new_fragment(tail ++ next chunk, remembered context)` continues the token stream exactly (up to merging a plain text
that was cut by the end of the chunk with the text that follows).
-/
import RioModel.Proofs.HtmlStream8
set_option linter.unusedSimpArgs false
set_option linter.unusedVariables false

namespace Rio.Filter
open Rio.Html Rio.Html.Tokenizer Rio.Consts

/-! ### related tokenizers produce the same records -/

theorem tokXOf_sim {F : Prop} {p : Nat} {t u : Tokenizer} (c : Bytes) (s : CoreT F p t u) (inv : Tokenizer.Inv u)
    (sp : Spans u) : tokXOf c t = tokXOf c u := by
  unfold tokXOf
  rw [tokOf_sim s inv sp, s.1.err]

theorem toksXGo_sim_full {p : Nat} : ∀ (n : Nat) (t u : Tokenizer), Pre True p t u → Tokenizer.Inv t → Tokenizer.Inv u →
    toksXGo n t = toksXGo n u
  | 0, t, u, c, _, iu => by simp only [toksXGo]; rw [restL_sim c trivial iu.ok.le, c.rawTag]
  | n + 1, t, u, c, it, iu => by
    have s := next_sim t u c iu (Or.inl trivial)
    have iu1 := next_inv' u iu
    have it1 := next_inv' t it
    have sp := (next_post u iu).spans
    simp only [toksXGo, s.2]
    rw [tokXOf_sim _ s iu1 sp, s.rawL iu1, restL_sim s.1.toPre trivial iu1.ok.le, c.rawTag,
      toksXGo_sim_full n _ _ s.1.toPre it1 iu1]

theorem toksX_sim_full {p : Nat} (t u : Tokenizer) (c : Pre True p t u) (it : Tokenizer.Inv t) (iu : Tokenizer.Inv u) :
    toksX t = toksX u := by
  unfold toksX
  have hsz : t.buf.size - t.rawE = u.buf.size - u.rawE := by
    have := c.full trivial; have := c.rawE; omega
  rw [hsz]
  exact toksXGo_sim_full _ t u c it iu

/-- **RESTART on the level of record lists, any context** -/
theorem toksX_restart (t : Tokenizer) (inv : Tokenizer.Inv t) (herr : t.err = false) (hc : RawCtx t.rawTag) :
    toksX t = toksX (restartCtx t) :=
  toksX_sim_full t (restartCtx t) (pre_restart_ctx t inv herr hc) inv (restartCtx_inv t inv hc)

/-! ### prefix stability on the level of record lists -/

/-- the first `k` records -/
def firstToksX : Nat → Tokenizer → List TokX
  | 0, _ => []
  | k + 1, t => tokXOf t.rawTag (Tokenizer.next t) :: firstToksX k (Tokenizer.next t)

theorem toksOf_firstToksX (k : Nat) (t : Tokenizer) : toksOf (firstToksX k t) = firstToks k t := by
  induction k generalizing t with
  | zero => rfl
  | succ k ih => simp only [firstToksX, firstToks, toksOf, List.map_cons] at ih ⊢; rw [ih]; rfl

theorem firstToksX_succ_back (k : Nat) (t : Tokenizer) :
    firstToksX (k + 1) t = firstToksX k t ++ [tokXOf (nextsF k t).rawTag (Tokenizer.next (nextsF k t))] := by
  induction k generalizing t with
  | zero => rfl
  | succ k ih => simp only [firstToksX, nextsF, List.cons_append]; rw [← ih (Tokenizer.next t)]; rfl

/-- records produced before `err` was set are not cut -/
theorem firstToksX_uncut (k : Nat) (t : Tokenizer) (hk : (nextsF k t).err = false) :
    ∀ x ∈ firstToksX k t, x.cut = false := by
  induction k generalizing t with
  | zero => intro x hx; cases hx
  | succ k ih =>
    intro x hx
    simp only [firstToksX, List.mem_cons] at hx
    simp only [nextsF] at hk
    rcases hx with rfl | hx
    · show (Tokenizer.next t).err = false
      cases h : (Tokenizer.next t).err with
      | false => rfl
      | true => rw [nextsF_err_sticky k _ h] at hk; cases hk
    · exact ih _ hk x hx

theorem toksX_split (k : Nat) (t : Tokenizer) (inv : Tokenizer.Inv t) (hk : (nextsF k t).err = false) :
    toksX t = (firstToksX k t ++ (toksX (nextsF k t)).1, (toksX (nextsF k t)).2) := by
  induction k generalizing t with
  | zero => simp [firstToksX, nextsF]
  | succ k ih =>
    have i1 := next_inv' t inv
    have hne : ¬ ((Tokenizer.next t).token == TokenType.error) = true := by
      intro he
      have he' : (Tokenizer.next t).token = .error := by simpa using he
      have := nextsF_err_sticky k _ (next_error_err t inv he')
      simp only [nextsF] at hk
      rw [this] at hk; cases hk
    rw [toksX_unfold t inv, if_neg hne, ih _ i1 hk]
    simp [firstToksX, nextsF]

theorem toksX_prefix (k : Nat) (T u : Tokenizer) (c : Pre False 0 T u) (iT : Tokenizer.Inv T) (iu : Tokenizer.Inv u)
    (hk : (nextsF k u).err = false) :
    toksX T = (firstToksX k u ++ (toksX (nextsF k T)).1, (toksX (nextsF k T)).2) ∧ Pre False 0 (nextsF k T) (nextsF k u) := by
  induction k generalizing T u with
  | zero => exact ⟨by simp [firstToksX, nextsF], c⟩
  | succ k ih =>
    have herr1 : (Tokenizer.next u).err = false := by
      cases h : (Tokenizer.next u).err with
      | false => rfl
      | true => have := nextsF_err_sticky k _ h; simp only [nextsF] at hk; rw [this] at hk; cases hk
    have s := next_sim T u c iu (Or.inr herr1)
    have iu1 := next_inv' u iu
    have iT1 := next_inv' T iT
    have sp := (next_post u iu).spans
    have hne : ¬ ((Tokenizer.next T).token == TokenType.error) = true := by
      rw [s.2]
      intro he
      have he' : (Tokenizer.next u).token = .error := by simpa using he
      rw [next_error_err u iu he'] at herr1; cases herr1
    have r := ih _ _ s.1.toPre iT1 iu1 hk
    refine ⟨?_, r.2⟩
    rw [toksX_unfold T iT, if_neg hne, r.1, tokXOf_sim _ s iu1 sp, c.rawTag]
    simp [firstToksX, nextsF]

/-- shape of `toksX`: `m` proper records, then the `ErrorToken` -/
theorem toksX_shape : ∀ (n : Nat) (t : Tokenizer), Tokenizer.Inv t → t.buf.size - t.rawE + 1 ≤ n →
    (toksX t).1 = firstToksX (toksX t).1.length t ∧
    (Tokenizer.next (nextsF (toksX t).1.length t)).token = .error ∧
    (toksX t).2 = (restL (nextsF (toksX t).1.length t), (nextsF (toksX t).1.length t).rawTag) ∧
    (∀ i, i < (toksX t).1.length → (nextsF i t).err = false)
  | 0, _, _, hf => by omega
  | n + 1, t, inv, hf => by
    have i1 := next_inv' t inv
    by_cases he : ((Tokenizer.next t).token == TokenType.error) = true
    · have he' : (Tokenizer.next t).token = .error := by simpa using he
      rw [toksX_unfold t inv, if_pos he]
      exact ⟨rfl, he', rfl, fun i hi => absurd hi (Nat.not_lt_zero _)⟩
    · have hne : (Tokenizer.next t).token ≠ .error := by simpa using he
      have hgt := next_rawE_gt t inv hne
      have hb := next_buf' t inv
      have hle := i1.ok.le
      have ih := toksX_shape n _ i1 (by rw [hb] at hle ⊢; omega)
      have h0 : t.err = false := by
        cases h : t.err with
        | false => rfl
        | true => exact absurd (next_after_err t h).1 hne
      rw [toksX_unfold t inv, if_neg he]
      simp only [List.length_cons, firstToksX, nextsF]
      refine ⟨by rw [← ih.1], ih.2.1, ih.2.2.1, ?_⟩
      intro i hi
      cases i with
      | zero => exact h0
      | succ i => simp only [nextsF]; exact ih.2.2.2 i (by omega)

/-! ### the exact restart -/

theorem nextsF_rawCtx (k : Nat) (t : Tokenizer) (inv : Tokenizer.Inv t) (h : RawCtx t.rawTag) :
    RawCtx (nextsF k t).rawTag := by
  induction k generalizing t with
  | zero => exact h
  | succ k ih => exact ih _ (next_inv' t inv) (next_rawCtx t inv h)

theorem newFragment_setCdata (b : Array Nat) (c : List Nat) :
    (Tokenizer.newFragment b c).setAllowCdata true = Tokenizer.newFragment b c := by
  unfold Tokenizer.newFragment setAllowCdata
  split <;> rfl

theorem extract_drop_append (a1 a' : Bytes) (e : Nat) (hle : e ≤ a1.length) :
    (a1 ++ a').toArray.extract e (a1 ++ a').toArray.size = (a1.drop e ++ a').toArray := by
  apply Array.ext'
  simp only [Array.toList_extract, List.toList_toArray, List.extract_eq_take_drop, List.size_toArray]
  rw [List.drop_append_of_le_length hle, List.take_of_length_le (by simp; omega)]

/-- **restart at the `k`-th token boundary, any context**: if after `k` records of `a1` (context `c`) EOF has not been
hit, then `a1 ++ a'` yields those `k` records followed by the records of `(unread rest of a1) ++ a'` in the context
reached there -/
theorem restartX_at (c a1 a' : Bytes) (hc : Ctx c) (hv : V a1) (k : Nat)
    (herr : (nextsF k (Tokenizer.newFragment a1.toArray c)).err = false) :
    toksX (Tokenizer.newFragment (a1 ++ a').toArray c) =
      (firstToksX k (Tokenizer.newFragment a1.toArray c) ++
        (toksX (Tokenizer.newFragment (a1.drop (nextsF k (Tokenizer.newFragment a1.toArray c)).rawE ++ a').toArray
          (nextsF k (Tokenizer.newFragment a1.toArray c)).rawTag)).1,
       (toksX (Tokenizer.newFragment (a1.drop (nextsF k (Tokenizer.newFragment a1.toArray c)).rawE ++ a').toArray
          (nextsF k (Tokenizer.newFragment a1.toArray c)).rawTag)).2) ∧
    V (a1.drop (nextsF k (Tokenizer.newFragment a1.toArray c)).rawE) ∧
    Ctx (nextsF k (Tokenizer.newFragment a1.toArray c)).rawTag := by
  have iu := newFragment_inv8 a1 c
  have iT := newFragment_inv8 (a1 ++ a') c
  have fu := newFragment_fields a1.toArray c
  have fT := newFragment_fields (a1 ++ a').toArray c
  have li := loopInv_nextsF k _ (loopInv_newFragment a1 c hv hc)
  have hbu : (nextsF k (Tokenizer.newFragment a1.toArray c)).buf = a1.toArray := (nextsF_buf k _ iu).trans fu.1
  have hctx := nextsF_rawCtx k _ iu (newFragment_rawCtx a1.toArray c)
  generalize hs : nextsF k (Tokenizer.newFragment a1.toArray c) = s at *
  have hle : s.rawE ≤ a1.length := by have := li.inv.ok.le; rw [hbu] at this; simpa using this
  have hvp : V (a1.take s.rawE) := by have := li.vp; unfold Vp at this; rw [hbu] at this; simpa using this
  refine ⟨?_, V_drop hv _ hvp, hctx⟩
  have pr := toksX_prefix k (Tokenizer.newFragment (a1 ++ a').toArray c) (Tokenizer.newFragment a1.toArray c)
    (by rw [newFragment_append]; exact pre_extend _ _) iT iu (by rw [hs]; exact herr)
  rw [hs] at pr
  generalize hS : nextsF k (Tokenizer.newFragment (a1 ++ a').toArray c) = S at *
  have iS : Tokenizer.Inv S := by rw [← hS]; exact nextsF_inv k _ iT
  have hSbuf : S.buf = (a1 ++ a').toArray := by rw [← hS]; exact (nextsF_buf k _ iT).trans fT.1
  have hScd : S.allowCdata = true := by rw [← hS]; exact (nextsF_cdata k _ iT).trans fT.2.2.2.2.1
  have hSe : S.rawE = s.rawE := by have := pr.2.rawE; omega
  have hStag : S.rawTag = s.rawTag := pr.2.rawTag
  have hrs := toksX_restart S iS (pr.2.err.trans herr) (by rw [hStag]; exact hctx)
  have hres : restartCtx S = Tokenizer.newFragment (a1.drop s.rawE ++ a').toArray s.rawTag := by
    unfold restartCtx
    rw [hSbuf, hSe, hStag, hScd, extract_drop_append a1 a' s.rawE hle, newFragment_setCdata]
  rw [pr.1, hrs, hres]

/-! ### what `view` computes -/

theorem view_all_eq (tk : Tokenize) (c d : Bytes) : (view tk c d).all = toksOf (cutSplit (tk.stream c d).1).1 := rfl

theorem view_rem_eq (tk : Tokenize) (c d : Bytes) :
    (view tk c d).rem = rawsOf (toksOf (cutSplit (tk.stream c d).1).2) ++ (tk.stream c d).2.1 := rfl

theorem isCut_of_uncut {x : TokX} (h : x.cut = false) : isCut x = false := by simp [isCut, h]

theorem cutSplit_uncut_append : ∀ (pre ys : List TokX), (∀ x ∈ pre, x.cut = false) →
    cutSplit (pre ++ ys) = (pre ++ (cutSplit ys).1, (cutSplit ys).2)
  | [], ys, _ => rfl
  | x :: pre, ys, h => by
    have hx : (!isCut x) = true := by rw [isCut_of_uncut (h x (by simp))]; rfl
    have ih := cutSplit_uncut_append pre ys (fun y hy => h y (by simp [hy]))
    unfold cutSplit at ih ⊢
    simp only [List.cons_append, List.takeWhile_cons, List.dropWhile_cons, hx, if_true]
    rw [Prod.mk.injEq] at ih ⊢
    exact ⟨by rw [ih.1], ih.2⟩

/-- the conclusion of the restart law when the restart point is the `k`-th token boundary of `a1` -/
theorem finish_view (c a1 a' : Bytes) (hc : Ctx c) (hv : V a1) (hv' : V a') (k : Nat)
    (herr : (nextsF k (Tokenizer.newFragment a1.toArray c)).err = false) (todo : List Tok) (tail ctx' : Bytes)
    (htodo : todo = toksOf (firstToksX k (Tokenizer.newFragment a1.toArray c)))
    (htail : tail = a1.drop (nextsF k (Tokenizer.newFragment a1.toArray c)).rawE)
    (hctx' : ctx' = (nextsF k (Tokenizer.newFragment a1.toArray c)).rawTag) :
    (view htmlTokenize c (a1 ++ a')).all = todo ++ (view htmlTokenize ctx' (tail ++ a')).all ∧
    (view htmlTokenize c (a1 ++ a')).rem = (view htmlTokenize ctx' (tail ++ a')).rem ∧ V tail ∧ Ctx ctx' := by
  obtain ⟨r1, r2, r3⟩ := restartX_at c a1 a' hc hv k herr
  subst htodo htail hctx'
  refine ⟨?_, ?_, r2, r3⟩
  · rw [view_all_eq, view_all_eq, htmlStream_eq_toksX c _ hc (V_append hv hv'),
      htmlStream_eq_toksX _ _ r3 (V_append r2 hv'), r1]
    simp only
    rw [cutSplit_uncut_append _ _ (firstToksX_uncut k _ herr), toksOf_append]
  · rw [view_rem_eq, view_rem_eq, htmlStream_eq_toksX c _ hc (V_append hv hv'),
      htmlStream_eq_toksX _ _ r3 (V_append r2 hv'), r1]
    simp only
    rw [cutSplit_uncut_append _ _ (firstToksX_uncut k _ herr)]

/-! ### the `plaintext` context: everything up to the end of the data is one text token, and the context never ends -/

theorem next_plaintext (t : Tokenizer) (inv : Tokenizer.Inv t) (eg : ErrGe t) (he : t.err = false)
    (hp : t.rawTag = htmlPlaintext) :
    (Tokenizer.next t).err = true ∧ (Tokenizer.next t).rawTag = htmlPlaintext ∧
    (if t.rawE < t.buf.size then (Tokenizer.next t).token = .text else (Tokenizer.next t).token = .error) := by
  have hne' : (t.rawTag != []) = true := by rw [hp]; decide
  have hpl' : (t.rawTag == htmlPlaintext) = true := by rw [hp]; decide
  have hn : Tokenizer.next t =
      (if (readToEnd { t with rawS := t.rawE, dataS := t.rawE, dataE := t.rawE }).rawE >
            (readToEnd { t with rawS := t.rawE, dataS := t.rawE, dataE := t.rawE }).dataS then
          { ({ (readToEnd { t with rawS := t.rawE, dataS := t.rawE, dataE := t.rawE }) with
                dataE := (readToEnd { t with rawS := t.rawE, dataS := t.rawE, dataE := t.rawE }).rawE,
                textIsRaw := true } : Tokenizer) with
            token := .text, convertNull := true }
        else mainLoop { ({ (readToEnd { t with rawS := t.rawE, dataS := t.rawE, dataE := t.rawE }) with
                dataE := (readToEnd { t with rawS := t.rawE, dataS := t.rawE, dataE := t.rawE }).rawE,
                textIsRaw := true } : Tokenizer) with
            textIsRaw := false, convertNull := false }) := by
    unfold Tokenizer.next nextGo
    simp only [he, hne', hpl', Bool.false_eq_true, if_false, if_true]
  have ok0 : Ok ({ t with rawS := t.rawE, dataS := t.rawE, dataE := t.rawE } : Tokenizer) :=
    ⟨inv.ok.le, inv.ok.panic, inv.ok.hang, inv.ok.utf8⟩
  have hf : ({ t with rawS := t.rawE, dataS := t.rawE, dataE := t.rawE } : Tokenizer).buf = t.buf ∧
      ({ t with rawS := t.rawE, dataS := t.rawE, dataE := t.rawE } : Tokenizer).rawS = t.rawE ∧
      ({ t with rawS := t.rawE, dataS := t.rawE, dataE := t.rawE } : Tokenizer).dataS = t.rawE ∧
      ({ t with rawS := t.rawE, dataS := t.rawE, dataE := t.rawE } : Tokenizer).rawTag = t.rawTag ∧
      ({ t with rawS := t.rawE, dataS := t.rawE, dataE := t.rawE } : Tokenizer).err = t.err := ⟨rfl, rfl, rfl, rfl, rfl⟩
  generalize ({ t with rawS := t.rawE, dataS := t.rawE, dataE := t.rawE } : Tokenizer) = T0 at hn ok0 hf
  obtain ⟨hf1, hf2, hf3, hf4, hf5⟩ := hf
  have a := readToEnd_adv T0 ok0
  have e1 : (readToEnd T0).err = true := readToEnd_err T0
  have g1 : ErrGe (readToEnd T0) := readToEnd_errGe T0 (fun h => by rw [hf5, he] at h; cases h)
  have d1 := readToEnd_data T0
  have hre : (readToEnd T0).rawE = t.buf.size := by
    have h1 := g1 e1; have h2 := a.ok.le; rw [a.buf, hf1] at h1 h2
    exact Nat.le_antisymm h2 h1
  rw [hn]
  have hds : (readToEnd T0).dataS = t.rawE := d1.1.trans hf3
  by_cases hlt : t.rawE < t.buf.size
  · rw [if_pos (by rw [hre, hds]; exact hlt), if_pos hlt]
    exact ⟨e1, (a.rawTag.trans hf4).trans hp, rfl⟩
  · rw [if_neg (by rw [hre, hds]; exact hlt), if_neg hlt]
    generalize hY : ({ ({ (readToEnd T0) with dataE := (readToEnd T0).rawE, textIsRaw := true } : Tokenizer) with
            textIsRaw := false, convertNull := false } : Tokenizer) = Y
    have hYe : Y.err = true := by rw [← hY]; exact e1
    have hYr : Y.rawE = Y.buf.size := by rw [← hY]; show (readToEnd T0).rawE = (readToEnd T0).buf.size; rw [hre, a.buf, hf1]
    have hYs : Y.rawS = Y.rawE := by
      rw [← hY]; show (readToEnd T0).rawS = (readToEnd T0).rawE; rw [a.rawS, hre, hf2]
      have := inv.ok.le; omega
    have hYt : Y.rawTag = htmlPlaintext := by rw [← hY]; exact (a.rawTag.trans hf4).trans hp
    have hr : Y.readByte = ({ Y with err := true }, 0) := by
      unfold readByte; rw [dif_neg (by omega)]
    rw [mainLoop]
    simp only [hr, dite_true]
    unfold finishText
    rw [if_neg (by show ¬ Y.rawS < Y.rawE; omega)]
    exact ⟨rfl, hYt, rfl⟩

/-- the records in the `plaintext` context -/
theorem toksX_plaintext (t : Tokenizer) (inv : Tokenizer.Inv t) (eg : ErrGe t) (he : t.err = false)
    (hp : t.rawTag = htmlPlaintext) :
    toksX t = if t.rawE < t.buf.size then
        ([{ tok := textTok (restL t), cut := true, ctx := htmlPlaintext }], [], htmlPlaintext)
      else ([], [], htmlPlaintext) := by
  obtain ⟨p1, p2, p3⟩ := next_plaintext t inv eg he hp
  have cb := next_cut_buffered t inv eg p1
  have i1 := next_inv' t inv
  by_cases hlt : t.rawE < t.buf.size
  · rw [if_pos hlt] at p3 ⊢
    rw [toksX_unfold t inv, if_neg (by rw [p3]; decide)]
    have h2 := (next_after_err _ p1)
    rw [toksX_unfold _ i1, if_pos (by rw [h2.1]; rfl)]
    simp only
    rw [cb.1, p2, hp]
    have : tokXOf htmlPlaintext (Tokenizer.next t) = { tok := textTok (restL t), cut := true, ctx := htmlPlaintext } := by
      unfold tokXOf tokOf textTok
      rw [p3, p1, cb.2]; rfl
    rw [this]
  · rw [if_neg hlt] at p3 ⊢
    rw [toksX_unfold t inv, if_pos (by rw [p3]; rfl), hp]
    have : restL t = [] := by
      unfold restL; have := inv.ok.le
      have e : t.rawE = t.buf.size := by omega
      rw [e]; simp
    rw [this]

/-! ### a plain text cut by the end of the data merges with what follows (record level) -/

theorem cutSplit_notCut_cons (x : TokX) (xs : List TokX) (h : isCut x = false) :
    cutSplit (x :: xs) = (x :: (cutSplit xs).1, (cutSplit xs).2) := by
  unfold cutSplit
  simp only [List.takeWhile_cons, List.dropWhile_cons, h, Bool.not_false, if_true]

theorem isCut_text_nil (r : Bytes) (e : Bool) : isCut { tok := textTok r, cut := e, ctx := [] } = false := by
  simp [isCut, textTok]

theorem restartCtx_eq_restartOf (t : Tokenizer) (htag : t.rawTag = []) (hcd : t.allowCdata = true) :
    restartCtx t = restartOf t := by
  unfold restartCtx restartOf
  rw [htag, hcd, newFragment_nil]
  rfl

/-- what the filter sees of a record list: the tokens before the first cut one, and the bytes from there on -/
def allOf (r : List TokX × Bytes × Bytes) : List Tok := toksOf (cutSplit r.1).1
def remOf (r : List TokX × Bytes × Bytes) : Bytes := rawsOf (toksOf (cutSplit r.1).2) ++ r.2.1

theorem toksX_text_merge (c a' : Bytes) (hc : c ≠ []) (hno : ∀ b ∈ c, b ≠ 60) :
    normText (allOf (toksX (Tokenizer.new (c ++ a').toArray))) =
      normText (textTok c :: allOf (toksX (Tokenizer.new a'.toArray))) ∧
    remOf (toksX (Tokenizer.new (c ++ a').toArray)) = remOf (toksX (Tokenizer.new a'.toArray)) := by
  have hU : Tokenizer.Inv (Tokenizer.new (c ++ a').toArray) := ⟨Nat.le_refl _, ⟨Nat.zero_le _, rfl, rfl, rfl⟩, TagOk_nil⟩
  have hW : Tokenizer.Inv (Tokenizer.new a'.toArray) := ⟨Nat.le_refl _, ⟨Nat.zero_le _, rfl, rfl, rfl⟩, TagOk_nil⟩
  generalize hUdef : Tokenizer.new (c ++ a').toArray = U at *
  generalize hWdef : Tokenizer.new a'.toArray = W at *
  have hUbuf : U.buf = (c ++ a').toArray := by rw [← hUdef]; rfl
  have hWbuf : W.buf = a'.toArray := by rw [← hWdef]; rfl
  have hU0 : U.rawS = 0 ∧ U.rawE = 0 ∧ U.err = false ∧ U.rawTag = [] ∧ U.allowCdata = true ∧ U.panic = false ∧
      U.hang = false ∧ U.utf8Err = false := by rw [← hUdef]; exact ⟨rfl, rfl, rfl, rfl, rfl, rfl, rfl, rfl⟩
  have hW0 : W.rawS = 0 ∧ W.rawE = 0 ∧ W.err = false ∧ W.rawTag = [] ∧ W.allowCdata = true ∧ W.panic = false ∧
      W.hang = false ∧ W.utf8Err = false := by rw [← hWdef]; exact ⟨rfl, rfl, rfl, rfl, rfl, rfl, rfl, rfl⟩
  have hclen : 0 < c.length := by cases c with | nil => exact absurd rfl hc | cons x xs => simp
  -- the first call on `c ++ a'` = the main loop after skipping `c`
  have hnU : Tokenizer.next U = mainLoop { U with rawE := c.length } := by
    rw [← hUdef, next_new_eq, mainLoop_skip c.length _ rfl (by simp [Tokenizer.new]) (by
      intro i hi
      simp only [Tokenizer.new, Nat.zero_add]
      rw [← Array.getElem?_toList]
      simp only [List.toList_toArray]
      rw [List.getElem?_append_left hi, List.getElem?_eq_getElem hi]
      intro h; injection h with h
      exact hno _ (List.getElem_mem hi) h)]
    simp [Tokenizer.new]
  have hnW : Tokenizer.next W = mainLoop W := by rw [← hWdef, next_new_eq]
  -- the relation between the two main loops
  have pre : Pre True c.length { U with rawE := c.length } W := by
    refine ⟨by simp [hUbuf, hWbuf], ?_, fun _ => by simp [hUbuf, hWbuf], by simp [hW0.2.1], hU0.2.2.1.trans hW0.2.2.1.symm,
      hU0.2.2.2.1.trans hW0.2.2.2.1.symm, hU0.2.2.2.2.1.trans hW0.2.2.2.2.1.symm,
      hU0.2.2.2.2.2.1.trans hW0.2.2.2.2.2.1.symm, hU0.2.2.2.2.2.2.1.trans hW0.2.2.2.2.2.2.1.symm,
      hU0.2.2.2.2.2.2.2.trans hW0.2.2.2.2.2.2.2.symm⟩
    intro i hi
    simp only [hUbuf, hWbuf] at hi ⊢
    rw [← Array.getElem?_toList, ← Array.getElem?_toList]
    simp only [List.toList_toArray]
    rw [List.getElem?_append_right (by omega)]
    simp
  have po := mainLoop_pending { U with rawE := c.length } W pre ⟨by rw [hW0.2.1]; exact Nat.zero_le _, hW0.2.2.2.2.2.1,
    hW0.2.2.2.2.2.2.1, hW0.2.2.2.2.2.2.2⟩ (by simp only [hU0.1, hW0.1]; omega) (by rw [hW0.1, hW0.2.1]; exact Nat.le_refl _)
  rw [← hnU, ← hnW] at po
  obtain ⟨p1, p2, p3, p4⟩ := po
  have iU1 := next_inv' U hU
  have iW1 := next_inv' W hW
  have hneU : ¬ ((Tokenizer.next U).token == TokenType.error) = true := by rw [p1]; decide
  have hrs0 : (Tokenizer.next U).rawS = 0 := by rw [p2]; exact hU0.1
  have hbufU : (Tokenizer.next U).buf = (c ++ a').toArray := by rw [p3]; exact hUbuf
  have htokU : tokXOf U.rawTag (Tokenizer.next U) =
      { tok := textTok (rawL (Tokenizer.next U)), cut := (Tokenizer.next U).err, ctx := [] } := by
    unfold tokXOf tokOf textTok; rw [p1, hU0.2.2.2.1]; rfl
  unfold allOf remOf
  rw [toksX_unfold U hU, if_neg hneU, htokU]
  simp only
  rw [cutSplit_notCut_cons _ _ (isCut_text_nil _ _)]
  simp only
  rcases p4 with ⟨q1, q2, q3⟩ | ⟨q1, q2, q3, q4⟩
  · -- the two main loops stopped together
    have hsim := toksX_sim_full _ _ q1 iU1 iW1
    have hrawE := q1.rawE
    have hbufW : (Tokenizer.next W).buf = a'.toArray := (next_buf' W hW).trans hWbuf
    have hrawU : rawL (Tokenizer.next U) = c ++ a'.take (Tokenizer.next W).rawE := by
      rw [rawL_eq_take _ hrs0, hbufU, hrawE]
      simp only [List.toList_toArray]
      rw [List.take_append]
      simp only [Nat.add_sub_cancel_left]
      rw [List.take_of_length_le (by omega)]
    rcases q3 with q3 | ⟨q3, q4⟩
    · have hneW : ¬ ((Tokenizer.next W).token == TokenType.error) = true := by rw [q3]; decide
      have htokW : tokXOf W.rawTag (Tokenizer.next W) =
          { tok := textTok (rawL (Tokenizer.next W)), cut := (Tokenizer.next W).err, ctx := [] } := by
        unfold tokXOf tokOf textTok; rw [q3, hW0.2.2.2.1]; rfl
      have hrawW : rawL (Tokenizer.next W) = a'.take (Tokenizer.next W).rawE := by
        rw [rawL_eq_take _ (q2.trans hW0.1), hbufW]
      rw [toksX_unfold W hW, if_neg hneW, htokW, hsim, hrawU, hrawW]
      simp only
      rw [cutSplit_notCut_cons _ _ (isCut_text_nil _ _)]
      simp only [toksOf, List.map_cons]
      exact ⟨normText_merge _ _ _, by first | trivial | rfl⟩
    · -- `a'` is empty: nothing follows
      have herrW := next_error_err W hW q3
      have hq : (Tokenizer.next W).rawE = 0 := q4.trans hW0.1
      have hW2 : toksX (Tokenizer.next W) = ([], restL (Tokenizer.next W), (Tokenizer.next W).rawTag) := by
        rw [toksX_unfold _ iW1, if_pos (by rw [(next_after_err _ herrW).1]; rfl)]
      have hrW : restL (Tokenizer.next W) = restL W := by
        unfold restL; rw [hq, hW0.2.1, next_buf' W hW]
      rw [toksX_unfold W hW, if_pos (by rw [q3]; rfl), hsim, hW2, hrawU, hq, hrW]
      simp only [List.take_zero, List.append_nil]
      exact ⟨by first | trivial | rfl, by first | trivial | rfl⟩
  · -- the text `c` was flushed right before a tag of `a'`: restart
    have hcd : (Tokenizer.next U).allowCdata = true := q4.trans hU0.2.2.2.2.1
    have htag : (Tokenizer.next U).rawTag = [] := q3.trans hU0.2.2.2.1
    have hre : (Tokenizer.next U).rawE = c.length := by rw [q1, hW0.1]; rfl
    have hrs := toksX_restart _ iU1 q2 (Or.inl htag)
    have hres : restartOf (Tokenizer.next U) = W := by
      unfold restartOf
      rw [hbufU, hre, ← hWdef]
      congr 1
      apply Array.ext'
      simp
    have hrawU : rawL (Tokenizer.next U) = c := by
      rw [rawL_eq_take _ hrs0, hbufU, hre]; simp
    rw [hrs, restartCtx_eq_restartOf _ htag hcd, hres, hrawU]
    simp only [toksOf, List.map_cons]
    exact ⟨by first | trivial | rfl, by first | trivial | rfl⟩

/-! ### the restart law -/

theorem view_of_nil (tk : Tokenize) (c d : Bytes) (xs pre : List TokX) (rest ctxE : Bytes)
    (hs : tk.stream c d = (xs, rest, ctxE)) (hcs : cutSplit xs = (pre, [])) :
    (view tk c d).todo = (splitHeld (toksOf pre)).1 ∧ (view tk c d).tail = (splitHeld (toksOf pre)).2 ++ rest ∧
    (view tk c d).ctx' = heldCtx pre [] (splitHeld (toksOf pre)).2 ctxE := by
  unfold view
  simp only [hs, hcs, List.isEmpty_nil, if_true, toksOf, List.map_nil, rawsOf, List.flatMap_nil, List.append_nil]
  exact ⟨trivial, trivial, trivial⟩

theorem view_of_cons (tk : Tokenize) (c d : Bytes) (xs pre : List TokX) (x : TokX) (post : List TokX) (rest ctxE : Bytes)
    (hs : tk.stream c d = (xs, rest, ctxE)) (hcs : cutSplit xs = (pre, x :: post)) :
    (view tk c d).todo = toksOf pre ∧ (view tk c d).tail = rawsOf (toksOf (x :: post)) ++ rest ∧
    (view tk c d).ctx' = x.ctx := by
  unfold view
  simp only [hs, hcs, List.isEmpty_cons, Bool.false_eq_true, if_false, List.nil_append, heldCtx]
  exact ⟨trivial, trivial, trivial⟩

theorem isCut_text_plain (r : Bytes) (e : Bool) : isCut { tok := textTok r, cut := e, ctx := htmlPlaintext } = false := by
  simp [isCut, textTok]

theorem plaintext_ctx : Ctx htmlPlaintext := Or.inr (by decide)

/-- the records of a fresh tokenizer in the `plaintext` context -/
theorem toksX_newFragment_plaintext (b : Bytes) :
    toksX (Tokenizer.newFragment b.toArray htmlPlaintext) =
      if b = [] then ([], [], htmlPlaintext)
      else ([{ tok := textTok b, cut := true, ctx := htmlPlaintext }], [], htmlPlaintext) := by
  have f := newFragment_fields b.toArray htmlPlaintext
  have f9 := newFragment_of_ctx b.toArray plaintext_ctx
  have inv := newFragment_inv8 b htmlPlaintext
  have eg : ErrGe (Tokenizer.newFragment b.toArray htmlPlaintext) := by intro h; rw [f.2.2.2.1] at h; cases h
  rw [toksX_plaintext _ inv eg f.2.2.2.1 f9, f.2.1, f.1]
  have hr : restL (Tokenizer.newFragment b.toArray htmlPlaintext) = b := by
    rw [restL_of_buf _ b f.1, f.2.1]; rfl
  by_cases hb : b = []
  · subst hb; simp
  · have : 0 < b.toArray.size := by
      simp; exact List.length_pos_iff.mpr hb
    rw [if_pos this, if_neg hb, hr]

theorem htmlTokenize_restartLaw : RestartLaw htmlTokenize := by
  intro c a1 a' hc hv hv'
  have iu := newFragment_inv8 a1 c
  have fu := newFragment_fields a1.toArray c
  have fu9 := newFragment_of_ctx a1.toArray hc
  have li0 := loopInv_newFragment a1 c hv hc
  have hst := htmlStream_eq_toksX c a1 hc hv
  have sh := toksX_shape _ _ iu (Nat.le_refl _)
  generalize hu : Tokenizer.newFragment a1.toArray c = u at *
  generalize hm : (toksX u).1.length = m at sh
  obtain ⟨sh1, sh2, sh3, sh4⟩ := sh
  have hst' : htmlTokenize.stream c a1 = (firstToksX m u, restL (nextsF m u), (nextsF m u).rawTag) := by
    rw [hst]; exact Prod.ext sh1 sh3
  -- the exact cases: the restart point is the `k`-th token boundary
  have fin : ∀ k, (nextsF k u).err = false → (view htmlTokenize c a1).todo = toksOf (firstToksX k u) →
      (view htmlTokenize c a1).tail = a1.drop (nextsF k u).rawE → (view htmlTokenize c a1).ctx' = (nextsF k u).rawTag →
      normText (view htmlTokenize c (a1 ++ a')).all =
        normText ((view htmlTokenize c a1).todo ++
          (view htmlTokenize (view htmlTokenize c a1).ctx' ((view htmlTokenize c a1).tail ++ a')).all) ∧
      (view htmlTokenize c (a1 ++ a')).rem =
        (view htmlTokenize (view htmlTokenize c a1).ctx' ((view htmlTokenize c a1).tail ++ a')).rem ∧
      V (view htmlTokenize c a1).tail ∧ Ctx (view htmlTokenize c a1).ctx' := by
    intro k h1 h2 h3 h4
    rw [← hu] at h1 h2 h3 h4
    have f := finish_view c a1 a' hc hv hv' k h1 _ _ _ h2 h3 h4
    exact ⟨by rw [f.1], f.2.1, f.2.2.1, f.2.2.2⟩
  have hbufk : ∀ k, (nextsF k u).buf = a1.toArray := fun k => (nextsF_buf k u iu).trans fu.1
  cases m with
  | zero =>
    have v := view_of_nil htmlTokenize c a1 _ [] _ _ hst' rfl
    refine fin 0 fu.2.2.2.1 ?_ ?_ ?_
    · rw [v.1]; rfl
    · rw [v.2.1]; show [] ++ restL u = _; rw [List.nil_append, restL_of_buf u a1 fu.1]; rfl
    · rw [v.2.2]; rfl
  | succ m' =>
    generalize hsp : nextsF m' u = sp at *
    have hsm : nextsF (m' + 1) u = Tokenizer.next sp := by rw [nextsF_succ_back, hsp]
    have hsperr : sp.err = false := by rw [← hsp]; exact sh4 m' (by omega)
    have isp : Tokenizer.Inv sp := by rw [← hsp]; exact nextsF_inv m' _ iu
    have lsp : LoopInv sp := by rw [← hsp]; exact loopInv_nextsF m' _ li0
    have ism := next_inv' sp isp
    have hspbuf : sp.buf = a1.toArray := by rw [← hsp]; exact hbufk m'
    have hsmbuf : (Tokenizer.next sp).buf = a1.toArray := (next_buf' sp isp).trans hspbuf
    rw [hsm] at hst'
    have hxs : firstToksX (m' + 1) u = firstToksX m' u ++ [tokXOf sp.rawTag (Tokenizer.next sp)] := by
      rw [firstToksX_succ_back, hsp]
    have hpre := firstToksX_uncut m' u (by rw [hsp]; exact hsperr)
    have hdrop : a1.drop sp.rawE = rawL (Tokenizer.next sp) ++ a1.drop (Tokenizer.next sp).rawE := by
      rw [← restL_of_buf sp a1 hspbuf, ← restL_of_buf _ a1 hsmbuf]
      exact (next_held sp isp).symm
    generalize hlast : tokXOf sp.rawTag (Tokenizer.next sp) = last at *
    have hlraw : last.tok.raw = rawL (Tokenizer.next sp) := by rw [← hlast]; rfl
    have hlctx : last.ctx = sp.rawTag := by rw [← hlast]; rfl
    have hlcut : last.cut = (Tokenizer.next sp).err := by rw [← hlast]; rfl
    have hlkind : last.tok.kind = kindOf (Tokenizer.next sp).token := by rw [← hlast]; rfl
    have hcs0 := cutSplit_uncut_append (firstToksX m' u) [last] hpre
    rw [hxs] at hst'
    by_cases hcut : isCut last = true
    · -- the last token is cut: it is kept, restart before it
      have hc1 : cutSplit [last] = ([], [last]) := by
        unfold cutSplit; simp [hcut]
      rw [hc1] at hcs0
      simp only [List.append_nil] at hcs0
      have v := view_of_cons htmlTokenize c a1 _ _ last [] _ _ hst' hcs0
      refine fin m' (by rw [hsp]; exact hsperr) v.1 ?_ (by rw [v.2.2, hsp]; exact hlctx)
      rw [v.2.1, hsp, hdrop, restL_of_buf _ a1 hsmbuf]
      simp [toksOf, rawsOf, hlraw]
    · have hncut : isCut last = false := by simpa using hcut
      have hc1 : cutSplit [last] = ([last], []) := by
        unfold cutSplit; simp [hncut]
      rw [hc1] at hcs0
      have v := view_of_nil htmlTokenize c a1 _ _ _ _ hst' hcs0
      rw [toksOf_append] at v
      have hto1 : toksOf [last] = [last.tok] := rfl
      rw [hto1] at v
      by_cases hheld : last.tok.kind = .text ∧ hasLt last.tok.raw = true
      · -- a held text: restart before it
        rw [splitHeld_snoc_held _ _ hheld] at v
        have hne : last.tok.raw ≠ [] := by
          intro h; rw [h] at hheld; simp [hasLt] at hheld
        refine fin m' (by rw [hsp]; exact hsperr) v.1 ?_ ?_
        · rw [v.2.1, hsp, hdrop, restL_of_buf _ a1 hsmbuf, hlraw]
        · rw [v.2.2, hsp, ← hlctx]
          have : last.tok.raw.isEmpty = false := by
            cases h : last.tok.raw with
            | nil => exact absurd h hne
            | cons _ _ => rfl
          simp [heldCtx, this]
      · rw [splitHeld_snoc_not _ _ hheld] at v
        simp only [List.nil_append] at v
        have hctxE : heldCtx (firstToksX m' u ++ [last]) [] [] (Tokenizer.next sp).rawTag = (Tokenizer.next sp).rawTag := rfl
        rw [hctxE] at v
        by_cases hsmerr : (Tokenizer.next sp).err = false
        · -- every token is complete: restart after the last one
          refine fin (m' + 1) (by rw [hsm]; exact hsmerr) ?_ ?_ ?_
          · rw [v.1, hxs, toksOf_append]; rfl
          · rw [v.2.1, hsm, restL_of_buf _ a1 hsmbuf]
          · rw [v.2.2, hsm]
        · -- the last token is a plain text cut by the end of the data (context "" or plaintext): it merges
          have hsmerr' : (Tokenizer.next sp).err = true := by simpa using hsmerr
          have hk : last.tok.kind = .text ∧ (last.ctx = [] ∨ last.ctx = htmlPlaintext) := by
            have h := hncut
            unfold isCut at h
            rw [hlcut, hsmerr'] at h
            simp only [Bool.true_and, Bool.or_eq_false_iff, Bool.and_eq_false_iff, bne_eq_false_iff_eq] at h
            exact ⟨h.1, h.2⟩
          have hnolt : hasLt last.tok.raw = false := by
            cases h : hasLt last.tok.raw with
            | false => rfl
            | true => exact absurd ⟨hk.1, h⟩ hheld
          have htoken : (Tokenizer.next sp).token = .text := kindOf_text (hlkind ▸ hk.1)
          have hne : (Tokenizer.next sp).token ≠ .error := by rw [htoken]; decide
          have cb := next_cut_buffered sp isp lsp.eg hsmerr'
          have hrest : restL (Tokenizer.next sp) = [] := cb.1
          have hgt := next_rawE_gt sp isp hne
          have hsmle : (Tokenizer.next sp).rawE ≤ a1.length := by have := ism.ok.le; rw [hsmbuf] at this; simpa using this
          have hdrop2 : a1.drop (Tokenizer.next sp).rawE = [] := by
            rw [← restL_of_buf _ a1 hsmbuf]; exact hrest
          have hctext : a1.drop sp.rawE = last.tok.raw := by rw [hdrop, hdrop2, List.append_nil, hlraw]
          have hcne : last.tok.raw ≠ [] := by
            rw [← hctext]; intro h
            have := congrArg List.length h
            simp at this; omega
          have hltok : last.tok = textTok last.tok.raw := by
            rw [← hlast]; unfold tokXOf tokOf textTok; rw [htoken]; rfl
          have hno : ∀ b ∈ last.tok.raw, b ≠ 60 := by
            intro b hb h60; subst h60
            have : hasLt last.tok.raw = true := by unfold hasLt; simpa using hb
            rw [this] at hnolt; cases hnolt
          obtain ⟨r1, r2, r3⟩ := restartX_at c a1 a' hc hv m' (by rw [hu, hsp]; exact hsperr)
          rw [hu, hsp, hctext] at r1
          have hvL := V_append hv hv'
          rw [v.1, v.2.1, v.2.2, hrest, List.nil_append]
          rcases hk.2 with hk2 | hk2
          · -- context ""
            have hsptag : sp.rawTag = [] := hlctx ▸ hk2
            have hsmtag : (Tokenizer.next sp).rawTag = [] := by
              rcases next_ctx sp isp with e | ⟨_, e, _⟩ | ⟨e, _⟩
              · exact e
              · rw [htoken] at e; rcases e with e | e <;> cases e
              · rw [e]; exact hsptag
            rw [hsmtag]
            rw [hsptag, newFragment_nil] at r1
            have mg := toksX_text_merge last.tok.raw a' hcne hno
            refine ⟨?_, ?_, V_nil, Or.inl rfl⟩
            · rw [view_all_eq, view_all_eq, htmlStream_eq_toksX c _ hc hvL, r1,
                htmlStream_eq_toksX [] _ (Or.inl rfl) hv', newFragment_nil]
              simp only
              rw [cutSplit_uncut_append _ _ hpre, toksOf_append, List.append_assoc]
              apply normText_prefix_congr
              have mg1 := mg.1
              rw [← hltok] at mg1
              unfold allOf at mg1
              exact mg1
            · rw [view_rem_eq, view_rem_eq, htmlStream_eq_toksX c _ hc hvL, r1,
                htmlStream_eq_toksX [] _ (Or.inl rfl) hv', newFragment_nil]
              simp only
              rw [cutSplit_uncut_append _ _ hpre]
              exact mg.2
          · -- context `plaintext`
            have hsptag : sp.rawTag = htmlPlaintext := hlctx ▸ hk2
            have hsmtag : (Tokenizer.next sp).rawTag = htmlPlaintext := (next_plaintext sp isp lsp.eg hsperr hsptag).2.1
            rw [hsmtag]
            rw [hsptag, toksX_newFragment_plaintext, if_neg (by
              intro h; exact hcne (List.append_eq_nil_iff.mp h).1)] at r1
            refine ⟨?_, ?_, V_nil, plaintext_ctx⟩
            · rw [view_all_eq, view_all_eq, htmlStream_eq_toksX c _ hc hvL, r1,
                htmlStream_eq_toksX _ _ plaintext_ctx hv', toksX_newFragment_plaintext]
              simp only
              rw [cutSplit_uncut_append _ _ hpre, toksOf_append, List.append_assoc]
              apply normText_prefix_congr
              have hl1 : toksOf (cutSplit [({ tok := textTok (last.tok.raw ++ a'), cut := true, ctx := htmlPlaintext } : TokX)]).1 =
                  [textTok (last.tok.raw ++ a')] := by
                rw [cutSplit_notCut_cons _ _ (isCut_text_plain _ _)]; rfl
              rw [hl1]
              by_cases ha : a' = []
              · subst ha
                rw [if_pos rfl, List.append_nil, ← hltok]
                rfl
              · rw [if_neg ha]
                have hr1 : toksOf (cutSplit [({ tok := textTok a', cut := true, ctx := htmlPlaintext } : TokX)]).1 = [textTok a'] := by
                  rw [cutSplit_notCut_cons _ _ (isCut_text_plain _ _)]; rfl
                simp only
                rw [hr1]
                have := normText_merge last.tok.raw a' []
                rw [← hltok] at this
                exact this
            · rw [view_rem_eq, view_rem_eq, htmlStream_eq_toksX c _ hc hvL, r1,
                htmlStream_eq_toksX _ _ plaintext_ctx hv', toksX_newFragment_plaintext]
              simp only
              rw [cutSplit_uncut_append _ _ hpre]
              by_cases ha : a' = []
              · subst ha; rw [if_pos rfl]; simp [cutSplit, isCut_text_plain, toksOf, rawsOf]
              · rw [if_neg ha]; simp [cutSplit, isCut_text_plain, toksOf, rawsOf]

end Rio.Filter
