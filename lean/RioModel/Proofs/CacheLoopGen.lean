/-
W34 — helper lemmas for Props/C12gen2.lean: the translated cache LOOPS (`genRouterCacheLoop`, `genRouterCacheInit`,
`genRouterCacheRoutes`, `genTreeCacheLoop`, `genTreeCache`; generated from src/router/mod.rs and src/regex_radix_tree/tree.rs by
tools/consts_dev/w34_cacheloops.py) against the hand-written `RouterG.cacheLoop / cachePrev`, `Tree.cacheLoop / treeCache`.
-/
import RioModel.Generated.Consts
import RioModel.Proofs.RouterTop
import RioModel.Model.Tree
import RioModel.Model.MarkerCache
set_option linter.unusedSimpArgs false

namespace Rio.CacheLoopGen
open Rio.Consts Rio.Router Rio.Regex Rio.Tree

/-- the translated `as i64` is the model's -/
theorem genAsI64_eq (n : Nat) : genAsI64 n = RouterG.asI64 n := rfl

theorem genAsI64_of_lt (n : Nat) (h : n < 2 ^ 63) : genAsI64 n = n := by
  unfold genAsI64
  have : n % 2 ^ 64 = n := Nat.mod_eq_of_lt (by omega)
  rw [this]; simp [h]

/-- `prev as u64` is exact inside the loop (guard `prev > 0`, invariant `prev < 2^63`) -/
theorem genI64AsU64_of_pos (i : Int) (h0 : 0 < i) (h : i < 2 ^ 63) : genI64AsU64 i = i.toNat := by
  unfold genI64AsU64
  have : i % 2 ^ 64 = i := Int.emod_eq_of_lt (by omega) (by omega)
  rw [this]

/-- forgetting the counters of the translated loop's result -/
def proj {μ : Type} (g : μ × Int × Nat × Nat × Bool) : μ × Int × Bool := (g.1, g.2.1, g.2.2.2.2)

theorem router_loop_eq (O : MOps) (fuel : Nat) : ∀ (prev : Int) (level retry : Nat) (m : O.M), prev < 2 ^ 63 →
    proj (genRouterCacheLoop O.cache fuel m prev level retry) = RouterG.cacheLoop O fuel prev level retry m := by
  induction fuel with
  | zero => intro prev level retry m _; rfl
  | succ fuel ih =>
    intro prev level retry m hlt
    unfold genRouterCacheLoop RouterG.cacheLoop
    by_cases hp : prev > 0
    · simp only [hp, if_true]
      rw [genI64AsU64_of_pos prev hp hlt, genAsI64_eq]
      have hn := asI64_lt (O.cache prev.toNat level m).2
      by_cases he : RouterG.asI64 (O.cache prev.toNat level m).2 = prev
      · simp only [he, if_true, beq_self_eq_true]
        by_cases hr : retry + 1 > 5
        · simp only [hr, if_true]; rfl
        · simp only [hr, if_false]; exact ih _ _ _ _ hlt
      · have hb : (RouterG.asI64 (O.cache prev.toNat level m).2 == prev) = false := by simpa using he
        simp only [he, if_false, hb, Bool.false_eq_true]
        exact ih _ _ _ _ hn
    · simp only [hp, if_false]; rfl

theorem router_init_eq (O : MOps) (limit : Option Nat) (S : RouterG O) :
    genRouterCacheInit limit S.routes.length = (RouterG.cachePrev O limit S, 0, 0) := by
  unfold genRouterCacheInit RouterG.cachePrev
  cases limit with
  | some l => rfl
  | none =>
    simp only
    rw [genAsI64_of_lt _ (by omega)]

/-- tree loop: conflating "fuel ran out" with `none` as the model does -/
def tproj {τ : Type} (r : τ × Nat × Nat × Bool) : Option (τ × Nat) := if r.2.2.2 then none else some (r.1, r.2.1)

variable {ι V : Type}

theorem tree_loop_eq (E : Engine) (fuel : Nat) : ∀ (root : Item ι V) (left lvl : Nat),
    (genTreeCacheLoop (fun l lv c r => Item.cache E r l lv c) fuel root left lvl).bind tproj
      = Tree.cacheLoop E fuel root left lvl := by
  induction fuel with
  | zero => intro root left lvl; rfl
  | succ fuel ih =>
    intro root left lvl
    unfold genTreeCacheLoop Tree.cacheLoop
    by_cases h0 : left = 0
    · subst h0; simp [tproj]
    · have hp : left > 0 := Nat.pos_of_ne_zero h0
      simp only [hp, if_true, h0, if_false]
      cases hc : Item.cache E root left lvl 0 with
      | none => simp
      | some r =>
        simp only
        by_cases he : r.2 = left
        · simp [he, tproj]
        · simp only [he, if_false]; exact ih _ _ _

/-! ### the budgeted `route.compile()` loop against `MarkerCache.compileRoutes` -/

theorem route_compile_le {R : Type} (lib : Rio.MarkerCache.RegexLib R) (st : Rio.MarkerCache.Store R)
    (rt : Rio.MarkerCache.Route) : (Rio.MarkerCache.Route.compile lib st rt).2 ≤ 2 := by
  unfold Rio.MarkerCache.Route.compile
  simp only
  split <;> (try split) <;> (try split) <;> simp <;> omega

theorem routes_loop_eq {R : Type} (lib : Rio.MarkerCache.RegexLib R) : ∀ (rts : List Rio.MarkerCache.Route)
    (st : Rio.MarkerCache.Store R) (left : Int),
    (genRouterCacheRoutes (fun rt st => Rio.MarkerCache.Route.compile lib st rt) rts st left).1
      = Rio.MarkerCache.compileRoutes lib st rts left := by
  intro rts
  induction rts with
  | nil => intro st left; rfl
  | cons rt rest ih =>
    intro st left
    unfold genRouterCacheRoutes Rio.MarkerCache.compileRoutes
    have hle := route_compile_le lib st rt
    simp only
    rw [genAsI64_of_lt _ (by omega)]
    by_cases h : left - ((Rio.MarkerCache.Route.compile lib st rt).2 : Int) ≤ 0
    · simp only [h, if_true]
    · simp only [h, if_false]; exact ih _ _

end Rio.CacheLoopGen
