/-
Helper lemmas for C16 (and C07): span invariants of every helper of the tokenizer model.
-/
import RioModel.Model.Html
set_option linter.unusedSimpArgs false
set_option linter.unusedVariables false

namespace Rio.Html
namespace Tokenizer
open Rio.Consts

/-- flags clear and read position in range -/
structure Ok (t : Tokenizer) : Prop where
  le : t.rawE ≤ t.buf.size
  panic : t.panic = false
  hang : t.hang = false
  utf8 : t.utf8Err = false

/-- `t'` is reached from `t` by a helper that only moved `raw.end` forward (net) inside the buffer
and kept the flags clear. -/
structure Adv (t t' : Tokenizer) : Prop where
  buf : t'.buf = t.buf
  rawS : t'.rawS = t.rawS
  mono : t.rawE ≤ t'.rawE
  ok : Ok t'
  rawTag : t'.rawTag = t.rawTag
  cdata : t'.allowCdata = t.allowCdata

theorem Adv.refl {t : Tokenizer} (h : Ok t) : Adv t t := ⟨rfl, rfl, Nat.le_refl _, h, rfl, rfl⟩

theorem Adv.trans {a b c : Tokenizer} (h1 : Adv a b) (h2 : Adv b c) : Adv a c :=
  ⟨h2.buf.trans h1.buf, h2.rawS.trans h1.rawS, Nat.le_trans h1.mono h2.mono, h2.ok,
   h2.rawTag.trans h1.rawTag, h2.cdata.trans h1.cdata⟩

theorem readByte_adv {t : Tokenizer} (h : Ok t) : Adv t t.readByte.1 := by
  unfold readByte; split
  · exact ⟨rfl, rfl, Nat.le_succ _, ⟨by simp; omega, h.panic, h.hang, h.utf8⟩, rfl, rfl⟩
  · exact ⟨rfl, rfl, Nat.le_refl _, ⟨h.le, h.panic, h.hang, h.utf8⟩, rfl, rfl⟩

theorem readByte_pos {t : Tokenizer} (h : ¬ t.readByte.1.err = true) : 1 ≤ t.readByte.1.rawE := by
  unfold readByte at *; split <;> simp_all

theorem readByte_succ {t : Tokenizer} (h : ¬ t.readByte.1.err = true) : t.readByte.1.rawE = t.rawE + 1 := by
  unfold readByte at *; split <;> simp_all

/-- the fields `Adv`/`Ok` talk about -/
def core (t : Tokenizer) : Array Nat × Nat × Nat × Bool × Bool × Bool × List Nat × Bool :=
  (t.buf, t.rawS, t.rawE, t.panic, t.hang, t.utf8Err, t.rawTag, t.allowCdata)

theorem Adv.congr {t0 t t' : Tokenizer} (h : Adv t0 t) (e : core t' = core t) : Adv t0 t' := by
  simp only [core, Prod.mk.injEq] at e
  obtain ⟨e1, e2, e3, e4, e5, e6, e7, e8⟩ := e
  exact ⟨e1 ▸ h.buf, e2 ▸ h.rawS, e3 ▸ h.mono, ⟨e1 ▸ e3 ▸ h.ok.le, e4 ▸ h.ok.panic, e5 ▸ h.ok.hang, e6 ▸ h.ok.utf8⟩,
    e7 ▸ h.rawTag, e8 ▸ h.cdata⟩

theorem unread_adv {t0 t : Tokenizer} (k : Nat) (h : Adv t0 t) (hk : t0.rawE + k ≤ t.rawE) : Adv t0 (t.unread k) := by
  unfold unread
  have hle : k ≤ t.rawE := by omega
  simp only [hle, if_true]
  exact ⟨h.buf, h.rawS, by simp; omega, ⟨by have := h.ok.le; simp; omega, h.ok.panic, h.ok.hang, h.ok.utf8⟩, h.rawTag, h.cdata⟩

theorem unread_rawE_eq {t : Tokenizer} (k : Nat) (hk : k ≤ t.rawE) : (t.unread k).rawE = t.rawE - k := by
  unfold unread; simp [hk]

theorem setDataEndBack_adv {t0 t : Tokenizer} (k : Nat) (h : Adv t0 t) (hk : k ≤ t.rawE) : Adv t0 (t.setDataEndBack k) := by
  unfold setDataEndBack
  simp only [hk, if_true]
  exact h.congr rfl

/-- a successful read followed by `raw.end -= 1` -/
theorem read_unread_adv {t : Tokenizer} (h : Ok t) (herr : ¬ t.readByte.1.err = true) : Adv t (t.readByte.1.unread 1) :=
  unread_adv 1 (readByte_adv h) (by have := readByte_succ herr; omega)

theorem skipWsGo_adv (t : Tokenizer) (h : Ok t) : Adv t (skipWsGo t) := by
  fun_induction skipWsGo t with
  | case1 t r herr => exact readByte_adv h
  | case2 t r herr hws ih => exact (readByte_adv h).trans (ih (readByte_adv h).ok)
  | case3 t r herr hws => exact read_unread_adv h herr

theorem skipWhiteSpace_adv (t : Tokenizer) (h : Ok t) : Adv t (skipWhiteSpace t) := by
  unfold skipWhiteSpace; split
  · exact Adv.refl h
  · exact skipWsGo_adv t h

theorem untilCloseAngleGo_adv (t : Tokenizer) (h : Ok t) : Adv t (untilCloseAngleGo t) := by
  fun_induction untilCloseAngleGo t with
  | case1 t r herr => exact (readByte_adv h).congr rfl
  | case2 t r herr hb => exact setDataEndBack_adv 1 (readByte_adv h) (readByte_pos herr)
  | case3 t r herr hb ih => exact (readByte_adv h).trans (ih (readByte_adv h).ok)

theorem readUntilCloseAngle_adv (t : Tokenizer) (h : Ok t) : Adv t (readUntilCloseAngle t) := by
  unfold readUntilCloseAngle
  have h0 : Adv t { t with dataS := t.rawE } := (Adv.refl h).congr rfl
  exact h0.trans (untilCloseAngleGo_adv _ h0.ok)

end Tokenizer
end Rio.Html
