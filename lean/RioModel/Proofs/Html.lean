/-
Helper lemmas for C16 (and C07): span invariants of every helper of the tokenizer model.
-/
import RioModel.Model.Html
set_option linter.unusedSimpArgs false
set_option linter.unusedVariables false

namespace Rio.Html
namespace Tokenizer
open Rio.Consts

-- unfold the `let r := t.readByte` variables that `fun_induction` leaves in the context
set_option hygiene false in
local macro "zd" : tactic => `(tactic| (try simp +zetaDelta only at *))

local macro "crfl" : tactic => `(tactic| first | (simp [core]; done) | rfl)

/-- flags clear and read position in range -/
structure Ok (t : Tokenizer) : Prop where
  le : t.rawE ≤ t.buf.size
  panic : t.panic = false
  hang : t.hang = false
  utf8 : t.utf8Err = false

/-- `t'` is reached from `t` by a helper that only moved `raw.end` forward (net) inside the buffer
and kept the flags clear. -/
structure Adv (t t' : Tokenizer) : Prop where
  buf : t'.buf = t.buf
  rawS : t'.rawS = t.rawS
  mono : t.rawE ≤ t'.rawE
  ok : Ok t'
  rawTag : t'.rawTag = t.rawTag
  cdata : t'.allowCdata = t.allowCdata

theorem Adv.refl {t : Tokenizer} (h : Ok t) : Adv t t := ⟨rfl, rfl, Nat.le_refl _, h, rfl, rfl⟩

theorem Adv.trans {a b c : Tokenizer} (h1 : Adv a b) (h2 : Adv b c) : Adv a c :=
  ⟨h2.buf.trans h1.buf, h2.rawS.trans h1.rawS, Nat.le_trans h1.mono h2.mono, h2.ok,
   h2.rawTag.trans h1.rawTag, h2.cdata.trans h1.cdata⟩

theorem readByte_adv {t : Tokenizer} (h : Ok t) : Adv t t.readByte.1 := by
  unfold readByte; split
  · exact ⟨rfl, rfl, Nat.le_succ _, ⟨by simp; omega, h.panic, h.hang, h.utf8⟩, rfl, rfl⟩
  · exact ⟨rfl, rfl, Nat.le_refl _, ⟨h.le, h.panic, h.hang, h.utf8⟩, rfl, rfl⟩

@[simp] theorem readByte_dataS (t : Tokenizer) : t.readByte.1.dataS = t.dataS := by
  unfold readByte; split <;> rfl

@[simp] theorem unread_dataS (t : Tokenizer) (k : Nat) : (t.unread k).dataS = t.dataS := by
  unfold unread; split <;> rfl

theorem readByte_pos {t : Tokenizer} (h : ¬ t.readByte.1.err = true) : 1 ≤ t.readByte.1.rawE := by
  unfold readByte at *; split <;> simp_all

theorem readByte_succ {t : Tokenizer} (h : ¬ t.readByte.1.err = true) : t.readByte.1.rawE = t.rawE + 1 := by
  unfold readByte at *; split <;> simp_all

/-- the fields `Adv`/`Ok` talk about -/
def core (t : Tokenizer) : Array Nat × Nat × Nat × Bool × Bool × Bool × List Nat × Bool :=
  (t.buf, t.rawS, t.rawE, t.panic, t.hang, t.utf8Err, t.rawTag, t.allowCdata)

theorem Adv.congr {t0 t t' : Tokenizer} (h : Adv t0 t) (e : core t' = core t) : Adv t0 t' := by
  simp only [core, Prod.mk.injEq] at e
  obtain ⟨e1, e2, e3, e4, e5, e6, e7, e8⟩ := e
  exact ⟨e1 ▸ h.buf, e2 ▸ h.rawS, e3 ▸ h.mono, ⟨e1 ▸ e3 ▸ h.ok.le, e4 ▸ h.ok.panic, e5 ▸ h.ok.hang, e6 ▸ h.ok.utf8⟩,
    e7 ▸ h.rawTag, e8 ▸ h.cdata⟩

theorem unread_adv {t0 t : Tokenizer} (k : Nat) (h : Adv t0 t) (hk : t0.rawE + k ≤ t.rawE) : Adv t0 (t.unread k) := by
  unfold unread
  have hle : k ≤ t.rawE := by omega
  simp only [hle, if_true]
  exact ⟨h.buf, h.rawS, by simp; omega, ⟨by have := h.ok.le; simp; omega, h.ok.panic, h.ok.hang, h.ok.utf8⟩, h.rawTag, h.cdata⟩

theorem unread_rawE_eq {t : Tokenizer} (k : Nat) (hk : k ≤ t.rawE) : (t.unread k).rawE = t.rawE - k := by
  unfold unread; simp [hk]

theorem setDataEndBack_adv {t0 t : Tokenizer} (k : Nat) (h : Adv t0 t) (hk : k ≤ t.rawE) : Adv t0 (t.setDataEndBack k) := by
  unfold setDataEndBack
  simp only [hk, if_true]
  exact h.congr (by crfl)

/-- a successful read followed by `raw.end -= 1` -/
theorem read_unread_adv {t : Tokenizer} (h : Ok t) (herr : ¬ t.readByte.1.err = true) : Adv t (t.readByte.1.unread 1) :=
  unread_adv 1 (readByte_adv h) (by have := readByte_succ herr; omega)

theorem skipWsGo_adv (t : Tokenizer) (h : Ok t) : Adv t (skipWsGo t) := by
  fun_induction skipWsGo t with
  | case1 t r herr => exact readByte_adv h
  | case2 t r herr hws ih => exact (readByte_adv h).trans (ih (readByte_adv h).ok)
  | case3 t r herr hws => exact read_unread_adv h herr

theorem skipWhiteSpace_adv (t : Tokenizer) (h : Ok t) : Adv t (skipWhiteSpace t) := by
  unfold skipWhiteSpace; split
  · exact Adv.refl h
  · exact skipWsGo_adv t h

theorem untilCloseAngleGo_adv (t : Tokenizer) (h : Ok t) : Adv t (untilCloseAngleGo t) := by
  fun_induction untilCloseAngleGo t with
  | case1 t r herr => exact (readByte_adv h).congr (by crfl)
  | case2 t r herr hb => exact setDataEndBack_adv 1 (readByte_adv h) (readByte_pos herr)
  | case3 t r herr hb ih => exact (readByte_adv h).trans (ih (readByte_adv h).ok)

theorem readUntilCloseAngle_adv (t : Tokenizer) (h : Ok t) : Adv t (readUntilCloseAngle t) := by
  unfold readUntilCloseAngle
  have h0 : Adv t { t with dataS := t.rawE } := (Adv.refl h).congr (by crfl)
  exact h0.trans (untilCloseAngleGo_adv _ h0.ok)

theorem readToEnd_adv (t : Tokenizer) (h : Ok t) : Adv t (readToEnd t) := by
  fun_induction readToEnd t with
  | case1 t herr => exact Adv.refl h
  | case2 t herr r herr2 => exact readByte_adv h
  | case3 t herr r herr2 ih => exact (readByte_adv h).trans (ih (readByte_adv h).ok)

theorem readToEnd_err (t : Tokenizer) : (readToEnd t).err = true := by
  fun_induction readToEnd t with
  | case1 t herr => exact herr
  | case2 t herr r herr2 => exact herr2
  | case3 t herr r herr2 ih => exact ih

/-! ### comments, declarations -/

theorem commentGo_adv (t : Tokenizer) (dash : Nat) (h : Ok t) (h3 : 3 ≤ t.rawE) : Adv t (commentGo t dash) := by
  fun_induction commentGo t dash with
  | case1 t dash r herr =>
    zd
    exact setDataEndBack_adv _ (readByte_adv h) (by have := (readByte_adv h).mono; split <;> omega)
  | case2 t dash r herr hb ih =>
    zd
    exact (readByte_adv h).trans (ih (readByte_adv h).ok (by have := (readByte_adv h).mono; omega))
  | case3 t dash r herr hb1 hb2 hd =>
    zd
    exact setDataEndBack_adv _ (readByte_adv h) (by have := (readByte_adv h).mono; simp [htmlCommentEndLen]; omega)
  | case4 t dash r herr hb1 hb2 hd ih =>
    zd
    exact (readByte_adv h).trans (ih (readByte_adv h).ok (by have := (readByte_adv h).mono; omega))
  | case5 t dash r herr hb1 hb2 hb3 hd r2 herr2 =>
    zd
    exact ((readByte_adv h).trans (readByte_adv (readByte_adv h).ok)).congr (by crfl)
  | case6 t dash r herr hb1 hb2 hb3 hd r2 herr2 hb4 =>
    zd
    have a1 := readByte_adv h
    have a2 := readByte_adv a1.ok
    have := readByte_succ herr
    have := readByte_succ herr2
    exact setDataEndBack_adv _ (a1.trans a2) (by simp [htmlCommentBangEndLen]; omega)
  | case7 t dash r herr hb1 hb2 hb3 hd r2 herr2 hb4 ih =>
    zd
    have a1 := readByte_adv h
    have a2 := readByte_adv a1.ok
    exact (a1.trans a2).trans (ih a2.ok (by have := a1.mono; have := a2.mono; omega))
  | case8 t dash r herr hb1 hb2 hb3 hd ih =>
    zd
    exact (readByte_adv h).trans (ih (readByte_adv h).ok (by have := (readByte_adv h).mono; omega))
  | case9 t dash r herr hb1 hb2 hb3 ih =>
    zd
    exact (readByte_adv h).trans (ih (readByte_adv h).ok (by have := (readByte_adv h).mono; omega))

theorem readComment_adv (t : Tokenizer) (h : Ok t) (h3 : 3 ≤ t.rawE) : Adv t (readComment t) := by
  unfold readComment
  have h0 : Adv t { t with dataS := t.rawE } := (Adv.refl h).congr (by crfl)
  have h1 := h0.trans (commentGo_adv _ 2 h0.ok h3)
  simp only
  split
  · exact h1.congr (by crfl)
  · exact h1

theorem cdataGo_adv (t : Tokenizer) (br : Nat) (h : Ok t) (h2 : 2 ≤ t.rawE) : Adv t (cdataGo t br) := by
  fun_induction cdataGo t br with
  | case1 t br r herr => zd; exact (readByte_adv h).congr (by crfl)
  | case2 t br r herr hb ih =>
    zd
    exact (readByte_adv h).trans (ih (readByte_adv h).ok (by have := (readByte_adv h).mono; omega))
  | case3 t br r herr hb1 hb2 hbr =>
    zd
    exact setDataEndBack_adv _ (readByte_adv h) (by have := readByte_succ herr; simp [htmlCdataEndLen]; omega)
  | case4 t br r herr hb1 hb2 hbr ih =>
    zd
    exact (readByte_adv h).trans (ih (readByte_adv h).ok (by have := (readByte_adv h).mono; omega))
  | case5 t br r herr hb1 hb2 ih =>
    zd
    exact (readByte_adv h).trans (ih (readByte_adv h).ok (by have := (readByte_adv h).mono; omega))

/-- `declLoop` relative to a base state `b` whose `raw.end` is the saved `data.start`. -/
theorem declLoop_adv (b t : Tokenizer) (pat : List (Nat × Nat)) (hb : Adv b t) (hd : t.dataS = b.rawE) :
    Adv b (declLoop t pat).1 ∧ (declLoop t pat).1.dataS = t.dataS ∧
    ((declLoop t pat).2 = true → Adv t (declLoop t pat).1) := by
  induction pat generalizing t with
  | nil => exact ⟨hb, rfl, fun _ => Adv.refl hb.ok⟩
  | cons c cs ih =>
    obtain ⟨c, c'⟩ := c
    have a1 := readByte_adv hb.ok
    have hds : t.readByte.1.dataS = t.dataS := readByte_dataS t
    simp only [declLoop]
    split
    · exact ⟨(hb.trans a1).congr (by crfl), hds, by simp⟩
    · split
      · refine ⟨?_, hds, by simp⟩
        have hb1 := hb.trans a1
        exact ⟨hb1.buf, hb1.rawS, by simp [hds, hd], ⟨by have := hb.ok.le; have := hb.mono; have := hb.buf; simp [hds, hd, readByte_buf]; omega, hb1.ok.panic, hb1.ok.hang, hb1.ok.utf8⟩, hb1.rawTag, hb1.cdata⟩
      · have := ih t.readByte.1 (hb.trans a1) (by rw [hds, hd])
        exact ⟨this.1, this.2.1.trans hds, fun h => a1.trans (this.2.2 h)⟩

theorem readDocType_adv (b t : Tokenizer) (hb : Adv b t) (hd : t.dataS = b.rawE) :
    Adv b (readDocType t).1 ∧ ((readDocType t).2 = false → (readDocType t).1.dataS = b.rawE) := by
  have hl := declLoop_adv b t htmlDoctypePat hb hd
  unfold readDocType
  simp only
  split
  · exact ⟨hl.1, fun _ => hl.2.1.trans hd⟩
  · have a1 := skipWhiteSpace_adv _ hl.1.ok
    split
    · exact ⟨(hl.1.trans a1).congr (by crfl), by simp⟩
    · exact ⟨(hl.1.trans a1).trans (readUntilCloseAngle_adv _ a1.ok), by simp⟩

theorem readCdata_adv (b t : Tokenizer) (hb : Adv b t) (hd : t.dataS = b.rawE) (h2 : 2 ≤ b.rawE) :
    Adv b (readCdata t).1 := by
  have hl := declLoop_adv b t htmlCdataPat hb hd
  unfold readCdata
  simp only
  split
  · exact hl.1
  · have h0 : Adv b { (declLoop t htmlCdataPat).1 with dataS := (declLoop t htmlCdataPat).1.rawE } := hl.1.congr (by crfl)
    exact h0.trans (cdataGo_adv _ 0 h0.ok (by have := h0.mono; simp at this ⊢; omega))

theorem markupRest_adv (b t : Tokenizer) (hb : Adv b t) (hd : t.dataS = b.rawE) (h2 : 2 ≤ b.rawE) :
    Adv b (markupRest t).1 := by
  have hd' := readDocType_adv b t hb hd
  unfold markupRest
  simp only
  generalize t.readDocType = d at *
  split
  · exact hd'.1
  · rename_i hdf
    have hdf' := hd'.2 (by simpa using hdf)
    split
    · have hc := readCdata_adv b _ hd'.1 hdf' h2
      generalize d.1.readCdata = c at *
      split
      · exact hc.congr (by crfl)
      · exact hc.trans (readUntilCloseAngle_adv _ hc.ok)
    · exact hd'.1.trans (readUntilCloseAngle_adv _ hd'.1.ok)

theorem markupGo_adv (t : Tokenizer) (h : Ok t) (h2 : 2 ≤ t.rawE) (hd : t.dataS = t.rawE) : Adv t (markupGo t).1 := by
  unfold markupGo
  simp only
  have a1 := readByte_adv h
  have a2 := readByte_adv a1.ok
  split
  · exact a1.congr (by crfl)
  · rename_i herr1
    split
    · exact (a1.trans a2).congr (by crfl)
    · rename_i herr2
      have e1 := readByte_succ herr1
      have e2 := readByte_succ herr2
      split
      · exact (a1.trans a2).trans (readComment_adv _ a2.ok (by omega))
      · exact markupRest_adv t _ (unread_adv 2 (a1.trans a2) (by omega)) (by simp [hd]) h2

theorem readMarkupDeclaration_adv (t : Tokenizer) (h : Ok t) (h2 : 2 ≤ t.rawE) : Adv t (readMarkupDeclaration t).1 := by
  unfold readMarkupDeclaration
  have h0 : Adv t { t with dataS := t.rawE } := (Adv.refl h).congr (by crfl)
  exact h0.trans (markupGo_adv _ h0.ok h2 rfl)

/-! ### raw text and the script automaton -/

theorem rawEndTagLoop_adv (t : Tokenizer) (cs : List Nat) (h : Ok t) (hcs : ∀ c ∈ cs, 32 ≤ c) :
    Adv t (rawEndTagLoop t cs).1 := by
  induction cs generalizing t with
  | nil => exact Adv.refl h
  | cons c cs ih =>
    have a1 := readByte_adv h
    have hc : 32 ≤ c := hcs c (by simp)
    have ih' := ih t.readByte.1 a1.ok (fun c hc => hcs c (by simp [hc]))
    simp only [rawEndTagLoop]
    split
    · exact a1
    · rename_i herr
      split
      · split
        · omega
        · split
          · exact read_unread_adv h herr
          · exact a1.trans ih'
      · exact a1.trans ih'

theorem readRawEndTag_adv (b t : Tokenizer) (hb : Adv b t) (h2 : b.rawE + 2 ≤ t.rawE) (htag : ∀ c ∈ t.rawTag, 32 ≤ c) :
    Adv b (readRawEndTag t).1 ∧ ((readRawEndTag t).2 = false → Adv t (readRawEndTag t).1) ∧
    ((readRawEndTag t).2 = true →
      (readRawEndTag t).1.rawE + 2 = t.rawE ∧ t.rawE + t.rawTag.length + 1 ≤ t.buf.size) := by
  have hl := rawEndTagLoop_adv t t.rawTag hb.ok htag
  have hr := rawEndTagLoop_rawE t t.rawTag
  unfold readRawEndTag
  simp only
  generalize rawEndTagLoop t t.rawTag = l at *
  split
  · exact ⟨hb.trans hl, fun _ => hl, by simp⟩
  · rename_i hok
    have hok' : l.2 = true := by simpa using hok
    have he := hr.2.2 hok'
    have a1 := readByte_adv hl.ok
    split
    · exact ⟨hb.trans (hl.trans a1), fun _ => hl.trans a1, by simp⟩
    · rename_i herr
      have e1 := readByte_succ herr
      split
      · have hk : 3 + t.rawTag.length ≤ l.1.readByte.1.rawE := by omega
        refine ⟨?_, by simp, fun _ => ?_⟩
        · exact unread_adv _ (hb.trans (hl.trans a1)) (by omega)
        · have hu := unread_rawE_eq _ hk
          have h5 := a1.ok.le
          rw [a1.buf, hl.buf] at h5
          simp only [hu]
          omega
      · exact ⟨hb.trans (hl.trans (read_unread_adv hl.ok herr)), fun _ => hl.trans (read_unread_adv hl.ok herr), by simp⟩

theorem dblEscLoop_adv (t : Tokenizer) (cs : List (Nat × Nat)) (h : Ok t) : Adv t (dblEscLoop t cs).1 := by
  induction cs generalizing t with
  | nil => exact Adv.refl h
  | cons c cs ih =>
    obtain ⟨lo, up⟩ := c
    have a1 := readByte_adv h
    simp only [dblEscLoop]
    split
    · exact a1
    · rename_i herr
      split
      · exact read_unread_adv h herr
      · exact a1.trans (ih _ a1.ok)

/-- bytes of the current token that must already have been read when the automaton is in a state
(`</` before the three end-tag states, `<` before the three less-than-sign states) -/
def SS.need : SS → Nat
  | .endTagOpen | .escapedEndTagOpen | .doubleEscapedEnd => 2
  | .lessThanSign | .escapedLessThanSign | .doubleEscapedLessThanSign => 1
  | _ => 0

theorem script_letters : ∀ c ∈ htmlScript, 32 ≤ c := by decide

theorem scriptGo_adv (st : SS) (b t : Tokenizer) (hb : Adv b t) (hk : b.rawE + st.need ≤ t.rawE)
    (hs : b.rawTag = htmlScript) : Adv b (scriptGo st t) := by
  fun_induction scriptGo st t
  all_goals (try simp +zetaDelta only at *)
  -- edges that start with `read_byte`
  all_goals first
    | exact hb.trans (readByte_adv hb.ok)
    | (apply_assumption
       · first
         | exact hb.trans (readByte_adv hb.ok)
         | exact hb.trans (read_unread_adv hb.ok (by assumption))
       · simp only [SS.need] at *
         first
         | (have := readByte_succ (by assumption); omega)
         | (have := (read_unread_adv hb.ok (by assumption)).mono; omega))
    | skip
  -- read_script_data_end_tag_open / read_script_data_escaped_end_tag_open
  case case8 | case33 =>
    exact (readRawEndTag_adv b _ hb (by simpa [SS.need] using hk) (by rw [hb.rawTag, hs]; exact script_letters)).1
  case case9 | case34 =>
    apply_assumption
    · exact (readRawEndTag_adv b _ hb (by simpa [SS.need] using hk) (by rw [hb.rawTag, hs]; exact script_letters)).1
    · exact (readRawEndTag_adv b _ hb (by simpa [SS.need] using hk) (by rw [hb.rawTag, hs]; exact script_letters)).1.mono
  -- read_script_data_double_escape_start
  case case35 => exact hb.trans (dblEscLoop_adv _ _ hb.ok)
  case case36 =>
    apply_assumption
    · exact hb.trans (dblEscLoop_adv _ _ hb.ok)
    · exact (hb.trans (dblEscLoop_adv _ _ hb.ok)).mono
  case case37 =>
    exact (hb.trans (dblEscLoop_adv _ _ hb.ok)).trans (readByte_adv (dblEscLoop_adv _ _ hb.ok).ok)
  case case38 =>
    apply_assumption
    · exact (hb.trans (dblEscLoop_adv _ _ hb.ok)).trans (readByte_adv (dblEscLoop_adv _ _ hb.ok).ok)
    · exact ((hb.trans (dblEscLoop_adv _ _ hb.ok)).trans (readByte_adv (dblEscLoop_adv _ _ hb.ok).ok)).mono
  case case39 =>
    apply_assumption
    · exact (hb.trans (dblEscLoop_adv _ _ hb.ok)).trans (read_unread_adv (dblEscLoop_adv _ _ hb.ok).ok (by assumption))
    · exact ((hb.trans (dblEscLoop_adv _ _ hb.ok)).trans (read_unread_adv (dblEscLoop_adv _ _ hb.ok).ok (by assumption))).mono
  -- read_script_data_double_escaped_end
  case case57 =>
    exact (readRawEndTag_adv b _ hb (by simpa [SS.need] using hk) (by rw [hb.rawTag, hs]; exact script_letters)).1
  case case58 =>
    apply_assumption
    · exact (readRawEndTag_adv b _ hb (by simpa [SS.need] using hk) (by rw [hb.rawTag, hs]; exact script_letters)).1
    · exact (readRawEndTag_adv b _ hb (by simpa [SS.need] using hk) (by rw [hb.rawTag, hs]; exact script_letters)).1.mono
  case case56 =>
    rename_i t r htrue ih
    have hr := readRawEndTag_adv b t hb (by simpa [SS.need] using hk) (by rw [hb.rawTag, hs]; exact script_letters)
    have h2 := hr.2.2 htrue
    have hlen : t.rawTag.length = 6 := by rw [hb.rawTag, hs]; rfl
    have hadv : Adv b (t.readRawEndTag.1.addRawE htmlScriptEndTagLen) := by
      have h1 := hr.1
      refine ⟨h1.buf, h1.rawS, ?_, ⟨?_, h1.ok.panic, h1.ok.hang, h1.ok.utf8⟩, h1.rawTag, h1.cdata⟩
      · have := h1.mono; simp only [addRawE]; omega
      · have := readRawEndTag_buf t
        simp only [addRawE, htmlScriptEndTagLen, this]; omega
    exact ih hadv hadv.mono

theorem rawTextGo_adv (t : Tokenizer) (h : Ok t) (htag : ∀ c ∈ t.rawTag, 32 ≤ c) : Adv t (rawTextGo t) := by
  fun_induction rawTextGo t
  all_goals (try simp +zetaDelta only at *)
  case case1 => exact readByte_adv h
  case case2 ih =>
    have a1 := readByte_adv h
    exact a1.trans (ih a1.ok (by rw [a1.rawTag]; exact htag))
  case case3 => exact (readByte_adv h).trans (readByte_adv (readByte_adv h).ok)
  case case4 ih =>
    have a1 := readByte_adv h
    have a2 := readByte_adv a1.ok
    exact (a1.trans a2).trans (ih a2.ok (by rw [a2.rawTag, a1.rawTag]; exact htag))
  case case5 t _ herr _ _ herr2 _ _ _ =>
    have a1 := readByte_adv h
    have a2 := readByte_adv a1.ok
    have e1 := readByte_succ herr
    have e2 := readByte_succ herr2
    exact (readRawEndTag_adv t _ (a1.trans a2) (by omega) (by rw [a2.rawTag, a1.rawTag]; exact htag)).1
  case case6 t _ herr _ _ herr2 _ _ _ ih =>
    have a1 := readByte_adv h
    have a2 := readByte_adv a1.ok
    have e1 := readByte_succ herr
    have e2 := readByte_succ herr2
    have a3 := (readRawEndTag_adv t _ (a1.trans a2) (by omega) (by rw [a2.rawTag, a1.rawTag]; exact htag)).1
    exact a3.trans (ih a3.ok (by rw [a3.rawTag]; exact htag))

/-! ### tags -/

theorem tagNameGo_adv (t : Tokenizer) (h : Ok t) : Adv t (tagNameGo t) := by
  fun_induction tagNameGo t
  all_goals (try simp +zetaDelta only at *)
  case case1 => exact (readByte_adv h).congr (by crfl)
  case case2 => exact setDataEndBack_adv 1 (readByte_adv h) (readByte_pos (by assumption))
  case case3 => exact (read_unread_adv h (by assumption)).congr (by crfl)
  case case4 ih => exact (readByte_adv h).trans (ih (readByte_adv h).ok)

theorem readTagName_adv (t : Tokenizer) (h : Ok t) (h1 : 1 ≤ t.rawE) : Adv t (readTagName t) := by
  unfold readTagName
  split
  · omega
  · have h0 : Adv t { t with dataS := t.rawE - 1 } := (Adv.refl h).congr (by crfl)
    exact h0.trans (tagNameGo_adv _ h0.ok)

theorem attrKeyGo_adv (t : Tokenizer) (h : Ok t) : Adv t (attrKeyGo t) := by
  fun_induction attrKeyGo t
  all_goals (try simp +zetaDelta only at *)
  case case1 => exact (readByte_adv h).congr (by crfl)
  case case2 => have := readByte_pos (t := _) (by assumption); omega
  case case3 => exact (readByte_adv h).congr (by crfl)
  case case4 => exact (read_unread_adv h (by assumption)).congr (by crfl)
  case case5 ih => exact (readByte_adv h).trans (ih (readByte_adv h).ok)

theorem readTagAttrKey_adv (t : Tokenizer) (h : Ok t) : Adv t (readTagAttrKey t) := by
  unfold readTagAttrKey
  have h0 : Adv t { t with pkS := t.rawE } := (Adv.refl h).congr (by crfl)
  exact h0.trans (attrKeyGo_adv _ h0.ok)

theorem attrValQuotedGo_adv (t : Tokenizer) (q : Nat) (h : Ok t) : Adv t (attrValQuotedGo t q) := by
  fun_induction attrValQuotedGo t q
  all_goals (try simp +zetaDelta only at *)
  case case1 => exact (readByte_adv h).congr (by crfl)
  case case2 => have := readByte_pos (t := _) (by assumption); omega
  case case3 => exact (readByte_adv h).congr (by crfl)
  case case4 ih => exact (readByte_adv h).trans (ih (readByte_adv h).ok)

theorem attrValUnquotedGo_adv (t : Tokenizer) (h : Ok t) : Adv t (attrValUnquotedGo t) := by
  fun_induction attrValUnquotedGo t
  all_goals (try simp +zetaDelta only at *)
  case case1 => exact (readByte_adv h).congr (by crfl)
  case case2 => have := readByte_pos (t := _) (by assumption); omega
  case case3 => exact (readByte_adv h).congr (by crfl)
  case case4 => exact (read_unread_adv h (by assumption)).congr (by crfl)
  case case5 ih => exact (readByte_adv h).trans (ih (readByte_adv h).ok)

theorem attrValRest_adv (t : Tokenizer) (h : Ok t) : Adv t (attrValRest t) := by
  unfold attrValRest
  simp only
  have a3 := skipWhiteSpace_adv _ h
  generalize t.skipWhiteSpace = t2 at *
  split
  · exact a3
  · have a4 := readByte_adv a3.ok
    split
    · exact a3.trans a4
    · rename_i herr2
      split
      · exact a3.trans (read_unread_adv a3.ok herr2)
      · split
        · have h5 : Adv t { t2.readByte.1 with pvS := t2.readByte.1.rawE } := (a3.trans a4).congr (by crfl)
          exact h5.trans (attrValQuotedGo_adv _ _ h5.ok)
        · split
          · have := readByte_pos herr2; omega
          · have h5 : Adv t { t2.readByte.1 with pvS := t2.readByte.1.rawE - 1 } := (a3.trans a4).congr (by crfl)
            exact h5.trans (attrValUnquotedGo_adv _ h5.ok)

theorem attrValGo_adv (t : Tokenizer) (h : Ok t) : Adv t (attrValGo t) := by
  unfold attrValGo
  simp only
  have a1 := skipWhiteSpace_adv _ h
  generalize t.skipWhiteSpace = t1 at *
  split
  · exact a1
  · have a2 := readByte_adv a1.ok
    split
    · exact a1.trans a2
    · rename_i herr
      split
      · exact a1.trans (read_unread_adv a1.ok herr)
      · exact (a1.trans a2).trans (attrValRest_adv _ a2.ok)

theorem readTagAttrVal_adv (t : Tokenizer) (h : Ok t) : Adv t (readTagAttrVal t) := by
  unfold readTagAttrVal
  have h0 : Adv t { t with pvS := t.rawE, pvE := t.rawE } := (Adv.refl h).congr (by crfl)
  exact h0.trans (attrValGo_adv _ h0.ok)

theorem readAttr_adv (t : Tokenizer) (save : Bool) (h : Ok t) : Adv t (readAttr t save) := by
  unfold readAttr
  simp only
  have a1 := readTagAttrKey_adv t h
  have a2 := a1.trans (readTagAttrVal_adv _ a1.ok)
  generalize t.readTagAttrKey.readTagAttrVal = t2 at *
  split
  · have a3 : Adv t t2.pushPending := a2.congr (by crfl)
    exact a3.trans (skipWhiteSpace_adv _ a3.ok)
  · exact a2.trans (skipWhiteSpace_adv _ a2.ok)

/-! ### progress of the attribute loop (the `hang` flag is never set) -/

theorem readByte_get_spec {t : Tokenizer} {b : Nat} (h : t.buf[t.rawE]? = some b) :
    t.readByte.2 = b ∧ t.readByte.1.rawE = t.rawE + 1 ∧ t.readByte.1.err = t.err ∧ t.readByte.1.buf = t.buf := by
  unfold readByte
  have hlt : t.rawE < t.buf.size := by
    rcases Nat.lt_or_ge t.rawE t.buf.size with h' | h'
    · exact h'
    · simp [Array.getElem?_eq_none h'] at h
  simp only [hlt, dite_true]
  simp [Array.getElem?_eq_getElem hlt] at h
  simp [h]

theorem get_of_readByte {t : Tokenizer} (herr : ¬ t.readByte.1.err = true) :
    t.buf[t.rawE]? = some t.readByte.2 ∧ t.err = false := by
  unfold readByte at *
  split
  · rename_i hlt
    simp_all
  · simp_all

theorem isWs_61 : isWs 61 = false := by decide

theorem unread1_spec (t : Tokenizer) (h1 : 1 ≤ t.rawE) :
    (t.unread 1).rawE = t.rawE - 1 ∧ (t.unread 1).err = t.err ∧ (t.unread 1).buf = t.buf := by
  unfold unread; simp [h1]

theorem attrKeyGo_progress (t : Tokenizer) (b : Nat) (h : Ok t) (herr : t.err = false)
    (hb : t.buf[t.rawE]? = some b) (h62 : b ≠ 62) :
    (b ≠ 61 → t.rawE + 1 ≤ (attrKeyGo t).rawE) ∧
    (b = 61 → (attrKeyGo t).rawE = t.rawE ∧ (attrKeyGo t).err = false ∧ (attrKeyGo t).buf = t.buf) := by
  rw [attrKeyGo]
  obtain ⟨e1, e2, e3, e4⟩ := readByte_get_spec hb
  have a1 := readByte_adv h
  have hu := unread1_spec t.readByte.1 (by omega)
  have hrec := (attrKeyGo_adv _ a1.ok).mono
  generalize t.readByte = r at *
  subst e1
  have hre : r.1.err = false := by rw [e3, herr]
  simp only [hre, Bool.false_eq_true, dite_false]
  by_cases h1 : (isWs r.2 || r.2 == 47) = true
  · simp only [h1, if_true]
    have hne : r.2 ≠ 61 := by
      intro e; rw [e] at h1; simp [isWs_61] at h1
    simp only [hne, not_false_eq_true, true_implies, false_implies, and_true]
    split <;> simp <;> omega
  · simp only [h1, Bool.false_eq_true, if_false]
    by_cases h2 : (r.2 == 61 || r.2 == 62) = true
    · simp only [h2, if_true]
      have he : r.2 = 61 := by
        simp at h2; omega
      refine ⟨fun hn => absurd he hn, fun _ => ⟨?_, ?_, ?_⟩⟩
      · show (r.1.unread 1).rawE = t.rawE
        omega
      · show (r.1.unread 1).err = false
        rw [hu.2.1, hre]
      · show (r.1.unread 1).buf = t.buf
        rw [hu.2.2, e4]
    · simp only [h2, Bool.false_eq_true, if_false]
      have hne : r.2 ≠ 61 := by
        intro e; rw [e] at h2; simp at h2
      simp only [hne, not_false_eq_true, true_implies, false_implies, and_true]
      omega

theorem skipWhiteSpace_61 (t : Tokenizer) (herr : t.err = false) (hb : t.buf[t.rawE]? = some 61) :
    t.skipWhiteSpace.rawE = t.rawE ∧ t.skipWhiteSpace.err = false ∧ t.skipWhiteSpace.buf = t.buf := by
  unfold skipWhiteSpace
  simp only [herr, Bool.false_eq_true, if_false]
  rw [skipWsGo]
  obtain ⟨e1, e2, e3, e4⟩ := readByte_get_spec hb
  have hu := unread1_spec t.readByte.1 (by omega)
  generalize t.readByte = r at *
  have hre : r.1.err = false := by rw [e3, herr]
  simp only [hre, Bool.false_eq_true, dite_false, e1, isWs_61, if_false]
  refine ⟨by omega, by rw [hu.2.1, hre], by rw [hu.2.2, e4]⟩

theorem attrValGo_progress (t : Tokenizer) (h : Ok t) (herr : t.err = false)
    (hb : t.buf[t.rawE]? = some 61) : t.rawE + 1 ≤ (attrValGo t).rawE := by
  unfold attrValGo
  simp only
  obtain ⟨s1, s2, s3⟩ := skipWhiteSpace_61 t herr hb
  have a1 := skipWhiteSpace_adv t h
  generalize t.skipWhiteSpace = t1 at *
  have hb1 : t1.buf[t1.rawE]? = some 61 := by rw [s3, s1]; exact hb
  obtain ⟨e1, e2, e3, e4⟩ := readByte_get_spec hb1
  have a2 := readByte_adv a1.ok
  have a3 := (attrValRest_adv _ a2.ok).mono
  generalize t1.readByte = r at *
  have hre : r.1.err = false := by rw [e3, s2]
  simp only [s2, hre, e1, Bool.false_eq_true, if_false, bne_self_eq_false]
  omega

theorem readAttr_progress (t : Tokenizer) (b : Nat) (save : Bool) (h : Ok t) (herr : t.err = false)
    (hb : t.buf[t.rawE]? = some b) (h62 : b ≠ 62) : t.rawE + 1 ≤ (readAttr t save).rawE := by
  unfold readAttr
  simp only
  have h0 : Adv t { t with pkS := t.rawE } := (Adv.refl h).congr (by crfl)
  have hk := attrKeyGo_progress { t with pkS := t.rawE } b h0.ok herr hb h62
  have a1 := readTagAttrKey_adv t h
  unfold readTagAttrKey at a1 ⊢
  generalize ({ t with pkS := t.rawE } : Tokenizer).attrKeyGo = t1 at *
  have a2 := readTagAttrVal_adv t1 a1.ok
  have hv : t.rawE + 1 ≤ t1.readTagAttrVal.rawE := by
    by_cases hb61 : b = 61
    · obtain ⟨k1, k2, k3⟩ := hk.2 hb61
      unfold readTagAttrVal at a2 ⊢
      have h1 : Adv t1 { t1 with pvS := t1.rawE, pvE := t1.rawE } := (Adv.refl a1.ok).congr (by crfl)
      have := attrValGo_progress { t1 with pvS := t1.rawE, pvE := t1.rawE } h1.ok k2 (by
        show t1.buf[t1.rawE]? = some 61
        rw [k3, k1, ← hb61]; exact hb)
      simp only at this k1
      omega
    · have := hk.1 hb61
      have := a2.mono
      simp only at *
      omega
  generalize t1.readTagAttrVal = t2 at *
  split
  · have a3 : Adv t2 t2.pushPending := (Adv.refl a2.ok).congr (by crfl)
    have := (skipWhiteSpace_adv _ a3.ok).mono
    have : t2.pushPending.rawE = t2.rawE := rfl
    omega
  · have := (skipWhiteSpace_adv _ a2.ok).mono
    omega

theorem tagAttrsGo_adv (t : Tokenizer) (save : Bool) (h : Ok t) : Adv t (tagAttrsGo t save) := by
  fun_induction tagAttrsGo t save
  all_goals (try simp +zetaDelta only at *)
  case case1 => exact readByte_adv h
  case case2 t _ hne _ _ =>
    have herr : ¬ t.readByte.1.err = true := by intro e; simp [e] at hne
    exact (read_unread_adv h herr).trans (readAttr_adv _ _ (read_unread_adv h herr).ok)
  case case3 t _ hne _ _ _ ih =>
    have herr : ¬ t.readByte.1.err = true := by intro e; simp [e] at hne
    have a1 := (read_unread_adv h herr).trans (readAttr_adv _ save (read_unread_adv h herr).ok)
    exact a1.trans (ih a1.ok)
  case case4 t _ hne _ _ hnp =>
    exfalso
    have herr : ¬ t.readByte.1.err = true := by intro e; simp [e] at hne
    have h62 : t.readByte.2 ≠ 62 := by intro e; simp [e] at hne
    obtain ⟨g1, g2⟩ := get_of_readByte herr
    obtain ⟨e1, e2, e3, e4⟩ := readByte_get_spec g1
    have hu := unread1_spec t.readByte.1 (by omega)
    have a0 := read_unread_adv h herr
    have hp := readAttr_progress (t.readByte.1.unread 1) t.readByte.2 save a0.ok (by rw [hu.2.1, e3, g2])
      (by rw [hu.2.2, e4, hu.1, e2]; simpa using g1) h62
    have a1 := readAttr_adv (t.readByte.1.unread 1) save a0.ok
    have hbuf := (a0.trans a1).buf
    have hle := a1.ok.le
    rw [hbuf] at hnp hle
    omega

theorem readTag_adv (t : Tokenizer) (save : Bool) (h : Ok t) (h1 : 1 ≤ t.rawE) : Adv t (readTag t save) := by
  unfold readTag
  simp only
  have h0 : Adv t { t with attrs := #[], nAttrRet := 0 } := (Adv.refl h).congr (by crfl)
  have a1 := h0.trans (readTagName_adv _ h0.ok h1)
  have a2 := a1.trans (skipWhiteSpace_adv _ a1.ok)
  generalize (({ t with attrs := #[], nAttrRet := 0 } : Tokenizer).readTagName.skipWhiteSpace) = t2 at *
  split
  · exact a2
  · exact a2.trans (tagAttrsGo_adv _ _ a2.ok)

/-! ### frame lemmas: fields a helper does not touch -/


@[simp] theorem readByte_dataE (t : Tokenizer) : t.readByte.1.dataE = t.dataE := by
  unfold readByte; split <;> rfl

@[simp] theorem unread_dataE (t : Tokenizer) (k : Nat) : (t.unread k).dataE = t.dataE := by
  unfold unread; split <;> rfl

@[simp] theorem readByte_attrs (t : Tokenizer) : t.readByte.1.attrs = t.attrs := by
  unfold readByte; split <;> rfl

@[simp] theorem unread_attrs (t : Tokenizer) (k : Nat) : (t.unread k).attrs = t.attrs := by
  unfold unread; split <;> rfl

@[simp] theorem readByte_nAttrRet (t : Tokenizer) : t.readByte.1.nAttrRet = t.nAttrRet := by
  unfold readByte; split <;> rfl

@[simp] theorem unread_nAttrRet (t : Tokenizer) (k : Nat) : (t.unread k).nAttrRet = t.nAttrRet := by
  unfold unread; split <;> rfl

@[simp] theorem readByte_pkS (t : Tokenizer) : t.readByte.1.pkS = t.pkS := by
  unfold readByte; split <;> rfl

@[simp] theorem unread_pkS (t : Tokenizer) (k : Nat) : (t.unread k).pkS = t.pkS := by
  unfold unread; split <;> rfl

@[simp] theorem readByte_pkE (t : Tokenizer) : t.readByte.1.pkE = t.pkE := by
  unfold readByte; split <;> rfl

@[simp] theorem unread_pkE (t : Tokenizer) (k : Nat) : (t.unread k).pkE = t.pkE := by
  unfold unread; split <;> rfl

@[simp] theorem readByte_pvS (t : Tokenizer) : t.readByte.1.pvS = t.pvS := by
  unfold readByte; split <;> rfl

@[simp] theorem unread_pvS (t : Tokenizer) (k : Nat) : (t.unread k).pvS = t.pvS := by
  unfold unread; split <;> rfl

@[simp] theorem readByte_pvE (t : Tokenizer) : t.readByte.1.pvE = t.pvE := by
  unfold readByte; split <;> rfl

@[simp] theorem unread_pvE (t : Tokenizer) (k : Nat) : (t.unread k).pvE = t.pvE := by
  unfold unread; split <;> rfl

@[simp] theorem readByte_token (t : Tokenizer) : t.readByte.1.token = t.token := by
  unfold readByte; split <;> rfl

@[simp] theorem unread_token (t : Tokenizer) (k : Nat) : (t.unread k).token = t.token := by
  unfold unread; split <;> rfl

@[simp] theorem readByte_textIsRaw (t : Tokenizer) : t.readByte.1.textIsRaw = t.textIsRaw := by
  unfold readByte; split <;> rfl

@[simp] theorem unread_textIsRaw (t : Tokenizer) (k : Nat) : (t.unread k).textIsRaw = t.textIsRaw := by
  unfold unread; split <;> rfl

@[simp] theorem readByte_convertNull (t : Tokenizer) : t.readByte.1.convertNull = t.convertNull := by
  unfold readByte; split <;> rfl

@[simp] theorem unread_convertNull (t : Tokenizer) (k : Nat) : (t.unread k).convertNull = t.convertNull := by
  unfold unread; split <;> rfl

theorem skipWsGo_frame (t : Tokenizer) : (skipWsGo t).dataS = t.dataS ∧ (skipWsGo t).dataE = t.dataE ∧ (skipWsGo t).attrs = t.attrs ∧ (skipWsGo t).nAttrRet = t.nAttrRet ∧ (skipWsGo t).pkS = t.pkS ∧ (skipWsGo t).pkE = t.pkE ∧ (skipWsGo t).pvS = t.pvS ∧ (skipWsGo t).pvE = t.pvE := by
  fun_induction skipWsGo t <;> simp_all +zetaDelta

theorem skipWhiteSpace_frame (t : Tokenizer) : (skipWhiteSpace t).dataS = t.dataS ∧ (skipWhiteSpace t).dataE = t.dataE ∧ (skipWhiteSpace t).attrs = t.attrs ∧ (skipWhiteSpace t).nAttrRet = t.nAttrRet ∧ (skipWhiteSpace t).pkS = t.pkS ∧ (skipWhiteSpace t).pkE = t.pkE ∧ (skipWhiteSpace t).pvS = t.pvS ∧ (skipWhiteSpace t).pvE = t.pvE := by
  unfold skipWhiteSpace; split
  · simp
  · exact skipWsGo_frame t

theorem attrKeyGo_frame (t : Tokenizer) : (attrKeyGo t).dataS = t.dataS ∧ (attrKeyGo t).dataE = t.dataE ∧ (attrKeyGo t).attrs = t.attrs ∧ (attrKeyGo t).nAttrRet = t.nAttrRet ∧ (attrKeyGo t).pkS = t.pkS ∧ (attrKeyGo t).pvS = t.pvS ∧ (attrKeyGo t).pvE = t.pvE := by
  fun_induction attrKeyGo t <;> simp_all +zetaDelta

theorem attrValQuotedGo_frame (t : Tokenizer) (q : Nat) : (attrValQuotedGo t q).dataS = t.dataS ∧ (attrValQuotedGo t q).dataE = t.dataE ∧ (attrValQuotedGo t q).attrs = t.attrs ∧ (attrValQuotedGo t q).nAttrRet = t.nAttrRet ∧ (attrValQuotedGo t q).pkS = t.pkS ∧ (attrValQuotedGo t q).pkE = t.pkE ∧ (attrValQuotedGo t q).pvS = t.pvS := by
  fun_induction attrValQuotedGo t q <;> simp_all +zetaDelta

theorem attrValUnquotedGo_frame (t : Tokenizer) : (attrValUnquotedGo t).dataS = t.dataS ∧ (attrValUnquotedGo t).dataE = t.dataE ∧ (attrValUnquotedGo t).attrs = t.attrs ∧ (attrValUnquotedGo t).nAttrRet = t.nAttrRet ∧ (attrValUnquotedGo t).pkS = t.pkS ∧ (attrValUnquotedGo t).pkE = t.pkE ∧ (attrValUnquotedGo t).pvS = t.pvS := by
  fun_induction attrValUnquotedGo t <;> simp_all +zetaDelta

/-! ### spans of the pending attribute -/

theorem attrKeyGo_pk (t : Tokenizer) (h : Ok t) :
    t.rawE ≤ (attrKeyGo t).pkE ∧ (attrKeyGo t).pkE ≤ (attrKeyGo t).rawE := by
  fun_induction attrKeyGo t
  all_goals (try simp +zetaDelta only at *)
  case case1 => exact ⟨(readByte_adv h).mono, Nat.le_refl _⟩
  case case2 => have := readByte_pos (t := _) (by assumption); omega
  case case3 =>
    have := readByte_succ (t := _) (by assumption)
    constructor <;> (try simp only) <;> omega
  case case4 =>
    have a := read_unread_adv h (by assumption)
    exact ⟨a.mono, Nat.le_refl _⟩
  case case5 ih =>
    have a1 := readByte_adv h
    have := ih a1.ok
    have := a1.mono
    omega

theorem attrValQuotedGo_pv (t : Tokenizer) (q : Nat) (h : Ok t) :
    t.rawE ≤ (attrValQuotedGo t q).pvE ∧ (attrValQuotedGo t q).pvE ≤ (attrValQuotedGo t q).rawE := by
  fun_induction attrValQuotedGo t q
  all_goals (try simp +zetaDelta only at *)
  case case1 => exact ⟨(readByte_adv h).mono, Nat.le_refl _⟩
  case case2 => have := readByte_pos (t := _) (by assumption); omega
  case case3 =>
    have := readByte_succ (t := _) (by assumption)
    constructor <;> (try simp only) <;> omega
  case case4 ih =>
    have a1 := readByte_adv h
    have := ih a1.ok
    have := a1.mono
    omega

theorem attrValUnquotedGo_pv (t : Tokenizer) (h : Ok t) :
    t.rawE ≤ (attrValUnquotedGo t).pvE ∧ (attrValUnquotedGo t).pvE ≤ (attrValUnquotedGo t).rawE := by
  fun_induction attrValUnquotedGo t
  all_goals (try simp +zetaDelta only at *)
  case case1 => exact ⟨(readByte_adv h).mono, Nat.le_refl _⟩
  case case2 => have := readByte_pos (t := _) (by assumption); omega
  case case3 =>
    have := readByte_succ (t := _) (by assumption)
    constructor <;> (try simp only) <;> omega
  case case4 =>
    have a := read_unread_adv h (by assumption)
    exact ⟨a.mono, Nat.le_refl _⟩
  case case5 ih =>
    have a1 := readByte_adv h
    have := ih a1.ok
    have := a1.mono
    omega

/-- fields of the tag phase that the attribute-value reader leaves alone -/
def valF (t : Tokenizer) : Nat × Nat × Array AttrSpan × Nat × Nat × Nat :=
  (t.dataS, t.dataE, t.attrs, t.nAttrRet, t.pkS, t.pkE)

theorem attrValQuotedGo_valF (t : Tokenizer) (q : Nat) : valF (attrValQuotedGo t q) = valF t := by
  simp [valF, attrValQuotedGo_frame]

theorem attrValUnquotedGo_valF (t : Tokenizer) : valF (attrValUnquotedGo t) = valF t := by
  simp [valF, attrValUnquotedGo_frame]

theorem attrValRest_spec (t : Tokenizer) (h : Ok t) (hpv : t.pvS ≤ t.pvE ∧ t.pvE ≤ t.rawE) :
    valF (attrValRest t) = valF t ∧
    (attrValRest t).pvS ≤ (attrValRest t).pvE ∧ (attrValRest t).pvE ≤ (attrValRest t).rawE := by
  unfold attrValRest
  simp only
  have a3 := skipWhiteSpace_adv _ h
  have f3 := skipWhiteSpace_frame t
  generalize t.skipWhiteSpace = t2 at *
  have hm := a3.mono
  split
  · exact ⟨by simp [valF, f3], by omega, by omega⟩
  · have a4 := readByte_adv a3.ok
    have hm4 := a4.mono
    split
    · exact ⟨by simp [valF, f3], by simp [f3]; omega, by simp [f3]; omega⟩
    · rename_i herr2
      have e2 := readByte_succ herr2
      split
      · have hu := unread1_spec t2.readByte.1 (by omega)
        exact ⟨by simp [valF, f3], by simp [f3]; omega, by simp [f3]; omega⟩
      · split
        · have h5 : Adv t { t2.readByte.1 with pvS := t2.readByte.1.rawE } := (a3.trans a4).congr (by crfl)
          have hf := attrValQuotedGo_valF { t2.readByte.1 with pvS := t2.readByte.1.rawE } t2.readByte.2
          have hs := (attrValQuotedGo_frame { t2.readByte.1 with pvS := t2.readByte.1.rawE } t2.readByte.2).2.2.2.2.2.2
          have hp := attrValQuotedGo_pv { t2.readByte.1 with pvS := t2.readByte.1.rawE } t2.readByte.2 h5.ok
          exact ⟨hf.trans (by simp [valF, f3]), Nat.le_trans (Nat.le_of_eq hs) hp.1, hp.2⟩
        · split
          · omega
          · have h5 : Adv t { t2.readByte.1 with pvS := t2.readByte.1.rawE - 1 } := (a3.trans a4).congr (by crfl)
            have hf := attrValUnquotedGo_valF { t2.readByte.1 with pvS := t2.readByte.1.rawE - 1 }
            have hs := (attrValUnquotedGo_frame { t2.readByte.1 with pvS := t2.readByte.1.rawE - 1 }).2.2.2.2.2.2
            have hp := attrValUnquotedGo_pv { t2.readByte.1 with pvS := t2.readByte.1.rawE - 1 } h5.ok
            exact ⟨hf.trans (by simp [valF, f3]), Nat.le_trans (Nat.le_of_eq hs) (Nat.le_trans (Nat.sub_le _ _) hp.1), hp.2⟩

theorem attrValGo_spec (t : Tokenizer) (h : Ok t) (hpv : t.pvS ≤ t.pvE ∧ t.pvE ≤ t.rawE) :
    valF (attrValGo t) = valF t ∧
    (attrValGo t).pvS ≤ (attrValGo t).pvE ∧ (attrValGo t).pvE ≤ (attrValGo t).rawE := by
  unfold attrValGo
  simp only
  have a1 := skipWhiteSpace_adv _ h
  have f1 := skipWhiteSpace_frame t
  generalize t.skipWhiteSpace = t1 at *
  have hm := a1.mono
  split
  · exact ⟨by simp [valF, f1], by omega, by omega⟩
  · have a2 := readByte_adv a1.ok
    have hm2 := a2.mono
    split
    · exact ⟨by simp [valF, f1], by simp [f1]; omega, by simp [f1]; omega⟩
    · rename_i herr
      have e2 := readByte_succ herr
      split
      · have hu := unread1_spec t1.readByte.1 (by omega)
        exact ⟨by simp [valF, f1], by simp [f1]; omega, by simp [f1]; omega⟩
      · have hr := attrValRest_spec t1.readByte.1 a2.ok (by simp [f1]; omega)
        refine ⟨by rw [hr.1]; simp [valF, f1], hr.2.1, hr.2.2⟩

theorem readTagAttrVal_spec (t : Tokenizer) (h : Ok t) :
    valF (readTagAttrVal t) = valF t ∧
    (readTagAttrVal t).pvS ≤ (readTagAttrVal t).pvE ∧ (readTagAttrVal t).pvE ≤ (readTagAttrVal t).rawE := by
  unfold readTagAttrVal
  have h0 : Adv t { t with pvS := t.rawE, pvE := t.rawE } := (Adv.refl h).congr (by crfl)
  have := attrValGo_spec { t with pvS := t.rawE, pvE := t.rawE } h0.ok (by simp)
  exact ⟨by rw [this.1]; rfl, this.2⟩

/-- every saved attribute span lies inside the buffer -/
def AttrsOk (t : Tokenizer) : Prop :=
  ∀ a ∈ t.attrs.toList, a.ks ≤ a.ke ∧ a.ke ≤ t.buf.size ∧ a.vs ≤ a.ve ∧ a.ve ≤ t.buf.size

theorem readAttr_spec (t : Tokenizer) (save : Bool) (h : Ok t) (ha : AttrsOk t) :
    AttrsOk (readAttr t save) ∧ (readAttr t save).dataS = t.dataS ∧ (readAttr t save).dataE = t.dataE ∧
    (readAttr t save).nAttrRet = t.nAttrRet := by
  unfold readAttr
  simp only
  have a1 := readTagAttrKey_adv t h
  have h0 : Adv t { t with pkS := t.rawE } := (Adv.refl h).congr (by crfl)
  have kf := attrKeyGo_frame { t with pkS := t.rawE }
  have kp := attrKeyGo_pk { t with pkS := t.rawE } h0.ok
  unfold readTagAttrKey at a1 ⊢
  simp only at kf kp
  generalize ({ t with pkS := t.rawE } : Tokenizer).attrKeyGo = t1 at *
  have a2 := readTagAttrVal_adv t1 a1.ok
  have vs := readTagAttrVal_spec t1 a1.ok
  simp only [valF, Prod.mk.injEq] at vs
  generalize t1.readTagAttrVal = t2 at *
  have hle := a2.ok.le
  have hm2 := a2.mono
  have hbuf : t2.buf = t.buf := (a1.trans a2).buf
  split
  · have a3 : Adv t2 t2.pushPending := (Adv.refl a2.ok).congr (by crfl)
    have f := skipWhiteSpace_frame t2.pushPending
    have ab := (skipWhiteSpace_adv _ a3.ok).buf
    have p1 : t2.pushPending.attrs = t2.attrs.push ⟨t2.pkS, t2.pkE, t2.pvS, t2.pvE⟩ := rfl
    have p2 : t2.pushPending.dataS = t2.dataS := rfl
    have p3 : t2.pushPending.dataE = t2.dataE := rfl
    have p4 : t2.pushPending.nAttrRet = t2.nAttrRet := rfl
    have p5 : t2.pushPending.buf = t2.buf := rfl
    generalize t2.pushPending = t3 at *
    refine ⟨?_, by simp [f, vs, kf, p2], by simp [f, vs, kf, p3], by simp [f, vs, kf, p4]⟩
    intro a hmem
    rw [f.2.2.1, p1] at hmem
    rw [ab, p5, hbuf]
    simp only [Array.toList_push, List.mem_append, List.mem_singleton] at hmem
    rcases hmem with hmem | rfl
    · rw [vs.1.2.2.1, kf.2.2.1] at hmem
      exact ha a hmem
    · simp only
      rw [hbuf] at hle
      refine ⟨?_, ?_, ?_, ?_⟩ <;> omega
  · have f := skipWhiteSpace_frame t2
    have ab := (skipWhiteSpace_adv _ a2.ok).buf
    refine ⟨?_, by simp [f, vs, kf], by simp [f, vs, kf], by simp [f, vs, kf]⟩
    intro a hmem
    rw [f.2.2.1, vs.1.2.2.1, kf.2.2.1] at hmem
    rw [ab, hbuf]
    exact ha a hmem

theorem tagAttrsGo_spec (t : Tokenizer) (save : Bool) (h : Ok t) (ha : AttrsOk t) :
    AttrsOk (tagAttrsGo t save) ∧ (tagAttrsGo t save).dataS = t.dataS ∧ (tagAttrsGo t save).dataE = t.dataE ∧
    (tagAttrsGo t save).nAttrRet = t.nAttrRet := by
  fun_induction tagAttrsGo t save
  all_goals (try simp +zetaDelta only at *)
  case case1 t _ _ =>
    refine ⟨?_, by simp, by simp, by simp⟩
    intro a hmem
    rw [readByte_attrs] at hmem
    rw [readByte_buf]
    exact ha a hmem
  case case2 t _ hne _ _ =>
    have herr : ¬ t.readByte.1.err = true := by intro e; simp [e] at hne
    have a0 := read_unread_adv h herr
    have := readAttr_spec (t.readByte.1.unread 1) save a0.ok (by
      intro a hmem; rw [unread_attrs, readByte_attrs] at hmem; rw [a0.buf]; exact ha a hmem)
    simpa using this
  case case3 t _ hne _ _ _ ih =>
    have herr : ¬ t.readByte.1.err = true := by intro e; simp [e] at hne
    have a0 := read_unread_adv h herr
    have hs := readAttr_spec (t.readByte.1.unread 1) save a0.ok (by
      intro a hmem; rw [unread_attrs, readByte_attrs] at hmem; rw [a0.buf]; exact ha a hmem)
    have a1 := readAttr_adv (t.readByte.1.unread 1) save a0.ok
    have := ih a1.ok hs.1
    simp only [unread_dataS, readByte_dataS, unread_dataE, readByte_dataE, unread_nAttrRet, readByte_nAttrRet] at hs
    exact ⟨this.1, by omega, by omega, by omega⟩
  case case4 t _ hne _ _ hnp =>
    -- impossible (see `tagAttrsGo_adv`), but the frame facts hold anyway
    have herr : ¬ t.readByte.1.err = true := by intro e; simp [e] at hne
    have a0 := read_unread_adv h herr
    have := readAttr_spec (t.readByte.1.unread 1) save a0.ok (by
      intro a hmem; rw [unread_attrs, readByte_attrs] at hmem; rw [a0.buf]; exact ha a hmem)
    simpa [AttrsOk] using this

theorem tagNameGo_data (t : Tokenizer) (h : Ok t) :
    (tagNameGo t).dataS = t.dataS ∧ t.rawE ≤ (tagNameGo t).dataE ∧ (tagNameGo t).dataE ≤ (tagNameGo t).rawE ∧
    (tagNameGo t).attrs = t.attrs ∧ (tagNameGo t).nAttrRet = t.nAttrRet := by
  fun_induction tagNameGo t
  all_goals (try simp +zetaDelta only at *)
  case case1 => exact ⟨by simp, (readByte_adv h).mono, Nat.le_refl _, by simp, by simp⟩
  case case2 =>
    have := readByte_succ (t := _) (by assumption)
    unfold setDataEndBack
    split
    · simp; omega
    · omega
  case case3 =>
    have a := read_unread_adv h (by assumption)
    exact ⟨by simp, a.mono, Nat.le_refl _, by simp, by simp⟩
  case case4 ih =>
    have a1 := readByte_adv h
    have i := ih a1.ok
    have := a1.mono
    simp only [readByte_dataS, readByte_attrs, readByte_nAttrRet] at i
    exact ⟨i.1, by omega, i.2.2.1, i.2.2.2.1, i.2.2.2.2⟩

theorem readTag_spec (t : Tokenizer) (save : Bool) (h : Ok t) (h1 : 1 ≤ t.rawE) :
    (readTag t save).dataS = t.rawE - 1 ∧ t.rawE ≤ (readTag t save).dataE ∧
    (readTag t save).dataE ≤ (readTag t save).rawE ∧ AttrsOk (readTag t save) ∧ (readTag t save).nAttrRet = 0 := by
  unfold readTag
  simp only
  have h0 : Adv t { t with attrs := #[], nAttrRet := 0 } := (Adv.refl h).congr (by crfl)
  have a1 := readTagName_adv _ h0.ok h1
  unfold readTagName at a1 ⊢
  have hne : ¬ t.rawE = 0 := by omega
  simp only [hne, if_false] at a1 ⊢
  have h00 : Adv t { t with attrs := #[], nAttrRet := 0, dataS := t.rawE - 1 } := (Adv.refl h).congr (by crfl)
  have d := tagNameGo_data { t with attrs := #[], nAttrRet := 0, dataS := t.rawE - 1 } h00.ok
  simp only at d
  generalize ({ t with attrs := #[], nAttrRet := 0, dataS := t.rawE - 1 } : Tokenizer).tagNameGo = t1 at *
  have a2 := skipWhiteSpace_adv _ a1.ok
  have f2 := skipWhiteSpace_frame t1
  generalize t1.skipWhiteSpace = t2 at *
  have hm := a2.mono
  have hao : AttrsOk t2 := by
    intro a hmem; rw [f2.2.2.1, d.2.2.2.1] at hmem; simp at hmem
  split
  · exact ⟨by omega, by omega, by omega, hao, by omega⟩
  · have s := tagAttrsGo_spec t2 save a2.ok hao
    have hm3 := (tagAttrsGo_adv t2 save a2.ok).mono
    exact ⟨by omega, by omega, by omega, s.1, by omega⟩

/-! ### `read_start_tag`: the raw-text element lookup -/

theorem extract_toList_cons (a : Array Nat) (p n : Nat) (h : p < a.size) :
    (a.extract p (p + (n + 1))).toList = a[p] :: (a.extract (p + 1) (p + 1 + n)).toList := by
  simp only [Array.toList_extract]
  rw [List.extract_eq_take_drop, List.extract_eq_take_drop]
  have e1 : p + (n + 1) - p = n + 1 := by omega
  have e2 : p + 1 + n - (p + 1) = n := by omega
  rw [e1, e2]
  have hl : p < a.toList.length := by simpa using h
  rw [List.drop_eq_getElem_cons hl, List.take_succ_cons]
  simp

theorem matchLower_spec (t : Tokenizer) (p : Nat) (s : List Nat) (h : matchLower t p s = some true) :
    (t.buf.extract p (p + s.length)).toList.map lowerByte = s := by
  induction s generalizing p with
  | nil => simp
  | cons c cs ih =>
    simp only [matchLower] at h
    split at h
    · rename_i hlt
      split at h
      · simp at h
      · rename_i hc
        have := ih (p + 1) h
        have hc' : lowerByte t.buf[p] = c := by simpa using hc
        simp only [List.length_cons]
        rw [extract_toList_cons _ _ _ hlt, List.map_cons, hc', this]
    · simp at h

theorem matchLower_ne_none (t : Tokenizer) (p : Nat) (s : List Nat) (h : p + s.length ≤ t.buf.size) :
    matchLower t p s ≠ none := by
  induction s generalizing p with
  | nil => simp [matchLower]
  | cons c cs ih =>
    simp only [matchLower]
    simp only [List.length_cons] at h
    have hlt : p < t.buf.size := by omega
    simp only [hlt, dite_true]
    split
    · simp
    · exact ih (p + 1) (by omega)

theorem startTagIn_spec (t : Tokenizer) (ss : List (List Nat)) (hd : t.dataS ≤ t.dataE) (hs : t.dataE ≤ t.buf.size) :
    startTagIn t ss ≠ none ∧
    (startTagIn t ss = some true → ∃ s ∈ ss, (t.buf.extract t.dataS t.dataE).toList.map lowerByte = s) := by
  induction ss with
  | nil => simp [startTagIn]
  | cons s ss ih =>
    simp only [startTagIn]
    have hnlt : ¬ t.dataE < t.dataS := by omega
    simp only [hnlt, if_false]
    split
    · exact ⟨ih.1, fun h => by obtain ⟨s', hm, he⟩ := ih.2 h; exact ⟨s', by simp [hm], he⟩⟩
    · rename_i hlen
      have hlen' : t.dataE - t.dataS = s.length := by simpa using hlen
      have hnn := matchLower_ne_none t t.dataS s (by omega)
      split
      · rename_i hm; exact absurd hm hnn
      · rename_i hm
        refine ⟨by simp, fun _ => ⟨s, by simp, ?_⟩⟩
        have := matchLower_spec t t.dataS s hm
        have e : t.dataS + s.length = t.dataE := by omega
        rw [e] at this
        exact this
      · exact ⟨ih.1, fun h => by obtain ⟨s', hm, he⟩ := ih.2 h; exact ⟨s', by simp [hm], he⟩⟩

theorem rawLookup_spec (t : Tokenizer) (first : Nat) (tbl : List (Nat × List (List Nat)))
    (hd : t.dataS ≤ t.dataE) (hs : t.dataE ≤ t.buf.size) :
    rawLookup t first tbl ≠ none ∧
    (rawLookup t first tbl = some true →
      ∃ s ∈ tbl.flatMap (·.2), (t.buf.extract t.dataS t.dataE).toList.map lowerByte = s) := by
  induction tbl with
  | nil => simp [rawLookup]
  | cons e tbl ih =>
    obtain ⟨l, names⟩ := e
    simp only [rawLookup]
    split
    · have := startTagIn_spec t names hd hs
      exact ⟨this.1, fun h => by obtain ⟨s', hm, he⟩ := this.2 h; exact ⟨s', by simp [hm], he⟩⟩
    · exact ⟨ih.1, fun h => by obtain ⟨s', hm, he⟩ := ih.2 h; exact ⟨s', by simp [hm], he⟩⟩

/-- every raw-text element name of the regenerated dispatch table is made of lower-case ASCII letters -/
theorem rawNames_letters : ∀ s ∈ htmlRawDispatch.flatMap (·.2), ∀ c ∈ s, 97 ≤ c ∧ c ≤ 122 := by decide

theorem le_lowerByte (b : Nat) : b ≤ lowerByte b := by
  unfold lowerByte; split <;> omega

theorem validUtf8_of_ascii (bs : List Nat) (h : ∀ b ∈ bs, b < 128) : validUtf8 bs = true := by
  unfold validUtf8
  have : bs.foldl utf8Step (some {}) = some {} := by
    induction bs with
    | nil => rfl
    | cons b bs ih =>
      have hb : b < 128 := h b (by simp)
      simp only [List.foldl_cons]
      have : utf8Step (some {}) b = some {} := by simp [utf8Step, hb]
      rw [this]
      exact ih (fun b hb => h b (by simp [hb]))
  rw [this]
  rfl

/-- the raw-text context is empty or consists of bytes ≥ 32 (so `raw_tag[i] - 32` cannot underflow) -/
def TagOk (l : List Nat) : Prop := ∀ c ∈ l, 32 ≤ c

theorem startTagRaw_spec (t1 : Tokenizer) (hd : t1.dataS < t1.dataE) (hs : t1.dataE ≤ t1.buf.size) :
    startTagRaw t1 = t1 ∨ ∃ bs, startTagRaw t1 = { t1 with rawTag := bs } ∧ TagOk bs := by
  unfold startTagRaw
  have hlt : t1.dataS < t1.buf.size := by omega
  simp only [hlt, dite_true]
  have hl := rawLookup_spec t1 (lowerByte t1.buf[t1.dataS]) htmlRawDispatch (by omega) hs
  split
  · rename_i hnone; exact absurd hnone hl.1
  · exact Or.inl rfl
  · rename_i htrue
    obtain ⟨s, hmem, hs'⟩ := hl.2 htrue
    have hsl : t1.slice? t1.dataS t1.dataE = some (t1.buf.extract t1.dataS t1.dataE).toList := by
      unfold slice?
      have : t1.dataS ≤ t1.dataE ∧ t1.dataE ≤ t1.buf.size := ⟨by omega, hs⟩
      simp [this]
    rw [hsl]
    simp only
    have hlet := rawNames_letters s hmem
    have hascii : ∀ b ∈ (t1.buf.extract t1.dataS t1.dataE).toList, b < 128 := by
      intro b hb
      have : lowerByte b ∈ s := by rw [← hs']; exact List.mem_map_of_mem hb
      have := hlet _ this
      have := le_lowerByte b
      omega
    rw [validUtf8_of_ascii _ hascii]
    simp only [if_true]
    refine Or.inr ⟨_, rfl, ?_⟩
    rw [hs']
    intro c hc
    have := hlet c hc
    omega

theorem readStartTag_spec (t : Tokenizer) (h : Ok t) (h2 : 2 ≤ t.rawE) (htag : TagOk t.rawTag) :
    Adv t { (readStartTag t).1 with rawTag := t.rawTag } ∧ TagOk (readStartTag t).1.rawTag ∧
    (readStartTag t).1.dataS = t.rawE - 1 ∧ t.rawE ≤ (readStartTag t).1.dataE ∧
    (readStartTag t).1.dataE ≤ (readStartTag t).1.rawE ∧ AttrsOk (readStartTag t).1 ∧
    (readStartTag t).1.nAttrRet = 0 := by
  have a1 := readTag_adv t true h (by omega)
  have s1 := readTag_spec t true h (by omega)
  unfold readStartTag
  simp only
  generalize t.readTag true = t1 at *
  have hle := a1.ok.le
  have hm := a1.mono
  have base : Adv t { t1 with rawTag := t.rawTag } := a1.congr (by simp [core, a1.rawTag])
  split
  · exact ⟨base, by rw [a1.rawTag]; exact htag, s1⟩
  · have hr := startTagRaw_spec t1 (by omega) (by omega)
    have hflags : ∀ t2 : Tokenizer, (t2 = t1 ∨ ∃ bs, t2 = { t1 with rawTag := bs } ∧ TagOk bs) →
        t2.panic = false ∧ t2.utf8Err = false ∧ t2.rawE = t1.rawE ∧ t2.buf = t1.buf ∧
        Adv t { t2 with rawTag := t.rawTag } ∧ TagOk t2.rawTag ∧ t2.dataS = t1.dataS ∧ t2.dataE = t1.dataE ∧
        AttrsOk t2 ∧ t2.nAttrRet = t1.nAttrRet := by
      intro t2 h2
      rcases h2 with rfl | ⟨bs, rfl, hbs⟩
      · exact ⟨a1.ok.panic, a1.ok.utf8, rfl, rfl, base, by rw [a1.rawTag]; exact htag, rfl, rfl, s1.2.2.2.1, rfl⟩
      · exact ⟨a1.ok.panic, a1.ok.utf8, rfl, rfl, base, hbs, rfl, rfl, s1.2.2.2.1, rfl⟩
    obtain ⟨f1, f2, f3, f4, f5, f6, f7, f8, f9, f10⟩ := hflags _ hr
    generalize t1.startTagRaw = t2 at *
    simp only [f1, f2, Bool.or_self, Bool.false_eq_true, if_false]
    have hno : ¬ (t2.rawE < 2 || t2.buf.size ≤ t2.rawE - 2) = true := by
      simp only [Bool.or_eq_true, decide_eq_true_eq, not_or]
      rw [f3, f4]; omega
    simp only [hno, Bool.false_eq_true, if_false]
    exact ⟨f5, f6, by omega, by omega, by omega, f9, by omega⟩

/-! ### data spans of comments and declarations -/

@[simp] theorem setDataEndBack_dataS (t : Tokenizer) (k : Nat) : (t.setDataEndBack k).dataS = t.dataS := by
  unfold setDataEndBack; split <;> rfl

theorem setDataEndBack_spec (t : Tokenizer) (k : Nat) (hk : k ≤ t.rawE) :
    (t.setDataEndBack k).dataE = t.rawE - k ∧ (t.setDataEndBack k).rawE = t.rawE := by
  unfold setDataEndBack; simp [hk]

theorem untilCloseAngleGo_data (t : Tokenizer) (h : Ok t) (hd : t.dataS ≤ t.rawE) :
    (untilCloseAngleGo t).dataS = t.dataS ∧ t.dataS ≤ (untilCloseAngleGo t).dataE ∧
    (untilCloseAngleGo t).dataE ≤ (untilCloseAngleGo t).rawE := by
  fun_induction untilCloseAngleGo t with
  | case1 t r herr =>
    zd
    have := (readByte_adv h).mono
    exact ⟨by simp, by omega, Nat.le_refl _⟩
  | case2 t r herr hb =>
    zd
    have e := readByte_succ herr
    have s := setDataEndBack_spec t.readByte.1 1 (by omega)
    rw [e] at s
    refine ⟨by simp, ?_, ?_⟩ <;> omega
  | case3 t r herr hb ih =>
    zd
    have a1 := readByte_adv h
    have := ih a1.ok (by have := a1.mono; simp; omega)
    simpa using this

theorem readUntilCloseAngle_data (t : Tokenizer) (h : Ok t) :
    (readUntilCloseAngle t).dataS = t.rawE ∧ (readUntilCloseAngle t).dataS ≤ (readUntilCloseAngle t).dataE ∧
    (readUntilCloseAngle t).dataE ≤ (readUntilCloseAngle t).rawE := by
  unfold readUntilCloseAngle
  have h0 : Adv t { t with dataS := t.rawE } := (Adv.refl h).congr (by crfl)
  have := untilCloseAngleGo_data { t with dataS := t.rawE } h0.ok (Nat.le_refl _)
  exact ⟨this.1, by rw [this.1]; exact this.2.1, this.2.2⟩

theorem commentGo_data (t : Tokenizer) (dash : Nat) (h : Ok t) (h3 : 3 ≤ t.rawE) :
    (commentGo t dash).dataS = t.dataS ∧ (commentGo t dash).dataE ≤ (commentGo t dash).rawE := by
  fun_induction commentGo t dash with
  | case1 t dash r herr =>
    zd
    have := (readByte_adv h).mono
    have s := setDataEndBack_spec t.readByte.1 (if dash > 2 then 2 else dash) (by split <;> omega)
    refine ⟨by simp, ?_⟩
    omega
  | case2 t dash r herr hb ih =>
    zd
    have a1 := readByte_adv h
    have := ih a1.ok (by have := a1.mono; omega)
    simpa using this
  | case3 t dash r herr hb1 hb2 hd =>
    zd
    have := (readByte_adv h).mono
    have s := setDataEndBack_spec t.readByte.1 htmlCommentEndLen (by simp [htmlCommentEndLen]; omega)
    refine ⟨by simp, ?_⟩
    omega
  | case4 t dash r herr hb1 hb2 hd ih =>
    zd
    have a1 := readByte_adv h
    have := ih a1.ok (by have := a1.mono; omega)
    simpa using this
  | case5 t dash r herr hb1 hb2 hb3 hd r2 herr2 =>
    zd
    exact ⟨by simp, Nat.le_refl _⟩
  | case6 t dash r herr hb1 hb2 hb3 hd r2 herr2 hb4 =>
    zd
    have a1 := readByte_adv h
    have a2 := readByte_adv a1.ok
    have := readByte_succ herr
    have := readByte_succ herr2
    have s := setDataEndBack_spec t.readByte.1.readByte.1 htmlCommentBangEndLen (by simp [htmlCommentBangEndLen]; omega)
    refine ⟨by simp, ?_⟩
    omega
  | case7 t dash r herr hb1 hb2 hb3 hd r2 herr2 hb4 ih =>
    zd
    have a1 := readByte_adv h
    have a2 := readByte_adv a1.ok
    have := ih a2.ok (by have := a1.mono; have := a2.mono; omega)
    simpa using this
  | case8 t dash r herr hb1 hb2 hb3 hd ih =>
    zd
    have a1 := readByte_adv h
    have := ih a1.ok (by have := a1.mono; omega)
    simpa using this
  | case9 t dash r herr hb1 hb2 hb3 ih =>
    zd
    have a1 := readByte_adv h
    have := ih a1.ok (by have := a1.mono; omega)
    simpa using this

theorem readComment_data (t : Tokenizer) (h : Ok t) (h3 : 3 ≤ t.rawE) :
    (readComment t).dataS ≤ (readComment t).dataE ∧ (readComment t).dataE ≤ (readComment t).rawE := by
  unfold readComment
  have h0 : Adv t { t with dataS := t.rawE } := (Adv.refl h).congr (by crfl)
  have d := commentGo_data { t with dataS := t.rawE } 2 h0.ok h3
  have m := (commentGo_adv { t with dataS := t.rawE } 2 h0.ok h3).mono
  simp only at d m ⊢
  generalize (commentGo { t with dataS := t.rawE } 2) = t1 at *
  split
  · simp only; omega
  · omega

theorem cdataGo_data (t : Tokenizer) (br : Nat) (h : Ok t) (h2 : 2 ≤ t.rawE) (hbr : t.dataS + br ≤ t.rawE) :
    (cdataGo t br).dataS = t.dataS ∧ t.dataS ≤ (cdataGo t br).dataE ∧ (cdataGo t br).dataE ≤ (cdataGo t br).rawE := by
  fun_induction cdataGo t br with
  | case1 t br r herr =>
    zd
    have := (readByte_adv h).mono
    exact ⟨by simp, by omega, Nat.le_refl _⟩
  | case2 t br r herr hb ih =>
    zd
    have a1 := readByte_adv h
    have e := readByte_succ (t := _) (by assumption)
    have := ih a1.ok (by omega) (by simp; omega)
    simpa using this
  | case3 t br r herr hb1 hb2 hbr' =>
    zd
    have e := readByte_succ (t := _) (by assumption)
    have s := setDataEndBack_spec t.readByte.1 htmlCdataEndLen (by simp [htmlCdataEndLen]; omega)
    simp only [htmlCdataEndLen, htmlCdataBracketMin] at *
    refine ⟨by simp, ?_, ?_⟩ <;> omega
  | case4 t br r herr hb1 hb2 hbr' ih =>
    zd
    have a1 := readByte_adv h
    have := ih a1.ok (by have := a1.mono; omega) (by have := a1.mono; simp; omega)
    simpa using this
  | case5 t br r herr hb1 hb2 ih =>
    zd
    have a1 := readByte_adv h
    have := ih a1.ok (by have := a1.mono; omega) (by have := a1.mono; simp; omega)
    simpa using this

theorem readDocType_data (b t : Tokenizer) (hb : Adv b t) (hd : t.dataS = b.rawE) (h : (readDocType t).2 = true) :
    (readDocType t).1.dataS ≤ (readDocType t).1.dataE ∧ (readDocType t).1.dataE ≤ (readDocType t).1.rawE := by
  have hl := declLoop_adv b t htmlDoctypePat hb hd
  unfold readDocType at h ⊢
  simp only at h ⊢
  split
  · rename_i hf; simp [hf] at h
  · split
    · exact ⟨Nat.le_refl _, Nat.le_refl _⟩
    · have a1 := skipWhiteSpace_adv _ hl.1.ok
      have := readUntilCloseAngle_data _ a1.ok
      exact ⟨this.2.1, this.2.2⟩

theorem readCdata_data (b t : Tokenizer) (hb : Adv b t) (hd : t.dataS = b.rawE) (h2 : 2 ≤ b.rawE)
    (h : (readCdata t).2 = true) :
    (readCdata t).1.dataS ≤ (readCdata t).1.dataE ∧ (readCdata t).1.dataE ≤ (readCdata t).1.rawE := by
  have hl := declLoop_adv b t htmlCdataPat hb hd
  unfold readCdata at h ⊢
  simp only at h ⊢
  split
  · rename_i hf; simp [hf] at h
  · have h0 : Adv b { (declLoop t htmlCdataPat).1 with dataS := (declLoop t htmlCdataPat).1.rawE } := hl.1.congr (by crfl)
    have := cdataGo_data { (declLoop t htmlCdataPat).1 with dataS := (declLoop t htmlCdataPat).1.rawE } 0 h0.ok
      (by have := h0.mono; simp at this ⊢; omega) (by simp)
    exact ⟨by rw [this.1]; exact this.2.1, this.2.2⟩

theorem markupRest_data (b t : Tokenizer) (hb : Adv b t) (hd : t.dataS = b.rawE) (h2 : 2 ≤ b.rawE) :
    (markupRest t).1.dataS ≤ (markupRest t).1.dataE ∧ (markupRest t).1.dataE ≤ (markupRest t).1.rawE := by
  have hd' := readDocType_adv b t hb hd
  have dd := readDocType_data b t hb hd
  unfold markupRest
  simp only
  generalize t.readDocType = d at *
  split
  · rename_i ht; exact dd ht
  · rename_i hdf
    have hdf' := hd'.2 (by simpa using hdf)
    split
    · have hc := readCdata_adv b _ hd'.1 hdf' h2
      have dc := readCdata_data b _ hd'.1 hdf' h2
      generalize d.1.readCdata = c at *
      split
      · rename_i ht; exact dc ht
      · have := readUntilCloseAngle_data _ hc.ok
        exact ⟨this.2.1, this.2.2⟩
    · have := readUntilCloseAngle_data _ hd'.1.ok
      exact ⟨this.2.1, this.2.2⟩

theorem markupGo_data (t : Tokenizer) (h : Ok t) (h2 : 2 ≤ t.rawE) (hd : t.dataS = t.rawE) :
    (markupGo t).1.dataS ≤ (markupGo t).1.dataE ∧ (markupGo t).1.dataE ≤ (markupGo t).1.rawE := by
  unfold markupGo
  simp only
  have a1 := readByte_adv h
  have a2 := readByte_adv a1.ok
  have m1 := a1.mono
  have m2 := a2.mono
  split
  · simp only [readByte_dataS]; omega
  · rename_i herr1
    split
    · simp only [readByte_dataS]; omega
    · rename_i herr2
      have e1 := readByte_succ herr1
      have e2 := readByte_succ herr2
      split
      · exact readComment_data _ a2.ok (by omega)
      · exact markupRest_data t _ (unread_adv 2 (a1.trans a2) (by omega)) (by simp [hd]) h2

theorem readMarkupDeclaration_data (t : Tokenizer) (h : Ok t) (h2 : 2 ≤ t.rawE) :
    (readMarkupDeclaration t).1.dataS ≤ (readMarkupDeclaration t).1.dataE ∧
    (readMarkupDeclaration t).1.dataE ≤ (readMarkupDeclaration t).1.rawE := by
  unfold readMarkupDeclaration
  have h0 : Adv t { t with dataS := t.rawE } := (Adv.refl h).congr (by crfl)
  exact markupGo_data _ h0.ok h2 rfl

/-! ### the raw-text readers leave the data span alone -/

theorem rawEndTagLoop_data (t : Tokenizer) (cs : List Nat) :
    (rawEndTagLoop t cs).1.dataS = t.dataS ∧ (rawEndTagLoop t cs).1.dataE = t.dataE := by
  induction cs generalizing t with
  | nil => simp [rawEndTagLoop]
  | cons c cs ih =>
    simp only [rawEndTagLoop]
    (repeat' split) <;> simp [ih]

theorem dblEscLoop_data (t : Tokenizer) (cs : List (Nat × Nat)) :
    (dblEscLoop t cs).1.dataS = t.dataS ∧ (dblEscLoop t cs).1.dataE = t.dataE := by
  induction cs generalizing t with
  | nil => simp [dblEscLoop]
  | cons c cs ih =>
    obtain ⟨lo, up⟩ := c
    simp only [dblEscLoop]
    (repeat' split) <;> simp [ih]

theorem readRawEndTag_data (t : Tokenizer) :
    (readRawEndTag t).1.dataS = t.dataS ∧ (readRawEndTag t).1.dataE = t.dataE := by
  unfold readRawEndTag
  simp only
  (repeat' split) <;> simp [rawEndTagLoop_data]

@[simp] theorem addRawE_dataS (t : Tokenizer) (k : Nat) : (t.addRawE k).dataS = t.dataS := rfl
@[simp] theorem addRawE_dataE (t : Tokenizer) (k : Nat) : (t.addRawE k).dataE = t.dataE := rfl

theorem scriptGo_data (st : SS) (t : Tokenizer) :
    (scriptGo st t).dataS = t.dataS ∧ (scriptGo st t).dataE = t.dataE := by
  fun_induction scriptGo st t <;> simp_all +zetaDelta [readRawEndTag_data, dblEscLoop_data]

theorem rawTextGo_data (t : Tokenizer) :
    (rawTextGo t).dataS = t.dataS ∧ (rawTextGo t).dataE = t.dataE := by
  fun_induction rawTextGo t <;> simp_all +zetaDelta [readRawEndTag_data]

theorem readToEnd_data (t : Tokenizer) :
    (readToEnd t).dataS = t.dataS ∧ (readToEnd t).dataE = t.dataE := by
  fun_induction readToEnd t <;> simp_all +zetaDelta

end Tokenizer
end Rio.Html
