/-
Helper lemmas for C16 (and C07): span invariants of every helper of the tokenizer model.
-/
import RioModel.Model.Html
set_option linter.unusedSimpArgs false
set_option linter.unusedVariables false

namespace Rio.Html
namespace Tokenizer
open Rio.Consts

-- unfold the `let r := t.readByte` variables that `fun_induction` leaves in the context
set_option hygiene false in
local macro "zd" : tactic => `(tactic| (try simp +zetaDelta only at *))

local macro "crfl" : tactic => `(tactic| first | (simp [core]; done) | rfl)

/-- flags clear and read position in range -/
structure Ok (t : Tokenizer) : Prop where
  le : t.rawE ≤ t.buf.size
  panic : t.panic = false
  hang : t.hang = false
  utf8 : t.utf8Err = false

/-- `t'` is reached from `t` by a helper that only moved `raw.end` forward (net) inside the buffer
and kept the flags clear. -/
structure Adv (t t' : Tokenizer) : Prop where
  buf : t'.buf = t.buf
  rawS : t'.rawS = t.rawS
  mono : t.rawE ≤ t'.rawE
  ok : Ok t'
  rawTag : t'.rawTag = t.rawTag
  cdata : t'.allowCdata = t.allowCdata

theorem Adv.refl {t : Tokenizer} (h : Ok t) : Adv t t := ⟨rfl, rfl, Nat.le_refl _, h, rfl, rfl⟩

theorem Adv.trans {a b c : Tokenizer} (h1 : Adv a b) (h2 : Adv b c) : Adv a c :=
  ⟨h2.buf.trans h1.buf, h2.rawS.trans h1.rawS, Nat.le_trans h1.mono h2.mono, h2.ok,
   h2.rawTag.trans h1.rawTag, h2.cdata.trans h1.cdata⟩

theorem readByte_adv {t : Tokenizer} (h : Ok t) : Adv t t.readByte.1 := by
  unfold readByte; split
  · exact ⟨rfl, rfl, Nat.le_succ _, ⟨by simp; omega, h.panic, h.hang, h.utf8⟩, rfl, rfl⟩
  · exact ⟨rfl, rfl, Nat.le_refl _, ⟨h.le, h.panic, h.hang, h.utf8⟩, rfl, rfl⟩

@[simp] theorem readByte_dataS (t : Tokenizer) : t.readByte.1.dataS = t.dataS := by
  unfold readByte; split <;> rfl

@[simp] theorem unread_dataS (t : Tokenizer) (k : Nat) : (t.unread k).dataS = t.dataS := by
  unfold unread; split <;> rfl

theorem readByte_pos {t : Tokenizer} (h : ¬ t.readByte.1.err = true) : 1 ≤ t.readByte.1.rawE := by
  unfold readByte at *; split <;> simp_all

theorem readByte_succ {t : Tokenizer} (h : ¬ t.readByte.1.err = true) : t.readByte.1.rawE = t.rawE + 1 := by
  unfold readByte at *; split <;> simp_all

/-- the fields `Adv`/`Ok` talk about -/
def core (t : Tokenizer) : Array Nat × Nat × Nat × Bool × Bool × Bool × List Nat × Bool :=
  (t.buf, t.rawS, t.rawE, t.panic, t.hang, t.utf8Err, t.rawTag, t.allowCdata)

theorem Adv.congr {t0 t t' : Tokenizer} (h : Adv t0 t) (e : core t' = core t) : Adv t0 t' := by
  simp only [core, Prod.mk.injEq] at e
  obtain ⟨e1, e2, e3, e4, e5, e6, e7, e8⟩ := e
  exact ⟨e1 ▸ h.buf, e2 ▸ h.rawS, e3 ▸ h.mono, ⟨e1 ▸ e3 ▸ h.ok.le, e4 ▸ h.ok.panic, e5 ▸ h.ok.hang, e6 ▸ h.ok.utf8⟩,
    e7 ▸ h.rawTag, e8 ▸ h.cdata⟩

theorem unread_adv {t0 t : Tokenizer} (k : Nat) (h : Adv t0 t) (hk : t0.rawE + k ≤ t.rawE) : Adv t0 (t.unread k) := by
  unfold unread
  have hle : k ≤ t.rawE := by omega
  simp only [hle, if_true]
  exact ⟨h.buf, h.rawS, by simp; omega, ⟨by have := h.ok.le; simp; omega, h.ok.panic, h.ok.hang, h.ok.utf8⟩, h.rawTag, h.cdata⟩

theorem unread_rawE_eq {t : Tokenizer} (k : Nat) (hk : k ≤ t.rawE) : (t.unread k).rawE = t.rawE - k := by
  unfold unread; simp [hk]

theorem setDataEndBack_adv {t0 t : Tokenizer} (k : Nat) (h : Adv t0 t) (hk : k ≤ t.rawE) : Adv t0 (t.setDataEndBack k) := by
  unfold setDataEndBack
  simp only [hk, if_true]
  exact h.congr (by crfl)

/-- a successful read followed by `raw.end -= 1` -/
theorem read_unread_adv {t : Tokenizer} (h : Ok t) (herr : ¬ t.readByte.1.err = true) : Adv t (t.readByte.1.unread 1) :=
  unread_adv 1 (readByte_adv h) (by have := readByte_succ herr; omega)

theorem skipWsGo_adv (t : Tokenizer) (h : Ok t) : Adv t (skipWsGo t) := by
  fun_induction skipWsGo t with
  | case1 t r herr => exact readByte_adv h
  | case2 t r herr hws ih => exact (readByte_adv h).trans (ih (readByte_adv h).ok)
  | case3 t r herr hws => exact read_unread_adv h herr

theorem skipWhiteSpace_adv (t : Tokenizer) (h : Ok t) : Adv t (skipWhiteSpace t) := by
  unfold skipWhiteSpace; split
  · exact Adv.refl h
  · exact skipWsGo_adv t h

theorem untilCloseAngleGo_adv (t : Tokenizer) (h : Ok t) : Adv t (untilCloseAngleGo t) := by
  fun_induction untilCloseAngleGo t with
  | case1 t r herr => exact (readByte_adv h).congr (by crfl)
  | case2 t r herr hb => exact setDataEndBack_adv 1 (readByte_adv h) (readByte_pos herr)
  | case3 t r herr hb ih => exact (readByte_adv h).trans (ih (readByte_adv h).ok)

theorem readUntilCloseAngle_adv (t : Tokenizer) (h : Ok t) : Adv t (readUntilCloseAngle t) := by
  unfold readUntilCloseAngle
  have h0 : Adv t { t with dataS := t.rawE } := (Adv.refl h).congr (by crfl)
  exact h0.trans (untilCloseAngleGo_adv _ h0.ok)

theorem readToEnd_adv (t : Tokenizer) (h : Ok t) : Adv t (readToEnd t) := by
  fun_induction readToEnd t with
  | case1 t herr => exact Adv.refl h
  | case2 t herr r herr2 => exact readByte_adv h
  | case3 t herr r herr2 ih => exact (readByte_adv h).trans (ih (readByte_adv h).ok)

theorem readToEnd_err (t : Tokenizer) : (readToEnd t).err = true := by
  fun_induction readToEnd t with
  | case1 t herr => exact herr
  | case2 t herr r herr2 => exact herr2
  | case3 t herr r herr2 ih => exact ih

/-! ### comments, declarations -/

theorem commentGo_adv (t : Tokenizer) (dash : Nat) (h : Ok t) (h3 : 3 ≤ t.rawE) : Adv t (commentGo t dash) := by
  fun_induction commentGo t dash with
  | case1 t dash r herr =>
    zd
    exact setDataEndBack_adv _ (readByte_adv h) (by have := (readByte_adv h).mono; split <;> omega)
  | case2 t dash r herr hb ih =>
    zd
    exact (readByte_adv h).trans (ih (readByte_adv h).ok (by have := (readByte_adv h).mono; omega))
  | case3 t dash r herr hb1 hb2 hd =>
    zd
    exact setDataEndBack_adv _ (readByte_adv h) (by have := (readByte_adv h).mono; simp [htmlCommentEndLen]; omega)
  | case4 t dash r herr hb1 hb2 hd ih =>
    zd
    exact (readByte_adv h).trans (ih (readByte_adv h).ok (by have := (readByte_adv h).mono; omega))
  | case5 t dash r herr hb1 hb2 hb3 hd r2 herr2 =>
    zd
    exact ((readByte_adv h).trans (readByte_adv (readByte_adv h).ok)).congr (by crfl)
  | case6 t dash r herr hb1 hb2 hb3 hd r2 herr2 hb4 =>
    zd
    have a1 := readByte_adv h
    have a2 := readByte_adv a1.ok
    have := readByte_succ herr
    have := readByte_succ herr2
    exact setDataEndBack_adv _ (a1.trans a2) (by simp [htmlCommentBangEndLen]; omega)
  | case7 t dash r herr hb1 hb2 hb3 hd r2 herr2 hb4 ih =>
    zd
    have a1 := readByte_adv h
    have a2 := readByte_adv a1.ok
    exact (a1.trans a2).trans (ih a2.ok (by have := a1.mono; have := a2.mono; omega))
  | case8 t dash r herr hb1 hb2 hb3 hd ih =>
    zd
    exact (readByte_adv h).trans (ih (readByte_adv h).ok (by have := (readByte_adv h).mono; omega))
  | case9 t dash r herr hb1 hb2 hb3 ih =>
    zd
    exact (readByte_adv h).trans (ih (readByte_adv h).ok (by have := (readByte_adv h).mono; omega))

theorem readComment_adv (t : Tokenizer) (h : Ok t) (h3 : 3 ≤ t.rawE) : Adv t (readComment t) := by
  unfold readComment
  have h0 : Adv t { t with dataS := t.rawE } := (Adv.refl h).congr (by crfl)
  have h1 := h0.trans (commentGo_adv _ 2 h0.ok h3)
  simp only
  split
  · exact h1.congr (by crfl)
  · exact h1

theorem cdataGo_adv (t : Tokenizer) (br : Nat) (h : Ok t) (h2 : 2 ≤ t.rawE) : Adv t (cdataGo t br) := by
  fun_induction cdataGo t br with
  | case1 t br r herr => zd; exact (readByte_adv h).congr (by crfl)
  | case2 t br r herr hb ih =>
    zd
    exact (readByte_adv h).trans (ih (readByte_adv h).ok (by have := (readByte_adv h).mono; omega))
  | case3 t br r herr hb1 hb2 hbr =>
    zd
    exact setDataEndBack_adv _ (readByte_adv h) (by have := readByte_succ herr; simp [htmlCdataEndLen]; omega)
  | case4 t br r herr hb1 hb2 hbr ih =>
    zd
    exact (readByte_adv h).trans (ih (readByte_adv h).ok (by have := (readByte_adv h).mono; omega))
  | case5 t br r herr hb1 hb2 ih =>
    zd
    exact (readByte_adv h).trans (ih (readByte_adv h).ok (by have := (readByte_adv h).mono; omega))

/-- `declLoop` relative to a base state `b` whose `raw.end` is the saved `data.start`. -/
theorem declLoop_adv (b t : Tokenizer) (pat : List (Nat × Nat)) (hb : Adv b t) (hd : t.dataS = b.rawE) :
    Adv b (declLoop t pat).1 ∧ (declLoop t pat).1.dataS = t.dataS ∧
    ((declLoop t pat).2 = true → Adv t (declLoop t pat).1) := by
  induction pat generalizing t with
  | nil => exact ⟨hb, rfl, fun _ => Adv.refl hb.ok⟩
  | cons c cs ih =>
    obtain ⟨c, c'⟩ := c
    have a1 := readByte_adv hb.ok
    have hds : t.readByte.1.dataS = t.dataS := readByte_dataS t
    simp only [declLoop]
    split
    · exact ⟨(hb.trans a1).congr (by crfl), hds, by simp⟩
    · split
      · refine ⟨?_, hds, by simp⟩
        have hb1 := hb.trans a1
        exact ⟨hb1.buf, hb1.rawS, by simp [hds, hd], ⟨by have := hb.ok.le; have := hb.mono; have := hb.buf; simp [hds, hd, readByte_buf]; omega, hb1.ok.panic, hb1.ok.hang, hb1.ok.utf8⟩, hb1.rawTag, hb1.cdata⟩
      · have := ih t.readByte.1 (hb.trans a1) (by rw [hds, hd])
        exact ⟨this.1, this.2.1.trans hds, fun h => a1.trans (this.2.2 h)⟩

theorem readDocType_adv (b t : Tokenizer) (hb : Adv b t) (hd : t.dataS = b.rawE) :
    Adv b (readDocType t).1 ∧ ((readDocType t).2 = false → (readDocType t).1.dataS = b.rawE) := by
  have hl := declLoop_adv b t htmlDoctypePat hb hd
  unfold readDocType
  simp only
  split
  · exact ⟨hl.1, fun _ => hl.2.1.trans hd⟩
  · have a1 := skipWhiteSpace_adv _ hl.1.ok
    split
    · exact ⟨(hl.1.trans a1).congr (by crfl), by simp⟩
    · exact ⟨(hl.1.trans a1).trans (readUntilCloseAngle_adv _ a1.ok), by simp⟩

theorem readCdata_adv (b t : Tokenizer) (hb : Adv b t) (hd : t.dataS = b.rawE) (h2 : 2 ≤ b.rawE) :
    Adv b (readCdata t).1 := by
  have hl := declLoop_adv b t htmlCdataPat hb hd
  unfold readCdata
  simp only
  split
  · exact hl.1
  · have h0 : Adv b { (declLoop t htmlCdataPat).1 with dataS := (declLoop t htmlCdataPat).1.rawE } := hl.1.congr (by crfl)
    exact h0.trans (cdataGo_adv _ 0 h0.ok (by have := h0.mono; simp at this ⊢; omega))

theorem markupRest_adv (b t : Tokenizer) (hb : Adv b t) (hd : t.dataS = b.rawE) (h2 : 2 ≤ b.rawE) :
    Adv b (markupRest t).1 := by
  have hd' := readDocType_adv b t hb hd
  unfold markupRest
  simp only
  generalize t.readDocType = d at *
  split
  · exact hd'.1
  · rename_i hdf
    have hdf' := hd'.2 (by simpa using hdf)
    split
    · have hc := readCdata_adv b _ hd'.1 hdf' h2
      generalize d.1.readCdata = c at *
      split
      · exact hc.congr (by crfl)
      · exact hc.trans (readUntilCloseAngle_adv _ hc.ok)
    · exact hd'.1.trans (readUntilCloseAngle_adv _ hd'.1.ok)

theorem markupGo_adv (t : Tokenizer) (h : Ok t) (h2 : 2 ≤ t.rawE) (hd : t.dataS = t.rawE) : Adv t (markupGo t).1 := by
  unfold markupGo
  simp only
  have a1 := readByte_adv h
  have a2 := readByte_adv a1.ok
  split
  · exact a1.congr (by crfl)
  · rename_i herr1
    split
    · exact (a1.trans a2).congr (by crfl)
    · rename_i herr2
      have e1 := readByte_succ herr1
      have e2 := readByte_succ herr2
      split
      · exact (a1.trans a2).trans (readComment_adv _ a2.ok (by omega))
      · exact markupRest_adv t _ (unread_adv 2 (a1.trans a2) (by omega)) (by simp [hd]) h2

theorem readMarkupDeclaration_adv (t : Tokenizer) (h : Ok t) (h2 : 2 ≤ t.rawE) : Adv t (readMarkupDeclaration t).1 := by
  unfold readMarkupDeclaration
  have h0 : Adv t { t with dataS := t.rawE } := (Adv.refl h).congr (by crfl)
  exact h0.trans (markupGo_adv _ h0.ok h2 rfl)

/-! ### raw text and the script automaton -/

theorem rawEndTagLoop_adv (t : Tokenizer) (cs : List Nat) (h : Ok t) (hcs : ∀ c ∈ cs, 32 ≤ c) :
    Adv t (rawEndTagLoop t cs).1 := by
  induction cs generalizing t with
  | nil => exact Adv.refl h
  | cons c cs ih =>
    have a1 := readByte_adv h
    have hc : 32 ≤ c := hcs c (by simp)
    have ih' := ih t.readByte.1 a1.ok (fun c hc => hcs c (by simp [hc]))
    simp only [rawEndTagLoop]
    split
    · exact a1
    · rename_i herr
      split
      · split
        · omega
        · split
          · exact read_unread_adv h herr
          · exact a1.trans ih'
      · exact a1.trans ih'

theorem readRawEndTag_adv (b t : Tokenizer) (hb : Adv b t) (h2 : b.rawE + 2 ≤ t.rawE) (htag : ∀ c ∈ t.rawTag, 32 ≤ c) :
    Adv b (readRawEndTag t).1 ∧ ((readRawEndTag t).2 = false → Adv t (readRawEndTag t).1) ∧
    ((readRawEndTag t).2 = true →
      (readRawEndTag t).1.rawE + 2 = t.rawE ∧ t.rawE + t.rawTag.length + 1 ≤ t.buf.size) := by
  have hl := rawEndTagLoop_adv t t.rawTag hb.ok htag
  have hr := rawEndTagLoop_rawE t t.rawTag
  unfold readRawEndTag
  simp only
  generalize rawEndTagLoop t t.rawTag = l at *
  split
  · exact ⟨hb.trans hl, fun _ => hl, by simp⟩
  · rename_i hok
    have hok' : l.2 = true := by simpa using hok
    have he := hr.2.2 hok'
    have a1 := readByte_adv hl.ok
    split
    · exact ⟨hb.trans (hl.trans a1), fun _ => hl.trans a1, by simp⟩
    · rename_i herr
      have e1 := readByte_succ herr
      split
      · have hk : 3 + t.rawTag.length ≤ l.1.readByte.1.rawE := by omega
        refine ⟨?_, by simp, fun _ => ?_⟩
        · exact unread_adv _ (hb.trans (hl.trans a1)) (by omega)
        · have hu := unread_rawE_eq _ hk
          have h5 := a1.ok.le
          rw [a1.buf, hl.buf] at h5
          simp only [hu]
          omega
      · exact ⟨hb.trans (hl.trans (read_unread_adv hl.ok herr)), fun _ => hl.trans (read_unread_adv hl.ok herr), by simp⟩

theorem dblEscLoop_adv (t : Tokenizer) (cs : List (Nat × Nat)) (h : Ok t) : Adv t (dblEscLoop t cs).1 := by
  induction cs generalizing t with
  | nil => exact Adv.refl h
  | cons c cs ih =>
    obtain ⟨lo, up⟩ := c
    have a1 := readByte_adv h
    simp only [dblEscLoop]
    split
    · exact a1
    · rename_i herr
      split
      · exact read_unread_adv h herr
      · exact a1.trans (ih _ a1.ok)

/-- bytes of the current token that must already have been read when the automaton is in a state
(`</` before the three end-tag states, `<` before the three less-than-sign states) -/
def SS.need : SS → Nat
  | .endTagOpen | .escapedEndTagOpen | .doubleEscapedEnd => 2
  | .lessThanSign | .escapedLessThanSign | .doubleEscapedLessThanSign => 1
  | _ => 0

theorem script_letters : ∀ c ∈ htmlScript, 32 ≤ c := by decide

theorem scriptGo_adv (st : SS) (b t : Tokenizer) (hb : Adv b t) (hk : b.rawE + st.need ≤ t.rawE)
    (hs : b.rawTag = htmlScript) : Adv b (scriptGo st t) := by
  fun_induction scriptGo st t
  all_goals (try simp +zetaDelta only at *)
  -- edges that start with `read_byte`
  all_goals first
    | exact hb.trans (readByte_adv hb.ok)
    | (apply_assumption
       · first
         | exact hb.trans (readByte_adv hb.ok)
         | exact hb.trans (read_unread_adv hb.ok (by assumption))
       · simp only [SS.need] at *
         first
         | (have := readByte_succ (by assumption); omega)
         | (have := (read_unread_adv hb.ok (by assumption)).mono; omega))
    | skip
  -- read_script_data_end_tag_open / read_script_data_escaped_end_tag_open
  case case8 | case33 =>
    exact (readRawEndTag_adv b _ hb (by simpa [SS.need] using hk) (by rw [hb.rawTag, hs]; exact script_letters)).1
  case case9 | case34 =>
    apply_assumption
    · exact (readRawEndTag_adv b _ hb (by simpa [SS.need] using hk) (by rw [hb.rawTag, hs]; exact script_letters)).1
    · exact (readRawEndTag_adv b _ hb (by simpa [SS.need] using hk) (by rw [hb.rawTag, hs]; exact script_letters)).1.mono
  -- read_script_data_double_escape_start
  case case35 => exact hb.trans (dblEscLoop_adv _ _ hb.ok)
  case case36 =>
    apply_assumption
    · exact hb.trans (dblEscLoop_adv _ _ hb.ok)
    · exact (hb.trans (dblEscLoop_adv _ _ hb.ok)).mono
  case case37 =>
    exact (hb.trans (dblEscLoop_adv _ _ hb.ok)).trans (readByte_adv (dblEscLoop_adv _ _ hb.ok).ok)
  case case38 =>
    apply_assumption
    · exact (hb.trans (dblEscLoop_adv _ _ hb.ok)).trans (readByte_adv (dblEscLoop_adv _ _ hb.ok).ok)
    · exact ((hb.trans (dblEscLoop_adv _ _ hb.ok)).trans (readByte_adv (dblEscLoop_adv _ _ hb.ok).ok)).mono
  case case39 =>
    apply_assumption
    · exact (hb.trans (dblEscLoop_adv _ _ hb.ok)).trans (read_unread_adv (dblEscLoop_adv _ _ hb.ok).ok (by assumption))
    · exact ((hb.trans (dblEscLoop_adv _ _ hb.ok)).trans (read_unread_adv (dblEscLoop_adv _ _ hb.ok).ok (by assumption))).mono
  -- read_script_data_double_escaped_end
  case case57 =>
    exact (readRawEndTag_adv b _ hb (by simpa [SS.need] using hk) (by rw [hb.rawTag, hs]; exact script_letters)).1
  case case58 =>
    apply_assumption
    · exact (readRawEndTag_adv b _ hb (by simpa [SS.need] using hk) (by rw [hb.rawTag, hs]; exact script_letters)).1
    · exact (readRawEndTag_adv b _ hb (by simpa [SS.need] using hk) (by rw [hb.rawTag, hs]; exact script_letters)).1.mono
  case case56 =>
    rename_i t r htrue ih
    have hr := readRawEndTag_adv b t hb (by simpa [SS.need] using hk) (by rw [hb.rawTag, hs]; exact script_letters)
    have h2 := hr.2.2 htrue
    have hlen : t.rawTag.length = 6 := by rw [hb.rawTag, hs]; rfl
    have hadv : Adv b (t.readRawEndTag.1.addRawE htmlScriptEndTagLen) := by
      have h1 := hr.1
      refine ⟨h1.buf, h1.rawS, ?_, ⟨?_, h1.ok.panic, h1.ok.hang, h1.ok.utf8⟩, h1.rawTag, h1.cdata⟩
      · have := h1.mono; simp only [addRawE]; omega
      · have := readRawEndTag_buf t
        simp only [addRawE, htmlScriptEndTagLen, this]; omega
    exact ih hadv hadv.mono

theorem rawTextGo_adv (t : Tokenizer) (h : Ok t) (htag : ∀ c ∈ t.rawTag, 32 ≤ c) : Adv t (rawTextGo t) := by
  fun_induction rawTextGo t
  all_goals (try simp +zetaDelta only at *)
  case case1 => exact readByte_adv h
  case case2 ih =>
    have a1 := readByte_adv h
    exact a1.trans (ih a1.ok (by rw [a1.rawTag]; exact htag))
  case case3 => exact (readByte_adv h).trans (readByte_adv (readByte_adv h).ok)
  case case4 ih =>
    have a1 := readByte_adv h
    have a2 := readByte_adv a1.ok
    exact (a1.trans a2).trans (ih a2.ok (by rw [a2.rawTag, a1.rawTag]; exact htag))
  case case5 t _ herr _ _ herr2 _ _ _ =>
    have a1 := readByte_adv h
    have a2 := readByte_adv a1.ok
    have e1 := readByte_succ herr
    have e2 := readByte_succ herr2
    exact (readRawEndTag_adv t _ (a1.trans a2) (by omega) (by rw [a2.rawTag, a1.rawTag]; exact htag)).1
  case case6 t _ herr _ _ herr2 _ _ _ ih =>
    have a1 := readByte_adv h
    have a2 := readByte_adv a1.ok
    have e1 := readByte_succ herr
    have e2 := readByte_succ herr2
    have a3 := (readRawEndTag_adv t _ (a1.trans a2) (by omega) (by rw [a2.rawTag, a1.rawTag]; exact htag)).1
    exact a3.trans (ih a3.ok (by rw [a3.rawTag]; exact htag))

/-! ### tags -/

theorem tagNameGo_adv (t : Tokenizer) (h : Ok t) : Adv t (tagNameGo t) := by
  fun_induction tagNameGo t
  all_goals (try simp +zetaDelta only at *)
  case case1 => exact (readByte_adv h).congr (by crfl)
  case case2 => exact setDataEndBack_adv 1 (readByte_adv h) (readByte_pos (by assumption))
  case case3 => exact (read_unread_adv h (by assumption)).congr (by crfl)
  case case4 ih => exact (readByte_adv h).trans (ih (readByte_adv h).ok)

theorem readTagName_adv (t : Tokenizer) (h : Ok t) (h1 : 1 ≤ t.rawE) : Adv t (readTagName t) := by
  unfold readTagName
  split
  · omega
  · have h0 : Adv t { t with dataS := t.rawE - 1 } := (Adv.refl h).congr (by crfl)
    exact h0.trans (tagNameGo_adv _ h0.ok)

theorem attrKeyGo_adv (t : Tokenizer) (h : Ok t) : Adv t (attrKeyGo t) := by
  fun_induction attrKeyGo t
  all_goals (try simp +zetaDelta only at *)
  case case1 => exact (readByte_adv h).congr (by crfl)
  case case2 => have := readByte_pos (t := _) (by assumption); omega
  case case3 => exact (readByte_adv h).congr (by crfl)
  case case4 => exact (read_unread_adv h (by assumption)).congr (by crfl)
  case case5 ih => exact (readByte_adv h).trans (ih (readByte_adv h).ok)

theorem readTagAttrKey_adv (t : Tokenizer) (h : Ok t) : Adv t (readTagAttrKey t) := by
  unfold readTagAttrKey
  have h0 : Adv t { t with pkS := t.rawE } := (Adv.refl h).congr (by crfl)
  exact h0.trans (attrKeyGo_adv _ h0.ok)

theorem attrValQuotedGo_adv (t : Tokenizer) (q : Nat) (h : Ok t) : Adv t (attrValQuotedGo t q) := by
  fun_induction attrValQuotedGo t q
  all_goals (try simp +zetaDelta only at *)
  case case1 => exact (readByte_adv h).congr (by crfl)
  case case2 => have := readByte_pos (t := _) (by assumption); omega
  case case3 => exact (readByte_adv h).congr (by crfl)
  case case4 ih => exact (readByte_adv h).trans (ih (readByte_adv h).ok)

theorem attrValUnquotedGo_adv (t : Tokenizer) (h : Ok t) : Adv t (attrValUnquotedGo t) := by
  fun_induction attrValUnquotedGo t
  all_goals (try simp +zetaDelta only at *)
  case case1 => exact (readByte_adv h).congr (by crfl)
  case case2 => have := readByte_pos (t := _) (by assumption); omega
  case case3 => exact (readByte_adv h).congr (by crfl)
  case case4 => exact (read_unread_adv h (by assumption)).congr (by crfl)
  case case5 ih => exact (readByte_adv h).trans (ih (readByte_adv h).ok)

theorem attrValRest_adv (t : Tokenizer) (h : Ok t) : Adv t (attrValRest t) := by
  unfold attrValRest
  simp only
  have a3 := skipWhiteSpace_adv _ h
  generalize t.skipWhiteSpace = t2 at *
  split
  · exact a3
  · have a4 := readByte_adv a3.ok
    split
    · exact a3.trans a4
    · rename_i herr2
      split
      · exact a3.trans (read_unread_adv a3.ok herr2)
      · split
        · have h5 : Adv t { t2.readByte.1 with pvS := t2.readByte.1.rawE } := (a3.trans a4).congr (by crfl)
          exact h5.trans (attrValQuotedGo_adv _ _ h5.ok)
        · split
          · have := readByte_pos herr2; omega
          · have h5 : Adv t { t2.readByte.1 with pvS := t2.readByte.1.rawE - 1 } := (a3.trans a4).congr (by crfl)
            exact h5.trans (attrValUnquotedGo_adv _ h5.ok)

theorem readTagAttrVal_adv (t : Tokenizer) (h : Ok t) : Adv t (readTagAttrVal t) := by
  unfold readTagAttrVal
  simp only
  have h0 : Adv t { t with pvS := t.rawE, pvE := t.rawE } := (Adv.refl h).congr (by crfl)
  generalize ({ t with pvS := t.rawE, pvE := t.rawE } : Tokenizer) = t0 at *
  have a1 := h0.trans (skipWhiteSpace_adv _ h0.ok)
  generalize t0.skipWhiteSpace = t1 at *
  split
  · exact a1
  · have a2 := readByte_adv a1.ok
    split
    · exact a1.trans a2
    · rename_i herr
      split
      · exact a1.trans (read_unread_adv a1.ok herr)
      · exact (a1.trans a2).trans (attrValRest_adv _ a2.ok)

theorem readAttr_adv (t : Tokenizer) (save : Bool) (h : Ok t) : Adv t (readAttr t save) := by
  unfold readAttr
  simp only
  have a1 := readTagAttrKey_adv t h
  have a2 := a1.trans (readTagAttrVal_adv _ a1.ok)
  generalize t.readTagAttrKey.readTagAttrVal = t2 at *
  split
  · have a3 : Adv t { t2 with attrs := t2.attrs.push ⟨t2.pkS, t2.pkE, t2.pvS, t2.pvE⟩ } := a2.congr (by crfl)
    exact a3.trans (skipWhiteSpace_adv _ a3.ok)
  · exact a2.trans (skipWhiteSpace_adv _ a2.ok)

/-! ### progress of the attribute loop (the `hang` flag is never set) -/

theorem readByte_of_get {t : Tokenizer} {b : Nat} (h : t.buf[t.rawE]? = some b) :
    t.readByte = ({ t with rawE := t.rawE + 1 }, b) := by
  unfold readByte
  have hlt : t.rawE < t.buf.size := by
    rcases Nat.lt_or_ge t.rawE t.buf.size with h' | h'
    · exact h'
    · simp [Array.getElem?_eq_none h'] at h
  simp only [hlt, dite_true]
  simp [Array.getElem?_eq_getElem hlt] at h
  rw [h]

theorem get_of_readByte {t : Tokenizer} (herr : ¬ t.readByte.1.err = true) :
    t.buf[t.rawE]? = some t.readByte.2 ∧ t.err = false := by
  unfold readByte at *
  split
  · rename_i hlt
    simp_all
  · simp_all

theorem isWs_61 : isWs 61 = false := by decide

theorem attrKeyGo_progress (t : Tokenizer) (b : Nat) (h : Ok t) (herr : t.err = false)
    (hb : t.buf[t.rawE]? = some b) (h62 : b ≠ 62) :
    (b ≠ 61 → t.rawE + 1 ≤ (attrKeyGo t).rawE) ∧
    (b = 61 → (attrKeyGo t).rawE = t.rawE ∧ (attrKeyGo t).err = false ∧ (attrKeyGo t).buf = t.buf) := by
  rw [attrKeyGo]
  have hr := readByte_of_get hb
  have a1 := readByte_adv h
  rw [hr] at a1 ⊢
  simp only [herr, Bool.false_eq_true, dite_false]
  by_cases h1 : (isWs b || b == 47) = true
  · simp only [h1, if_true]
    have hne : b ≠ 61 := by
      intro e; subst e; simp [isWs_61] at h1
    simp [hne]
    split <;> simp
  · simp only [h1]
    by_cases h2 : (b == 61 || b == 62) = true
    · simp only [h2, if_true]
      have he : b = 61 := by
        simp at h2; omega
      simp [he, unread, herr]
    · simp only [h2]
      have hne : b ≠ 61 := by
        intro e; subst e; simp at h2
      simp only [hne, false_implies, and_true]
      intro _
      have := (attrKeyGo_adv _ a1.ok).mono
      simpa using this

theorem skipWhiteSpace_61 (t : Tokenizer) (herr : t.err = false) (hb : t.buf[t.rawE]? = some 61) :
    t.skipWhiteSpace = (({ t with rawE := t.rawE + 1 } : Tokenizer).unread 1) := by
  unfold skipWhiteSpace
  simp only [herr, Bool.false_eq_true, if_false]
  rw [skipWsGo]
  rw [readByte_of_get hb]
  simp [herr, isWs_61]

theorem readTagAttrVal_progress (t : Tokenizer) (h : Ok t) (herr : t.err = false)
    (hb : t.buf[t.rawE]? = some 61) : t.rawE + 1 ≤ (readTagAttrVal t).rawE := by
  unfold readTagAttrVal
  simp only
  have h0 : Adv t { t with pvS := t.rawE, pvE := t.rawE } := (Adv.refl h).congr (by crfl)
  rw [skipWhiteSpace_61 _ herr hb]
  simp only [unread, Nat.le_add_left, if_true, Nat.add_sub_cancel, herr, Bool.false_eq_true, if_false]
  have hb' : ({ t with pvS := t.rawE, pvE := t.rawE, rawE := t.rawE + 1 - 1 + 1 - 1 } : Tokenizer).buf[t.rawE]? = some 61 := hb
  sorry

end Tokenizer
end Rio.Html
