/-
Helper lemmas of C05, part 2: the use-time observers on the specification's action are the
specification's tables, and `rules_applied` is "keep the last occurrence" of everything inserted.
-/
import RioModel.Proofs.Action
set_option linter.unusedSimpArgs false

namespace Rio.Action
open Spec

/-- The action with another `rules_applied` set. -/
def withApplied (a : Action) (s : List RuleId) : Action := { a with rulesApplied := s }

theorem lhsInsertOpt_eq (s : List RuleId) (o : Option RuleId) :
    lhsInsertOpt s o = o.toList.foldl lhsInsert s := by
  cases o <;> rfl

/-! ### the response-status condition: the code's three ways of writing it -/

theorem traceApplies_eq (r : Rule) (c : Nat) : traceApplies (codesOf r) (exclOf r) c = admits r c := by
  unfold traceApplies admits
  cases hc : codesOf r with
  | nil => simp
  | cons x xs => cases exclOf r <;> cases (x :: xs).contains c <;> simp

theorem filterSkipped_eq (r : Rule) (c : Nat) : filterSkipped (codesOf r) (exclOf r) c = !admits r c := by
  unfold filterSkipped admits
  cases hc : codesOf r with
  | nil => simp
  | cons x xs => cases exclOf r <;> cases (x :: xs).contains c <;> simp

theorem any_eq_contains (l : List Nat) (c : Nat) : l.any (fun v => v == c) = l.contains c := by
  induction l with
  | nil => rfl
  | cons x xs ih =>
    have : (x == c) = (c == x) := by
      by_cases h : x = c
      · subst h; rfl
      · have h' : ¬ c = x := fun e => h e.symm
        rw [beq_eq_false_iff_ne.mpr h, beq_eq_false_iff_ne.mpr h']
    simp only [List.any_cons, List.contains_cons, ih, this]

/-- `StatusCodeUpdate::get_status_code` on the update the specification builds. -/
theorem statusUpdate_table (p : Rule) (fb : Option Rule) (c : Nat) :
    (statusUpdateOf p fb).getStatusCode c =
      if admitsStatus p c then (p.statusCode.getD 0, some p.id)
      else if c == 0 then (0, none)
      else match fb with
        | some f => (f.statusCode.getD 0, some f.id)
        | none => (0, none) := by
  unfold StatusCodeUpdate.getStatusCode Rio.Consts.statusGetStatusCode admitsStatus statusUpdateOf
  simp only [any_eq_contains]
  cases hc : codesOf p with
  | nil => by_cases hz : c = 0 <;> cases exclOf p <;> cases fb <;> simp [hz]
  | cons x xs =>
    by_cases hz : c = 0 <;> cases exclOf p <;> cases (x :: xs).contains c <;> cases fb <;> simp [hz]

/-- `LogOverride::get_log_override` on the override the specification builds. -/
theorem logOverride_table (p : Rule) (fb : Option Rule) (c : Nat) :
    (logOverrideOf p fb).getLogOverride c =
      if admits p c then (some (p.logOverride.getD false), some p.id)
      else match fb with
        | some f => (some (f.logOverride.getD false), some f.id)
        | none => (none, none) := by
  unfold LogOverride.getLogOverride Rio.Consts.logGetLogOverride admits logOverrideOf
  simp only [any_eq_contains]
  cases hc : codesOf p with
  | nil => cases exclOf p <;> cases fb <;> simp
  | cons x xs => cases exclOf p <;> cases (x :: xs).contains c <;> cases fb <;> simp

/-! ### what `primaryFallback` returns -/

theorem primaryFallback_mem (carries : Rule → Bool) (C : List Rule) (p : Rule) (fb : Option Rule)
    (h : primaryFallback carries C = some (p, fb)) :
    (p ∈ C ∧ carries p = true) ∧
      (∀ f, fb = some f → f ∈ C ∧ carries f = true ∧ unconditional f = true ∧ unconditional p = false) := by
  unfold primaryFallback at h
  have hm : ∀ x, x ∈ (C.filter carries).reverse → x ∈ C ∧ carries x = true := by
    intro x hx
    exact List.mem_filter.mp (List.mem_reverse.mp hx)
  match hr : (C.filter carries).reverse, h with
  | [p'], h =>
    rw [hr] at hm
    simp only [Option.some.injEq, Prod.mk.injEq] at h
    obtain ⟨rfl, rfl⟩ := h
    exact ⟨hm p' (by simp), fun f hf => by cases hf⟩
  | p' :: q' :: t, h =>
    rw [hr] at hm
    simp only [Option.some.injEq, Prod.mk.injEq] at h
    obtain ⟨rfl, hfb⟩ := h
    refine ⟨hm p' (by simp), fun f hf => ?_⟩
    subst hf
    by_cases hc : (unconditional q' && !unconditional p') = true
    · simp only [hc, if_true, Option.some.injEq] at hfb
      subst hfb
      simp only [Bool.and_eq_true, Bool.not_eq_true'] at hc
      exact ⟨(hm q' (by simp)).1, (hm q' (by simp)).2, hc.1, hc.2⟩
    · simp [hc] at hfb

/-! ### `get_status_code`, `should_log_request` -/

theorem getStatusCode_spec (q : Req) (C : List Rule) (s : List RuleId) (c : Nat) :
    (withApplied (Spec.action q C) s).getStatusCode c =
      ((statusAt C c).1, withApplied (Spec.action q C) (lhsInsertOpt s (statusAt C c).2)) := by
  unfold Action.getStatusCode statusAt
  simp only [withApplied, Spec.action]
  cases h : primaryFallback carriesStatus C with
  | none => rfl
  | some pf =>
    obtain ⟨p, fb⟩ := pf
    simp only [Option.map_some, statusUpdate_table]
    rfl

theorem shouldLogRequest_spec (q : Req) (C : List Rule) (s : List RuleId) (allow : Bool) (c : Nat) :
    (withApplied (Spec.action q C) s).shouldLogRequest allow c =
      ((logAt C c).1.getD allow, withApplied (Spec.action q C) (lhsInsertOpt s (logAt C c).2)) := by
  unfold Action.shouldLogRequest logAt
  simp only [withApplied, Spec.action]
  cases h : primaryFallback carriesLog C with
  | none => rfl
  | some pf =>
    obtain ⟨p, fb⟩ := pf
    have hm := primaryFallback_mem carriesLog C p fb h
    have hp : ∃ b, p.logOverride = some b := by
      have := hm.1.2
      unfold carriesLog at this
      cases hlo : p.logOverride with
      | none => simp [hlo] at this
      | some b => exact ⟨b, rfl⟩
    obtain ⟨b, hb⟩ := hp
    simp only [Option.map_some, logOverride_table]
    by_cases ha : admits p c = true
    · simp [ha, hb]
    · cases fb with
      | none => simp [ha]
      | some f =>
        have hf := (hm.2 f rfl).2.1
        unfold carriesLog at hf
        cases hlo : f.logOverride with
        | none => simp [hlo] at hf
        | some b' => simp [ha, hlo]

theorem getFinal_spec (q : Req) (C : List Rule) (s : List RuleId) (c fb : Nat) :
    (withApplied (Spec.action q C) s).getFinalStatusCodeWithFallback c fb =
      if (c == 0 && (statusAt C c).1 == 0) = true then
        (((statusAt C fb).1, fb),
          withApplied (Spec.action q C) (lhsInsertOpt (lhsInsertOpt s (statusAt C c).2) (statusAt C fb).2))
      else (((statusAt C c).1, c), withApplied (Spec.action q C) (lhsInsertOpt s (statusAt C c).2)) := by
  unfold Action.getFinalStatusCodeWithFallback
  simp only [getStatusCode_spec]

/-! ### `filter_headers`, `create_filter_body` -/

/-- The header filters of a rule before they are wrapped with the rule's condition and id. -/
def rawHeaderFilters (q : Req) (r : Rule) : List HeaderFilter :=
  (match r.target with
    | some t => if emptyTarget t then [] else
        [({ action := "override", header := "Location", value := locationValue t q,
            id := r.redirectUnitId, targetHash := r.targetHash } : HeaderFilter)]
    | none => []) ++ r.headerFilters.getD []

def wrapHeader (r : Rule) (f : HeaderFilter) : HeaderFilterAction :=
  { filter := f, onResponseStatusCodes := codesOf r, excludeResponseStatusCodes := exclOf r,
    ruleId := some r.id }

theorem ruleHeaderFilters_eq (q : Req) (r : Rule) :
    ruleHeaderFilters q r = (rawHeaderFilters q r).map (wrapHeader r) := rfl

def rawBodyFilters (r : Rule) : List BodyFilter := (r.bodyFilters.getD []).map bodyFilterOfRule

def wrapBody (r : Rule) (f : BodyFilter) : BodyFilterAction :=
  { filter := f, onResponseStatusCodes := codesOf r, excludeResponseStatusCodes := exclOf r,
    ruleId := some r.id }

theorem ruleBodyFilters_eq (r : Rule) : ruleBodyFilters r = (rawBodyFilters r).map (wrapBody r) := by
  simp [ruleBodyFilters, rawBodyFilters, wrapBody, List.map_map, Function.comp_def]

theorem map_filter_ruleHeaderFilters (q : Req) (r : Rule) :
    (ruleHeaderFilters q r).map (·.filter) = rawHeaderFilters q r := by
  simp [ruleHeaderFilters_eq, wrapHeader, List.map_map, Function.comp_def]

theorem map_id_ruleHeaderFilters (q : Req) (r : Rule) :
    ((ruleHeaderFilters q r).map fun _ => r.id) = (rawHeaderFilters q r).map fun _ => r.id := by
  simp [ruleHeaderFilters_eq, List.map_map, Function.comp_def]

theorem map_filter_ruleBodyFilters (r : Rule) :
    (ruleBodyFilters r).map (·.filter) = rawBodyFilters r := by
  simp [ruleBodyFilters_eq, wrapBody, List.map_map, Function.comp_def]

theorem map_id_ruleBodyFilters (r : Rule) :
    ((ruleBodyFilters r).map fun _ => r.id) = (rawBodyFilters r).map fun _ => r.id := by
  simp [ruleBodyFilters_eq, List.map_map, Function.comp_def]

/-- The trace loop of `filter_headers`. -/
theorem traceLoop_spec (C : List Rule) (c : Nat) (s : List RuleId) :
    (C.map ruleTrace).foldl
        (fun s t => if traceApplies t.onResponseStatusCodes t.excludeResponseStatusCodes c
                    then lhsInsert s t.id else s) s =
      ((C.filter (admits · c)).map (·.id)).foldl lhsInsert s := by
  induction C generalizing s with
  | nil => rfl
  | cons r rs ih =>
    simp only [List.map_cons, List.foldl_cons, List.filter_cons, ruleTrace, traceApplies_eq]
    cases admits r c
    · simpa using ih s
    · simpa using ih (lhsInsert s r.id)

/-- The filter loop over the wrapped filters of one rule. -/
theorem headerLoop_rule (r : Rule) (c : Nat) (raw acc : List HeaderFilter) (s : List RuleId) :
    (raw.map (wrapHeader r)).foldl
        (fun (st : List HeaderFilter × List RuleId) f =>
          if filterSkipped f.onResponseStatusCodes f.excludeResponseStatusCodes c then st
          else (st.1 ++ [f.filter], lhsInsertOpt st.2 f.ruleId)) (acc, s) =
      if admits r c then (acc ++ raw, (raw.map fun _ => r.id).foldl lhsInsert s) else (acc, s) := by
  induction raw generalizing acc s with
  | nil => simp
  | cons f fs ih =>
    simp only [List.map_cons, List.foldl_cons, wrapHeader, filterSkipped_eq]
    cases h : admits r c
    · have := ih acc s
      simp only [wrapHeader, filterSkipped_eq, h] at this
      simpa using this
    · have := ih (acc ++ [f]) (lhsInsert s r.id)
      simp only [wrapHeader, filterSkipped_eq, h] at this
      simpa [lhsInsertOpt] using this

theorem headerLoop_spec (q : Req) (C : List Rule) (c : Nat) (acc : List HeaderFilter) (s : List RuleId) :
    (C.flatMap (ruleHeaderFilters q)).foldl
        (fun (st : List HeaderFilter × List RuleId) f =>
          if filterSkipped f.onResponseStatusCodes f.excludeResponseStatusCodes c then st
          else (st.1 ++ [f.filter], lhsInsertOpt st.2 f.ruleId)) (acc, s) =
      (acc ++ (C.filter (admits · c)).flatMap (fun r => (ruleHeaderFilters q r).map (·.filter)),
       ((C.filter (admits · c)).flatMap fun r => (ruleHeaderFilters q r).map fun _ => r.id).foldl lhsInsert s) := by
  induction C generalizing acc s with
  | nil => simp
  | cons r rs ih =>
    simp only [List.flatMap_cons, List.foldl_append, List.filter_cons]
    rw [ruleHeaderFilters_eq, headerLoop_rule]
    cases h : admits r c
    · simpa using ih acc s
    · simp only [if_true, List.flatMap_cons, List.foldl_append]
      rw [ih, map_filter_ruleHeaderFilters, map_id_ruleHeaderFilters]
      simp [List.append_assoc]

theorem bodyLoop_rule (r : Rule) (c : Nat) (raw acc : List BodyFilter) (s : List RuleId) :
    (raw.map (wrapBody r)).foldl
        (fun (st : List BodyFilter × List RuleId) f =>
          if filterSkipped f.onResponseStatusCodes f.excludeResponseStatusCodes c then st
          else (st.1 ++ [f.filter], lhsInsertOpt st.2 f.ruleId)) (acc, s) =
      if admits r c then (acc ++ raw, (raw.map fun _ => r.id).foldl lhsInsert s) else (acc, s) := by
  induction raw generalizing acc s with
  | nil => simp
  | cons f fs ih =>
    simp only [List.map_cons, List.foldl_cons, wrapBody, filterSkipped_eq]
    cases h : admits r c
    · have := ih acc s
      simp only [wrapBody, filterSkipped_eq, h] at this
      simpa using this
    · have := ih (acc ++ [f]) (lhsInsert s r.id)
      simp only [wrapBody, filterSkipped_eq, h] at this
      simpa [lhsInsertOpt] using this

theorem bodyLoop_spec (C : List Rule) (c : Nat) (acc : List BodyFilter) (s : List RuleId) :
    (C.flatMap ruleBodyFilters).foldl
        (fun (st : List BodyFilter × List RuleId) f =>
          if filterSkipped f.onResponseStatusCodes f.excludeResponseStatusCodes c then st
          else (st.1 ++ [f.filter], lhsInsertOpt st.2 f.ruleId)) (acc, s) =
      (acc ++ (C.filter (admits · c)).flatMap (fun r => (ruleBodyFilters r).map (·.filter)),
       ((C.filter (admits · c)).flatMap fun r => (ruleBodyFilters r).map fun _ => r.id).foldl lhsInsert s) := by
  induction C generalizing acc s with
  | nil => simp
  | cons r rs ih =>
    simp only [List.flatMap_cons, List.foldl_append, List.filter_cons]
    rw [ruleBodyFilters_eq, bodyLoop_rule]
    cases h : admits r c
    · simpa using ih acc s
    · simp only [if_true, List.flatMap_cons, List.foldl_append]
      rw [ih, map_filter_ruleBodyFilters, map_id_ruleBodyFilters]
      simp [List.append_assoc]

theorem filterHeaders_spec (q : Req) (C : List Rule) (s : List RuleId) (c : Nat) (add : Bool) :
    (withApplied (Spec.action q C) s).filterHeaders c add =
      { filters := headerFiltersAt q C c
        ruleIdsHeader := if add then some ((insertedBy q C c .headers).foldl lhsInsert s) else none
        action := withApplied (Spec.action q C) ((insertedBy q C c .headers).foldl lhsInsert s) } := by
  unfold Action.filterHeaders
  simp only [withApplied, Spec.action, traceLoop_spec, headerLoop_spec, headerFiltersAt, insertedBy,
    List.nil_append, List.foldl_append]

theorem createFilterBody_spec (q : Req) (C : List Rule) (s : List RuleId) (c : Nat) :
    (withApplied (Spec.action q C) s).createFilterBody c =
      (bodyFiltersAt C c, withApplied (Spec.action q C) ((insertedBy q C c .body).foldl lhsInsert s)) := by
  unfold Action.createFilterBody
  simp only [withApplied, Spec.action, bodyLoop_spec, bodyFiltersAt, insertedBy, List.nil_append]

/-! ### a sequence of observers -/

theorem runOp_spec (q : Req) (C : List Rule) (allow : Bool) (c : Nat) (done : List RuleId) (op : Op) :
    runOp allow c (withApplied (Spec.action q C) (dedupLast done)) op =
      (resultOf q C allow c (dedupLast (done ++ insertedBy q C c op)) op,
       withApplied (Spec.action q C) (dedupLast (done ++ insertedBy q C c op))) := by
  cases op with
  | status =>
    simp only [runOp, getStatusCode_spec, resultOf, insertedBy, lhsInsertOpt_eq,
      foldl_lhsInsert_dedupLast]
  | headers =>
    simp only [runOp, filterHeaders_spec, resultOf, foldl_lhsInsert_dedupLast, if_true]
  | body =>
    simp only [runOp, createFilterBody_spec, resultOf, foldl_lhsInsert_dedupLast]
  | log =>
    simp only [runOp, shouldLogRequest_spec, resultOf, insertedBy, lhsInsertOpt_eq,
      foldl_lhsInsert_dedupLast]
  | final fb =>
    simp only [runOp, getFinal_spec, resultOf, insertedBy, lhsInsertOpt_eq]
    split
    · simp only [foldl_lhsInsert_dedupLast, if_true, List.append_assoc]
    · simp only [foldl_lhsInsert_dedupLast, Bool.false_eq_true, if_false, List.append_nil]

theorem runOps_spec (q : Req) (C : List Rule) (allow : Bool) (c : Nat) (done : List RuleId)
    (ops : List Op) :
    runOps allow c (withApplied (Spec.action q C) (dedupLast done)) ops =
      Spec.observe q C allow c done ops := by
  induction ops generalizing done with
  | nil => rfl
  | cons op ops ih =>
    simp only [runOps, Spec.observe, runOp_spec]
    rw [ih]
    rfl

/-- A sequence of observer calls with a response code per call. -/
theorem runOpsC_spec (q : Req) (C : List Rule) (allow : Bool) (done : List RuleId)
    (ops : List (Op × Nat)) :
    runOpsC allow (withApplied (Spec.action q C) (dedupLast done)) ops =
      Spec.observeC q C allow done ops := by
  induction ops generalizing done with
  | nil => rfl
  | cons oc ops ih =>
    obtain ⟨op, c⟩ := oc
    simp only [runOpsC, Spec.observeC, runOp_spec]
    rw [ih]
    rfl

theorem runOps_eq_runOpsC (allow : Bool) (c : Nat) (a : Action) (ops : List Op) :
    runOps allow c a ops = runOpsC allow a (ops.map fun op => (op, c)) := by
  induction ops generalizing a with
  | nil => rfl
  | cons op ops ih => simp only [runOps, runOpsC, List.map_cons, ih]

end Rio.Action
