/-
Stream laws, attribute spans: the simulation `Core` does not talk about the attribute fields (`pending_attribute`,
`attribute`, `number_attribute_returned`) because they are stale between tokens and rebuilt by `read_tag`.  This file shows
that `read_tag` rebuilds them alike on related states: the saved spans are the same up to the shift `p`.  HtmlStream2 lifts
this to `next` (`CoreTA`), so that prefix stability and restart also cover a tag token's attribute list.
-/
import RioModel.Proofs.HtmlStream
set_option linter.unusedSimpArgs false
set_option linter.unusedVariables false

namespace Rio.Html
namespace Tokenizer
open Rio.Consts

open Lean Parser Tactic in
syntax "sifA" " [" (simpStar <|> simpErase <|> simpLemma),* "]" (location)? : tactic
macro_rules
  | `(tactic| sifA [$ts,*] $[$loc]?) =>
    `(tactic| simp only [$ts,*, Bool.false_eq_true, if_false, if_true, dite_false, dite_true, ↓reduceIte, ↓reduceDIte,
        Bool.not_true, Bool.not_false, Bool.true_eq_false] $[$loc]?)

/-- an attribute span moved by `p` -/
def AttrSpan.shift (p : Nat) (s : AttrSpan) : AttrSpan := ⟨p + s.ks, p + s.ke, p + s.vs, p + s.ve⟩

/-- the saved attributes correspond: same number, spans shifted by `p`, same read position -/
structure Sav (p : Nat) (t u : Tokenizer) : Prop where
  attrs : t.attrs = u.attrs.map (AttrSpan.shift p)
  n : t.nAttrRet = u.nAttrRet

/-! ### the key -/

theorem attrKeyGo_simA {F : Prop} {p : Nat} (t u : Tokenizer) (c : Core F p t u) (ok : Ok u)
    (e : EO F (attrKeyGo u)) : (attrKeyGo t).pkE = p + (attrKeyGo u).pkE := by
  fun_induction attrKeyGo u generalizing t
  all_goals (try simp +zetaDelta only at *)
  case case1 =>
    have rb := readByte_sim c e
    rw [attrKeyGo]
    sifA [rb.1.err, rb.2, *]
    exact rb.1.rawE
  case case2 herr _ h0 => have := readByte_pos (t := _) (by assumption); omega
  case case3 =>
    have rb := readByte_sim c e
    have ht0 : ¬ t.readByte.1.rawE = 0 := by have := rb.1.rawE; omega
    rw [attrKeyGo]
    sifA [rb.1.err, rb.2, ht0, *]
    have := rb.1.rawE; omega
  case case4 =>
    have rb := readByte_sim c (by have := e; simp only [EO, unread_err] at this; exact this)
    have us := unread_sim 1 rb.1 (readByte_pos (t := _) (by assumption))
    rw [attrKeyGo]
    sifA [rb.1.err, rb.2, *]
    exact us.rawE
  case case5 ih =>
    have rb := readByte_sim c (e.back (attrKeyGo_err _))
    rw [attrKeyGo]
    sifA [rb.1.err, rb.2, *]
    exact ih _ rb.1 (readByte_adv ok).ok e

theorem readTagAttrKey_simA {F : Prop} {p : Nat} (t u : Tokenizer) (c : Core F p t u) (ok : Ok u)
    (e : EO F (readTagAttrKey u)) :
    (readTagAttrKey t).pkS = p + (readTagAttrKey u).pkS ∧ (readTagAttrKey t).pkE = p + (readTagAttrKey u).pkE := by
  unfold readTagAttrKey at e ⊢
  have ft := attrKeyGo_frame { t with pkS := t.rawE }
  have fu := attrKeyGo_frame { u with pkS := u.rawE }
  refine ⟨by rw [ft.2.2.2.2.1, fu.2.2.2.2.1]; exact c.rawE, ?_⟩
  exact attrKeyGo_simA _ _ (c.congr (by simp [live]) (by simp [live])) ⟨ok.le, ok.panic, ok.hang, ok.utf8⟩ e

/-! ### the value -/

theorem attrValQuotedGo_simA {F : Prop} {p : Nat} (t u : Tokenizer) (q : Nat) (c : Core F p t u) (ok : Ok u)
    (e : EO F (attrValQuotedGo u q)) : (attrValQuotedGo t q).pvE = p + (attrValQuotedGo u q).pvE := by
  fun_induction attrValQuotedGo u q generalizing t
  all_goals (try simp +zetaDelta only at *)
  case case1 =>
    have rb := readByte_sim c e
    rw [attrValQuotedGo]
    sifA [rb.1.err, rb.2, *]
    exact rb.1.rawE
  case case2 => have := readByte_pos (t := _) (by assumption); omega
  case case3 =>
    have rb := readByte_sim c e
    have ht0 : ¬ t.readByte.1.rawE = 0 := by have := rb.1.rawE; omega
    rw [attrValQuotedGo]
    sifA [rb.1.err, rb.2, ht0, *]
    have := rb.1.rawE; omega
  case case4 ih =>
    have rb := readByte_sim c (e.back (attrValQuotedGo_err _ _))
    rw [attrValQuotedGo]
    sifA [rb.1.err, rb.2, *]
    exact ih _ rb.1 (readByte_adv ok).ok e

theorem attrValUnquotedGo_simA {F : Prop} {p : Nat} (t u : Tokenizer) (c : Core F p t u) (ok : Ok u)
    (e : EO F (attrValUnquotedGo u)) : (attrValUnquotedGo t).pvE = p + (attrValUnquotedGo u).pvE := by
  fun_induction attrValUnquotedGo u generalizing t
  all_goals (try simp +zetaDelta only at *)
  case case1 =>
    have rb := readByte_sim c e
    rw [attrValUnquotedGo]
    sifA [rb.1.err, rb.2, *]
    exact rb.1.rawE
  case case2 => have := readByte_pos (t := _) (by assumption); omega
  case case3 =>
    have rb := readByte_sim c e
    have ht0 : ¬ t.readByte.1.rawE = 0 := by have := rb.1.rawE; omega
    rw [attrValUnquotedGo]
    sifA [rb.1.err, rb.2, ht0, *]
    have := rb.1.rawE; omega
  case case4 =>
    have rb := readByte_sim c (by have := e; simp only [EO, unread_err] at this; exact this)
    have us := unread_sim 1 rb.1 (readByte_pos (t := _) (by assumption))
    rw [attrValUnquotedGo]
    sifA [rb.1.err, rb.2, *]
    exact us.rawE
  case case5 ih =>
    have rb := readByte_sim c (e.back (attrValUnquotedGo_err _))
    rw [attrValUnquotedGo]
    sifA [rb.1.err, rb.2, *]
    exact ih _ rb.1 (readByte_adv ok).ok e

theorem attrValRest_simA {F : Prop} {p : Nat} (t u : Tokenizer) (c : Core F p t u) (ok : Ok u)
    (e : EO F (attrValRest u)) (hs : t.pvS = p + u.pvS) (hE : t.pvE = p + u.pvE) :
    (attrValRest t).pvS = p + (attrValRest u).pvS ∧ (attrValRest t).pvE = p + (attrValRest u).pvE := by
  have es : EO F u.skipWhiteSpace := e.back (attrValRest_err' u)
  have sk := skipWhiteSpace_sim _ _ c ok es
  have ska := skipWhiteSpace_adv _ ok
  have ft := skipWhiteSpace_frame t
  have fu := skipWhiteSpace_frame u
  unfold attrValRest at e ⊢
  simp only [sk.err] at e ⊢
  generalize t.skipWhiteSpace = t2 at *
  generalize u.skipWhiteSpace = u2 at *
  have hs2 : t2.pvS = p + u2.pvS := by rw [ft.2.2.2.2.2.2.1, fu.2.2.2.2.2.2.1]; exact hs
  have hE2 : t2.pvE = p + u2.pvE := by rw [ft.2.2.2.2.2.2.2, fu.2.2.2.2.2.2.2]; exact hE
  by_cases h1 : u2.err = true
  · sifA [h1]; exact ⟨hs2, hE2⟩
  · sifA [h1] at e ⊢
    have a4 := readByte_adv ska.ok
    have eq : EO F u2.readByte.1 := e.back (fun h => by
      have h2 := attrValQuotedGo_err { u2.readByte.1 with pvS := u2.readByte.1.rawE } u2.readByte.2 h
      have h3 := attrValUnquotedGo_err { u2.readByte.1 with pvS := u2.readByte.1.rawE - 1 } h
      (repeat' split) <;> simp_all)
    have rb := readByte_sim sk eq
    simp only [rb.1.err, rb.2] at e ⊢
    by_cases h2 : u2.readByte.1.err = true
    · sifA [h2]; exact ⟨by simp [hs2], by simp [hE2]⟩
    · sifA [h2] at e ⊢
      have hp := readByte_pos h2
      by_cases h3 : (u2.readByte.2 == 62) = true
      · sifA [h3]; exact ⟨by simp [hs2], by simp [hE2]⟩
      · sifA [h3] at e ⊢
        by_cases h4 : (u2.readByte.2 == 39 || u2.readByte.2 == 34) = true
        · sifA [h4] at e ⊢
          have het := rb.1.err
          have fq : ∀ x : Tokenizer, (attrValQuotedGo x u2.readByte.2).pvS = x.pvS :=
            fun x => (attrValQuotedGo_frame x u2.readByte.2).2.2.2.2.2.2
          refine ⟨?_, ?_⟩
          · rw [fq, fq]; exact rb.1.rawE
          · refine attrValQuotedGo_simA _ _ _ (Core.congr rb.1 ?_ ?_) ⟨a4.ok.le, a4.ok.panic, a4.ok.hang, a4.ok.utf8⟩ e <;>
              simp [live, *]
        · sifA [h4] at e ⊢
          have hu0 : ¬ u2.readByte.1.rawE = 0 := by omega
          have ht0 : ¬ t2.readByte.1.rawE = 0 := by have := rb.1.rawE; omega
          sifA [hu0, ht0] at e ⊢
          have het := rb.1.err
          have fq : ∀ x : Tokenizer, (attrValUnquotedGo x).pvS = x.pvS :=
            fun x => (attrValUnquotedGo_frame x).2.2.2.2.2.2
          refine ⟨?_, ?_⟩
          · rw [fq, fq]
            have := rb.1.rawE
            show t2.readByte.1.rawE - 1 = p + (u2.readByte.1.rawE - 1)
            omega
          · refine attrValUnquotedGo_simA _ _ (Core.congr rb.1 ?_ ?_) ⟨a4.ok.le, a4.ok.panic, a4.ok.hang, a4.ok.utf8⟩ e <;>
              simp [live, *]

theorem attrValGo_simA {F : Prop} {p : Nat} (t u : Tokenizer) (c : Core F p t u) (ok : Ok u)
    (e : EO F (attrValGo u)) (hs : t.pvS = p + u.pvS) (hE : t.pvE = p + u.pvE) :
    (attrValGo t).pvS = p + (attrValGo u).pvS ∧ (attrValGo t).pvE = p + (attrValGo u).pvE := by
  have es : EO F u.skipWhiteSpace := e.back (attrValGo_err' u)
  have sk := skipWhiteSpace_sim _ _ c ok es
  have ska := skipWhiteSpace_adv _ ok
  have ft := skipWhiteSpace_frame t
  have fu := skipWhiteSpace_frame u
  unfold attrValGo at e ⊢
  simp only [sk.err] at e ⊢
  generalize t.skipWhiteSpace = t1 at *
  generalize u.skipWhiteSpace = u1 at *
  have hs2 : t1.pvS = p + u1.pvS := by rw [ft.2.2.2.2.2.2.1, fu.2.2.2.2.2.2.1]; exact hs
  have hE2 : t1.pvE = p + u1.pvE := by rw [ft.2.2.2.2.2.2.2, fu.2.2.2.2.2.2.2]; exact hE
  by_cases h1 : u1.err = true
  · sifA [h1]; exact ⟨hs2, hE2⟩
  · sifA [h1] at e ⊢
    have a2 := readByte_adv ska.ok
    have eq : EO F u1.readByte.1 := e.back (fun h => by
      have h2 := attrValRest_err _ h
      (repeat' split) <;> simp_all)
    have rb := readByte_sim sk eq
    simp only [rb.1.err, rb.2] at e ⊢
    by_cases h2 : u1.readByte.1.err = true
    · sifA [h2]; exact ⟨by simp [hs2], by simp [hE2]⟩
    · sifA [h2] at e ⊢
      by_cases h3 : (u1.readByte.2 != 61) = true
      · sifA [h3]; exact ⟨by simp [hs2], by simp [hE2]⟩
      · sifA [h3] at e ⊢
        exact attrValRest_simA _ _ rb.1 a2.ok e (by simp [hs2]) (by simp [hE2])

theorem readTagAttrVal_simA {F : Prop} {p : Nat} (t u : Tokenizer) (c : Core F p t u) (ok : Ok u)
    (e : EO F (readTagAttrVal u)) :
    (readTagAttrVal t).pvS = p + (readTagAttrVal u).pvS ∧ (readTagAttrVal t).pvE = p + (readTagAttrVal u).pvE := by
  unfold readTagAttrVal at e ⊢
  exact attrValGo_simA _ _ (c.congr (by simp [live]) (by simp [live])) ⟨ok.le, ok.panic, ok.hang, ok.utf8⟩ e c.rawE c.rawE

/-! ### one attribute, the loop, `read_tag` -/

theorem readTagAttrKey_keep (t : Tokenizer) :
    (readTagAttrKey t).attrs = t.attrs ∧ (readTagAttrKey t).nAttrRet = t.nAttrRet := by
  unfold readTagAttrKey
  have f := attrKeyGo_frame { t with pkS := t.rawE }
  exact ⟨f.2.2.1, f.2.2.2.1⟩

theorem readAttr_simA {F : Prop} {p : Nat} (t u : Tokenizer) (save : Bool) (c : Core F p t u) (ok : Ok u)
    (e : EO F (readAttr u save)) (sv : Sav p t u) : Sav p (readAttr t save) (readAttr u save) := by
  have a1 := readTagAttrKey_adv u ok
  have a2 := readTagAttrVal_adv _ a1.ok
  have okT := c.okT ok
  have b1 := readTagAttrKey_adv t okT
  have ev : EO F u.readTagAttrKey.readTagAttrVal := e.back (fun h => by
    unfold readAttr; simp only; split <;> exact skipWhiteSpace_err _ h)
  have ek : EO F u.readTagAttrKey := ev.back (readTagAttrVal_err _)
  have k := readTagAttrKey_sim _ _ c ok ek
  have kA := readTagAttrKey_simA _ _ c ok ek
  have kt := readTagAttrKey_keep t
  have ku := readTagAttrKey_keep u
  have vA := readTagAttrVal_simA _ _ k a1.ok ev
  have vt := (readTagAttrVal_spec t.readTagAttrKey b1.ok).1
  have vu := (readTagAttrVal_spec u.readTagAttrKey a1.ok).1
  simp only [valF, Prod.mk.injEq] at vt vu
  unfold readAttr
  simp only
  generalize t.readTagAttrKey.readTagAttrVal = t2 at *
  generalize u.readTagAttrKey.readTagAttrVal = u2 at *
  have hat : t2.attrs = u2.attrs.map (AttrSpan.shift p) := by
    rw [vt.2.2.1, kt.1, vu.2.2.1, ku.1]; exact sv.attrs
  have hn : t2.nAttrRet = u2.nAttrRet := by rw [vt.2.2.2.1, kt.2, vu.2.2.2.1, ku.2]; exact sv.n
  have hks : t2.pkS = p + u2.pkS := by rw [vt.2.2.2.2.1, vu.2.2.2.2.1]; exact kA.1
  have hke : t2.pkE = p + u2.pkE := by rw [vt.2.2.2.2.2, vu.2.2.2.2.2]; exact kA.2
  have hcond : (save && t2.pkS != t2.pkE) = (save && u2.pkS != u2.pkE) := by
    rw [hks, hke]
    cases save
    · rfl
    · have : (p + u2.pkS != p + u2.pkE) = (u2.pkS != u2.pkE) := by
        rw [Bool.eq_iff_iff]
        simp only [bne_iff_ne, ne_eq]
        omega
      rw [this]
  rw [hcond]
  by_cases hc : (save && u2.pkS != u2.pkE) = true
  · rw [if_pos hc, if_pos hc]
    have f1 := skipWhiteSpace_frame t2.pushPending
    have f2 := skipWhiteSpace_frame u2.pushPending
    refine ⟨?_, by rw [f1.2.2.2.1, f2.2.2.2.1]; exact hn⟩
    rw [f1.2.2.1, f2.2.2.1]
    show t2.attrs.push ⟨t2.pkS, t2.pkE, t2.pvS, t2.pvE⟩ = (u2.attrs.push ⟨u2.pkS, u2.pkE, u2.pvS, u2.pvE⟩).map (AttrSpan.shift p)
    rw [Array.map_push, hat, hks, hke, vA.1, vA.2]
    rfl
  · rw [if_neg hc, if_neg hc]
    have f1 := skipWhiteSpace_frame t2
    have f2 := skipWhiteSpace_frame u2
    exact ⟨by rw [f1.2.2.1, f2.2.2.1]; exact hat, by rw [f1.2.2.2.1, f2.2.2.2.1]; exact hn⟩

theorem tagAttrsGo_simA {F : Prop} {p : Nat} (t u : Tokenizer) (save : Bool) (c : Core F p t u) (ok : Ok u)
    (e : EO F (tagAttrsGo u save)) (sv : Sav p t u) : Sav p (tagAttrsGo t save) (tagAttrsGo u save) := by
  fun_induction tagAttrsGo u save generalizing t
  all_goals (try simp +zetaDelta only at *)
  case case1 =>
    have rb := readByte_sim c e
    rw [tagAttrsGo]
    sifA [rb.1.err, rb.2, *]
    exact ⟨by simp [sv.attrs], by simp [sv.n]⟩
  case case2 u _ hne _ herr1 =>
    have herr : ¬ u.readByte.1.err = true := by intro h; simp [h] at hne
    have a0 := read_unread_adv ok herr
    have rb := readByte_sim c (e.back (fun h => readAttr_err _ _ (by simpa using h)))
    have us := unread_sim 1 rb.1 (readByte_pos herr)
    have ra := readAttr_sim _ _ save us a0.ok e
    have raA := readAttr_simA _ _ save us a0.ok e ⟨by simp [sv.attrs], by simp [sv.n]⟩
    rw [tagAttrsGo]
    sifA [rb.1.err, rb.2, hne, ra.err, herr1]
    exact raA
  case case3 u _ hne _ herr1 hprog ih =>
    have herr : ¬ u.readByte.1.err = true := by intro h; simp [h] at hne
    have a0 := read_unread_adv ok herr
    have a1 := readAttr_adv _ save a0.ok
    have rb := readByte_sim c (e.back (fun h => tagAttrsGo_err _ _ (readAttr_err _ _ (by simpa using h))))
    have us := unread_sim 1 rb.1 (readByte_pos herr)
    have er : EO F ((u.readByte.1.unread 1).readAttr save) := e.back (tagAttrsGo_err _ _)
    have ra := readAttr_sim _ _ save us a0.ok er
    have raA := readAttr_simA _ _ save us a0.ok er ⟨by simp [sv.attrs], by simp [sv.n]⟩
    have okT := c.okT ok
    have herrT : ¬ t.readByte.1.err = true := by rw [rb.1.err]; exact herr
    have b0 := read_unread_adv okT herrT
    have b1 := readAttr_adv _ save b0.ok
    have hbufT := (b0.trans b1).buf
    have hbufU := (a0.trans a1).buf
    have hleT := b1.ok.le
    have hleU := a1.ok.le
    have hprogT : ((t.readByte.1.unread 1).readAttr save).buf.size - ((t.readByte.1.unread 1).readAttr save).rawE <
        t.buf.size - t.rawE := by
      rw [hbufT] at hleT ⊢
      rw [hbufU] at hleU hprog
      have := ra.rawE
      have := c.rawE
      omega
    rw [tagAttrsGo]
    sifA [rb.1.err, rb.2, hne, ra.err, herr1, hprogT]
    exact ih _ ra a1.ok e raA
  case case4 u _ hne _ herr1 hnp =>
    exfalso
    have herr : ¬ u.readByte.1.err = true := by intro h; simp [h] at hne
    have h62 : u.readByte.2 ≠ 62 := by intro h; simp [h] at hne
    obtain ⟨g1, g2⟩ := get_of_readByte herr
    obtain ⟨e1, e2, e3, e4⟩ := readByte_get_spec g1
    have hu := unread1_spec u.readByte.1 (by omega)
    have a0 := read_unread_adv ok herr
    have hp := readAttr_progress (u.readByte.1.unread 1) u.readByte.2 save a0.ok (by rw [hu.2.1, e3, g2])
      (by rw [hu.2.2, e4, hu.1, e2]; simpa using g1) h62
    have a1 := readAttr_adv (u.readByte.1.unread 1) save a0.ok
    have hbuf := (a0.trans a1).buf
    have hle := a1.ok.le
    rw [hbuf] at hnp hle
    omega

theorem tagNameGo_keep (t : Tokenizer) : (tagNameGo t).attrs = t.attrs ∧ (tagNameGo t).nAttrRet = t.nAttrRet := by
  fun_induction tagNameGo t <;> simp_all +zetaDelta [setDataEndBack]
  all_goals (try (split <;> simp_all))

theorem readTag_simA {F : Prop} {p : Nat} (t u : Tokenizer) (save : Bool) (c : Core F p t u) (ok : Ok u)
    (h1 : 1 ≤ u.rawE) (e : EO F (readTag u save)) : Sav p (readTag t save) (readTag u save) := by
  have ok0 : Ok ({ u with attrs := #[], nAttrRet := 0 } : Tokenizer) := ⟨ok.le, ok.panic, ok.hang, ok.utf8⟩
  have a1 := readTagName_adv _ ok0 h1
  have a2 := skipWhiteSpace_adv _ a1.ok
  have es : EO F ({ u with attrs := #[], nAttrRet := 0 } : Tokenizer).readTagName.skipWhiteSpace := e.back (fun h => by
    unfold readTag; simp only; split <;> first | exact h | exact tagAttrsGo_err _ _ h)
  have n := readTagName_sim { t with attrs := #[], nAttrRet := 0 } { u with attrs := #[], nAttrRet := 0 }
    (c.congr (by simp [live]) (by simp [live])) ok0 h1 (es.back (skipWhiteSpace_err _))
  have sk := skipWhiteSpace_sim _ _ n a1.ok es
  -- both sides start from an empty attribute list
  have keep : ∀ x : Tokenizer, 1 ≤ x.rawE →
      (({ x with attrs := #[], nAttrRet := 0 } : Tokenizer).readTagName.skipWhiteSpace).attrs = #[] ∧
      (({ x with attrs := #[], nAttrRet := 0 } : Tokenizer).readTagName.skipWhiteSpace).nAttrRet = 0 := by
    intro x hx
    have f := skipWhiteSpace_frame ({ x with attrs := #[], nAttrRet := 0 } : Tokenizer).readTagName
    rw [f.2.2.1, f.2.2.2.1]
    unfold readTagName
    rw [if_neg (by show ¬ x.rawE = 0; omega)]
    have g := tagNameGo_keep { ({ x with attrs := #[], nAttrRet := 0 } : Tokenizer) with dataS := x.rawE - 1 }
    exact ⟨g.1, g.2⟩
  have kt := keep t (by have := c.rawE; omega)
  have ku := keep u h1
  unfold readTag at e ⊢
  simp only [sk.err] at e ⊢
  generalize ({ t with attrs := #[], nAttrRet := 0 } : Tokenizer).readTagName.skipWhiteSpace = t2 at *
  generalize ({ u with attrs := #[], nAttrRet := 0 } : Tokenizer).readTagName.skipWhiteSpace = u2 at *
  have sv2 : Sav p t2 u2 := ⟨by rw [kt.1, ku.1]; simp, by rw [kt.2, ku.2]⟩
  by_cases h2 : u2.err = true
  · sifA [h2]; exact sv2
  · sifA [h2] at e ⊢
    exact tagAttrsGo_simA _ _ save sk a2.ok e sv2

/-! ### `read_start_tag` keeps the attribute list of `read_tag` -/

theorem startTagRaw_keep (t : Tokenizer) : (startTagRaw t).attrs = t.attrs ∧ (startTagRaw t).nAttrRet = t.nAttrRet := by
  unfold startTagRaw
  split
  · simp only []
    split
    · exact ⟨rfl, rfl⟩
    · exact ⟨rfl, rfl⟩
    · split
      · exact ⟨rfl, rfl⟩
      · split <;> exact ⟨rfl, rfl⟩
  · exact ⟨rfl, rfl⟩

theorem readStartTag_keep (t : Tokenizer) :
    (readStartTag t).1.attrs = (readTag t true).attrs ∧ (readStartTag t).1.nAttrRet = (readTag t true).nAttrRet := by
  have k := startTagRaw_keep (readTag t true)
  unfold readStartTag
  simp only
  (repeat' split) <;> first | exact ⟨rfl, rfl⟩ | exact k

theorem readStartTag_simA {F : Prop} {p : Nat} (t u : Tokenizer) (c : Core F p t u) (ok : Ok u) (h2 : 2 ≤ u.rawE)
    (e : EO F (readStartTag u).1) : Sav p (readStartTag t).1 (readStartTag u).1 := by
  have er : EO F (readTag u true) := e.back (fun h => by
    unfold readStartTag; simp only; simp [h])
  have r := readTag_simA t u true c ok (by omega) er
  have kt := readStartTag_keep t
  have ku := readStartTag_keep u
  exact ⟨by rw [kt.1, ku.1]; exact r.attrs, by rw [kt.2, ku.2]; exact r.n⟩

end Tokenizer
end Rio.Html
