/-
Stream laws, attribute spans: the simulation `Core` does not talk about the attribute fields (`pending_attribute`,
`attribute`, `number_attribute_returned`) because they are stale between tokens and rebuilt by `read_tag`.  This file shows
that `read_tag` rebuilds them alike on related states: the saved spans are the same up to the shift `p`.  HtmlStream2 lifts
this to `next` (`CoreTA`), so that prefix stability and restart also cover a tag token's attribute list.
-/
import RioModel.Proofs.HtmlStream
set_option linter.unusedSimpArgs false
set_option linter.unusedVariables false

namespace Rio.Html
namespace Tokenizer
open Rio.Consts

open Lean Parser Tactic in
syntax "sifA" " [" (simpStar <|> simpErase <|> simpLemma),* "]" (location)? : tactic
macro_rules
  | `(tactic| sifA [$ts,*] $[$loc]?) =>
    `(tactic| simp only [$ts,*, Bool.false_eq_true, if_false, if_true, dite_false, dite_true, ↓reduceIte, ↓reduceDIte,
        Bool.not_true, Bool.not_false, Bool.true_eq_false] $[$loc]?)

/-- an attribute span moved by `p` -/
def AttrSpan.shift (p : Nat) (s : AttrSpan) : AttrSpan := ⟨p + s.ks, p + s.ke, p + s.vs, p + s.ve⟩

/-- the saved attributes correspond: same number, spans shifted by `p`, same read position -/
structure Sav (p : Nat) (t u : Tokenizer) : Prop where
  attrs : t.attrs = u.attrs.map (AttrSpan.shift p)
  n : t.nAttrRet = u.nAttrRet

/-! ### the key -/

theorem attrKeyGo_simA {F : Prop} {p : Nat} (t u : Tokenizer) (c : Core F p t u) (ok : Ok u)
    (e : EO F (attrKeyGo u)) : (attrKeyGo t).pkE = p + (attrKeyGo u).pkE := by
  fun_induction attrKeyGo u generalizing t
  all_goals (try simp +zetaDelta only at *)
  case case1 =>
    have rb := readByte_sim c e
    rw [attrKeyGo]
    sifA [rb.1.err, rb.2, *]
    exact rb.1.rawE
  case case2 herr _ h0 => have := readByte_pos (t := _) (by assumption); omega
  case case3 =>
    have rb := readByte_sim c e
    have ht0 : ¬ t.readByte.1.rawE = 0 := by have := rb.1.rawE; omega
    rw [attrKeyGo]
    sifA [rb.1.err, rb.2, ht0, *]
    have := rb.1.rawE; omega
  case case4 =>
    have rb := readByte_sim c (by have := e; simp only [EO, unread_err] at this; exact this)
    have us := unread_sim 1 rb.1 (readByte_pos (t := _) (by assumption))
    rw [attrKeyGo]
    sifA [rb.1.err, rb.2, *]
    exact us.rawE
  case case5 ih =>
    have rb := readByte_sim c (e.back (attrKeyGo_err _))
    rw [attrKeyGo]
    sifA [rb.1.err, rb.2, *]
    exact ih _ rb.1 (readByte_adv ok).ok e

theorem readTagAttrKey_simA {F : Prop} {p : Nat} (t u : Tokenizer) (c : Core F p t u) (ok : Ok u)
    (e : EO F (readTagAttrKey u)) :
    (readTagAttrKey t).pkS = p + (readTagAttrKey u).pkS ∧ (readTagAttrKey t).pkE = p + (readTagAttrKey u).pkE := by
  unfold readTagAttrKey at e ⊢
  have ft := attrKeyGo_frame { t with pkS := t.rawE }
  have fu := attrKeyGo_frame { u with pkS := u.rawE }
  refine ⟨by rw [ft.2.2.2.2.1, fu.2.2.2.2.1]; exact c.rawE, ?_⟩
  exact attrKeyGo_simA _ _ (c.congr (by simp [live]) (by simp [live])) ⟨ok.le, ok.panic, ok.hang, ok.utf8⟩ e

/-! ### the value -/

theorem attrValQuotedGo_simA {F : Prop} {p : Nat} (t u : Tokenizer) (q : Nat) (c : Core F p t u) (ok : Ok u)
    (e : EO F (attrValQuotedGo u q)) : (attrValQuotedGo t q).pvE = p + (attrValQuotedGo u q).pvE := by
  fun_induction attrValQuotedGo u q generalizing t
  all_goals (try simp +zetaDelta only at *)
  case case1 =>
    have rb := readByte_sim c e
    rw [attrValQuotedGo]
    sifA [rb.1.err, rb.2, *]
    exact rb.1.rawE
  case case2 => have := readByte_pos (t := _) (by assumption); omega
  case case3 =>
    have rb := readByte_sim c e
    have ht0 : ¬ t.readByte.1.rawE = 0 := by have := rb.1.rawE; omega
    rw [attrValQuotedGo]
    sifA [rb.1.err, rb.2, ht0, *]
    have := rb.1.rawE; omega
  case case4 ih =>
    have rb := readByte_sim c (e.back (attrValQuotedGo_err _ _))
    rw [attrValQuotedGo]
    sifA [rb.1.err, rb.2, *]
    exact ih _ rb.1 (readByte_adv ok).ok e

theorem attrValUnquotedGo_simA {F : Prop} {p : Nat} (t u : Tokenizer) (c : Core F p t u) (ok : Ok u)
    (e : EO F (attrValUnquotedGo u)) : (attrValUnquotedGo t).pvE = p + (attrValUnquotedGo u).pvE := by
  fun_induction attrValUnquotedGo u generalizing t
  all_goals (try simp +zetaDelta only at *)
  case case1 =>
    have rb := readByte_sim c e
    rw [attrValUnquotedGo]
    sifA [rb.1.err, rb.2, *]
    exact rb.1.rawE
  case case2 => have := readByte_pos (t := _) (by assumption); omega
  case case3 =>
    have rb := readByte_sim c e
    have ht0 : ¬ t.readByte.1.rawE = 0 := by have := rb.1.rawE; omega
    rw [attrValUnquotedGo]
    sifA [rb.1.err, rb.2, ht0, *]
    have := rb.1.rawE; omega
  case case4 =>
    have rb := readByte_sim c (by have := e; simp only [EO, unread_err] at this; exact this)
    have us := unread_sim 1 rb.1 (readByte_pos (t := _) (by assumption))
    rw [attrValUnquotedGo]
    sifA [rb.1.err, rb.2, *]
    exact us.rawE
  case case5 ih =>
    have rb := readByte_sim c (e.back (attrValUnquotedGo_err _))
    rw [attrValUnquotedGo]
    sifA [rb.1.err, rb.2, *]
    exact ih _ rb.1 (readByte_adv ok).ok e

theorem attrValRest_simA {F : Prop} {p : Nat} (t u : Tokenizer) (c : Core F p t u) (ok : Ok u)
    (e : EO F (attrValRest u)) (hs : t.pvS = p + u.pvS) (hE : t.pvE = p + u.pvE) :
    (attrValRest t).pvS = p + (attrValRest u).pvS ∧ (attrValRest t).pvE = p + (attrValRest u).pvE := by
  have es : EO F u.skipWhiteSpace := e.back (attrValRest_err' u)
  have sk := skipWhiteSpace_sim _ _ c ok es
  have ska := skipWhiteSpace_adv _ ok
  have ft := skipWhiteSpace_frame t
  have fu := skipWhiteSpace_frame u
  unfold attrValRest at e ⊢
  simp only [sk.err] at e ⊢
  generalize t.skipWhiteSpace = t2 at *
  generalize u.skipWhiteSpace = u2 at *
  have hs2 : t2.pvS = p + u2.pvS := by rw [ft.2.2.2.2.2.2.1, fu.2.2.2.2.2.2.1]; exact hs
  have hE2 : t2.pvE = p + u2.pvE := by rw [ft.2.2.2.2.2.2.2, fu.2.2.2.2.2.2.2]; exact hE
  by_cases h1 : u2.err = true
  · sifA [h1]; exact ⟨hs2, hE2⟩
  · sifA [h1] at e ⊢
    have a4 := readByte_adv ska.ok
    have eq : EO F u2.readByte.1 := e.back (fun h => by
      have h2 := attrValQuotedGo_err { u2.readByte.1 with pvS := u2.readByte.1.rawE } u2.readByte.2 h
      have h3 := attrValUnquotedGo_err { u2.readByte.1 with pvS := u2.readByte.1.rawE - 1 } h
      (repeat' split) <;> simp_all)
    have rb := readByte_sim sk eq
    simp only [rb.1.err, rb.2] at e ⊢
    by_cases h2 : u2.readByte.1.err = true
    · sifA [h2]; exact ⟨by simp [hs2], by simp [hE2]⟩
    · sifA [h2] at e ⊢
      have hp := readByte_pos h2
      by_cases h3 : (u2.readByte.2 == 62) = true
      · sifA [h3]; exact ⟨by simp [hs2], by simp [hE2]⟩
      · sifA [h3] at e ⊢
        by_cases h4 : (u2.readByte.2 == 39 || u2.readByte.2 == 34) = true
        · sifA [h4] at e ⊢
          have het := rb.1.err
          have cq : Core F p { t2.readByte.1 with pvS := t2.readByte.1.rawE } { u2.readByte.1 with pvS := u2.readByte.1.rawE } :=
            Core.congr rb.1 (by simp [live]) (by simp [live])
          have okq : Ok ({ u2.readByte.1 with pvS := u2.readByte.1.rawE } : Tokenizer) :=
            ⟨a4.ok.le, a4.ok.panic, a4.ok.hang, a4.ok.utf8⟩
          have fq1 := attrValQuotedGo_frame { t2.readByte.1 with pvS := t2.readByte.1.rawE } u2.readByte.2
          have fq2 := attrValQuotedGo_frame { u2.readByte.1 with pvS := u2.readByte.1.rawE } u2.readByte.2
          exact ⟨by rw [fq1.2.2.2.2.2.2, fq2.2.2.2.2.2.2]; exact rb.1.rawE, attrValQuotedGo_simA _ _ _ cq okq e⟩
        · sifA [h4] at e ⊢
          have hu0 : ¬ u2.readByte.1.rawE = 0 := by omega
          have ht0 : ¬ t2.readByte.1.rawE = 0 := by have := rb.1.rawE; omega
          sifA [hu0, ht0] at e ⊢
          have het := rb.1.err
          have cq : Core F p { t2.readByte.1 with pvS := t2.readByte.1.rawE - 1 }
              { u2.readByte.1 with pvS := u2.readByte.1.rawE - 1 } := Core.congr rb.1 (by simp [live]) (by simp [live])
          have okq : Ok ({ u2.readByte.1 with pvS := u2.readByte.1.rawE - 1 } : Tokenizer) :=
            ⟨a4.ok.le, a4.ok.panic, a4.ok.hang, a4.ok.utf8⟩
          have fq1 := attrValUnquotedGo_frame { t2.readByte.1 with pvS := t2.readByte.1.rawE - 1 }
          have fq2 := attrValUnquotedGo_frame { u2.readByte.1 with pvS := u2.readByte.1.rawE - 1 }
          refine ⟨?_, attrValUnquotedGo_simA _ _ cq okq e⟩
          rw [fq1.2.2.2.2.2.2, fq2.2.2.2.2.2.2]
          have := rb.1.rawE
          show t2.readByte.1.rawE - 1 = p + (u2.readByte.1.rawE - 1)
          omega

theorem attrValGo_simA {F : Prop} {p : Nat} (t u : Tokenizer) (c : Core F p t u) (ok : Ok u)
    (e : EO F (attrValGo u)) (hs : t.pvS = p + u.pvS) (hE : t.pvE = p + u.pvE) :
    (attrValGo t).pvS = p + (attrValGo u).pvS ∧ (attrValGo t).pvE = p + (attrValGo u).pvE := by
  have es : EO F u.skipWhiteSpace := e.back (attrValGo_err' u)
  have sk := skipWhiteSpace_sim _ _ c ok es
  have ska := skipWhiteSpace_adv _ ok
  have ft := skipWhiteSpace_frame t
  have fu := skipWhiteSpace_frame u
  unfold attrValGo at e ⊢
  simp only [sk.err] at e ⊢
  generalize t.skipWhiteSpace = t1 at *
  generalize u.skipWhiteSpace = u1 at *
  have hs2 : t1.pvS = p + u1.pvS := by rw [ft.2.2.2.2.2.2.1, fu.2.2.2.2.2.2.1]; exact hs
  have hE2 : t1.pvE = p + u1.pvE := by rw [ft.2.2.2.2.2.2.2, fu.2.2.2.2.2.2.2]; exact hE
  by_cases h1 : u1.err = true
  · sifA [h1]; exact ⟨hs2, hE2⟩
  · sifA [h1] at e ⊢
    have a2 := readByte_adv ska.ok
    have eq : EO F u1.readByte.1 := e.back (fun h => by
      have h2 := attrValRest_err _ h
      (repeat' split) <;> simp_all)
    have rb := readByte_sim sk eq
    simp only [rb.1.err, rb.2] at e ⊢
    by_cases h2 : u1.readByte.1.err = true
    · sifA [h2]; exact ⟨by simp [hs2], by simp [hE2]⟩
    · sifA [h2] at e ⊢
      by_cases h3 : (u1.readByte.2 != 61) = true
      · sifA [h3]; exact ⟨by simp [hs2], by simp [hE2]⟩
      · sifA [h3] at e ⊢
        exact attrValRest_simA _ _ rb.1 a2.ok e (by simp [hs2]) (by simp [hE2])

theorem readTagAttrVal_simA {F : Prop} {p : Nat} (t u : Tokenizer) (c : Core F p t u) (ok : Ok u)
    (e : EO F (readTagAttrVal u)) :
    (readTagAttrVal t).pvS = p + (readTagAttrVal u).pvS ∧ (readTagAttrVal t).pvE = p + (readTagAttrVal u).pvE := by
  unfold readTagAttrVal at e ⊢
  exact attrValGo_simA _ _ (c.congr (by simp [live]) (by simp [live])) ⟨ok.le, ok.panic, ok.hang, ok.utf8⟩ e c.rawE c.rawE

end Tokenizer
end Rio.Html
