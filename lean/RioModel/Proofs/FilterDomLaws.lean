/-
C15, byte level: the laws of `Proofs/FilterDomUniv.lean` discharged from W5's closed forms of the tokenizer's readers
(`Proofs/HtmlClosed*.lean`): the `Simple` grammar with arbitrary tag names and attribute texts.
-/
import RioModel.Proofs.FilterDomUniv
import RioModel.Proofs.HtmlClosed2
set_option linter.unusedSimpArgs false
set_option linter.unusedVariables false

namespace Rio.Filter
open Rio.Html Rio.Html.Tokenizer

theorem ok_new (a : Array Nat) : Ok (Tokenizer.new a) := (inv_new a).ok

theorem has_new (x : Bytes) : Has (Tokenizer.new x.toArray) 0 x := by
  intro i hi; simp [Tokenizer.new]

theorem hasA_of_has {t : Tokenizer} {p : Nat} {l : Bytes} (h : Has t p l) : HasA t.buf p l := h

/-- a single-token tag piece on a fresh tokenizer -/
theorem closed_of_piece_tag {x disp : Bytes} {k : TokenType} {a : Nat}
    (hk : k = .startTag ∨ k = .endTag ∨ k = .selfClosing)
    (pc : Piece (Tokenizer.new x.toArray) (next (Tokenizer.new x.toArray)) k x.length [])
    (hdS : (next (Tokenizer.new x.toArray)).dataS = 0 + a)
    (hdE : (next (Tokenizer.new x.toArray)).dataE = 0 + a + disp.length)
    (hslice : (x.drop a).take disp.length = disp) (hascii : ∀ b ∈ disp, b < 128) (hx : x ≠ []) :
    Closed x [⟨kindOf k, x, lowerName disp⟩] := by
  have f : StepFacts (Tokenizer.new x.toArray) k x [] :=
    ⟨by simpa [Tokenizer.new] using hasA_toArray x, pc.token, pc.rawE, pc.err, pc.rawTag, pc.cdata⟩
  obtain ⟨t2, hst, _, h1, h2, h3, h4, _⟩ := step_tag (inv_new _) f hk hdS hdE hslice hascii
  refine ⟨t2, ?_, by simpa [Tokenizer.new] using h1, h2, h3, by simpa [Tokenizer.new] using h4,
    List.length_pos_iff.mpr hx⟩
  rw [closedEnd_cons hst pc.err]; rfl

/-- ordinary start tag: name, attributes, `>` -/
def StartOKU (d a : Bytes) : Prop :=
  nameOK d = true ∧ isRawName (lowerName d) = false ∧
  ∃ (as : List SAttr) (trail : Bytes), a = attrsOf as ++ trail ∧ (∀ x ∈ as, x.ok = true) ∧
    (∀ b ∈ trail, isWs b = true)

/-- self-closing tag: the last attribute is quoted or white space precedes `/>` -/
def SelfOKU (d a : Bytes) : Prop :=
  nameOK d = true ∧ isRawName (lowerName d) = false ∧
  ∃ (as : List SAttr) (trail : Bytes), a = attrsOf as ++ trail ∧ (∀ x ∈ as, x.ok = true) ∧
    (∀ b ∈ trail, isWs b = true) ∧ endOK as trail .slashGt = true

theorem nameOK_head {d : Bytes} (h : nameOK d = true) : ∃ c rest, d = c :: rest ∧ isAlpha c = true := by
  cases d with
  | nil => simp [nameOK] at h
  | cons c rest =>
    simp only [nameOK, Bool.and_eq_true] at h
    exact ⟨c, rest, rfl, h.1⟩

theorem opener_of_alpha {c : Nat} (h : isAlpha c = true) : Rio.Filter.isOpener c = true := by
  simp [Rio.Filter.isOpener, h]

theorem start_closed_U (d a : Bytes) (h : StartOKU d a) :
    Closed (startTok (lowerName d) d a).raw [startTok (lowerName d) d a] ∧
    StartsOpener (startTok (lowerName d) d a).raw := by
  obtain ⟨hn, hraw, as, trail, rfl, hok, htr⟩ := h
  obtain ⟨c, rest, rfl, hc⟩ := nameOK_head hn
  refine ⟨?_, ⟨c, rest ++ (attrsOf as ++ trail) ++ [62], by simp [startTok], opener_of_alpha hc⟩⟩
  have hx : (startTok (lowerName (c :: rest)) (c :: rest) (attrsOf as ++ trail)).raw =
      [60] ++ (c :: rest) ++ attrsOf as ++ trail ++ TagEnd.gt.text := by
    simp [startTok, TagEnd.text, List.append_assoc]
  have cf := start_tag_closed_form (Tokenizer.new
      ([60] ++ (c :: rest) ++ attrsOf as ++ trail ++ TagEnd.gt.text).toArray) (c :: rest) as trail .gt
    (ok_new _) rfl rfl hn hok htr rfl (by simpa [Tokenizer.new] using has_new _)
  have hrn : isRawName ((c :: rest).map lowerByte) = false := hraw
  rw [hrn] at cf
  simp only [Bool.false_eq_true, if_false] at cf
  obtain ⟨pc, hdS, hdE⟩ := cf
  have := closed_of_piece_tag (x := [60] ++ (c :: rest) ++ attrsOf as ++ trail ++ TagEnd.gt.text)
    (disp := c :: rest) (k := .startTag) (a := 1) (Or.inl rfl)
    (by simpa [Tokenizer.new, TagEnd.kind] using pc) (by simpa [Tokenizer.new] using hdS)
    (by simpa [Tokenizer.new] using hdE) (by simp) (nameOK_ascii hn) (by simp)
  rw [hx]
  simpa [startTok, kindOf, TagEnd.text, List.append_assoc] using this

theorem self_closed_U (d a : Bytes) (h : SelfOKU d a) :
    Closed (selfTok (lowerName d) d a).raw [selfTok (lowerName d) d a] ∧
    StartsOpener (selfTok (lowerName d) d a).raw := by
  obtain ⟨hn, hraw, as, trail, rfl, hok, htr, hend⟩ := h
  obtain ⟨c, rest, rfl, hc⟩ := nameOK_head hn
  refine ⟨?_, ⟨c, rest ++ (attrsOf as ++ trail) ++ [47, 62], by simp [selfTok], opener_of_alpha hc⟩⟩
  have hx : (selfTok (lowerName (c :: rest)) (c :: rest) (attrsOf as ++ trail)).raw =
      [60] ++ (c :: rest) ++ attrsOf as ++ trail ++ TagEnd.slashGt.text := by
    simp [selfTok, TagEnd.text, List.append_assoc]
  have cf := start_tag_closed_form (Tokenizer.new
      ([60] ++ (c :: rest) ++ attrsOf as ++ trail ++ TagEnd.slashGt.text).toArray) (c :: rest) as trail .slashGt
    (ok_new _) rfl rfl hn hok htr hend (by simpa [Tokenizer.new] using has_new _)
  have hrn : isRawName ((c :: rest).map lowerByte) = false := hraw
  rw [hrn] at cf
  simp only [Bool.false_eq_true, if_false] at cf
  obtain ⟨pc, hdS, hdE⟩ := cf
  have := closed_of_piece_tag (x := [60] ++ (c :: rest) ++ attrsOf as ++ trail ++ TagEnd.slashGt.text)
    (disp := c :: rest) (k := .selfClosing) (a := 1) (Or.inr (Or.inr rfl))
    (by simpa [Tokenizer.new, TagEnd.kind] using pc) (by simpa [Tokenizer.new] using hdS)
    (by simpa [Tokenizer.new] using hdE) (by simp) (nameOK_ascii hn) (by simp)
  rw [hx]
  simpa [selfTok, kindOf, TagEnd.text, List.append_assoc] using this

end Rio.Filter
