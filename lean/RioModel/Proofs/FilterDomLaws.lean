/-
C15, byte level: the laws of `Proofs/FilterDomUniv.lean` discharged from W5's closed forms of the tokenizer's readers
(`Proofs/HtmlClosed*.lean`): the `Simple` grammar with arbitrary tag names and attribute texts.
-/
import RioModel.Proofs.FilterDomUniv
import RioModel.Proofs.HtmlClosed4
set_option linter.unusedSimpArgs false
set_option linter.unusedVariables false

namespace Rio.Filter
open Rio.Html Rio.Html.Tokenizer

theorem ok_new (a : Array Nat) : Ok (Tokenizer.new a) := (inv_new a).ok

theorem has_new (x : Bytes) : Has (Tokenizer.new x.toArray) 0 x := by
  intro i hi; simp [Tokenizer.new]

theorem hasA_of_has {t : Tokenizer} {p : Nat} {l : Bytes} (h : Has t p l) : HasA t.buf p l := h

/-- a single-token tag piece on a fresh tokenizer -/
theorem closed_of_piece_tag {x disp : Bytes} {k : TokenType} {a : Nat}
    (hk : k = .startTag ∨ k = .endTag ∨ k = .selfClosing)
    (pc : Piece (Tokenizer.new x.toArray) (next (Tokenizer.new x.toArray)) k x.length [])
    (hdS : (next (Tokenizer.new x.toArray)).dataS = 0 + a)
    (hdE : (next (Tokenizer.new x.toArray)).dataE = 0 + a + disp.length)
    (hslice : (x.drop a).take disp.length = disp) (hascii : ∀ b ∈ disp, b < 128) (hx : x ≠ []) :
    Closed x [⟨kindOf k, x, lowerName disp⟩] := by
  have f : StepFacts (Tokenizer.new x.toArray) k x [] :=
    ⟨by simpa [Tokenizer.new] using hasA_toArray x, pc.token, pc.rawE, pc.err, pc.rawTag, pc.cdata⟩
  obtain ⟨t2, hst, _, h1, h2, h3, h4, _⟩ := step_tag (inv_new _) f hk hdS hdE hslice hascii
  refine ⟨t2, ?_, by simpa [Tokenizer.new] using h1, h2, h3, by simpa [Tokenizer.new] using h4,
    List.length_pos_iff.mpr hx⟩
  rw [closedEnd_cons hst pc.err]; rfl

/-- a tag name as `read_tag_name` delimits it (a letter, then any bytes other than white space, `/`, `>`: `-`, `:`, `_`,
digits … are name bytes), ASCII (`tag_name()` lower-cases with Unicode rules, which are not modelled) -/
def NameOKU (d : Bytes) : Prop := nameOK2 d = true ∧ ∀ b ∈ d, b < 128

theorem nameOKU_of_nameOK {d : Bytes} (h : nameOK d = true) : NameOKU d := ⟨nameOK2_of_nameOK h, nameOK_ascii h⟩

/-- ordinary start tag: name, attributes, `>` -/
def StartOKU (d a : Bytes) : Prop :=
  NameOKU d ∧ isRawName (lowerName d) = false ∧
  ∃ (as : List SAttr) (trail : Bytes), a = attrsOf as ++ trail ∧ (∀ x ∈ as, x.ok = true) ∧
    (∀ b ∈ trail, isWs b = true)

/-- self-closing tag: the last attribute is quoted or white space precedes `/>` -/
def SelfOKU (d a : Bytes) : Prop :=
  NameOKU d ∧ isRawName (lowerName d) = false ∧
  ∃ (as : List SAttr) (trail : Bytes), a = attrsOf as ++ trail ∧ (∀ x ∈ as, x.ok = true) ∧
    (∀ b ∈ trail, isWs b = true) ∧ endOK as trail .slashGt = true

theorem nameOK_head {d : Bytes} (h : nameOK2 d = true) : ∃ c rest, d = c :: rest ∧ isAlpha c = true := by
  cases d with
  | nil => simp [nameOK2] at h
  | cons c rest =>
    simp only [nameOK2, Bool.and_eq_true] at h
    exact ⟨c, rest, rfl, h.1⟩

theorem opener_of_alpha {c : Nat} (h : isAlpha c = true) : Rio.Filter.isOpener c = true := by
  simp [Rio.Filter.isOpener, h]

theorem start_closed_U (d a : Bytes) (h : StartOKU d a) :
    Closed (startTok (lowerName d) d a).raw [startTok (lowerName d) d a] ∧
    StartsOpener (startTok (lowerName d) d a).raw := by
  obtain ⟨⟨hn, hasc⟩, hraw, as, trail, rfl, hok, htr⟩ := h
  obtain ⟨c, rest, rfl, hc⟩ := nameOK_head hn
  refine ⟨?_, ⟨c, rest ++ (attrsOf as ++ trail) ++ [62], by simp [startTok], opener_of_alpha hc⟩⟩
  have hx : (startTok (lowerName (c :: rest)) (c :: rest) (attrsOf as ++ trail)).raw =
      [60] ++ (c :: rest) ++ attrsOf as ++ trail ++ TagEnd.gt.text := by
    simp [startTok, TagEnd.text, List.append_assoc]
  have cf := start_tag_closed_form2 (Tokenizer.new
      ([60] ++ (c :: rest) ++ attrsOf as ++ trail ++ TagEnd.gt.text).toArray) (c :: rest) as trail .gt
    (ok_new _) rfl rfl hn hok htr rfl (by simpa [Tokenizer.new] using has_new _)
  have hrn : isRawName ((c :: rest).map lowerByte) = false := hraw
  rw [hrn] at cf
  simp only [Bool.false_eq_true, if_false] at cf
  obtain ⟨pc, hdS, hdE⟩ := cf
  have := closed_of_piece_tag (x := [60] ++ (c :: rest) ++ attrsOf as ++ trail ++ TagEnd.gt.text)
    (disp := c :: rest) (k := .startTag) (a := 1) (Or.inl rfl)
    (by simpa [Tokenizer.new, TagEnd.kind] using pc) (by simpa [Tokenizer.new] using hdS)
    (by simpa [Tokenizer.new] using hdE) (by simp) hasc (by simp)
  rw [hx]
  simpa [startTok, kindOf, TagEnd.text, List.append_assoc] using this

theorem self_closed_U (d a : Bytes) (h : SelfOKU d a) :
    Closed (selfTok (lowerName d) d a).raw [selfTok (lowerName d) d a] ∧
    StartsOpener (selfTok (lowerName d) d a).raw := by
  obtain ⟨⟨hn, hasc⟩, hraw, as, trail, rfl, hok, htr, hend⟩ := h
  obtain ⟨c, rest, rfl, hc⟩ := nameOK_head hn
  refine ⟨?_, ⟨c, rest ++ (attrsOf as ++ trail) ++ [47, 62], by simp [selfTok], opener_of_alpha hc⟩⟩
  have hx : (selfTok (lowerName (c :: rest)) (c :: rest) (attrsOf as ++ trail)).raw =
      [60] ++ (c :: rest) ++ attrsOf as ++ trail ++ TagEnd.slashGt.text := by
    simp [selfTok, TagEnd.text, List.append_assoc]
  have cf := start_tag_closed_form2 (Tokenizer.new
      ([60] ++ (c :: rest) ++ attrsOf as ++ trail ++ TagEnd.slashGt.text).toArray) (c :: rest) as trail .slashGt
    (ok_new _) rfl rfl hn hok htr hend (by simpa [Tokenizer.new] using has_new _)
  have hrn : isRawName ((c :: rest).map lowerByte) = false := hraw
  rw [hrn] at cf
  simp only [Bool.false_eq_true, if_false] at cf
  obtain ⟨pc, hdS, hdE⟩ := cf
  have := closed_of_piece_tag (x := [60] ++ (c :: rest) ++ attrsOf as ++ trail ++ TagEnd.slashGt.text)
    (disp := c :: rest) (k := .selfClosing) (a := 1) (Or.inr (Or.inr rfl))
    (by simpa [Tokenizer.new, TagEnd.kind] using pc) (by simpa [Tokenizer.new] using hdS)
    (by simpa [Tokenizer.new] using hdE) (by simp) hasc (by simp)
  rw [hx]
  simpa [selfTok, kindOf, TagEnd.text, List.append_assoc] using this

/-! ### end tags, comments, declarations -/

def EndOKU (d : Bytes) : Prop := NameOKU d

theorem end_closed_U (d : Bytes) (h : EndOKU d) :
    Closed (endTok (lowerName d) d).raw [endTok (lowerName d) d] := by
  have hx : (endTok (lowerName d) d).raw = [60, 47] ++ d ++ [62] := by simp [endTok]
  have cf := end_tag_closed_form2 (Tokenizer.new ([60, 47] ++ d ++ [62]).toArray) d (ok_new _) rfl rfl h.1
    (by simpa [Tokenizer.new] using has_new _)
  obtain ⟨pc, hdS, hdE⟩ := cf
  have := closed_of_piece_tag (x := [60, 47] ++ d ++ [62]) (disp := d) (k := .endTag) (a := 2) (Or.inr (Or.inl rfl))
    (by simpa [Tokenizer.new] using pc) (by simpa [Tokenizer.new] using hdS)
    (by simpa [Tokenizer.new] using hdE) (by simp) h.2 (by simp)
  rw [hx]
  simpa [endTok, kindOf] using this

/-- a comment `<!--` body `-->` (`commentOK2`: the body may hold `>` and `!` but no `-->` / `--!>`, does not start with `>`,
`->`, `!>` and does not end with `--!`), a doctype declaration `<!DOCTYPE …>`, or a bogus comment `<?…>` (processing
instruction; no `>` inside) -/
def OtherOKU (x : Bytes) : Prop :=
  (∃ body, commentOK2 body = true ∧ x = [60, 33, 45, 45] ++ body ++ [45, 45, 62]) ∨
  (∃ kw r, doctypeOK kw r = true ∧ x = [60, 33] ++ kw ++ r ++ [62]) ∨
  (∃ tx, (∀ b ∈ tx, b ≠ 62) ∧ x = [60, 63] ++ tx ++ [62])

theorem closed_of_piece_plain {x : Bytes} {k : TokenType} (hk : k = .comment ∨ k = .doctype)
    (pc : Piece (Tokenizer.new x.toArray) (next (Tokenizer.new x.toArray)) k x.length []) (hx : x ≠ []) :
    Closed x [⟨.other, x, []⟩] := by
  have f : StepFacts (Tokenizer.new x.toArray) k x [] :=
    ⟨by simpa [Tokenizer.new] using hasA_toArray x, pc.token, pc.rawE, pc.err, pc.rawTag, pc.cdata⟩
  have hst := step_plain (inv_new _) f (by rcases hk with h | h <;> simp [h])
  have hkind : kindOf k = .other := by rcases hk with rfl | rfl <;> rfl
  rw [hkind] at hst
  refine ⟨next (Tokenizer.new x.toArray), ?_, by simpa [Tokenizer.new] using pc.rawE, pc.err, pc.rawTag,
    by simpa [Tokenizer.new] using pc.cdata, List.length_pos_iff.mpr hx⟩
  rw [closedEnd_cons hst pc.err]; rfl

theorem other_closed_U (x : Bytes) (h : OtherOKU x) : Closed x [⟨.other, x, []⟩] ∧ StartsOpener x := by
  rcases h with ⟨body, hb, rfl⟩ | ⟨kw, r, hok, rfl⟩ | ⟨tx, htx, rfl⟩
  · refine ⟨?_, ⟨33, [45, 45] ++ body ++ [45, 45, 62], by simp, by decide⟩⟩
    have cf := comment_closed_form2 (Tokenizer.new ([60, 33, 45, 45] ++ body ++ [45, 45, 62]).toArray) body
      (ok_new _) rfl rfl hb (by simpa [Tokenizer.new] using has_new _)
    exact closed_of_piece_plain (Or.inl rfl) (by simpa [Tokenizer.new] using cf.1) (by simp)
  · refine ⟨?_, ⟨33, kw ++ r ++ [62], by simp, by decide⟩⟩
    have cf := doctype_closed_form (Tokenizer.new ([60, 33] ++ kw ++ r ++ [62]).toArray) kw r
      (ok_new _) rfl rfl hok (by simpa [Tokenizer.new] using has_new _)
    exact closed_of_piece_plain (Or.inr rfl) (by simpa [Tokenizer.new] using cf.1) (by simp)
  · refine ⟨?_, ⟨63, tx ++ [62], by simp, by decide⟩⟩
    have cf := bogus_closed_form (Tokenizer.new ([60, 63] ++ tx ++ [62]).toArray) tx
      (ok_new _) rfl rfl htx (by simpa [Tokenizer.new] using has_new _)
    exact closed_of_piece_plain (Or.inl rfl) (by simpa [Tokenizer.new] using cf.1) (by simp)

/-! ### raw-text elements (script, style, title, textarea, …): start tag, raw text, end tag as one closed piece -/

def RawOKU (d a c : Bytes) : Prop :=
  nameOK d = true ∧ isRawName (lowerName d) = true ∧ lowerName d ≠ Rio.Consts.htmlPlaintext ∧
  (∃ (as : List SAttr) (trail : Bytes), a = attrsOf as ++ trail ∧ (∀ x ∈ as, x.ok = true) ∧
    (∀ b ∈ trail, isWs b = true)) ∧
  rawOK2 ((lowerName d).headD 0) c = true

theorem raw_closed_U (d a c : Bytes) (h : RawOKU d a c) :
    Closed ((startTok (lowerName d) d a).raw ++ c ++ (endTok (lowerName d) d).raw)
      (startTok (lowerName d) d a :: (textToks c ++ [endTok (lowerName d) d])) ∧
    StartsOpener (startTok (lowerName d) d a).raw := by
  obtain ⟨hn, hraw, hpl, ⟨as, trail, rfl, hok, htr⟩, hc⟩ := h
  obtain ⟨c0, rest0, hd0, hc0⟩ := nameOK_head (nameOK2_of_nameOK hn)
  refine ⟨?_, ⟨c0, rest0 ++ (attrsOf as ++ trail) ++ [62], by subst hd0; simp [startTok], opener_of_alpha hc0⟩⟩
  -- the three parts
  let S : Bytes := [60] ++ d ++ attrsOf as ++ trail ++ TagEnd.gt.text
  let E : Bytes := [60, 47] ++ d ++ [62]
  have hS : (startTok (lowerName d) d (attrsOf as ++ trail)).raw = S := by
    simp [S, startTok, TagEnd.text, List.append_assoc]
  have hE : (endTok (lowerName d) d).raw = E := by simp [E, endTok]
  rw [hS, hE]
  let x : Bytes := S ++ c ++ E
  let t0 := Tokenizer.new x.toArray
  have hx0 : Has t0 0 (S ++ (c ++ E)) := by
    have := has_new x
    simpa [x, t0, List.append_assoc] using this
  have hlow : lowerName d = d.map lowerByte := rfl
  -- step 1: the start tag
  have cf1 := start_tag_closed_form t0 d as trail .gt (ok_new _) rfl rfl hn hok htr rfl
    (by simpa [t0, Tokenizer.new, S] using hx0.left)
  rw [← hlow, hraw] at cf1
  simp only [if_true] at cf1
  obtain ⟨pc1, hdS1, hdE1⟩ := cf1
  have f1 : StepFacts t0 .startTag S (lowerName d) :=
    ⟨by simpa [t0, Tokenizer.new] using hasA_of_has hx0.left, by simpa [TagEnd.kind] using pc1.token,
      by simpa [S] using pc1.rawE, pc1.err, pc1.rawTag, pc1.cdata⟩
  obtain ⟨t2, hst1, inv2, r2, e2, tg2, cd2, b2⟩ := step_tag (disp := d) (a := 1) (inv_new _) f1 (Or.inl rfl)
    hdS1 hdE1 (by simp [S]) (nameOK_ascii hn)
  have hrE0 : t0.rawE = 0 := rfl
  have hdne : d ≠ [] := by subst hd0; simp
  have htagne : t2.rawTag ≠ [] := by rw [tg2, hlow]; simpa using hdne
  have hhas2 : Has t2 t2.rawE (c ++ E) := by
    have := hx0.right
    exact (this.congr b2).at (by rw [r2, hrE0])
  -- the end tag from a state `u` positioned at it, outside / leaving the raw-text context
  have endStep : ∀ (u : Tokenizer), Inv u → u.err = false → u.buf = t0.buf → u.allowCdata = true →
      Has u u.rawE E → u.rawE + E.length = x.length →
      (Piece u (next u) .endTag E.length [] ∧ (next u).dataS = u.rawE + 2 ∧ (next u).dataE = u.rawE + 2 + d.length) →
      ∃ u', closedEnd u [endTok (lowerName d) d] = some u' ∧ u'.rawE = x.length ∧ u'.err = false ∧
        u'.rawTag = [] ∧ u'.allowCdata = true := by
    intro u iu eu bu cu hu hlen cf
    obtain ⟨pc, hdS, hdE⟩ := cf
    have f : StepFacts u .endTag E [] := ⟨hasA_of_has hu, pc.token, pc.rawE, pc.err, pc.rawTag, pc.cdata⟩
    obtain ⟨u', hst, _, r', e', tg', cd', _⟩ := step_tag (disp := d) (a := 2) iu f (Or.inr (Or.inl rfl))
      hdS hdE (by simp [E]) (nameOK_ascii hn)
    refine ⟨u', ?_, by rw [r', hlen], e', tg', by rw [cd', cu]⟩
    have : (⟨kindOf TokenType.endTag, E, lowerName d⟩ : Tok) = endTok (lowerName d) d := by
      simp [endTok, kindOf, E]
    rw [this] at hst
    rw [closedEnd_cons hst pc.err]; rfl
  have hstart : (⟨kindOf TokenType.startTag, S, lowerName d⟩ : Tok) =
      startTok (lowerName d) d (attrsOf as ++ trail) := by
    simp [startTok, kindOf, S, TagEnd.text, List.append_assoc]
  rw [hstart] at hst1
  have hxlen : x.length = S.length + c.length + E.length := by simp [x]; omega
  by_cases hcne : c = []
  · -- no content: `next` goes straight to the end tag
    subst hcne
    have hhasE : Has t2 t2.rawE E := by simpa using hhas2
    have cf2 := rawtext_empty_closed_form t2 d inv2.ok e2 (by rw [tg2]; rfl) htagne (by rw [tg2]; exact hpl) hn hhasE
    obtain ⟨u', hce, h1, h2, h3, h4⟩ := endStep t2 inv2 e2 b2 (by rw [cd2]; rfl) hhasE
      (by rw [r2, hrE0, hxlen]; simp) cf2
    refine ⟨u', ?_, by simpa [x] using h1, h2, h3, h4, by simp [x, S, E, textToks, TagEnd.text]; omega⟩
    simp only [textToks, List.isEmpty_nil, if_true, List.nil_append]
    have : S ++ [] ++ E = x := by simp [x]
    rw [this, closedEnd_cons hst1 pc1.err]
    exact hce
  · -- the raw text, then the end tag
    have hhasC : Has t2 t2.rawE (c ++ [60, 47] ++ d ++ [62]) := by simpa [E, List.append_assoc] using hhas2
    obtain ⟨first, tl, hft, _⟩ := rawName_first hraw
    have hft' : d.map lowerByte = first :: tl := hft
    have hc' : rawOK2 first c = true := by
      have := hc
      rw [hft] at this
      exact this
    have cf2 := rawtext_closed_form2 t2 d c tl 62 first inv2.ok e2 (by rw [tg2]; rfl) hft'
      (by rw [tg2]; exact hraw) (by rw [tg2]; exact hpl) hc' hcne (by decide) hhasC
    obtain ⟨pc2, _, _⟩ := cf2
    have f2 : StepFacts t2 .text c [] := ⟨hasA_of_has hhas2.left, pc2.token, pc2.rawE, pc2.err, pc2.rawTag, pc2.cdata⟩
    have hst2 := step_plain inv2 f2 (Or.inl rfl)
    have inv3 := next_inv' t2 inv2
    have hhas3 : Has (next t2) (next t2).rawE E := pc2.rest rfl hhas2
    have cf3 := end_tag_closed_form (next t2) d inv3.ok pc2.err pc2.rawTag hn hhas3
    obtain ⟨u', hce, h1, h2, h3, h4⟩ := endStep (next t2) inv3 pc2.err (pc2.buf.trans b2)
      (by rw [pc2.cdata, cd2]; rfl) hhas3 (by rw [pc2.rawE, r2, hrE0, hxlen]; omega) cf3
    have hclen : 0 < c.length := List.length_pos_iff.mpr hcne
    have htl : (textToks c).length ≤ 1 := by unfold textToks; split <;> simp
    refine ⟨u', ?_, by simpa [x] using h1, h2, h3, h4, by simp [x, S, E, TagEnd.text]; omega⟩
    have hemp : c.isEmpty = false := by cases c with
      | nil => exact absurd rfl hcne
      | cons _ _ => rfl
    have htext : (⟨kindOf TokenType.text, c, []⟩ : Tok) = ⟨.text, c, []⟩ := rfl
    rw [htext] at hst2
    simp only [textToks, hemp, Bool.false_eq_true, if_false, List.cons_append, List.nil_append]
    show closedEnd t0 _ = some u'
    rw [closedEnd_cons hst1 pc1.err, closedEnd_cons hst2 pc2.err]
    exact hce

/-- **the laws hold for the tokenizer of the filters** -/
def simpleLaws : Laws where
  StartOK := StartOKU
  SelfOK := SelfOKU
  EndOK := EndOKU
  RawOK := RawOKU
  OtherOK := OtherOKU
  start_closed := start_closed_U
  self_closed := self_closed_U
  end_closed := end_closed_U
  raw_closed := raw_closed_U
  other_closed := other_closed_U

end Rio.Filter
