/-
Stream laws, part 8: the laws of W6's `FilterStreamLaws.lean` for the concrete STREAM tokenizer
`htmlTokenize.stream c d` = `Tokenizer::new_fragment(d, c)` run to the `ErrorToken`, recording for every token the
context before its `next()` and whether that `next()` hit the end of the data.
This file: the closed form `toksX` of the loop `tokenizeGoX`, and `TokValidS`, `TagSpanS`, `CtxClosed`,
`htmlStream?_isSome_of_valid`.  (The restart law is in HtmlStream9.)
-/
import RioModel.Proofs.HtmlTok3
import RioModel.Proofs.HtmlStream7
import RioModel.Proofs.FilterStreamLaws
set_option linter.unusedSimpArgs false
set_option linter.unusedVariables false

namespace Rio.Filter
open Rio.Html Rio.Html.Tokenizer Rio.Consts

theorem ctx_iff (c : Bytes) : Ctx c ↔ RawCtx c := Iff.rfl

/-! ### closed form of the stream loop -/

/-- the record `tokenizeGoX` makes for the state after `next()`, `c` = `raw_tag()` before it -/
def tokXOf (c : Bytes) (t1 : Tokenizer) : TokX := { tok := tokOf t1, cut := t1.err, ctx := c }

/-- the records up to the first `ErrorToken`, `raw() ++ buffered()` there, and `raw_tag()` before that call (fuel `n`) -/
def toksXGo : Nat → Tokenizer → List TokX × Bytes × Bytes
  | 0, t => ([], restL t, t.rawTag)
  | n + 1, t =>
    let t1 := t.next
    if t1.token == .error then ([], rawL t1 ++ restL t1, t.rawTag)
    else (tokXOf t.rawTag t1 :: (toksXGo n t1).1, (toksXGo n t1).2)

theorem tagName_rawTag (t : Tokenizer) (x : Option (List Nat) × Bool) (h : (tagName t).1 = .ok x) :
    (tagName t).2.rawTag = t.rawTag := by
  rcases tagName_cases3 t with hc | hc | hc
  · rw [hc] at h; cases h
  · rw [hc]
  · rw [hc]

theorem toksXGo_tagName (n : Nat) (t : Tokenizer) (x : Option (List Nat) × Bool) (h : (tagName t).1 = .ok x) :
    toksXGo n (tagName t).2 = toksXGo n t := by
  have hr := tagName_rawTag t x h
  cases n with
  | zero =>
    simp only [toksXGo]
    have s := tagName_same t x h
    unfold restL; rw [s.1, s.2.1, hr]
  | succ n => simp only [toksXGo, next_tagName' t x h, hr]

theorem tokenizeGoX_eq : ∀ (n : Nat) (t : Tokenizer) (acc : List TokX), LoopInv t → t.buf.size - t.rawE + 1 ≤ n →
    tokenizeGoX n t acc = some (acc.reverse ++ (toksXGo n t).1, (toksXGo n t).2)
  | 0, _, _, _, hf => by omega
  | n + 1, t, acc, hi, hf => by
    have hi1 := hi.next
    have i1 := hi1.inv
    have hb := next_buf' t hi.inv
    rw [tokenizeGoX]
    simp only [i1.ok.panic, i1.ok.hang, i1.ok.utf8, Bool.or_self, Bool.false_eq_true, if_false, toksXGo]
    by_cases he : ((Tokenizer.next t).token == TokenType.error) = true
    · simp only [he, if_true, raw_eq _ i1, buffered_eq _ i1]
      simp
    · simp only [he, if_false, raw_eq _ i1]
      have hne : (Tokenizer.next t).token ≠ .error := by simpa using he
      have hgt := next_rawE_gt t hi.inv hne
      have hle := i1.ok.le
      have hf1 : (Tokenizer.next t).buf.size - (Tokenizer.next t).rawE + 1 ≤ n := by rw [hb] at hle ⊢; omega
      by_cases hk : isTagLike (Tokenizer.next t).token = true
      · simp only [hk, if_true]
        have sp := (next_post t hi.inv).spans
        have tf := next_tag t hi.inv hk
        have hv := validUtf8_of_V (dataL_valid _ hi1.hv sp tf)
        have ts := tagName_spec _ i1 sp hk
        rw [hv] at ts
        simp only [if_true] at ts
        have hx : (tagName (Tokenizer.next t)).1 = .ok (some ((dataL (Tokenizer.next t)).map lowerByte),
            decide ((Tokenizer.next t).nAttrRet < (Tokenizer.next t).attrs.size)) := ts.1
        have hl := hi1.tagName _ hx
        have hs := tagName_same _ _ hx
        have ih := tokenizeGoX_eq n (tagName (Tokenizer.next t)).2
          ({ tok := { kind := kindOf (Tokenizer.next t).token, raw := rawL (Tokenizer.next t),
                      name := (dataL (Tokenizer.next t)).map lowerByte },
             cut := (Tokenizer.next t).err, ctx := t.rawTag } :: acc) hl (by rw [hs.1, hs.2.1]; exact hf1)
        rw [toksXGo_tagName n _ _ hx] at ih
        generalize htn : tagName (Tokenizer.next t) = tn at *
        obtain ⟨res, t2⟩ := tn
        simp only at hx ih
        subst hx
        simp only
        rw [ih]
        simp [tokXOf, tokOf, hk]
      · simp only [hk, Bool.false_eq_true, if_false]
        rw [tokenizeGoX_eq n _ _ hi1 hf1]
        simp [tokXOf, tokOf, hk]

/-- the records of `next` from `t` up to the first `ErrorToken` (the canonical amount of fuel) -/
def toksX (t : Tokenizer) : List TokX × Bytes × Bytes := toksXGo (t.buf.size - t.rawE + 1) t

theorem toksXGo_fuel : ∀ (n : Nat) (t : Tokenizer), Tokenizer.Inv t → t.buf.size - t.rawE + 1 ≤ n →
    toksXGo n t = toksX t
  | 0, _, _, hf => by omega
  | n + 1, t, inv, hf => by
    unfold toksX
    have i1 := next_inv' t inv
    have hb := next_buf' t inv
    have hle := i1.ok.le
    have e : t.buf.size - t.rawE + 1 = (t.buf.size - t.rawE) + 1 := rfl
    rw [e]
    simp only [toksXGo]
    by_cases he : ((Tokenizer.next t).token == TokenType.error) = true
    · simp only [he, if_true]
    · simp only [he, if_false]
      have hne : (Tokenizer.next t).token ≠ .error := by simpa using he
      have hgt := next_rawE_gt t inv hne
      have h1 : (Tokenizer.next t).buf.size - (Tokenizer.next t).rawE + 1 ≤ n := by rw [hb] at hle ⊢; omega
      have h2 : (Tokenizer.next t).buf.size - (Tokenizer.next t).rawE + 1 ≤ t.buf.size - t.rawE := by
        rw [hb] at hle ⊢; omega
      rw [toksXGo_fuel n _ i1 h1, toksXGo_fuel _ _ i1 h2]

/-- unfolding `toksX` by one token -/
theorem toksX_unfold (t : Tokenizer) (inv : Tokenizer.Inv t) :
    toksX t = if (Tokenizer.next t).token == .error then ([], restL t, t.rawTag)
      else (tokXOf t.rawTag (Tokenizer.next t) :: (toksX (Tokenizer.next t)).1, (toksX (Tokenizer.next t)).2) := by
  have i1 := next_inv' t inv
  have hb := next_buf' t inv
  have hle := i1.ok.le
  unfold toksX
  have e : t.buf.size - t.rawE + 1 = (t.buf.size - t.rawE) + 1 := rfl
  rw [e]
  simp only [toksXGo]
  by_cases he : ((Tokenizer.next t).token == TokenType.error) = true
  · simp only [he, if_true, next_held t inv]
  · simp only [he, if_false]
    have hne : (Tokenizer.next t).token ≠ .error := by simpa using he
    have hgt := next_rawE_gt t inv hne
    have h2 : (Tokenizer.next t).buf.size - (Tokenizer.next t).rawE + 1 ≤ t.buf.size - t.rawE := by
      rw [hb] at hle ⊢; omega
    rw [toksXGo_fuel _ _ i1 h2]
    rfl

theorem loopInv_newFragment (d c : Bytes) (hv : V d) (hc : Ctx c) : LoopInv (Tokenizer.newFragment d.toArray c) := by
  obtain ⟨f1, f2, f3, f4, f5, f6, f7, f8⟩ := newFragment_fields d.toArray c
  have f9 := newFragment_of_ctx d.toArray hc
  refine ⟨⟨by rw [f2, f3]; exact Nat.le_refl _, ⟨by rw [f2]; exact Nat.zero_le _, f6, f7, f8⟩,
    by rw [f9]; exact RawCtx.tagOk hc⟩, ?_, ?_, ?_⟩
  · intro h; rw [f4] at h; cases h
  · rw [f1]; simpa using hv
  · unfold Vp; rw [f2]; simp only [List.take_zero]; exact V_nil

/-- **on complete valid input in an accepted context the stream loop takes none of its failure exits** -/
theorem htmlStream?_eq_toksX (c d : Bytes) (hc : Ctx c) (hv : V d) :
    htmlStream? c d = some (toksX (Tokenizer.newFragment d.toArray c)) := by
  unfold htmlStream?
  have hl := loopInv_newFragment d c hv hc
  obtain ⟨f1, f2, _⟩ := newFragment_fields d.toArray c
  have hf : (Tokenizer.newFragment d.toArray c).buf.size - (Tokenizer.newFragment d.toArray c).rawE + 1 ≤ d.length + 2 := by
    rw [f1, f2]; simp
  rw [tokenizeGoX_eq _ _ [] hl hf, toksXGo_fuel _ _ hl.inv hf]
  simp

theorem htmlStream?_isSome_of_valid (c d : Bytes) (hc : Ctx c) (hv : V d) : (htmlStream? c d).isSome = true := by
  rw [htmlStream?_eq_toksX c d hc hv]; rfl

theorem htmlStream_eq_toksX (c d : Bytes) (hc : Ctx c) (hv : V d) :
    htmlTokenize.stream c d = toksX (Tokenizer.newFragment d.toArray c) := by
  show htmlStream c d = _
  unfold htmlStream; rw [htmlStream?_eq_toksX c d hc hv]; rfl

/-! ### an induction principle for the stream loop (no hypothesis on the bytes) -/

theorem tokenizeGoX_ind (P : TokX → Prop) (Q : Tokenizer → Prop)
    (step : ∀ t, Tokenizer.Inv t → Q t → (Tokenizer.next t).token ≠ .error → ∀ nm,
      P { tok := { kind := kindOf (Tokenizer.next t).token, raw := rawL (Tokenizer.next t), name := nm },
          cut := (Tokenizer.next t).err, ctx := t.rawTag })
    (qnext : ∀ t, Tokenizer.Inv t → Q t → Q (Tokenizer.next t))
    (qtag : ∀ t x, (tagName t).1 = .ok x → Q t → Q (tagName t).2) :
    ∀ (n : Nat) (t : Tokenizer) (acc : List TokX) (res : List TokX × Bytes × Bytes), Tokenizer.Inv t → Q t →
      tokenizeGoX n t acc = some res → (∀ x ∈ acc, P x) →
      (∀ x ∈ res.1, P x) ∧ ∃ t', Tokenizer.Inv t' ∧ Q t' ∧ res.2.2 = t'.rawTag
  | 0, _, _, _, _, _, h, _ => by simp [tokenizeGoX] at h
  | n + 1, t, acc, res, hi, hq, h, hacc => by
    have hi1 := next_inv' t hi
    have hq1 := qnext t hi hq
    rw [tokenizeGoX] at h
    try simp only at h
    split at h
    · simp at h
    · split at h
      · rw [raw_eq _ hi1, buffered_eq _ hi1] at h
        simp only at h
        injection h with h
        subst h
        exact ⟨fun x hx => hacc x (by simpa using hx), t, hi, hq, rfl⟩
      · rename_i hne
        have hne' : (Tokenizer.next t).token ≠ .error := by simpa using hne
        rw [raw_eq _ hi1] at h
        simp only at h
        have cons : ∀ (nm : Bytes) (x : TokX),
            x ∈ TokX.mk (Tok.mk (kindOf (Tokenizer.next t).token) (rawL (Tokenizer.next t)) nm) (Tokenizer.next t).err t.rawTag :: acc →
            P x := by
          intro nm x hx
          simp only [List.mem_cons] at hx
          rcases hx with rfl | hx
          · exact step t hi hq hne' nm
          · exact hacc x hx
        split at h
        · split at h
          · rename_i nm b t2 htn
            have hfr := tagName_frame3 (Tokenizer.next t) (some nm, b) (by rw [htn]) hi1
            have hqt := qtag (Tokenizer.next t) (some nm, b) (by rw [htn]) hq1
            rw [htn] at hfr hqt
            exact tokenizeGoX_ind P Q step qnext qtag n t2 _ res hfr.1 hqt h (cons nm)
          · rename_i b t2 htn
            have hfr := tagName_frame3 (Tokenizer.next t) (none, b) (by rw [htn]) hi1
            have hqt := qtag (Tokenizer.next t) (none, b) (by rw [htn]) hq1
            rw [htn] at hfr hqt
            exact tokenizeGoX_ind P Q step qnext qtag n t2 _ res hfr.1 hqt h (cons [])
          · simp at h
        · exact tokenizeGoX_ind P Q step qnext qtag n _ _ res hi1 hq1 h (cons [])

theorem newFragment_inv8 (d c : Bytes) : Tokenizer.Inv (Tokenizer.newFragment d.toArray c) := by
  obtain ⟨f1, f2, f3, f4, f5, f6, f7, f8⟩ := newFragment_fields d.toArray c
  exact ⟨by rw [f2, f3]; exact Nat.le_refl _, ⟨by rw [f2]; exact Nat.zero_le _, f6, f7, f8⟩,
    RawCtx.tagOk (newFragment_rawCtx d.toArray c)⟩

/-- what the stream tokenizer returns comes from the loop, or is the "nothing tokenised" default -/
theorem stream_cases (c d : Bytes) :
    (htmlStream? c d = none ∧ htmlTokenize.stream c d = ([], d, c)) ∨
    (∃ res, tokenizeGoX (d.length + 2) (Tokenizer.newFragment d.toArray c) [] = some res ∧ htmlTokenize.stream c d = res) := by
  show (_ ∧ htmlStream c d = _) ∨ (∃ res, _ ∧ htmlStream c d = res)
  unfold htmlStream
  cases h : htmlStream? c d with
  | none => exact Or.inl ⟨rfl, rfl⟩
  | some res => exact Or.inr ⟨res, by unfold htmlStream? at h; exact h, rfl⟩

/-! ### (A) token boundaries are character boundaries -/

theorem htmlTokenize_tokValidS : TokValidS htmlTokenize := by
  intro c d hc hv x hx
  rcases stream_cases c d with ⟨_, h⟩ | ⟨res, h1, h2⟩
  · rw [h] at hx; cases hx
  · rw [h2] at hx
    have := tokenizeGoX_ind (fun x => V x.tok.raw) LoopInv
      (fun t _ hq _ _ => hq.raw_valid) (fun t _ hq => hq.next) (fun t x hx hq => hq.tagName x hx)
      _ _ [] res (newFragment_inv8 d c) (loopInv_newFragment d c hv hc) h1 (by simp)
    exact this.1 x hx

/-! ### (B) tag tokens are `<`…`>` spans -/

theorem isTagKindX_kindOf (k : TokenType) (h : isTagKindX (kindOf k) = true) : isTagLike k = true := by
  cases k <;> simp [kindOf, isTagKindX, isTagLike] at h ⊢

theorem next_isSpanX (t : Tokenizer) (inv : Tokenizer.Inv t) (hk : isTagKindX (kindOf (Tokenizer.next t).token) = true) :
    IsSpan (rawL (Tokenizer.next t)) := by
  have hl := isTagKindX_kindOf _ hk
  have hne : (Tokenizer.next t).token ≠ .error := by
    intro he; rw [he] at hl; simp [isTagLike] at hl
  exact rawL_isSpan _ (next_inv' t inv) (next_tag t inv hl) ((next_post t inv).progress hne)

theorem htmlTokenize_tagSpanS : TagSpanS htmlTokenize := by
  intro c d x hx hk
  rcases stream_cases c d with ⟨_, h⟩ | ⟨res, h1, h2⟩
  · rw [h] at hx; cases hx
  · rw [h2] at hx
    have := tokenizeGoX_ind (fun x => isTagKindX x.tok.kind = true → IsSpan x.tok.raw) (fun _ => True)
      (fun t hi _ _ _ hk => next_isSpanX t hi hk) (fun _ _ _ => trivial) (fun _ _ _ _ => trivial)
      _ _ [] res (newFragment_inv8 d c) trivial h1 (by simp)
    exact this.1 x hx hk

/-! ### (C) the reported contexts are accepted contexts -/

theorem htmlTokenize_ctxClosed : CtxClosed htmlTokenize := by
  intro c d hc
  rcases stream_cases c d with ⟨_, h⟩ | ⟨res, h1, h2⟩
  · rw [h]; exact ⟨fun x hx => (by cases hx), hc⟩
  · rw [h2]
    have := tokenizeGoX_ind (fun x => Ctx x.ctx) (fun t => RawCtx t.rawTag)
      (fun t _ hq _ _ => hq) (fun t hi hq => next_rawCtx t hi hq)
      (fun t x hx hq => by rw [tagName_rawTag t x hx]; exact hq)
      _ _ [] res (newFragment_inv8 d c) (newFragment_rawCtx d.toArray c) h1 (by simp)
    obtain ⟨t', _, hq', he⟩ := this.2
    exact ⟨this.1, by rw [he]; exact hq'⟩

end Rio.Filter
