/-
Print / parse round trips of the concrete atoms of Model/JsonAtoms.lean:
`parseIpv4 (showIpv4 x) = some x`, `parseIpv6 (showIpv6 x) = some x`, `parseIp (showIp x) = some x`,
`d.Valid → parseDt (showDt d) = some d`.
-/
import RioModel.Model.JsonAction
import RioModel.Proofs.JsonText
set_option linter.unusedSimpArgs false
set_option linter.unusedVariables false

namespace Rio.Json

/-! ### splitting and joining -/

theorem splitOn_ne_nil (sep : Char) (cs : List Char) : splitOn sep cs ≠ [] := by
  induction cs with
  | nil => simp [splitOn]
  | cons c t ih =>
    unfold splitOn
    split
    · simp
    · cases h : splitOn sep t with
      | nil => simp
      | cons f fs => simp

theorem splitOn_of_not_mem (sep : Char) (f : List Char) (h : sep ∉ f) : splitOn sep f = [f] := by
  induction f with
  | nil => rfl
  | cons c t ih =>
    have hc : c ≠ sep := fun e => h (by simp [e])
    have ht : sep ∉ t := fun e => h (by simp [e])
    simp [splitOn, hc, ih ht]

theorem splitOn_append (sep : Char) (f rest : List Char) (h : sep ∉ f) :
    splitOn sep (f ++ sep :: rest) = f :: splitOn sep rest := by
  induction f with
  | nil => simp [splitOn]
  | cons c t ih =>
    have hc : c ≠ sep := fun e => h (by simp [e])
    have ht : sep ∉ t := fun e => h (by simp [e])
    simp [splitOn, hc, ih ht]

theorem splitOn_joinWith (sep : Char) (fs : List (List Char)) (hne : fs ≠ [])
    (h : ∀ f ∈ fs, sep ∉ f) : splitOn sep (joinWith sep fs) = fs := by
  match fs, hne with
  | [f], _ => simpa [joinWith] using splitOn_of_not_mem sep f (h f (by simp))
  | f :: g :: rest, _ =>
    have ih := splitOn_joinWith sep (g :: rest) (by simp) (fun x hx => h x (by simp [hx]))
    simp only [joinWith]
    rw [splitOn_append sep f _ (h f (by simp)), ih]

theorem mem_joinWith (sep : Char) (fs : List (List Char)) (c : Char) (hc : c ∈ joinWith sep fs) :
    c = sep ∨ ∃ f ∈ fs, c ∈ f := by
  match fs with
  | [] => simp [joinWith] at hc
  | [f] => right; exact ⟨f, by simp, by simpa [joinWith] using hc⟩
  | f :: g :: rest =>
    simp only [joinWith, List.mem_append, List.mem_cons] at hc
    rcases hc with h | h | h
    · right; exact ⟨f, by simp, h⟩
    · left; exact h
    · rcases mem_joinWith sep (g :: rest) c h with h' | ⟨x, hx, hcx⟩
      · left; exact h'
      · right; exact ⟨x, by simp [hx], hcx⟩

theorem sep_mem_joinWith (sep : Char) (f g : List Char) (rest : List (List Char)) :
    sep ∈ joinWith sep (f :: g :: rest) := by
  simp [joinWith]

theorem stripPrefix_append (p rest : List Char) : stripPrefix p (p ++ rest) = some rest := by
  induction p with
  | nil => simp [stripPrefix]
  | cons c t ih => simp [stripPrefix, ih]

/-! ### decimal fields -/

theorem isDigit_ne (c : Char) (h : isDigit c = true) : c ≠ '.' ∧ c ≠ ':' ∧ c ≠ '+' ∧ c ≠ '-' ∧ c ≠ 'Z' := by
  refine ⟨?_, ?_, ?_, ?_, ?_⟩ <;> (intro h'; subst h'; revert h; decide)

theorem natDigits_length_le (w : Nat) : ∀ n, n < 10 ^ w → 1 ≤ w → (natDigits n).length ≤ w := by
  induction w with
  | zero => intro n _ h; omega
  | succ w ih =>
    intro n hn _
    rw [natDigits.eq_def]
    split
    · simp
    · rename_i h10
      have hw : 1 ≤ w := by
        rcases w with _ | w
        · simp at hn; omega
        · omega
      have : n / 10 < 10 ^ w := by
        rw [Nat.pow_succ] at hn
        omega
      have := ih (n / 10) this hw
      simp only [List.length_append, List.length_cons, List.length_nil]
      omega

theorem digitsToNat_replicate_zero (k : Nat) (ds : List Char) :
    digitsToNat (List.replicate k '0' ++ ds) = digitsToNat ds := by
  unfold digitsToNat
  rw [List.foldl_append]
  congr 1
  induction k with
  | zero => rfl
  | succ k ih =>
    simp only [List.replicate_succ, List.foldl_cons]
    have : digitVal '0' = 0 := by decide
    simpa [this] using ih

theorem padDec_digits (w n : Nat) : ∀ c ∈ padDec w n, isDigit c = true := by
  intro c hc
  simp only [padDec, List.mem_append, List.mem_replicate] at hc
  rcases hc with ⟨_, rfl⟩ | h
  · decide
  · exact natDigits_all_digits n c h

theorem padDec_value (w n : Nat) : digitsToNat (padDec w n) = n := by
  simp [padDec, digitsToNat_replicate_zero, digitsToNat_natDigits]

theorem padDec_length (w n : Nat) (hn : n < 10 ^ w) (hw : 1 ≤ w) : (padDec w n).length = w := by
  have := natDigits_length_le w n hn hw
  simp only [padDec, List.length_append, List.length_replicate]
  omega

theorem padDec_length_ge (w n : Nat) : w ≤ (padDec w n).length := by
  simp only [padDec, List.length_append, List.length_replicate]
  omega

theorem padDec_ne_nil (w n : Nat) : padDec w n ≠ [] := by
  obtain ⟨c, ds, heq, _⟩ := natDigits_head n
  simp [padDec, heq]

theorem padDec_two (n : Nat) (h : n < 100) : padDec 2 n = [digitChar (n / 10), digitChar (n % 10)] := by
  unfold padDec
  rw [natDigits.eq_def]
  split
  · rename_i h10
    have h0 : n / 10 = 0 := by omega
    have h1 : n % 10 = n := by omega
    simp [h0, h1, digitChar]
  · rename_i h10
    rw [natDigits.eq_def]
    have : n / 10 < 10 := by omega
    simp [this]

theorem parseDec_of_digits (ds : List Char) (hne : ds ≠ []) (hall : ∀ c ∈ ds, isDigit c = true) :
    parseDec ds = some (digitsToNat ds) := by
  unfold parseDec
  have h1 : ds.isEmpty = false := by cases ds <;> simp_all
  have h2 : ds.all isDigit = true := by rw [List.all_eq_true]; exact hall
  simp [h1, h2]

theorem parseDec_padDec (w n : Nat) : parseDec (padDec w n) = some n := by
  rw [parseDec_of_digits _ (padDec_ne_nil w n) (padDec_digits w n), padDec_value]

theorem takeDigits_padDec (w n : Nat) (rest : List Char)
    (hr : ∀ c r, rest = c :: r → isDigit c = false) :
    takeDigits (padDec w n ++ rest) = (padDec w n, rest) :=
  takeDigits_append _ _ (padDec_digits w n) hr


/-! ### IPv4 -/

theorem natDigits_no (n : Nat) (c : Char) (hc : c = '.' ∨ c = ':') : c ∉ natDigits n := by
  intro hm
  have hd := natDigits_all_digits n c hm
  have := isDigit_ne c hd
  rcases hc with h | h
  · exact this.1 h
  · exact this.2.1 h

theorem parseOctet_natDigits (o : UInt8) : parseOctet (natDigits o.toNat) = some o := by
  have hlt : o.toNat < 256 := UInt8.toNat_lt o
  obtain ⟨c, ds, heq, hd, hz, hnz⟩ := natDigits_head o.toNat
  have hlen := natDigits_length_le 3 o.toNat (by omega) (by omega)
  have hall : (natDigits o.toNat).all isDigit = true := by
    rw [List.all_eq_true]; exact natDigits_all_digits o.toNat
  have hval := digitsToNat_natDigits o.toNat
  have hlead : c ≠ '0' ∨ ds = [] := by
    by_cases h0 : o.toNat = 0
    · exact Or.inr (hz h0).2
    · exact Or.inl (hnz h0)
  rw [heq] at hlen hall hval ⊢
  unfold parseOctet
  have hv : digitsToNat (c :: ds) ≤ 255 := by omega
  have hv' : o.toNat ≤ 255 := by omega
  simp only [hlen, hall, hlead, hv, and_self, if_true, hval, UInt8.ofNat_toNat, hv']

theorem parseIpv4_showIpv4 (x : Ipv4) : parseIpv4 (showIpv4 x) = some x := by
  unfold parseIpv4 showIpv4
  rw [splitOn_joinWith '.' _ (by simp) (by
    intro f hf
    simp only [List.mem_cons, List.mem_nil_iff, or_false] at hf
    rcases hf with rfl | rfl | rfl | rfl <;> exact natDigits_no _ '.' (Or.inl rfl))]
  simp [parseOctet_natDigits]

theorem showIpv4_no_colon (x : Ipv4) : ':' ∉ showIpv4 x := by
  intro hm
  rcases mem_joinWith '.' _ ':' hm with h | ⟨f, hf, hcf⟩
  · revert h; decide
  · simp only [List.mem_cons, List.mem_nil_iff, or_false] at hf
    rcases hf with rfl | rfl | rfl | rfl <;> exact natDigits_no _ ':' (Or.inr rfl) hcf

theorem showIpv4_has_dot (x : Ipv4) : '.' ∈ showIpv4 x := by
  unfold showIpv4; exact sep_mem_joinWith '.' _ _ _

/-! ### DateTime -/

theorem parseYear_showYear (y : Int) (rest : List Char) :
    parseYear (showYear y ++ '-' :: rest) = some (y, rest) := by
  have htd : ∀ n, takeDigits (padDec 4 n ++ '-' :: rest) = (padDec 4 n, '-' :: rest) := fun n =>
    takeDigits_padDec 4 n _ (by intro c r h; cases h; decide)
  unfold showYear
  by_cases h1 : 0 ≤ y ∧ y ≤ 9999
  · simp only [h1, and_self, if_true]
    cases hp : padDec 4 y.toNat with
    | nil => exact absurd hp (padDec_ne_nil _ _)
    | cons c t =>
      have hc : isDigit c = true := padDec_digits 4 y.toNat c (by rw [hp]; simp)
      have hne := isDigit_ne c hc
      unfold parseYear
      simp only [List.cons_append, hne.2.2.1, hne.2.2.2.1, or_self, if_false, decide_false]
      rw [← List.cons_append, ← hp, htd, parseDec_padDec]
      simp only [Bool.false_eq_true, if_false]
      congr 2
      omega
  · simp only [h1, if_false]
    by_cases h2 : 0 ≤ y
    · simp only [h2, if_true]
      unfold parseYear
      simp only [List.cons_append, true_or, if_true]
      rw [htd, parseDec_padDec]
      have : ('+' = '-') = False := by decide
      simp only [this, decide_false, Bool.false_eq_true, if_false]
      congr 2
      omega
    · simp only [h2, if_false]
      unfold parseYear
      simp only [List.cons_append, or_true, if_true]
      rw [htd, parseDec_padDec]
      simp only [decide_true, if_true]
      congr 2
      omega

theorem parse2_padDec (sep : Char) (n : Nat) (h : n < 100) (rest : List Char) :
    parse2 sep (padDec 2 n ++ sep :: rest) = some (n, rest) := by
  rw [padDec_two n h]
  have h1 : n / 10 < 10 := by omega
  have h2 : n % 10 < 10 := Nat.mod_lt _ (by omega)
  simp only [parse2, List.cons_append, List.nil_append, isDigit_digitChar _ h1, isDigit_digitChar _ h2,
    and_self, if_true, digitVal_digitChar _ h1, digitVal_digitChar _ h2]
  congr 2
  omega

theorem parseFracNs_showFrac (nano : Nat) (h : nano < 1000000000) :
    parseFracNs (showFrac nano ++ ['Z']) = some (nano, ['Z']) := by
  have htd : ∀ w n, takeDigits (padDec w n ++ ['Z']) = (padDec w n, ['Z']) := fun w n =>
    takeDigits_padDec w n _ (by intro c r h; cases h; decide)
  unfold showFrac
  by_cases h0 : nano = 0
  · subst h0; simp [parseFracNs]
  · simp only [h0, if_false]
    by_cases h1 : nano % 1000000 = 0
    · simp only [h1, if_true, List.cons_append, parseFracNs]
      rw [htd, padDec_length 3 _ (by omega) (by omega), padDec_value]
      simp only [if_true]
      congr 2
      omega
    · simp only [h1, if_false]
      by_cases h2 : nano % 1000 = 0
      · simp only [h2, if_true, List.cons_append, parseFracNs]
        rw [htd, padDec_length 6 _ (by omega) (by omega), padDec_value]
        simp only [show (6 : Nat) = 3 ↔ False by decide, if_false, if_true]
        congr 2
        omega
      · simp only [h2, if_false, List.cons_append, parseFracNs]
        rw [htd, padDec_length 9 _ (by omega) (by omega), padDec_value]
        simp

/-- **chrono reads back what it wrote** (model): every representable UTC instant round-trips. -/
theorem parseDt_showDt (d : DateTime) (hv : d.Valid) : parseDt (showDt d) = some d := by
  have hvalid := hv
  obtain ⟨_, _, _, hmo, _, hda, hho, hmi, hse, hna⟩ := hv
  have hdm : daysInMonth d.year d.month ≤ 31 := by
    unfold daysInMonth; split <;> (try split) <;> omega
  have hsec := padDec_two d.sec (by omega)
  have h1 : d.sec / 10 < 10 := by omega
  have h2 : d.sec % 10 < 10 := Nat.mod_lt _ (by omega)
  have hshape : showDt d = showYear d.year ++ '-' :: (padDec 2 d.month ++ '-' :: (padDec 2 d.day ++ 'T' ::
      (padDec 2 d.hour ++ ':' :: (padDec 2 d.min ++ ':' :: (digitChar (d.sec / 10) :: digitChar (d.sec % 10) ::
        (showFrac d.nano ++ ['Z'])))))) := by
    simp [showDt, hsec]
  have hs : digitVal (digitChar (d.sec / 10)) * 10 + digitVal (digitChar (d.sec % 10)) = d.sec := by
    rw [digitVal_digitChar _ h1, digitVal_digitChar _ h2]; omega
  unfold parseDt
  conv => lhs; rw [hshape]
  rw [parseYear_showYear]
  simp only
  rw [parse2_padDec '-' d.month (by omega)]
  simp only
  rw [parse2_padDec 'T' d.day (by omega)]
  simp only
  rw [parse2_padDec ':' d.hour (by omega)]
  simp only
  rw [parse2_padDec ':' d.min (by omega)]
  simp only [isDigit_digitChar _ h1, isDigit_digitChar _ h2, and_self, if_true,
    parseFracNs_showFrac d.nano hna, hs]
  have hd : (⟨d.year, d.month, d.day, d.hour, d.min, d.sec, d.nano⟩ : DateTime) = d := rfl
  rw [hd]
  simp [hvalid, hshape]

/-- whatever the concrete reader accepts is a representable instant in canonical spelling -/
theorem parseDt_valid (cs : List Char) (d : DateTime) (h : parseDt cs = some d) :
    d.Valid ∧ showDt d = cs := by
  unfold parseDt at h
  cases h0 : parseYear cs with
  | none => simp [h0] at h
  | some p0 =>
    obtain ⟨y, r1⟩ := p0
    simp only [h0] at h
    cases h1 : parse2 '-' r1 with
    | none => simp [h1] at h
    | some p1 =>
      obtain ⟨mo, r2⟩ := p1
      simp only [h1] at h
      cases h2 : parse2 'T' r2 with
      | none => simp [h2] at h
      | some p2 =>
        obtain ⟨da, r3⟩ := p2
        simp only [h2] at h
        cases h3 : parse2 ':' r3 with
        | none => simp [h3] at h
        | some p3 =>
          obtain ⟨ho, r4⟩ := p3
          simp only [h3] at h
          cases h4 : parse2 ':' r4 with
          | none => simp [h4] at h
          | some p4 =>
            obtain ⟨mi, r5⟩ := p4
            simp only [h4] at h
            rcases r5 with _ | ⟨a, _ | ⟨b, r6⟩⟩
            · simp at h
            · simp at h
            · simp only at h
              split at h
              · split at h
                · split at h
                  · rename_i hcond
                    simp only [Option.some.injEq] at h
                    subst h
                    exact hcond
                  · exact absurd h (by simp)
                · exact absurd h (by simp)
              · exact absurd h (by simp)


/-! ### IPv6: hex groups -/

theorem lowerHexVal_digit (d : Nat) (h : d < 16) : lowerHexVal (lowerHexDigit d) = some d := by
  have : ∀ d, d < 16 → lowerHexVal (lowerHexDigit d) = some d := by decide
  exact this d h

theorem lowerHexDigit_ne (d : Nat) (h : d < 16) : lowerHexDigit d ≠ ':' ∧ lowerHexDigit d ≠ '.' := by
  have : ∀ d, d < 16 → lowerHexDigit d ≠ ':' ∧ lowerHexDigit d ≠ '.' := by decide
  exact this d h

theorem hexDigitsN_ne_nil (n : Nat) : hexDigitsN n ≠ [] := by
  rw [hexDigitsN.eq_def]; split <;> simp

theorem hexDigitsN_chars (n : Nat) : ∀ c ∈ hexDigitsN n, c ≠ ':' ∧ c ≠ '.' := by
  induction n using Nat.strongRecOn with
  | _ n ih =>
    rw [hexDigitsN.eq_def]
    split
    · intro c hc
      simp at hc; subst hc
      exact lowerHexDigit_ne n (by omega)
    · intro c hc
      simp at hc
      rcases hc with hc | hc
      · exact ih (n / 16) (by omega) c hc
      · subst hc; exact lowerHexDigit_ne _ (Nat.mod_lt _ (by omega))

theorem hexDigitsN_length_le (w : Nat) : ∀ n, n < 16 ^ w → 1 ≤ w → (hexDigitsN n).length ≤ w := by
  induction w with
  | zero => intro n _ h; omega
  | succ w ih =>
    intro n hn _
    rw [hexDigitsN.eq_def]
    split
    · simp
    · rename_i h16
      have hw : 1 ≤ w := by
        rcases w with _ | w
        · simp at hn; omega
        · omega
      have : n / 16 < 16 ^ w := by
        rw [Nat.pow_succ] at hn
        omega
      have := ih (n / 16) this hw
      simp only [List.length_append, List.length_cons, List.length_nil]
      omega

def hexStep (acc : Option Nat) (c : Char) : Option Nat :=
  match acc, lowerHexVal c with
  | some a, some v => some (a * 16 + v)
  | _, _ => none

theorem hexFold_hexDigitsN (n : Nat) : (hexDigitsN n).foldl hexStep (some 0) = some n := by
  induction n using Nat.strongRecOn with
  | _ n ih =>
    rw [hexDigitsN.eq_def]
    split
    · rename_i h
      simp [hexStep, lowerHexVal_digit n h]
    · rename_i h
      rw [List.foldl_append, ih (n / 16) (by omega)]
      simp only [List.foldl_cons, List.foldl_nil, hexStep, lowerHexVal_digit _ (Nat.mod_lt n (by omega : 0 < 16))]
      congr 1
      omega

theorem parseHexGroup_hexDigitsN (n : Nat) (h : n < 65536) : parseHexGroup (hexDigitsN n) = some n := by
  unfold parseHexGroup
  have hne := hexDigitsN_ne_nil n
  have hlen := hexDigitsN_length_le 4 n (by omega) (by omega)
  have h1 : (hexDigitsN n).isEmpty = false := by cases hh : hexDigitsN n <;> simp_all
  have h2 : ¬ (hexDigitsN n).length > 4 := by omega
  simp only [h1, Bool.false_eq_true, h2, or_self, if_false]
  exact hexFold_hexDigitsN n

theorem parseGroups_hexFields (segs : List UInt16) : parseGroups (hexFields segs) = some segs := by
  induction segs with
  | nil => rfl
  | cons s t ih =>
    have hs : s.toNat < 65536 := UInt16.toNat_lt s
    have : parseGroups (hexFields (s :: t)) =
        (match parseHexGroup (hexDigitsN s.toNat), parseGroups (hexFields t) with
         | some n, some l => some (UInt16.ofNat n :: l)
         | _, _ => none) := rfl
    rw [this, parseHexGroup_hexDigitsN _ hs, ih]
    simp

theorem hexFields_nonempty (segs : List UInt16) : ∀ f ∈ hexFields segs, f ≠ [] := by
  intro f hf
  simp only [hexFields, List.mem_map] at hf
  obtain ⟨s, _, rfl⟩ := hf
  exact hexDigitsN_ne_nil _

theorem hexFields_chars (segs : List UInt16) : ∀ f ∈ hexFields segs, ∀ c ∈ f, c ≠ ':' ∧ c ≠ '.' := by
  intro f hf
  simp only [hexFields, List.mem_map] at hf
  obtain ⟨s, _, rfl⟩ := hf
  exact hexDigitsN_chars _

/-! ### IPv6: the zero span -/

/-- the segments `start .. start + len` exist and are zero -/
def ZeroRange (full : List UInt16) (start len : Nat) : Prop :=
  start + len ≤ full.length ∧ ∀ k, start ≤ k → k < start + len → full[k]? = some 0

theorem zeroSpanLoop_range (segs : List UInt16) : ∀ (done : List UInt16) (longest current : Span),
    longest.start + longest.len ≤ done.length →
    (∀ k, longest.start ≤ k → k < longest.start + longest.len → (done ++ segs)[k]? = some 0) →
    (current.len = 0 ∨ current.start + current.len = done.length) →
    (∀ k, current.start ≤ k → k < current.start + current.len → (done ++ segs)[k]? = some 0) →
    ZeroRange (done ++ segs) (zeroSpanLoop segs done.length longest current).start
      (zeroSpanLoop segs done.length longest current).len := by
  induction segs with
  | nil =>
    intro done longest current h1 h2 _ _
    simp only [zeroSpanLoop, List.append_nil] at *
    exact ⟨h1, h2⟩
  | cons s rest ih =>
    intro done longest current h1 h2 h3 h4
    have hfull : done ++ s :: rest = (done ++ [s]) ++ rest := by simp
    have hlen : (done ++ [s]).length = done.length + 1 := by simp
    have hget : (done ++ s :: rest)[done.length]? = some s := by
      rw [List.getElem?_append_right (Nat.le_refl _)]; simp
    by_cases hs : s = 0
    · subst hs
      -- the start of the current run after this zero
      obtain ⟨cs, hcs, hsum, hzero⟩ : ∃ cs, cs = (if current.len = 0 then done.length else current.start) ∧
          cs + current.len = done.length ∧
          (∀ k, cs ≤ k → k < cs + current.len → (done ++ 0 :: rest)[k]? = some 0) := by
        by_cases hl : current.len = 0
        · exact ⟨done.length, by simp [hl], by omega, by intro k h1 h2; omega⟩
        · rcases h3 with h3 | h3
          · exact absurd h3 hl
          · exact ⟨current.start, by simp [hl], h3, h4⟩
      have hstep : zeroSpanLoop (0 :: rest) done.length longest current =
          zeroSpanLoop rest (done.length + 1)
            (if current.len + 1 > longest.len then ⟨cs, current.len + 1⟩ else longest)
            ⟨cs, current.len + 1⟩ := by
        rw [hcs]; simp [zeroSpanLoop]
      rw [hstep, hfull, ← hlen]
      have hcur : ∀ k, cs ≤ k → k < cs + (current.len + 1) → ((done ++ [0]) ++ rest)[k]? = some 0 := by
        intro k hk1 hk2
        rw [← hfull]
        by_cases hk : k = done.length
        · subst hk; exact hget
        · exact hzero k hk1 (by omega)
      apply ih
      · by_cases hgt : current.len + 1 > longest.len
        · simp only [hgt, if_true, hlen]; omega
        · simp only [hgt, if_false, hlen]; omega
      · intro k hk1 hk2
        by_cases hgt : current.len + 1 > longest.len
        · simp only [hgt, if_true] at hk1 hk2
          exact hcur k hk1 hk2
        · simp only [hgt, if_false] at hk1 hk2
          rw [← hfull]; exact h2 k hk1 hk2
      · right; simp only [hlen]; omega
      · exact hcur
    · have hstep : zeroSpanLoop (s :: rest) done.length longest current =
          zeroSpanLoop rest (done.length + 1) longest ⟨0, 0⟩ := by
        simp [zeroSpanLoop, hs]
      rw [hstep, hfull, ← hlen]
      apply ih
      · simp only [hlen]; omega
      · intro k hk1 hk2; rw [← hfull]; exact h2 k hk1 hk2
      · left; rfl
      · intro k hk1 hk2; simp at hk2

theorem zeroSpan_range (segs : List UInt16) : ZeroRange segs (zeroSpan segs).start (zeroSpan segs).len := by
  have := zeroSpanLoop_range segs [] ⟨0, 0⟩ ⟨0, 0⟩ (by simp) (by intro k _ h; simp at h) (Or.inl rfl)
    (by intro k _ h; simp at h)
  simpa [zeroSpan] using this

/-- a list with a zero range is its prefix, the zeros, its suffix -/
theorem split_zeroRange (full : List UInt16) (start len : Nat) (h : ZeroRange full start len) :
    full = full.take start ++ List.replicate len 0 ++ full.drop (start + len) := by
  obtain ⟨hb, hz⟩ := h
  have hmid : (full.drop start).take len = List.replicate len 0 := by
    rw [List.eq_replicate_iff]
    refine ⟨by simp; omega, ?_⟩
    intro b hb'
    obtain ⟨k, hk⟩ := List.mem_iff_getElem?.mp hb'
    rw [List.getElem?_take] at hk
    split at hk
    · rename_i hkl
      rw [List.getElem?_drop] at hk
      have := hz (start + k) (by omega) (by omega)
      rw [this] at hk
      exact (Option.some.inj hk).symm
    · cases hk
  conv => lhs; rw [← List.take_append_drop start full]
  rw [List.append_assoc]
  congr 1
  conv => lhs; rw [← List.take_append_drop len (full.drop start)]
  rw [hmid, List.drop_drop]


/-! ### IPv6: fields -/

theorem takeWhile_all {α : Type} (p : α → Bool) (l : List α) (h : ∀ x ∈ l, p x = true) :
    l.takeWhile p = l ∧ l.dropWhile p = [] := by
  induction l with
  | nil => simp
  | cons a t ih =>
    have ha := h a (by simp)
    have := ih (fun x hx => h x (by simp [hx]))
    simp [List.takeWhile, List.dropWhile, ha, this.1, this.2]

theorem takeWhile_append_stop {α : Type} (p : α → Bool) (l : List α) (x : α) (r : List α)
    (h : ∀ y ∈ l, p y = true) (hx : p x = false) :
    (l ++ x :: r).takeWhile p = l ∧ (l ++ x :: r).dropWhile p = x :: r := by
  induction l with
  | nil => simp [List.takeWhile, List.dropWhile, hx]
  | cons a t ih =>
    have ha := h a (by simp)
    have := ih (fun y hy => h y (by simp [hy]))
    simp [List.takeWhile, List.dropWhile, ha, this.1, this.2]

theorem hexFields_eq_nil (l : List UInt16) : hexFields l = [] ↔ l = [] := by
  simp [hexFields]

theorem hexFields_ne_marker (l : List UInt16) (h : l ≠ []) : hexFields l ≠ [[]] := by
  cases l with
  | nil => exact absurd rfl h
  | cons s t =>
    intro heq
    simp only [hexFields, List.map_cons, List.cons.injEq] at heq
    exact hexDigitsN_ne_nil _ heq.1

theorem nonEmptyP_hexFields (l : List UInt16) : ∀ f ∈ hexFields l, (!f.isEmpty) = true := by
  intro f hf
  have := hexFields_nonempty l f hf
  cases f <;> simp_all

/-- decoding the fields of a printed address gives the segments back -/
theorem decodeFields_ipv6Fields (segs : List UInt16) (h8 : segs.length = 8) :
    decodeFields (ipv6Fields segs) = some segs := by
  have hz := zeroSpan_range segs
  unfold ipv6Fields
  by_cases hlen : (zeroSpan segs).len > 1
  · simp only [hlen, if_true]
    obtain ⟨hb, _⟩ := hz
    -- the three parts
    have hsplit := split_zeroRange segs _ _ (zeroSpan_range segs)
    have hpl : (segs.take (zeroSpan segs).start).length = (zeroSpan segs).start := by
      simp; omega
    have hql : (segs.drop ((zeroSpan segs).start + (zeroSpan segs).len)).length =
        8 - ((zeroSpan segs).start + (zeroSpan segs).len) := by simp [h8]
    generalize hP : segs.take (zeroSpan segs).start = P at hsplit hpl
    generalize hQ : segs.drop ((zeroSpan segs).start + (zeroSpan segs).len) = Q at hsplit hql
    have hcount : 8 - P.length - Q.length = (zeroSpan segs).len := by omega
    have hle : P.length + Q.length ≤ 6 := by omega
    -- the trailing part of the field list and what the decoder makes of it
    have hpost : ∀ (B : List (List Char)), B = (if (hexFields Q).isEmpty then [[]] else hexFields Q) →
        parseGroups (if B = [[]] then [] else B) = some Q := by
      intro B hB
      by_cases hq : Q = []
      · subst hq; simp [hB, hexFields, parseGroups]
      · have hne : (hexFields Q).isEmpty = false := by
          cases hh : hexFields Q with
          | nil => exact absurd ((hexFields_eq_nil Q).mp hh) hq
          | cons _ _ => rfl
        have : B = hexFields Q := by simp [hB, hne]
        rw [this, if_neg (hexFields_ne_marker Q hq)]
        exact parseGroups_hexFields Q
    have hfinal : P ++ List.replicate (8 - P.length - Q.length) 0 ++ Q = segs := by
      rw [hcount]; exact hsplit.symm
    by_cases hp : P = []
    · subst hp
      have hnil : hexFields ([] : List UInt16) = [] := rfl
      have hpg : parseGroups [] = some [] := rfl
      simp only [hnil, List.isEmpty_nil, if_true, List.cons_append, List.nil_append]
      generalize hB : (if (hexFields Q).isEmpty then [[]] else hexFields Q) = B
      have hq := hpost B hB.symm
      have hdec : decodeFields ([] :: [] :: B) =
          (match parseGroups [], parseGroups (if B = [[]] then [] else B) with
           | some p, some q =>
             if p.length + q.length ≤ 6 then some (p ++ List.replicate (8 - p.length - q.length) 0 ++ q)
             else none
           | _, _ => none) := by
        simp [decodeFields, List.takeWhile, List.dropWhile]
        rfl
      rw [hdec, hpg, hq]
      simp only [List.length_nil, Nat.zero_add, List.nil_append] at hle hfinal ⊢
      simp [hle, hfinal]
    · have hne : (hexFields P).isEmpty = false := by
        cases hh : hexFields P with
        | nil => exact absurd ((hexFields_eq_nil P).mp hh) hp
        | cons _ _ => rfl
      simp only [hne, Bool.false_eq_true, if_false, List.append_assoc, List.singleton_append]
      unfold decodeFields
      obtain ⟨ht, hd⟩ := takeWhile_append_stop (fun f : List Char => !f.isEmpty) (hexFields P) []
        (if (hexFields Q).isEmpty then [[]] else hexFields Q) (nonEmptyP_hexFields P) (by simp)
      simp only [ht, hd, hne, Bool.false_eq_true, if_false]
      rw [parseGroups_hexFields P, hpost _ rfl]
      simp [hle, hfinal]
  · simp only [hlen, if_false]
    unfold decodeFields
    obtain ⟨ht, hd⟩ := takeWhile_all (fun f : List Char => !f.isEmpty) (hexFields segs)
      (nonEmptyP_hexFields segs)
    simp only [ht, hd]
    exact parseGroups_hexFields segs

theorem ipv6Fields_props (segs : List UInt16) (h8 : segs.length = 8) :
    (ipv6Fields segs).length ≥ 2 ∧ ∀ f ∈ ipv6Fields segs, ∀ c ∈ f, c ≠ ':' ∧ c ≠ '.' := by
  unfold ipv6Fields
  by_cases hlen : (zeroSpan segs).len > 1
  · simp only [hlen, if_true]
    refine ⟨?_, ?_⟩
    · simp only [List.length_append, List.length_cons, List.length_nil]
      have : ∀ (l : List (List Char)), (if l.isEmpty then [[]] else l).length ≥ 1 := by
        intro l; cases l <;> simp
      have := this (hexFields (segs.take (zeroSpan segs).start))
      omega
    · intro f hf c hc
      simp only [List.mem_append, List.mem_cons, List.mem_nil_iff, or_false] at hf
      have hcase : ∀ (l : List UInt16), f ∈ (if (hexFields l).isEmpty then [[]] else hexFields l) →
          c ≠ ':' ∧ c ≠ '.' := by
        intro l hfl
        split at hfl
        · simp only [List.mem_cons, List.mem_nil_iff, or_false] at hfl; subst hfl; cases hc
        · exact hexFields_chars l f hfl c hc
      rcases hf with (hf | hf) | hf
      · exact hcase _ hf
      · subst hf; cases hc
      · exact hcase _ hf
  · simp only [hlen, if_false]
    exact ⟨by simp [hexFields, h8], fun f hf c hc => hexFields_chars segs f hf c hc⟩

theorem sep_mem_joinWith_of_length (sep : Char) (fs : List (List Char)) (h : fs.length ≥ 2) :
    sep ∈ joinWith sep fs := by
  match fs, h with
  | f :: g :: rest, _ => exact sep_mem_joinWith sep f g rest

theorem ipv4Mapped_some (segs : List UInt16) (v : Ipv4) (h : ipv4Mapped segs = some v) :
    ∃ g hh : UInt16, segs = [0, 0, 0, 0, 0, 0xffff, g, hh] ∧
      v = ⟨UInt8.ofNat (g.toNat / 256), UInt8.ofNat (g.toNat % 256),
           UInt8.ofNat (hh.toNat / 256), UInt8.ofNat (hh.toNat % 256)⟩ := by
  unfold ipv4Mapped at h
  split at h
  · rename_i g hh
    exact ⟨g, hh, rfl, (Option.some.inj h).symm⟩
  · cases h

theorem u16_of_bytes (g : UInt16) :
    UInt16.ofNat ((UInt8.ofNat (g.toNat / 256)).toNat * 256 + (UInt8.ofNat (g.toNat % 256)).toNat) = g := by
  have hg : g.toNat < 65536 := UInt16.toNat_lt g
  have h1 : (UInt8.ofNat (g.toNat / 256)).toNat = g.toNat / 256 := by
    rw [UInt8.toNat_ofNat']; omega
  have h2 : (UInt8.ofNat (g.toNat % 256)).toNat = g.toNat % 256 := by
    rw [UInt8.toNat_ofNat']; omega
  rw [h1, h2]
  have : g.toNat / 256 * 256 + g.toNat % 256 = g.toNat := by omega
  rw [this, UInt16.ofNat_toNat]

/-- **`Ipv6Addr::from_str` reads back what `Display` wrote** (model). -/
theorem parseIpv6_showIpv6 (x : Ipv6) : parseIpv6 (showIpv6 x) = some x := by
  obtain ⟨segs, h8⟩ := x
  unfold parseIpv6
  cases hm : ipv4Mapped segs with
  | some v =>
    obtain ⟨g, hh, hsegs, hv⟩ := ipv4Mapped_some segs v hm
    have hshow : showIpv6 ⟨segs, h8⟩ = mappedPrefix ++ showIpv4 v := by simp [showIpv6, hm]
    have hdot : (showIpv6 ⟨segs, h8⟩).contains '.' = true := by
      rw [hshow, List.contains_iff_mem]
      exact List.mem_append_right _ (showIpv4_has_dot v)
    simp only [hdot, if_true]
    have hcs : stripPrefix mappedPrefix (showIpv6 ⟨segs, h8⟩) = some (showIpv4 v) := by
      rw [hshow, stripPrefix_append]
    simp only [hcs, parseIpv4_showIpv4, Option.map_some]
    have hcand : [0, 0, 0, 0, 0, 0xffff, UInt16.ofNat (v.a.toNat * 256 + v.b.toNat),
        UInt16.ofNat (v.c.toNat * 256 + v.d.toNat)] = segs := by
      rw [hsegs, hv]
      simp only [u16_of_bytes]
    simp only [hcand, h8, dite_true, ← hshow, if_true]
  | none =>
    have hshow : showIpv6 ⟨segs, h8⟩ = joinWith ':' (ipv6Fields segs) := by simp [showIpv6, hm]
    obtain ⟨hl, hchars⟩ := ipv6Fields_props segs h8
    have hdot : (showIpv6 ⟨segs, h8⟩).contains '.' = false := by
      rw [hshow]
      rw [Bool.eq_false_iff]
      intro hc
      rw [List.contains_iff_mem] at hc
      rcases mem_joinWith ':' _ '.' hc with h | ⟨f, hf, hcf⟩
      · revert h; decide
      · exact (hchars f hf '.' hcf).2 rfl
    simp only [hdot, Bool.false_eq_true, if_false]
    rw [hshow, splitOn_joinWith ':' _ (by intro h; rw [h] at hl; simp at hl)
      (fun f hf hc => (hchars f hf ':' hc).1 rfl), decodeFields_ipv6Fields segs h8]
    simp only [h8, dite_true, ← hshow, if_true]

theorem showIpv6_has_colon (x : Ipv6) : ':' ∈ showIpv6 x := by
  obtain ⟨segs, h8⟩ := x
  cases hm : ipv4Mapped segs with
  | some v => simp [showIpv6, hm, mappedPrefix]
  | none =>
    have : showIpv6 ⟨segs, h8⟩ = joinWith ':' (ipv6Fields segs) := by simp [showIpv6, hm]
    rw [this]
    exact sep_mem_joinWith_of_length ':' _ (ipv6Fields_props segs h8).1

/-- **`IpAddr::from_str` reads back what `Display` wrote** (model), both families. -/
theorem parseIp_showIp (x : Ip) : parseIp (showIp x) = some x := by
  cases x with
  | v4 v =>
    have : (showIpv4 v).contains ':' = false := by
      rw [Bool.eq_false_iff]; intro hc
      rw [List.contains_iff_mem] at hc
      exact showIpv4_no_colon v hc
    simp [parseIp, showIp, showIpv4_no_colon v, parseIpv4_showIpv4]
  | v6 v =>
    have : (showIpv6 v).contains ':' = true := by
      rw [List.contains_iff_mem]; exact showIpv6_has_colon v
    simp [parseIp, showIp, showIpv6_has_colon v, parseIpv6_showIpv6]



/-! ### requests -/

theorem readIp_show (P : Codec) (x : Ip) : readIp P (String.ofList (showIp x)) = some x := by
  simp [readIp, String.toList_ofList, parseIp_showIp]

theorem readDt_show (P : Codec) (d : DateTime) (h : d.Valid) :
    readDt P (String.ofList (showDt d)) = some d := by
  simp [readDt, String.toList_ofList, parseDt_showDt d h]

/-- whatever `DateTime` is read – by the concrete reader or through the oracle – is representable -/
theorem readDt_valid (P : Codec) (s : String) (d : DateTime) (h : readDt P s = some d) : d.Valid := by
  unfold readDt at h
  split at h
  · rename_i d' hd
    cases h
    exact (parseDt_valid _ _ hd).1
  · simp only [Option.bind_eq_some_iff] at h
    obtain ⟨c, _, hc⟩ := h
    exact (parseDt_valid _ _ hc).1

theorem request_roundtrip (P : Codec) (q : Request) (h : q.WF) :
    deRequest P (serRequest q) = some q := by
  have h1 := pathAndQuery_roundtrip q.path_and_query_skipped
  have h2 : deVec deHeader (serVec serHeader q.headers) = some q.headers :=
    deVec_serVec _ _ _ (fun x _ => header_roundtrip x)
  have h3 : deOption (deAtom (readIp P)) (serOption (fun x => .str (String.ofList (showIp x))) q.remote_addr)
      = some q.remote_addr :=
    deOption_serOption _ _ (by intro a h; cases h) _ (fun ip _ => by simp [deAtom, readIp_show])
  have h4 : deOption (deAtom (readDt P)) (serOption (fun d => .str (String.ofList (showDt d))) q.created_at)
      = some q.created_at :=
    deOption_serOption _ _ (by intro a h; cases h) _
      (fun dt hdt => by simp [deAtom, readDt_show P dt (h dt hdt)])
  simp [deRequest, serRequest, reqField, optField, find, keyEq, h1, h2, h3, h4]

/-- every request obtained by deserialisation is well-formed, whatever the oracle answers -/
theorem deRequest_wf (P : Codec) (j : Json) (q : Request) (h : deRequest P j = some q) : q.WF := by
  have atomOpt : ∀ (v : Json) (o : Option DateTime), deOption (deAtom (readDt P)) v = some o →
      ∀ d, o = some d → d.Valid := by
    intro v o hv d hd
    subst hd
    cases v with
    | str s =>
      simp only [deOption, deAtom, Option.map_eq_some_iff] at hv
      obtain ⟨d', hd', hdd⟩ := hv
      cases hdd
      exact readDt_valid P s d hd'
    | null => simp [deOption] at hv
    | _ => simp [deOption, deAtom] at hv
  have atomField : ∀ (kvs : List (String × Json)) (k : String) (o : Option DateTime),
      optField (deAtom (readDt P)) kvs k = some o → ∀ d, o = some d → d.Valid := by
    intro kvs k o hv d hd
    unfold optField at hv
    split at hv
    · simp only [Option.some.injEq] at hv; subst hv; cases hd
    · exact atomOpt _ o hv d hd
    · exact absurd hv (by simp)
  unfold deRequest at h
  split at h
  · simp only [Option.bind_eq_bind, Option.bind_eq_some_iff, Option.pure_def, Option.some.injEq] at h
    obtain ⟨_, _, _, _, _, _, _, _, _, _, _, _, ra, hra, ca, hca, _, _, rfl⟩ := h
    exact atomField _ _ ca hca
  · simp only [Option.bind_eq_bind, Option.bind_eq_some_iff, Option.pure_def, Option.some.injEq] at h
    obtain ⟨_, _, _, _, _, _, _, _, _, _, _, _, ra, hra, ca, hca, _, _, rfl⟩ := h
    exact atomOpt _ ca hca
  · exact absurd h (by simp)

end Rio.Json
