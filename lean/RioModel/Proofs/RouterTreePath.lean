/-
Router proofs, part 10: `PathAndQueryMatcher` over the real regex-tree model satisfies the layer
laws `MLaws`, from the theorems of property C08 (`inv_insert`, `contents_insert`, `contents_remove`,
`contents_retain`, `find_eq_scan`, `trace_found_eq_find`).

The tree's stored entries (`Item.contents`) are read as an association list `(pattern, id) ↦ route`
(`entriesOf`); on that list the real tree's operations are the specification-level operations of
RouterLayers.lean (`aupsert` up to a permutation, `entryRemove`, `filter`), so the representation
lemmas `ERepr` of RouterPath.lean apply.
-/
import RioModel.Proofs.RouterTop
import RioModel.Model.RouterTreeLayers
import RioModel.Proofs.TreeSpec
import RioModel.Proofs.TreeHistory
import RioModel.Proofs.TreeDistinct
import RioModel.Proofs.TreeUnique
import RioModel.Proofs.TreeModify
import RioModel.Proofs.TreeTrace

set_option linter.unusedSimpArgs false
set_option linter.unusedVariables false
set_option linter.unusedSectionVars false

namespace Rio.Router
open Rio.Regex Rio.Tree

/-! ### permutation invariance of the association-list representation -/

theorem alookup_perm {K V : Type} [DecidableEq K] {l l' : List (K × V)} (hn : (akeys l).Nodup)
    (hp : l.Perm l') (k : K) : alookup k l = alookup k l' := by
  have hn' : (akeys l').Nodup := (hp.map _).nodup_iff.1 hn
  cases h : alookup k l with
  | none =>
    symm
    rw [alookup_eq_none_iff] at h ⊢
    intro hk; exact h ((hp.map Prod.fst).mem_iff.2 hk)
  | some v =>
    symm
    exact alookup_of_mem hn' (hp.mem_iff.1 (mem_of_alookup h))

theorem erepr_perm {P : Type} [DecidableEq P] (pathOf : Route → Option P)
    {t t' : List ((P × String) × Route)} {L : List Route} (h : ERepr pathOf t L) (hp : t.Perm t') :
    ERepr pathOf t' L :=
  ⟨(hp.map _).nodup_iff.1 h.nodup, by intro p id r; rw [← alookup_perm h.nodup hp]; exact h.iff p id r⟩

/-! ### the stored entries as an association list -/

section
variable {ι V : Type} [DecidableEq ι]

def toPair (e : Entry ι V) : (List Char × ι) × V := ((e.pat, e.id), e.val)

/-- the entries stored in a tree, as `(pattern, id) ↦ value` -/
def entriesOf (t : Item ι V) : List ((List Char × ι) × V) := t.contents.map toPair

theorem refInsert_pairs (L : List (Entry ι V)) (p : List Char) (id : ι) (v : V) :
    (refInsert L p id v).map toPair = aupsert (fun _ => v) v (p, id) (L.map toPair) := by
  induction L with
  | nil => simp [refInsert, aupsert, toPair]
  | cons e L ih =>
    simp only [refInsert, List.map_cons, aupsert]
    by_cases h : e.pat = p ∧ e.id = id
    · have : (toPair e).1 = (p, id) := by simp [toPair, h.1, h.2]
      simp [h, this, toPair]
    · have : ¬ (toPair e).1 = (p, id) := by
        intro hh; apply h; simp only [toPair, Prod.mk.injEq] at hh; exact hh
      simp only [h, if_false, List.map_cons, ih, this]

theorem refRemove_pairs (L : List (Entry String Route)) (id : String) :
    (refRemove L id).map toPair = (entryRemove id (L.map toPair)).1 ∧
    refRemoved L id = (entryRemove id (L.map toPair)).2 := by
  induction L with
  | nil => simp [refRemove, refRemoved, entryRemove]
  | cons e L ih =>
    simp only [refRemove, refRemoved, List.map_cons, entryRemove]
    by_cases h : e.id = id
    · have : (toPair e).1.2 = id := h
      simp [h, this, toPair]
    · have : ¬ (toPair e).1.2 = id := h
      simp only [h, if_false, List.map_cons, this, ih.1, ih.2]
      trivial

theorem refRetain_keepIf (L : List (Entry ι V)) (g : ι → V → Bool) :
    refRetain L (keepIf g) = L.filter (fun e => g e.id e.val) := by
  unfold refRetain
  induction L with
  | nil => rfl
  | cons e L ih =>
    rw [List.filterMap_cons, List.filter_cons, ih]
    cases hg : g e.id e.val <;> simp [keepIf, hg]

theorem refRetain_keepIf_pairs (L : List (Entry ι V)) (g : ι → V → Bool) :
    (refRetain L (keepIf g)).map toPair = (L.map toPair).filter (fun e => g e.1.2 e.2) := by
  rw [refRetain_keepIf, List.filter_map]
  rfl

end

/-! ### the path layer over the real tree -/

section
variable (T : TEnv) (Good : List Char → Prop)

/-- the tree key of a route's path pattern -/
def dynKey (r : Route) : Option (List Char) := (dynOf r).map T.render

/-- the route's path pattern, if any, is in the domain of C08 -/
def PathGood (r : Route) : Prop := ∀ p, dynOf r = some p → Good (T.render p) ∧ T.render p ≠ []

structure PTRepr (s : PathTState) (L : List Route) : Prop where
  len : L.length ≤ s.count
  inv : s.tree.inv T.icPath = true
  dom : ∀ e ∈ s.tree.contents, Good e.pat ∧ e.pat ≠ []
  tree : ERepr (dynKey T) (entriesOf s.tree) L
  statics : ERepr staticOf s.statics L

theorem dynKey_static (r : Route) (p : String) (h : r.path = .static p) : dynKey T r = none := by
  simp [dynKey, dynOf, h]

theorem dynKey_dyn (r : Route) (p : Pat) (h : r.path = .dyn p) : dynKey T r = some (T.render p) := by
  simp [dynKey, dynOf, h]

theorem ptrepr_insert (s : PathTState) (L : List Route) (r : Route) (h : PTRepr T Good s L)
    (hU : UIds (r :: L)) (hg : PathGood T Good r) : PTRepr T Good (PathT.insert T r s) (r :: L) := by
  unfold PathT.insert
  cases hp : r.path with
  | static p =>
    refine ⟨by simp; exact h.len, h.inv, h.dom, ?_, ?_⟩
    · exact erepr_insert_none (dynKey T) _ _ r h.tree (dynKey_static T r p hp)
    · exact erepr_insert_some staticOf _ _ r p h.statics hU (by simp [staticOf, hp])
  | dyn p =>
    have hperm := contents_insert s.tree (T.render p) r.id r h.inv
    refine ⟨by simp; exact h.len, inv_insert _ _ _ _ h.inv, ?_, ?_, ?_⟩
    · intro e he
      rcases mem_refInsert (hperm.subset he) with he | he
      · rw [he]; exact hg p (by simp [dynOf, hp])
      · exact h.dom e he
    · have h1 := erepr_insert_some (dynKey T) _ _ r (T.render p) h.tree hU (dynKey_dyn T r p hp)
      have hp2 : (entriesOf (s.tree.insert (T.render p) r.id r)).Perm
          (aupsert (fun _ => r) r (T.render p, r.id) (entriesOf s.tree)) := by
        unfold entriesOf
        rw [← refInsert_pairs]
        exact hperm.map _
      exact erepr_perm _ h1 hp2.symm
    · exact erepr_insert_none staticOf _ _ r h.statics (by simp [staticOf, hp])

theorem PathT.remove_of_some (id : String) (s : PathTState) (r : Route)
    (h : (s.tree.remove id).2 = some r) :
    PathT.remove id s = ({ s with tree := (s.tree.remove id).1, count := s.count - 1 }, some r) := by
  simp [PathT.remove, h]

theorem PathT.remove_of_none (id : String) (s : PathTState) (h : (s.tree.remove id).2 = none) :
    PathT.remove id s =
      ({ s with statics := (entryRemove id s.statics).1,
                count := if (entryRemove id s.statics).2.isSome then s.count - 1 else s.count },
       (entryRemove id s.statics).2) := by
  simp [PathT.remove, h]

theorem tree_remove_pairs (t : Item String Route) (id : String) :
    entriesOf (t.remove id).1 = (entryRemove id (entriesOf t)).1 ∧
    (t.remove id).2 = (entryRemove id (entriesOf t)).2 := by
  have h := contents_remove t id
  have hp := refRemove_pairs t.contents id
  unfold entriesOf
  rw [h.1, h.2]
  exact hp

theorem ptrepr_remove (s : PathTState) (L : List Route) (id : String) (h : PTRepr T Good s L)
    (hU : UIds L) : PTRepr T Good (PathT.remove id s).1 (L.filter (fun r => r.id != id)) := by
  have hpairs := tree_remove_pairs s.tree id
  have ht := erepr_remove (dynKey T) (entriesOf s.tree) L id h.tree hU
  rw [← hpairs.1] at ht
  have hs := erepr_remove staticOf s.statics L id h.statics hU
  have hle : (L.filter (fun r => r.id != id)).length ≤ L.length := List.length_filter_le ..
  have hlen := h.len
  have hinv := inv_remove s.tree id h.inv
  have hdom : ∀ e ∈ (s.tree.remove id).1.contents, Good e.pat ∧ e.pat ≠ [] := by
    intro e he
    rw [(contents_remove s.tree id).1] at he
    exact h.dom e (mem_refRemove he)
  cases hr : (s.tree.remove id).2 with
  | some r =>
    rw [PathT.remove_of_some id s r hr]
    have hr' : (entryRemove id (entriesOf s.tree)).2 = some r := by rw [← hpairs.2]; exact hr
    have hex : ∃ x ∈ L, x.id = id := by
      apply Classical.byContradiction; intro hne
      have := eremove_none (dynKey T) (entriesOf s.tree) L id h.tree (fun x hx _ e => hne ⟨x, hx, e⟩)
      rw [this] at hr'; cases hr'
    obtain ⟨x, hx, hxid⟩ := hex
    have := filter_ne_length_lt L id x hx hxid
    refine ⟨by simp only; omega, hinv, hdom, ht, ?_⟩
    have hs2 : (entryRemove id s.statics).2 = none := by
      apply eremove_none staticOf s.statics L id h.statics
      intro y hy hsy e
      have hfind := hr'
      rw [entryRemove_snd] at hfind
      cases hf : (entriesOf s.tree).find? (fun e => e.1.2 == id) with
      | none => simp [hf] at hfind
      | some e0 =>
        obtain ⟨⟨p0, i0⟩, r0⟩ := e0
        have m0 := List.mem_of_find?_eq_some hf
        have l0 := (h.tree.iff p0 i0 r0).1 (alookup_of_mem h.tree.nodup m0)
        have i0id : i0 = id := by simpa using List.find?_some hf
        have : y = r0 := hU y hy r0 l0.1 (by rw [e, l0.2.2, i0id])
        rw [this] at hsy
        have := l0.2.1
        unfold dynKey dynOf at this; unfold staticOf at hsy
        cases hp : r0.path <;> simp [hp] at this hsy
    rw [← entryRemove_fst_of_none id s.statics hs2]
    exact hs
  | none =>
    rw [PathT.remove_of_none id s hr]
    have hr' : (entryRemove id (entriesOf s.tree)).2 = none := by rw [← hpairs.2]; exact hr
    have ht' := erepr_remove (dynKey T) (entriesOf s.tree) L id h.tree hU
    rw [entryRemove_fst_of_none id _ hr'] at ht'
    refine ⟨?_, h.inv, h.dom, ht', hs⟩
    cases hr2 : (entryRemove id s.statics).2 with
    | none => simp only [Option.isSome_none, Bool.false_eq_true, if_false]; omega
    | some r =>
      simp only [Option.isSome_some, if_true]
      have hex : ∃ x ∈ L, x.id = id := by
        apply Classical.byContradiction; intro hne
        have := eremove_none staticOf s.statics L id h.statics (fun x hx _ e => hne ⟨x, hx, e⟩)
        rw [this] at hr2; cases hr2
      obtain ⟨x, hx, hxid⟩ := hex
      have := filter_ne_length_lt L id x hx hxid
      omega

end
end Rio.Router
