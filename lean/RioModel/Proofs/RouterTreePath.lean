/-
Router proofs, part 10: `PathAndQueryMatcher` over the real regex-tree model satisfies the layer
laws `MLaws`, from the theorems of property C08 (`inv_insert`, `contents_insert`, `contents_remove`,
`contents_retain`, `find_eq_scan`, `trace_found_eq_find`).

The tree's stored entries (`Item.contents`) are read as an association list `(pattern, id) ↦ route`
(`entriesOf`); on that list the real tree's operations are the specification-level operations of
RouterLayers.lean (`aupsert` up to a permutation, `entryRemove`, `filter`), so the representation
lemmas `ERepr` of RouterPath.lean apply.
-/
import RioModel.Proofs.RouterTop
import RioModel.Model.RouterTreeLayers
import RioModel.Proofs.TreeSpec
import RioModel.Proofs.TreeHistory
import RioModel.Proofs.TreeDistinct
import RioModel.Proofs.TreeUnique
import RioModel.Proofs.TreeModify
import RioModel.Proofs.TreeTrace
import RioModel.Proofs.TreeCache

set_option linter.unusedSimpArgs false
set_option linter.unusedVariables false
set_option linter.unusedSectionVars false

namespace Rio.Router
open Rio.Regex Rio.Tree

/-! ### permutation invariance of the association-list representation -/

theorem alookup_perm {K V : Type} [DecidableEq K] {l l' : List (K × V)} (hn : (akeys l).Nodup)
    (hp : l.Perm l') (k : K) : alookup k l = alookup k l' := by
  have hn' : (akeys l').Nodup := (hp.map _).nodup_iff.1 hn
  cases h : alookup k l with
  | none =>
    symm
    rw [alookup_eq_none_iff] at h ⊢
    intro hk; exact h ((hp.map Prod.fst).mem_iff.2 hk)
  | some v =>
    symm
    exact alookup_of_mem hn' (hp.mem_iff.1 (mem_of_alookup h))

theorem erepr_perm {P : Type} [DecidableEq P] (pathOf : Route → Option P)
    {t t' : List ((P × String) × Route)} {L : List Route} (h : ERepr pathOf t L) (hp : t.Perm t') :
    ERepr pathOf t' L :=
  ⟨(hp.map _).nodup_iff.1 h.nodup, by intro p id r; rw [← alookup_perm h.nodup hp]; exact h.iff p id r⟩

/-! ### the stored entries as an association list -/

section
variable {ι V : Type} [DecidableEq ι]

def toPair (e : Entry ι V) : (List Char × ι) × V := ((e.pat, e.id), e.val)

/-- the entries stored in a tree, as `(pattern, id) ↦ value` -/
def entriesOf (t : Item ι V) : List ((List Char × ι) × V) := t.contents.map toPair

theorem refInsert_pairs (L : List (Entry ι V)) (p : List Char) (id : ι) (v : V) :
    (refInsert L p id v).map toPair = aupsert (fun _ => v) v (p, id) (L.map toPair) := by
  induction L with
  | nil => simp [refInsert, aupsert, toPair]
  | cons e L ih =>
    simp only [refInsert, List.map_cons, aupsert]
    by_cases h : e.pat = p ∧ e.id = id
    · have : (toPair e).1 = (p, id) := by simp [toPair, h.1, h.2]
      simp [h, this, toPair]
    · have : ¬ (toPair e).1 = (p, id) := by
        intro hh; apply h; simp only [toPair, Prod.mk.injEq] at hh; exact hh
      simp only [h, if_false, List.map_cons, ih, this]

theorem refRemove_pairs (L : List (Entry String Route)) (id : String) :
    (refRemove L id).map toPair = (entryRemove id (L.map toPair)).1 ∧
    refRemoved L id = (entryRemove id (L.map toPair)).2 := by
  induction L with
  | nil => simp [refRemove, refRemoved, entryRemove]
  | cons e L ih =>
    simp only [refRemove, refRemoved, List.map_cons, entryRemove]
    by_cases h : e.id = id
    · have : (toPair e).1.2 = id := h
      simp [h, this, toPair]
    · have : ¬ (toPair e).1.2 = id := h
      simp only [h, if_false, List.map_cons, this, ih.1, ih.2]
      trivial

theorem refRetain_keepIf (L : List (Entry ι V)) (g : ι → V → Bool) :
    refRetain L (keepIf g) = L.filter (fun e => g e.id e.val) := by
  unfold refRetain
  induction L with
  | nil => rfl
  | cons e L ih =>
    rw [List.filterMap_cons, List.filter_cons, ih]
    cases hg : g e.id e.val <;> simp [keepIf, hg]

theorem refRetain_keepIf_pairs (L : List (Entry ι V)) (g : ι → V → Bool) :
    (refRetain L (keepIf g)).map toPair = (L.map toPair).filter (fun e => g e.1.2 e.2) := by
  rw [refRetain_keepIf, List.filter_map]
  rfl

end

/-! ### the path layer over the real tree -/

section
variable (T : TEnv) (Good : List Char → Prop)

/-- the tree key of a route's path pattern -/
def dynKey (r : Route) : Option (List Char) := (dynOf r).map T.render

/-- the route's path pattern, if any, is in the domain of C08 -/
def PathGood (r : Route) : Prop := ∀ p, dynOf r = some p → Good (T.render p) ∧ T.render p ≠ []

structure PTRepr (s : PathTState) (L : List Route) : Prop where
  len : L.length ≤ s.count
  inv : s.tree.inv T.icPath = true
  dom : ∀ e ∈ s.tree.contents, Good e.pat ∧ e.pat ≠ []
  tree : ERepr (dynKey T) (entriesOf s.tree) L
  statics : ERepr staticOf s.statics L

theorem dynKey_static (r : Route) (p : String) (h : r.path = .static p) : dynKey T r = none := by
  simp [dynKey, dynOf, h]

theorem dynKey_dyn (r : Route) (p : Pat) (h : r.path = .dyn p) : dynKey T r = some (T.render p) := by
  simp [dynKey, dynOf, h]

theorem ptrepr_insert (s : PathTState) (L : List Route) (r : Route) (h : PTRepr T Good s L)
    (hU : UIds (r :: L)) (hg : PathGood T Good r) : PTRepr T Good (PathT.insert T r s) (r :: L) := by
  unfold PathT.insert
  cases hp : r.path with
  | static p =>
    refine ⟨by simp; exact h.len, h.inv, h.dom, ?_, ?_⟩
    · exact erepr_insert_none (dynKey T) _ _ r h.tree (dynKey_static T r p hp)
    · exact erepr_insert_some staticOf _ _ r p h.statics hU (by simp [staticOf, hp])
  | dyn p =>
    have hperm := contents_insert s.tree (T.render p) r.id r h.inv
    refine ⟨by simp; exact h.len, inv_insert _ _ _ _ h.inv, ?_, ?_, ?_⟩
    · intro e he
      rcases mem_refInsert (hperm.subset he) with he | he
      · rw [he]; exact hg p (by simp [dynOf, hp])
      · exact h.dom e he
    · have h1 := erepr_insert_some (dynKey T) _ _ r (T.render p) h.tree hU (dynKey_dyn T r p hp)
      have hp2 : (entriesOf (s.tree.insert (T.render p) r.id r)).Perm
          (aupsert (fun _ => r) r (T.render p, r.id) (entriesOf s.tree)) := by
        unfold entriesOf
        rw [← refInsert_pairs]
        exact hperm.map _
      exact erepr_perm _ h1 hp2.symm
    · exact erepr_insert_none staticOf _ _ r h.statics (by simp [staticOf, hp])

theorem PathT.remove_of_some (id : String) (s : PathTState) (r : Route)
    (h : (s.tree.remove id).2 = some r) :
    PathT.remove id s = ({ s with tree := (s.tree.remove id).1, count := s.count - 1 }, some r) := by
  simp [PathT.remove, h]

theorem PathT.remove_of_none (id : String) (s : PathTState) (h : (s.tree.remove id).2 = none) :
    PathT.remove id s =
      ({ s with statics := (entryRemove id s.statics).1,
                count := if (entryRemove id s.statics).2.isSome then s.count - 1 else s.count },
       (entryRemove id s.statics).2) := by
  simp [PathT.remove, h]

theorem tree_remove_pairs (t : Item String Route) (id : String) :
    entriesOf (t.remove id).1 = (entryRemove id (entriesOf t)).1 ∧
    (t.remove id).2 = (entryRemove id (entriesOf t)).2 := by
  have h := contents_remove t id
  have hp := refRemove_pairs t.contents id
  unfold entriesOf
  rw [h.1, h.2]
  exact hp

theorem ptrepr_remove (s : PathTState) (L : List Route) (id : String) (h : PTRepr T Good s L)
    (hU : UIds L) : PTRepr T Good (PathT.remove id s).1 (L.filter (fun r => r.id != id)) := by
  have hpairs := tree_remove_pairs s.tree id
  have ht := erepr_remove (dynKey T) (entriesOf s.tree) L id h.tree hU
  rw [← hpairs.1] at ht
  have hs := erepr_remove staticOf s.statics L id h.statics hU
  have hle : (L.filter (fun r => r.id != id)).length ≤ L.length := List.length_filter_le ..
  have hlen := h.len
  have hinv := inv_remove s.tree id h.inv
  have hdom : ∀ e ∈ (s.tree.remove id).1.contents, Good e.pat ∧ e.pat ≠ [] := by
    intro e he
    rw [(contents_remove s.tree id).1] at he
    exact h.dom e (mem_refRemove he)
  cases hr : (s.tree.remove id).2 with
  | some r =>
    rw [PathT.remove_of_some id s r hr]
    have hr' : (entryRemove id (entriesOf s.tree)).2 = some r := by rw [← hpairs.2]; exact hr
    have hex : ∃ x ∈ L, x.id = id := by
      apply Classical.byContradiction; intro hne
      have := eremove_none (dynKey T) (entriesOf s.tree) L id h.tree (fun x hx _ e => hne ⟨x, hx, e⟩)
      rw [this] at hr'; cases hr'
    obtain ⟨x, hx, hxid⟩ := hex
    have := filter_ne_length_lt L id x hx hxid
    refine ⟨by simp only; omega, hinv, hdom, ht, ?_⟩
    have hs2 : (entryRemove id s.statics).2 = none := by
      apply eremove_none staticOf s.statics L id h.statics
      intro y hy hsy e
      have hfind := hr'
      rw [entryRemove_snd] at hfind
      cases hf : (entriesOf s.tree).find? (fun e => e.1.2 == id) with
      | none => simp [hf] at hfind
      | some e0 =>
        obtain ⟨⟨p0, i0⟩, r0⟩ := e0
        have m0 := List.mem_of_find?_eq_some hf
        have l0 := (h.tree.iff p0 i0 r0).1 (alookup_of_mem h.tree.nodup m0)
        have i0id : i0 = id := by simpa using List.find?_some hf
        have : y = r0 := hU y hy r0 l0.1 (by rw [e, l0.2.2, i0id])
        rw [this] at hsy
        have := l0.2.1
        unfold dynKey dynOf at this; unfold staticOf at hsy
        cases hp : r0.path <;> simp [hp] at this hsy
    rw [← entryRemove_fst_of_none id s.statics hs2]
    exact hs
  | none =>
    rw [PathT.remove_of_none id s hr]
    have hr' : (entryRemove id (entriesOf s.tree)).2 = none := by rw [← hpairs.2]; exact hr
    have ht' := erepr_remove (dynKey T) (entriesOf s.tree) L id h.tree hU
    rw [entryRemove_fst_of_none id _ hr'] at ht'
    refine ⟨?_, h.inv, h.dom, ht', hs⟩
    cases hr2 : (entryRemove id s.statics).2 with
    | none => simp only [Option.isSome_none, Bool.false_eq_true, if_false]; omega
    | some r =>
      simp only [Option.isSome_some, if_true]
      have hex : ∃ x ∈ L, x.id = id := by
        apply Classical.byContradiction; intro hne
        have := eremove_none staticOf s.statics L id h.statics (fun x hx _ e => hne ⟨x, hx, e⟩)
        rw [this] at hr2; cases hr2
      obtain ⟨x, hx, hxid⟩ := hex
      have := filter_ne_length_lt L id x hx hxid
      omega

theorem ptremove_some (s : PathTState) (L : List Route) (id : String) (r : Route)
    (h : PTRepr T Good s L) (hU : UIds L) (hr : r ∈ L) (hid : r.id = id) :
    (PathT.remove id s).2 = some r := by
  have hpairs := tree_remove_pairs s.tree id
  cases hp : r.path with
  | dyn p =>
    have := eremove_some (dynKey T) (entriesOf s.tree) L id r (T.render p) h.tree hU hr
      (dynKey_dyn T r p hp) hid
    rw [← hpairs.2] at this
    rw [PathT.remove_of_some id s r this]
  | static p =>
    have hnone : (s.tree.remove id).2 = none := by
      rw [hpairs.2]
      apply eremove_none (dynKey T) (entriesOf s.tree) L id h.tree
      intro y hy hdy e
      have : y = r := hU y hy r hr (e.trans hid.symm)
      rw [this, dynKey_static T r p hp] at hdy; exact hdy rfl
    rw [PathT.remove_of_none id s hnone]
    exact eremove_some staticOf s.statics L id r p h.statics hU hr (by simp [staticOf, hp]) hid

theorem ptremove_none (s : PathTState) (L : List Route) (id : String) (h : PTRepr T Good s L)
    (hno : ∀ r ∈ L, r.id ≠ id) : (PathT.remove id s).2 = none := by
  have hpairs := tree_remove_pairs s.tree id
  have hnone : (s.tree.remove id).2 = none := by
    rw [hpairs.2]
    exact eremove_none (dynKey T) (entriesOf s.tree) L id h.tree (fun x hx _ => hno x hx)
  rw [PathT.remove_of_none id s hnone]
  exact eremove_none staticOf s.statics L id h.statics (fun x hx _ => hno x hx)

theorem ptrepr_batch (s : PathTState) (L : List Route) (ids : List String) (h : PTRepr T Good s L) :
    PTRepr T Good (PathT.batchRemove ids s) (L.filter (fun r => !ids.contains r.id)) := by
  unfold PathT.batchRemove
  have hc := contents_retain s.tree (keepIf fun id _ => !ids.contains id)
  refine ⟨?_, inv_retain _ _ h.inv, ?_, ?_, erepr_batch staticOf _ _ ids h.statics⟩
  · have hle : (L.filter (fun r => !ids.contains r.id)).length ≤ L.length := List.length_filter_le ..
    have := h.len
    simp only; omega
  · intro e he
    rw [hc, refRetain_keepIf] at he
    exact h.dom e (List.mem_filter.mp he).1
  · have := erepr_batch (dynKey T) _ _ ids h.tree
    unfold entriesOf at this ⊢
    rw [hc, refRetain_keepIf_pairs]
    exact this

variable (hPS : PrefixSound T.engine Good)
include hPS

theorem pt_find_pairs (s : PathTState) (L : List Route) (h : PTRepr T Good s L) (hay : List Char) :
    s.tree.find T.engine hay =
      ((entriesOf s.tree).filter (fun e => T.engine.full T.icPath e.1.1 hay)).map Prod.snd := by
  rw [find_eq_scan hPS s.tree h.inv h.dom hay]
  unfold entriesOf
  rw [List.filter_map, List.map_map]
  rfl

omit hPS Good in
theorem pt_pathOk_eq (r : Route) (q : Req) :
    pathOk T.env r q =
      ((match dynKey T r with | some k => T.engine.full T.icPath k q.path.toList | none => false) ||
       (match staticOf r with | some p => p == q.path | none => false)) := by
  unfold pathOk dynKey dynOf staticOf TEnv.env
  cases r.path <;> simp

theorem pt_mem_match (s : PathTState) (L : List Route) (h : PTRepr T Good s L) (q : Req) (r : Route) :
    r ∈ PathT.matchReq T s q ↔ r ∈ L ∧ pathOk T.env r q = true := by
  unfold PathT.matchReq
  rw [pt_find_pairs T Good hPS s L h, List.mem_append,
    mem_entries_match (dynKey T) (entriesOf s.tree) L h.tree (fun k => T.engine.full T.icPath k q.path.toList),
    mem_entries_match staticOf s.statics L h.statics (fun p => p == q.path), pt_pathOk_eq T]
  unfold dynKey dynOf staticOf
  cases r.path <;> simp

theorem pt_nodup_match (s : PathTState) (L : List Route) (h : PTRepr T Good s L) (q : Req) :
    (PathT.matchReq T s q).Nodup := by
  unfold PathT.matchReq
  rw [pt_find_pairs T Good hPS s L h, List.nodup_append]
  refine ⟨nodup_entries_match (dynKey T) _ L h.tree _, nodup_entries_match staticOf s.statics L h.statics _, ?_⟩
  intro x hx y hy hxy
  subst hxy
  rw [mem_entries_match (dynKey T) (entriesOf s.tree) L h.tree (fun k => T.engine.full T.icPath k q.path.toList)] at hx
  rw [mem_entries_match staticOf s.statics L h.statics (fun p => p == q.path)] at hy
  obtain ⟨_, p1, hp1, _⟩ := hx
  obtain ⟨_, p2, hp2, _⟩ := hy
  unfold dynKey dynOf at hp1; unfold staticOf at hp2
  cases hp : x.path <;> simp [hp] at hp1 hp2

omit hPS

/-! ### trace: the routes stored in the converted tree trace are what `find` returns -/

theorem pathTreeTraceL_eq (ts : List (Tree.Trace Route)) : pathTreeTraceL ts = ts.map pathTreeTrace := by
  induction ts with
  | nil => simp [pathTreeTraceL]
  | cons t ts ih => simp [pathTreeTraceL, ih]

theorem pathTreeTrace_mk (rx : List Char) (c : Nat) (m : Bool) (cs : List (Tree.Trace Route))
    (vs : List Route) :
    pathTreeTrace (.mk rx c m cs vs) =
      Trace.mk m true c (.other "regex")
        (cs.map pathTreeTrace ++
          (if vs.isEmpty then []
           else [Trace.mk m true vs.length (.storage (if m then vs else [])) []])) := by
  rw [pathTreeTrace, pathTreeTraceL_eq]

omit T in
theorem raw_pathTreeTrace (E : Engine) (t : Item String Route) (hay : List Char) :
    (pathTreeTrace (t.trace E hay)).rawRoutes = t.find E hay := by
  induction t using Item.ind with
  | hE ic =>
    rw [trace_empty, pathTreeTrace_mk, find_empty]
    simp [Trace.rawRoutes_mk, TInfo.routes]
  | hL rx vs =>
    rw [trace_leaf, pathTreeTrace_mk, find_leaf]
    cases hm : rx.isMatch E hay <;> cases hv : (vs.map (·.2)).isEmpty <;>
      simp_all [Trace.rawRoutes_mk, TInfo.routes, rawRoutesOfList_cons]
  | hN rx cs ih =>
    rw [trace_node, pathTreeTrace_mk, find_node, findL_eq]
    cases hm : rx.isMatch E hay
    · simp [Trace.rawRoutes_mk, TInfo.routes]
    · simp only [if_true, List.isEmpty_nil, List.append_nil, Trace.rawRoutes_mk, TInfo.routes,
        List.nil_append, List.map_map]
      clear hm
      induction cs with
      | nil => simp
      | cons c cs ihc =>
        simp only [List.map_cons, rawRoutesOfList_cons, List.flatMap_cons, Function.comp]
        rw [ih c (List.mem_cons_self ..), ihc (fun d hd => ih d (List.mem_cons_of_mem _ hd))]

theorem pt_mem_trace (s : PathTState) (q : Req) (r : Route) :
    r ∈ rawRoutesOfList (PathT.trace T s q) ↔ r ∈ PathT.matchReq T s q := by
  unfold PathT.trace PathT.matchReq
  simp only [rawRoutesOfList_cons, rawRoutesOfList_nil, Trace.rawRoutes_mk, TInfo.routes,
    List.append_nil, List.nil_append, List.mem_append, raw_pathTreeTrace]
  constructor
  · rintro (hr | hr)
    · exact Or.inl hr
    · right
      cases hem : ((s.statics.filter (fun e => e.1.1 == q.path)).map Prod.snd).isEmpty
      · simp only [hem, Bool.false_eq_true, if_false, rawRoutesOfList_cons, rawRoutesOfList_nil,
          Trace.rawRoutes_mk, TInfo.routes, List.append_nil] at hr
        exact hr
      · simp [hem] at hr
  · rintro (hr | hr)
    · exact Or.inl hr
    · right
      have hne : ((s.statics.filter (fun e => e.1.1 == q.path)).map Prod.snd).isEmpty = false := by
        cases hl : (s.statics.filter (fun e => e.1.1 == q.path)).map Prod.snd with
        | nil => rw [hl] at hr; simp at hr
        | cons _ _ => rfl
      simp only [hne, Bool.false_eq_true, if_false, rawRoutesOfList_cons, rawRoutesOfList_nil,
        Trace.rawRoutes_mk, TInfo.routes, List.append_nil]
      exact hr

/-! ### cache -/

/-- `regex_tree_rule.cache(limit, Some(level))` returns normally (no budget underflow), hands back at
most the budget it got, and changes nothing but compiled flags. -/
theorem pathT_cache_ok (limit level : Nat) (s : PathTState) :
    ∃ t' n, Tree.treeCache T.engine s.tree limit (some level) = some (t', n) ∧
      PathT.cache T limit level s = ({ s with tree := t' }, n) ∧ n ≤ limit ∧ t'.strip = s.tree.strip := by
  obtain ⟨t', n, h1, hs, hn⟩ := treeCache_spec T.engine s.tree limit (some level)
  exact ⟨t', n, h1, by simp [PathT.cache, h1], hn, hs⟩

theorem ptrepr_cache (s : PathTState) (L : List Route) (limit level : Nat) (h : PTRepr T Good s L) :
    PTRepr T Good (PathT.cache T limit level s).1 L := by
  obtain ⟨t', n, h1, heq, _, hs⟩ := pathT_cache_ok T limit level s
  rw [heq]
  have hc : t'.contents = s.tree.contents := by rw [← contents_strip, hs, contents_strip]
  have hi : t'.inv T.icPath = s.tree.inv T.icPath := inv_of_treeCache h1 T.icPath
  refine ⟨h.len, by rw [hi]; exact h.inv, by intro e he; rw [hc] at he; exact h.dom e he, ?_, h.statics⟩
  unfold entriesOf
  simp only [hc]
  exact h.tree

/-- `PathAndQueryMatcher` over the real tree satisfies the layer laws; its `sat` is the path
trigger of the induced environment; routes may be inserted when their pattern is in C08's domain. -/
def pathTLaws (hPS : PrefixSound T.engine Good) : MLaws (pathTOps T) where
  Repr := PTRepr T Good
  sat := fun _ r q => pathOk T.env r q
  wf := fun _ => True
  okIns := PathGood T Good
  sat_congr := by intros; rfl
  repr_empty := ⟨by simp [pathTOps, PathT.empty], by simp [pathTOps, PathT.empty, Item.inv],
    by intro e he; simp [pathTOps, PathT.empty, Item.contents] at he,
    by simpa [pathTOps, PathT.empty, entriesOf, Item.contents] using erepr_empty (dynKey T),
    erepr_empty _⟩
  repr_congr := by
    intro m L L' h hsub hmem
    have hm : ∀ x, x ∈ L ↔ x ∈ L' := fun x => ⟨hmem x, fun hx => hsub.subset hx⟩
    exact ⟨Nat.le_trans hsub.length_le h.len, h.inv, h.dom, erepr_congr _ _ _ _ h.tree hm,
      erepr_congr _ _ _ _ h.statics hm⟩
  len_zero := by
    intro m L h h0
    have := h.len
    have h0' : m.count = 0 := h0
    rw [h0'] at this
    exact List.eq_nil_of_length_eq_zero (Nat.le_zero.mp this)
  repr_insert := fun m L r h hU hg => ptrepr_insert T Good m L r h hU hg
  repr_remove := fun m L id h hU => ptrepr_remove T Good m L id h hU
  remove_some := fun m L id r h hU hr _ hid => ptremove_some T Good m L id r h hU hr hid
  remove_none := fun m L id h hno => ptremove_none T Good m L id h hno
  remove_pos := by
    intro m L id h hs
    have hex : ∃ r ∈ L, r.id = id := by
      apply Classical.byContradiction; intro hne
      have := ptremove_none T Good m L id h (fun r hr e => hne ⟨r, hr, e⟩)
      have hs' : (PathT.remove id m).2.isSome = true := hs
      rw [this] at hs'; simp at hs'
    obtain ⟨r, hr, _⟩ := hex
    have := List.length_pos_of_mem hr
    have := h.len
    show 0 < m.count
    omega
  repr_batch := fun m L ids h => ptrepr_batch T Good m L ids h
  repr_cache := fun m L limit level h => ptrepr_cache T Good m L limit level h
  cache_le := by
    intro m limit level
    obtain ⟨t', n, _, heq, hn, _⟩ := pathT_cache_ok T limit level m
    show (PathT.cache T limit level m).2 ≤ limit
    rw [heq]; exact hn
  mem_match := fun m L q r h _ => pt_mem_match T Good hPS m L h q r
  nodup_match := fun m L q h _ => pt_nodup_match T Good hPS m L h q
  mem_trace := fun m L q r _ _ => pt_mem_trace T m q r

end
end Rio.Router
