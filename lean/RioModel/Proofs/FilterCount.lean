/-
C04, strong form for INSERT stages (append_child / prepend_child): the number of copies of the value an html stage inserts
is bounded by the number of tag tokens of its input that are named on the filter's path — at most one copy per such token
(`enter` inserts only for prepend without selector, `leave` only otherwise).

Stated on lengths: `|ledger after T| ≤ |rawsOf T| + |value| · #{t ∈ T : tag token, name on the path}` (`fold_len`), which
with `Edit [value] []` (whole copies only) bounds the number of copies (`Edit_count`).
-/
import RioModel.Proofs.FilterStrong
set_option linter.unusedSimpArgs false
set_option linter.unusedVariables false

namespace Rio.Filter

/-! ### `append_child` / `prepend_child` add at most one copy -/

theorem appendChildGo_len (child : Bytes) : ∀ (ts : List Tok) (rest : Bytes) (level : Int) (out r : Bytes),
    appendChildGo child ts rest level out = some r →
      r.length = out.length + (rawsOf ts).length + rest.length + child.length := by
  intro ts
  induction ts with
  | nil => intro rest level out r h; simp [appendChildGo] at h
  | cons t ts ih =>
    intro rest level out r h
    rw [appendChildGo] at h
    simp only at h
    generalize (if t.kind = TokKind.startTag then (if isVoid t.name = true then level else level + 1) else level) = l1 at h
    by_cases he : t.kind = TokKind.endTag
    · rw [if_pos he] at h
      by_cases hz : l1 - 1 = 0
      · rw [if_pos hz] at h
        injection h with h
        subst h
        simp [rawsOf_cons]; omega
      · rw [if_neg hz] at h
        have := ih _ _ _ _ h
        simp [rawsOf_cons] at this ⊢; omega
    · rw [if_neg he] at h
      have := ih _ _ _ _ h
      simp [rawsOf_cons] at this ⊢; omega

theorem appendChild_len {tk : Tokenize} (hl : Lossless tk) (content child : Bytes) :
    (appendChild tk content child).length ≤ content.length + child.length := by
  unfold appendChild
  have hls := congrArg List.length (hl content)
  cases hg : appendChildGo child (tk content).1 (tk content).2 0 [] with
  | none => simp [hg]
  | some r =>
    have := appendChildGo_len child _ _ _ _ _ hg
    simp at hls this
    simp [hg]; omega

theorem prependChildGo_len (child : Bytes) : ∀ (ts : List Tok) (rest out r : Bytes),
    prependChildGo child ts rest out = some r →
      r.length = out.length + (rawsOf ts).length + rest.length + child.length := by
  intro ts
  induction ts with
  | nil => intro rest out r h; simp [prependChildGo] at h
  | cons t ts ih =>
    intro rest out r h
    rw [prependChildGo] at h
    split at h
    · injection h with h
      subst h
      simp [rawsOf_cons]; omega
    · have := ih _ _ _ h
      simp [rawsOf_cons] at this ⊢; omega

theorem prependChild_len {tk : Tokenize} (hl : Lossless tk) (content child : Bytes) :
    (prependChild tk content child).length ≤ content.length + child.length := by
  unfold prependChild
  have hls := congrArg List.length (hl content)
  cases hg : prependChildGo child (tk content).1 (tk content).2 [] with
  | none => simp [hg]
  | some r =>
    have := prependChildGo_len child _ _ _ _ hg
    simp at hls this
    simp [hg]; omega

/-! ### `enter` / `leave` -/

/-- the visitor inserts at `enter` (prepend without selector); otherwise it can only insert at `leave` -/
def insAtEnter (v : Visitor) : Bool := v.kind == .prepend && !v.hasSel

theorem insAtEnter_of_static {v w : Visitor} (h : v.static = w.static) : insAtEnter v = insAtEnter w := by
  simp [Visitor.static] at h
  simp [insAtEnter, Visitor.hasSel, h.1, h.2.1]

theorem content_of_static {v w : Visitor} (h : v.static = w.static) : v.content = w.content := by
  simp [Visitor.static] at h; exact h.2.2

theorem enter_len (v : Visitor) (d : Bytes) :
    (v.enter d).1.2.2.2.length ≤ d.length + (if insAtEnter v then v.content.length else 0) := by
  unfold Visitor.enter insAtEnter
  split
  · simp
  · cases hk : v.kind <;> simp only [hk]
    · simp
    · by_cases hs : v.hasSel = true
      · simp [hs]
      · simp [hs]
    · simp

theorem leave_len {tk : Tokenize} (hl : Lossless tk) (ev : Bytes → Bytes → Bool) (v : Visitor) (d : Bytes) :
    (v.leave tk ev d).1.2.2.length ≤ d.length + (if insAtEnter v then 0 else v.content.length) := by
  unfold Visitor.leave insAtEnter
  cases hk : v.kind <;> simp only [hk]
  · simp only [show (VKind.append == VKind.prepend) = false from rfl, Bool.false_and, Bool.false_eq_true, if_false]
    repeat' split
    all_goals first
      | exact appendChild_len hl _ _
      | (simp; omega)
      | simp
  · by_cases hs : v.hasSel = true
    · simp only [hs, show (VKind.prepend == VKind.prepend) = true from rfl, Bool.and_true, Bool.not_true, Bool.and_false, Bool.false_eq_true, if_false]
      repeat' split
      all_goals first
        | exact prependChild_len hl _ _
        | (simp; omega)
        | simp
    · simp [hs]
  · simp only [show (VKind.replace == VKind.prepend) = false from rfl, Bool.false_and, Bool.false_eq_true, if_false]
    repeat' split
    all_goals first
      | (simp; omega)
      | simp

/-! ### names: what the stage waits for is on the path -/

structure PInv (P : List Bytes) (s : HtmlSt) : Prop where
  path : pathOf s.visitor = P
  enter : ∀ x, s.enter = some x → x ∈ P
  leave : ∀ x, s.leave = some x → x ∈ P

theorem cur_mem_path (v : Visitor) : v.cur ∈ pathOf v := by simp [pathOf]

theorem pathOf_enter (v : Visitor) (d : Bytes) : pathOf (v.enter d).2 = pathOf v := by
  unfold Visitor.enter
  split
  · rename_i h; exact pathOf_advance v h
  · cases hk : v.kind <;> simp only [hk]
    · split <;> rfl
    · rfl

theorem pathOf_leaveMove (v : Visitor) (g : Bool) : pathOf (v.leaveMove g).2 = pathOf v := by
  unfold Visitor.leaveMove
  split
  · rename_i h; exact pathOf_retreat v h.1
  · rfl

theorem pathOf_leave (tk : Tokenize) (ev : Bytes → Bytes → Bool) (v : Visitor) (d : Bytes) :
    pathOf (v.leave tk ev d).2 = pathOf v := by
  unfold Visitor.leave
  cases hk : v.kind <;> simp only [hk]
  · have := pathOf_leaveMove v true
    repeat' split
    all_goals exact this
  · have := pathOf_leaveMove v true
    repeat' split
    all_goals (first | exact this | (simpa [pathOf] using this))
  · have := pathOf_leaveMove v (!v.isBuffering)
    repeat' split
    all_goals (first | exact this | (simpa [pathOf] using this))

theorem enter_names (v : Visitor) (d : Bytes) :
    (∀ x, (v.enter d).1.1 = some x → x ∈ pathOf v) ∧ (∀ x, (v.enter d).1.2.1 = some x → x ∈ pathOf v) := by
  have hadv : v.after ≠ [] → v.advance.cur ∈ pathOf v := by
    intro h
    rw [← pathOf_advance v h]; exact cur_mem_path _
  unfold Visitor.enter
  split
  · rename_i h
    refine ⟨fun x hx => ?_, fun x hx => ?_⟩
    · simp only at hx; injection hx with hx; subst hx; exact hadv h
    · simp only at hx; injection hx with hx; subst hx; exact cur_mem_path v
  · cases hk : v.kind <;> simp only [hk]
    · exact ⟨fun x hx => by simp at hx, fun x hx => by simp at hx; subst hx; exact cur_mem_path v⟩
    · split
      · exact ⟨fun x hx => by simp at hx, fun x hx => by simp at hx; subst hx; exact cur_mem_path v⟩
      · exact ⟨fun x hx => by simp at hx, fun x hx => by simp at hx; subst hx; exact cur_mem_path v⟩
    · exact ⟨fun x hx => by simp at hx, fun x hx => by simp at hx; subst hx; exact cur_mem_path v⟩

theorem leaveMove_names (v : Visitor) (g : Bool) : ∀ x, (v.leaveMove g).1 = some x → x ∈ pathOf v := by
  intro x hx
  unfold Visitor.leaveMove at hx
  split at hx
  · rename_i h
    simp only at hx; injection hx with hx; subst hx
    rw [← pathOf_retreat v h.1]; exact cur_mem_path _
  · simp at hx

theorem leave_names (tk : Tokenize) (ev : Bytes → Bytes → Bool) (v : Visitor) (d : Bytes) :
    (∀ x, (v.leave tk ev d).1.1 = some x → x ∈ pathOf v) ∧ (∀ x, (v.leave tk ev d).1.2.1 = some x → x ∈ pathOf v) := by
  unfold Visitor.leave
  cases hk : v.kind <;> simp only [hk]
  · have h1 := leaveMove_names v true
    repeat' split
    all_goals exact ⟨fun x hx => by simp at hx; subst hx; exact cur_mem_path v, fun x hx => h1 x hx⟩
  · have h1 := leaveMove_names v true
    repeat' split
    all_goals exact ⟨fun x hx => by simp at hx; subst hx; exact cur_mem_path v, fun x hx => h1 x hx⟩
  · have h1 := leaveMove_names v (!v.isBuffering)
    repeat' split
    all_goals exact ⟨fun x hx => by simp at hx; subst hx; exact cur_mem_path v, fun x hx => h1 x hx⟩

/-! ### the token loop -/

def Ke (v : Visitor) : Nat := if insAtEnter v then v.content.length else 0
def Kl (v : Visitor) : Nat := if insAtEnter v then 0 else v.content.length

theorem Ke_add_Kl (v : Visitor) : Ke v + Kl v = v.content.length := by
  unfold Ke Kl; split <;> simp

theorem K_of_static {v w : Visitor} (h : v.static = w.static) : Ke v = Ke w ∧ Kl v = Kl w := by
  unfold Ke Kl
  rw [insAtEnter_of_static h, content_of_static h]
  exact ⟨rfl, rfl⟩

theorem onStart_len {P : List Bytes} (s : HtmlSt) (n d : Bytes) (hP : PInv P s) :
    (onStart s n d).1.visitor.static = s.visitor.static ∧ PInv P (onStart s n d).1 ∧
    (flat (onStart s n d).1.stack).length = (flat s.stack).length ∧
    (onStart s n d).2.length ≤ d.length + (if s.enter = some n then Ke s.visitor else 0) := by
  rw [onStart_eq]
  by_cases he : s.enter = some n
  · rw [if_pos he, if_pos he]
    simp only
    have hst := s.visitor.enter_static d
    have hlen := enter_len s.visitor d
    have hpath := pathOf_enter s.visitor d
    obtain ⟨hn1, hn2⟩ := enter_names s.visitor d
    have hpinv : ∀ s' : HtmlSt, s'.visitor = (s.visitor.enter d).2 → s'.enter = (s.visitor.enter d).1.1 →
        s'.leave = (s.visitor.enter d).1.2.1 → PInv P s' :=
      fun s' e1 e2 e3 => ⟨by rw [e1]; exact hpath.trans hP.path, fun x hx => hP.path ▸ hn1 x (e2 ▸ hx),
        fun x hx => hP.path ▸ hn2 x (e3 ▸ hx)⟩
    by_cases hb : (s.visitor.enter d).1.2.2.1 = true
    · rw [if_pos hb]
      exact ⟨hst, hpinv _ rfl rfl rfl, by simp [flat_cons], hlen⟩
    · rw [if_neg hb]
      exact ⟨hst, hpinv _ rfl rfl rfl, rfl, hlen⟩
  · rw [if_neg he, if_neg he]
    exact ⟨rfl, hP, rfl, by simp⟩

theorem onEnd_len {tk : Tokenize} (hl : Lossless tk) (ev : Bytes → Bytes → Bool) {P : List Bytes} (s : HtmlSt)
    (n d : Bytes) (hP : PInv P s) :
    (onEnd tk ev s n d).1.visitor.static = s.visitor.static ∧ PInv P (onEnd tk ev s n d).1 ∧
    (flat (onEnd tk ev s n d).1.stack).length + (onEnd tk ev s n d).2.length ≤
      (flat s.stack).length + d.length + (if s.leave = some n then Kl s.visitor else 0) := by
  rw [onEnd_eq]
  simp only
  have hbuf : (flat (if topMatches s.stack n = true then s.stack.tail else s.stack)).length +
      (if topMatches s.stack n = true then topBuffer s.stack ++ d else d).length = (flat s.stack).length + d.length := by
    cases hs : s.stack with
    | nil => simp [topMatches]
    | cons l rest =>
      by_cases htm : topMatches (l :: rest) n = true
      · simp [htm, topBuffer, flat_cons]; omega
      · simp [htm]
  generalize (if topMatches s.stack n = true then topBuffer s.stack ++ d else d) = buffer at hbuf ⊢
  have hst := s.visitor.leave_static tk ev buffer
  have hlen := leave_len hl ev s.visitor buffer
  have hpath := pathOf_leave tk ev s.visitor buffer
  obtain ⟨hn1, hn2⟩ := leave_names tk ev s.visitor buffer
  by_cases hlv : s.leave = some n
  · simp only [if_pos hlv]
    have hpinv : ∀ s' : HtmlSt, s'.visitor = (s.visitor.leave tk ev buffer).2 →
        s'.enter = (s.visitor.leave tk ev buffer).1.1 → s'.leave = (s.visitor.leave tk ev buffer).1.2.1 → PInv P s' :=
      fun s' e1 e2 e3 => ⟨by rw [e1]; exact hpath.trans hP.path, fun x hx => hP.path ▸ hn1 x (e2 ▸ hx),
        fun x hx => hP.path ▸ hn2 x (e3 ▸ hx)⟩
    by_cases htm : topMatches s.stack n = true
    · simp only [htm, if_true] at hbuf ⊢
      refine ⟨hst, hpinv _ rfl rfl rfl, ?_⟩
      unfold Kl; unfold Kl at hlen; omega
    · simp only [htm, Bool.false_eq_true, if_false] at hbuf ⊢
      refine ⟨hst, hpinv _ rfl rfl rfl, ?_⟩
      unfold Kl; omega
  · simp only [if_neg hlv]
    by_cases htm : topMatches s.stack n = true
    · simp only [htm, if_true] at hbuf ⊢
      exact ⟨(by first | rfl | trivial), ⟨hP.path, hP.enter, hP.leave⟩, by omega⟩
    · simp only [htm, Bool.false_eq_true, if_false] at hbuf ⊢
      exact ⟨(by first | rfl | trivial), hP, by omega⟩

theorem push_len {P : List Bytes} (s : HtmlSt) (out d : Bytes) (hP : PInv P s) :
    (push s out d).1.visitor = s.visitor ∧ PInv P (push s out d).1 ∧
    (ledger (push s out d).1 (push s out d).2).length = (ledger s out).length + d.length := by
  refine ⟨?_, ?_, by rw [ledger_push]; simp⟩
  · unfold push; split <;> rfl
  · unfold push
    split
    · exact ⟨hP.path, hP.enter, hP.leave⟩
    · exact hP

/-- the tag tokens whose name is on the path -/
def onPath (P : List Bytes) (t : Tok) : Bool := isTagKind t.kind && P.contains t.name

theorem onPath_of {P : List Bytes} {t : Tok} (hk : isTagKind t.kind = true) (h : t.name ∈ P) : onPath P t = true := by
  simp [onPath, hk, h]

theorem stepTok_len {tk : Tokenize} (hl : Lossless tk) (ev : Bytes → Bytes → Bool) {P : List Bytes} (s : HtmlSt)
    (out : Bytes) (t : Tok) (hP : PInv P s) :
    (stepTok tk ev (s, out) t).1.visitor.static = s.visitor.static ∧ PInv P (stepTok tk ev (s, out) t).1 ∧
    (ledger (stepTok tk ev (s, out) t).1 (stepTok tk ev (s, out) t).2).length ≤
      (ledger s out).length + t.raw.length + (if onPath P t then s.visitor.content.length else 0) := by
  have hmemE : ∀ {s' : HtmlSt}, PInv P s' → s'.enter = some t.name → t.name ∈ P := fun h he => h.enter _ he
  have hmemL : ∀ {s' : HtmlSt}, PInv P s' → s'.leave = some t.name → t.name ∈ P := fun h he => h.leave _ he
  have hled : ∀ (s' : HtmlSt) (o : Bytes), (ledger s' o).length = o.length + (flat s'.stack).length := by
    intro s' o; simp [ledger]
  cases hk : t.kind with
  | startTag =>
    rw [stepTok_start tk ev s out t hk]
    obtain ⟨a1, a2, a3, a4⟩ := onStart_len s t.name t.raw hP
    generalize onStart s t.name t.raw = p1 at a1 a2 a3 a4
    obtain ⟨s1, d1⟩ := p1
    simp only at a1 a2 a3 a4 ⊢
    by_cases hv : isVoid t.name = true
    · rw [if_pos hv]
      obtain ⟨b1, b2, b3⟩ := onEnd_len hl ev s1 t.name d1 a2
      generalize onEnd tk ev s1 t.name d1 = p2 at b1 b2 b3
      obtain ⟨s2, d2⟩ := p2
      simp only at b1 b2 b3 ⊢
      obtain ⟨c1, c2, c3⟩ := push_len s2 out d2 b2
      refine ⟨by rw [c1]; exact b1.trans a1, c2, ?_⟩
      rw [c3, hled, hled]
      have hK := K_of_static a1
      have hsum := Ke_add_Kl s.visitor
      by_cases hon : onPath P t = true
      · rw [if_pos hon]
        have h1 : (if s.enter = some t.name then Ke s.visitor else 0) ≤ Ke s.visitor := by split <;> omega
        have h2 : (if s1.leave = some t.name then Kl s1.visitor else 0) ≤ Kl s.visitor := by
          rw [hK.2]; split <;> omega
        omega
      · rw [if_neg hon]
        have hne : ¬ s.enter = some t.name := fun e => hon (onPath_of (by simp [hk, isTagKind]) (hmemE hP e))
        have hnl : ¬ s1.leave = some t.name := fun e => hon (onPath_of (by simp [hk, isTagKind]) (hmemL a2 e))
        rw [if_neg hne] at a4
        rw [if_neg hnl] at b3
        omega
    · rw [if_neg hv]
      obtain ⟨c1, c2, c3⟩ := push_len s1 out d1 a2
      refine ⟨by rw [c1]; exact a1, c2, ?_⟩
      rw [c3, hled, hled]
      by_cases hon : onPath P t = true
      · rw [if_pos hon]
        have h1 : (if s.enter = some t.name then Ke s.visitor else 0) ≤ s.visitor.content.length := by
          have := Ke_add_Kl s.visitor; split <;> omega
        omega
      · rw [if_neg hon]
        have hne : ¬ s.enter = some t.name := fun e => hon (onPath_of (by simp [hk, isTagKind]) (hmemE hP e))
        rw [if_neg hne] at a4
        omega
  | endTag =>
    rw [stepTok_end tk ev s out t hk]
    obtain ⟨b1, b2, b3⟩ := onEnd_len hl ev s t.name t.raw hP
    generalize onEnd tk ev s t.name t.raw = p2 at b1 b2 b3
    obtain ⟨s2, d2⟩ := p2
    simp only at b1 b2 b3 ⊢
    obtain ⟨c1, c2, c3⟩ := push_len s2 out d2 b2
    refine ⟨by rw [c1]; exact b1, c2, ?_⟩
    rw [c3, hled, hled]
    by_cases hon : onPath P t = true
    · rw [if_pos hon]
      have h2 : (if s.leave = some t.name then Kl s.visitor else 0) ≤ s.visitor.content.length := by
        have := Ke_add_Kl s.visitor; split <;> omega
      omega
    · rw [if_neg hon]
      have hnl : ¬ s.leave = some t.name := fun e => hon (onPath_of (by simp [hk, isTagKind]) (hmemL hP e))
      rw [if_neg hnl] at b3
      omega
  | selfClosing =>
    rw [stepTok_self tk ev s out t hk]
    obtain ⟨a1, a2, a3, a4⟩ := onStart_len s t.name t.raw hP
    generalize onStart s t.name t.raw = p1 at a1 a2 a3 a4
    obtain ⟨s1, d1⟩ := p1
    simp only at a1 a2 a3 a4 ⊢
    obtain ⟨b1, b2, b3⟩ := onEnd_len hl ev s1 t.name d1 a2
    generalize onEnd tk ev s1 t.name d1 = p2 at b1 b2 b3
    obtain ⟨s2, d2⟩ := p2
    simp only at b1 b2 b3 ⊢
    obtain ⟨c1, c2, c3⟩ := push_len s2 out d2 b2
    refine ⟨by rw [c1]; exact b1.trans a1, c2, ?_⟩
    rw [c3, hled, hled]
    have hK := K_of_static a1
    have hsum := Ke_add_Kl s.visitor
    by_cases hon : onPath P t = true
    · rw [if_pos hon]
      have h1 : (if s.enter = some t.name then Ke s.visitor else 0) ≤ Ke s.visitor := by split <;> omega
      have h2 : (if s1.leave = some t.name then Kl s1.visitor else 0) ≤ Kl s.visitor := by
        rw [hK.2]; split <;> omega
      omega
    · rw [if_neg hon]
      have hne : ¬ s.enter = some t.name := fun e => hon (onPath_of (by simp [hk, isTagKind]) (hmemE hP e))
      have hnl : ¬ s1.leave = some t.name := fun e => hon (onPath_of (by simp [hk, isTagKind]) (hmemL a2 e))
      rw [if_neg hne] at a4
      rw [if_neg hnl] at b3
      omega
  | text =>
    rw [stepTok_other tk ev s out t (by simp [hk, isTagKind])]
    obtain ⟨c1, c2, c3⟩ := push_len s out t.raw hP
    exact ⟨by rw [c1], c2, by rw [c3]; omega⟩
  | other =>
    rw [stepTok_other tk ev s out t (by simp [hk, isTagKind])]
    obtain ⟨c1, c2, c3⟩ := push_len s out t.raw hP
    exact ⟨by rw [c1], c2, by rw [c3]; omega⟩

/-- **At most one copy of the value per tag token named on the path.** -/
theorem fold_len {tk : Tokenize} (hl : Lossless tk) (ev : Bytes → Bytes → Bool) {P : List Bytes} :
    ∀ (T : List Tok) (s : HtmlSt) (out : Bytes), PInv P s →
      (ledger (T.foldl (stepTok tk ev) (s, out)).1 (T.foldl (stepTok tk ev) (s, out)).2).length ≤
        (ledger s out).length + (rawsOf T).length + s.visitor.content.length * (T.filter (onPath P)).length
  | [], s, out, _ => by simp [rawsOf]
  | t :: T, s, out, hP => by
    obtain ⟨a1, a2, a3⟩ := stepTok_len hl ev s out t hP
    rw [List.foldl_cons]
    generalize stepTok tk ev (s, out) t = p at a1 a2 a3
    obtain ⟨s1, o1⟩ := p
    simp only at a1 a2 a3
    have ih := fold_len hl ev T s1 o1 a2
    rw [content_of_static a1] at ih
    rw [rawsOf_cons, List.length_append, List.filter_cons]
    by_cases hon : onPath P t = true
    · rw [if_pos hon] at a3
      simp only [hon, if_true, List.length_cons]
      rw [Nat.mul_succ]
      omega
    · rw [if_neg hon] at a3
      simp only [hon, Bool.false_eq_true, if_false]
      omega

/-! ### from lengths to the number of copies -/

/-- `InsN c k a b`: `b` is `a` after `k` insertions of whole copies of `c` -/
inductive InsN (c : Bytes) : Nat → Bytes → Bytes → Prop
  | refl (a : Bytes) : InsN c 0 a a
  | ins {k : Nat} {a p q : Bytes} : InsN c k a (p ++ q) → InsN c (k + 1) a (p ++ c ++ q)

theorem Edit_count {c a b : Bytes} (h : Edit [c] [] a b) : ∃ k, InsN c k a b ∧ b.length = a.length + k * c.length := by
  induction h with
  | refl => exact ⟨0, .refl _, by simp⟩
  | @ins p q v hv _ ih =>
    obtain ⟨k, h1, h2⟩ := ih
    have : v = c := by simpa using hv
    subst this
    refine ⟨k + 1, .ins h1, ?_⟩
    simp at h2 ⊢
    rw [Nat.succ_mul]; omega
  | rep hv => simp at hv

/-- a length bound bounds the number of copies (non-empty value) -/
theorem count_of_len {c a b : Bytes} {N : Nat} (hc : c ≠ []) (h : Edit [c] [] a b)
    (hlen : b.length ≤ a.length + c.length * N) : ∃ k, k ≤ N ∧ InsN c k a b := by
  obtain ⟨k, h1, h2⟩ := Edit_count h
  refine ⟨k, ?_, h1⟩
  have hpos : 0 < c.length := by cases c with | nil => exact absurd rfl hc | cons _ _ => simp
  rw [h2, Nat.mul_comm c.length N] at hlen
  have : k * c.length ≤ N * c.length := by omega
  exact Nat.le_of_mul_le_mul_right this hpos

/-! ### the tighter bound (review C, C04-2): one copy per OPENER (visitors that insert at `enter`: prepend_child without
selector) resp. per CLOSER (all others) named on the path -/

/-- a token that opens an element for the stage: `on_start_tag_token` is called -/
def isOpener (t : Tok) : Bool := t.kind == .startTag || t.kind == .selfClosing

/-- a token that closes an element for the stage: `on_end_tag_token` is called -/
def isCloser (t : Tok) : Bool := t.kind == .endTag || t.kind == .selfClosing || (t.kind == .startTag && isVoid t.name)

/-- the tokens at which the visitor `v` can insert a copy of its value -/
def insTok (v : Visitor) (P : List Bytes) (t : Tok) : Bool :=
  P.contains t.name && (if insAtEnter v then isOpener t else isCloser t)

theorem insTok_of_static {v w : Visitor} (h : v.static = w.static) (P : List Bytes) (t : Tok) :
    insTok v P t = insTok w P t := by
  unfold insTok; rw [insAtEnter_of_static h]

theorem stepTok_len2 {tk : Tokenize} (hl : Lossless tk) (ev : Bytes → Bytes → Bool) {P : List Bytes} (s : HtmlSt)
    (out : Bytes) (t : Tok) (hP : PInv P s) :
    (stepTok tk ev (s, out) t).1.visitor.static = s.visitor.static ∧ PInv P (stepTok tk ev (s, out) t).1 ∧
    (ledger (stepTok tk ev (s, out) t).1 (stepTok tk ev (s, out) t).2).length ≤
      (ledger s out).length + t.raw.length + (if insTok s.visitor P t then s.visitor.content.length else 0) := by
  have hmemE : ∀ {s' : HtmlSt}, PInv P s' → s'.enter = some t.name → P.contains t.name = true :=
    fun h he => by simpa using h.enter _ he
  have hmemL : ∀ {s' : HtmlSt}, PInv P s' → s'.leave = some t.name → P.contains t.name = true :=
    fun h he => by simpa using h.leave _ he
  have hled : ∀ (s' : HtmlSt) (o : Bytes), (ledger s' o).length = o.length + (flat s'.stack).length := by
    intro s' o; simp [ledger]
  have hsum := Ke_add_Kl s.visitor
  -- the two ways a copy can appear, in terms of `insTok`
  have hE : isOpener t = true → (if s.enter = some t.name then Ke s.visitor else 0) ≤
      (if insTok s.visitor P t then s.visitor.content.length else 0) := by
    intro ho
    by_cases he : s.enter = some t.name
    · rw [if_pos he]
      unfold Ke
      by_cases hie : insAtEnter s.visitor = true
      · have : insTok s.visitor P t = true := by
          unfold insTok; rw [hmemE hP he, if_pos hie, ho]; rfl
        rw [if_pos hie, if_pos this]; exact Nat.le_refl _
      · rw [if_neg hie]; exact Nat.zero_le _
    · rw [if_neg he]; exact Nat.zero_le _
  have hL : ∀ s1 : HtmlSt, PInv P s1 → s1.visitor.static = s.visitor.static → isCloser t = true →
      (if s1.leave = some t.name then Kl s1.visitor else 0) ≤
        (if insTok s.visitor P t then s.visitor.content.length else 0) := by
    intro s1 hP1 hst hc
    by_cases he : s1.leave = some t.name
    · rw [if_pos he, (K_of_static hst).2]
      unfold Kl
      by_cases hie : insAtEnter s.visitor = true
      · rw [if_pos hie]; exact Nat.zero_le _
      · have : insTok s.visitor P t = true := by
          unfold insTok; rw [hmemL hP1 he, if_neg hie, hc]; rfl
        rw [if_neg hie, if_pos this]; exact Nat.le_refl _
    · rw [if_neg he]; exact Nat.zero_le _
  -- enter and leave never both insert
  have hEL : ∀ (a b : Nat), a ≤ (if insTok s.visitor P t then s.visitor.content.length else 0) →
      b ≤ (if insTok s.visitor P t then s.visitor.content.length else 0) → (a = 0 ∨ b = 0) →
      a + b ≤ (if insTok s.visitor P t then s.visitor.content.length else 0) := by
    intro a b ha hb h0; rcases h0 with h0 | h0 <;> omega
  have hzero : ∀ s1 : HtmlSt, s1.visitor.static = s.visitor.static →
      (if s.enter = some t.name then Ke s.visitor else 0) = 0 ∨ (if s1.leave = some t.name then Kl s1.visitor else 0) = 0 := by
    intro s1 hst
    rw [(K_of_static hst).2]
    unfold Ke Kl
    by_cases hie : insAtEnter s.visitor = true
    · right; rw [if_pos hie]; split <;> rfl
    · left; rw [if_neg hie]; split <;> rfl
  cases hk : t.kind with
  | startTag =>
    have hop : isOpener t = true := by simp [isOpener, hk]
    rw [stepTok_start tk ev s out t hk]
    obtain ⟨a1, a2, a3, a4⟩ := onStart_len s t.name t.raw hP
    generalize onStart s t.name t.raw = p1 at a1 a2 a3 a4
    obtain ⟨s1, d1⟩ := p1
    simp only at a1 a2 a3 a4 ⊢
    by_cases hv : isVoid t.name = true
    · rw [if_pos hv]
      have hcl : isCloser t = true := by simp [isCloser, hk, hv]
      obtain ⟨b1, b2, b3⟩ := onEnd_len hl ev s1 t.name d1 a2
      generalize onEnd tk ev s1 t.name d1 = p2 at b1 b2 b3
      obtain ⟨s2, d2⟩ := p2
      simp only at b1 b2 b3 ⊢
      obtain ⟨c1, c2, c3⟩ := push_len s2 out d2 b2
      refine ⟨by rw [c1]; exact b1.trans a1, c2, ?_⟩
      rw [c3, hled, hled]
      have := hEL _ _ (hE hop) (hL s1 a2 a1 hcl) (hzero s1 a1)
      omega
    · rw [if_neg hv]
      obtain ⟨c1, c2, c3⟩ := push_len s1 out d1 a2
      refine ⟨by rw [c1]; exact a1, c2, ?_⟩
      rw [c3, hled, hled]
      have := hE hop
      omega
  | endTag =>
    have hcl : isCloser t = true := by simp [isCloser, hk]
    rw [stepTok_end tk ev s out t hk]
    obtain ⟨b1, b2, b3⟩ := onEnd_len hl ev s t.name t.raw hP
    generalize onEnd tk ev s t.name t.raw = p2 at b1 b2 b3
    obtain ⟨s2, d2⟩ := p2
    simp only at b1 b2 b3 ⊢
    obtain ⟨c1, c2, c3⟩ := push_len s2 out d2 b2
    refine ⟨by rw [c1]; exact b1, c2, ?_⟩
    rw [c3, hled, hled]
    have := hL s hP rfl hcl
    omega
  | selfClosing =>
    have hop : isOpener t = true := by simp [isOpener, hk]
    have hcl : isCloser t = true := by simp [isCloser, hk]
    rw [stepTok_self tk ev s out t hk]
    obtain ⟨a1, a2, a3, a4⟩ := onStart_len s t.name t.raw hP
    generalize onStart s t.name t.raw = p1 at a1 a2 a3 a4
    obtain ⟨s1, d1⟩ := p1
    simp only at a1 a2 a3 a4 ⊢
    obtain ⟨b1, b2, b3⟩ := onEnd_len hl ev s1 t.name d1 a2
    generalize onEnd tk ev s1 t.name d1 = p2 at b1 b2 b3
    obtain ⟨s2, d2⟩ := p2
    simp only at b1 b2 b3 ⊢
    obtain ⟨c1, c2, c3⟩ := push_len s2 out d2 b2
    refine ⟨by rw [c1]; exact b1.trans a1, c2, ?_⟩
    rw [c3, hled, hled]
    have := hEL _ _ (hE hop) (hL s1 a2 a1 hcl) (hzero s1 a1)
    omega
  | text =>
    rw [stepTok_other tk ev s out t (by simp [hk, isTagKind])]
    obtain ⟨c1, c2, c3⟩ := push_len s out t.raw hP
    exact ⟨by rw [c1], c2, by rw [c3]; omega⟩
  | other =>
    rw [stepTok_other tk ev s out t (by simp [hk, isTagKind])]
    obtain ⟨c1, c2, c3⟩ := push_len s out t.raw hP
    exact ⟨by rw [c1], c2, by rw [c3]; omega⟩

/-- **At most one copy of the value per opener (prepend_child without selector) / per closer (append_child, prepend_child
with a selector) named on the path.** -/
theorem fold_len2 {tk : Tokenize} (hl : Lossless tk) (ev : Bytes → Bytes → Bool) {P : List Bytes} :
    ∀ (T : List Tok) (s : HtmlSt) (out : Bytes), PInv P s →
      (ledger (T.foldl (stepTok tk ev) (s, out)).1 (T.foldl (stepTok tk ev) (s, out)).2).length ≤
        (ledger s out).length + (rawsOf T).length + s.visitor.content.length * (T.filter (insTok s.visitor P)).length
  | [], s, out, _ => by simp [rawsOf]
  | t :: T, s, out, hP => by
    obtain ⟨a1, a2, a3⟩ := stepTok_len2 hl ev s out t hP
    rw [List.foldl_cons]
    generalize stepTok tk ev (s, out) t = p at a1 a2 a3
    obtain ⟨s1, o1⟩ := p
    simp only at a1 a2 a3
    have ih := fold_len2 hl ev T s1 o1 a2
    rw [content_of_static a1] at ih
    have hfun : insTok s1.visitor P = insTok s.visitor P := funext fun t' => insTok_of_static a1 P t'
    rw [hfun] at ih
    rw [rawsOf_cons, List.length_append, List.filter_cons]
    by_cases hon : insTok s.visitor P t = true
    · rw [if_pos hon] at a3
      simp only [hon, if_true, List.length_cons]
      rw [Nat.mul_succ]
      omega
    · rw [if_neg hon] at a3
      simp only [hon, Bool.false_eq_true, if_false]
      omega

end Rio.Filter
