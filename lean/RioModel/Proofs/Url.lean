/-
Helper lemmas for C09, part 3: normal form of the request side, the rule side, and their agreement.
-/
import RioModel.Proofs.UrlEnc
import RioModel.Proofs.UrlMap
set_option linter.unusedSimpArgs false
set_option linter.unusedVariables false

namespace Rio.Url

/-! ### the parameter loop of `from_config` -/

/-- `for p in ps { if !acc.is_empty() { acc.push('&') } acc.push_str(p) }` from the empty string. -/
def joinParams (ps : List Bytes) : Bytes := ps.foldl pushParam []

def notMarketing (cfg : Cfg) (kv : Bytes × Bytes) : Bool := !isMarketing cfg kv.1

/-- the kept (non-marketing) part of the query string. -/
def keptOf (cfg : Cfg) (m : Map) : Bytes := joinParams ((m.filter (notMarketing cfg)).map reqParam)

/-- the skipped (marketing) part. -/
def skippedStr (cfg : Cfg) (m : Map) : Bytes :=
  joinParams ((m.filter (fun kv => isMarketing cfg kv.1)).map reqParam)

theorem splitParams_eq (cfg : Cfg) (m : Map) : splitParams cfg m = (keptOf cfg m, skippedStr cfg m) := by
  unfold splitParams keptOf skippedStr joinParams
  have : ∀ (a b : Bytes),
      m.foldl (fun (acc : Bytes × Bytes) kv =>
        if isMarketing cfg kv.1 then (acc.1, pushParam acc.2 (reqParam kv))
        else (pushParam acc.1 (reqParam kv), acc.2)) (a, b) =
      (((m.filter (notMarketing cfg)).map reqParam).foldl pushParam a,
       ((m.filter (fun kv => isMarketing cfg kv.1)).map reqParam).foldl pushParam b) := by
    induction m with
    | nil => intro a b; rfl
    | cons kv rest ih =>
      intro a b
      rw [List.foldl_cons]
      cases hk : isMarketing cfg kv.1 with
      | true => simp [ih, List.filter_cons, notMarketing, hk]
      | false => simp [ih, List.filter_cons, notMarketing, hk]
  exact this [] []

/-- `&`-separated concatenation. -/
def amp : List Bytes → Bytes
  | [] => []
  | p :: rest => p ++ rest.flatMap (38 :: ·)

theorem foldl_pushParam_of_ne (acc : Bytes) (hacc : acc ≠ []) (ps : List Bytes) :
    ps.foldl pushParam acc = acc ++ ps.flatMap (38 :: ·) := by
  induction ps generalizing acc with
  | nil => simp
  | cons p rest ih =>
    rw [List.foldl_cons]
    have h1 : pushParam acc p = acc ++ 38 :: p := by
      cases acc with
      | nil => exact absurd rfl hacc
      | cons a as => simp [pushParam]
    rw [h1, ih _ (by simp)]
    simp

/-- when no rendered parameter is empty the loop is plain `&`-joining. -/
theorem joinParams_eq_amp {ps : List Bytes} (h : ∀ p ∈ ps, p ≠ []) : joinParams ps = amp ps := by
  cases ps with
  | nil => rfl
  | cons p rest =>
    unfold joinParams amp
    rw [List.foldl_cons]
    have hp : p ≠ [] := h p (by simp)
    have : pushParam [] p = p := by simp [pushParam]
    rw [this, foldl_pushParam_of_ne p hp]

theorem flatMap_amp_shift (ps : List Bytes) :
    38 :: ps.flatMap (· ++ [38]) = ps.flatMap (38 :: ·) ++ [38] := by
  induction ps with
  | nil => rfl
  | cons p rest ih =>
    simp only [List.flatMap_cons, List.append_assoc, List.cons_append, List.nil_append]
    rw [ih]

/-- `s.pop()` after appending `p&` for every `p`. -/
theorem dropLast_flatMap_amp (ps : List Bytes) : (ps.flatMap (· ++ [38])).dropLast = amp ps := by
  cases ps with
  | nil => rfl
  | cons p rest =>
    simp only [List.flatMap_cons, amp, List.append_assoc, List.cons_append, List.nil_append]
    rw [flatMap_amp_shift, ← List.append_assoc, List.dropLast_concat]

theorem pctEncode_amp {S : List Nat} (h38 : shouldEncode S 38 = false) (ps : List Bytes) :
    pctEncode S (amp ps) = amp (ps.map (pctEncode S)) := by
  cases ps with
  | nil => rfl
  | cons p rest =>
    simp only [amp, pctEncode_append, List.map_cons]
    congr 1
    induction rest with
    | nil => rfl
    | cons q rest ih =>
      simp only [List.flatMap_cons, pctEncode_append, List.map_cons, ih, pctEncode_cons,
        encOne_of_false h38, List.cons_append, List.nil_append]

theorem amp_eq_nil {ps : List Bytes} (h : ∀ p ∈ ps, p ≠ []) : amp ps = [] ↔ ps = [] := by
  cases ps with
  | nil => simp [amp]
  | cons p rest =>
    simp only [amp, List.append_eq_nil_iff, reduceCtorEq, iff_false, not_and]
    intro hp; exact absurd hp (h p (by simp))

/-! ### `PathAndQuery` on a sanitised URL -/

theorem shouldEncode_urlSet_35 : shouldEncode urlSet 35 = true := by decide

theorem not_mem_sanitize_35 (u : Bytes) : 35 ∉ sanitize u := by
  intro h
  have := (mem_pctEncode (S := urlSet) (s := u) (c := 35) (by omega)).mp h
  rw [shouldEncode_urlSet_35] at this
  exact absurd this.2 (by simp)

theorem pathClass_query {b : Nat} (h : pathClass b = .query) : b = 63 := by
  unfold pathClass at h
  split at h
  · rename_i hb; simpa using hb
  · split at h
    · cases h
    · split at h
      · cases h
      · split at h
        · cases h
        · split at h <;> cases h

theorem pathClass_63 : pathClass 63 = .query := by decide

theorem pathClass_fragment {b : Nat} (h : pathClass b = .fragment) : b = 35 := by
  unfold pathClass at h
  split at h
  · cases h
  · split at h
    · rename_i hb; simpa using hb
    · split at h
      · cases h
      · split at h
        · cases h
        · split at h <;> cases h

theorem queryClass_fragment {b : Nat} (h : queryClass b = .fragment) : b = 35 := by
  unfold queryClass at h
  split at h
  · rename_i hb; simpa using hb
  · split at h
    · cases h
    · split at h <;> cases h

theorem scanPath_eq_splitFirst {s p : Bytes} {q : Option Bytes} (h : scanPath s = some (p, q))
    (h35 : 35 ∉ s) : (p, q) = splitFirst 63 s := by
  induction s generalizing p q with
  | nil => simp [scanPath] at h; simp [splitFirst, h]
  | cons b r ih =>
    have h35r : 35 ∉ r := fun e => h35 (List.mem_cons_of_mem _ e)
    have hb35 : b ≠ 35 := fun e => h35 (by simp [e])
    unfold scanPath at h
    by_cases hb : b = 63
    · subst hb
      rw [pathClass_63] at h
      simp at h
      simp [splitFirst, h]
    · have hsf : splitFirst 63 (b :: r) = (b :: (splitFirst 63 r).1, (splitFirst 63 r).2) := by
        simp [splitFirst, hb]
      rw [hsf]
      cases hc : pathClass b with
      | query => exact absurd (pathClass_query hc) hb
      | fragment => exact absurd (pathClass_fragment hc) hb35
      | invalid => rw [hc] at h; simp at h
      | valid =>
        rw [hc] at h
        cases hr : scanPath r with
        | none => simp [hr] at h
        | some pq =>
          obtain ⟨p', q'⟩ := pq
          simp [hr] at h
          have := ih hr h35r
          rw [← this]; simp [h]
      | high =>
        rw [hc] at h
        cases hr : scanPath r with
        | none => simp [hr] at h
        | some pq =>
          obtain ⟨p', q'⟩ := pq
          simp [hr] at h
          have := ih hr h35r
          rw [← this]; simp [h]

theorem scanQuery_eq {r q : Bytes} (h : scanQuery r = some q) (h35 : 35 ∉ r) : q = r := by
  induction r generalizing q with
  | nil => simp [scanQuery] at h; exact h
  | cons b r ih =>
    have h35r : 35 ∉ r := fun e => h35 (List.mem_cons_of_mem _ e)
    have hb35 : b ≠ 35 := fun e => h35 (by simp [e])
    unfold scanQuery at h
    cases hc : queryClass b with
    | fragment => exact absurd (queryClass_fragment hc) hb35
    | invalid => rw [hc] at h; simp at h
    | query => rw [hc] at h; simp at h
    | valid =>
      rw [hc] at h
      cases hr : scanQuery r with
      | none => simp [hr] at h
      | some q' => simp [hr] at h; rw [← h, ih hr h35r]
    | high =>
      rw [hc] at h
      cases hr : scanQuery r with
      | none => simp [hr] at h
      | some q' => simp [hr] at h; rw [← h, ih hr h35r]

/-- what `pqParse` returns when it accepts (the `*` case is an instance of the general scan). -/
theorem pqParse_some {s p : Bytes} {q : Option Bytes} (h : pqParse s = some (p, q)) :
    (∃ q', scanPath s = some (p, q') ∧
      ((q' = none ∧ q = none) ∨ ∃ r, q' = some r ∧ ∃ q0, scanQuery r = some q0 ∧ q = some q0)) := by
  unfold pqParse at h
  split at h
  · cases h
  · split at h
    · cases h
    · split at h
      · rename_i hs
        have hs : s = [42] := by simpa using hs
        subst hs
        simp at h
        refine ⟨none, ?_, Or.inl ⟨rfl, h.2.symm⟩⟩
        rw [← h.1]; decide
      · split at h
        · cases h
        · cases hsp : scanPath s with
          | none => simp [hsp] at h
          | some pq =>
            obtain ⟨p', q'⟩ := pq
            cases q' with
            | none =>
              simp [hsp] at h
              exact ⟨none, by rw [h.1], Or.inl ⟨rfl, h.2.symm⟩⟩
            | some r =>
              cases hsq : scanQuery r with
              | none => simp [hsp, hsq] at h
              | some q0 =>
                simp [hsp, hsq] at h
                exact ⟨some r, by rw [h.1], Or.inr ⟨r, rfl, q0, hsq, h.2.symm⟩⟩

theorem mem_of_splitFirst_snd {c : Nat} {s r : Bytes} (h : (splitFirst c s).2 = some r) :
    ∀ x ∈ r, x ∈ s := by
  induction s with
  | nil => simp [splitFirst] at h
  | cons b t ih =>
    by_cases hb : b = c
    · simp [splitFirst, hb] at h
      subst h; intro x hx; exact List.mem_cons_of_mem _ hx
    · simp [splitFirst, hb] at h
      intro x hx; exact List.mem_cons_of_mem _ (ih h x hx)

theorem shouldEncode_urlSet_63 : shouldEncode urlSet 63 = false := by decide

/-- **an accepted sanitised URL is cut at its first `?`, and the cut commutes with sanitising.** -/
theorem pqParse_sanitize {u p : Bytes} {q : Option Bytes} (h : pqParse (sanitize u) = some (p, q)) :
    p = sanitize (splitFirst 63 u).1 ∧ q = (splitFirst 63 u).2.map sanitize := by
  obtain ⟨q', hsp, hq⟩ := pqParse_some h
  have h35 := not_mem_sanitize_35 u
  have hsf := scanPath_eq_splitFirst hsp h35
  have hcomm : splitFirst 63 (sanitize u) =
      (sanitize (splitFirst 63 u).1, (splitFirst 63 u).2.map sanitize) :=
    splitFirst_pctEncode isDelim_63 shouldEncode_urlSet_63 u
  rw [hcomm] at hsf
  simp only [Prod.mk.injEq] at hsf
  refine ⟨hsf.1, ?_⟩
  rcases hq with ⟨h1, h2⟩ | ⟨r, h1, q0, hsq, h2⟩
  · rw [h2, ← hsf.2, h1]
  · rw [h2, ← hsf.2, h1]
    congr 1
    apply scanQuery_eq hsq
    intro hx
    have hr : (splitFirst 63 (sanitize u)).2 = some r := by rw [hcomm, ← hsf.2, h1]
    exact h35 (mem_of_splitFirst_snd hr 35 hx)

theorem shouldEncode_urlSet_43 : shouldEncode urlSet 43 = false := by decide

/-! ### normal form of the request side -/

/-- the normalised path-and-query for path `path` and collected parameters `m`. -/
def npq (cfg : Cfg) (path : Bytes) (m : Map) : Bytes :=
  if !(keptOf cfg m).isEmpty then path ++ 63 :: keptOf cfg m else path

def skippedOf (cfg : Cfg) (m : Map) : Option Bytes :=
  if cfg.passMarketing && !(skippedStr cfg m).isEmpty then some (skippedStr cfg m) else none

theorem keptOf_nil (cfg : Cfg) : keptOf cfg [] = [] := rfl
theorem skippedStr_nil (cfg : Cfg) : skippedStr cfg [] = [] := rfl

/-- **Hub lemma.** When the sanitised URL is accepted, the four fields are functions of the
sanitised path before the first `?` and of the collected decoded parameters of the RAW query. -/
theorem fromConfig_accepted (cfg : Cfg) (u : Bytes) (hb : IsBytes u)
    (hacc : (pqParse (sanitize u)).isSome = true) :
    fromConfig cfg u =
      { pathAndQuery := npq cfg (pqPath (sanitize (splitFirst 63 u).1)) (paramsOf u),
        matching := some (lowerIf cfg.ignoreCase (npq cfg (pqPath (sanitize (splitFirst 63 u).1)) (paramsOf u))),
        skipped := skippedOf cfg (paramsOf u),
        original := u } := by
  cases hp : pqParse (sanitize u) with
  | none => rw [hp] at hacc; cases hacc
  | some pq =>
    obtain ⟨p, q⟩ := pq
    obtain ⟨hp1, hq1⟩ := pqParse_sanitize hp
    unfold fromConfig
    simp only [hp]
    cases hq : (splitFirst 63 u).2 with
    | none =>
      rw [hq] at hq1
      simp only [Option.map_none] at hq1
      subst hq1
      have hm : paramsOf u = [] := by simp [paramsOf, hq]
      simp only [hm, npq, skippedOf, keptOf_nil, skippedStr_nil, hp1]
    | some Q =>
      rw [hq] at hq1
      simp only [Option.map_some] at hq1
      subst hq1
      have hQ : IsBytes Q := (IsBytes_splitFirst (c := 63) hb).2 Q hq
      have hm : paramsOf u = btCollect (parseQuery Q) := by simp [paramsOf, hq]
      have hpar : parseQuery (sanitize Q) = parseQuery Q :=
        parseQuery_pctEncode safe_urlSet shouldEncode_urlSet_43 Q hQ
      simp only [hpar, splitParams_eq, hm, npq, skippedOf, hp1]

/-! ### the rule side -/

theorem shouldEncode_mono {S0 S1 : List Nat} (h : ∀ x ∈ S0, x ∈ S1) (b : Nat)
    (hb : shouldEncode S0 b = true) : shouldEncode S1 b = true := by
  unfold shouldEncode at hb ⊢
  simp only [Bool.or_eq_true, List.contains_iff_mem] at hb ⊢
  rcases hb with hb | hb
  · exact Or.inl hb
  · exact Or.inr (h b hb)

theorem ruleQuerySet_eq : ruleQuerySet = querySet := by decide
theorem ruleUrlSet_eq : ruleUrlSet = urlSet := by decide
theorem sortedQuerySet_sub : ∀ x ∈ sortedQuerySet, x ∈ querySet := by decide

/-- a parameter as `build_sorted_query` renders it (without its trailing `&`). -/
def sortedBody (kv : Bytes × Bytes) : Bytes :=
  pctEncode sortedQuerySet kv.1 ++ (if !kv.2.isEmpty then 61 :: pctEncode sortedQuerySet kv.2 else [])

theorem sortedParam_eq (kv : Bytes × Bytes) : sortedParam kv = sortedBody kv ++ [38] := rfl

theorem shouldEncode_querySet_61 : shouldEncode querySet 61 = false := by decide
theorem shouldEncode_querySet_38 : shouldEncode querySet 38 = false := by decide

/-- the second encoding pass of the rule side turns the first-pass rendering into the request-side
rendering (`+` is the only byte the second set adds; `%XX` escapes survive). -/
theorem pctEncode_sortedBody (kv : Bytes × Bytes) :
    pctEncode querySet (sortedBody kv) = reqParam kv := by
  unfold sortedBody reqParam
  rw [pctEncode_append, pctEncode_pctEncode safe_querySet (shouldEncode_mono sortedQuerySet_sub)]
  congr 1
  cases hv : kv.2.isEmpty with
  | true => simp
  | false =>
    simp only [Bool.not_false, if_true, pctEncode_cons, encOne_of_false shouldEncode_querySet_61,
      List.cons_append, List.nil_append]
    rw [pctEncode_pctEncode safe_querySet (shouldEncode_mono sortedQuerySet_sub)]

theorem reqParam_eq_nil {kv : Bytes × Bytes} : reqParam kv = [] ↔ kv = ([], []) := by
  obtain ⟨k, v⟩ := kv
  unfold reqParam
  cases v with
  | nil =>
    simp only [List.isEmpty_nil, Bool.not_true, Bool.false_eq_true, if_false, List.append_nil,
      pctEncode_eq_nil, Prod.mk.injEq, and_true]
  | cons b r => simp

theorem sortedBody_eq_nil {kv : Bytes × Bytes} : sortedBody kv = [] ↔ kv = ([], []) := by
  obtain ⟨k, v⟩ := kv
  unfold sortedBody
  cases v with
  | nil =>
    simp only [List.isEmpty_nil, Bool.not_true, Bool.false_eq_true, if_false, List.append_nil,
      pctEncode_eq_nil, Prod.mk.injEq, and_true]
  | cons b r => simp

theorem buildSortedQuery_eq (q : Bytes) :
    buildSortedQuery q =
      if (amp ((btCollect (parseQuery q)).map sortedBody)).isEmpty then none
      else some (amp ((btCollect (parseQuery q)).map sortedBody)) := by
  unfold buildSortedQuery
  have : (btCollect (parseQuery q)).flatMap sortedParam =
      ((btCollect (parseQuery q)).map sortedBody).flatMap (· ++ [38]) := by
    rw [List.flatMap_map]; rfl
  simp only [this, dropLast_flatMap_amp]

/-- what follows the path in the rule's static string, for collected parameters `m`. -/
def ruleTail (m : Map) : Bytes :=
  if (amp (m.map sortedBody)).isEmpty then [] else 63 :: pctEncode ruleQuerySet (amp (m.map sortedBody))

theorem ruleKeyOf_eq (cfg : Cfg) (src : Source) :
    ruleKeyOf cfg src =
      lowerIf cfg.ignoreCase (pctEncode ruleUrlSet src.path ++
        match src.query with
        | none => []
        | some q => ruleTail (btCollect (parseQuery q))) := by
  unfold ruleKeyOf
  cases src.query with
  | none => simp
  | some q =>
    simp only [buildSortedQuery_eq, ruleTail]
    cases (amp ((btCollect (parseQuery q)).map sortedBody)).isEmpty <;> simp

/-- the parameter with empty name and empty value is alone or absent. -/
def EmptyParamAlone (m : Map) : Prop := ¬(([], []) ∈ m ∧ 2 ≤ m.length)

/-- **the two renderings of the parameter list agree** (rule: `p&` for each, pop, second pass;
request: push `&` only onto a non-empty accumulator). -/
theorem ruleTail_eq (m : Map) (h : EmptyParamAlone m) :
    ruleTail m =
      if !(joinParams (m.map reqParam)).isEmpty then 63 :: joinParams (m.map reqParam) else [] := by
  by_cases hmem : (([], []) : Bytes × Bytes) ∈ m
  · -- then m = [([], [])]
    have hlen : m.length ≤ 1 := by
      unfold EmptyParamAlone at h
      have : ¬ 2 ≤ m.length := fun h2 => h ⟨hmem, h2⟩
      omega
    match m, hmem, hlen with
    | [kv], hmem, _ =>
      have : kv = ([], []) := by simpa using Eq.symm (List.mem_singleton.mp hmem)
      subst this
      decide
  · have hb : ∀ p ∈ m.map sortedBody, p ≠ [] := by
      intro p hp
      obtain ⟨kv, hkv, rfl⟩ := List.mem_map.mp hp
      intro e; exact hmem (sortedBody_eq_nil.mp e ▸ hkv)
    have hr : ∀ p ∈ m.map reqParam, p ≠ [] := by
      intro p hp
      obtain ⟨kv, hkv, rfl⟩ := List.mem_map.mp hp
      intro e; exact hmem (reqParam_eq_nil.mp e ▸ hkv)
    have henc : pctEncode ruleQuerySet (amp (m.map sortedBody)) = joinParams (m.map reqParam) := by
      rw [ruleQuerySet_eq, pctEncode_amp shouldEncode_querySet_38, joinParams_eq_amp hr, List.map_map]
      congr 1
      apply List.map_congr_left
      intro kv _
      exact pctEncode_sortedBody kv
    unfold ruleTail
    rw [henc]
    have : (amp (m.map sortedBody)).isEmpty = (joinParams (m.map reqParam)).isEmpty := by
      rw [← henc, pctEncode_isEmpty]
    rw [this]
    cases (joinParams (m.map reqParam)).isEmpty <;> simp

theorem keptOf_of_no_marketing (cfg : Cfg) (m : Map)
    (h : m.all (fun kv => !isMarketing cfg kv.1) = true) : keptOf cfg m = joinParams (m.map reqParam) := by
  unfold keptOf
  rw [List.filter_eq_self.mpr]
  intro kv hkv
  rw [List.all_eq_true] at h
  exact h kv hkv

theorem pqPath_of_ne {p : Bytes} (h : p ≠ []) : pqPath p = p := by
  cases p with
  | nil => exact absurd rfl h
  | cons _ _ => rfl

theorem paramsOf_eq (u : Bytes) :
    paramsOf u = match (splitFirst 63 u).2 with
      | none => []
      | some q => btCollect (parseQuery q) := rfl

/-- `WFurl` as a proposition. -/
theorem WFurl_iff (cfg : Cfg) (u : Bytes) :
    WFurl cfg u = true ↔
      (pqParse (sanitize u)).isSome = true ∧ (splitFirst 63 u).1 ≠ [] ∧
      (paramsOf u).all (fun kv => !isMarketing cfg kv.1) = true ∧ EmptyParamAlone (paramsOf u) := by
  unfold WFurl EmptyParamAlone
  simp only [Bool.and_eq_true, Bool.not_eq_true', List.isEmpty_eq_false_iff, ne_eq, Bool.and_eq_false_imp,
    List.contains_iff_mem, decide_eq_true_eq, decide_eq_false_iff_not, not_and, Nat.not_le, and_assoc]
  done

/-- **self-match at the level of keys.** -/
theorem ruleKey_eq_reqKey (cfg : Cfg) (u : Bytes) (hb : IsBytes u) (hwf : WFurl cfg u = true) :
    ruleKey cfg u = reqKey cfg u := by
  obtain ⟨hacc, hpath, hmk, hemp⟩ := (WFurl_iff cfg u).mp hwf
  unfold reqKey ruleKey
  rw [fromConfig_accepted cfg u hb hacc, ruleKeyOf_eq]
  simp only [PQS.key, sourceOf]
  congr 1
  unfold npq
  rw [keptOf_of_no_marketing cfg _ hmk, ruleUrlSet_eq,
    pqPath_of_ne (p := sanitize (splitFirst 63 u).1) (fun e => hpath (pctEncode_eq_nil.mp e))]
  have htail : (match (splitFirst 63 u).2 with
      | none => []
      | some q => ruleTail (btCollect (parseQuery q))) = ruleTail (paramsOf u) := by
    rw [paramsOf_eq]
    cases (splitFirst 63 u).2 with
    | none => rfl
    | some q => rfl
  rw [htail, ruleTail_eq _ hemp]
  unfold sanitize
  cases (joinParams ((paramsOf u).map reqParam)).isEmpty <;> simp

/-! ### marketing parameters -/

/-- the query of `u` (empty when there is no `?`). -/
def queryOf (u : Bytes) : Bytes := ((splitFirst 63 u).2).getD []

theorem parseQuery_nil : parseQuery [] = [] := by decide

theorem paramsOf_queryOf (u : Bytes) : paramsOf u = btCollect (parseQuery (queryOf u)) := by
  unfold paramsOf queryOf
  cases (splitFirst 63 u).2 with
  | none => simp [parseQuery_nil, btCollect]
  | some q => rfl

/-- the non-empty `&`-pieces of a query whose decoded name is not an ignored marketing parameter. -/
def keptPieces (cfg : Cfg) (q : Bytes) : List Bytes :=
  ((pieces 38 q).filter (fun s => !s.isEmpty)).filter (fun s => !isMarketing cfg (parsePair s).1)

theorem filter_paramsOf (cfg : Cfg) (u : Bytes) :
    (paramsOf u).filter (notMarketing cfg) = btCollect ((keptPieces cfg (queryOf u)).map parsePair) := by
  rw [paramsOf_queryOf]
  have := filter_btCollect (fun k => !isMarketing cfg k) (parseQuery (queryOf u))
  unfold notMarketing
  rw [this]
  congr 1
  unfold parseQuery keptPieces
  rw [List.filter_map]
  rfl

theorem keptOf_congr (cfg : Cfg) {u u' : Bytes}
    (h : keptPieces cfg (queryOf u) = keptPieces cfg (queryOf u')) :
    keptOf cfg (paramsOf u) = keptOf cfg (paramsOf u') := by
  unfold keptOf
  rw [filter_paramsOf, filter_paramsOf, h]

theorem joinParams_eq_nil {ps : List Bytes} : joinParams ps = [] ↔ ∀ p ∈ ps, p = [] := by
  unfold joinParams
  constructor
  · intro h
    -- once the accumulator is non-empty it stays non-empty
    have key : ∀ (l : List Bytes) (acc : Bytes), l.foldl pushParam acc = [] → acc = [] ∧ ∀ p ∈ l, p = [] := by
      intro l
      induction l with
      | nil => intro acc h; exact ⟨h, fun _ hp => nomatch hp⟩
      | cons p rest ih =>
        intro acc h
        rw [List.foldl_cons] at h
        obtain ⟨h1, h2⟩ := ih _ h
        have hacc : acc = [] := by
          cases acc with
          | nil => rfl
          | cons a as => simp [pushParam] at h1
        subst hacc
        have hp : p = [] := by simpa [pushParam] using h1
        refine ⟨rfl, ?_⟩
        intro x hx
        rcases List.mem_cons.mp hx with e | e
        · rw [e, hp]
        · exact h2 x e
    exact (key ps [] h).2
  · intro h
    induction ps with
    | nil => rfl
    | cons p rest ih =>
      rw [List.foldl_cons]
      have hp : p = [] := h p (by simp)
      subst hp
      exact ih (fun x hx => h x (List.mem_cons_of_mem _ hx))

theorem skippedStr_ne_nil (cfg : Cfg) (m : Map) :
    skippedStr cfg m ≠ [] ↔ ∃ kv ∈ m, isMarketing cfg kv.1 = true ∧ kv ≠ ([], []) := by
  unfold skippedStr
  rw [Ne, joinParams_eq_nil]
  constructor
  · intro h
    apply Classical.byContradiction
    intro hn
    apply h
    intro p hp
    obtain ⟨kv, hkv, rfl⟩ := List.mem_map.mp hp
    have hkv' := List.mem_filter.mp hkv
    apply Classical.byContradiction
    intro hne
    exact hn ⟨kv, hkv'.1, hkv'.2, fun e => hne (reqParam_eq_nil.mpr e)⟩
  · rintro ⟨kv, hkv, hmk, hne⟩ h
    exact hne (reqParam_eq_nil.mp (h _ (List.mem_map.mpr ⟨kv, List.mem_filter.mpr ⟨hkv, hmk⟩, rfl⟩)))

theorem skippedStr_of_not_ignore (cfg : Cfg) (h : cfg.ignoreMarketing = false) (m : Map) :
    skippedStr cfg m = [] := by
  unfold skippedStr
  have : m.filter (fun kv => isMarketing cfg kv.1) = [] := by
    apply List.filter_eq_nil_iff.mpr
    intro kv _
    simp [isMarketing, h]
  rw [this]; rfl

/-! ### appending a parameter -/

theorem pieces_cons_sep (c : Nat) (b : Bytes) : pieces c (c :: b) = [] :: pieces c b := by
  simp [pieces, splitAll]

theorem pieces_cons_ne {c x : Nat} (h : x ≠ c) (b : Bytes) :
    pieces c (x :: b) = (x :: (splitAll c b).1) :: (splitAll c b).2 := by
  simp [pieces, splitAll, h]

theorem pieces_append_sep (c : Nat) (a b : Bytes) : pieces c (a ++ c :: b) = pieces c a ++ pieces c b := by
  induction a with
  | nil => simp [pieces_cons_sep]; simp [pieces, splitAll]
  | cons x a ih =>
    by_cases hx : x = c
    · subst hx
      rw [List.cons_append, pieces_cons_sep, pieces_cons_sep, ih]; rfl
    · rw [List.cons_append, pieces_cons_ne hx, pieces_cons_ne hx]
      have : pieces c (a ++ c :: b) = pieces c a ++ pieces c b := ih
      unfold pieces at this
      simp only [List.cons_append, List.cons.injEq] at this
      rw [this.1, this.2]; rfl

theorem pieces_of_not_mem {c : Nat} {s : Bytes} (h : c ∉ s) : pieces c s = [s] := by
  have := splitAll_append_of_not_mem c s [] h
  simp only [List.append_nil] at this
  simp [pieces, this, splitAll]

theorem splitFirst_snd_none {c : Nat} {u : Bytes} : (splitFirst c u).2 = none ↔ c ∉ u := by
  induction u with
  | nil => simp [splitFirst]
  | cons b r ih =>
    by_cases hb : b = c
    · simp [splitFirst, hb]
    · have hcb : ¬ c = b := fun e => hb e.symm
      simp [splitFirst, hb, ih, hcb]

theorem splitFirst_of_not_mem {c : Nat} {u : Bytes} (h : c ∉ u) : splitFirst c u = (u, none) := by
  have := splitFirst_append_of_not_mem c u [] h
  simpa [splitFirst] using this

theorem splitFirst_append_some {c : Nat} {u Q : Bytes} (h : (splitFirst c u).2 = some Q) (t : Bytes) :
    splitFirst c (u ++ t) = ((splitFirst c u).1, some (Q ++ t)) := by
  induction u with
  | nil => simp [splitFirst] at h
  | cons b r ih =>
    by_cases hb : b = c
    · simp [splitFirst, hb] at h ⊢; exact h
    · simp [splitFirst, hb] at h ⊢
      rw [ih h]; simp

theorem keptPieces_append (cfg : Cfg) (q seg : Bytes) :
    keptPieces cfg (q ++ 38 :: seg) = keptPieces cfg q ++ keptPieces cfg seg := by
  unfold keptPieces
  rw [pieces_append_sep, List.filter_append, List.filter_append]

theorem keptPieces_marketing (cfg : Cfg) {seg : Bytes} (h38 : 38 ∉ seg)
    (hmk : isMarketing cfg (parsePair seg).1 = true) : keptPieces cfg seg = [] := by
  unfold keptPieces
  rw [pieces_of_not_mem h38]
  cases seg with
  | nil => rfl
  | cons b r => simp [List.filter_cons, hmk]

theorem keptPieces_nil (cfg : Cfg) : keptPieces cfg [] = [] := by
  simp [keptPieces, pieces, splitAll]

/-! ### ASCII case -/

theorem lowerAscii_append (a b : Bytes) : lowerAscii (a ++ b) = lowerAscii a ++ lowerAscii b := by
  simp [lowerAscii]

theorem lowerAscii_cons (x : Nat) (a : Bytes) : lowerAscii (x :: a) = lowerByte x :: lowerAscii a := rfl

theorem lowerAscii_isEmpty {a b : Bytes} (h : lowerAscii a = lowerAscii b) : a.isEmpty = b.isEmpty := by
  cases a <;> cases b <;> simp [lowerAscii] at h ⊢

theorem letters_not_encoded_url : ∀ b, b < 123 → 65 ≤ b → (b ≤ 90 ∨ 97 ≤ b) → shouldEncode urlSet b = false := by
  decide

theorem letters_not_encoded_query : ∀ b, b < 123 → 65 ≤ b → (b ≤ 90 ∨ 97 ≤ b) → shouldEncode querySet b = false := by
  decide

theorem lowerByte_eq_cases {b b' : Nat} (h : lowerByte b = lowerByte b') :
    b = b' ∨ (65 ≤ b ∧ b ≤ 90 ∧ b' = b + 32) ∨ (65 ≤ b' ∧ b' ≤ 90 ∧ b = b' + 32) := by
  unfold lowerByte at h
  split at h <;> split at h <;> omega

theorem lower_encOne {S : List Nat}
    (hS : ∀ b, b < 123 → 65 ≤ b → (b ≤ 90 ∨ 97 ≤ b) → shouldEncode S b = false) {b b' : Nat}
    (h : lowerByte b = lowerByte b') : lowerAscii (encOne S b) = lowerAscii (encOne S b') := by
  rcases lowerByte_eq_cases h with e | ⟨h1, h2, h3⟩ | ⟨h1, h2, h3⟩
  · rw [e]
  · rw [encOne_of_false (hS b (by omega) h1 (Or.inl h2)),
      encOne_of_false (hS b' (by omega) (by omega) (Or.inr (by omega)))]
    simp [lowerAscii, h]
  · rw [encOne_of_false (hS b' (by omega) h1 (Or.inl h2)),
      encOne_of_false (hS b (by omega) (by omega) (Or.inr (by omega)))]
    simp [lowerAscii, h]

/-- encoding respects equality up to ASCII case (letters are in no set). -/
theorem lower_pctEncode {S : List Nat}
    (hS : ∀ b, b < 123 → 65 ≤ b → (b ≤ 90 ∨ 97 ≤ b) → shouldEncode S b = false) {x x' : Bytes}
    (h : lowerAscii x = lowerAscii x') : lowerAscii (pctEncode S x) = lowerAscii (pctEncode S x') := by
  induction x generalizing x' with
  | nil =>
    cases x' with
    | nil => rfl
    | cons _ _ => simp [lowerAscii] at h
  | cons b r ih =>
    cases x' with
    | nil => simp [lowerAscii] at h
    | cons b' r' =>
      simp only [lowerAscii_cons, List.cons.injEq] at h
      rw [pctEncode_cons, pctEncode_cons, lowerAscii_append, lowerAscii_append, lower_encOne hS h.1, ih h.2]

theorem lower_reqParam {a b : Bytes × Bytes} (hk : lowerAscii a.1 = lowerAscii b.1)
    (hv : lowerAscii a.2 = lowerAscii b.2) : lowerAscii (reqParam a) = lowerAscii (reqParam b) := by
  unfold reqParam
  rw [lowerAscii_append, lowerAscii_append, lower_pctEncode letters_not_encoded_query hk,
    lowerAscii_isEmpty hv]
  congr 1
  cases b.2.isEmpty with
  | true => rfl
  | false =>
    simp only [Bool.not_false, if_true, lowerAscii_cons]
    rw [lower_pctEncode letters_not_encoded_query hv]

theorem lower_pushParam {acc acc' p p' : Bytes} (ha : lowerAscii acc = lowerAscii acc')
    (hp : lowerAscii p = lowerAscii p') : lowerAscii (pushParam acc p) = lowerAscii (pushParam acc' p') := by
  unfold pushParam
  rw [lowerAscii_append, lowerAscii_append, hp, lowerAscii_isEmpty ha]
  congr 1
  cases acc'.isEmpty with
  | true => simpa using ha
  | false => simp [lowerAscii_append, ha]

/-- two parameter lists that correspond entry by entry up to ASCII case, with the same entries
classified as marketing parameters, render to the same kept string up to case. -/
theorem lower_keptOf (cfg : Cfg) (l : List ((Bytes × Bytes) × (Bytes × Bytes)))
    (h : ∀ pr ∈ l, lowerAscii pr.1.1 = lowerAscii pr.2.1 ∧ lowerAscii pr.1.2 = lowerAscii pr.2.2 ∧
      isMarketing cfg pr.1.1 = isMarketing cfg pr.2.1) :
    lowerAscii (keptOf cfg (l.map Prod.fst)) = lowerAscii (keptOf cfg (l.map Prod.snd)) := by
  unfold keptOf joinParams
  have : ∀ (acc acc' : Bytes), lowerAscii acc = lowerAscii acc' →
      lowerAscii ((((l.map Prod.fst).filter (notMarketing cfg)).map reqParam).foldl pushParam acc) =
      lowerAscii ((((l.map Prod.snd).filter (notMarketing cfg)).map reqParam).foldl pushParam acc') := by
    induction l with
    | nil => intro acc acc' ha; exact ha
    | cons pr rest ih =>
      intro acc acc' ha
      obtain ⟨h1, h2, h3⟩ := h pr (by simp)
      have ih := ih (fun x hx => h x (List.mem_cons_of_mem _ hx))
      cases hm : isMarketing cfg pr.2.1 with
      | true =>
        have hm1 : isMarketing cfg pr.1.1 = true := h3.trans hm
        simp only [List.map_cons, List.filter_cons, notMarketing, hm, hm1, Bool.not_true,
          Bool.false_eq_true, if_false]
        exact ih acc acc' ha
      | false =>
        have hm1 : isMarketing cfg pr.1.1 = false := h3.trans hm
        simp only [List.map_cons, List.filter_cons, notMarketing, hm, hm1, Bool.not_false, if_true,
          List.foldl_cons]
        exact ih _ _ (lower_pushParam ha (lower_reqParam h1 h2))
  exact this [] [] rfl

theorem lower_npq (cfg : Cfg) {path path' : Bytes} (hp : lowerAscii path = lowerAscii path')
    (l : List ((Bytes × Bytes) × (Bytes × Bytes)))
    (h : ∀ pr ∈ l, lowerAscii pr.1.1 = lowerAscii pr.2.1 ∧ lowerAscii pr.1.2 = lowerAscii pr.2.2 ∧
      isMarketing cfg pr.1.1 = isMarketing cfg pr.2.1) :
    lowerAscii (npq cfg path (l.map Prod.fst)) = lowerAscii (npq cfg path' (l.map Prod.snd)) := by
  have hk := lower_keptOf cfg l h
  unfold npq
  rw [lowerAscii_isEmpty hk]
  cases (keptOf cfg (l.map Prod.snd)).isEmpty with
  | true => simpa using hp
  | false => simp [lowerAscii_append, lowerAscii_cons, hp, hk]

theorem lower_pqPath {p p' : Bytes} (h : lowerAscii p = lowerAscii p') :
    lowerAscii (pqPath p) = lowerAscii (pqPath p') := by
  unfold pqPath
  rw [lowerAscii_isEmpty h]
  cases p'.isEmpty <;> simp [h]

/-- the key of a URL without `?` is the (lower-cased) sanitised URL, accepted or not. -/
theorem reqKey_no_query (cfg : Cfg) (u : Bytes) (hb : IsBytes u) (h63 : 63 ∉ u) :
    reqKey cfg u = lowerIf cfg.ignoreCase (sanitize u) := by
  cases hacc : (pqParse (sanitize u)).isSome with
  | false =>
    have : pqParse (sanitize u) = none := by
      cases h : pqParse (sanitize u) with
      | none => rfl
      | some _ => rw [h] at hacc; cases hacc
    simp [reqKey, fromConfig, this, PQS.key]
  | true =>
    have hne : sanitize u ≠ [] := by
      intro e; rw [e] at hacc; revert hacc; decide
    unfold reqKey
    rw [fromConfig_accepted cfg u hb hacc]
    have hm : paramsOf u = [] := by
      rw [paramsOf_eq, splitFirst_of_not_mem h63]
    simp only [PQS.key, hm, npq, keptOf_nil, splitFirst_of_not_mem h63]
    rw [pqPath_of_ne hne]; rfl

/-! ### separation: the rendered query determines the parameter list -/

/-- a decoded parameter without encoded delimiters: no `%`, `&` in name or value, no `=` in the
name, valid UTF-8 (a fixed point of the lossy conversion), not the empty parameter. -/
structure Plain (kv : Bytes × Bytes) : Prop where
  bk : IsBytes kv.1
  bv : IsBytes kv.2
  k37 : 37 ∉ kv.1
  k38 : 38 ∉ kv.1
  k61 : 61 ∉ kv.1
  v37 : 37 ∉ kv.2
  v38 : 38 ∉ kv.2
  uk : utf8Lossy kv.1 = kv.1
  uv : utf8Lossy kv.2 = kv.2
  ne : kv ≠ ([], [])

theorem shouldEncode_querySet_43 : shouldEncode querySet 43 = true := by decide

theorem map_plusToSpace_of_not_mem {x : Bytes} (h : 43 ∉ x) : x.map plusToSpace = x := by
  induction x with
  | nil => rfl
  | cons b r ih =>
    have hb : b ≠ 43 := fun e => h (by simp [e])
    simp [plusToSpace, hb, ih (fun e => h (List.mem_cons_of_mem _ e))]

/-- **form-decoding the request-side rendering gives the string back** (strings without `%`, valid
UTF-8): `+` is escaped by the query set, every escape decodes to its byte. -/
theorem decodeForm_pctEncode_query {x : Bytes} (hx : IsBytes x) (h37 : 37 ∉ x) (hu : utf8Lossy x = x) :
    decodeForm (pctEncode querySet x) = x := by
  unfold decodeForm
  have h43 : 43 ∉ pctEncode querySet x := by
    intro h
    have := (mem_pctEncode (S := querySet) (s := x) (c := 43) (by omega)).mp h
    rw [shouldEncode_querySet_43] at this
    exact absurd this.2 (by simp)
  rw [map_plusToSpace_of_not_mem h43, pctDecode_pctEncode_id safe_querySet x hx h37, hu]

theorem not_mem_pctEncode_of_not_mem {S : List Nat} {c : Nat} (hc : IsDelim c) {x : Bytes} (h : c ∉ x) :
    c ∉ pctEncode S x := by
  intro hm
  exact h ((mem_pctEncode (S := S) (s := x) (c := c) hc).mp hm).1

theorem decodeForm_nil : decodeForm [] = [] := by decide

theorem parsePair_reqParam {kv : Bytes × Bytes} (h : Plain kv) : parsePair (reqParam kv) = kv := by
  obtain ⟨k, v⟩ := kv
  have h61 : 61 ∉ pctEncode querySet k := not_mem_pctEncode_of_not_mem isDelim_61 h.k61
  unfold parsePair reqParam
  rw [splitFirst_append_of_not_mem 61 _ _ h61]
  cases v with
  | nil =>
    simp only [List.isEmpty_nil, Bool.not_true, Bool.false_eq_true, if_false, splitFirst, List.append_nil,
      Option.getD_none, decodeForm_nil]
    rw [decodeForm_pctEncode_query h.bk h.k37 h.uk]
  | cons b r =>
    simp only [List.isEmpty_cons, Bool.not_false, if_true, splitFirst, beq_self_eq_true, List.append_nil,
      Option.getD_some]
    rw [decodeForm_pctEncode_query h.bk h.k37 h.uk, decodeForm_pctEncode_query h.bv h.v37 h.uv]

theorem not_mem_reqParam_38 {kv : Bytes × Bytes} (h : Plain kv) : 38 ∉ reqParam kv := by
  unfold reqParam
  intro hm
  rcases List.mem_append.mp hm with hm | hm
  · exact not_mem_pctEncode_of_not_mem isDelim_38 h.k38 hm
  · split at hm
    · rcases List.mem_cons.mp hm with e | hm
      · omega
      · exact not_mem_pctEncode_of_not_mem isDelim_38 h.v38 hm
    · cases hm

theorem pieces_amp {ps : List Bytes} (hne : ps ≠ []) (h : ∀ p ∈ ps, 38 ∉ p) : pieces 38 (amp ps) = ps := by
  induction ps with
  | nil => exact absurd rfl hne
  | cons p rest ih =>
    cases rest with
    | nil => simp [amp, pieces_of_not_mem (h p (by simp))]
    | cons q rest' =>
      have : amp (p :: q :: rest') = p ++ 38 :: amp (q :: rest') := by simp [amp]
      rw [this, pieces_append_sep, pieces_of_not_mem (h p (by simp)),
        ih (by simp) (fun x hx => h x (List.mem_cons_of_mem _ hx))]
      rfl

/-- **parse ∘ render = id** on lists of plain parameters. -/
theorem parseQuery_joinParams {m : Map} (h : ∀ kv ∈ m, Plain kv) :
    parseQuery (joinParams (m.map reqParam)) = m := by
  have hne : ∀ p ∈ m.map reqParam, p ≠ [] := by
    intro p hp
    obtain ⟨kv, hkv, rfl⟩ := List.mem_map.mp hp
    intro e; exact (h kv hkv).ne (reqParam_eq_nil.mp e)
  rw [joinParams_eq_amp hne]
  cases hm : m with
  | nil => simp [amp, parseQuery_nil]
  | cons kv rest =>
    rw [← hm]
    unfold parseQuery
    rw [pieces_amp (by simp [hm])]
    · rw [List.filter_eq_self.mpr]
      · rw [List.map_map]
        have : ∀ kv ∈ m, (parsePair ∘ reqParam) kv = id kv := fun kv hkv => parsePair_reqParam (h kv hkv)
        rw [List.map_congr_left this, List.map_id]
      · intro p hp
        have := hne p hp
        cases p with
        | nil => exact absurd rfl this
        | cons _ _ => rfl
    · intro p hp
      obtain ⟨kv, hkv, rfl⟩ := List.mem_map.mp hp
      exact not_mem_reqParam_38 (h kv hkv)

theorem not_mem_splitFirst_fst (c : Nat) (u : Bytes) : c ∉ (splitFirst c u).1 := by
  induction u with
  | nil => simp [splitFirst]
  | cons b r ih =>
    by_cases hb : b = c
    · simp [splitFirst, hb]
    · have hcb : ¬ c = b := fun e => hb e.symm
      simp [splitFirst, hb, hcb, ih]

theorem not_mem_pqPath_63 {p : Bytes} (h : 63 ∉ p) : 63 ∉ pqPath p := by
  unfold pqPath; split
  · decide
  · exact h

theorem npq_inj (cfg : Cfg) {path path' : Bytes} {m m' : Map} (hp : 63 ∉ path) (hp' : 63 ∉ path')
    (hm : ∀ kv ∈ m.filter (notMarketing cfg), Plain kv) (hm' : ∀ kv ∈ m'.filter (notMarketing cfg), Plain kv)
    (h : npq cfg path m = npq cfg path' m') :
    path = path' ∧ m.filter (notMarketing cfg) = m'.filter (notMarketing cfg) := by
  have hs : ∀ (path : Bytes) (m : Map), 63 ∉ path →
      splitFirst 63 (npq cfg path m) =
        (path, if !(keptOf cfg m).isEmpty then some (keptOf cfg m) else none) := by
    intro path m hp
    unfold npq
    cases (keptOf cfg m).isEmpty with
    | true => simp [splitFirst_of_not_mem hp]
    | false =>
      simp only [Bool.not_false, if_true]
      rw [splitFirst_append_of_not_mem 63 _ _ hp]; simp [splitFirst]
  have h1 := hs path m hp
  rw [h, hs path' m' hp'] at h1
  simp only [Prod.mk.injEq] at h1
  refine ⟨h1.1.symm, ?_⟩
  have hk : keptOf cfg m = keptOf cfg m' := by
    have h2 := h1.2
    cases e1 : (keptOf cfg m).isEmpty <;> cases e2 : (keptOf cfg m').isEmpty <;> simp [e1, e2] at h2
    · exact h2.symm
    · rw [List.isEmpty_iff.mp e1, List.isEmpty_iff.mp e2]
  have := congrArg parseQuery hk
  unfold keptOf at this
  rwa [parseQuery_joinParams hm, parseQuery_joinParams hm'] at this

/-! ### acceptance by `PathAndQuery` does not depend on the order of the parameters -/

theorem pieces_ne_nil (c : Nat) (q : Bytes) : pieces c q ≠ [] := by simp [pieces]

theorem amp_cons_cons (p q : Bytes) (rest : List Bytes) : amp (p :: q :: rest) = p ++ 38 :: amp (q :: rest) := by
  simp [amp]

theorem amp_pieces (q : Bytes) : amp (pieces 38 q) = q := by
  induction q with
  | nil => simp [pieces, splitAll, amp]
  | cons x r ih =>
    by_cases hx : x = 38
    · subst hx
      rw [pieces_cons_sep]
      cases hp : pieces 38 r with
      | nil => exact absurd hp (pieces_ne_nil 38 r)
      | cons p' rest' => rw [amp_cons_cons, ← hp, ih]; rfl
    · rw [pieces_cons_ne hx]
      have : amp ((splitAll 38 r).1 :: (splitAll 38 r).2) = r := ih
      simp only [amp, List.cons_append] at this ⊢
      rw [this]

theorem length_amp_succ {ps : List Bytes} (h : ps ≠ []) :
    (amp ps).length + 1 = (ps.flatMap (· ++ [38])).length := by
  rw [← dropLast_flatMap_amp, List.length_dropLast]
  cases ps with
  | nil => exact absurd rfl h
  | cons p rest => simp; omega

/-- the sanitised query has the same length whatever the order of its pieces. -/
theorem length_sanitize_perm {Q Q' : Bytes} (h : (pieces 38 Q).Perm (pieces 38 Q')) :
    (sanitize Q).length = (sanitize Q').length := by
  have e : ∀ q : Bytes, (sanitize q).length + 1 = (((pieces 38 q).map sanitize).flatMap (· ++ [38])).length := by
    intro q
    have h38 : shouldEncode urlSet 38 = false := by decide
    have : sanitize q = amp ((pieces 38 q).map sanitize) := by
      conv => lhs; rw [← amp_pieces q]
      exact pctEncode_amp h38 _
    rw [this, length_amp_succ (by simp [pieces_ne_nil])]
  have hp : (((pieces 38 Q).map sanitize).flatMap (· ++ [38])).Perm
      (((pieces 38 Q').map sanitize).flatMap (· ++ [38])) :=
    List.Perm.flatMap_right _ (h.map _)
  have := hp.length_eq
  have e1 := e Q
  have e2 := e Q'
  omega

theorem mem_pctEncode_cases {S : List Nat} {x : Bytes} {b : Nat} (h : b ∈ pctEncode S x) :
    (b = 37 ∨ (48 ≤ b ∧ b ≤ 57) ∨ (65 ≤ b ∧ b ≤ 70)) ∨ (b ∈ x ∧ shouldEncode S b = false) := by
  induction x with
  | nil => cases h
  | cons a r ih =>
    rw [pctEncode_cons] at h
    rcases List.mem_append.mp h with h | h
    · cases ha : shouldEncode S a with
      | true => rw [encOne_of_true ha] at h; exact Or.inl (mem_encByte h)
      | false =>
        rw [encOne_of_false ha] at h
        have : b = a := by simpa using h
        subst this
        exact Or.inr ⟨by simp, ha⟩
    · rcases ih h with h | h
      · exact Or.inl h
      · exact Or.inr ⟨List.mem_cons_of_mem _ h.1, h.2⟩

theorem queryClass_of_not_encoded : ∀ b, b < 128 → shouldEncode urlSet b = false → queryClass b = .valid := by
  decide

theorem shouldEncode_false_lt {S : List Nat} {b : Nat} (h : shouldEncode S b = false) : b < 128 := by
  unfold shouldEncode at h
  simp only [Bool.or_eq_false_iff, decide_eq_false_iff_not] at h
  omega

theorem queryClass_of_escape :
    ∀ b, b < 128 → (b = 37 ∨ (48 ≤ b ∧ b ≤ 57) ∨ (65 ≤ b ∧ b ≤ 70)) → queryClass b = .valid := by
  decide

theorem queryClass_sanitize {x : Bytes} {b : Nat} (h : b ∈ sanitize x) : queryClass b = .valid := by
  rcases mem_pctEncode_cases h with h | ⟨_, h⟩
  · exact queryClass_of_escape b (by omega) h
  · exact queryClass_of_not_encoded b (shouldEncode_false_lt h) h

theorem scanQuery_of_valid {r : Bytes} (h : ∀ b ∈ r, queryClass b = .valid) : scanQuery r = some r := by
  induction r with
  | nil => rfl
  | cons b r ih =>
    unfold scanQuery
    rw [h b (by simp)]
    simp [ih (fun x hx => h x (List.mem_cons_of_mem _ hx))]

/-- the first loop over `a ++ '?' :: r` looks at `a` only. -/
theorem scanPath_append_query {a : Bytes} (h63 : 63 ∉ a) (h35 : 35 ∉ a) (r r' : Bytes) :
    (scanPath (a ++ 63 :: r)).isSome = true → scanPath (a ++ 63 :: r') = some (a, some r') := by
  induction a with
  | nil => intro _; simp [scanPath, pathClass_63]
  | cons b a ih =>
    intro h
    have hb : b ≠ 63 := fun e => h63 (by simp [e])
    have hb35 : b ≠ 35 := fun e => h35 (by simp [e])
    have ih := ih (fun e => h63 (List.mem_cons_of_mem _ e)) (fun e => h35 (List.mem_cons_of_mem _ e))
    simp only [List.cons_append] at h ⊢
    unfold scanPath at h ⊢
    cases hc : pathClass b with
    | query => exact absurd (pathClass_query hc) hb
    | fragment => exact absurd (pathClass_fragment hc) hb35
    | invalid => rw [hc] at h; simp at h
    | valid =>
      rw [hc] at h
      simp only at h ⊢
      cases hr : scanPath (a ++ 63 :: r) with
      | none => rw [hr] at h; simp at h
      | some _ => rw [ih (by rw [hr]; rfl)]
    | high =>
      rw [hc] at h
      simp only at h ⊢
      cases hr : scanPath (a ++ 63 :: r) with
      | none => rw [hr] at h; simp at h
      | some _ => rw [ih (by rw [hr]; rfl)]

/-- **`PathAndQuery` accepts `P?Q'` whenever it accepts `P?Q` and `Q'` has the pieces of `Q` in
another order** (acceptance depends on the path part, the first byte and the total length only). -/
theorem accepted_perm (P Q Q' : Bytes) (hP : 63 ∉ P) (h : (pieces 38 Q).Perm (pieces 38 Q'))
    (hacc : (pqParse (sanitize (P ++ 63 :: Q))).isSome = true) :
    (pqParse (sanitize (P ++ 63 :: Q'))).isSome = true := by
  have hs : ∀ q : Bytes, sanitize (P ++ 63 :: q) = sanitize P ++ 63 :: sanitize q := by
    intro q
    unfold sanitize
    rw [pctEncode_append, pctEncode_cons, encOne_of_false shouldEncode_urlSet_63]; rfl
  have h63 : 63 ∉ sanitize P := not_mem_pctEncode_of_not_mem isDelim_63 hP
  have h35 : 35 ∉ sanitize P := not_mem_sanitize_35 P
  have hlen := length_sanitize_perm h
  rw [hs] at hacc ⊢
  unfold pqParse at hacc ⊢
  have e1 : ∀ q : Bytes, (sanitize P ++ 63 :: sanitize q).isEmpty = false := by intro q; simp
  have e2 : (sanitize P ++ 63 :: sanitize Q').length = (sanitize P ++ 63 :: sanitize Q).length := by
    simp [hlen]
  have e3 : ∀ q : Bytes, ((sanitize P ++ 63 :: sanitize q) == [42]) = false := by
    intro q
    cases hp : sanitize P with
    | nil => simp
    | cons a r => cases r <;> simp
  have e4 : ∀ q : Bytes, (sanitize P ++ 63 :: sanitize q).head? = (sanitize P ++ 63 :: sanitize Q).head? := by
    intro q; cases sanitize P <;> rfl
  rw [e1, e2, e3, e4 Q']
  rw [e1, e3] at hacc
  simp only [Bool.false_eq_true, if_false] at hacc ⊢
  split
  · rename_i hl; rw [if_pos hl] at hacc; cases hacc
  · rename_i hl
    rw [if_neg hl] at hacc
    split
    · rename_i hh; rw [if_pos hh] at hacc; cases hacc
    · rename_i hh
      rw [if_neg hh] at hacc
      have hsp : (scanPath (sanitize P ++ 63 :: sanitize Q)).isSome = true := by
        cases hx : scanPath (sanitize P ++ 63 :: sanitize Q) with
        | none => rw [hx] at hacc; cases hacc
        | some _ => rfl
      rw [scanPath_append_query h63 h35 _ (sanitize Q') hsp]
      simp only [scanQuery_of_valid (fun b hb => queryClass_sanitize (x := Q') hb)]
      rfl

/-! ### exactly which URLs `PathAndQuery` accepts after sanitising -/

theorem splitFirst_rebuild (c : Nat) (u : Bytes) :
    u = (splitFirst c u).1 ++ (match (splitFirst c u).2 with | none => [] | some q => c :: q) := by
  induction u with
  | nil => simp [splitFirst]
  | cons b r ih =>
    by_cases hb : b = c
    · simp [splitFirst, hb]
    · simp only [splitFirst, beq_iff_eq, hb, if_false, List.cons_append]
      rw [← ih]

theorem pathClass_of_escape :
    ∀ b, b < 128 → (b = 37 ∨ (48 ≤ b ∧ b ≤ 57) ∨ (65 ≤ b ∧ b ≤ 70)) → pathClass b = .valid := by
  decide

theorem pathClass_of_not_encoded :
    ∀ b, b < 128 → shouldEncode urlSet b = false → b ≠ 63 → b ≠ 96 → pathClass b = .valid := by
  decide

theorem pathClass_96 : pathClass 96 = .invalid := by decide
theorem shouldEncode_urlSet_96 : shouldEncode urlSet 96 = false := by decide

theorem pathClass_sanitize {x : Bytes} (h63 : 63 ∉ x) (h96 : 96 ∉ x) {b : Nat} (h : b ∈ sanitize x) :
    pathClass b = .valid := by
  rcases mem_pctEncode_cases h with h | ⟨hm, h⟩
  · exact pathClass_of_escape b (by omega) h
  · exact pathClass_of_not_encoded b (shouldEncode_false_lt h) h
      (fun e => h63 (e ▸ hm)) (fun e => h96 (e ▸ hm))

theorem scanPath_of_valid_query {a : Bytes} (h : ∀ b ∈ a, pathClass b = .valid) (r : Bytes) :
    scanPath (a ++ 63 :: r) = some (a, some r) := by
  induction a with
  | nil => simp [scanPath, pathClass_63]
  | cons b a ih =>
    simp only [List.cons_append]
    unfold scanPath
    rw [h b (by simp), ih (fun x hx => h x (List.mem_cons_of_mem _ hx))]

theorem scanPath_of_valid {a : Bytes} (h : ∀ b ∈ a, pathClass b = .valid) :
    scanPath a = some (a, none) := by
  induction a with
  | nil => rfl
  | cons b a ih =>
    unfold scanPath
    rw [h b (by simp), ih (fun x hx => h x (List.mem_cons_of_mem _ hx))]

theorem scanPath_invalid {s p : Bytes} {q : Option Bytes} (h : scanPath s = some (p, q)) :
    ∀ b ∈ p, pathClass b ≠ .invalid := by
  induction s generalizing p q with
  | nil => simp [scanPath] at h; intro b hb; rw [h.1] at hb; cases hb
  | cons x r ih =>
    unfold scanPath at h
    cases hc : pathClass x with
    | query => rw [hc] at h; simp at h; intro b hb; rw [h.1] at hb; cases hb
    | fragment => rw [hc] at h; simp at h; intro b hb; rw [h.1] at hb; cases hb
    | invalid => rw [hc] at h; simp at h
    | valid =>
      rw [hc] at h
      cases hr : scanPath r with
      | none => simp [hr] at h
      | some pq =>
        obtain ⟨p', q'⟩ := pq
        simp [hr] at h
        intro b hb
        rw [← h.1] at hb
        rcases List.mem_cons.mp hb with e | e
        · rw [e, hc]; simp
        · exact ih hr b e
    | high =>
      rw [hc] at h
      cases hr : scanPath r with
      | none => simp [hr] at h
      | some pq =>
        obtain ⟨p', q'⟩ := pq
        simp [hr] at h
        intro b hb
        rw [← h.1] at hb
        rcases List.mem_cons.mp hb with e | e
        · rw [e, hc]; simp
        · exact ih hr b e

theorem sanitize_head (u : Bytes) (c : Nat) (hc : c = 47 ∨ c = 63) :
    (sanitize u).head? = some c ↔ u.head? = some c := by
  cases u with
  | nil => simp [sanitize]
  | cons b r =>
    unfold sanitize
    rw [pctEncode_cons]
    cases hb : shouldEncode urlSet b with
    | true =>
      rw [encOne_of_true hb, encByte_eq]
      simp only [List.cons_append, List.head?_cons, Option.some.injEq]
      constructor
      · intro h; omega
      · intro h
        subst h
        rcases hc with e | e <;> subst e <;> revert hb <;> decide
    | false =>
      rw [encOne_of_false hb]; simp

theorem sanitize_head_35 (u : Bytes) : (sanitize u).head? ≠ some 35 := by
  intro h
  have : 35 ∈ sanitize u := by
    cases hs : sanitize u with
    | nil => rw [hs] at h; cases h
    | cons a r => rw [hs] at h; simp at h; simp [h]
  exact not_mem_sanitize_35 u this

theorem sanitize_eq_star (u : Bytes) : sanitize u = [42] ↔ u = [42] := by
  constructor
  · intro h
    match u, h with
    | [b], h =>
      unfold sanitize at h
      rw [pctEncode_cons, pctEncode_nil, List.append_nil] at h
      cases hb : shouldEncode urlSet b with
      | true => rw [encOne_of_true hb, encByte_eq] at h; simp at h
      | false => rw [encOne_of_false hb] at h; simpa using h
    | b :: c :: r, h =>
      unfold sanitize at h
      rw [pctEncode_cons, pctEncode_cons] at h
      have h1 := encOne_ne_nil urlSet b
      have h2 := encOne_ne_nil urlSet c
      have := congrArg List.length h
      simp only [List.length_append, List.length_cons, List.length_nil] at this
      have l1 : 0 < (encOne urlSet b).length := List.length_pos_iff.mpr h1
      have l2 : 0 < (encOne urlSet c).length := List.length_pos_iff.mpr h2
      omega
  · intro h; subst h; decide

/-- the syntactic description of acceptance. -/
def AcceptedSyntax (u : Bytes) : Prop :=
  u ≠ [] ∧ (sanitize u).length ≤ maxLen ∧
  (u = [42] ∨ u.head? = some 47 ∨ u.head? = some 63) ∧ 96 ∉ (splitFirst 63 u).1

theorem sanitize_split (u : Bytes) :
    sanitize u = sanitize (splitFirst 63 u).1 ++
      (match (splitFirst 63 u).2 with | none => [] | some q => 63 :: sanitize q) := by
  conv => lhs; rw [splitFirst_rebuild 63 u]
  unfold sanitize
  rw [pctEncode_append]
  cases (splitFirst 63 u).2 with
  | none => rfl
  | some q => simp only [pctEncode_cons, encOne_of_false shouldEncode_urlSet_63]; rfl

/-- **After sanitising, `PathAndQuery` rejects exactly: the empty URL, a URL longer than 65534
bytes, a URL that neither is `*` nor starts with `/` or `?`, and a back-quote in the path part.** -/
theorem accepted_iff (u : Bytes) : (pqParse (sanitize u)).isSome = true ↔ AcceptedSyntax u := by
  have h63P : 63 ∉ (splitFirst 63 u).1 := not_mem_splitFirst_fst 63 u
  constructor
  · intro hacc
    cases hp : pqParse (sanitize u) with
    | none => rw [hp] at hacc; cases hacc
    | some pq =>
      obtain ⟨p, q⟩ := pq
      obtain ⟨q', hsp, _⟩ := pqParse_some hp
      obtain ⟨hp1, _⟩ := pqParse_sanitize hp
      have hne : u ≠ [] := by
        intro e; subst e
        have : pqParse (sanitize []) = none := by decide
        rw [this] at hp; cases hp
      have hinv := scanPath_invalid hsp
      refine ⟨hne, ?_, ?_, ?_⟩
      · unfold pqParse at hp
        split at hp
        · cases hp
        · split at hp
          · cases hp
          · rename_i hl; exact Nat.le_of_not_gt hl
      · unfold pqParse at hp
        split at hp
        · cases hp
        · split at hp
          · cases hp
          · split at hp
            · rename_i hs
              exact Or.inl ((sanitize_eq_star u).mp (by simpa using hs))
            · split at hp
              · cases hp
              · rename_i hh
                simp only [Bool.not_eq_true', Bool.or_eq_false_iff, not_and, Bool.not_eq_false] at hh
                have hh' : ¬ ((sanitize u).head? == some 47 || (sanitize u).head? == some 63 ||
                    (sanitize u).head? == some 35) = false := by simpa using hh
                have : (sanitize u).head? = some 47 ∨ (sanitize u).head? = some 63 ∨
                    (sanitize u).head? = some 35 := by
                  cases h1 : ((sanitize u).head? == some 47) <;> cases h2 : ((sanitize u).head? == some 63) <;>
                    cases h3 : ((sanitize u).head? == some 35) <;> simp [h1, h2, h3] at hh' <;>
                    simp_all
                rcases this with h | h | h
                · exact Or.inr (Or.inl ((sanitize_head u 47 (Or.inl rfl)).mp h))
                · exact Or.inr (Or.inr ((sanitize_head u 63 (Or.inr rfl)).mp h))
                · exact absurd h (sanitize_head_35 u)
      · intro h96
        have : 96 ∈ p := by
          rw [hp1]
          exact (mem_pctEncode (S := urlSet) (c := 96) (by omega)).mpr ⟨h96, shouldEncode_urlSet_96⟩
        exact hinv 96 this pathClass_96
  · rintro ⟨hne, hlen, hhead, h96⟩
    have hvalid : ∀ b ∈ sanitize (splitFirst 63 u).1, pathClass b = .valid :=
      fun b hb => pathClass_sanitize h63P h96 hb
    unfold pqParse
    have e1 : (sanitize u).isEmpty = false := by
      rw [sanitize, pctEncode_isEmpty]; cases u with
      | nil => exact absurd rfl hne
      | cons _ _ => rfl
    rw [e1]
    simp only [Bool.false_eq_true, if_false]
    rw [if_neg (Nat.not_lt.mpr hlen)]
    by_cases hstar : u = [42]
    · subst hstar; decide
    · have hs : ((sanitize u) == [42]) = false := by
        cases h : ((sanitize u) == [42]) with
        | false => rfl
        | true => exact absurd ((sanitize_eq_star u).mp (by simpa using h)) hstar
      rw [hs]
      simp only [Bool.false_eq_true, if_false]
      have hh : (!((sanitize u).head? == some 47 || (sanitize u).head? == some 63 ||
          (sanitize u).head? == some 35)) = false := by
        rcases hhead with h | h | h
        · exact absurd h hstar
        · rw [(sanitize_head u 47 (Or.inl rfl)).mpr h]; rfl
        · rw [(sanitize_head u 63 (Or.inr rfl)).mpr h]; rfl
      rw [hh]
      simp only [Bool.false_eq_true, if_false]
      rw [sanitize_split]
      cases (splitFirst 63 u).2 with
      | none =>
        simp only [List.append_nil]
        rw [scanPath_of_valid hvalid]; rfl
      | some q =>
        simp only
        rw [scanPath_of_valid_query hvalid]
        simp only [scanQuery_of_valid (fun b hb => queryClass_sanitize (x := q) hb)]
        rfl

/-! ### small helpers used by Props/C09 -/

theorem splitFirst_url (P Q : Bytes) (hP : 63 ∉ P) : splitFirst 63 (P ++ 63 :: Q) = (P, some Q) := by
  rw [splitFirst_append_of_not_mem 63 P _ hP]
  simp [splitFirst]

theorem paramsOf_url (P Q : Bytes) (hP : 63 ∉ P) : paramsOf (P ++ 63 :: Q) = btCollect (parseQuery Q) := by
  rw [paramsOf_eq, splitFirst_url P Q hP]

theorem lowerByte_idem (b : Nat) : lowerByte (lowerByte b) = lowerByte b := by
  unfold lowerByte; split <;> (try split) <;> omega

theorem lowerIf_idem (f : Bool) (s : Bytes) : lowerIf f (lowerIf f s) = lowerIf f s := by
  cases f
  · rfl
  · simp [lowerIf, lowerAscii, lowerByte_idem]

/-! ### separation up to ASCII case (`ignore_path_and_query_case = true`) -/

/-- not an ASCII letter: lower-casing neither changes it nor produces it -/
def NonLetter (c : Nat) : Prop := ¬(65 ≤ c ∧ c ≤ 90) ∧ ¬(97 ≤ c ∧ c ≤ 122)

theorem lowerByte_eq_nonletter {b c : Nat} (hc : NonLetter c) : lowerByte b = c ↔ b = c := by
  unfold NonLetter at hc
  unfold lowerByte
  split <;> constructor <;> intro h <;> omega

theorem mem_lowerAscii_nonletter {c : Nat} (hc : NonLetter c) {s : Bytes} : c ∈ lowerAscii s ↔ c ∈ s := by
  induction s with
  | nil => simp [lowerAscii]
  | cons b r ih =>
    simp only [lowerAscii_cons, List.mem_cons, ih]
    constructor
    · rintro (h | h)
      · exact Or.inl ((lowerByte_eq_nonletter hc).mp h.symm).symm
      · exact Or.inr h
    · rintro (h | h)
      · exact Or.inl ((lowerByte_eq_nonletter hc).mpr h.symm).symm
      · exact Or.inr h

theorem splitAll_lowerAscii {c : Nat} (hc : NonLetter c) (s : Bytes) :
    splitAll c (lowerAscii s) = (lowerAscii (splitAll c s).1, (splitAll c s).2.map lowerAscii) := by
  induction s with
  | nil => rfl
  | cons b r ih =>
    rw [lowerAscii_cons]
    by_cases hb : b = c
    · subst hb
      have : lowerByte b = b := (lowerByte_eq_nonletter hc).mpr rfl
      simp only [splitAll, this, beq_self_eq_true, if_true, ih, List.map_cons]
      rfl
    · have : lowerByte b ≠ c := fun e => hb ((lowerByte_eq_nonletter hc).mp e)
      simp only [splitAll, beq_iff_eq, this, hb, if_false, ih, lowerAscii_cons]

theorem pieces_lowerAscii {c : Nat} (hc : NonLetter c) (s : Bytes) :
    pieces c (lowerAscii s) = (pieces c s).map lowerAscii := by
  simp [pieces, splitAll_lowerAscii hc]

theorem splitFirst_lowerAscii {c : Nat} (hc : NonLetter c) (s : Bytes) :
    splitFirst c (lowerAscii s) = (lowerAscii (splitFirst c s).1, (splitFirst c s).2.map lowerAscii) := by
  induction s with
  | nil => rfl
  | cons b r ih =>
    rw [lowerAscii_cons]
    by_cases hb : b = c
    · subst hb
      have : lowerByte b = b := (lowerByte_eq_nonletter hc).mpr rfl
      simp only [splitFirst, this, beq_self_eq_true, if_true, Option.map_some]
      rfl
    · have : lowerByte b ≠ c := fun e => hb ((lowerByte_eq_nonletter hc).mp e)
      simp only [splitFirst, beq_iff_eq, this, hb, if_false, ih, lowerAscii_cons]

theorem nonLetter_37 : NonLetter 37 := by unfold NonLetter; omega
theorem nonLetter_38 : NonLetter 38 := by unfold NonLetter; omega
theorem nonLetter_61 : NonLetter 61 := by unfold NonLetter; omega
theorem nonLetter_63 : NonLetter 63 := by unfold NonLetter; omega

theorem hexVal_lower_hexDigitUpper : ∀ n, n < 16 → hexVal (lowerByte (hexDigitUpper n)) = some n := by decide

/-- **decoding the LOWER-CASED rendering gives the lower-cased string** (no `%` in the string): the escapes `%C3` become
`%c3`, which decode to the same byte; a byte that is escaped is no letter; letters are never escaped. -/
theorem pctDecode_lower_pctEncode {S : List Nat} (hS : SafeSet S = true)
    (hL : ∀ b, 65 ≤ b → b ≤ 90 → shouldEncode S b = false) :
    ∀ (x : Bytes), IsBytes x → 37 ∉ x → pctDecode (lowerAscii (pctEncode S x)) = lowerAscii x := by
  intro x
  unfold pctDecode
  induction x with
  | nil => intro _ _; rfl
  | cons b r ih =>
    intro hb h37
    have ih := ih hb.tail (fun e => h37 (List.mem_cons_of_mem _ e))
    have hb37 : b ≠ 37 := fun e => h37 (by simp [e])
    rw [pctEncode_cons, lowerAscii_append, lowerAscii_cons]
    cases hbe : shouldEncode S b with
    | true =>
      have hnl : ¬(65 ≤ b ∧ b ≤ 90) := fun h => by rw [hL b h.1 h.2] at hbe; cases hbe
      have hlb : lowerByte b = b := by unfold lowerByte; rw [if_neg hnl]
      rw [encOne_of_true hbe, encByte_eq]
      simp only [lowerAscii_cons, List.cons_append]
      have h37' : lowerByte 37 = 37 := by decide
      have hlt := hb.head
      rw [h37', pctDecodeGo_zero_pct_some
        (hexPair_cons2 _ (hexVal_lower_hexDigitUpper (b / 16 % 16) (by omega))
          (hexVal_lower_hexDigitUpper (b % 16) (by omega)))]
      simp only [pctDecodeGo_succ]
      have : lowerAscii ([] : Bytes) = [] := rfl
      rw [this, List.nil_append, ih, hlb]
      congr 1
      omega
    | false =>
      rw [encOne_of_false hbe]
      have : lowerByte b ≠ 37 := fun e => hb37 ((lowerByte_eq_nonletter nonLetter_37).mp e)
      simp only [lowerAscii_cons, List.cons_append]
      have hn : lowerAscii ([] : Bytes) = [] := rfl
      rw [hn, List.nil_append, pctDecodeGo_zero_ne _ this, ih]

theorem upper_not_encoded_query : ∀ b, 65 ≤ b → b ≤ 90 → shouldEncode querySet b = false :=
  fun b h1 h2 => letters_not_encoded_query b (by omega) h1 (Or.inl h2)

/-- name / value of a rendered parameter read back WITHOUT the lossy UTF-8 step -/
def rawPair (p : Bytes) : Bytes × Bytes :=
  (pctDecode (splitFirst 61 p).1, pctDecode ((splitFirst 61 p).2.getD []))

def lowerKV (kv : Bytes × Bytes) : Bytes × Bytes := (lowerAscii kv.1, lowerAscii kv.2)

theorem rawPair_lower_reqParam {kv : Bytes × Bytes} (h : Plain kv) :
    rawPair (lowerAscii (reqParam kv)) = lowerKV kv := by
  obtain ⟨k, v⟩ := kv
  have h61 : 61 ∉ lowerAscii (pctEncode querySet k) := fun e =>
    not_mem_pctEncode_of_not_mem isDelim_61 h.k61 ((mem_lowerAscii_nonletter nonLetter_61).mp e)
  have hk := pctDecode_lower_pctEncode safe_querySet upper_not_encoded_query k h.bk h.k37
  have hv := pctDecode_lower_pctEncode safe_querySet upper_not_encoded_query v h.bv h.v37
  unfold rawPair reqParam lowerKV
  simp only
  rw [lowerAscii_append, splitFirst_append_of_not_mem 61 _ _ h61]
  cases v with
  | nil =>
    have hn : lowerAscii ([] : Bytes) = [] := rfl
    simp only [List.isEmpty_nil, Bool.not_true, Bool.false_eq_true, if_false, hn, splitFirst, List.append_nil,
      Option.getD_none, hk]
    rfl
  | cons b r =>
    have h61' : lowerByte 61 = 61 := by decide
    simp only [List.isEmpty_cons, Bool.not_false, if_true, lowerAscii_cons, h61', splitFirst, beq_self_eq_true,
      List.append_nil, Option.getD_some, hk]
    rw [hv]
    rfl

theorem lowerAscii_amp (ps : List Bytes) : lowerAscii (amp ps) = amp (ps.map lowerAscii) := by
  cases ps with
  | nil => rfl
  | cons p rest =>
    simp only [amp, lowerAscii_append, List.map_cons]
    congr 1
    induction rest with
    | nil => rfl
    | cons q qs ih =>
      simp only [List.flatMap_cons, lowerAscii_append, lowerAscii_cons, List.map_cons, ih]
      rfl

/-- the lower-cased rendering of a list of plain parameters determines the list up to ASCII case -/
theorem lower_joinParams_inj {m m' : Map} (hm : ∀ kv ∈ m, Plain kv) (hm' : ∀ kv ∈ m', Plain kv)
    (h : lowerAscii (joinParams (m.map reqParam)) = lowerAscii (joinParams (m'.map reqParam))) :
    m.map lowerKV = m'.map lowerKV := by
  have hne : ∀ (m : Map), (∀ kv ∈ m, Plain kv) → ∀ p ∈ m.map reqParam, p ≠ [] := by
    intro m hm p hp
    obtain ⟨kv, hkv, rfl⟩ := List.mem_map.mp hp
    intro e; exact (hm kv hkv).ne (reqParam_eq_nil.mp e)
  have hne2 : ∀ (m : Map), (∀ kv ∈ m, Plain kv) → ∀ p ∈ (m.map reqParam).map lowerAscii, p ≠ [] := by
    intro m hm p hp
    obtain ⟨q, hq, rfl⟩ := List.mem_map.mp hp
    intro e
    have : q = [] := by cases q with
      | nil => rfl
      | cons _ _ => simp [lowerAscii] at e
    exact hne m hm q hq this
  have h38 : ∀ (m : Map), (∀ kv ∈ m, Plain kv) → ∀ p ∈ (m.map reqParam).map lowerAscii, 38 ∉ p := by
    intro m hm p hp
    obtain ⟨q, hq, rfl⟩ := List.mem_map.mp hp
    obtain ⟨kv, hkv, rfl⟩ := List.mem_map.mp hq
    exact fun e => not_mem_reqParam_38 (hm kv hkv) ((mem_lowerAscii_nonletter nonLetter_38).mp e)
  have hback : ∀ (m : Map), (∀ kv ∈ m, Plain kv) → ((m.map reqParam).map lowerAscii).map rawPair = m.map lowerKV := by
    intro m hm
    rw [List.map_map, List.map_map]
    exact List.map_congr_left fun kv hkv => rawPair_lower_reqParam (hm kv hkv)
  rw [joinParams_eq_amp (hne m hm), joinParams_eq_amp (hne m' hm'), lowerAscii_amp, lowerAscii_amp] at h
  by_cases he : m = []
  · subst he
    have : amp ((m'.map reqParam).map lowerAscii) = [] := by simpa [amp] using h.symm
    have := (amp_eq_nil (hne2 m' hm')).mp this
    have : m' = [] := by simpa using this
    subst this; rfl
  · by_cases he' : m' = []
    · subst he'
      have : amp ((m.map reqParam).map lowerAscii) = [] := by simpa [amp] using h
      have := (amp_eq_nil (hne2 m hm)).mp this
      exact absurd (by simpa using this) he
    · have := congrArg (pieces 38) h
      rw [pieces_amp (by simpa using he) (h38 m hm), pieces_amp (by simpa using he') (h38 m' hm')] at this
      rw [← hback m hm, ← hback m' hm', this]

/-- **equal lower-cased keys force equal paths and equal kept parameters, up to ASCII case** -/
theorem lower_npq_inj (cfg : Cfg) {path path' : Bytes} {m m' : Map} (hp : 63 ∉ path) (hp' : 63 ∉ path')
    (hm : ∀ kv ∈ m.filter (notMarketing cfg), Plain kv) (hm' : ∀ kv ∈ m'.filter (notMarketing cfg), Plain kv)
    (h : lowerAscii (npq cfg path m) = lowerAscii (npq cfg path' m')) :
    lowerAscii path = lowerAscii path' ∧
    (m.filter (notMarketing cfg)).map lowerKV = (m'.filter (notMarketing cfg)).map lowerKV := by
  have hs : ∀ (path : Bytes) (m : Map), 63 ∉ path →
      splitFirst 63 (lowerAscii (npq cfg path m)) =
        (lowerAscii path, if !(keptOf cfg m).isEmpty then some (lowerAscii (keptOf cfg m)) else none) := by
    intro path m hp
    have hp2 : 63 ∉ lowerAscii path := fun e => hp ((mem_lowerAscii_nonletter nonLetter_63).mp e)
    unfold npq
    cases (keptOf cfg m).isEmpty with
    | true => simp [splitFirst_of_not_mem hp2]
    | false =>
      simp only [Bool.not_false, if_true, lowerAscii_append, lowerAscii_cons]
      have : lowerByte 63 = 63 := by decide
      rw [this, splitFirst_append_of_not_mem 63 _ _ hp2]; simp [splitFirst]
  have h1 := hs path m hp
  rw [h, hs path' m' hp'] at h1
  simp only [Prod.mk.injEq] at h1
  refine ⟨h1.1.symm, ?_⟩
  have hk : lowerAscii (keptOf cfg m) = lowerAscii (keptOf cfg m') := by
    have h2 := h1.2
    cases e1 : (keptOf cfg m).isEmpty <;> cases e2 : (keptOf cfg m').isEmpty <;> simp [e1, e2] at h2
    · exact h2.symm
    · rw [List.isEmpty_iff.mp e1, List.isEmpty_iff.mp e2]
  unfold keptOf at hk
  exact lower_joinParams_inj hm hm' hk


end Rio.Url
