/-
W28 — helper lemmas for Props/C19gen2.lean: the TRANSLATED impact entry points (`Rio.Consts.genFromImpactProject`,
`genImpactCreateResult`, `genComputeImpactsHead`; tools/consts_dev/w28_impact.py) instantiated on the router algebra `Alg`
and the pipeline `Pipe` of Model/LoopAnalysis.lean, and the equalities with the hand-written model.
-/
import RioModel.Model.LoopAnalysis
import RioModel.Generated.Consts

namespace Rio.Analysis
open Rio.Loop

/-- a loop whose body starts with `if p a { continue; }` is the loop over the elements that are not skipped -/
theorem foldl_continue {α β : Type} (p : α → Bool) (f : β → α → β) (l : List α) (s : β) :
    l.foldl (fun s a => if p a then s else f s a) s = (l.filter fun a => !p a).foldl f s := by
  induction l generalizing s with
  | nil => rfl
  | cons a t ih =>
    simp only [List.foldl_cons, List.filter_cons]
    cases h : p a
    · simp [ih]
    · simp [ih]

section
variable {St Rule Req Cfg Tr Ex Id UId UT Core U M Dom : Type}
variable [DecidableEq Id] [DecidableEq U] [DecidableEq M]
variable (A : Alg St Rule Req Cfg Tr Id) (P : Pipe Rule Req Cfg Ex Id UId UT Core U M Dom)

/-- the part of `compute_impacts` that is NOT translated (everything after its first statement), on the views of the two
routers: the hand-written loop -/
def impactLoopOf (router traceRouter : St) (examples : Option (List Ex)) (withLoop : Bool) (maxHops : Nat)
    (dom : Dom) : List (Impact Ex Core Tr U M) :=
  computeImpacts P (A.view router) (A.view traceRouter) examples withLoop maxHops dom

/-- translated `compute_impacts` (translated head, hand-written loop) on the algebra -/
def genComputeImpacts (router traceRouter : St) (examples : Option (List Ex)) (withLoop : Bool) (maxHops : Nat)
    (action : String) (rule : Rule) (dom : Dom) : List (Impact Ex Core Tr U M) :=
  Rio.Consts.genComputeImpactsHead A.insert (impactLoopOf A P) router traceRouter examples withLoop maxHops action rule dom

/-- translated `from_impact_project` on the algebra: `update_existing_router` = `Alg.update`, `from_arc_config` =
`Alg.empty`, `router.config` = the config of the view -/
def genImpactProject (D : ChangeSet Rule Id) (I : ImpactSpec Rule Dom) (base : St) : List (Impact Ex Core Tr U M) :=
  Rio.Consts.genFromImpactProject (fun D s => A.update D s) A.empty (fun s => (A.view s).config) A.remove P.ruleId
    P.examples (genComputeImpacts A P) I.maxHops I.withLoop I.domains I.rule I.action D base

/-- translated `create_result` on the algebra -/
def genImpactStandalone (c : Cfg) (rules : List Rule) (I : ImpactSpec Rule Dom) : List (Impact Ex Core Tr U M) :=
  Rio.Consts.genImpactCreateResult A.empty A.insert P.ruleId P.examples (genComputeImpacts A P) c I.maxHops I.withLoop
    I.domains I.rule I.action rules

omit [DecidableEq Id] in
theorem genComputeImpacts_eq (router traceRouter : St) (I : ImpactSpec Rule Dom) :
    genComputeImpacts A P router traceRouter (P.examples I.rule) I.withLoop I.maxHops I.action I.rule I.domains =
      impactOn A P router traceRouter I := by
  unfold genComputeImpacts Rio.Consts.genComputeImpactsHead impactOn impactLoopOf
  by_cases h1 : I.action = "add" <;> by_cases h2 : I.action = "update" <;> simp [h1, h2]

theorem genImpactProject_eq (D : ChangeSet Rule Id) (I : ImpactSpec Rule Dom) (base : St) :
    genImpactProject A P D I base = impactProject A P D I base := by
  unfold genImpactProject Rio.Consts.genFromImpactProject impactProject
  exact genComputeImpacts_eq A P _ _ I

theorem genImpactStandalone_eq (c : Cfg) (rules : List Rule) (I : ImpactSpec Rule Dom) :
    genImpactStandalone A P c rules I = impactStandalone A P c rules I := by
  unfold genImpactStandalone Rio.Consts.genImpactCreateResult impactStandalone Alg.build
  simp only []
  rw [genComputeImpacts_eq]
  congr 1
  rw [foldl_continue (fun r => decide (P.ruleId r = P.ruleId I.rule)) (fun S r => A.insert r S)]
  congr 1
  apply List.filter_congr
  intro r _
  simp

end
end Rio.Analysis
