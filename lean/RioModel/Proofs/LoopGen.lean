/-
W19 — helper lemmas for Props/C19gen.lean: the TRANSLATED `RedirectionLoop::compute`
(`Rio.Consts.genLoopCompute`, regenerated from src/api/redirection_loop.rs on every run by the plugin
w19_loop.py) equals the hand-written model `Rio.Loop.compute` (Model/Loop.lean).

The translated function has one parameter per callee it does not translate (`Callees`, bundled here).
The model has the two parameters `step` / `ext`; `stepOf` / `extOf` below read them off the callees:
they are exactly the part of one turn of the loop that the model abstracts.
-/
import RioModel.Generated.Consts
import RioModel.Proofs.Loop

set_option linter.unusedSimpArgs false
set_option linter.unusedSectionVars false
set_option linter.unusedVariables false

namespace Rio.LoopGen
open Rio.Loop Rio.Consts

/-! ### `genLoopFor`: the two loop shapes of `compute` -/

/-- A loop that leaves the state alone until the first element satisfying `p`, where it updates the
state with `f` and executes a `break` with code `c + 1`. -/
theorem genLoopFor_find {α σ : Type} (p : α → Bool) (f : α → σ → σ) (c : Nat) (body : α → σ → σ × Nat)
    (h : ∀ x s, body x s = if p x then (f x s, c + 1) else (s, 0)) :
    ∀ (xs : List α) (s : σ), genLoopFor xs s body =
      match xs.find? p with
      | some x => (f x s, c)
      | none => (s, 0) := by
  intro xs
  induction xs with
  | nil => intro s; simp [genLoopFor]
  | cons x rest ih =>
    intro s
    cases hp : p x
    · simp [genLoopFor, h, hp, ih, List.find?]
    · simp [genLoopFor, h, hp, List.find?]

/-- The empty loop and one unfolding. -/
theorem genLoopFor_nil {α σ : Type} (s : σ) (body : α → σ → σ × Nat) : genLoopFor [] s body = (s, 0) := by
  simp [genLoopFor]

theorem genLoopFor_cons {α σ : Type} (x : α) (rest : List α) (s : σ) (body : α → σ → σ × Nat) :
    genLoopFor (x :: rest) s body =
      match body x s with
      | (s', 0) => genLoopFor rest s' body
      | (s', c + 1) => (s', c) := by
  rcases hb : body x s with ⟨s', c⟩
  cases c <;> simp [genLoopFor, hb]

/-- The counting loop `for i in i..` against the model's `run`, through a representation `rep` of the
state: if the translated body does, on represented states, what the model's `body` does (`break` = 1),
the loops agree. -/
theorem genLoopFor_range {U M σ : Type} [DecidableEq U] [DecidableEq M]
    (step : U → M → StepOut U) (ext : U → Bool) (get : M) (maxHops : Nat)
    (rep : State U M → σ) (gbody : Nat → σ → σ × Nat)
    (h : ∀ i st, gbody i (rep st) =
      (rep (Loop.body step ext get maxHops i st).1, if (Loop.body step ext get maxHops i st).2 then 0 else 1)) :
    ∀ (n i : Nat) (st : State U M),
      genLoopFor (List.range' i n) (rep st) gbody = (rep (run step ext get maxHops i n st), 0) := by
  intro n
  induction n with
  | zero => intro i st; simp [genLoopFor, run]
  | succ n ih =>
    intro i st
    rw [List.range'_succ, genLoopFor_cons, h i st]
    rcases hb : Loop.body step ext get maxHops i st with ⟨st', b⟩
    cases b
    · simp [run, hb]
    · simp [run, hb, ih]

/-! ### The callees of `compute` and what the model's `step` / `ext` are in terms of them -/

/-- The callees `RedirectionLoop::compute` does not translate (see the docstring of w19_loop.py). -/
structure Callees (S Ex Rt Cf Rq Rs Ac Pu : Type) where
  lit : String → S
  exampleUrl : Ex → S
  exampleMethod : Ex → Option S
  responseStatusCode : Ex → Option Nat
  withUrl : Ex → S → Ex
  withMethod : Ex → Option S → Ex
  routerConfig : Rt → Cf
  fromExample : Cf → Ex → Option Rq
  matchRequest : Rt → Rq → Rs
  fromRoutesRule : Rs → Rq → Ac
  getStatusCode : Ac → Nat → Nat × Ac
  filterHeaders : Ac → Nat → List (S × S) × Ac
  lower : S → S
  joinUrl : S → S → S
  urlParse : S → Option Pu
  hostStr : Pu → Option S

section
variable {S Ex Rt Cf Rq Rs Ac Pu : Type} [DecidableEq S] (E : Callees S Ex Rt Cf Rq Rs Ac Pu)
variable (router : Rt) (maxHops : Nat) (ex : Ex) (pd : List S)

/-- The translated `compute` applied to a bundle of callees. -/
def genCompute : List (S × Nat × S) × Option GenRedirectionError :=
  genLoopCompute E.lit E.exampleUrl E.exampleMethod E.responseStatusCode E.withUrl E.withMethod E.routerConfig
    E.fromExample E.matchRequest E.fromRoutesRule E.getStatusCode E.filterHeaders E.lower E.joinUrl E.urlParse E.hostStr
    router maxHops ex pd

/-- The status part of one turn: `((final_status_code, backend_status_code), action after the calls)`. -/
def statusOf (req : Rq) (ex' : Ex) : (Nat × Nat) × Ac :=
  let r := E.getStatusCode (E.fromRoutesRule (E.matchRequest router req) req) 0
  if r.1 != 0 then ((r.1, r.1), r.2)
  else
    let b := (E.responseStatusCode ex').getD 200
    let r2 := E.getStatusCode r.2 b
    ((r2.1, b), r2.2)

/-- First header whose lower-cased name is `location`, joined onto the current url. -/
def locationOf (u : S) (headers : List (S × S)) : Option S :=
  (headers.find? (fun h => E.lower h.1 == E.lit "location")).map (fun h => E.joinUrl u h.2)

/-- The model's `step`: one turn of the router pipeline for the current `(url, method)`. -/
def stepOf (u m : S) : StepOut S :=
  let ex' := E.withMethod (E.withUrl ex u) (some m)
  match E.fromExample (E.routerConfig router) ex' with
  | none => .reqErr
  | some req =>
    let r := statusOf E router req ex'
    .resp r.1.1 (locationOf E u (E.filterHeaders r.2 r.1.2).1)

/-- The model's `ext`: the project-domain break. -/
def extOf (u : S) : Bool :=
  match E.urlParse u with
  | some p => !pd.isEmpty && !pd.contains ((E.hostStr p).getD (E.lit ""))
  | none => false

/-- A model hop as the translated code's tuple (fields of `RedirectionHop` in declaration order). -/
def toGenHop (h : Hop S S) : S × Nat × S := (h.url, h.status, h.method)

/-- `enum RedirectionError`, model → translated. -/
def toGenErr : Err → GenRedirectionError
  | .atLeastOneHop => .atLeastOneHop
  | .tooManyHops => .tooManyHops
  | .loop => .loop

theorem toGenErr_inj : ∀ a b : Err, toGenErr a = toGenErr b → a = b := by
  intro a b; cases a <;> cases b <;> simp [toGenErr]

theorem toGenHop_inj : ∀ a b : Hop S S, toGenHop a = toGenHop b → a = b := by
  intro a b h; cases a; cases b; simp [toGenHop] at h; simp [h]

/-- The loop state of the translated code (`current_url, current_method, error, hops`: the variables the
outer loop assigns, in declaration order) for a model state. -/
@[reducible] def rep (st : State S S) : S × S × Option GenRedirectionError × List (S × Nat × S) :=
  (st.url, st.method, st.error.map toGenErr, st.hops.map toGenHop)

theorem any_sameKey_map (u m : S) (hs : List (Hop S S)) :
    (hs.map toGenHop).find? (fun h => h.1 == u && h.2.2 == m) =
      (hs.find? (sameKey u m)).map toGenHop := by
  induction hs with
  | nil => simp
  | cons h t ih =>
    simp only [List.map_cons, List.find?]
    have : (toGenHop h).1 = h.url ∧ (toGenHop h).2.2 = h.method := ⟨rfl, rfl⟩
    simp only [this.1, this.2, sameKey]
    cases (h.url == u && h.method == m) <;> simp [ih]

theorem any_map_sameKey (u m : S) (hs : List (Hop S S)) :
    (hs.map toGenHop).any (fun h => h.1 == u && h.2.2 == m) = hs.any (sameKey u m) := by
  induction hs with
  | nil => simp
  | cons h t ih => simp only [List.map_cons, List.any_cons, ih]; rfl

theorem find_sameKey_none_iff (u m : S) (hs : List (Hop S S)) :
    hs.find? (sameKey u m) = none ↔ hs.any (sameKey u m) = false := by
  simp [List.find?_eq_none, List.any_eq_false]

theorem genRedirectionCodes_eq : genRedirectionCodes = redirectionCodes := rfl
theorem loopGetRewriteCodes_eq : loopGetRewriteCodes = [301, 302] := rfl

theorem opt_cases {α : Type} (o : Option α) : o = none ∨ ∃ x, o = some x := by
  cases o <;> simp

/-- The part of the body after the status codes are known (`fs` = final status code, `hd` = the filtered headers): shared by
the two branches of the request-time / backend status choice.  Names refer to the context of `genCompute_eq`. -/
syntax "w19_tail " term : tactic
set_option hygiene false in
macro_rules
  | `(tactic| w19_tail $fs) => `(tactic| (
    simp only [locationOf]
    delta isRedirect rewritesToGet loopGetRewriteCodes redirectionCodes genRedirectionCodes
    rcases Bool.eq_false_or_eq_true (List.contains [301, 302, 307, 308] $fs) with hred | hred
    rotate_left
    · simp only [hred]; simp
    simp only [hred, Bool.not_true, Bool.false_eq_true, if_false]
    rcases opt_cases (List.find? (fun h => lower h.fst == lit "location") hd) with hfind | ⟨hdr, hfind⟩
    · simp [hfind]
    simp only [hfind, Option.map_some, Bool.not_true, Bool.false_eq_true, if_false]
    generalize joinUrl u hdr.2 = nu
    -- the repeat test: the loop over `hops` with `break 'outer`, or `hops.iter().any(..)`
    first
      | (rw [genLoopFor_find (p := fun h : S × Nat × S => h.1 == nu && h.2.2 == (if [301, 302].contains $fs = true then lit "GET" else m))
          (f := fun _ (s : Option GenRedirectionError × List (S × Nat × S)) => (some GenRedirectionError.loop, s.2 ++ [(nu, $fs, (if [301, 302].contains $fs = true then lit "GET" else m))])) (c := 1)]
         rotate_left
         · intro x s; rfl
         rw [any_sameKey_map])
      | rw [any_map_sameKey]
    rcases Bool.eq_false_or_eq_true (hs.any (sameKey nu (if [301, 302].contains $fs = true then lit "GET" else m))) with hany | hany
    · obtain ⟨k, hk⟩ : ∃ k, hs.find? (sameKey nu (if [301, 302].contains $fs = true then lit "GET" else m)) = some k := by
        rcases opt_cases (hs.find? (sameKey nu (if [301, 302].contains $fs = true then lit "GET" else m))) with h | ⟨k, h⟩
        · rw [(find_sameKey_none_iff _ _ hs).1 h] at hany; cases hany
        · exact ⟨k, h⟩
      simp only [hk, hany, Option.map_some, if_true]
      simp [State.push, toGenHop, toGenErr]
    · have hk := (find_sameKey_none_iff _ _ hs).2 hany
      simp only [hk, hany, Option.map_none, Bool.false_eq_true, if_false, extOf]
      rcases opt_cases (urlParse nu) with hp | ⟨pu, hp⟩ <;> simp only [hp] <;> by_cases h1 : i > 1 <;>
        by_cases h2 : i ≥ maxHops <;> simp [State.push, h1, h2, toGenHop, toGenErr] <;>
        (try (split <;> simp [toGenHop, toGenErr]))
    ))

/-- **Translated = model**, helper form (the listed theorem is `Rio.C19.gen_compute_eq_model`).  For every bundle of callees,
router, hop limit, example and project-domain list: the translated `compute` returns the hops and the error of the model's
`compute` run with `step := stepOf`, `ext := extOf`, `get := lit "GET"`, from `example.url` / `example.method.unwrap_or("GET")`. -/
theorem genCompute_eq :
    genCompute E router maxHops ex pd =
      ((compute (stepOf E router ex) (extOf E pd) (E.lit "GET") maxHops (E.exampleUrl ex)
          ((E.exampleMethod ex).getD (E.lit "GET"))).hops.map toGenHop,
       (compute (stepOf E router ex) (extOf E pd) (E.lit "GET") maxHops (E.exampleUrl ex)
          ((E.exampleMethod ex).getD (E.lit "GET"))).error.map toGenErr) := by
  obtain ⟨lit, exampleUrl, exampleMethod, responseStatusCode, withUrl, withMethod, routerConfig, fromExample,
    matchRequest, fromRoutesRule, getStatusCode, filterHeaders, lower, joinUrl, urlParse, hostStr⟩ := E
  unfold genCompute genLoopCompute
  simp only [Nat.add_sub_cancel]
  have key := genLoopFor_range (stepOf ⟨lit, exampleUrl, exampleMethod, responseStatusCode, withUrl, withMethod, routerConfig, fromExample, matchRequest, fromRoutesRule, getStatusCode, filterHeaders, lower, joinUrl, urlParse, hostStr⟩ router ex) (extOf ⟨lit, exampleUrl, exampleMethod, responseStatusCode, withUrl, withMethod, routerConfig, fromExample, matchRequest, fromRoutesRule, getStatusCode, filterHeaders, lower, joinUrl, urlParse, hostStr⟩ pd) (lit "GET") maxHops rep
  have h0 : (exampleUrl ex, (exampleMethod ex).getD (lit "GET"), (none : Option GenRedirectionError), [(exampleUrl ex, 0, (exampleMethod ex).getD (lit "GET"))]) = rep (init (exampleUrl ex) ((exampleMethod ex).getD (lit "GET"))) := rfl
  rw [h0, key _ ?_]
  · simp [compute, rep]
  · intro i st
    rcases st with ⟨u, m, hs, e⟩
    dsimp only [rep]
    cases hfe : fromExample (routerConfig router) (withMethod (withUrl ex u) (some m))
    · simp [Loop.body, stepOf, hfe, rep]
    · rename_i req
      simp only [Loop.body, stepOf, statusOf, hfe]
      -- the search for the Location header: the `found` flag loop, or `headers.iter().find(..)` (nothing to rewrite then)
      first
        | (rw [genLoopFor_find (p := fun h : S × S => lower h.1 == lit "location") (f := fun h (s : S × Bool) => (joinUrl s.1 h.2, true)) (c := 0)]
           rotate_left
           · intro x s; rfl)
        | skip
      generalize getStatusCode (fromRoutesRule (matchRequest router req) req) 0 = r1
      rcases r1 with ⟨c1, a1⟩
      generalize (responseStatusCode (withMethod (withUrl ex u) (some m))).getD 200 = b
      dsimp only []
      generalize getStatusCode a1 b = r2
      rcases r2 with ⟨c2, a2⟩
      by_cases hc : c1 = 0
      · subst hc
        simp only [bne_self_eq_false, beq_self_eq_true, Bool.false_eq_true, if_false, if_true]
        generalize (filterHeaders a2 b).1 = hd
        w19_tail c2
      · have hc1 : (c1 != 0) = true := by simpa using hc
        have hc2 : (c1 == 0) = false := by simpa using hc
        simp only [hc1, hc2, Bool.false_eq_true, if_false, if_true]
        generalize (filterHeaders a1 c1).1 = hd
        w19_tail c1

end

end Rio.LoopGen
