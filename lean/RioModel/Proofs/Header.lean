import RioModel.Model.Header

set_option linter.unusedSimpArgs false
namespace Rio.Header
variable (lower : String → String)

theorem removeAction_aux (n : String) (hs acc : List Header) :
    hs.foldl (fun acc h => if !sameName lower n h then acc ++ [h] else acc) acc
      = acc ++ hs.filter (fun h => !sameName lower n h) := by
  induction hs generalizing acc with
  | nil => simp
  | cons h t ih =>
    simp only [List.foldl_cons, List.filter_cons]
    cases hc : sameName lower n h <;>
      simp only [hc, Bool.not_false, Bool.not_true, if_true, Bool.false_eq_true, if_false,
        reduceIte] <;> (try rw [ih]) <;> simp

theorem replaceAction_aux (n v : String) (hs acc : List Header) :
    hs.foldl (fun acc h => if sameName lower n h then acc ++ [⟨n, v⟩] else acc ++ [h]) acc
      = acc ++ hs.map (fun h => if sameName lower n h then ⟨n, v⟩ else h) := by
  induction hs generalizing acc with
  | nil => simp
  | cons h t ih =>
    simp only [List.foldl_cons, List.map_cons]
    cases hc : sameName lower n h <;>
      simp only [hc, Bool.not_false, Bool.not_true, if_true, Bool.false_eq_true, if_false,
        reduceIte] <;> (try rw [ih]) <;> simp

theorem overrideAction_aux (n v : String) (hs acc : List Header) (b : Bool) :
    hs.foldl
      (fun (st : List Header × Bool) h =>
        if !sameName lower n h then (st.1 ++ [h], st.2) else (st.1 ++ [⟨n, v⟩], true))
      (acc, b)
      = (acc ++ hs.map (fun h => if sameName lower n h then ⟨n, v⟩ else h),
         b || hs.any (sameName lower n)) := by
  induction hs generalizing acc b with
  | nil => simp
  | cons h t ih =>
    simp only [List.foldl_cons, List.map_cons, List.any_cons]
    cases hc : sameName lower n h <;>
      simp only [hc, Bool.not_false, Bool.not_true, if_true, Bool.false_eq_true, if_false,
        reduceIte] <;> (try rw [ih]) <;> simp

theorem defaultFound_eq (n : String) (hs : List Header) :
    defaultFound lower n hs = hs.any (sameName lower n) := by
  induction hs with
  | nil => simp [defaultFound]
  | cons h t ih =>
    simp only [defaultFound, List.any_cons]
    cases hc : sameName lower n h <;>
      simp only [hc, Bool.not_false, Bool.not_true, if_true, Bool.false_eq_true, if_false,
        reduceIte] <;> (try rw [ih]) <;> simp

/-- Mapping the matching headers to the new header is the identity when none matches. -/
theorem map_replace_of_not_any (n v : String) (hs : List Header)
    (h : hs.any (sameName lower n) = false) :
    hs.map (fun h => if sameName lower n h then (⟨n, v⟩ : Header) else h) = hs := by
  induction hs with
  | nil => rfl
  | cons a t ih =>
    simp only [List.any_cons, Bool.or_eq_false_iff] at h
    simp [h.1, ih h.2]

/-- Filtering by a predicate `p` that rejects the new header and every matching header
commutes with the replace-map. -/
theorem filter_map_replace (n v : String) (p : Header → Bool) (hs : List Header)
    (hp : ∀ h, p h = true → sameName lower n h = false) (hp2 : p ⟨n, v⟩ = false) :
    (hs.map (fun h => if sameName lower n h then (⟨n, v⟩ : Header) else h)).filter p = hs.filter p := by
  induction hs with
  | nil => rfl
  | cons a t ih =>
    simp only [List.map_cons, List.filter_cons]
    cases hc : sameName lower n a with
    | false => simp [ih]
    | true =>
      have : p a = false := by
        cases hpa : p a with
        | false => rfl
        | true => rw [hp a hpa] at hc; cases hc
      simp [hp2, this, ih]

theorem filter_filter_not_same (n : String) (p : Header → Bool) (hs : List Header)
    (hp : ∀ h, p h = true → sameName lower n h = false) :
    (hs.filter (fun h => !sameName lower n h)).filter p = hs.filter p := by
  induction hs with
  | nil => rfl
  | cons a t ih =>
    simp only [List.filter_cons]
    cases hc : sameName lower n a with
    | false => simp only [Bool.not_false, if_true, List.filter_cons, ih]
    | true =>
      have : p a = false := by
        cases hpa : p a with
        | false => rfl
        | true => rw [hp a hpa] at hc; cases hc
      simp [this, ih]

end Rio.Header
