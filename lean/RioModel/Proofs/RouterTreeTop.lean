/-
Router proofs, part 12: the tower and the router over the real regex-tree model.

`towerTLaws` instantiates the layer tower with `pathTLaws` (innermost) and `hostTLaws`; its layered
`sat` is the flat specification `sat T.env` – the same predicate as for the specification-level
tower – so all generic router lemmas `g_*` of RouterTop.lean apply (`towerTSpec`).  The only extra
hypothesis is on inserted routes: their marker patterns (path and host) render to regex strings in
the domain `Good` of property C08, for which the engine satisfies `PrefixSound`.
-/
import RioModel.Proofs.RouterTreeHost
import RioModel.Proofs.RouterTrace

set_option linter.unusedSimpArgs false
set_option linter.unusedVariables false
set_option linter.unusedSectionVars false

namespace Rio.Router
open Rio.Regex Rio.Tree

section
variable (T : TEnv) (Good : List Char → Prop) (hPS : PrefixSound T.engine Good)

/-- the layers between the host layer and the path layer, over the real path tree -/
def innerTLaws := ipL T.env (pathTLaws T Good hPS)

/-- The laws of the tower over the real regex trees. -/
def towerTLaws : MLaws (towerTOps T) := schemeLaws (hostTLaws T Good (innerTLaws T Good hPS) hPS)

/-- the marker patterns of the route (path and host) render into the domain of C08 -/
def TreeGood (r : Route) : Prop := PathGood T Good r ∧ HostGood T Good r

theorem towerT_sat (R : List Route) (r : Route) (q : Req) :
    (towerTLaws T Good hPS).sat R r q = sat T.env R r q :=
  towerL_sat T.env (pathTLaws T Good hPS) T.host (fun _ _ _ => rfl) (fun _ _ => rfl) rfl R r q

theorem towerT_wf (r : Route) (h : WFRoute r) : (towerTLaws T Good hPS).wf r :=
  towerL_wf T.env (pathTLaws T Good hPS) T.host (fun _ => trivial) r h

theorem towerTSpec : TowerSpec T.env (towerTLaws T Good hPS) (TreeGood T Good) :=
  ⟨towerT_sat T Good hPS, towerT_wf T Good hPS, fun _ h => ⟨h.1, h.2⟩⟩

/-- Router state `S` over the real trees represents the list `L` of live routes. -/
abbrev RReprT (S : RouterT T) (L : List Route) : Prop := RReprG (towerTLaws T Good hPS) S L

end
end Rio.Router
