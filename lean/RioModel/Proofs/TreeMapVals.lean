/-
`Item.mapVals g` (every stored value `v` under id `id` replaced by `g id v`, regexes and structure kept) commutes with the
tree operations: `insert`, `get_mut`-update (`modifyAt`), `retain`, `strip`; `get`, `contents`, `regex`, `isEmpty` see the
mapped values.  Used for `HostMatcher`, whose tree stores inner matchers: "equal up to cached values" for such a tree means
its own regexes stripped AND every stored bucket stripped.
-/
import RioModel.Proofs.TreeTraceCache
set_option linter.unusedSimpArgs false
set_option linter.unusedVariables false
set_option linter.unusedSectionVars false

namespace Rio.Tree
open Rio.Scan Rio.Regex

variable {ι V : Type} [DecidableEq ι]

/-- the map on a leaf's `HashMap` -/
def mapKV (g : ι → V → V) (vs : List (ι × V)) : List (ι × V) := vs.map fun kv => (kv.1, g kv.1 kv.2)

theorem mapVals_leaf' (g : ι → V → V) (rx) (vs : List (ι × V)) :
    (Item.leaf rx vs).mapVals g = .leaf rx (mapKV g vs) := mapVals_leaf g rx vs

theorem regex_mapVals (g : ι → V → V) (t : Item ι V) : (t.mapVals g).regex = t.regex := by
  cases t with
  | empty ic => rw [mapVals_empty]
  | leaf rx vs => rw [mapVals_leaf]; rfl
  | node rx cs => rw [mapVals_node]; rfl

theorem map_regex_mapVals (g : ι → V → V) (cs : List (Item ι V)) :
    (cs.map (Item.mapVals g)).map Item.regex = cs.map Item.regex := by
  rw [List.map_map]; exact List.map_congr_left (fun c _ => by simp [regex_mapVals])

theorem strip_mapVals (g : ι → V → V) (t : Item ι V) : (t.mapVals g).strip = t.strip.mapVals g := by
  induction t using Item.ind with
  | hE ic => simp [mapVals_empty]
  | hL rx vs => simp [mapVals_leaf]
  | hN rx cs ih =>
    rw [mapVals_node, strip_node, strip_node, mapVals_node, List.map_map, List.map_map]
    congr 1
    exact List.map_congr_left fun c hc => ih c hc

theorem contents_mapVals (g : ι → V → V) (t : Item ι V) :
    (t.mapVals g).contents = t.contents.map fun e => ⟨e.pat, e.id, g e.id e.val⟩ := by
  induction t using Item.ind with
  | hE ic => simp [mapVals_empty]
  | hL rx vs => simp [mapVals_leaf]
  | hN rx cs ih =>
    rw [mapVals_node, contents_node, contents_node, contentsL_eq, contentsL_eq, List.flatMap_map, List.map_flatMap]
    exact flatMap_congr' ih

theorem isEmpty_mapVals (g : ι → V → V) (t : Item ι V) : (t.mapVals g).isEmpty = t.isEmpty := by
  induction t using Item.ind with
  | hE ic => rw [mapVals_empty]
  | hL rx vs => rw [mapVals_leaf, isEmpty_leaf, isEmpty_leaf]; simp
  | hN rx cs ih =>
    rw [mapVals_node, isEmpty_node, isEmpty_node, List.all_map, Bool.eq_iff_iff]
    simp only [List.all_eq_true, Function.comp]
    constructor
    · intro h c hc; rw [← ih c hc]; exact h c hc
    · intro h c hc; rw [ih c hc]; exact h c hc

theorem keepNonEmpty_mapVals (g : ι → V → V) (c : Item ι V) :
    keepNonEmpty (c.mapVals g) = (keepNonEmpty c).map (Item.mapVals g) := by
  unfold keepNonEmpty
  rw [isEmpty_mapVals]
  split <;> simp

theorem collapse1_mapVals (g : ι → V → V) (rx : LazyRegex) (l : List (Item ι V)) :
    (collapse1 rx l).mapVals g = collapse1 rx (l.map (Item.mapVals g)) := by
  match l with
  | [] => simp [collapse1, mapVals_node]
  | [c] => simp [collapse1]
  | _ :: _ :: _ => simp [collapse1, mapVals_node]

/-! ### get -/

/-- `get(pattern)` on the value-mapped tree returns the mapped values (for a map that does not read the id). -/
theorem get_mapVals (g : V → V) (t : Item ι V) (p : List Char) :
    (t.mapVals fun _ => g).get p = (t.get p).map g := by
  induction t using Item.ind with
  | hE ic => rw [mapVals_empty]; simp [Item.get]
  | hL rx vs =>
    rw [mapVals_leaf, get_leaf, get_leaf]
    split <;> simp
  | hN rx cs ih =>
    rw [mapVals_node, get_node, get_node, getL_eq, getL_eq]
    split
    · rw [List.flatMap_map, List.map_flatMap]
      exact flatMap_congr' ih
    · rfl

/-! ### insert -/

theorem upsert_mapKV (g : ι → V → V) (vs : List (ι × V)) (id : ι) (v : V) :
    mapKV g (upsert vs id v) = upsert (mapKV g vs) id (g id v) := by
  induction vs with
  | nil => rfl
  | cons kv vs ih =>
    obtain ⟨k, w⟩ := kv
    simp only [mapKV, upsert, List.map_cons] at ih ⊢
    by_cases h : k = id
    · subst h; simp
    · simp [h, ih]

theorem newLeafItem_mapVals (g : ι → V → V) (p : List Char) (id : ι) (v : V) (ic : Bool) :
    (newLeafItem p id v ic).mapVals g = newLeafItem p id (g id v) ic := by
  simp [newLeafItem, mapVals_leaf]

theorem insertAt_map_mapVals (g : ι → V → V) (cs : List (Item ι V)) (i : Nat) (p : List Char) (id : ι) (v : V)
    (h : ∀ c ∈ cs, (c.insert p id v).mapVals g = (c.mapVals g).insert p id (g id v)) :
    (insertAt cs i p id v).map (Item.mapVals g) = insertAt (cs.map (Item.mapVals g)) i p id (g id v) := by
  induction cs generalizing i with
  | nil => simp [insertAt]
  | cons c cs ih =>
    cases i with
    | zero => simp [insertAt, h c (by simp)]
    | succ i => simp [insertAt, ih i fun d hd => h d (by simp [hd])]

theorem insert_mapVals (g : ι → V → V) (t : Item ι V) (p : List Char) (id : ι) (v : V) :
    (t.insert p id v).mapVals g = (t.mapVals g).insert p id (g id v) := by
  induction t using Item.ind with
  | hE ic => rw [mapVals_empty, insert_empty, insert_empty, newLeafItem_mapVals]
  | hL rx vs =>
    rw [mapVals_leaf', insert_leaf, insert_leaf]
    unfold leafInsert
    by_cases hp : p = rx.original
    · simp only [hp, if_true]; rw [mapVals_leaf', upsert_mapKV]
    · simp only [hp, if_false]
      rw [mapVals_node]
      simp [mapVals_leaf, mapKV]
  | hN rx cs ih =>
    rw [mapVals_node]
    by_cases hsplit : commonPrefixCharSize p rx.original < rx.original.length
    · rw [insert_node_split hsplit, insert_node_split hsplit, mapVals_node]
      simp [newLeafItem_mapVals, mapVals_node]
    · cases hs : selLoop p (cs.map Item.regex) 0 rx.original.length none with
      | none =>
        rw [insert_node_none hsplit hs, insert_node_none hsplit (by rw [map_regex_mapVals]; exact hs), mapVals_node]
        simp [newLeafItem_mapVals]
      | some i =>
        rw [insert_node_some hsplit hs, insert_node_some hsplit (by rw [map_regex_mapVals]; exact hs), mapVals_node,
          insertAt_map_mapVals g cs i p id v ih]

/-! ### get_mut + update -/

theorem modifyAt_mapVals (g f f' : ι → V → V) (hgf : ∀ id v, g id (f id v) = f' id (g id v))
    (t : Item ι V) (p : List Char) : (t.modifyAt p f).mapVals g = (t.mapVals g).modifyAt p f' := by
  induction t using Item.ind with
  | hE ic => simp [modifyAt_empty, mapVals_empty]
  | hL rx vs =>
    rw [mapVals_leaf, modifyAt_leaf, modifyAt_leaf]
    by_cases hp : rx.original = p
    · simp only [hp, if_true]; rw [mapVals_leaf]; simp [hgf]
    · simp only [hp, if_false]; rw [mapVals_leaf]
  | hN rx cs ih =>
    rw [mapVals_node, modifyAt_node, modifyAt_node]
    by_cases hp : rx.original.isPrefixOf p = true
    · simp only [hp, if_true]
      rw [mapVals_node, List.map_map, List.map_map]
      congr 1
      exact List.map_congr_left fun c hc => ih c hc
    · simp [hp, mapVals_node]

/-! ### retain -/

theorem retainVals_mapKV (g : ι → V → V) (f f' : ι → V → Option V)
    (hgf : ∀ id v, (f id v).map (g id) = f' id (g id v)) (vs : List (ι × V)) :
    mapKV g (retainVals f vs) = retainVals f' (mapKV g vs) := by
  unfold retainVals mapKV
  induction vs with
  | nil => rfl
  | cons kv vs ih =>
    obtain ⟨k, w⟩ := kv
    simp only [List.filterMap_cons, List.map_cons]
    rw [← hgf k w]
    cases hf : f k w with
    | none => simpa using ih
    | some w' => simpa using ih

theorem retain_mapVals (g : ι → V → V) (f f' : ι → V → Option V)
    (hgf : ∀ id v, (f id v).map (g id) = f' id (g id v)) (t : Item ι V) :
    (t.retain f).mapVals g = (t.mapVals g).retain f' := by
  induction t using Item.ind with
  | hE ic => simp [retain_empty, mapVals_empty]
  | hL rx vs =>
    rw [mapVals_leaf', retain_leaf, retain_leaf, ← retainVals_mapKV g f f' hgf]
    have : (mapKV g (retainVals f vs)).isEmpty = (retainVals f vs).isEmpty := by simp [mapKV]
    rw [this]
    split
    · rw [mapVals_empty]
    · rw [mapVals_leaf']
  | hN rx cs ih =>
    rw [mapVals_node, retain_node, retain_node]
    have : (retainL cs f).map (Item.mapVals g) = retainL (cs.map (Item.mapVals g)) f' := by
      rw [retainL_eq, retainL_eq, List.map_flatMap, List.flatMap_map]
      apply flatMap_congr'
      intro c hc
      rw [← ih c hc, keepNonEmpty_mapVals]
    rw [← this]
    simp only [List.isEmpty_map]
    split
    · rw [mapVals_empty]
    · rw [collapse1_mapVals]

end Rio.Tree
