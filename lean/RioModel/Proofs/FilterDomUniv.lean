/-
C15, byte level, universal form: `tokenize (serialize d) = tokensOf d` for every document of the `Simple` grammar,
parametrised by the closed-form facts about the tokenizer's readers (`Laws`: every tag / comment / declaration /
raw-text element that satisfies the grammar's side conditions is a closed piece).  The laws are discharged from W5's
`Proofs/HtmlClosed*.lean` in `Props/C15.lean`.
-/
import RioModel.Proofs.FilterDomTok
set_option linter.unusedSimpArgs false
set_option linter.unusedVariables false
set_option linter.unusedSectionVars false

namespace Rio.Filter
open Rio.Html Rio.Html.Tokenizer

/-! ### a text at the end of the input -/

theorem readByte_eof {t : Tokenizer} (h : t.buf.size ≤ t.rawE) : t.readByte = ({ t with err := true }, 0) := by
  unfold readByte
  have : ¬ t.rawE < t.buf.size := by omega
  simp [this]

/-- the `'main` loop over bytes other than `<` up to the end of the buffer -/
theorem mainLoop_eof : ∀ (tx : Bytes) (t : Tokenizer), (∀ b ∈ tx, b ≠ 60) →
    (∀ i, i < tx.length → t.buf[t.rawE + i]? = tx[i]?) → t.buf.size = t.rawE + tx.length → t.err = false →
    mainLoop t = finishText { t with rawE := t.rawE + tx.length, err := true }
  | [], t, _, _, hsz, herr => by
    simp only [List.length_nil, Nat.add_zero] at hsz ⊢
    rw [mainLoop, readByte_eof (by omega)]
    simp
  | b :: tx, t, hne, hbuf, hsz, herr => by
    have hb : t.buf[t.rawE]? = some b := by simpa using hbuf 0 (by simp)
    rw [mainLoop_skip hb (hne b (by simp)) herr]
    have h1 : ∀ i, i < tx.length → t.buf[t.rawE + 1 + i]? = tx[i]? := by
      intro i hi
      have := hbuf (i + 1) (by simp; omega)
      simp only [List.getElem?_cons_succ] at this
      rw [← this]; congr 1; omega
    have := mainLoop_eof tx { t with rawE := t.rawE + 1 } (fun x hx => hne x (List.mem_cons_of_mem _ hx)) h1
      (by simp only [List.length_cons] at hsz; show t.buf.size = t.rawE + 1 + tx.length; omega) herr
    rw [this]
    congr 2
    simp only [List.length_cons]; omega

/-- **a non-empty text free of `<` at the end of the input is one text token, nothing is left** -/
theorem htmlTokenize?_text_eof {tx : Bytes} (hne : tx ≠ []) (h60 : ∀ b ∈ tx, b ≠ 60) :
    htmlTokenize? tx = some ([⟨.text, tx, []⟩], []) := by
  have hl : 0 < tx.length := List.length_pos_iff.mpr hne
  have hn : next (Tokenizer.new tx.toArray) =
      { Tokenizer.new tx.toArray with rawE := tx.length, err := true, dataE := tx.length, token := .text } := by
    have hml := mainLoop_eof tx (Tokenizer.new tx.toArray) h60
      (fun i hi => by simp [Tokenizer.new]) (by simp [Tokenizer.new]) rfl
    have : next (Tokenizer.new tx.toArray) = mainLoop (Tokenizer.new tx.toArray) := by
      simp [next, nextGo, Tokenizer.new]
    rw [this, hml]
    unfold finishText
    simp [Tokenizer.new, hl]
  have inv1 : Inv (next (Tokenizer.new tx.toArray)) := next_inv' _ (inv_new _)
  have hstep1 : tgStep (Tokenizer.new tx.toArray) = .tok ⟨.text, tx, []⟩ (next (Tokenizer.new tx.toArray)) := by
    unfold tgStep
    simp only
    rw [raw_eq _ inv1]
    have hraw : rawL (next (Tokenizer.new tx.toArray)) = tx := by
      rw [hn]; simp [rawL, Tokenizer.new]
    rw [hraw, hn]
    simp [Tokenizer.new, Tokenizer.isTagLike, kindOf]
  have hstep2 : tgStep (next (Tokenizer.new tx.toArray)) = .stop [] := by
    have hnn : next (next (Tokenizer.new tx.toArray)) =
        { Tokenizer.new tx.toArray with rawS := tx.length, rawE := tx.length, err := true, dataS := tx.length,
          dataE := tx.length, token := .error } := by
      rw [hn]
      simp [next, nextGo, Tokenizer.new]
    have inv2 : Inv (next (next (Tokenizer.new tx.toArray))) := next_inv' _ inv1
    unfold tgStep
    simp only
    rw [raw_eq _ inv2, buffered_eq _ inv2]
    have h1 : rawL (next (next (Tokenizer.new tx.toArray))) = [] := by rw [hnn]; simp [rawL, Tokenizer.new]
    have h2 : restL (next (next (Tokenizer.new tx.toArray))) = [] := by rw [hnn]; simp [restL, Tokenizer.new]
    rw [h1, h2, hnn]
    simp [Tokenizer.new]
  unfold htmlTokenize?
  rw [show tx.length + 2 = (tx.length - 1 + 1) + 1 by omega, tokenizeGo_succ, hstep1]
  simp only
  rw [tokenizeGo_succ, hstep2]
  rfl

end Rio.Filter
