/-
C15, byte level, universal form: `tokenize (serialize d) = tokensOf d` for every document of the `Simple` grammar,
parametrised by the closed-form facts about the tokenizer's readers (`Laws`: every tag / comment / declaration /
raw-text element that satisfies the grammar's side conditions is a closed piece).  The laws are discharged from W5's
`Proofs/HtmlClosed*.lean` in `Props/C15.lean`.
-/
import RioModel.Proofs.FilterDomTok
set_option linter.unusedSimpArgs false
set_option linter.unusedVariables false
set_option linter.unusedSectionVars false

namespace Rio.Filter
open Rio.Html Rio.Html.Tokenizer

/-! ### the `Simple` grammar, parametrised by the closed-form laws of the readers -/

/-- lower-cased tag name as the tokenizer computes it -/
def lowerName (d : Bytes) : Bytes := d.map Tokenizer.lowerByte

/-- side conditions of the grammar and the facts the readers satisfy under them -/
structure Laws where
  /-- display name + raw attribute text of an ordinary (not raw-text) start tag -/
  StartOK : Bytes → Bytes → Prop
  SelfOK : Bytes → Bytes → Prop
  EndOK : Bytes → Prop
  /-- display name, attribute text and content of a raw-text element -/
  RawOK : Bytes → Bytes → Bytes → Prop
  /-- a comment or a declaration -/
  OtherOK : Bytes → Prop
  start_closed : ∀ d a, StartOK d a →
    Closed (startTok (lowerName d) d a).raw [startTok (lowerName d) d a] ∧ StartsOpener (startTok (lowerName d) d a).raw
  self_closed : ∀ d a, SelfOK d a →
    Closed (selfTok (lowerName d) d a).raw [selfTok (lowerName d) d a] ∧ StartsOpener (selfTok (lowerName d) d a).raw
  end_closed : ∀ d, EndOK d → Closed (endTok (lowerName d) d).raw [endTok (lowerName d) d]
  raw_closed : ∀ d a c, RawOK d a c →
    Closed ((startTok (lowerName d) d a).raw ++ c ++ (endTok (lowerName d) d).raw)
      (startTok (lowerName d) d a :: (textToks c ++ [endTok (lowerName d) d])) ∧
    StartsOpener (startTok (lowerName d) d a).raw
  other_closed : ∀ x, OtherOK x → Closed x [⟨.other, x, []⟩] ∧ StartsOpener x

/-- how the tokenizer sees a verbatim piece of a `Simple` document: a comment / declaration / processing instruction (it
starts with `<` + `!` / `?`; in general: `<` + a byte that opens something) is one token of kind `other`, a text one text
token -/
def vtU (raw : Bytes) : List Tok := if startsOpenerB raw then [⟨.other, raw, []⟩] else textToks raw

theorem startsOpenerB_of {y : Bytes} (h : StartsOpener y) : startsOpenerB y = true := by
  obtain ⟨c, rest, rfl, hc⟩ := h
  exact hc

/-- a text of the grammar opens nothing -/
theorem startsOpenerB_text {tx : Bytes} (h : textOKB tx = true) : startsOpenerB tx = false := by
  match tx, h with
  | [], _ => rfl
  | [b], _ => (unfold startsOpenerB; split <;> simp_all)
  | b :: c :: r, h =>
    by_cases hb : b = 60
    · subst hb
      simp only [textOKB, Bool.and_eq_true, Bool.or_eq_true, bne_self_eq_false, Bool.false_eq_true, false_or,
        Bool.not_eq_true'] at h
      simpa [startsOpenerB] using h.1
    · unfold startsOpenerB
      split
      · rename_i heq
        simp only [List.cons.injEq] at heq
        exact absurd heq.1 hb
      · rfl

theorem vtU_lossless : VtLossless vtU := by
  intro raw
  unfold vtU
  split
  · simp [rawsOf]
  · exact rawsOf_textToks raw

/-- a text node (syntactically: a verbatim piece that does not start with `<` + opener) -/
def isTextB : Node → Bool
  | .verb raw _ => !startsOpenerB raw
  | _ => false

section
variable (L : Laws)

mutual
  /-- **the `Simple` grammar**: text = non-empty, free of `<`; comments / declarations, ordinary elements (normal, void,
  self-closing), raw-text elements under the side conditions of `L`; the node name is the lower-cased display name -/
  def SimpleN : Node → Prop
    | .verb raw _ => (raw ≠ [] ∧ textOKB raw = true) ∨ L.OtherOK raw
    | .el nm d a knd cs =>
      nm = lowerName d ∧
      (match knd with
       | .normal => L.StartOK d a ∧ L.EndOK d ∧ SimpleL cs
       | .void => L.StartOK d a
       | .selfClosing => L.SelfOK d a
       | .raw => L.RawOK d a (serializeList cs))
  /-- … and no two adjacent text nodes -/
  def SimpleL : List Node → Prop
    | [] => True
    | n :: ns =>
      SimpleN n ∧
      (match ns with
       | [] => True
       | m :: _ => ¬(isTextB n = true ∧ isTextB m = true)) ∧
      SimpleL ns
end

def lastIsText : List Node → Bool
  | [] => false
  | [n] => isTextB n
  | _ :: ns => lastIsText ns

theorem other_opener {x : Bytes} (h : L.OtherOK x) : startsOpenerB x = true :=
  startsOpenerB_of (L.other_closed x h).2

section
variable {P : Bytes → List Tok → Bytes → Prop} (hP : TokLaws P)
include hP

mutual
  theorem SimpleN_tok : ∀ (n : Node), SimpleN L n →
      ∀ (y : Bytes) (ts' : List Tok) (r : Bytes), P y ts' r →
        (isTextB n = true → StartsOpener y ∨ y = []) →
        P (serialize n ++ y) (tokensOf vtU n ++ ts') r ∧
        (isTextB n = false → StartsOpener (serialize n))
    | .verb raw m, h, y, ts', r, hy, hop => by
      unfold SimpleN at h
      rcases h with ⟨hne, h60'⟩ | ho
      · have hemp : raw.isEmpty = false := by cases raw with
          | nil => exact absurd rfl hne
          | cons _ _ => rfl
        have hmem : startsOpenerB raw = false := startsOpenerB_text h60'
        refine ⟨?_, fun hv => by simp [isTextB, hmem] at hv⟩
        have htok : tokensOf vtU (Node.verb raw m) = [⟨.text, raw, []⟩] := by
          simp [tokensOf, vtU, hmem, textToks, hemp]
        rw [htok]
        simp only [serialize]
        rcases hop (by simp [isTextB, hmem]) with hso | hnil
        · obtain ⟨c, rest, hy0, hc⟩ := hso
          simpa using hP.text hne h60' hy0 hc hy
        · subst hnil
          obtain ⟨rfl, rfl⟩ := hP.nil_inv hy
          simpa using hP.text_eof hne h60'
      · obtain ⟨hc, hso⟩ := L.other_closed raw ho
        have hmem : startsOpenerB raw = true := other_opener L ho
        refine ⟨?_, fun _ => by simpa [serialize] using hso⟩
        have := hP.append hc hy
        have htok : tokensOf vtU (Node.verb raw m) = [⟨.other, raw, []⟩] := by
          simp [tokensOf, vtU, hmem]
        rw [htok]
        simpa [serialize] using this
    | .el nm d a knd cs, h, y, ts', r, hy, _ => by
      unfold SimpleN at h
      obtain ⟨hnm, h⟩ := h
      subst hnm
      cases knd with
      | raw =>
        simp only at h
        obtain ⟨hc, hso⟩ := L.raw_closed d a _ h
        refine ⟨?_, fun _ => ?_⟩
        · have := hP.append hc hy
          simp only [serialize, tokensOf]
          simp only [startTok, endTok] at this ⊢
          simpa [List.append_assoc] using this
        · have := startsOpener_append hso (serializeList cs ++ (endTok (lowerName d) d).raw)
          simpa [serialize, startTok, endTok, List.append_assoc] using this
      | void =>
        simp only at h
        obtain ⟨hc, hso⟩ := L.start_closed d a h
        refine ⟨?_, fun _ => by simpa [serialize, startTok] using hso⟩
        have := hP.append hc hy
        simpa [serialize, tokensOf, startTok] using this
      | selfClosing =>
        simp only at h
        obtain ⟨hc, hso⟩ := L.self_closed d a h
        refine ⟨?_, fun _ => by simpa [serialize, selfTok] using hso⟩
        have := hP.append hc hy
        simpa [serialize, tokensOf, selfTok] using this
      | normal =>
        simp only at h
        obtain ⟨hs, he, hcs⟩ := h
        obtain ⟨hcS, hoS⟩ := L.start_closed d a hs
        have hcE := L.end_closed d he
        have h1 := hP.append hcE hy
        have h2 := SimpleL_tok cs hcs ((endTok (lowerName d) d).raw ++ y) _ r h1
          (fun _ => Or.inl (startsOpener_append (startsOpener_endTok _ d) y))
        have h3 := hP.append hcS h2
        refine ⟨?_, fun _ => ?_⟩
        · simp only [serialize, tokensOf]
          simp only [startTok, endTok] at h3 ⊢
          simpa [List.append_assoc] using h3
        · have := startsOpener_append hoS (serializeList cs ++ (endTok (lowerName d) d).raw)
          simpa [serialize, startTok, endTok, List.append_assoc] using this
  theorem SimpleL_tok : ∀ (ns : List Node), SimpleL L ns →
      ∀ (y : Bytes) (ts' : List Tok) (r : Bytes), P y ts' r →
        (lastIsText ns = true → StartsOpener y ∨ y = []) →
        P (serializeList ns ++ y) (tokensOfList vtU ns ++ ts') r
    | [], _, y, ts', r, hy, _ => by simpa [serializeList, tokensOfList] using hy
    | [n], h, y, ts', r, hy, hop => by
      unfold SimpleL at h
      have := (SimpleN_tok n h.1 y ts' r hy (fun hv => hop (by simpa [lastIsText] using hv))).1
      simpa [serializeList, tokensOfList] using this
    | n :: m :: rest, h, y, ts', r, hy, hop => by
      unfold SimpleL at h
      obtain ⟨hn, hadj, hrest⟩ := h
      simp only at hadj
      have ih := SimpleL_tok (m :: rest) hrest y ts' r hy (fun hv => hop (by simpa [lastIsText] using hv))
      have hfollow : isTextB n = true → StartsOpener (serializeList (m :: rest) ++ y) ∨
          serializeList (m :: rest) ++ y = [] := by
        intro hv
        have hm : isTextB m = false := by
          cases hb : isTextB m with
          | false => rfl
          | true => exact absurd ⟨hv, hb⟩ hadj
        have hmS : SimpleN L m := by unfold SimpleL at hrest; exact hrest.1
        have := (SimpleN_tok m hmS [] [] [] hP.nil (fun hv' => by rw [hm] at hv'; cases hv')).2 hm
        exact Or.inl (by
          simpa [serializeList, List.append_assoc] using startsOpener_append this (serializeList rest ++ y))
      have := (SimpleN_tok n hn _ _ r ih hfollow).1
      simpa [serializeList, tokensOfList, List.append_assoc] using this
end

end

/-- **`tokenize (serialize d) = tokensOf d` for every `Simple` document** — text (also at the very end), comments,
declarations, ordinary and raw-text elements, any names and attribute texts the laws cover, any shape and size. -/
theorem tokenize_serialize_of_laws (doc : List Node) (hs : SimpleL L doc) :
    htmlTokenize (serializeList doc) = (tokensOfList vtU doc, []) := by
  have := SimpleL_tok L plainLaws doc hs [] [] [] plainLaws.nil (fun _ => Or.inr rfl)
  simp only [List.append_nil, PlainTo] at this
  simp [htmlTokenize_apply, this]

/-- **the same for the stream tokenizer `filter` runs since fe7eac6** (`new_fragment(data, "")`): the same tokens,
nothing left, and no token is cut short by the end of the document in the sense of `filter` (a final text is ended by
the end of the data, but plain text is not held back) -/
theorem stream_serialize_of_laws (doc : List Node) (hs : SimpleL L doc) :
    StreamTo (serializeList doc) (tokensOfList vtU doc) [] := by
  have := SimpleL_tok L streamLaws doc hs [] [] [] streamLaws.nil (fun _ => Or.inr rfl)
  simpa only [List.append_nil] using this

/-- the last token decides whether `filter` holds something back -/
theorem splitHeld_of_last {ts : List Tok}
    (h : ∀ t, ts.getLast? = some t → ¬(t.kind = .text ∧ hasLt t.raw = true)) : splitHeld ts = (ts, []) := by
  unfold splitHeld
  cases hl : ts.getLast? with
  | none =>
    have : ts = [] := by simpa using hl
    subst this; rfl
  | some t =>
    simp only
    rw [if_neg (h t hl)]

def NotHeldTok (t : Tok) : Prop := ¬(t.kind = .text ∧ hasLt t.raw = true)

/-- a top-level node after which `filter` holds nothing back: anything but a text holding `<` -/
def NoLtText : Node → Prop
  | .verb raw _ => startsOpenerB raw = true ∨ raw.contains 60 = false
  | _ => True

/-- the last token of such a node is a tag, a comment / declaration, or a text free of `<` (raw text, which may hold `<`,
is always followed by its end tag) -/
theorem lastTok_node (n : Node) (hn : NoLtText n) : ∀ t, (tokensOf vtU n).getLast? = some t → NotHeldTok t := by
  intro t ht
  cases n with
  | verb raw m =>
    simp only [tokensOf, vtU] at ht
    split at ht
    · simp only [List.getLast?_singleton, Option.some.injEq] at ht
      subst ht; simp [NotHeldTok]
    · rename_i hc
      unfold textToks at ht
      split at ht
      · simp at ht
      · simp only [List.getLast?_singleton, Option.some.injEq] at ht
        subst ht
        intro hh
        have := hh.2
        simp only [hasLt] at this
        rcases hn with h | h
        · exact hc h
        · rw [h] at this; cases this
  | el nm d a knd cs =>
    cases knd with
    | raw =>
      have : tokensOf vtU (.el nm d a .raw cs) = (startTok nm d a :: textToks (serializeList cs)) ++ [endTok nm d] := by
        simp [tokensOf]
      rw [this, List.getLast?_append] at ht
      simp only [List.getLast?_singleton, Option.some_or, Option.some.injEq] at ht
      subst ht; simp [NotHeldTok, endTok]
    | normal =>
      have : tokensOf vtU (.el nm d a .normal cs) = (startTok nm d a :: tokensOfList vtU cs) ++ [endTok nm d] := by
        simp [tokensOf]
      rw [this, List.getLast?_append] at ht
      simp only [List.getLast?_singleton, Option.some_or, Option.some.injEq] at ht
      subst ht; simp [NotHeldTok, endTok]
    | void =>
      simp only [tokensOf, List.getLast?_singleton, Option.some.injEq] at ht
      subst ht; simp [NotHeldTok, startTok]
    | selfClosing =>
      simp only [tokensOf, List.getLast?_singleton, Option.some.injEq] at ht
      subst ht; simp [NotHeldTok, selfTok]

theorem lastTok_list : ∀ (ns : List Node), (∀ n ∈ ns, NoLtText n) →
    ∀ (t : Tok), (tokensOfList vtU ns).getLast? = some t → NotHeldTok t
  | [], _, t, ht => by simp [tokensOfList] at ht
  | n :: ns, h, t, ht => by
    simp only [tokensOfList, List.getLast?_append] at ht
    cases hl : (tokensOfList vtU ns).getLast? with
    | none =>
      rw [hl] at ht
      simp only [Option.none_or] at ht
      exact lastTok_node n (h n (by simp)) t ht
    | some t' =>
      rw [hl] at ht
      simp only [Option.some_or, Option.some.injEq] at ht
      subst ht
      exact lastTok_list ns (fun x hx => h x (List.mem_cons_of_mem _ hx)) _ hl

/-- `filter` holds nothing back at the end of the document: the last token is not a text holding `<` (decidable; implied
by `NoLtText` of the top-level nodes) -/
def NoHeld (doc : List Node) : Prop := splitHeld (tokensOfList vtU doc) = (tokensOfList vtU doc, [])

instance (doc : List Node) : Decidable (NoHeld doc) := by unfold NoHeld; infer_instance

theorem noHeld_of_topTexts (doc : List Node) (h : ∀ n ∈ doc, NoLtText n) : NoHeld doc :=
  splitHeld_of_last (lastTok_list doc h)

/-- … hence the bridge hypothesis `TokAgree` of the token-level theorems (given valid UTF-8) -/
theorem tokAgree_of_laws (doc : List Node) (hs : SimpleL L doc)
    (hu : utf8Split (serializeList doc) = some (serializeList doc, [])) (hh : NoHeld doc) :
    TokAgree htmlTokenize vtU doc :=
  have h := streamTo_stream (stream_serialize_of_laws L doc hs)
  ⟨h.1, h.2.1, h.2.2, hu, hh⟩

end

/-- several filters on `Simple` documents: every filter in its domain on the document it sees, which is again `Simple`
(the inserted values are texts / comments of the grammar), valid UTF-8 and not empty -/
def StepsSimple (L : Laws) (ev : Bytes → Bytes → Bool) : List Node → List BodyFilter → Prop
  | _, [] => True
  | d, f :: fs =>
    SimpleL L d ∧ utf8Split (serializeList d) = some (serializeList d, []) ∧ NoHeld d ∧ InDomain htmlTokenize vtU d f ∧
    (fs ≠ [] → serializeList (editD (decOf ev) d f) ≠ []) ∧ StepsSimple L ev (editD (decOf ev) d f) fs

theorem stepsOK_of_simple (L : Laws) (ev : Bytes → Bytes → Bool) :
    ∀ (fs : List BodyFilter) (d : List Node), StepsSimple L ev d fs → StepsOK htmlTokenize ev vtU d fs
  | [], _, _ => trivial
  | f :: fs, d, h => by
    obtain ⟨hs, hu, hh, hd, hne, hrest⟩ := h
    exact ⟨hd, tokAgree_of_laws L d hs hu hh, hne, stepsOK_of_simple L ev fs _ hrest⟩

/-! ### from facts about `next` on a fresh tokenizer to `Closed` -/

/-- what a closed-form lemma says about `next (Tokenizer.new x.toArray)` -/
structure FreshFacts (x : Bytes) (k : TokenType) : Prop where
  token : (next (Tokenizer.new x.toArray)).token = k
  rawE : (next (Tokenizer.new x.toArray)).rawE = x.length
  err : (next (Tokenizer.new x.toArray)).err = false
  rawTag : (next (Tokenizer.new x.toArray)).rawTag = []
  cdata : (next (Tokenizer.new x.toArray)).allowCdata = true

theorem rawL_fresh {x : Bytes} {k : TokenType} (f : FreshFacts x k) :
    rawL (next (Tokenizer.new x.toArray)) = x := by
  have hs : (next (Tokenizer.new x.toArray)).rawS = 0 := next_rawS' _ (inv_new _)
  have hb : (next (Tokenizer.new x.toArray)).buf = x.toArray := next_buf' _ (inv_new _)
  unfold rawL
  rw [hs, f.rawE, hb]
  simp

/-- a comment / declaration piece -/
theorem closed_of_fresh_other {x : Bytes} {k : TokenType} (hx : x ≠ []) (hk : k = .comment ∨ k = .doctype)
    (f : FreshFacts x k) : Closed x [⟨.other, x, []⟩] := by
  have inv1 := next_inv' _ (inv_new x.toArray)
  have hstep : tgStep (Tokenizer.new x.toArray) = .tok ⟨.other, x, []⟩ (next (Tokenizer.new x.toArray)) := by
    unfold tgStep
    simp only
    rw [raw_eq _ inv1, rawL_fresh f, inv1.ok.panic, inv1.ok.hang, inv1.ok.utf8, f.token]
    rcases hk with rfl | rfl <;> simp [Tokenizer.isTagLike, kindOf]
  refine ⟨next (Tokenizer.new x.toArray), ?_, f.rawE, f.err, f.rawTag, f.cdata, ?_⟩
  · simp [closedEnd, hstep, f.err]
  · exact List.length_pos_iff.mpr hx

/-- a tag piece whose data span is `disp` -/
theorem closed_of_fresh_tag {x disp : Bytes} {k : TokenType} {a : Nat}
    (hk : k = .startTag ∨ k = .endTag ∨ k = .selfClosing) (f : FreshFacts x k)
    (hdS : (next (Tokenizer.new x.toArray)).dataS = a)
    (hdE : (next (Tokenizer.new x.toArray)).dataE = a + disp.length)
    (hslice : (x.drop a).take disp.length = disp) (hne : disp ≠ []) (hascii : ∀ b ∈ disp, b < 128)
    (hx : x ≠ []) :
    Closed x [⟨kindOf k, x, lowerName disp⟩] := by
  have inv1 := next_inv' _ (inv_new x.toArray)
  have sp1 := (next_post _ (inv_new x.toArray)).spans
  have hb : (next (Tokenizer.new x.toArray)).buf = x.toArray := next_buf' _ (inv_new _)
  have htl : Tokenizer.isTagLike (next (Tokenizer.new x.toArray)).token = true := by
    rw [f.token]; rcases hk with rfl | rfl | rfl <;> rfl
  have hdata : dataL (next (Tokenizer.new x.toArray)) = disp := by
    have hle : a + disp.length ≤ x.length := by
      have := sp1.dataHi; rw [hdE, f.rawE] at this; exact this
    unfold dataL
    rw [hdS, hdE, hb]
    conv => rhs; rw [← hslice]
    simp [List.take_drop, Nat.min_eq_left hle]
  obtain ⟨hres, inv2, _, _, _, _⟩ := tagName_spec _ inv1 sp1 htl
  rw [hdata, validUtf8_of_ascii _ hascii, if_pos rfl] at hres
  have hstep : ∃ t2, tgStep (Tokenizer.new x.toArray) = .tok ⟨kindOf k, x, lowerName disp⟩ t2 ∧
      t2.rawE = x.length ∧ t2.err = false ∧ t2.rawTag = [] ∧ t2.allowCdata = true := by
    unfold tgStep
    simp only
    rw [raw_eq _ inv1, rawL_fresh f, inv1.ok.panic, inv1.ok.hang, inv1.ok.utf8]
    have hne' : ((next (Tokenizer.new x.toArray)).token == TokenType.error) = false := by
      rw [f.token]; rcases hk with rfl | rfl | rfl <;> rfl
    simp only [Bool.or_self, Bool.false_eq_true, if_false, hne', htl, if_true]
    rcases htn : tagName (next (Tokenizer.new x.toArray)) with ⟨res, t2⟩
    rw [htn] at hres
    simp only at hres
    subst hres
    refine ⟨t2, by rw [f.token]; rfl, ?_⟩
    have ht2 : t2 = (tagName (next (Tokenizer.new x.toArray))).2 := by rw [htn]
    rw [ht2]
    rcases tagName_cases' (next (Tokenizer.new x.toArray)) with h | h | h
    · rw [htn] at h; simp at h
    · rw [h]; exact ⟨f.rawE, f.err, f.rawTag, f.cdata⟩
    · rw [h]; exact ⟨f.rawE, f.err, f.rawTag, f.cdata⟩
  obtain ⟨t2, hst, h1, h2, h3, h4⟩ := hstep
  refine ⟨t2, ?_, h1, h2, h3, h4, ?_⟩
  · simp [closedEnd, hst, f.err]
  · exact List.length_pos_iff.mpr hx

/-! ### one iteration of the token loop from facts about `next` on ANY state (for pieces of several tokens) -/

/-- the buffer holds the bytes `l` at position `p` (same as `Tokenizer.Has` of W5's `Proofs/HtmlClosed.lean`) -/
def HasA (buf : Array Nat) (p : Nat) (l : Bytes) : Prop := ∀ i (h : i < l.length), buf[p + i]? = some l[i]

theorem extract_of_hasA {buf : Array Nat} {p : Nat} {l : Bytes} (h : HasA buf p l) :
    (buf.extract p (p + l.length)).toList = l := by
  apply List.ext_getElem?
  intro i
  simp only [Array.toList_extract, List.extract_eq_take_drop, Nat.add_sub_cancel_left]
  by_cases hi : i < l.length
  · have := h i hi
    rw [List.getElem?_eq_getElem hi, ← this, List.getElem?_take_of_lt hi, List.getElem?_drop]
    simp
  · have h1 : l[i]? = none := by simp; omega
    rw [h1, List.getElem?_take_eq_none (by omega)]

theorem hasA_toArray (x : Bytes) : HasA x.toArray 0 x := by
  intro i hi; simp

theorem HasA.sub {buf : Array Nat} {p : Nat} {x : Bytes} (h : HasA buf p x) (a n : Nat) :
    HasA buf (p + a) ((x.drop a).take n) := by
  intro i hi
  simp only [List.length_take, List.length_drop] at hi
  have := h (a + i) (by omega)
  rw [show p + a + i = p + (a + i) by omega, this]
  simp [List.getElem_take, List.getElem_drop]

/-- what a closed-form lemma says about `next t` when the piece `x` stands at `t.rawE` -/
structure StepFacts (t : Tokenizer) (k : TokenType) (x : Bytes) (tag : List Nat) : Prop where
  has : HasA t.buf t.rawE x
  token : (next t).token = k
  rawE : (next t).rawE = t.rawE + x.length
  err : (next t).err = false
  rawTag : (next t).rawTag = tag
  cdata : (next t).allowCdata = t.allowCdata

theorem rawL_of_facts {t : Tokenizer} {k : TokenType} {x : Bytes} {tag : List Nat} (it : Inv t)
    (f : StepFacts t k x tag) : rawL (next t) = x := by
  unfold rawL
  rw [next_rawS' t it, f.rawE, next_buf' t it]
  exact extract_of_hasA f.has

/-- a token that is not a tag (text, comment, doctype) -/
theorem step_plain {t : Tokenizer} {k : TokenType} {x : Bytes} {tag : List Nat} (it : Inv t)
    (f : StepFacts t k x tag) (hk : k = .text ∨ k = .comment ∨ k = .doctype) :
    tgStep t = .tok ⟨kindOf k, x, []⟩ (next t) := by
  have inv1 := next_inv' t it
  unfold tgStep
  simp only
  rw [raw_eq _ inv1, rawL_of_facts it f, inv1.ok.panic, inv1.ok.hang, inv1.ok.utf8, f.token]
  rcases hk with rfl | rfl | rfl <;> simp [Tokenizer.isTagLike, kindOf]

/-- a tag token whose data span is `disp`, `a` bytes into the piece -/
theorem step_tag {t : Tokenizer} {k : TokenType} {x disp : Bytes} {tag : List Nat} {a : Nat} (it : Inv t)
    (f : StepFacts t k x tag) (hk : k = .startTag ∨ k = .endTag ∨ k = .selfClosing)
    (hdS : (next t).dataS = t.rawE + a) (hdE : (next t).dataE = t.rawE + a + disp.length)
    (hslice : (x.drop a).take disp.length = disp) (hascii : ∀ b ∈ disp, b < 128) :
    ∃ t2, tgStep t = .tok ⟨kindOf k, x, lowerName disp⟩ t2 ∧ Inv t2 ∧ t2.rawE = t.rawE + x.length ∧
      t2.err = false ∧ t2.rawTag = tag ∧ t2.allowCdata = t.allowCdata ∧ t2.buf = t.buf := by
  have inv1 := next_inv' t it
  have sp1 := (next_post t it).spans
  have hb : (next t).buf = t.buf := next_buf' t it
  have htl : Tokenizer.isTagLike (next t).token = true := by
    rw [f.token]; rcases hk with rfl | rfl | rfl <;> rfl
  have hdata : dataL (next t) = disp := by
    unfold dataL
    rw [hdS, hdE, hb]
    have := extract_of_hasA (f.has.sub a disp.length)
    rw [hslice] at this
    exact this
  obtain ⟨hres, inv2, _, _, _, hbuf2⟩ := tagName_spec _ inv1 sp1 htl
  rw [hdata, validUtf8_of_ascii _ hascii, if_pos rfl] at hres
  unfold tgStep
  simp only
  rw [raw_eq _ inv1, rawL_of_facts it f, inv1.ok.panic, inv1.ok.hang, inv1.ok.utf8]
  have hne' : ((next t).token == TokenType.error) = false := by
    rw [f.token]; rcases hk with rfl | rfl | rfl <;> rfl
  simp only [Bool.or_self, Bool.false_eq_true, if_false, hne', htl, if_true]
  rcases htn : tagName (next t) with ⟨res, t2⟩
  rw [htn] at hres inv2 hbuf2
  simp only at hres inv2 hbuf2
  subst hres
  refine ⟨t2, by rw [f.token]; rfl, inv2, ?_⟩
  have ht2 : t2 = (tagName (next t)).2 := by rw [htn]
  have hfields : t2.rawE = (next t).rawE ∧ t2.err = (next t).err ∧ t2.rawTag = (next t).rawTag ∧
      t2.allowCdata = (next t).allowCdata := by
    rw [ht2]
    rcases tagName_cases' (next t) with h | h | h
    · rw [htn] at h; simp at h
    · rw [h]; exact ⟨rfl, rfl, rfl, rfl⟩
    · rw [h]; exact ⟨rfl, rfl, rfl, rfl⟩
  exact ⟨by rw [hfields.1, f.rawE], by rw [hfields.2.1, f.err], by rw [hfields.2.2.1, f.rawTag],
    by rw [hfields.2.2.2, f.cdata], hbuf2.trans hb⟩

theorem closedEnd_cons {u u1 : Tokenizer} {k : Tok} {ks : List Tok} (h : tgStep u = .tok k u1)
    (he : (next u).err = false) : closedEnd u (k :: ks) = closedEnd u1 ks := by
  simp [closedEnd, h, he]

end Rio.Filter
