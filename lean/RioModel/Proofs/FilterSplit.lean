/-
C03, html stage: the splitting lemma.  Two consecutive calls `filter(x); filter(y)` of `HtmlFilterBodyAction` behave as
the single call `filter(x ++ y)` — same final state, concatenated outputs — whenever the cut is *safe* for the
tokenizer: `SafeCut tk L x y` (L = `last_buffer` before the calls) says that, on the valid UTF-8 part,
  (restart)  tokenising `prefix ++ more` gives the tokens already processed for `prefix` (prefix stability) followed by
             the tokens of `held tail ++ more` obtained from a FRESH tokenizer (restart), with the same remainder;
  (boundary) the held tail starts at a character boundary;
  (held)     the "text containing `<` is held" rule selects the same token either way.
It is a decidable statement about three tokenizations (`safeCutB`), evaluated by the C03 driver / harness at every cut
that is syntactically safe (not inside a comment / declaration / CDATA / raw-text zone).
-/
import RioModel.Proofs.FilterHtml
import RioModel.Proofs.FilterUtf8
set_option linter.unusedSimpArgs false
set_option linter.unusedVariables false

namespace Rio.Filter

/-! ### the token loop does not read `last_buffer`, and only appends to `to_return` -/

theorem onStart_setLast (s : HtmlSt) (L name data : Bytes) :
    onStart { s with last := L } name data = ({ (onStart s name data).1 with last := L }, (onStart s name data).2) := by
  rw [onStart_eq, onStart_eq]
  simp only
  split
  · split <;> rfl
  · rfl

theorem onEnd_setLast (tk : Tokenize) (ev : Bytes → Bytes → Bool) (s : HtmlSt) (L name data : Bytes) :
    onEnd tk ev { s with last := L } name data =
      ({ (onEnd tk ev s name data).1 with last := L }, (onEnd tk ev s name data).2) := by
  rw [onEnd_eq, onEnd_eq]
  simp only
  split <;> split <;> rfl

theorem push_setLast (s : HtmlSt) (L out d : Bytes) :
    push { s with last := L } out d = ({ (push s out d).1 with last := L }, (push s out d).2) := by
  unfold push
  cases h : s.stack <;> simp [h]

theorem push_out (s : HtmlSt) (out0 out d : Bytes) :
    push s (out0 ++ out) d = ((push s out d).1, out0 ++ (push s out d).2) := by
  unfold push
  cases h : s.stack <;> simp [h]

variable (tk : Tokenize) (ev : Bytes → Bytes → Bool)

theorem stepTok_setLast (s : HtmlSt) (L out : Bytes) (t : Tok) :
    stepTok tk ev ({ s with last := L }, out) t =
      ({ (stepTok tk ev (s, out) t).1 with last := L }, (stepTok tk ev (s, out) t).2) := by
  cases hk : t.kind with
  | startTag =>
    rw [stepTok_start tk ev _ out t hk, stepTok_start tk ev s out t hk, onStart_setLast]
    split
    · simp only [onEnd_setLast, push_setLast]
    · simp only [push_setLast]
  | endTag =>
    rw [stepTok_end tk ev _ out t hk, stepTok_end tk ev s out t hk]
    simp only [onEnd_setLast, push_setLast]
  | selfClosing =>
    rw [stepTok_self tk ev _ out t hk, stepTok_self tk ev s out t hk, onStart_setLast]
    simp only [onEnd_setLast, push_setLast]
  | text =>
    rw [stepTok_other tk ev _ out t (by simp [hk, isTagKind]), stepTok_other tk ev s out t (by simp [hk, isTagKind])]
    exact push_setLast s L out t.raw
  | other =>
    rw [stepTok_other tk ev _ out t (by simp [hk, isTagKind]), stepTok_other tk ev s out t (by simp [hk, isTagKind])]
    exact push_setLast s L out t.raw

theorem stepTok_out (s : HtmlSt) (out0 out : Bytes) (t : Tok) :
    stepTok tk ev (s, out0 ++ out) t = ((stepTok tk ev (s, out) t).1, out0 ++ (stepTok tk ev (s, out) t).2) := by
  cases hk : t.kind with
  | startTag =>
    rw [stepTok_start tk ev s _ t hk, stepTok_start tk ev s out t hk]
    split <;> exact push_out _ _ _ _
  | endTag =>
    rw [stepTok_end tk ev s _ t hk, stepTok_end tk ev s out t hk]
    exact push_out _ _ _ _
  | selfClosing =>
    rw [stepTok_self tk ev s _ t hk, stepTok_self tk ev s out t hk]
    exact push_out _ _ _ _
  | text =>
    rw [stepTok_other tk ev s _ t (by simp [hk, isTagKind]), stepTok_other tk ev s out t (by simp [hk, isTagKind])]
    exact push_out _ _ _ _
  | other =>
    rw [stepTok_other tk ev s _ t (by simp [hk, isTagKind]), stepTok_other tk ev s out t (by simp [hk, isTagKind])]
    exact push_out _ _ _ _

theorem fold_setLast_out (ts : List Tok) : ∀ (s : HtmlSt) (L out0 : Bytes),
    ts.foldl (stepTok tk ev) ({ s with last := L }, out0) =
      ({ (ts.foldl (stepTok tk ev) (s, [])).1 with last := L }, out0 ++ (ts.foldl (stepTok tk ev) (s, [])).2) := by
  induction ts with
  | nil => intro s L out0; simp
  | cons t ts ih =>
    intro s L out0
    simp only [List.foldl_cons]
    have h1 := stepTok_setLast tk ev s L out0 t
    have h2 := stepTok_out tk ev s out0 [] t
    simp only [List.append_nil] at h2
    rw [h1, h2]
    generalize stepTok tk ev (s, []) t = p
    obtain ⟨s1, o1⟩ := p
    simp only
    rw [ih s1 L (out0 ++ o1)]
    have h3 := ih s1 s1.last o1
    have e : ({ s1 with last := s1.last } : HtmlSt) = s1 := rfl
    rw [e] at h3
    rw [h3]
    simp [List.append_assoc]

/-! ### the safe-cut predicate -/

/-- `SafeCut tk L x y`: see the header.  `L` = `last_buffer` before the two calls, `x`, `y` = the two chunks. -/
def SafeCut (L x y : Bytes) : Prop :=
  ∀ a1 p1, utf8Split (L ++ x) = some (a1, p1) →
    u8Run {} ((splitHeld (tk a1).1).2 ++ (tk a1).2) = some {} ∧
    ∀ a' p', utf8Split (p1 ++ y) = some (a', p') →
      tk (a1 ++ a') =
        ((splitHeld (tk a1).1).1 ++ (tk ((splitHeld (tk a1).1).2 ++ (tk a1).2 ++ a')).1,
          (tk ((splitHeld (tk a1).1).2 ++ (tk a1).2 ++ a')).2) ∧
      splitHeld ((splitHeld (tk a1).1).1 ++ (tk ((splitHeld (tk a1).1).2 ++ (tk a1).2 ++ a')).1) =
        ((splitHeld (tk a1).1).1 ++ (splitHeld (tk ((splitHeld (tk a1).1).2 ++ (tk a1).2 ++ a')).1).1,
          (splitHeld (tk ((splitHeld (tk a1).1).2 ++ (tk a1).2 ++ a')).1).2)

/-- the same as a Boolean (what the driver evaluates) -/
def safeCutB (L x y : Bytes) : Bool :=
  match utf8Split (L ++ x) with
  | none => true
  | some (a1, p1) =>
    let todo1 := (splitHeld (tk a1).1).1
    let tail := (splitHeld (tk a1).1).2 ++ (tk a1).2
    (u8Run {} tail == some {}) &&
    match utf8Split (p1 ++ y) with
    | none => true
    | some (a', _) =>
      let r := tk (tail ++ a')
      (tk (a1 ++ a') == (todo1 ++ r.1, r.2)) &&
      (splitHeld (todo1 ++ r.1) == (todo1 ++ (splitHeld r.1).1, (splitHeld r.1).2))

theorem safeCutB_sound (L x y : Bytes) (h : safeCutB tk L x y = true) : SafeCut tk L x y := by
  intro a1 p1 h1
  simp only [safeCutB, h1, Bool.and_eq_true, beq_iff_eq] at h
  refine ⟨h.1, ?_⟩
  intro a' p' h2
  have h3 := h.2
  simp only [h2, Bool.and_eq_true, beq_iff_eq] at h3
  exact h3

/-! ### the splitting lemma -/

/-- **Splitting lemma**: at a safe cut, `filter(x)` then `filter(y)` is `filter(x ++ y)`. -/
theorem filterHtml_merge (s s1 : HtmlSt) (x y o1 : Bytes)
    (h1 : filterHtml tk ev s x = some (s1, o1)) (hsafe : SafeCut tk s.last x y) :
    filterHtml tk ev s (x ++ y) = (filterHtml tk ev s1 y).map fun r => (r.1, o1 ++ r.2) := by
  unfold filterHtml at h1
  cases hsp : utf8Split (s.last ++ x) with
  | none => simp [hsp] at h1
  | some ap =>
    obtain ⟨a1, p1⟩ := ap
    simp only [hsp] at h1
    obtain ⟨hv, hrest⟩ := hsafe a1 p1 hsp
    -- name the pieces of the first call
    generalize htk1 : tk a1 = tk1 at h1 hv hrest
    obtain ⟨ts1, r1⟩ := tk1
    generalize hsh1 : splitHeld ts1 = sh1 at h1 hv hrest
    obtain ⟨todo1, hd1⟩ := sh1
    simp only at h1 hv hrest
    generalize hf1 : todo1.foldl (stepTok tk ev) (s, []) = f1 at h1
    obtain ⟨sf1, of1⟩ := f1
    simp only at h1
    injection h1 with h1
    injection h1 with hs1 ho1
    subst hs1 ho1
    -- the UTF-8 prologues of the two other calls
    have hu2 : utf8Split ((hd1 ++ r1 ++ p1) ++ y) = (utf8Split (p1 ++ y)).map fun r => ((hd1 ++ r1) ++ r.1, r.2) := by
      rw [List.append_assoc]
      exact utf8Split_prefix (hd1 ++ r1) (p1 ++ y) hv
    have hu : utf8Split (s.last ++ (x ++ y)) = (utf8Split (p1 ++ y)).map fun r => (a1 ++ r.1, r.2) := by
      rw [← List.append_assoc]
      exact utf8Split_append_right hsp y
    unfold filterHtml
    simp only [hu, hu2]
    cases hpy : utf8Split (p1 ++ y) with
    | none => simp
    | some ap' =>
      obtain ⟨a', p'⟩ := ap'
      obtain ⟨hk1, hk2⟩ := hrest a' p' hpy
      simp only [Option.map_some]
      rw [hk1]
      simp only
      rw [hk2]
      simp only
      generalize tk (hd1 ++ r1 ++ a') = tk2
      obtain ⟨ts2, r2⟩ := tk2
      simp only
      generalize splitHeld ts2 = sh2
      obtain ⟨todo2, hd2⟩ := sh2
      simp only
      rw [List.foldl_append, hf1]
      have key := fold_setLast_out tk ev todo2 sf1 (hd1 ++ r1 ++ p1) []
      have key2 := fold_setLast_out tk ev todo2 sf1 sf1.last of1
      have e : ({ sf1 with last := sf1.last } : HtmlSt) = sf1 := rfl
      rw [e] at key2
      rw [key, key2]
      simp

/-! ### sequences of calls -/

/-- the html stage over a list of chunks: final state and concatenated output; `none` = some call failed -/
def seqRun (s : HtmlSt) : List Bytes → Option (HtmlSt × Bytes)
  | [] => some (s, [])
  | x :: xs =>
    match filterHtml tk ev s x with
    | none => none
    | some (s1, o1) => (seqRun s1 xs).map fun r => (r.1, o1 ++ r.2)

/-- every cut of the schedule `acc :: rest` is safe, seen from the state before the first chunk: the cut after the
cumulative prefix `acc`, then the cuts of `(acc ++ y) :: rest'` -/
def SafeCutsFrom (L : Bytes) : Bytes → List Bytes → Prop
  | _, [] => True
  | acc, y :: rest => SafeCut tk L acc y ∧ SafeCutsFrom L (acc ++ y) rest

/-- every cut of a schedule is safe (nothing to check for zero or one chunk) -/
def SafeCuts (s : HtmlSt) : List Bytes → Prop
  | [] => True
  | x :: rest => SafeCutsFrom tk s.last x rest

theorem filterHtml_none_append (s : HtmlSt) (x y : Bytes) (h : filterHtml tk ev s x = none) :
    filterHtml tk ev s (x ++ y) = none := by
  unfold filterHtml at h ⊢
  cases hsp : utf8Split (s.last ++ x) with
  | none =>
    have := utf8Split_none_append hsp y
    rw [List.append_assoc] at this
    simp [this]
  | some ap => simp [hsp] at h

theorem seqRun_merge2 (s : HtmlSt) (x y : Bytes) (rest : List Bytes) (hs1 : SafeCut tk s.last x y) :
    seqRun tk ev s (x :: y :: rest) = seqRun tk ev s ((x ++ y) :: rest) := by
  simp only [seqRun]
  cases hf : filterHtml tk ev s x with
  | none => simp [filterHtml_none_append tk ev s x y hf]
  | some r1 =>
    obtain ⟨s1, o1⟩ := r1
    simp only
    rw [filterHtml_merge tk ev s s1 x y o1 hf hs1]
    cases filterHtml tk ev s1 y with
    | none => simp
    | some r2 =>
      obtain ⟨s2, o2⟩ := r2
      simp only [Option.map_some]
      cases seqRun tk ev s2 rest with
      | none => simp
      | some r3 => simp [List.append_assoc]

theorem seqRun_mergeFrom (s : HtmlSt) : ∀ (rest : List Bytes) (acc : Bytes), SafeCutsFrom tk s.last acc rest →
    seqRun tk ev s (acc :: rest) = seqRun tk ev s [acc ++ rest.flatten]
  | [], acc, _ => by simp
  | y :: rest, acc, h => by
    obtain ⟨h1, h2⟩ := h
    rw [seqRun_merge2 tk ev s acc y rest h1, seqRun_mergeFrom s rest (acc ++ y) h2]
    simp [List.append_assoc]

/-- **Chunk invariance of the html stage at safe cuts**: any non-empty schedule whose cuts are all safe gives the
state and the output of the single chunk. -/
theorem seqRun_merge (s : HtmlSt) (cs : List Bytes) (hne : cs ≠ []) (hsafe : SafeCuts tk s cs) :
    seqRun tk ev s cs = seqRun tk ev s [cs.flatten] := by
  cases cs with
  | nil => exact absurd rfl hne
  | cons x rest => simpa using seqRun_mergeFrom tk ev s rest x hsafe

/-! ### a chain that consists of one html stage -/

variable {D E : Type} (codec : Codec D E)

theorem feed_single_html : ∀ (cs : List Bytes) (s s' : HtmlSt) (o : Bytes), seqRun tk ev s cs = some (s', o) →
    ∃ outs, ({ items := [.html s] } : Chain D E).feed tk ev codec cs = ({ items := [.html s'] }, outs) ∧ outs.flatten = o
  | [], s, s', o, h => by
    simp only [seqRun] at h
    injection h with h
    injection h with h1 h2
    subst h1 h2
    exact ⟨[], rfl, rfl⟩
  | x :: xs, s, s', o, h => by
    simp only [seqRun] at h
    cases hf : filterHtml tk ev s x with
    | none => simp [hf] at h
    | some r =>
      obtain ⟨s1, o1⟩ := r
      simp only [hf, Option.map_eq_some_iff] at h
      obtain ⟨⟨s2, o2⟩, h1, h2⟩ := h
      injection h2 with h2 h3
      subst h2 h3
      obtain ⟨outs, f1, f2⟩ := feed_single_html xs s1 s2 o2 h1
      have hfil : ({ items := [.html s] } : Chain D E).filter tk ev codec x = ({ items := [.html s1] }, o1) := by
        have hd : doFilter tk ev codec ([.html s] : List (Stage D E)) x = ([.html s1], some o1) := by
          simp only [doFilter, Stage.filter, hf, Option.map_some]
          by_cases he : o1.isEmpty = true
          · simp [he]
          · simp [he, doFilter]
        simp only [Chain.filter, Bool.false_eq_true, if_false, hd]
      refine ⟨o1 :: outs, ?_, by simp [f2]⟩
      simp only [Chain.feed, hfil, f1]

theorem end_single_html (s : HtmlSt) :
    (({ items := [.html s] } : Chain D E).end tk ev codec).2 = endHtml s := by
  simp only [Chain.end, Bool.false_eq_true, if_false, doEnd, Stage.endWith, Stage.end]
  by_cases h : (endHtml s).isEmpty = true
  · have : endHtml s = [] := by simpa using h
    simp [this, doEnd]
  · simp [h, doEnd]

/-- the run of a one-html-stage chain in terms of `seqRun` (when no call fails) -/
theorem run_single_html (cs : List Bytes) (s s' : HtmlSt) (o : Bytes) (h : seqRun tk ev s cs = some (s', o)) :
    ({ items := [.html s] } : Chain D E).run tk ev codec cs = o ++ endHtml s' := by
  obtain ⟨outs, f1, f2⟩ := feed_single_html tk ev codec cs s s' o h
  simp only [Chain.run, Chain.runOuts, f1, end_single_html, f2]

/-- Boolean form of `SafeCuts` (evaluated by the driver) -/
def safeCutsFromB (L : Bytes) : Bytes → List Bytes → Bool
  | _, [] => true
  | acc, y :: rest => safeCutB tk L acc y && safeCutsFromB L (acc ++ y) rest

def safeCutsB (s : HtmlSt) : List Bytes → Bool
  | [] => true
  | x :: rest => safeCutsFromB tk s.last x rest

theorem safeCutsFromB_sound (L : Bytes) : ∀ (rest : List Bytes) (acc : Bytes),
    safeCutsFromB tk L acc rest = true → SafeCutsFrom tk L acc rest
  | [], _, _ => trivial
  | y :: rest, acc, h => by
    simp only [safeCutsFromB, Bool.and_eq_true] at h
    exact ⟨safeCutB_sound tk L acc y h.1, safeCutsFromB_sound L rest (acc ++ y) h.2⟩

theorem safeCutsB_sound (s : HtmlSt) (cs : List Bytes) (h : safeCutsB tk s cs = true) : SafeCuts tk s cs := by
  cases cs with
  | nil => trivial
  | cons x rest => exact safeCutsFromB_sound tk s.last rest x h

end Rio.Filter
