/-
C03, html stage: lemmas shared by the chunk-invariance proofs.  The token loop of `HtmlFilterBodyAction::filter` does not
read `last_buffer` / `last_context` and only appends to `to_return`; `seqRun` = the html stage over a list of chunks; a
chain that consists of one html stage in terms of `seqRun`.
(Before fe7eac6 this file held the exact-state splitting lemma under the `SafeCut` hypothesis; since the tokenizer context
is carried across chunks every cut is safe, see Proofs/FilterTotal.lean.)
-/
import RioModel.Proofs.FilterHtml
import RioModel.Proofs.FilterUtf8
set_option linter.unusedSimpArgs false
set_option linter.unusedVariables false

namespace Rio.Filter

/-! ### the token loop does not read `last_buffer`, and only appends to `to_return` -/

theorem onStart_setLast (s : HtmlSt) (L c name data : Bytes) :
    onStart { s with last := L, ctx := c } name data =
      ({ (onStart s name data).1 with last := L, ctx := c }, (onStart s name data).2) := by
  rw [onStart_eq, onStart_eq]
  simp only
  split
  · split <;> rfl
  · rfl

theorem onEnd_setLast (tk : Tokenize) (ev : Bytes → Bytes → Bool) (s : HtmlSt) (L c name data : Bytes) :
    onEnd tk ev { s with last := L, ctx := c } name data =
      ({ (onEnd tk ev s name data).1 with last := L, ctx := c }, (onEnd tk ev s name data).2) := by
  rw [onEnd_eq, onEnd_eq]
  simp only
  split <;> split <;> rfl

theorem push_setLast (s : HtmlSt) (L c out d : Bytes) :
    push { s with last := L, ctx := c } out d = ({ (push s out d).1 with last := L, ctx := c }, (push s out d).2) := by
  unfold push
  cases h : s.stack <;> simp [h]

theorem push_out (s : HtmlSt) (out0 out d : Bytes) :
    push s (out0 ++ out) d = ((push s out d).1, out0 ++ (push s out d).2) := by
  unfold push
  cases h : s.stack <;> simp [h]

variable (tk : Tokenize) (ev : Bytes → Bytes → Bool)

theorem stepTok_setLast (s : HtmlSt) (L c out : Bytes) (t : Tok) :
    stepTok tk ev ({ s with last := L, ctx := c }, out) t =
      ({ (stepTok tk ev (s, out) t).1 with last := L, ctx := c }, (stepTok tk ev (s, out) t).2) := by
  cases hk : t.kind with
  | startTag =>
    rw [stepTok_start tk ev _ out t hk, stepTok_start tk ev s out t hk, onStart_setLast]
    split
    · simp only [onEnd_setLast, push_setLast]
    · simp only [push_setLast]
  | endTag =>
    rw [stepTok_end tk ev _ out t hk, stepTok_end tk ev s out t hk]
    simp only [onEnd_setLast, push_setLast]
  | selfClosing =>
    rw [stepTok_self tk ev _ out t hk, stepTok_self tk ev s out t hk, onStart_setLast]
    simp only [onEnd_setLast, push_setLast]
  | text =>
    rw [stepTok_other tk ev _ out t (by simp [hk, isTagKind]), stepTok_other tk ev s out t (by simp [hk, isTagKind])]
    exact push_setLast s L c out t.raw
  | other =>
    rw [stepTok_other tk ev _ out t (by simp [hk, isTagKind]), stepTok_other tk ev s out t (by simp [hk, isTagKind])]
    exact push_setLast s L c out t.raw

theorem stepTok_out (s : HtmlSt) (out0 out : Bytes) (t : Tok) :
    stepTok tk ev (s, out0 ++ out) t = ((stepTok tk ev (s, out) t).1, out0 ++ (stepTok tk ev (s, out) t).2) := by
  cases hk : t.kind with
  | startTag =>
    rw [stepTok_start tk ev s _ t hk, stepTok_start tk ev s out t hk]
    split <;> exact push_out _ _ _ _
  | endTag =>
    rw [stepTok_end tk ev s _ t hk, stepTok_end tk ev s out t hk]
    exact push_out _ _ _ _
  | selfClosing =>
    rw [stepTok_self tk ev s _ t hk, stepTok_self tk ev s out t hk]
    exact push_out _ _ _ _
  | text =>
    rw [stepTok_other tk ev s _ t (by simp [hk, isTagKind]), stepTok_other tk ev s out t (by simp [hk, isTagKind])]
    exact push_out _ _ _ _
  | other =>
    rw [stepTok_other tk ev s _ t (by simp [hk, isTagKind]), stepTok_other tk ev s out t (by simp [hk, isTagKind])]
    exact push_out _ _ _ _

theorem fold_setLast_out (ts : List Tok) : ∀ (s : HtmlSt) (L c out0 : Bytes),
    ts.foldl (stepTok tk ev) ({ s with last := L, ctx := c }, out0) =
      ({ (ts.foldl (stepTok tk ev) (s, [])).1 with last := L, ctx := c },
        out0 ++ (ts.foldl (stepTok tk ev) (s, [])).2) := by
  induction ts with
  | nil => intro s L c out0; simp
  | cons t ts ih =>
    intro s L c out0
    simp only [List.foldl_cons]
    have h1 := stepTok_setLast tk ev s L c out0 t
    have h2 := stepTok_out tk ev s out0 [] t
    simp only [List.append_nil] at h2
    rw [h1, h2]
    generalize stepTok tk ev (s, []) t = p
    obtain ⟨s1, o1⟩ := p
    simp only
    rw [ih s1 L c (out0 ++ o1)]
    have h3 := ih s1 s1.last s1.ctx o1
    have e : ({ s1 with last := s1.last, ctx := s1.ctx } : HtmlSt) = s1 := rfl
    rw [e] at h3
    rw [h3]
    simp [List.append_assoc]

/-! ### sequences of calls -/

/-- the html stage over a list of chunks: final state and concatenated output; `none` = some call failed -/
def seqRun (s : HtmlSt) : List Bytes → Option (HtmlSt × Bytes)
  | [] => some (s, [])
  | x :: xs =>
    match filterHtml tk ev s x with
    | none => none
    | some (s1, o1) => (seqRun s1 xs).map fun r => (r.1, o1 ++ r.2)

theorem filterHtml_none_append (s : HtmlSt) (x y : Bytes) (h : filterHtml tk ev s x = none) :
    filterHtml tk ev s (x ++ y) = none := by
  unfold filterHtml at h ⊢
  cases hsp : utf8Split (s.last ++ x) with
  | none =>
    have := utf8Split_none_append hsp y
    rw [List.append_assoc] at this
    simp [this]
  | some ap => simp [hsp] at h

/-! ### a chain that consists of one html stage -/

variable {D E : Type} (codec : Codec D E)

theorem feed_single_html : ∀ (cs : List Bytes) (s s' : HtmlSt) (o : Bytes), seqRun tk ev s cs = some (s', o) →
    ∃ outs, ({ items := [.html s] } : Chain D E).feed tk ev codec cs = ({ items := [.html s'] }, outs) ∧ outs.flatten = o
  | [], s, s', o, h => by
    simp only [seqRun] at h
    injection h with h
    injection h with h1 h2
    subst h1 h2
    exact ⟨[], rfl, rfl⟩
  | x :: xs, s, s', o, h => by
    simp only [seqRun] at h
    cases hf : filterHtml tk ev s x with
    | none => simp [hf] at h
    | some r =>
      obtain ⟨s1, o1⟩ := r
      simp only [hf, Option.map_eq_some_iff] at h
      obtain ⟨⟨s2, o2⟩, h1, h2⟩ := h
      injection h2 with h2 h3
      subst h2 h3
      obtain ⟨outs, f1, f2⟩ := feed_single_html xs s1 s2 o2 h1
      have hfil : ({ items := [.html s] } : Chain D E).filter tk ev codec x = ({ items := [.html s1] }, o1) := by
        have hd : doFilter tk ev codec ([.html s] : List (Stage D E)) x = ([.html s1], some o1) := by
          simp only [doFilter, Stage.filter, hf, Option.map_some]
          by_cases he : o1.isEmpty = true
          · simp [he]
          · simp [he, doFilter]
        simp only [Chain.filter, Bool.false_eq_true, if_false, hd]
      refine ⟨o1 :: outs, ?_, by simp [f2]⟩
      simp only [Chain.feed, hfil, f1]

theorem end_single_html (s : HtmlSt) :
    (({ items := [.html s] } : Chain D E).end tk ev codec).2 = endHtml s := by
  simp only [Chain.end, Bool.false_eq_true, if_false, doEnd, Stage.endWith, Stage.end]
  by_cases h : (endHtml s).isEmpty = true
  · have : endHtml s = [] := by simpa using h
    simp [this, doEnd]
  · simp [h, doEnd]

/-- the run of a one-html-stage chain in terms of `seqRun` (when no call fails) -/
theorem run_single_html (cs : List Bytes) (s s' : HtmlSt) (o : Bytes) (h : seqRun tk ev s cs = some (s', o)) :
    ({ items := [.html s] } : Chain D E).run tk ev codec cs = o ++ endHtml s' := by
  obtain ⟨outs, f1, f2⟩ := feed_single_html tk ev codec cs s s' o h
  simp only [Chain.run, Chain.runOuts, f1, end_single_html, f2]

end Rio.Filter
