/-
Helper lemmas for C09, part 2: the byte order of `str` and the `BTreeMap` collection.
-/
import RioModel.Model.Url
set_option linter.unusedSimpArgs false
set_option linter.unusedVariables false

namespace Rio.Url

/-! ### `bytesLt` is a strict total order -/

theorem bytesLt_irrefl (a : Bytes) : bytesLt a a = false := by
  induction a with
  | nil => rfl
  | cons x xs ih => simp [bytesLt, ih]

theorem bytesLt_trans {a b c : Bytes} (h1 : bytesLt a b = true) (h2 : bytesLt b c = true) :
    bytesLt a c = true := by
  induction a generalizing b c with
  | nil =>
    cases b with
    | nil => simp [bytesLt] at h1
    | cons y ys =>
      cases c with
      | nil => simp [bytesLt] at h2
      | cons z zs => simp [bytesLt]
  | cons x xs ih =>
    cases b with
    | nil => simp [bytesLt] at h1
    | cons y ys =>
      cases c with
      | nil => simp [bytesLt] at h2
      | cons z zs =>
        simp only [bytesLt, Bool.or_eq_true, decide_eq_true_eq, Bool.and_eq_true, beq_iff_eq] at h1 h2 ⊢
        rcases h1 with h1 | ⟨h1, h1'⟩ <;> rcases h2 with h2 | ⟨h2, h2'⟩
        · left; omega
        · left; omega
        · left; omega
        · right; exact ⟨by omega, ih h1' h2'⟩

theorem bytesLt_total {a b : Bytes} (h1 : bytesLt a b = false) (h2 : a ≠ b) : bytesLt b a = true := by
  induction a generalizing b with
  | nil =>
    cases b with
    | nil => exact absurd rfl h2
    | cons y ys => simp [bytesLt] at h1
  | cons x xs ih =>
    cases b with
    | nil => simp [bytesLt]
    | cons y ys =>
      simp only [bytesLt, Bool.or_eq_false_iff, decide_eq_false_iff_not, Bool.and_eq_false_imp,
        beq_iff_eq] at h1
      simp only [bytesLt, Bool.or_eq_true, decide_eq_true_eq, Bool.and_eq_true, beq_iff_eq]
      by_cases hxy : x = y
      · subst hxy
        right
        refine ⟨rfl, ih (h1.2 rfl) ?_⟩
        intro e; exact h2 (by rw [e])
      · left; omega

theorem bytesLt_asymm {a b : Bytes} (h1 : bytesLt a b = true) : bytesLt b a = false := by
  cases h : bytesLt b a with
  | false => rfl
  | true => have := bytesLt_trans h1 h; rw [bytesLt_irrefl] at this; cases this

theorem bytesLt_ne {a b : Bytes} (h1 : bytesLt a b = true) : a ≠ b := by
  intro e; subst e; rw [bytesLt_irrefl] at h1; cases h1

/-! ### sorted association lists -/

abbrev Map := List (Bytes × Bytes)

/-- strictly increasing keys. -/
def Sorted (m : Map) : Prop := m.Pairwise (fun a b => bytesLt a.1 b.1 = true)

theorem mem_btInsert {k v : Bytes} {m : Map} {x : Bytes × Bytes} (h : x ∈ btInsert k v m) :
    x = (k, v) ∨ x ∈ m := by
  induction m with
  | nil => simp [btInsert] at h; exact Or.inl h
  | cons p rest ih =>
    obtain ⟨k', v'⟩ := p
    unfold btInsert at h
    split at h
    · rcases List.mem_cons.mp h with h | h
      · exact Or.inl h
      · exact Or.inr h
    · split at h
      · rcases List.mem_cons.mp h with h | h
        · exact Or.inl h
        · exact Or.inr (List.mem_cons_of_mem _ h)
      · rcases List.mem_cons.mp h with h | h
        · exact Or.inr (by simp [h])
        · rcases ih h with h | h
          · exact Or.inl h
          · exact Or.inr (List.mem_cons_of_mem _ h)

theorem sorted_btInsert {k v : Bytes} {m : Map} (hm : Sorted m) : Sorted (btInsert k v m) := by
  induction m with
  | nil => simp [btInsert, Sorted]
  | cons p rest ih =>
    obtain ⟨k', v'⟩ := p
    unfold Sorted at hm
    rw [List.pairwise_cons] at hm
    unfold btInsert
    split
    · rename_i hlt
      unfold Sorted
      rw [List.pairwise_cons]
      refine ⟨?_, List.pairwise_cons.mpr hm⟩
      intro x hx
      rcases List.mem_cons.mp hx with h | h
      · subst h; exact hlt
      · exact bytesLt_trans hlt (hm.1 x h)
    · split
      · rename_i _ heq
        have heq : k = k' := by simpa using heq
        subst heq
        unfold Sorted
        rw [List.pairwise_cons]
        exact ⟨hm.1, hm.2⟩
      · rename_i hnlt hne
        have hne : k ≠ k' := by simpa using hne
        have hgt : bytesLt k' k = true := bytesLt_total (by simpa using hnlt) hne
        unfold Sorted
        rw [List.pairwise_cons]
        refine ⟨?_, ih hm.2⟩
        intro x hx
        rcases mem_btInsert hx with h | h
        · subst h; exact hgt
        · exact hm.1 x h

theorem perm_btInsert {k v : Bytes} {m : Map} (hk : k ∉ m.map Prod.fst) :
    (btInsert k v m).Perm ((k, v) :: m) := by
  induction m with
  | nil => simp [btInsert]
  | cons p rest ih =>
    obtain ⟨k', v'⟩ := p
    have hne : k ≠ k' := fun e => hk (by simp [e])
    have hk' : k ∉ rest.map Prod.fst := fun e => hk (by simp at e ⊢; exact Or.inr e)
    unfold btInsert
    split
    · exact List.Perm.refl _
    · rw [if_neg (by simpa using hne)]
      exact ((ih hk').cons (k', v')).trans (List.Perm.swap _ _ _)

theorem keys_btInsert {k v : Bytes} {m : Map} {x : Bytes} (h : x ∈ (btInsert k v m).map Prod.fst) :
    x = k ∨ x ∈ m.map Prod.fst := by
  obtain ⟨p, hp, rfl⟩ := List.mem_map.mp h
  rcases mem_btInsert hp with h | h
  · subst h; exact Or.inl rfl
  · exact Or.inr (List.mem_map.mpr ⟨p, h, rfl⟩)

theorem btCollect_foldl_spec (l : Map) :
    ∀ acc : Map, Sorted acc → (acc.map Prod.fst ++ l.map Prod.fst).Nodup →
      Sorted (l.foldl (fun m p => btInsert p.1 p.2 m) acc) ∧
      (l.foldl (fun m p => btInsert p.1 p.2 m) acc).Perm (acc ++ l) := by
  induction l with
  | nil => intro acc hs _; simp [hs]
  | cons p rest ih =>
    intro acc hs hnd
    simp only [List.foldl_cons]
    have hpk : p.1 ∉ acc.map Prod.fst := by
      intro e
      rw [List.nodup_append] at hnd
      exact hnd.2.2 _ e _ (by simp) rfl
    have hperm := perm_btInsert (v := p.2) hpk
    have hnd' : ((btInsert p.1 p.2 acc).map Prod.fst ++ rest.map Prod.fst).Nodup := by
      have h1 : ((btInsert p.1 p.2 acc).map Prod.fst ++ rest.map Prod.fst).Perm
          (acc.map Prod.fst ++ (p :: rest).map Prod.fst) := by
        have := (hperm.map Prod.fst).append_right (rest.map Prod.fst)
        refine this.trans ?_
        simp only [List.map_cons, List.cons_append]
        exact (List.perm_middle).symm
      exact h1.nodup_iff.mpr hnd
    obtain ⟨h1, h2⟩ := ih _ (sorted_btInsert hs) hnd'
    refine ⟨h1, h2.trans ?_⟩
    refine (hperm.append_right rest).trans ?_
    simp only [List.cons_append]
    exact (List.perm_middle).symm

theorem sorted_btCollect_of_nodup {l : Map} (h : (l.map Prod.fst).Nodup) :
    Sorted (btCollect l) ∧ (btCollect l).Perm l := by
  have := btCollect_foldl_spec l [] (by simp [Sorted]) (by simpa using h)
  simpa [btCollect] using this

/-- the result of collecting is always sorted (no hypothesis). -/
theorem sorted_btCollect (l : Map) : Sorted (btCollect l) := by
  unfold btCollect
  have : ∀ acc : Map, Sorted acc → Sorted (l.foldl (fun m p => btInsert p.1 p.2 m) acc) := by
    induction l with
    | nil => intro acc h; exact h
    | cons p rest ih => intro acc h; exact ih _ (sorted_btInsert h)
  exact this [] (by simp [Sorted])

theorem eq_of_sorted_perm {m m' : Map} (h1 : Sorted m) (h2 : Sorted m') (hp : m.Perm m') : m = m' := by
  refine List.Perm.eq_of_pairwise ?_ h1 h2 hp
  intro a b _ _ hab hba
  rw [bytesLt_asymm hab] at hba; cases hba

/-- **the collected map does not depend on the order of the pairs when the keys are distinct.** -/
theorem btCollect_perm {l l' : Map} (hp : l.Perm l') (hnd : (l.map Prod.fst).Nodup) :
    btCollect l = btCollect l' := by
  have hnd' : (l'.map Prod.fst).Nodup := (hp.map Prod.fst).nodup_iff.mp hnd
  obtain ⟨s1, p1⟩ := sorted_btCollect_of_nodup hnd
  obtain ⟨s2, p2⟩ := sorted_btCollect_of_nodup hnd'
  exact eq_of_sorted_perm s1 s2 (p1.trans (hp.trans p2.symm))

/-! ### filtering by a predicate on keys commutes with collecting -/

theorem btInsert_of_lt_all {k v : Bytes} {m : Map} (h : ∀ x ∈ m, bytesLt k x.1 = true) :
    btInsert k v m = (k, v) :: m := by
  cases m with
  | nil => rfl
  | cons q rest =>
    obtain ⟨k', v'⟩ := q
    have := h (k', v') (by simp)
    simp only at this
    simp [btInsert, this]

theorem filter_btInsert (p : Bytes → Bool) (k v : Bytes) (m : Map) (hm : Sorted m) :
    (btInsert k v m).filter (fun kv => p kv.1) =
      if p k then btInsert k v (m.filter (fun kv => p kv.1)) else m.filter (fun kv => p kv.1) := by
  induction m with
  | nil => cases hp : p k <;> simp [btInsert, hp]
  | cons q rest ih =>
    obtain ⟨k', v'⟩ := q
    unfold Sorted at hm
    rw [List.pairwise_cons] at hm
    have ih := ih hm.2
    by_cases hlt : bytesLt k k' = true
    · have hall : ∀ x ∈ ((k', v') :: rest).filter (fun kv => p kv.1), bytesLt k x.1 = true := by
        intro x hx
        rcases List.mem_cons.mp (List.mem_filter.mp hx).1 with h | h
        · subst h; exact hlt
        · exact bytesLt_trans hlt (hm.1 x h)
      have hins : btInsert k v ((k', v') :: rest) = (k, v) :: (k', v') :: rest := by
        simp [btInsert, hlt]
      rw [hins]
      cases hpk : p k with
      | true => rw [if_pos rfl, btInsert_of_lt_all hall, List.filter_cons]; simp [hpk]
      | false => rw [List.filter_cons]; simp [hpk]
    · by_cases heq : k = k'
      · subst heq
        have hins : btInsert k v ((k, v') :: rest) = (k, v) :: rest := by
          simp [btInsert, bytesLt_irrefl]
        rw [hins]
        cases hpk : p k with
        | true =>
          rw [if_pos rfl, List.filter_cons, List.filter_cons]
          simp [hpk, btInsert, bytesLt_irrefl]
        | false =>
          rw [List.filter_cons, List.filter_cons]; simp [hpk]
      · have hins : btInsert k v ((k', v') :: rest) = (k', v') :: btInsert k v rest := by
          simp [btInsert, hlt, heq]
        rw [hins, List.filter_cons, ih]
        cases hpk' : p k' with
        | true =>
          cases hpk : p k with
          | true =>
            simp only [if_true, List.filter_cons, hpk']
            simp [btInsert, hlt, heq]
          | false => simp [List.filter_cons, hpk']
        | false =>
          simp [List.filter_cons, hpk']

/-- dropping the pairs whose key fails `p` before or after collecting is the same. -/
theorem filter_btCollect (p : Bytes → Bool) (l : Map) :
    (btCollect l).filter (fun kv => p kv.1) = btCollect (l.filter (fun kv => p kv.1)) := by
  unfold btCollect
  have : ∀ acc : Map, Sorted acc →
      (l.foldl (fun m q => btInsert q.1 q.2 m) acc).filter (fun kv => p kv.1) =
      (l.filter (fun kv => p kv.1)).foldl (fun m q => btInsert q.1 q.2 m) (acc.filter (fun kv => p kv.1)) := by
    induction l with
    | nil => intro acc _; rfl
    | cons q rest ih =>
      intro acc hs
      rw [List.foldl_cons, ih _ (sorted_btInsert hs), filter_btInsert p _ _ _ hs, List.filter_cons]
      cases hq : p q.1 <;> simp [hq]
  simpa using this [] (by simp [Sorted])

end Rio.Url
